(* T5 (DArray): the definitions REGENERATED from src/darray/mod.rs (Gen/FnsDa.v, tools/gen_fns.py) and the new
   BitVector::get_word (Gen/FnsBv.v) agree with the hand model (Model/DArrayM.v, Model/BitVec.v).

   The generated functions take the fields of the structures as parameters; for a hand-model darray d they are
       bv.data                    da_data d  = chunks 8 (bv_words (da_bv d))      (Box<[DataLine]>, 8 words a line)
       bv.n_bits                  da_nbits d = bv_nbits (da_bv d)
       ones_inventories.*         inv_n_sets / inv_block / inv_sub / inv_overflow (da_ones d)
       zeroes_inventories.*       da_z_n_sets d, da_z_block d, da_z_sub d, da_z_overflow d : option ..
                                  (option_map of the four projections over da_zeros d : Option<Inventories<false>>)
   The i64 entries of block_inventory are Z on both sides (negative = sparse block).

   Statements
     g_bv_get_word_ok                 (E) BitVector::get_word on the lines = the flat index, no hypothesis
     g_da_select_ones_eq / zeros_eq   the two monomorphic instances of select::<BIT> are g_sel true / g_sel false
                                      (one definition with BIT as a parameter, by conversion)
     scan_sim                         the `loop { .. break .. }` (while_loop (fun _ => Val true) body fuel') against
                                      da_scan at any fuel <= fuel'
     g_sel_sim, g_da_select_ones_sim, g_da_select_zeros_sim
                                      (S) da_select bit bv inv i = Val v -> generated fuel .. = Val v, for every
                                      fuel >= S (length (bv_words bv))
     g_da{1,0}_count_ones_ok, _count_zeros_ok, _len_ok, _is_empty_ok, _get_ok, _get_unchecked_ok      (E)
     g_da{1,0}_select1_sim, _select1_unchecked_sim, g_da0_select0_sim, g_da0_select0_unchecked_sim    (S)
     g_da1_select0_ok / _panics, g_da1_select0_unchecked_panics   (E) `assert!(SELECT0_SUPPORT)`: Fault Panic
   Hypotheses of the simulations (inv_types_ok / da_types_ok), all type invariants of the fields:
     block_inventory entries within i64, subblock_inventory entries below 2^16 (u16),
     fewer than 2^63 overflow positions (an allocation is at most isize::MAX bytes),
     at most 2^57 words in the bit vector (capacity in bits at most 2^63; so that word_idx << 6 stays in usize).
   NOT needed: i < 2^64, words < 2^64, whole lines, overflow positions < 2^64, a bound on the result.
   They hold for everything da_new builds from a bit vector satisfying bv_inv (da_new_types, proved here by a new
   induction over inv_loop / flush_block: DArrayB.v only exported sel_ok).

   End to end (da_gen_of_bitvector, da_gen_of_bools, da_gen_of_positions: the counterparts of C07_from_bitvector,
   C07_from_bits, C07_from_positions, same bounds): the generated query functions applied to the fields of the
   darray the constructor builds answer the list specification, for every fuel above the number of words.

   No disagreement with the hand model was found on in-range arguments.  The simulations cannot be turned into
   equalities of outcomes in one corner only: a block entry equal to i64::MIN (never built) makes `-block_pos`
   overflow in the generated code (Fault Overflow, a panic with overflow checks) where the hand model computes
   the wrapped release-mode value 2^63 - 1 and then panics on the index (Fault Panic); with fewer than 2^63
   overflow positions neither returns a value. *)
From Coq Require Import ZArith Lia ZifyBool ZifyN ZifyNat.
From QwtModel Require Import ListX Loops Consts SelTable Words BitVec RSBin DArrayM Seq ListXP.
From QwtModel Require Import LeavesUtils FnsBv FnsDa LeavesLib LeavesUtilsOk FnsBvOk.
From QwtModel Require BitVecW DArrayL DArrayB DArrayP WordsP BitVecP BinFinalP.
Ltac Zify.zify_post_hook ::= Z.div_mod_to_equations.
Open Scope N_scope.
Arguments N.add : simpl never.
Arguments N.sub : simpl never.
Arguments N.mul : simpl never.
Arguments N.eqb : simpl never.
Arguments N.ltb : simpl never.
Arguments N.leb : simpl never.
Arguments N.pred : simpl never.
Arguments N.of_nat : simpl never.
Arguments N.to_nat : simpl never.
Arguments N.land : simpl never.
Arguments N.lor : simpl never.
Arguments N.lxor : simpl never.
Arguments N.shiftr : simpl never.
Arguments N.shiftl : simpl never.
Arguments N.div : simpl never.
Arguments N.modulo : simpl never.
Arguments N.pow : simpl never.
Arguments Z.of_N : simpl never.
Arguments Z.to_N : simpl never.
Arguments Z.sub : simpl never.
Arguments Z.opp : simpl never.
Arguments Z.ltb : simpl never.
Arguments Z.pow : simpl never.
Arguments Z.modulo : simpl never.

(* ================================================================== general lemmas *)
Lemma oadd_ok w a b : a + b < 2 ^ w -> oadd w a b = Val (a + b).
Proof. intros H. unfold oadd. destruct (N.ltb_spec (a + b) (2 ^ w)); [reflexivity|lia]. Qed.

Lemma osub_ok a b : b <= a -> osub a b = Val (a - b).
Proof. intros H. unfold osub. destruct (N.leb_spec b a); [reflexivity|lia]. Qed.

Lemma pow63Z : (2 ^ (Z.of_N 64 - 1) = 9223372036854775808)%Z.
Proof. reflexivity. Qed.

Lemma zineg64_ok a : (- 9223372036854775808 < a <= 9223372036854775808)%Z -> zineg 64 a = Val (- a)%Z.
Proof.
  intros H. unfold zineg, zin. rewrite pow63Z.
  repeat match goal with
  | |- context [Z.leb ?x ?y] => destruct (Z.leb_spec x y)
  | |- context [Z.ltb ?x ?y] => destruct (Z.ltb_spec x y)
  end; cbn [andb]; try reflexivity; lia.
Qed.

Lemma zisub64_ok a b : (- 9223372036854775808 <= a - b < 9223372036854775808)%Z -> zisub 64 a b = Val (a - b)%Z.
Proof.
  intros H. unfold zisub, zin. rewrite pow63Z.
  repeat match goal with
  | |- context [Z.leb ?x ?y] => destruct (Z.leb_spec x y)
  | |- context [Z.ltb ?x ?y] => destruct (Z.ltb_spec x y)
  end; cbn [andb]; try reflexivity; lia.
Qed.

(* the generated select_in_word is the hand model's on every argument (LeavesUtilsOk.g_select_in_word_ok states it
   for word, k < 2^64 and does not use the bounds; same proof) *)
Lemma g_siw_eq : forall word k, g_select_in_word word k = select_in_word word k.
Proof.
  intros word k. unfold g_select_in_word, select_in_word, M64. cbv zeta.
  generalize sel_table; intros tbl.
  repeat ofold.
  repeat first [ obind | oif; [reflexivity|] | ofold ].
  reflexivity.
Qed.

(* ================================================================== BitVector::get_word *)
(* self.data[i >> 3].words[i % 8] on the lines = the flat index of the hand model; no hypothesis: a short last
   line (not a multiple of 8 words, never built) answers the same panic *)
Theorem g_bv_get_word_ok : forall b i, g_bv_get_word (chunks 8 (bv_words b)) i = bv_get_word b i.
Proof.
  intros b i. unfold g_bv_get_word, bv_get_word, idx. pose proof (word_split i) as Hs.
  destruct (N.ltb_spec (N.shiftr i 3 * 8) (len (bv_words b))) as [Hi|Hi].
  - rewrite nthN_chunks by exact Hi. cbn [bind]. rewrite nthN_line by lia. now rewrite Hs.
  - rewrite nthN_chunks_none by exact Hi. cbn [bind].
    rewrite nthN_none by lia. reflexivity.
Qed.

(* ================================================================== DArray::select::<BIT> *)
(* the two monomorphic instances are one definition parameterised by BIT (checked by conversion below) *)
Definition g_scan_body (bit : bool) (bv_data : list (list N)) : N * N * N -> outcome (step (N * N * N) (option N)) :=
  fun '(reminder, word_idx, word) =>
    let popcnt := popcount word in
    if N.ltb reminder popcnt then
      Val (Brk (reminder, word_idx, word))
    else
      let! reminder := osub reminder popcnt in
      let! word_idx := oadd 64 word_idx 1 in
      let! word := g_bv_get_word bv_data word_idx in
      let word := if bit then word else N.lxor word (2 ^ 64 - 1) in
      Val (Next (reminder, word_idx, word)).

Definition g_sel (bit : bool) (fuel : nat) (bv_data : list (list N)) (i : N) (inventories_n_sets : N) (inventories_block_inventory : list Z) (inventories_subblock_inventory : list N) (inventories_overflow_positions : list N) : outcome (option N) :=
  if N.leb inventories_n_sets i then
    Val None
  else
    let block := i / 1024 in
    let! block_pos := idx inventories_block_inventory block in
    if Z.ltb block_pos (0%Z) then
      let! t1 := zineg 64 block_pos in
      let! t2 := zisub 64 t1 (1%Z) in
      let overflow_pos := Z.to_N (Z.modulo t2 (2 ^ 64)%Z) in
      let! t3 := osub 1024 1 in
      let! idx_ := oadd 64 overflow_pos (N.land i t3) in
      let! t4 := idx inventories_overflow_positions idx_ in
      Val (Some t4)
    else
      let subblock := i / 32 in
      let! t5 := idx inventories_subblock_inventory subblock in
      let! start_pos := oadd 64 (Z.to_N (Z.modulo block_pos (2 ^ 64)%Z)) t5 in
      let! t6 := osub 32 1 in
      let reminder := N.land i t6 in
      if N.eqb reminder 0 then
        Val (Some start_pos)
      else
        let word_idx := N.shiftr start_pos 6 in
        let word_shift := N.land start_pos 63 in
        let! t7 := g_bv_get_word bv_data word_idx in
        let! t8 := oshl 64 (2 ^ 64 - 1) word_shift in
        let word := N.land (if bit then t7 else N.lxor t7 (2 ^ 64 - 1)) t8 in
        let! r := while_loop (fun '(reminder, word_idx, word) =>
            Val true
          ) (g_scan_body bit bv_data) fuel (reminder, word_idx, word) in
        match r with
        | Retd v => Val v
        | Done (reminder, word_idx, word) =>
            let! t9 := g_select_in_word word reminder in
            let select_intra := t9 in
            let! t10 := oadd 64 (N.shiftl word_idx 6 mod 2 ^ 64) select_intra in
            Val (Some t10)
        end.

Lemma g_da_select_ones_eq : g_da_select_ones = g_sel true.
Proof. reflexivity. Qed.
Lemma g_da_select_zeros_eq : g_da_select_zeros = g_sel false.
Proof. reflexivity. Qed.

(* the scan `loop { .. break .. }` against da_scan: one iteration of the one is one unfolding of the other; the
   only extra check, word_idx + 1 on usize, cannot fail because the hand model then reads that word *)
Lemma scan_sim bit bv : len (bv_words bv) < 2 ^ 64 ->
  forall fuel fuel' word rem j w' r' j', (fuel <= fuel')%nat ->
  da_scan bit bv word rem j fuel = Val (w', r', j') ->
  while_loop (fun '(reminder, word_idx, word) => Val true) (g_scan_body bit (chunks 8 (bv_words bv)))
    fuel' (rem, j, word) = Val (Done (r', j', w')).
Proof.
  intros Hlen. induction fuel as [|f IH]; intros fuel' word rem j w' r' j' Hle H; [discriminate|].
  destruct fuel' as [|f']; [lia|].
  cbn [while_loop da_scan bind] in *. unfold g_scan_body at 1. cbv beta iota zeta.
  destruct (rem <? popcount word) eqn:Ec.
  - apply Val_inj in H. injection H as <- <- <-. reflexivity.
  - destruct (bv_get_word bv (j + 1)) as [w|] eqn:E; cbn [bind] in H; [|discriminate].
    assert (Hj : j + 1 < len (bv_words bv)).
    { unfold bv_get_word, idx in E. destruct (nthN (bv_words bv) (j + 1)) eqn:En; [|discriminate].
      eapply nthN_some_lt. exact En. }
    rewrite osub_ok by lia. cbn [bind]. rewrite oadd_ok by lia. cbn [bind].
    rewrite g_bv_get_word_ok, E. cbn [bind].
    apply IH; [lia|]. exact H.
Qed.

Lemma select_in_word_lt w k s : select_in_word w k = Val s -> s < 2 ^ 32.
Proof.
  unfold select_in_word. cbv zeta.
  repeat lazymatch goal with
  | |- bind ?x _ = _ -> _ => destruct x; cbn [bind]; [|discriminate]
  end.
  destruct (_ =? SIW_NOTFOUND).
  - intros E. apply Val_inj in E. subst s. reflexivity.
  - repeat lazymatch goal with
    | |- bind ?x _ = _ -> _ => destruct x; cbn [bind]; [|discriminate]
    end.
    lazymatch goal with
    | |- oadd 32 ?a ?b = _ -> _ => unfold oadd; destruct (N.ltb_spec (a + b) (2 ^ 32)); [|discriminate]
    end.
    intros E. apply Val_inj in E. subst s. assumption.
Qed.

(* the type invariants of the fields *)
Definition i64_ok (z : Z) : Prop := (- 9223372036854775808 <= z < 9223372036854775808)%Z.

Lemma da_scan_idx bit bv : forall fuel word rem j w' r' j',
  da_scan bit bv word rem j fuel = Val (w', r', j') -> j < len (bv_words bv) -> j' < len (bv_words bv).
Proof.
  induction fuel as [|f IH]; intros word rem j w' r' j' H Hj; [discriminate|].
  cbn [da_scan] in H. cbv zeta in H.
  destruct (rem <? popcount word).
  - apply Val_inj in H. injection H as <- <- <-. exact Hj.
  - destruct (bv_get_word bv (j + 1)) as [w|] eqn:E; cbn [bind] in H; [|discriminate].
    apply IH in H; [exact H|].
    unfold bv_get_word, idx in E. destruct (nthN (bv_words bv) (j + 1)) eqn:En; [|discriminate].
    eapply nthN_some_lt. exact En.
Qed.

Theorem g_sel_sim : forall bit bv inv i fuel v,
  len (bv_words bv) <= 2 ^ 57 ->
  Forall i64_ok (inv_block inv) -> Forall (fun s => s < 2 ^ 16) (inv_sub inv) ->
  len (inv_overflow inv) < 2 ^ 63 ->
  (S (length (bv_words bv)) <= fuel)%nat ->
  da_select bit bv inv i = Val v ->
  g_sel bit fuel (chunks 8 (bv_words bv)) i (inv_n_sets inv) (inv_block inv) (inv_sub inv) (inv_overflow inv) = Val v.
Proof.
  intros bit bv inv i fuel v Hlen Hblk Hsub Hovf Hfuel.
  assert (P57 : 2 ^ 57 = 144115188075855872) by reflexivity.
  assert (P64 : 2 ^ 64 = 18446744073709551616) by reflexivity.
  assert (P63 : 2 ^ 63 = 9223372036854775808) by reflexivity.
  assert (P32 : 2 ^ 32 = 4294967296) by reflexivity.
  assert (P16 : 2 ^ 16 = 65536) by reflexivity.
  assert (P64Z : (2 ^ 64 = 18446744073709551616)%Z) by reflexivity.
  unfold da_select, g_sel. rewrite DArrayB.DA_BLOCK_val, DArrayB.DA_SUBBLOCK_val. cbv zeta.
  destruct (inv_n_sets inv <=? i); [exact (fun H => H)|].
  rewrite DArrayB.nthZ_nthN.
  destruct (nthN (inv_block inv) (i / 1024)) as [bp|] eqn:Eb; cbn [bind]; [|discriminate].
  pose proof (BitVecW.Forall_nthN _ _ _ _ Hblk Eb) as Hbp. unfold i64_ok in Hbp.
  assert (Eb' : idx (inv_block inv) (i / 1024) = Val bp) by (unfold idx; now rewrite Eb).
  rewrite Eb'. cbn [bind].
  destruct (Z.ltb_spec bp 0) as [Hneg|Hpos].
  - (* sparse block *)
    destruct (idx (inv_overflow inv) (Z.to_N (- bp - 1) + N.land i (1024 - 1))) as [p|] eqn:Eo; cbn [bind]; [|discriminate].
    intros H.
    assert (Ho : Z.to_N (- bp - 1) + N.land i (1024 - 1) < len (inv_overflow inv)).
    { unfold idx in Eo. destruct (nthN (inv_overflow inv) _) eqn:En in Eo; [|discriminate].
      eapply nthN_some_lt. exact En. }
    rewrite zineg64_ok by lia. cbn [bind]. rewrite zisub64_ok by lia. cbn [bind].
    change (osub 1024 1) with (Val (1024 - 1)). cbn [bind].
    rewrite P64Z, Z.mod_small by lia.
    rewrite oadd_ok by lia. cbn [bind]. rewrite Eo. cbn [bind]. exact H.
  - (* dense block *)
    destruct (idx (inv_sub inv) (i / 32)) as [sb|] eqn:Es; cbn [bind]; [|discriminate].
    pose proof (idx_Forall _ _ _ _ Hsub Es) as Hsb. cbv beta in Hsb.
    rewrite P64Z, Z.mod_small by lia.
    rewrite oadd_ok by lia. cbn [bind].
    change (osub 32 1) with (Val (32 - 1)). cbn [bind].
    set (start := Z.to_N bp + sb). set (rem := N.land i (32 - 1)).
    destruct (rem =? 0); [exact (fun H => H)|].
    rewrite g_bv_get_word_ok.
    destruct (bv_get_word bv (N.shiftr start 6)) as [w|] eqn:Ew; cbn [bind]; [|discriminate].
    assert (Hj : N.shiftr start 6 < len (bv_words bv)).
    { unfold bv_get_word, idx in Ew. destruct (nthN (bv_words bv) (N.shiftr start 6)) eqn:En; [|discriminate].
      eapply nthN_some_lt. exact En. }
    assert (Hsh : N.land start 63 < 64).
    { change 63 with (N.ones 6). change 64 with (2 ^ 6). apply land_ones_lt. }
    unfold oshl. destruct (N.ltb_spec (N.land start 63) 64) as [_|]; [|lia]. cbn [bind].
    change (N.lxor w (2 ^ 64 - 1)) with (notw w).
    change (N.shiftl (2 ^ 64 - 1) (N.land start 63) mod 2 ^ 64) with (N.shiftl (M64 - 1) (N.land start 63) mod M64).
    set (word := N.land (if bit then w else notw w) (N.shiftl (M64 - 1) (N.land start 63) mod M64)).
    destruct (da_scan bit bv word rem (N.shiftr start 6) (S (length (bv_words bv)))) as [[[w' r'] j']|] eqn:Esc;
      cbn [bind]; [|discriminate].
    rewrite (scan_sim bit bv ltac:(lia) _ fuel _ _ _ _ _ _ Hfuel Esc). cbn [bind].
    pose proof (da_scan_idx bit bv _ _ _ _ _ _ _ Esc Hj) as Hj'.
    replace (g_select_in_word w' r') with (select_in_word w' r') by (symmetry; apply g_siw_eq).
    destruct (select_in_word w' r') as [s|] eqn:Esw; cbn [bind]; [|discriminate].
    intros H. apply select_in_word_lt in Esw.
    rewrite N.shiftl_mul_pow2 in *. change (2 ^ 6) with 64 in *.
    rewrite N.mod_small by lia. rewrite oadd_ok by lia. cbn [bind]. exact H.
Qed.

(* ------------------------------------------------------------------ the two instances *)
Definition inv_types_ok (inv : inventories) : Prop :=
  Forall i64_ok (inv_block inv) /\ Forall (fun s => s < 2 ^ 16) (inv_sub inv) /\ len (inv_overflow inv) < 2 ^ 63.

Theorem g_da_select_ones_sim : forall bv inv i fuel v,
  len (bv_words bv) <= 2 ^ 57 -> inv_types_ok inv -> (S (length (bv_words bv)) <= fuel)%nat ->
  da_select true bv inv i = Val v ->
  g_da_select_ones fuel (chunks 8 (bv_words bv)) i (inv_n_sets inv) (inv_block inv) (inv_sub inv) (inv_overflow inv)
    = Val v.
Proof.
  intros bv inv i fuel v Hl (H1 & H2 & H3) Hf H. rewrite g_da_select_ones_eq. now apply g_sel_sim.
Qed.

Theorem g_da_select_zeros_sim : forall bv inv i fuel v,
  len (bv_words bv) <= 2 ^ 57 -> inv_types_ok inv -> (S (length (bv_words bv)) <= fuel)%nat ->
  da_select false bv inv i = Val v ->
  g_da_select_zeros fuel (chunks 8 (bv_words bv)) i (inv_n_sets inv) (inv_block inv) (inv_sub inv) (inv_overflow inv)
    = Val v.
Proof.
  intros bv inv i fuel v Hl (H1 & H2 & H3) Hf H. rewrite g_da_select_zeros_eq. now apply g_sel_sim.
Qed.

(* ================================================================== the public functions of DArray *)
(* the fields of a hand-model darray, as the parameters of the generated functions *)
Definition da_data (d : darray) : list (list N) := chunks 8 (bv_words (da_bv d)).
Definition da_nbits (d : darray) : N := bv_nbits (da_bv d).
Definition da_z_n_sets (d : darray) : option N := option_map inv_n_sets (da_zeros d).
Definition da_z_block (d : darray) : option (list Z) := option_map inv_block (da_zeros d).
Definition da_z_sub (d : darray) : option (list N) := option_map inv_sub (da_zeros d).
Definition da_z_overflow (d : darray) : option (list N) := option_map inv_overflow (da_zeros d).

Definition da_types_ok (d : darray) : Prop :=
  len (bv_words (da_bv d)) <= 2 ^ 57 /\ inv_types_ok (da_ones d) /\
  match da_zeros d with Some z => inv_types_ok z | None => True end.

(* ---- SELECT0_SUPPORT = false (the g_da1 functions) and true (the g_da0 functions): count_ones, count_zeros, len, is_empty, get,
   get_unchecked are equalities *)
Theorem g_da1_count_ones_ok : forall d, g_da1_count_ones (inv_n_sets (da_ones d)) = Val (da_count_ones d).
Proof. reflexivity. Qed.
Theorem g_da0_count_ones_ok : forall d, g_da0_count_ones (inv_n_sets (da_ones d)) = Val (da_count_ones d).
Proof. reflexivity. Qed.
Theorem g_da1_count_zeros_ok : forall d, g_da1_count_zeros (da_nbits d) (inv_n_sets (da_ones d)) = da_count_zeros d.
Proof. reflexivity. Qed.
Theorem g_da0_count_zeros_ok : forall d, g_da0_count_zeros (da_nbits d) (inv_n_sets (da_ones d)) = da_count_zeros d.
Proof. reflexivity. Qed.
Theorem g_da1_len_ok : forall d, g_da1_len (da_nbits d) = Val (da_len d).
Proof. reflexivity. Qed.
Theorem g_da0_len_ok : forall d, g_da0_len (da_nbits d) = Val (da_len d).
Proof. reflexivity. Qed.
(* the hand model has no is_empty: it is len = 0 *)
Theorem g_da1_is_empty_ok : forall d, g_da1_is_empty (da_nbits d) = Val (da_len d =? 0).
Proof. reflexivity. Qed.
Theorem g_da0_is_empty_ok : forall d, g_da0_is_empty (da_nbits d) = Val (da_len d =? 0).
Proof. reflexivity. Qed.
Theorem g_da1_get_ok : forall d i, g_da1_get (da_data d) (da_nbits d) i = da_get d i.
Proof. intros d i. apply g_bv_get_chunks. Qed.
Theorem g_da0_get_ok : forall d i, g_da0_get (da_data d) (da_nbits d) i = da_get d i.
Proof. intros d i. apply g_bv_get_chunks. Qed.
(* the hand model has no get_unchecked on DArray: it is the bit vector's *)
Theorem g_da1_get_unchecked_ok : forall d i, g_da1_get_unchecked (da_data d) i = bv_get_unchecked (da_bv d) i.
Proof. intros d i. apply g_bv_get_unchecked_chunks. Qed.
Theorem g_da0_get_unchecked_ok : forall d i, g_da0_get_unchecked (da_data d) i = bv_get_unchecked (da_bv d) i.
Proof. intros d i. apply g_bv_get_unchecked_chunks. Qed.

(* ---- select1 / select1_unchecked: simulations *)
Theorem g_da1_select1_sim : forall d i fuel v, da_types_ok d -> (S (length (bv_words (da_bv d))) <= fuel)%nat ->
  da_select1 d i = Val v ->
  g_da1_select1 fuel (da_data d) (inv_n_sets (da_ones d)) (inv_block (da_ones d)) (inv_sub (da_ones d))
    (inv_overflow (da_ones d)) i = Val v.
Proof. intros d i fuel v (Hl & Ho & _) Hf H. unfold g_da1_select1. now apply g_da_select_ones_sim. Qed.

Theorem g_da0_select1_sim : forall d i fuel v, da_types_ok d -> (S (length (bv_words (da_bv d))) <= fuel)%nat ->
  da_select1 d i = Val v ->
  g_da0_select1 fuel (da_data d) (inv_n_sets (da_ones d)) (inv_block (da_ones d)) (inv_sub (da_ones d))
    (inv_overflow (da_ones d)) i = Val v.
Proof. intros d i fuel v (Hl & Ho & _) Hf H. unfold g_da0_select1. now apply g_da_select_ones_sim. Qed.

(* select1_unchecked = select1(..).unwrap(): the hand model has no separate function *)
Theorem g_da1_select1_unchecked_sim : forall d i fuel v, da_types_ok d ->
  (S (length (bv_words (da_bv d))) <= fuel)%nat -> da_select1 d i = Val v ->
  g_da1_select1_unchecked fuel (da_data d) (inv_n_sets (da_ones d)) (inv_block (da_ones d)) (inv_sub (da_ones d))
    (inv_overflow (da_ones d)) i = ounwrap v.
Proof.
  intros d i fuel v (Hl & Ho & _) Hf H. unfold g_da1_select1_unchecked, da_data.
  rewrite (g_da_select_ones_sim _ _ _ _ _ Hl Ho Hf H). reflexivity.
Qed.

Theorem g_da0_select1_unchecked_sim : forall d i fuel v, da_types_ok d ->
  (S (length (bv_words (da_bv d))) <= fuel)%nat -> da_select1 d i = Val v ->
  g_da0_select1_unchecked fuel (da_data d) (inv_n_sets (da_ones d)) (inv_block (da_ones d)) (inv_sub (da_ones d))
    (inv_overflow (da_ones d)) i = ounwrap v.
Proof.
  intros d i fuel v (Hl & Ho & _) Hf H. unfold g_da0_select1_unchecked, da_data.
  rewrite (g_da_select_ones_sim _ _ _ _ _ Hl Ho Hf H). reflexivity.
Qed.

(* ---- select0 / select0_unchecked *)
(* without select0 support: `assert!(SELECT0_SUPPORT)` is the documented panic, whatever the fields and the fuel *)
Theorem g_da1_select0_ok : forall fuel data zn zb zs zo i d,
  g_da1_select0 fuel data zn zb zs zo i = da_select0 false d i.
Proof. reflexivity. Qed.
Theorem g_da1_select0_panics : forall fuel data zn zb zs zo i, g_da1_select0 fuel data zn zb zs zo i = Fault Panic.
Proof. reflexivity. Qed.
Theorem g_da1_select0_unchecked_panics : forall fuel data zn zb zs zo i,
  g_da1_select0_unchecked fuel data zn zb zs zo i = Fault Panic.
Proof. reflexivity. Qed.

(* with select0 support *)
Theorem g_da0_select0_sim : forall d i fuel v, da_types_ok d -> (S (length (bv_words (da_bv d))) <= fuel)%nat ->
  da_select0 true d i = Val v ->
  g_da0_select0 fuel (da_data d) (da_z_n_sets d) (da_z_block d) (da_z_sub d) (da_z_overflow d) i = Val v.
Proof.
  intros d i fuel v (Hl & _ & Hz) Hf. unfold da_select0, g_da0_select0, da_z_n_sets, da_z_block, da_z_sub, da_z_overflow.
  cbn [oassert bind].
  destruct (da_zeros d) as [z|]; cbn [ounwrap option_map bind]; [|discriminate].
  intros H. now apply g_da_select_zeros_sim.
Qed.

(* zeroes_inventories = None (never built with SELECT0_SUPPORT = true): the same panic on both sides *)
Theorem g_da0_select0_none : forall d i fuel, da_zeros d = None ->
  g_da0_select0 fuel (da_data d) (da_z_n_sets d) (da_z_block d) (da_z_sub d) (da_z_overflow d) i = da_select0 true d i.
Proof.
  intros d i fuel E. unfold da_select0, g_da0_select0, da_z_n_sets. rewrite E. reflexivity.
Qed.

Theorem g_da0_select0_unchecked_sim : forall d i fuel v, da_types_ok d ->
  (S (length (bv_words (da_bv d))) <= fuel)%nat -> da_select0 true d i = Val v ->
  g_da0_select0_unchecked fuel (da_data d) (da_z_n_sets d) (da_z_block d) (da_z_sub d) (da_z_overflow d) i = ounwrap v.
Proof.
  intros d i fuel v (Hl & _ & Hz) Hf.
  unfold da_select0, g_da0_select0_unchecked, da_z_n_sets, da_z_block, da_z_sub, da_z_overflow, da_data.
  cbn [oassert bind].
  destruct (da_zeros d) as [z|]; cbn [ounwrap option_map bind]; [|discriminate].
  intros H. rewrite (g_da_select_zeros_sim _ _ _ _ _ Hl Hz Hf H). reflexivity.
Qed.

(* ================================================================== what da_new builds *)
(* the type invariants of the inventories hold for everything Inventories::new builds from a well-formed bit vector
   (fewer than 2^63 bits): the construction state (vectors reversed), K bounding the number of overflow positions *)
Definition st_types (K : N) (st : list Z * list N * list N) : Prop :=
  let '(blk, sub, ovf) := st in
  Forall i64_ok blk /\ Forall (fun s => s < 2 ^ 16) sub /\ len ovf <= K.

Lemma flush_types curr st st' K : flush_block curr st = Val st' ->
  Forall (fun p => p < 2 ^ 63) curr -> st_types K st -> K < 2 ^ 63 ->
  st_types (K + len curr) st'.
Proof.
  assert (P63 : 2 ^ 63 = 9223372036854775808) by reflexivity.
  destruct st as ((blk, sub), ovf). intros H Hc (Hb & Hs & Ho) HK.
  destruct curr as [|first c].
  - cbn [flush_block] in H. apply Val_inj in H. subst st'. unfold st_types. repeat split; auto. lia.
  - rewrite (DArrayB.flush_block_eq (first :: c) first) in H by apply nthN_0.
    destruct (osub _ _) as [dd|]; cbn [bind] in H; [|discriminate].
    destruct (dd <? DA_MAX_DIST).
    + apply Val_inj in H. subst st'. unfold st_types. split; [|split].
      * constructor; [|exact Hb]. inversion Hc; subst. unfold i64_ok. lia.
      * apply Forall_app. split; [|exact Hs]. apply Forall_rev. apply Forall_forall. intros x Hx.
        apply in_map_iff in Hx. destruct Hx as (p & <- & _). apply N.mod_upper_bound, N.pow_nonzero. discriminate.
      * lia.
    + apply Val_inj in H. subst st'. unfold st_types. split; [|split].
      * constructor; [|exact Hb]. unfold i64_ok. lia.
      * apply Forall_app. split; [|exact Hs]. apply Forall_forall. intros x Hx.
        apply repeat_spec in Hx. subst x. reflexivity.
      * rewrite len_app, DArrayL.len_rev. lia.
Qed.

Lemma inv_loop_types : forall ps cr nc st n cr' st' n' K B,
  inv_loop ps cr nc st n = Val (cr', st', n') ->
  Forall (fun p => p < 2 ^ 63) ps -> Forall (fun p => p < 2 ^ 63) cr -> st_types K st ->
  K + len cr + len ps <= B -> B < 2 ^ 63 ->
  exists K', st_types K' st' /\ Forall (fun p => p < 2 ^ 63) cr' /\ K' + len cr' <= B.
Proof.
  induction ps as [|p r IH]; intros cr nc st n cr' st' n' K B H Hps Hcr Hst HB HB63.
  - cbn [inv_loop] in H. apply Val_inj in H. injection H as <- <- <-. exists K.
    rewrite len_nil in HB. repeat split; auto; lia.
  - cbn [inv_loop] in H. inversion Hps as [|? ? Hp Hr]; subst. rewrite len_cons in HB.
    destruct (nc + 1 =? DA_BLOCK).
    + destruct (flush_block (rev (p :: cr)) st) as [st1|] eqn:Ef; cbn [bind] in H; [|discriminate].
      apply (flush_types _ _ _ K) in Ef; [| apply Forall_rev; constructor; assumption | exact Hst | lia].
      rewrite DArrayL.len_rev, len_cons in Ef.
      apply (IH _ _ _ _ _ _ _ _ B H Hr (Forall_nil _) Ef); [rewrite len_nil; lia|lia].
    + apply (IH _ _ _ _ _ _ _ K B H Hr); [constructor; assumption|exact Hst|rewrite len_cons; lia|lia].
Qed.

Lemma positions_lt bit : forall l pos, Forall (fun p => p < pos + len l) (DArrayP.positions_of bit l pos).
Proof.
  induction l as [|x l IH]; intros pos; cbn [DArrayP.positions_of]; [constructor|].
  rewrite len_cons. apply Forall_app. split.
  - destruct (Bool.eqb x bit); constructor; [lia|constructor].
  - eapply Forall_impl; [|apply IH]. cbv beta. intros a Ha. lia.
Qed.

Lemma positions_len_le bit : forall l pos, len (DArrayP.positions_of bit l pos) <= len l.
Proof.
  induction l as [|x l IH]; intros pos; cbn [DArrayP.positions_of]; [rewrite !len_nil; lia|].
  rewrite len_app, len_cons. specialize (IH (pos + 1)).
  destruct (Bool.eqb x bit); [rewrite len_cons, len_nil|rewrite len_nil]; lia.
Qed.

Lemma inv_new_types bit bv inv : DArrayP.bv_wf bv -> inv_new bit bv = Val inv -> inv_types_ok inv.
Proof.
  intros Hwf. unfold inv_new. cbv zeta.
  rewrite (BinFinalP.pi_collect_new_wf WordsP.select_in_word_correct WordsP.popcount_correct) by (try exact Hwf; lia).
  set (P := DArrayP.positions_of bit (bv_abs bv) 0).
  pose proof (DArrayP.abs_len bv Hwf) as Hal.
  assert (H63 : bv_nbits bv < 2 ^ 63) by (destruct Hwf as (_ & _ & _ & H); exact H).
  assert (HP : Forall (fun p => p < 2 ^ 63) P).
  { eapply Forall_impl; [|apply positions_lt]. cbv beta. intros a Ha. lia. }
  pose proof (positions_len_le bit (bv_abs bv) 0) as HPl. fold P in HPl.
  destruct (inv_loop P [] 0 ([], [], []) 0) as [[[cr st] n]|] eqn:El; cbn [bind]; [|discriminate].
  destruct (inv_loop_types _ _ _ _ _ _ _ _ 0 (len P) El HP (Forall_nil _)) as (K' & Hst & Hcr & HK).
  { unfold st_types. repeat split; try constructor. rewrite len_nil. lia. }
  { lens. lia. }
  { lia. }
  destruct (flush_block (rev cr) st) as [[[blk sub] ovf]|] eqn:Ef; cbn [bind]; [|discriminate].
  apply (flush_types _ _ _ K') in Ef; [|apply Forall_rev; exact Hcr|exact Hst|lia].
  destruct Ef as (Hb & Hs & Ho). rewrite DArrayL.len_rev in Ho.
  intros H. apply Val_inj in H. subst inv. unfold inv_types_ok. cbn [inv_block inv_sub inv_overflow].
  split; [apply Forall_rev; exact Hb|]. split; [apply Forall_rev; exact Hs|].
  rewrite DArrayL.len_rev. lia.
Qed.

Lemma da_new_types s0 bv d : DArrayP.bv_wf bv -> da_new s0 bv = Val d -> da_bv d = bv /\ da_types_ok d.
Proof.
  intros Hwf. unfold da_new.
  destruct (inv_new true bv) as [ones|] eqn:E1; cbn [bind]; [|discriminate].
  pose proof (inv_new_types true bv ones Hwf E1) as H1.
  assert (Hl : len (bv_words bv) <= 2 ^ 57).
  { destruct Hwf as (Hlen & _ & _ & H63). assert (2 ^ 57 = 144115188075855872) by reflexivity.
    assert (2 ^ 63 = 9223372036854775808) by reflexivity. lia. }
  destruct s0.
  - destruct (inv_new false bv) as [z|] eqn:E0; cbn [bind]; [|discriminate].
    pose proof (inv_new_types false bv z Hwf E0) as H0.
    intros H. apply Val_inj in H. subst d. unfold da_types_ok. cbn [da_bv da_ones da_zeros]. auto.
  - cbn [bind]. intros H. apply Val_inj in H. subst d. unfold da_types_ok. cbn [da_bv da_ones da_zeros]. auto.
Qed.

(* ================================================================== end to end *)
(* what the GENERATED query functions of DArray<false> (g_da1) / DArray<true> (g_da0) answer on the fields of a
   hand-model darray d, against the list specification of the bit sequence s; for every fuel above the number
   of words.  x_unchecked = x(..).unwrap(): the value when the specification has one, the panic otherwise. *)
Definition C07_gen1 (d : darray) (s : list bool) : Prop :=
  forall fuel, (S (length (bv_words (da_bv d))) <= fuel)%nat ->
  let data := da_data d in let nbits := da_nbits d in
  let on := inv_n_sets (da_ones d) in let ob := inv_block (da_ones d) in
  let os := inv_sub (da_ones d) in let oo := inv_overflow (da_ones d) in
  g_da1_len nbits = Val (len s) /\ g_da1_is_empty nbits = Val (len s =? 0) /\
  g_da1_count_ones on = Val (countb s) /\ g_da1_count_zeros nbits on = Val (len s - countb s) /\
  (forall i, g_da1_get data nbits i = Val (nthN s i)) /\
  (forall i b, nthN s i = Some b -> g_da1_get_unchecked data i = Val b) /\
  (forall k, g_da1_select1 fuel data on ob os oo k = Val (select1_spec s k)) /\
  (forall k, g_da1_select1_unchecked fuel data on ob os oo k = ounwrap (select1_spec s k)) /\
  (* documented panic: select0 on a DArray without select0 support *)
  (forall k, g_da1_select0 fuel data (da_z_n_sets d) (da_z_block d) (da_z_sub d) (da_z_overflow d) k = Fault Panic) /\
  (forall k, g_da1_select0_unchecked fuel data (da_z_n_sets d) (da_z_block d) (da_z_sub d) (da_z_overflow d) k
             = Fault Panic).

Definition C07_gen0 (d : darray) (s : list bool) : Prop :=
  forall fuel, (S (length (bv_words (da_bv d))) <= fuel)%nat ->
  let data := da_data d in let nbits := da_nbits d in
  let on := inv_n_sets (da_ones d) in let ob := inv_block (da_ones d) in
  let os := inv_sub (da_ones d) in let oo := inv_overflow (da_ones d) in
  g_da0_len nbits = Val (len s) /\ g_da0_is_empty nbits = Val (len s =? 0) /\
  g_da0_count_ones on = Val (countb s) /\ g_da0_count_zeros nbits on = Val (len s - countb s) /\
  (forall i, g_da0_get data nbits i = Val (nthN s i)) /\
  (forall i b, nthN s i = Some b -> g_da0_get_unchecked data i = Val b) /\
  (forall k, g_da0_select1 fuel data on ob os oo k = Val (select1_spec s k)) /\
  (forall k, g_da0_select1_unchecked fuel data on ob os oo k = ounwrap (select1_spec s k)) /\
  (forall k, g_da0_select0 fuel data (da_z_n_sets d) (da_z_block d) (da_z_sub d) (da_z_overflow d) k
             = Val (select0_spec s k)) /\
  (forall k, g_da0_select0_unchecked fuel data (da_z_n_sets d) (da_z_block d) (da_z_sub d) (da_z_overflow d) k
             = ounwrap (select0_spec s k)).

Lemma get_unchecked_of_get bv s i b : bv_get bv i = Val (nthN s i) -> nthN s i = Some b ->
  bv_get_unchecked bv i = Val b.
Proof.
  intros H E. rewrite E in H. unfold bv_get in H.
  destruct (bv_nbits bv <=? i); [discriminate|].
  destruct (bv_get_unchecked bv i) as [x|]; cbn [bind] in H; [|discriminate].
  apply Val_inj in H. injection H as ->. reflexivity.
Qed.

Lemma gen1_of_spec d s : da_types_ok d -> DArrayP.da_spec false d s -> C07_gen1 d s.
Proof.
  intros Ht (Hlen & Hones & Hzeros & Hget & Hs1 & _ & _) fuel Hf. cbv zeta.
  split; [rewrite g_da1_len_ok, Hlen; reflexivity|].
  split; [rewrite g_da1_is_empty_ok, Hlen; reflexivity|].
  split; [rewrite g_da1_count_ones_ok, Hones; reflexivity|].
  split; [rewrite g_da1_count_zeros_ok; exact Hzeros|].
  split; [intros i; rewrite g_da1_get_ok; apply Hget|].
  split; [intros i b E; rewrite g_da1_get_unchecked_ok; exact (get_unchecked_of_get _ _ _ _ (Hget i) E)|].
  split; [intros k; apply g_da1_select1_sim; [exact Ht|exact Hf|apply Hs1]|].
  split; [intros k; apply g_da1_select1_unchecked_sim; [exact Ht|exact Hf|apply Hs1]|].
  split; intros k; reflexivity.
Qed.

Lemma gen0_of_spec d s : da_types_ok d -> DArrayP.da_spec true d s -> C07_gen0 d s.
Proof.
  intros Ht (Hlen & Hones & Hzeros & Hget & Hs1 & Hs0 & _) fuel Hf. cbv zeta.
  specialize (Hs0 eq_refl).
  split; [rewrite g_da0_len_ok, Hlen; reflexivity|].
  split; [rewrite g_da0_is_empty_ok, Hlen; reflexivity|].
  split; [rewrite g_da0_count_ones_ok, Hones; reflexivity|].
  split; [rewrite g_da0_count_zeros_ok; exact Hzeros|].
  split; [intros i; rewrite g_da0_get_ok; apply Hget|].
  split; [intros i b E; rewrite g_da0_get_unchecked_ok; exact (get_unchecked_of_get _ _ _ _ (Hget i) E)|].
  split; [intros k; apply g_da0_select1_sim; [exact Ht|exact Hf|apply Hs1]|].
  split; [intros k; apply g_da0_select1_unchecked_sim; [exact Ht|exact Hf|apply Hs1]|].
  split; intros k; [apply g_da0_select0_sim|apply g_da0_select0_unchecked_sim]; try assumption; apply Hs0.
Qed.

Definition C07_gen (s0 : bool) (d : darray) (s : list bool) : Prop :=
  if s0 then C07_gen0 d s else C07_gen1 d s.

(* on top of any reachable bit vector state (the counterpart of C07_from_bitvector) *)
Theorem da_gen_of_bitvector : forall s0 bv, BitVecP.bv_inv bv ->
  exists d, da_new s0 bv = Val d /\ da_bv d = bv /\ da_types_ok d /\ C07_gen s0 d (bv_abs bv).
Proof.
  intros s0 bv Hinv.
  destruct (BinFinalP.da_of_inv_correct WordsP.select_in_word_correct WordsP.popcount_correct s0 bv Hinv)
    as (d & Ed & Hbv & Hspec).
  destruct (da_new_types s0 bv d (BinFinalP.bv_inv_wf_da bv Hinv) Ed) as (_ & Ht).
  exists d. split; [exact Ed|]. split; [exact Hbv|]. split; [exact Ht|].
  destruct s0; [apply gen0_of_spec|apply gen1_of_spec]; assumption.
Qed.

(* built from bits (the counterpart of C07_from_bits): for EVERY bit sequence below 2^63 bits *)
Theorem da_gen_of_bools : forall s0 bs, len bs < 2 ^ 63 ->
  exists d, da_from_bools s0 bs = Val d /\ da_types_ok d /\ C07_gen s0 d bs.
Proof.
  intros s0 bs Hl. destruct (BitVecP.bv_from_bools_correct bs Hl) as (bv & E & Hinv & Habs).
  destruct (da_gen_of_bitvector s0 bv Hinv) as (d & Ed & _ & Ht & Hg).
  exists d. unfold da_from_bools. rewrite E. cbn [bind]. rewrite <- Habs. auto.
Qed.

(* built from a list of positions (the counterpart of C07_from_positions) *)
Theorem da_gen_of_positions : forall s0 ps, Forall (fun p => p < 2 ^ 63 - 1) ps ->
  if strictly_increasing ps
  then exists d, da_from_positions s0 ps = Val d /\ da_types_ok d /\ C07_gen s0 d (BitVecP.op_spec [] (BitVecP.OExtPos ps))
  else da_from_positions s0 ps = Fault Panic.
Proof.
  intros s0 ps HF. destruct (strictly_increasing ps) eqn:Hinc.
  - destruct (BitVecP.bv_from_positions_correct ps HF) as (bv & E & Hinv & Habs).
    destruct (da_gen_of_bitvector s0 bv Hinv) as (d & Ed & _ & Ht & Hg).
    exists d. unfold da_from_positions. rewrite Hinc. cbn [oassert bind]. rewrite E. cbn [bind].
    rewrite <- Habs. auto.
  - apply DArrayP.da_from_positions_panics. exact Hinc.
Qed.

(* the same for whatever d the constructor returns (it is a function) *)
Corollary da_gen_of_bools_all : forall s0 bs d, len bs < 2 ^ 63 -> da_from_bools s0 bs = Val d -> C07_gen s0 d bs.
Proof.
  intros s0 bs d Hl E. destruct (da_gen_of_bools s0 bs Hl) as (d' & E' & _ & H).
  rewrite E in E'. apply Val_inj in E'. subst d'. exact H.
Qed.

(* Nothing about the constructor is missing: the hypotheses of the simulations (da_types_ok) are discharged for every
   darray da_new builds from a bit vector satisfying bv_inv (inv_new_types / da_new_types above), so the three
   end-to-end theorems have the same premises as C07_from_bitvector / C07_from_bits / C07_from_positions. *)

Print Assumptions g_bv_get_word_ok.
Print Assumptions g_da_select_ones_eq.
Print Assumptions g_da_select_zeros_eq.
Print Assumptions scan_sim.
Print Assumptions g_sel_sim.
Print Assumptions g_da_select_ones_sim.
Print Assumptions g_da_select_zeros_sim.
Print Assumptions g_da1_count_ones_ok.
Print Assumptions g_da0_count_ones_ok.
Print Assumptions g_da1_count_zeros_ok.
Print Assumptions g_da0_count_zeros_ok.
Print Assumptions g_da1_len_ok.
Print Assumptions g_da0_len_ok.
Print Assumptions g_da1_is_empty_ok.
Print Assumptions g_da0_is_empty_ok.
Print Assumptions g_da1_get_ok.
Print Assumptions g_da0_get_ok.
Print Assumptions g_da1_get_unchecked_ok.
Print Assumptions g_da0_get_unchecked_ok.
Print Assumptions g_da1_select1_sim.
Print Assumptions g_da0_select1_sim.
Print Assumptions g_da1_select1_unchecked_sim.
Print Assumptions g_da0_select1_unchecked_sim.
Print Assumptions g_da1_select0_ok.
Print Assumptions g_da1_select0_panics.
Print Assumptions g_da1_select0_unchecked_panics.
Print Assumptions g_da0_select0_sim.
Print Assumptions g_da0_select0_none.
Print Assumptions g_da0_select0_unchecked_sim.
Print Assumptions inv_new_types.
Print Assumptions da_new_types.
Print Assumptions da_gen_of_bitvector.
Print Assumptions da_gen_of_bools.
Print Assumptions da_gen_of_positions.
Print Assumptions da_gen_of_bools_all.
