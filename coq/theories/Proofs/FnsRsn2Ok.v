(* T5 (RSNarrow queries: rank1_unchecked, rank1, n_ones, n_zeros, select{1,0}_subblock, select{1,0}_unchecked,
   select{1,0}): the definitions REGENERATED from src/bitvector/rs_narrow.rs (Gen/FnsRsn2.v, tools/gen_fns.py)
   are simulated by the hand model (Model/RSBin.v), and, composed with the correctness theorem of the hand
   model (C06_rsnarrow = rsn_of_bools_correct), answer exactly like the list specification on every
   structure the constructor builds (end of the file).

   The generated functions get the fields of `self` as parameters:
       bv_data          = chunks 8 (bv_words (rsn_bv r))       (Box<[DataLine]>: lines of 8 words)
       bv_n_bits        = bv_nbits (rsn_bv r)
       block_rank_pairs = rsn_pairs r
       select_samples   = [rsn_samples0 r; rsn_samples1 r]

   Shape of the statements: (S) simulation
       hand r args = Val v  ->  [v < 2^64 ->]  generated fuel fields args = Val v
   because the generated code has machine-arithmetic checks the hand model does not have (the final
   `result += ..` of rank1_unchecked, `block * 64 + ..` of select, `hint + 1`, `1 + samples[..]`,
   `position * 8`, `position + j`, `64 * (position + j)`, `512 * hint_start`), and its loops run on fuel.
   Hypotheses used (each holds for every structure rsn_new builds, see [rsn_new_sizes] below):
       Forall (fun w => w < 2^64) (rsn_pairs r)              type invariant of Box<[u64]>
       Forall (fun w => w < 2^64) (bv_words (rsn_bv r))      type invariant of [u64; 8]   (select only)
       bv_nbits (rsn_bv r) < 2^64, i < 2^64                  type invariant of usize
       len (rsn_pairs r) < 2^56                              (select only)
       Forall (fun s => s < 2^64 - 1) (rsn_samples{1,0} r)   (select only: `1 + samples[hint + 1]`)
       the value of n_ones below 2^64                        (select1 only)
   No hypothesis on the number of words is needed for (S) (a word the hand model reads at flat index s is
   word s mod 8 of line s >> 3 of the chunked data whatever the length is).
   No mismatch between the hand model and the generated code was found. *)
From Coq Require Import ZArith Lia ZifyBool ZifyN ZifyNat.
From QwtModel Require Import ListX Loops Seq Consts SelTable Words BitVec RSBin ListXP
  LeavesUtils LeavesRSN FnsBv FnsRsn2 LeavesLib LeavesUtilsOk LeavesRSNOk FnsBvOk.
Open Scope N_scope.
Ltac Zify.zify_post_hook ::= Z.div_mod_to_equations.
Arguments N.add : simpl never.
Arguments N.sub : simpl never.
Arguments N.mul : simpl never.
Arguments N.eqb : simpl never.
Arguments N.ltb : simpl never.
Arguments N.leb : simpl never.
Arguments N.pred : simpl never.
Arguments N.of_nat : simpl never.
Arguments N.land : simpl never.
Arguments N.lor : simpl never.
Arguments N.lxor : simpl never.
Arguments N.shiftr : simpl never.
Arguments N.shiftl : simpl never.
Arguments N.div : simpl never.
Arguments N.modulo : simpl never.
Arguments N.pow : simpl never.

(* ================================================================== helpers *)
Lemma bind_Val_inv {A B} (x : outcome A) (f : A -> outcome B) v :
  bind x f = Val v -> exists a, x = Val a /\ f a = Val v.
Proof. destruct x as [a|]; cbn [bind]; intros H; [now exists a|discriminate]. Qed.

Ltac binv H a E := apply bind_Val_inv in H; destruct H as (a & E & H).

Lemma oadd_ok w a b : a + b < 2 ^ w -> oadd w a b = Val (a + b).
Proof. intros H. unfold oadd. destruct (N.ltb_spec (a + b) (2 ^ w)); [reflexivity|lia]. Qed.
Lemma omul_ok w a b : a * b < 2 ^ w -> omul w a b = Val (a * b).
Proof. intros H. unfold omul. destruct (N.ltb_spec (a * b) (2 ^ w)); [reflexivity|lia]. Qed.
Lemma osub_ok a b : b <= a -> osub a b = Val (a - b).
Proof. intros H. unfold osub. destruct (N.leb_spec b a); [reflexivity|lia]. Qed.
Lemma omul_Val w a b v : omul w a b = Val v -> v = a * b /\ a * b < 2 ^ w.
Proof. unfold omul. destruct (N.ltb_spec (a * b) (2 ^ w)); intros E; [now inversion E|discriminate]. Qed.
Lemma idx_Val {A} (l : list A) i a : idx l i = Val a -> nthN l i = Some a.
Proof. unfold idx. destruct (nthN l i); intros E; [now inversion E|discriminate]. Qed.
Lemma idx_of_nthN {A} (l : list A) i a : nthN l i = Some a -> idx l i = Val a.
Proof. unfold idx. now intros ->. Qed.
Lemma uidx_of_nthN {A} (l : list A) i a : nthN l i = Some a -> uidx l i = Val a.
Proof. unfold uidx. now intros ->. Qed.

Lemma land63_lt i : N.land i 63 < 64.
Proof. change 63 with (N.ones 6). change 64 with (2 ^ 6). apply land_ones_lt. Qed.

Definition P64 : N := 18446744073709551616.
Lemma P64_eq : 2 ^ 64 = P64. Proof. reflexivity. Qed.
Lemma P56_eq : 2 ^ 56 = 72057594037927936. Proof. reflexivity. Qed.
Lemma P32_eq : 2 ^ 32 = 4294967296. Proof. reflexivity. Qed.

(* a successful directory read stays inside the directory *)
Lemma rsn_block_rank_Val r b v : rsn_block_rank r b = Val v -> 2 * b < len (rsn_pairs r).
Proof.
  unfold rsn_block_rank. intros H. binv H k E. apply omul_Val in E. destruct E as [-> _].
  apply idx_Val, nthN_some_lt in H. lia.
Qed.

Lemma rsn_sub_block_rank_Val r s v : rsn_sub_block_rank r s = Val v -> s <= 4 * len (rsn_pairs r) + 3.
Proof.
  unfold rsn_sub_block_rank, RSN_BLOCK_SIZE. intros H. binv H br E.
  apply rsn_block_rank_Val in E. lia.
Qed.

(* the generated directory readers on a successful read of the hand model *)
Lemma g_block_sim r b v : rsn_block_rank r b = Val v -> g_rsn_block_rank (rsn_pairs r) b = Val v.
Proof.
  intros H. rewrite <- H. unfold g_rsn_block_rank, rsn_block_rank.
  repeat obind. rewrite ?bind_Val_r. reflexivity.
Qed.

Lemma g_sub_sim r s v : Forall (fun w => w < 2 ^ 64) (rsn_pairs r) -> len (rsn_pairs r) < 2 ^ 61 ->
  rsn_sub_block_rank r s = Val v -> g_rsn_sub_block_rank (rsn_pairs r) s = Val v.
Proof.
  intros HF HL H. rewrite <- H. apply g_rsn_sub_block_rank_ok; [exact HF|].
  apply rsn_sub_block_rank_Val in H. change (2 ^ 61) with 2305843009213693952 in HL. rewrite P64_eq. unfold P64. lia.
Qed.

(* ================================================================== rank *)
(* ------------------------------------------------------------------ RSNarrow::rank1_unchecked *)
Theorem g_rsn_rank1_unchecked_ok : forall r i v,
  Forall (fun w => w < 2 ^ 64) (rsn_pairs r) -> i < 2 ^ 64 ->
  rsn_rank1_unchecked r i = Val v -> v < 2 ^ 64 ->
  g_rsn_rank1_unchecked (chunks 8 (bv_words (rsn_bv r))) (rsn_pairs r) i = Val v.
Proof.
  intros r i v HF Hi H Hv. unfold g_rsn_rank1_unchecked, rsn_rank1_unchecked in *.
  destruct (N.eqb_spec i 0) as [Hz|Hz]; [exact H|].
  rewrite osub_ok by lia. cbn [bind]. cbv zeta in H.
  assert (Hsb : N.shiftr (i - 1) 6 < 2 ^ 64).
  { pose proof (shiftr_le (i - 1) 6). rewrite P64_eq in *. unfold P64 in *. lia. }
  set (i1 := i - 1) in *. set (sb := N.shiftr i1 6) in *.
  rewrite g_rsn_sub_block_rank_ok by assumption.
  binv H res E1. rewrite E1. cbn [bind].
  pose proof (land63_lt i1) as Hl.
  rewrite (N.mod_small (N.land i1 63) (2 ^ 32)) by (rewrite P32_eq; lia).
  rewrite oadd_ok by (rewrite P32_eq; lia). cbn [bind].
  destruct (N.eqb_spec (N.land i1 63 + 1) 0) as [Hx|_]; [lia|].
  binv H u E2. binv H w E3. apply idx_Val in E3.
  destruct (g_bline_get_word_line _ _ _ E3) as (line & L1 & L2).
  rewrite (uidx_of_nthN _ _ _ L1). cbn [bind]. rewrite L2. cbn [bind].
  rewrite osub_ok by lia. cbn [bind].
  apply Val_inj in H.
  assert (Ew : wshl 64 w (64 - (N.land i1 63 + 1)) = N.shiftl w (64 - (N.land i1 63 + 1)) mod M64).
  { unfold wshl, M64. rewrite (N.mod_small (64 - (N.land i1 63 + 1)) 64) by lia. reflexivity. }
  rewrite Ew. rewrite oadd_ok by (rewrite H; exact Hv). now rewrite H.
Qed.

(* ------------------------------------------------------------------ RSNarrow::rank1 *)
Definition opt_lt64 (v : option N) : Prop := match v with Some x => x < 2 ^ 64 | None => True end.

Theorem g_rsn_rank1_ok : forall r i v,
  Forall (fun w => w < 2 ^ 64) (rsn_pairs r) -> i < 2 ^ 64 ->
  rsn_rank1 r i = Val v -> opt_lt64 v ->
  g_rsn_rank1 (chunks 8 (bv_words (rsn_bv r))) (bv_nbits (rsn_bv r)) (rsn_pairs r) i = Val v.
Proof.
  intros r i v HF Hi H Hv. unfold g_rsn_rank1, rsn_rank1, g_bv_is_empty, g_bv_len, bv_is_empty, bv_len in *.
  cbn [bind].
  destruct (bv_nbits (rsn_bv r) =? 0); cbn [orb bind] in *; [exact H|].
  destruct (bv_nbits (rsn_bv r) <? i); [exact H|].
  binv H x E. apply Val_inj in H. subst v. cbn [opt_lt64] in Hv.
  rewrite (g_rsn_rank1_unchecked_ok r i x HF Hi E Hv). reflexivity.
Qed.

(* ------------------------------------------------------------------ RSNarrow::n_ones *)
Theorem g_rsn_n_ones_ok : forall r v,
  Forall (fun w => w < 2 ^ 64) (rsn_pairs r) -> bv_nbits (rsn_bv r) < 2 ^ 64 ->
  rsn_n_ones r = Val v -> v < 2 ^ 64 ->
  g_rsn_n_ones (chunks 8 (bv_words (rsn_bv r))) (bv_nbits (rsn_bv r)) (rsn_pairs r) = Val v.
Proof.
  intros r v HF Hn H Hv. unfold g_rsn_n_ones, rsn_n_ones, g_bv_is_empty, g_bv_len, bv_is_empty, bv_len in *.
  cbn [bind].
  destruct (N.eqb_spec (bv_nbits (rsn_bv r)) 0) as [Hz|Hz]; [exact H|].
  rewrite osub_ok by lia. cbn [bind].
  binv H a E1. binv H a' E2. binv H g E3. binv H g' E4. apply Val_inj in H.
  assert (Ha : opt_lt64 a).
  { destruct a as [x|]; cbn [ounwrap opt_lt64] in *; [|exact I]. apply Val_inj in E2. subst a'.
    rewrite P64_eq in *. unfold P64 in *. lia. }
  assert (Hn1 : bv_nbits (rsn_bv r) - 1 < 2 ^ 64) by (rewrite P64_eq in *; unfold P64 in *; lia).
  rewrite (g_rsn_rank1_ok r _ a HF Hn1 E1 Ha). cbn [bind].
  rewrite E2. cbn [bind]. rewrite g_bv_get_chunks, E3. cbn [bind]. rewrite E4. cbn [bind].
  rewrite oadd_ok by (rewrite H; exact Hv). now rewrite H.
Qed.

(* ------------------------------------------------------------------ RSNarrow::n_zeros *)
Theorem g_rsn_n_zeros_ok : forall r v,
  Forall (fun w => w < 2 ^ 64) (rsn_pairs r) -> bv_nbits (rsn_bv r) < 2 ^ 64 ->
  rsn_n_zeros r = Val v ->
  g_rsn_n_zeros (chunks 8 (bv_words (rsn_bv r))) (bv_nbits (rsn_bv r)) (rsn_pairs r) = Val v.
Proof.
  intros r v HF Hn H. unfold g_rsn_n_zeros, rsn_n_zeros, g_bv_len, bv_len in *. cbn [bind].
  binv H o E. pose proof (osub_Val _ _ _ H) as (_ & Hle).
  rewrite (g_rsn_n_ones_ok r o HF Hn E) by lia. exact H.
Qed.

(* ================================================================== select *)
(* ------------------------------------------------------------------ the two scans as loops *)
(* `while hint_start < hint_end { if test(hint_start) > i { break; } hint_start += 1; }`:
   the hand model's [scan_while] against [while_loop] with ANY larger fuel (this contains the fuel
   monotonicity of the loop: more fuel never changes a result that is a value) *)
Lemma while_scan {R} (test : N -> outcome N) (i he : N) (body : N -> outcome (step N R)) :
  (forall b v, b < he -> test b = Val v -> body b = Val (if i <? v then Brk b else Next (b + 1))) ->
  forall f fuel hs v, (f <= fuel)%nat -> scan_while test i hs he f = Val v ->
    while_loop (fun hs => Val (hs <? he)) body fuel hs = Val (Done v).
Proof.
  intros Hbody. induction f as [|f IH]; intros fuel hs v Hf H; [discriminate|].
  destruct fuel as [|fuel]; [lia|]. cbn [scan_while while_loop bind] in *.
  destruct (N.ltb_spec hs he) as [Hlt|Hge].
  - binv H tv E. rewrite (Hbody hs tv Hlt E). cbn [bind].
    destruct (i <? tv).
    + now apply Val_inj in H; subst.
    + apply IH; [lia|exact H].
  - now apply Val_inj in H; subst.
Qed.

(* fuel monotonicity of the translated `while`: more fuel never changes a result that is a value
   (so never one that is not Fault OutOfFuel either, by contraposition on the smaller fuel) *)
Lemma while_loop_mono {S R} (cond : S -> outcome bool) (body : S -> outcome (step S R)) :
  forall f fuel s v, (f <= fuel)%nat -> while_loop cond body f s = Val v -> while_loop cond body fuel s = Val v.
Proof.
  induction f as [|f IH]; intros fuel s v Hf H; [discriminate|].
  destruct fuel as [|fuel]; [lia|]. cbn [while_loop] in *.
  destruct (cond s) as [c|]; cbn [bind] in *; [|discriminate].
  destruct c; [|exact H].
  destruct (body s) as [[s'|s'|x]|]; cbn [bind] in *; try exact H.
  apply IH; [lia|exact H].
Qed.

(* `for j in 0..8 { if test(position + j) > i { position += j - 1; break; } if j == 7 { position += j; } }` *)
Lemma for_scan {R} (test : N -> outcome N) (i position : N) (body : N -> N -> outcome (step N R)) :
  (forall j v, j < 8 -> test (position + j) = Val v ->
     body j position = if i <? v then (let! j1 := osub j 1 in Val (Brk (position + j1)))
                       else Val (Next (if j =? 7 then position + j else position))) ->
  forall n j p, j + N.of_nat n = 8 -> scan_for test i position j n = Val p ->
    for_loop body j n position = Val (Done p).
Proof.
  intros Hbody. induction n as [|n IH]; intros j p Hj H.
  - cbn [scan_for for_loop] in *. now apply Val_inj in H; subst.
  - cbn [scan_for for_loop] in *. binv H tv E. rewrite (Hbody j tv ltac:(lia) E).
    destruct (i <? tv).
    + binv H j1 E1. rewrite E1. cbn [bind]. now apply Val_inj in H; subst.
    + cbn [bind]. destruct (N.eqb_spec j 7) as [->|Hne].
      * assert (n = O) by lia. subst n. cbn [for_loop]. now apply Val_inj in H; subst.
      * apply IH; [lia|exact H].
Qed.

(* the first test of the sub-block scan succeeded *)
Lemma scan_for_first test i position j n p : scan_for test i position j (S n) = Val p ->
  exists v, test (position + j) = Val v.
Proof. cbn [scan_for]. intros H. binv H v E. now exists v. Qed.

(* ------------------------------------------------------------------ RSNarrow::select1_subblock *)
Theorem g_rsn_select1_subblock_ok : forall r i p fuel,
  (S (length (rsn_pairs r)) <= fuel)%nat ->
  Forall (fun w => w < 2 ^ 64) (rsn_pairs r) -> len (rsn_pairs r) < 2 ^ 56 ->
  Forall (fun s => s < 2 ^ 64 - 1) (rsn_samples1 r) -> i < 2 ^ 64 ->
  rsn_select_subblock true r i = Val p ->
  g_rsn_select1_subblock fuel (rsn_pairs r) [rsn_samples0 r; rsn_samples1 r] i = Val p.
Proof.
  intros r i p fuel Hfuel HF HL HS Hi H.
  assert (HL61 : len (rsn_pairs r) < 2 ^ 61) by (rewrite P56_eq in HL; change (2 ^ 61) with 2305843009213693952; lia).
  unfold g_rsn_select1_subblock, rsn_select_subblock, RSN_ONES_PER_HINT, RSN_BLOCK_SIZE in *. cbv zeta in *.
  change (idx [rsn_samples0 r; rsn_samples1 r] 1) with (Val (rsn_samples1 r)). cbn [bind].
  binv H hs E1. rewrite E1. cbn [bind].
  binv H he0 E2.
  rewrite P64_eq, P56_eq in *. unfold P64 in *.
  rewrite oadd_ok by (rewrite P64_eq; unfold P64; lia). cbn [bind]. rewrite E2. cbn [bind].
  pose proof (idx_Forall _ _ _ _ HS E2) as Hhe. cbv beta in Hhe.
  rewrite oadd_ok by (rewrite P64_eq; unfold P64; lia). cbn [bind].
  binv H hs' E3.
  rewrite (while_scan (rsn_block_rank r) i (1 + he0) _ ) with (f := S (length (rsn_pairs r))) (v := hs');
    [|intros b v Hb Eb|exact Hfuel|exact E3].
  2:{ rewrite (g_block_sim r b v Eb). cbn [bind]. destruct (i <? v); [reflexivity|].
      rewrite oadd_ok by (rewrite P64_eq; unfold P64; lia). reflexivity. }
  cbn [bind]. binv H p0 E4. rewrite E4. cbn [bind].
  binv H pos E5.
  destruct (scan_for_first _ _ _ _ _ _ E5) as (v0 & Ev0).
  pose proof (rsn_sub_block_rank_Val _ _ _ Ev0) as Hp0.
  rewrite omul_ok by (rewrite P64_eq; unfold P64; lia). cbn [bind].
  rewrite (for_scan (rsn_sub_block_rank r) i (p0 * 8) _) with (p := pos); [|intros j v Hj Ej|reflexivity|exact E5].
  2:{ pose proof (rsn_sub_block_rank_Val _ _ _ Ej) as Hpj.
      rewrite oadd_ok by (rewrite P64_eq; unfold P64; lia). cbn [bind].
      rewrite (g_sub_sim r _ v HF HL61 Ej). cbn [bind].
      destruct (i <? v).
      - unfold osub. destruct (N.leb_spec 1 j); [|reflexivity]. cbn [bind].
        rewrite oadd_ok by (rewrite P64_eq; unfold P64; lia). reflexivity.
      - destruct (N.eqb_spec j 7); reflexivity. }
  cbn [bind]. binv H rank E6. rewrite (g_sub_sim r _ rank HF HL61 E6). cbn [bind]. exact H.
Qed.

(* ------------------------------------------------------------------ RSNarrow::select0_subblock *)
Theorem g_rsn_select0_subblock_ok : forall r i p fuel,
  (S (length (rsn_pairs r)) <= fuel)%nat ->
  Forall (fun w => w < 2 ^ 64) (rsn_pairs r) -> len (rsn_pairs r) < 2 ^ 56 ->
  Forall (fun s => s < 2 ^ 64 - 1) (rsn_samples0 r) -> i < 2 ^ 64 ->
  rsn_select_subblock false r i = Val p ->
  g_rsn_select0_subblock fuel (rsn_pairs r) [rsn_samples0 r; rsn_samples1 r] i = Val p.
Proof.
  intros r i p fuel Hfuel HF HL HS Hi H.
  assert (HL61 : len (rsn_pairs r) < 2 ^ 61) by (rewrite P56_eq in HL; change (2 ^ 61) with 2305843009213693952; lia).
  unfold g_rsn_select0_subblock, rsn_select_subblock, RSN_ZEROS_PER_HINT, RSN_BLOCK_SIZE in *. cbv zeta in *.
  change (idx [rsn_samples0 r; rsn_samples1 r] 0) with (Val (rsn_samples0 r)). cbn [bind].
  binv H hs E1. rewrite E1. cbn [bind].
  binv H he0 E2.
  rewrite P64_eq, P56_eq in *. unfold P64 in *.
  rewrite oadd_ok by (rewrite P64_eq; unfold P64; lia). cbn [bind]. rewrite E2. cbn [bind].
  pose proof (idx_Forall _ _ _ _ HS E2) as Hhe. cbv beta in Hhe.
  rewrite oadd_ok by (rewrite P64_eq; unfold P64; lia). cbn [bind].
  change (omul 64 8 64) with (Val 512). cbn [bind].
  binv H hs' E3.
  rewrite (while_scan (fun b => let! br := rsn_block_rank r b in osub (8 * 64 * b) br) i (1 + he0) _ )
    with (f := S (length (rsn_pairs r))) (v := hs'); [|intros b v Hb Eb|exact Hfuel|exact E3].
  2:{ binv Eb br Ebr. pose proof (rsn_block_rank_Val _ _ _ Ebr) as Hbb.
      rewrite omul_ok by (rewrite P64_eq; unfold P64; lia). cbn [bind].
      rewrite (g_block_sim r b br Ebr). cbn [bind].
      replace (512 * b) with (8 * 64 * b) by lia. rewrite Eb. cbn [bind].
      destruct (i <? v); [reflexivity|].
      rewrite oadd_ok by (rewrite P64_eq; unfold P64; lia). reflexivity. }
  cbn [bind]. binv H p0 E4. rewrite E4. cbn [bind].
  binv H pos E5.
  destruct (scan_for_first _ _ _ _ _ _ E5) as (v0 & Ev0).
  binv Ev0 sr0 Esr0. pose proof (rsn_sub_block_rank_Val _ _ _ Esr0) as Hp0.
  rewrite omul_ok by (rewrite P64_eq; unfold P64; lia). cbn [bind].
  rewrite (for_scan (fun s => let! sr := rsn_sub_block_rank r s in osub (64 * s) sr) i (p0 * 8) _) with (p := pos);
    [|intros j v Hj Ej|reflexivity|exact E5].
  2:{ binv Ej sr Esr. pose proof (rsn_sub_block_rank_Val _ _ _ Esr) as Hpj.
      rewrite oadd_ok by (rewrite P64_eq; unfold P64; lia). cbn [bind].
      rewrite omul_ok by (rewrite P64_eq; unfold P64; lia). cbn [bind].
      rewrite (g_sub_sim r _ sr HF HL61 Esr). cbn [bind]. rewrite Ej. cbn [bind].
      destruct (i <? v).
      - destruct (osub j 1) as [j1|] eqn:Ej1; [|reflexivity]. cbn [bind].
        apply osub_Val in Ej1. destruct Ej1 as [-> Hj1].
        rewrite oadd_ok by (rewrite P64_eq; unfold P64; lia). reflexivity.
      - destruct (N.eqb_spec j 7); reflexivity. }
  cbn [bind]. binv H rank E6. binv E6 sr Esr. pose proof (rsn_sub_block_rank_Val _ _ _ Esr) as Hpp.
  rewrite omul_ok by (rewrite P64_eq; unfold P64; lia). cbn [bind].
  rewrite (g_sub_sim r _ sr HF HL61 Esr). cbn [bind]. rewrite E6. cbn [bind]. exact H.
Qed.

(* ------------------------------------------------------------------ RSNarrow::select1_unchecked *)
Theorem g_rsn_select1_unchecked_ok : forall r i v fuel,
  (S (length (rsn_pairs r)) <= fuel)%nat ->
  Forall (fun w => w < 2 ^ 64) (rsn_pairs r) -> len (rsn_pairs r) < 2 ^ 56 ->
  Forall (fun s => s < 2 ^ 64 - 1) (rsn_samples1 r) ->
  Forall (fun w => w < 2 ^ 64) (bv_words (rsn_bv r)) -> i < 2 ^ 64 ->
  rsn_select_unchecked true r i = Val v -> v < 2 ^ 64 ->
  g_rsn_select1_unchecked fuel (chunks 8 (bv_words (rsn_bv r))) (rsn_pairs r) [rsn_samples0 r; rsn_samples1 r] i = Val v.
Proof.
  intros r i v fuel Hfuel HF HL HS HW Hi H Hv.
  unfold g_rsn_select1_unchecked, rsn_select_unchecked in *.
  binv H p E1. rewrite (g_rsn_select1_subblock_ok r i p fuel Hfuel HF HL HS Hi E1). cbn [bind].
  destruct p as [block rank]. cbv beta iota in *.
  binv H u E2. binv H w E3. binv H d E4. binv H s E5. apply Val_inj in H.
  pose proof (idx_Forall _ _ _ _ HW E3) as Hw. cbv beta in Hw. apply idx_Val in E3.
  destruct (chunks_word _ _ _ E3) as (line & L1 & L2).
  rewrite (idx_of_nthN _ _ _ L1). cbn [bind]. rewrite (idx_of_nthN _ _ _ L2). cbn [bind].
  rewrite P64_eq in *. unfold P64 in *.
  rewrite omul_ok by (rewrite P64_eq; unfold P64; lia). cbn [bind]. rewrite E4. cbn [bind].
  pose proof (osub_Val _ _ _ E4) as (Hd & _).
  rewrite g_select_in_word_ok by (rewrite P64_eq; unfold P64; lia). rewrite E5. cbn [bind].
  rewrite oadd_ok by (rewrite P64_eq; unfold P64; lia). now rewrite H.
Qed.

(* ------------------------------------------------------------------ RSNarrow::select0_unchecked *)
Lemma notw_lt64 w : w < 2 ^ 64 -> notw w < 2 ^ 64.
Proof.
  intros Hw. unfold notw, M64. destruct (N.eq_dec (N.lxor w (2 ^ 64 - 1)) 0) as [->|Hz]; [reflexivity|].
  apply N.log2_lt_pow2; [lia|].
  eapply N.le_lt_trans; [apply N.log2_lxor|].
  apply N.max_lub_lt.
  - destruct (N.eq_dec w 0) as [->|Hw0]; [reflexivity|]. apply N.log2_lt_pow2; lia.
  - reflexivity.
Qed.

Theorem g_rsn_select0_unchecked_ok : forall r i v fuel,
  (S (length (rsn_pairs r)) <= fuel)%nat ->
  Forall (fun w => w < 2 ^ 64) (rsn_pairs r) -> len (rsn_pairs r) < 2 ^ 56 ->
  Forall (fun s => s < 2 ^ 64 - 1) (rsn_samples0 r) ->
  Forall (fun w => w < 2 ^ 64) (bv_words (rsn_bv r)) -> i < 2 ^ 64 ->
  rsn_select_unchecked false r i = Val v -> v < 2 ^ 64 ->
  g_rsn_select0_unchecked fuel (chunks 8 (bv_words (rsn_bv r))) (rsn_pairs r) [rsn_samples0 r; rsn_samples1 r] i = Val v.
Proof.
  intros r i v fuel Hfuel HF HL HS HW Hi H Hv.
  unfold g_rsn_select0_unchecked, rsn_select_unchecked in *.
  binv H p E1. rewrite (g_rsn_select0_subblock_ok r i p fuel Hfuel HF HL HS Hi E1). cbn [bind].
  destruct p as [block rank]. cbv beta iota in *.
  binv H u E2. binv H w E3. binv H d E4. binv H s E5. apply Val_inj in H.
  pose proof (idx_Forall _ _ _ _ HW E3) as Hw. cbv beta in Hw. apply idx_Val in E3.
  destruct (chunks_word _ _ _ E3) as (line & L1 & L2).
  rewrite (idx_of_nthN _ _ _ L1). cbn [bind]. rewrite (idx_of_nthN _ _ _ L2). cbn [bind].
  pose proof (notw_lt64 w Hw) as Hnw.
  change (N.lxor w (2 ^ 64 - 1)) with (notw w).
  rewrite P64_eq in *. unfold P64 in *.
  rewrite omul_ok by (rewrite P64_eq; unfold P64; lia). cbn [bind]. rewrite E4. cbn [bind].
  pose proof (osub_Val _ _ _ E4) as (Hd & _).
  rewrite g_select_in_word_ok by (rewrite P64_eq; unfold P64; lia). rewrite E5. cbn [bind].
  rewrite oadd_ok by (rewrite P64_eq; unfold P64; lia). now rewrite H.
Qed.

(* ------------------------------------------------------------------ RSNarrow::select1 / select0 *)
Theorem g_rsn_select1_ok : forall r i v fuel,
  (S (length (rsn_pairs r)) <= fuel)%nat ->
  Forall (fun w => w < 2 ^ 64) (rsn_pairs r) -> len (rsn_pairs r) < 2 ^ 56 ->
  Forall (fun s => s < 2 ^ 64 - 1) (rsn_samples1 r) ->
  Forall (fun w => w < 2 ^ 64) (bv_words (rsn_bv r)) -> bv_nbits (rsn_bv r) < 2 ^ 64 -> i < 2 ^ 64 ->
  (forall o, rsn_n_ones r = Val o -> o < 2 ^ 64) ->
  rsn_select1 r i = Val v -> opt_lt64 v ->
  g_rsn_select1 fuel (chunks 8 (bv_words (rsn_bv r))) (bv_nbits (rsn_bv r)) (rsn_pairs r)
                [rsn_samples0 r; rsn_samples1 r] i = Val v.
Proof.
  intros r i v fuel Hfuel HF HL HS HW Hn Hi Ho H Hv. unfold g_rsn_select1, rsn_select1 in *.
  binv H o E1. rewrite (g_rsn_n_ones_ok r o HF Hn E1 (Ho o E1)). cbn [bind].
  destruct (o <=? i); [exact H|].
  binv H x E2. apply Val_inj in H. subst v. cbn [opt_lt64] in Hv.
  rewrite (g_rsn_select1_unchecked_ok r i x fuel Hfuel HF HL HS HW Hi E2 Hv). reflexivity.
Qed.

Theorem g_rsn_select0_ok : forall r i v fuel,
  (S (length (rsn_pairs r)) <= fuel)%nat ->
  Forall (fun w => w < 2 ^ 64) (rsn_pairs r) -> len (rsn_pairs r) < 2 ^ 56 ->
  Forall (fun s => s < 2 ^ 64 - 1) (rsn_samples0 r) ->
  Forall (fun w => w < 2 ^ 64) (bv_words (rsn_bv r)) -> bv_nbits (rsn_bv r) < 2 ^ 64 -> i < 2 ^ 64 ->
  rsn_select0 r i = Val v -> opt_lt64 v ->
  g_rsn_select0 fuel (chunks 8 (bv_words (rsn_bv r))) (bv_nbits (rsn_bv r)) (rsn_pairs r)
                [rsn_samples0 r; rsn_samples1 r] i = Val v.
Proof.
  intros r i v fuel Hfuel HF HL HS HW Hn Hi H Hv. unfold g_rsn_select0, rsn_select0 in *.
  binv H z E1. rewrite (g_rsn_n_zeros_ok r z HF Hn E1). cbn [bind].
  destruct (z <=? i); [exact H|].
  binv H x E2. apply Val_inj in H. subst v. cbn [opt_lt64] in Hv.
  rewrite (g_rsn_select0_unchecked_ok r i x fuel Hfuel HF HL HS HW Hi E2 Hv). reflexivity.
Qed.

(* ================================================================== end to end *)
(* the generated queries, on the fields of the structure the (hand-modelled) constructor builds from any list
   of booleans, answer exactly like the list specification *)
From QwtModel Require Import WordsP BitsLib BitVecP BinFinalP.
From QwtModel Require RSBinL RSBinB RSBinN RSBinP.

Lemma Forall_of_nthN {A} (P : A -> Prop) : forall l : list A, (forall i a, nthN l i = Some a -> P a) -> Forall P l.
Proof.
  induction l as [|x l IH]; intros H; constructor.
  - apply (H 0). apply nthN_0.
  - apply IH. intros i a E. apply (H (i + 1)). rewrite nthN_succ. exact E.
Qed.

(* sizes of what rsn_new builds on a well-formed bit vector (from the directory invariant of Proofs/RSBinN.v):
   all the hypotheses of the simulation theorems *)
Lemma rsn_new_sizes : forall bv r, RSBinB.bv_wf bv -> rsn_new bv = Val r ->
  rsn_bv r = bv /\
  Forall (fun w => w < 2 ^ 64) (rsn_pairs r) /\ len (rsn_pairs r) < 2 ^ 42 /\
  Forall (fun s => s < 2 ^ 40) (rsn_samples0 r) /\ Forall (fun s => s < 2 ^ 40) (rsn_samples1 r) /\
  Forall (fun w => w < 2 ^ 64) (bv_words bv) /\ len (bv_words bv) mod 8 = 0 /\ bv_nbits bv < 2 ^ 43.
Proof.
  intros bv r Hwf Er.
  destruct (RSBinN.rsn_new_ok popcount_correct bv Hwf) as (r' & Er' & Hbv & Hlen & Hent & Hs1 & Hs0).
  rewrite Er in Er'. apply Val_inj in Er'. subst r'.
  pose proof (RSBinN.lastb_small bv Hwf) as Hlast.
  set (lastb := RSBinN.rsn_last (RSBinB.nlines bv)) in *.
  change (2 ^ 40) with 1099511627776 in *.
  assert (Hsamp : forall R total S, RSBinL.samples_ok R 512 1024 (64 * len (bv_words bv)) lastb total S ->
                    Forall (fun s => s < 1099511627776) S).
  { intros R total S (HSlen & HSent & HSlast & _). apply Forall_of_nthN. intros t b Eb.
    pose proof (nthN_some_lt _ _ _ Eb) as Ht.
    destruct (N.le_gt_cases t (total / 1024)) as [Hle|Hgt].
    - destruct (HSent t b Hle Eb) as (Hb & _). lia.
    - replace t with (total / 1024 + 1) in Eb by lia. rewrite HSlast in Eb. inversion Eb. lia. }
  split; [exact Hbv|]. split; [|split; [|split; [|split; [|split; [|split]]]]].
  - apply Forall_of_nthN. intros i a Ea. pose proof (nthN_some_lt _ _ _ Ea) as Hi.
    destruct (Hent (i / 2)) as (A1 & A2); [lia|].
    pose proof (RSBinN.R1_small bv Hwf (512 * (i / 2))) as HR. pose proof (RSBinN.encN_lt (bv_words bv) (i / 2)) as HE.
    change (2 ^ 44) with 17592186044416 in HR. change (2 ^ 63) with 9223372036854775808 in HE.
    rewrite P64_eq. unfold P64.
    assert (Hc : i = 2 * (i / 2) \/ i = 2 * (i / 2) + 1) by lia.
    destruct Hc as [Hc|Hc]; rewrite Hc in Ea.
    + rewrite A1 in Ea. inversion Ea. lia.
    + rewrite A2 in Ea. inversion Ea. lia.
  - change (2 ^ 42) with 4398046511104. lia.
  - exact (Hsamp _ _ _ Hs0).
  - exact (Hsamp _ _ _ Hs1).
  - exact (RSBinB.wf_ok bv Hwf).
  - pose proof (RSBinB.wf_len bv Hwf). lia.
  - apply (RSBinB.wf_nbits bv Hwf).
Qed.

Lemma Forall_weaken {A} (P Q : A -> Prop) l : (forall a, P a -> Q a) -> Forall P l -> Forall Q l.
Proof. intros H HF. induction HF; constructor; auto. Qed.

Lemma len_map {A B} (f : A -> B) l : len (map f l) = len l.
Proof. unfold len. now rewrite map_length. Qed.

Theorem g_rsn_of_bools_correct : forall bs, len bs < 2 ^ 43 ->
  exists bv r, bv_from_bools bs = Val bv /\ rsn_new bv = Val r /\
    (forall fuel k, (S (length (rsn_pairs r)) <= fuel)%nat -> k < 2 ^ 64 ->
       g_rsn_select1 fuel (chunks 8 (bv_words bv)) (bv_nbits bv) (rsn_pairs r) [rsn_samples0 r; rsn_samples1 r] k
       = Val (select1_spec bs k)) /\
    (forall fuel k, (S (length (rsn_pairs r)) <= fuel)%nat -> k < 2 ^ 64 ->
       g_rsn_select0 fuel (chunks 8 (bv_words bv)) (bv_nbits bv) (rsn_pairs r) [rsn_samples0 r; rsn_samples1 r] k
       = Val (select0_spec bs k)) /\
    (forall i, i < 2 ^ 64 ->
       g_rsn_rank1 (chunks 8 (bv_words bv)) (bv_nbits bv) (rsn_pairs r) i
       = Val (if negb (len bs =? 0) && (i <=? len bs) then Some (rank1_spec bs i) else None)) /\
    g_rsn_n_ones (chunks 8 (bv_words bv)) (bv_nbits bv) (rsn_pairs r) = Val (countb bs) /\
    g_rsn_n_zeros (chunks 8 (bv_words bv)) (bv_nbits bv) (rsn_pairs r) = Val (len bs - countb bs) /\
    (forall i, g_bv_get (chunks 8 (bv_words bv)) (bv_nbits bv) i = Val (nthN bs i)) /\
    (forall i, 0 < len bs -> i <= len bs ->
       g_rsn_rank1_unchecked (chunks 8 (bv_words bv)) (rsn_pairs r) i = Val (rank1_spec bs i)) /\
    (forall fuel k p, (S (length (rsn_pairs r)) <= fuel)%nat -> select1_spec bs k = Some p ->
       g_rsn_select1_unchecked fuel (chunks 8 (bv_words bv)) (rsn_pairs r) [rsn_samples0 r; rsn_samples1 r] k = Val p) /\
    (forall fuel k p, (S (length (rsn_pairs r)) <= fuel)%nat -> select0_spec bs k = Some p ->
       g_rsn_select0_unchecked fuel (chunks 8 (bv_words bv)) (rsn_pairs r) [rsn_samples0 r; rsn_samples1 r] k = Val p).
Proof.
  intros bs Hl.
  destruct (rsn_of_bools_correct select_in_word_correct popcount_correct bs Hl)
    as (bv & r & Ebv & Er & (Hget & Hr1 & _ & Hsel1 & Hsel0 & Hones & Hzeros) & Hr1u & Hs1u & Hs0u).
  assert (Hl63 : len bs < 2 ^ 63) by (change (2 ^ 43) with 8796093022208 in Hl; change (2 ^ 63) with 9223372036854775808; lia).
  destruct (bv_from_bools_correct bs Hl63) as (bv' & Ebv' & Hinv & Habs).
  rewrite Ebv in Ebv'. apply Val_inj in Ebv'. subst bv'.
  assert (H43 : bv_nbits bv < 2 ^ 43) by (rewrite <- (inv_len bv Hinv), Habs; exact Hl).
  pose proof (bv_inv_wf_rs bv Hinv H43) as Hwf.
  destruct (rsn_new_sizes bv r Hwf Er) as (Hbv & HF & HL & HS0 & HS1 & HW & _ & _).
  exists bv, r. split; [exact Ebv|]. split; [exact Er|].
  change (2 ^ 43) with 8796093022208 in *. change (2 ^ 42) with 4398046511104 in HL.
  assert (HL56 : len (rsn_pairs r) < 2 ^ 56) by (rewrite P56_eq; lia).
  assert (Hn64 : bv_nbits (rsn_bv r) < 2 ^ 64) by (rewrite Hbv, P64_eq; unfold P64; lia).
  assert (HS0' : Forall (fun s => s < 2 ^ 64 - 1) (rsn_samples0 r)).
  { apply (Forall_weaken (fun s => s < 2 ^ 40) (fun s => s < 2 ^ 64 - 1)); [|exact HS0].
    intros a Ha. change (2 ^ 40) with 1099511627776 in Ha. rewrite P64_eq. unfold P64. lia. }
  assert (HS1' : Forall (fun s => s < 2 ^ 64 - 1) (rsn_samples1 r)).
  { apply (Forall_weaken (fun s => s < 2 ^ 40) (fun s => s < 2 ^ 64 - 1)); [|exact HS1].
    intros a Ha. change (2 ^ 40) with 1099511627776 in Ha. rewrite P64_eq. unfold P64. lia. }
  assert (HW' : Forall (fun w => w < 2 ^ 64) (bv_words (rsn_bv r))) by (rewrite Hbv; exact HW).
  pose proof (countb_le_len bs) as Hcb.
  assert (Hsel_lt : forall c k p, select_spec (map N_of_bool bs) c k = Some p -> k < 2 ^ 64 /\ p < 2 ^ 64).
  { intros c k p E. apply RSBinL.select_spec_some_lt in E. destruct E as (E1 & E2).
    pose proof (countN_le_len c (map N_of_bool bs)). rewrite len_map in *.
    rewrite P64_eq. unfold P64. lia. }
  assert (Hopt : forall c k, opt_lt64 (select_spec (map N_of_bool bs) c k)).
  { intros c k. destruct (select_spec _ c k) as [p|] eqn:E; [|exact I]. apply (Hsel_lt c k p E). }
  assert (Hrk : forall i, i < 2 ^ 64 -> rank1_spec bs i < 2 ^ 64).
  { intros i Hi. pose proof (RSBinL.rank_spec_le (map N_of_bool bs) 1 i). unfold rank1_spec. lia. }
  assert (Hones64 : forall o, rsn_n_ones r = Val o -> o < 2 ^ 64).
  { intros o Eo. rewrite Hones in Eo. apply Val_inj in Eo. subst o. rewrite P64_eq. unfold P64. lia. }
  rewrite <- Hbv.
  split; [|split; [|split; [|split; [|split; [|split; [|split; [|split]]]]]]].
  - intros fuel k Hfuel Hk.
    exact (g_rsn_select1_ok r k _ fuel Hfuel HF HL56 HS1' HW' Hn64 Hk Hones64 (Hsel1 k Hk) (Hopt 1 k)).
  - intros fuel k Hfuel Hk.
    exact (g_rsn_select0_ok r k _ fuel Hfuel HF HL56 HS0' HW' Hn64 Hk (Hsel0 k Hk) (Hopt 0 k)).
  - intros i Hi. apply (g_rsn_rank1_ok r i _ HF Hi (Hr1 i)).
    destruct (negb (len bs =? 0) && (i <=? len bs)); [apply Hrk; exact Hi|exact I].
  - apply (g_rsn_n_ones_ok r _ HF Hn64 Hones). rewrite P64_eq. unfold P64. lia.
  - apply (g_rsn_n_zeros_ok r _ HF Hn64 Hzeros).
  - intros i. rewrite g_bv_get_chunks. apply Hget.
  - intros i H0 Hi. assert (Hi64 : i < 2 ^ 64) by (rewrite P64_eq; unfold P64; lia).
    apply (g_rsn_rank1_unchecked_ok r i _ HF Hi64 (Hr1u i H0 Hi) (Hrk i Hi64)).
  - intros fuel k p Hfuel E. destruct (Hsel_lt 1 k p E) as (Hk & Hp).
    exact (g_rsn_select1_unchecked_ok r k p fuel Hfuel HF HL56 HS1' HW' Hk (Hs1u k p E) Hp).
  - intros fuel k p Hfuel E. destruct (Hsel_lt 0 k p E) as (Hk & Hp).
    exact (g_rsn_select0_unchecked_ok r k p fuel Hfuel HF HL56 HS0' HW' Hk (Hs0u k p E) Hp).
Qed.

(* Nothing about the constructor is missing: every hypothesis of the simulation theorems is discharged by
   [rsn_new_sizes] (from RSBinN.rsn_new_ok / rsn_dir_ok, RSBinN.lastb_small, R1_small, encN_lt, RSBinB.wf_len, wf_ok, wf_nbits),
   the bounds on the results by RSBinL.select_spec_some_lt / rank_spec_le / BitsLib.countb_le_len. *)
Print Assumptions g_rsn_rank1_unchecked_ok.
Print Assumptions g_rsn_rank1_ok.
Print Assumptions g_rsn_n_ones_ok.
Print Assumptions g_rsn_n_zeros_ok.
Print Assumptions g_rsn_select1_subblock_ok.
Print Assumptions g_rsn_select0_subblock_ok.
Print Assumptions g_rsn_select1_unchecked_ok.
Print Assumptions g_rsn_select0_unchecked_ok.
Print Assumptions g_rsn_select1_ok.
Print Assumptions g_rsn_select0_ok.
Print Assumptions while_loop_mono.
Print Assumptions rsn_new_sizes.
Print Assumptions g_rsn_of_bools_correct.
