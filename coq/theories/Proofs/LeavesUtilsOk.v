(* T3 (utils: select_in_word, select_in_word_u128, msb): see Proofs/LeavesLib.v for the explanation.  Written once; compiles as long as the
   definitions regenerated from the Rust source keep their meaning. *)
From Coq Require Import ZArith Lia ZifyBool ZifyN.
From QwtModel Require Import ListX Consts SelTable Words RSQ LeavesUtils LeavesLib.
Open Scope N_scope.

(* ------------------------------------------------------------------ utils::select_in_word *)
(* the hand model has every checked operation of the source, at the same width, in the same order:
   after evaluating the operations on literals, each step of one side is convertible to the matching
   step of the other.  No range hypothesis is needed. *)
Theorem g_select_in_word_ok : forall word k, word < 2 ^ 64 -> k < 2 ^ 64 ->
  g_select_in_word word k = select_in_word word k.
Proof.
  intros word k _ _. unfold g_select_in_word, select_in_word, M64. cbv zeta.
  generalize sel_table; intros tbl.   (* the table is the same object on both sides: keep it closed *)
  repeat ofold.
  repeat first [ obind | oif; [reflexivity|] | ofold ].
  lazymatch goal with
  | |- bind _ _ = _ => fail "a step of the generated select_in_word differs from the hand model"
  | |- _ = bind _ _ => fail "a step of the generated select_in_word differs from the hand model"
  | |- _ => reflexivity
  end.
Qed.

Theorem g_select_in_word_u128_ok : forall word k, word < 2 ^ 128 -> k < 2 ^ 64 ->
  g_select_in_word_u128 word k = select_in_word_u128 word k.
Proof.
  intros word k Hw Hk. unfold g_select_in_word_u128, select_in_word_u128, M64. cbv zeta.
  assert (Hm : forall x, x mod 2 ^ 64 < 2 ^ 64) by (intros x; apply N.mod_upper_bound; lia).
  destruct (k <? popcount (word mod 2 ^ 64)).
  - now apply g_select_in_word_ok.
  - destruct (osub k (popcount (word mod 2 ^ 64))) as [k'|] eqn:E; cbn [bind]; [|reflexivity].
    rewrite g_select_in_word_ok; [reflexivity|apply Hm|].
    unfold osub in E. destruct (N.leb_spec (popcount (word mod 2 ^ 64)) k); inversion E; lia.
Qed.

(* ------------------------------------------------------------------ utils::msb::<uW> *)
Lemma msb_core w v : v <> 0 -> v < 2 ^ w -> 1 <= w -> osub (w - 1) (clz w v) = osub (w - 1) (w - 1 - N.log2 v).
Proof.
  intros Hz Hv Hw. unfold clz. rewrite N.size_log2 by assumption.
  assert (N.log2 v < w) by (apply N.log2_lt_pow2; lia).
  f_equal. lia.
Qed.

Ltac msb_tac g w :=
  intros v Hv; unfold msb_w, g;
  destruct (N.eqb_spec v 0) as [Hz | Hz]; [reflexivity|];
  transitivity (osub (w - 1) (clz w v)); [reflexivity|];
  apply msb_core; [assumption|assumption|lia].

Theorem g_msb_u8_ok : forall v, v < 2 ^ 8 -> g_msb_u8 v = msb_w 8 v.
Proof. msb_tac g_msb_u8 8. Qed.
Theorem g_msb_u16_ok : forall v, v < 2 ^ 16 -> g_msb_u16 v = msb_w 16 v.
Proof. msb_tac g_msb_u16 16. Qed.
Theorem g_msb_u32_ok : forall v, v < 2 ^ 32 -> g_msb_u32 v = msb_w 32 v.
Proof. msb_tac g_msb_u32 32. Qed.
Theorem g_msb_u64_ok : forall v, v < 2 ^ 64 -> g_msb_u64 v = msb_w 64 v.
Proof. msb_tac g_msb_u64 64. Qed.
Theorem g_msb_u128_ok : forall v, v < 2 ^ 128 -> g_msb_u128 v = msb_w 128 v.
Proof. msb_tac g_msb_u128 128. Qed.


Print Assumptions g_select_in_word_ok.
Print Assumptions g_select_in_word_u128_ok.
Print Assumptions g_msb_u8_ok.
Print Assumptions g_msb_u16_ok.
Print Assumptions g_msb_u32_ok.
Print Assumptions g_msb_u64_ok.
Print Assumptions g_msb_u128_ok.
