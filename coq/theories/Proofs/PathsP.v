(* C19: corollaries of the construction contracts.
   (a) the answers of a quad wavelet tree do not depend on the element width it was built and
       queried with;
   (b) the constructors are injective: different sequences never build equal structures (and, the
       constructors being functions, equal sequences build equal structures);
   (c) the same for the rank/select quad vector (up to the two stored bits, [sym4]) and for the
       Huffman-shaped tree over a fixed code table. *)
From Coq Require Import ZArith Lia ZifyBool ZifyN ZifyNat.
From QwtModel Require Import ListX Seq Consts QVec RSQ QWT Huff ListXP ConstsOk QVecP RSQBuild RSQP.
From QwtModel Require Import QWTP HQWTP.
Ltac Zify.zify_post_hook ::= Z.div_mod_to_equations.
Arguments N.add : simpl never.
Arguments N.sub : simpl never.
Arguments N.mul : simpl never.
Arguments N.eqb : simpl never.
Arguments N.ltb : simpl never.
Arguments N.leb : simpl never.
Arguments N.pred : simpl never.
Arguments N.of_nat : simpl never.
Arguments N.land : simpl never.
Arguments N.lor : simpl never.
Arguments N.shiftr : simpl never.
Arguments N.shiftl : simpl never.
Arguments N.div : simpl never.
Arguments N.modulo : simpl never.
Arguments N.pow : simpl never.

(* ---------------------------------------------------------------- list extensionality for nthN *)
(* the same nthN everywhere (this already forces equal lengths) *)
Lemma nthN_ext_all {A} (l1 : list A) : forall l2, (forall i, nthN l1 i = nthN l2 i) -> l1 = l2.
Proof.
  induction l1 as [|x l1 IH]; intros [|y l2] H.
  - reflexivity.
  - specialize (H 0). discriminate H.
  - specialize (H 0). discriminate H.
  - pose proof (H 0) as H0. rewrite !nthN_0 in H0. injection H0 as ->. f_equal.
    apply IH. intros i. specialize (H (i + 1)). now rewrite !nthN_succ in H.
Qed.

(* the same length and the same nthN below the length *)
Lemma nthN_ext_len {A} (l1 l2 : list A) : len l1 = len l2 ->
  (forall i, i < len l1 -> nthN l1 i = nthN l2 i) -> l1 = l2.
Proof.
  intros Hl H. apply nthN_ext_all. intros i. destruct (N.ltb_spec i (len l1)) as [Hi|Hi].
  - now apply H.
  - rewrite !nthN_none by lia. reflexivity.
Qed.

Lemma Val_inj {A} (a b : A) : Val a = Val b -> a = b.
Proof. intros H. now injection H. Qed.

(* ---------------------------------------------------------------- (a) width independence *)
Theorem qwt_width_independent : forall w1 w2 bsize seq t1 t2,
  QWTP.width_ok w1 -> QWTP.width_ok w2 -> (bsize = 256 \/ bsize = 512) ->
  Forall (fun x => x < 2 ^ w1) seq -> Forall (fun x => x < 2 ^ w2) seq -> len seq < RSQ_MAXN ->
  qwt_new w1 bsize seq = Val t1 -> qwt_new w2 bsize seq = Val t2 ->
  (forall i, qwt_get w1 bsize t1 i = qwt_get w2 bsize t2 i) /\
  (forall c i, c < 2 ^ w1 -> c < 2 ^ w2 -> qwt_rank w1 bsize t1 c i = qwt_rank w2 bsize t2 c i) /\
  (forall c k, c < 2 ^ w1 -> c < 2 ^ w2 -> k < 2 ^ 64 -> qwt_select w1 bsize t1 c k = qwt_select w2 bsize t2 c k).
Proof.
  intros w1 w2 bsize seq t1 t2 Hw1 Hw2 Hb HF1 HF2 Hn E1 E2.
  destruct (qwt_new_correct w1 bsize seq Hw1 Hb HF1 Hn) as (t1' & E1' & S1).
  destruct (qwt_new_correct w2 bsize seq Hw2 Hb HF2 Hn) as (t2' & E2' & S2).
  rewrite E1 in E1'. apply Val_inj in E1'. subst t1'.
  rewrite E2 in E2'. apply Val_inj in E2'. subst t2'.
  destruct S1 as (_ & _ & _ & _ & G1 & R1 & _ & Q1 & _).
  destruct S2 as (_ & _ & _ & _ & G2 & R2 & _ & Q2 & _).
  split; [|split].
  - intros i. now rewrite G1, G2.
  - intros c i Hc1 Hc2. now rewrite (R1 c i Hc1), (R2 c i Hc2).
  - intros c k Hc1 Hc2 Hk. now rewrite (Q1 c k Hc1 Hk), (Q2 c k Hc2 Hk).
Qed.

(* also the metadata and the remaining queries *)
Corollary qwt_width_independent_more : forall w1 w2 bsize seq t1 t2,
  QWTP.width_ok w1 -> QWTP.width_ok w2 -> (bsize = 256 \/ bsize = 512) ->
  Forall (fun x => x < 2 ^ w1) seq -> Forall (fun x => x < 2 ^ w2) seq -> len seq < RSQ_MAXN ->
  qwt_new w1 bsize seq = Val t1 -> qwt_new w2 bsize seq = Val t2 ->
  qwt_len t1 = qwt_len t2 /\ qwt_is_empty t1 = qwt_is_empty t2 /\ qwt_sigma t1 = qwt_sigma t2 /\
  q_n_levels t1 = q_n_levels t2 /\
  (forall c i, c < 2 ^ w1 -> c < 2 ^ w2 -> qwt_rank_prefetch w1 bsize t1 c i = qwt_rank_prefetch w2 bsize t2 c i) /\
  (forall i, i < len seq -> qwt_get_unchecked w1 bsize t1 i = qwt_get_unchecked w2 bsize t2 i).
Proof.
  intros w1 w2 bsize seq t1 t2 Hw1 Hw2 Hb HF1 HF2 Hn E1 E2.
  destruct (qwt_new_correct w1 bsize seq Hw1 Hb HF1 Hn) as (t1' & E1' & S1).
  destruct (qwt_new_correct w2 bsize seq Hw2 Hb HF2 Hn) as (t2' & E2' & S2).
  rewrite E1 in E1'. apply Val_inj in E1'. subst t1'.
  rewrite E2 in E2'. apply Val_inj in E2'. subst t2'.
  destruct S1 as (L1 & M1 & Sg1 & NL1 & _ & R1 & P1 & _ & U1 & _).
  destruct S2 as (L2 & M2 & Sg2 & NL2 & _ & R2 & P2 & _ & U2 & _).
  repeat split; try congruence.
  - intros c i Hc1 Hc2. now rewrite (P1 c i Hc1), (P2 c i Hc2), (R1 c i Hc1), (R2 c i Hc2).
  - intros i Hi. destruct (nthN_lt_some seq i Hi) as (x & Hx). now rewrite (U1 i x Hx), (U2 i x Hx).
Qed.

(* ---------------------------------------------------------------- (b) injectivity of qwt_new *)
(* a tree determines the sequence it is a correct representation of *)
Lemma qwt_spec_inj : forall w bsize t s1 s2, qwt_spec w bsize t s1 -> qwt_spec w bsize t s2 -> s1 = s2.
Proof.
  intros w bsize t s1 s2 S1 S2.
  destruct S1 as (_ & _ & _ & _ & G1 & _). destruct S2 as (_ & _ & _ & _ & G2 & _).
  apply nthN_ext_all. intros i. apply Val_inj. now rewrite <- G1, <- G2.
Qed.

Theorem qwt_new_inj : forall w bsize s1 s2 t, QWTP.width_ok w -> (bsize = 256 \/ bsize = 512) ->
  Forall (fun x => x < 2 ^ w) s1 -> Forall (fun x => x < 2 ^ w) s2 -> len s1 < RSQ_MAXN -> len s2 < RSQ_MAXN ->
  qwt_new w bsize s1 = Val t -> qwt_new w bsize s2 = Val t -> s1 = s2.
Proof.
  intros w bsize s1 s2 t Hw Hb HF1 HF2 Hn1 Hn2 E1 E2.
  destruct (qwt_new_correct w bsize s1 Hw Hb HF1 Hn1) as (t1 & E1' & S1).
  destruct (qwt_new_correct w bsize s2 Hw Hb HF2 Hn2) as (t2 & E2' & S2).
  rewrite E1 in E1'. apply Val_inj in E1'. subst t1.
  rewrite E2 in E2'. apply Val_inj in E2'. subst t2.
  exact (qwt_spec_inj w bsize t s1 s2 S1 S2).
Qed.

(* both directions: the constructor separates exactly the distinct sequences *)
Corollary qwt_new_eq_iff : forall w bsize s1 s2, QWTP.width_ok w -> (bsize = 256 \/ bsize = 512) ->
  Forall (fun x => x < 2 ^ w) s1 -> Forall (fun x => x < 2 ^ w) s2 -> len s1 < RSQ_MAXN -> len s2 < RSQ_MAXN ->
  (qwt_new w bsize s1 = qwt_new w bsize s2 <-> s1 = s2).
Proof.
  intros w bsize s1 s2 Hw Hb HF1 HF2 Hn1 Hn2. split; [|now intros ->].
  intros E. destruct (qwt_new_correct w bsize s1 Hw Hb HF1 Hn1) as (t & E1 & _).
  apply (qwt_new_inj w bsize s1 s2 t); try assumption. now rewrite <- E.
Qed.

(* ---------------------------------------------------------------- (c) rsq_new and hq_build *)
Lemma rsq_spec_inj : forall bsize r s1 s2, rsq_spec bsize r s1 -> rsq_spec bsize r s2 -> s1 = s2.
Proof.
  intros bsize r s1 s2 S1 S2.
  destruct S1 as (_ & _ & G1 & _). destruct S2 as (_ & _ & G2 & _).
  apply nthN_ext_all. intros i. apply Val_inj. now rewrite <- G1, <- G2.
Qed.

(* the quad vector stores the two low bits of every value: injective up to sym4 *)
Theorem rsq_new_inj : forall bsize v1 v2 r, (bsize = 256 \/ bsize = 512) ->
  len v1 < RSQ_MAXN -> len v2 < RSQ_MAXN ->
  rsq_new bsize v1 = Val r -> rsq_new bsize v2 = Val r -> map sym4 v1 = map sym4 v2.
Proof.
  intros bsize v1 v2 r Hb Hn1 Hn2 E1 E2.
  destruct (rsq_new_correct bsize v1 Hb Hn1) as (r1 & E1' & S1).
  destruct (rsq_new_correct bsize v2 Hb Hn2) as (r2 & E2' & S2).
  rewrite E1 in E1'. apply Val_inj in E1'. subst r1.
  rewrite E2 in E2'. apply Val_inj in E2'. subst r2.
  exact (rsq_spec_inj bsize r _ _ S1 S2).
Qed.

Corollary rsq_new_eq_iff : forall bsize v1 v2, (bsize = 256 \/ bsize = 512) ->
  len v1 < RSQ_MAXN -> len v2 < RSQ_MAXN -> Forall (fun x => x < 4) v1 -> Forall (fun x => x < 4) v2 ->
  (rsq_new bsize v1 = rsq_new bsize v2 <-> v1 = v2).
Proof.
  intros bsize v1 v2 Hb Hn1 Hn2 HF1 HF2. split; [|now intros ->].
  intros E. destruct (rsq_new_correct bsize v1 Hb Hn1) as (r & E1 & _).
  assert (Hid : forall v, Forall (fun x => x < 4) v -> map sym4 v = v).
  { induction 1 as [|x v Hx _ IH]; [reflexivity|]. cbn [map]. rewrite IH. f_equal. unfold sym4. lia. }
  rewrite <- (Hid v1 HF1), <- (Hid v2 HF2).
  apply (rsq_new_inj bsize v1 v2 r); try assumption. now rewrite <- E.
Qed.

(* sym4 cannot be dropped: two inputs that differ above bit 1 build the same vector *)
Example rsq_new_not_inj : rsq_new 256 [1; 6] = rsq_new 256 [5; 2] /\ [1; 6] <> [5; 2].
Proof. split; [vm_compute; reflexivity|discriminate]. Qed.

(* the Huffman-shaped tree over a fixed (admissible) code table *)
Lemma hq_spec_inj : forall w bsize t s1 s2, hq_spec w bsize t s1 -> hq_spec w bsize t s2 -> s1 = s2.
Proof.
  intros w bsize t s1 s2 S1 S2.
  destruct S1 as (_ & G1 & _). destruct S2 as (_ & G2 & _).
  apply nthN_ext_all. intros i. apply Val_inj. now rewrite <- G1, <- G2.
Qed.

Theorem hq_build_inj : forall w bsize s1 s2 tab t, HQWTP.width_ok w -> (bsize = 256 \/ bsize = 512) ->
  Forall (fun x => x < 2 ^ w) s1 -> Forall (fun x => x < 2 ^ w) s2 -> len s1 < RSQ_MAXN -> len s2 < RSQ_MAXN ->
  table_ok s1 tab -> table_ok s2 tab ->
  hq_build bsize s1 tab = Val t -> hq_build bsize s2 tab = Val t -> s1 = s2.
Proof.
  intros w bsize s1 s2 tab t Hw Hb HF1 HF2 Hn1 Hn2 HT1 HT2 E1 E2.
  destruct (hq_build_correct w bsize s1 tab Hw Hb HF1 Hn1 HT1) as (t1 & E1' & S1).
  destruct (hq_build_correct w bsize s2 tab Hw Hb HF2 Hn2 HT2) as (t2 & E2' & S2).
  rewrite E1 in E1'. apply Val_inj in E1'. subst t1.
  rewrite E2 in E2'. apply Val_inj in E2'. subst t2.
  exact (hq_spec_inj w bsize t s1 s2 S1 S2).
Qed.

(* the tables need not even be the same: the tree records its table *)
Corollary hq_build_inj_tabs : forall w bsize s1 s2 tab1 tab2 t, HQWTP.width_ok w -> (bsize = 256 \/ bsize = 512) ->
  Forall (fun x => x < 2 ^ w) s1 -> Forall (fun x => x < 2 ^ w) s2 -> len s1 < RSQ_MAXN -> len s2 < RSQ_MAXN ->
  table_ok s1 tab1 -> table_ok s2 tab2 ->
  hq_build bsize s1 tab1 = Val t -> hq_build bsize s2 tab2 = Val t -> s1 = s2.
Proof.
  intros w bsize s1 s2 tab1 tab2 t Hw Hb HF1 HF2 Hn1 Hn2 HT1 HT2 E1 E2.
  destruct (hq_build_correct w bsize s1 tab1 Hw Hb HF1 Hn1 HT1) as (t1 & E1' & S1).
  destruct (hq_build_correct w bsize s2 tab2 Hw Hb HF2 Hn2 HT2) as (t2 & E2' & S2).
  rewrite E1 in E1'. apply Val_inj in E1'. subst t1.
  rewrite E2 in E2'. apply Val_inj in E2'. subst t2.
  exact (hq_spec_inj w bsize t s1 s2 S1 S2).
Qed.

Corollary hq_build_eq_iff : forall w bsize s1 s2 tab, HQWTP.width_ok w -> (bsize = 256 \/ bsize = 512) ->
  Forall (fun x => x < 2 ^ w) s1 -> Forall (fun x => x < 2 ^ w) s2 -> len s1 < RSQ_MAXN -> len s2 < RSQ_MAXN ->
  table_ok s1 tab -> table_ok s2 tab ->
  (hq_build bsize s1 tab = hq_build bsize s2 tab <-> s1 = s2).
Proof.
  intros w bsize s1 s2 tab Hw Hb HF1 HF2 Hn1 Hn2 HT1 HT2. split; [|now intros ->].
  intros E. destruct (hq_build_correct w bsize s1 tab Hw Hb HF1 Hn1 HT1) as (t & E1 & _).
  apply (hq_build_inj w bsize s1 s2 tab t); try assumption. now rewrite <- E.
Qed.

(* ---------------------------------------------------------------- the two families agree *)
(* construction paths: the plain and the Huffman-shaped quad tree over the same sequence answer
   get / select identically, and rank identically for symbols that occur *)
Theorem qwt_hq_agree : forall w bsize seq tab tq th, QWTP.width_ok w -> (bsize = 256 \/ bsize = 512) ->
  Forall (fun x => x < 2 ^ w) seq -> len seq < RSQ_MAXN -> table_ok seq tab ->
  qwt_new w bsize seq = Val tq -> hq_build bsize seq tab = Val th ->
  qwt_len tq = hq_len th /\
  (forall i, qwt_get w bsize tq i = hq_get w bsize th i) /\
  (forall c i, c < 2 ^ w -> 0 < countN c seq -> qwt_rank w bsize tq c i = hq_rank bsize th c i) /\
  (forall i, i < len seq -> qwt_get_unchecked w bsize tq i = hq_get_unchecked w bsize th i).
Proof.
  intros w bsize seq tab tq th Hw Hb HF Hn HT Eq Eh.
  destruct (qwt_new_correct w bsize seq Hw Hb HF Hn) as (tq' & Eq' & SQ).
  destruct (hq_build_correct w bsize seq tab Hw Hb HF Hn HT) as (th' & Eh' & SH).
  rewrite Eq in Eq'. apply Val_inj in Eq'. subst tq'.
  rewrite Eh in Eh'. apply Val_inj in Eh'. subst th'.
  destruct SQ as (LQ & _ & _ & _ & GQ & RQ & _ & _ & UQ & _).
  destruct SH as (LH & GH & RH & _ & _ & UH & _).
  split; [congruence|]. split; [|split].
  - intros i. now rewrite GQ, GH.
  - intros c i Hc Hpos. rewrite (RQ c i Hc), (RH c i Hc).
    assert (Hne : len seq <> 0).
    { destruct seq; [cbn [countN] in Hpos; lia|rewrite len_cons; lia]. }
    assert (Hcm : c <= maxN seq).
    { clear - Hpos. induction seq as [|x s IH]; cbn [countN maxN] in *; [lia|].
      destruct (N.eqb_spec x c); [lia|]. assert (c <= maxN s) by (apply IH; lia). lia. }
    replace (len seq =? 0) with false by lia. replace (c <=? maxN seq) with true by lia.
    replace (0 <? countN c seq) with true by lia. cbn [negb andb]. now rewrite andb_true_r.
  - intros i Hi. destruct (nthN_lt_some seq i Hi) as (x & Hx). now rewrite (UQ i x Hx), (UH i x Hx).
Qed.

(* ---------------------------------------------------------------- examples *)
Example width_ex : forall t1 t2, qwt_new 8 256 [3; 200; 7; 3; 0; 91] = Val t1 ->
  qwt_new 64 256 [3; 200; 7; 3; 0; 91] = Val t2 ->
  forall i, qwt_get 8 256 t1 i = qwt_get 64 256 t2 i.
Proof.
  intros t1 t2 E1 E2.
  refine (proj1 (qwt_width_independent 8 64 256 [3; 200; 7; 3; 0; 91] t1 t2 _ _ _ _ _ _ E1 E2)).
  - left; reflexivity.
  - right; right; right; left; reflexivity.
  - left; reflexivity.
  - repeat (constructor; [change (2 ^ 8) with 256; lia|]). constructor.
  - repeat (constructor; [change (2 ^ 64) with 18446744073709551616; lia|]). constructor.
  - reflexivity.
Qed.

Print Assumptions nthN_ext_all.
Print Assumptions nthN_ext_len.
Print Assumptions qwt_width_independent.
Print Assumptions qwt_width_independent_more.
Print Assumptions qwt_new_inj.
Print Assumptions qwt_new_eq_iff.
Print Assumptions rsq_new_inj.
Print Assumptions rsq_new_eq_iff.
Print Assumptions rsq_new_not_inj.
Print Assumptions hq_build_inj.
Print Assumptions hq_build_inj_tabs.
Print Assumptions hq_build_eq_iff.
Print Assumptions qwt_hq_agree.
Print Assumptions width_ex.
