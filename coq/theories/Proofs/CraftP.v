(* C02: craft_wm_codes (quad and binary) returns, whenever it returns, a table that realises the
   requested code lengths and is wavelet-matrix compatible (HuffWM.wm_ok), hence prefix free;
   and an explicit sufficient condition for it to return. *)
From Coq Require Import ZArith Lia ZifyBool ZifyN ZifyNat Sorted.
From QwtModel Require Import ListX ListXP Huff Codes WaveletMatrix HuffWM CraftArith.
Ltac Zify.zify_post_hook ::= Z.div_mod_to_equations.
Arguments N.add : simpl never.
Arguments N.sub : simpl never.
Arguments N.mul : simpl never.
Arguments N.eqb : simpl never.
Arguments N.ltb : simpl never.
Arguments N.leb : simpl never.
Arguments N.pred : simpl never.
Arguments N.of_nat : simpl never.
Arguments N.land : simpl never.
Arguments N.lor : simpl never.
Arguments N.shiftr : simpl never.
Arguments N.shiftl : simpl never.
Arguments N.div : simpl never.
Arguments N.modulo : simpl never.
Arguments N.pow : simpl never.

(* admissible request: lengths are positive multiples of frag, non-decreasing, symbols distinct and <= sigma *)
Definition craft_input_ok (frag : N) (f : list (N * N)) (sigma : N) : Prop :=
  (frag = 1 \/ frag = 2) /\
  NoDup (map fst f) /\ Forall (fun p => fst p <= sigma /\ 0 < snd p /\ snd p mod frag = 0) f /\
  StronglySorted (fun p q => snd p <= snd q) f /\ sigma < 2 ^ 64.

(* ================================================================ craft_expand *)
(* what craft_expand does to the unassigned part c[j..] *)
Definition expand_act (frag : N) (act : list N) (l : N) : list N :=
  if frag =? 2
  then map (fun x => N.lor x (N.shiftl 3 l)) act ++ map (fun x => N.lor x (N.shiftl 2 l)) act ++
       map (fun x => N.lor x (N.shiftl 1 l)) act ++ act
  else map (fun x => N.lor x (N.shiftl 1 l)) act ++ act.

Lemma skipnN_pre {A} (c X : list A) j : j <= len c -> skipnN j (firstnN j c ++ X) = X.
Proof.
  intros H. pose proof (len_firstnN_le' c j H) as E. set (pre := firstnN j c) in *.
  rewrite <- E. apply skipnN_app_exact'.
Qed.

Lemma len_skipnN' {A} (c : list A) j : j <= len c -> len (skipnN j c) = len c - j.
Proof.
  intros H. pose proof (firstnN_skipnN c j) as E. apply (f_equal (@len A)) in E.
  rewrite len_app, len_firstnN_le' in E by exact H. lia.
Qed.

Lemma craft_expand_spec frag c j l size c' : frag = 1 \/ frag = 2 -> j <= len c ->
  craft_expand frag c j l size = Val c' ->
  l < 32 /\ skipnN j c' = expand_act frag (skipnN j c) l /\ len c' <= size /\
  len c' = j + 2 ^ frag * (len c - j).
Proof.
  intros Hf Hj H. unfold craft_expand in H. cbv zeta in H.
  destruct (N.leb_spec 32 l) as [Hl|Hl]; cbn [bind] in H; [discriminate|].
  match type of H with (if ?b then _ else _) = _ => destruct b eqn:Eb end; [|discriminate].
  injection H as <-. apply N.leb_le in Eb.
  pose proof (len_firstnN_le' c j Hj) as E1. pose proof (len_skipnN' c j Hj) as E2.
  split; [exact Hl|]. unfold expand_act.
  destruct Hf as [-> | ->].
  - change (1 =? 2) with false in *. cbv iota in *. rewrite skipnN_pre by exact Hj.
    split; [reflexivity|]. split; [exact Eb|]. lens. rewrite !len_map, E1, E2.
    change (2 ^ 1) with 2. lia.
  - change (2 =? 2) with true in *. cbv iota in *. rewrite skipnN_pre by exact Hj.
    split; [reflexivity|]. split; [exact Eb|]. lens. rewrite !len_map, E1, E2.
    change (2 ^ 2) with 4. lia.
Qed.

Lemma craft_expand_total frag c j l size : frag = 1 \/ frag = 2 -> j <= len c -> l < 32 ->
  j + 2 ^ frag * (len c - j) <= size ->
  exists c', craft_expand frag c j l size = Val c' /\ len c' = j + 2 ^ frag * (len c - j).
Proof.
  intros Hf Hj Hl Hs. unfold craft_expand. cbv zeta.
  destruct (N.leb_spec 32 l) as [Hl'|_]; [lia|]. cbn [bind].
  pose proof (len_firstnN_le' c j Hj) as E1. pose proof (len_skipnN' c j Hj) as E2.
  match goal with |- exists c', (if len ?x <=? _ then _ else _) = _ /\ _ =>
    assert (EL : len x = j + 2 ^ frag * (len c - j)) end.
  { destruct Hf as [-> | ->].
    - change (1 =? 2) with false. cbv iota. lens. rewrite !len_map, E1, E2. change (2 ^ 1) with 2. lia.
    - change (2 =? 2) with true. cbv iota. lens. rewrite !len_map, E1, E2. change (2 ^ 2) with 4. lia. }
  rewrite EL. destruct (N.leb_spec (j + 2 ^ frag * (len c - j)) size); [|lia].
  eexists. split; [reflexivity|exact EL].
Qed.

Lemma tag_add k l act : Forall (fun x => x < 2 ^ l) act ->
  map (fun x => N.lor x (N.shiftl k l)) act = map (fun x => x + k * 2 ^ l) act.
Proof.
  intros H. rewrite Forall_forall in H. apply map_ext_in. intros x Hx.
  apply lor_shiftl_add. exact (H x Hx).
Qed.

Lemma expand_act_dec frag act l : frag = 1 \/ frag = 2 -> dec_lt (2 ^ l) act ->
  dec_lt (2 ^ (l + frag)) (expand_act frag act l).
Proof.
  intros Hf Ha. pose proof Ha as [_ Hb]. unfold expand_act. rewrite !(tag_add _ l act Hb).
  set (P := 2 ^ l) in *.
  assert (H1 : dec_lt (1 * P) act) by (replace (1 * P) with P by lia; exact Ha).
  pose proof (dec_lt_block P 1 act act Ha H1) as H2. change (1 + 1) with 2 in H2.
  destruct Hf as [-> | ->].
  - change (1 =? 2) with false. cbv iota. rewrite N.pow_add_r. fold P. change (2 ^ 1) with 2.
    replace (P * 2) with (2 * P) by lia. exact H2.
  - change (2 =? 2) with true. cbv iota. rewrite N.pow_add_r. fold P. change (2 ^ 2) with 4.
    pose proof (dec_lt_block P 2 act _ Ha H2) as H3. change (2 + 1) with 3 in H3.
    pose proof (dec_lt_block P 3 act _ Ha H3) as H4. change (3 + 1) with 4 in H4.
    replace (P * 4) with (4 * P) by lia. exact H4.
Qed.

Lemma expand_act_mod frag act l le e : le <= l ->
  Forall (fun x => x < 2 ^ l) act -> Forall (fun v => v mod 2 ^ le < e) act ->
  Forall (fun v => v mod 2 ^ le < e) (expand_act frag act l).
Proof.
  intros Hle Hb Hm. unfold expand_act. rewrite !(tag_add _ l act Hb).
  assert (E : 2 ^ l = 2 ^ le * 2 ^ (l - le)).
  { rewrite <- N.pow_add_r. f_equal. lia. }
  rewrite E. assert (HM : 2 ^ le <> 0) by (apply N.pow_nonzero; lia).
  destruct (frag =? 2); repeat (apply Forall_mod_block; [exact HM|exact Hm|]); exact Hm.
Qed.

(* ================================================================ craft_grow *)
Lemma craft_grow_spec frag target size : frag = 1 \/ frag = 2 -> target mod frag = 0 ->
  forall fuel c j l c' l',
  craft_grow frag c j l target size fuel = Val (c', l') ->
  j <= len c -> l mod frag = 0 -> l <= target -> l <= 32 -> dec_lt (2 ^ l) (skipnN j c) ->
  l' = target /\ target <= 32 /\ j <= len c' /\ dec_lt (2 ^ target) (skipnN j c') /\
  (forall le e, le <= l -> Forall (fun v => v mod 2 ^ le < e) (skipnN j c) ->
                Forall (fun v => v mod 2 ^ le < e) (skipnN j c')).
Proof.
  intros Hf Ht. induction fuel as [|fuel IH]; intros c j l c' l' H Hj Hlm Hlt Hl32 Hd;
    cbn [craft_grow] in H; [discriminate|].
  destruct (N.ltb_spec l target) as [Hlt'|Hge].
  - destruct (craft_expand frag c j l size) as [c1|] eqn:E; cbn [bind] in H; [|discriminate].
    destruct (craft_expand_spec frag c j l size c1 Hf Hj E) as (Hl & Hs & _ & HL).
    assert (Hj1 : j <= len c1) by lia.
    assert (Hd1 : dec_lt (2 ^ (l + frag)) (skipnN j c1)).
    { rewrite Hs. apply expand_act_dec; assumption. }
    assert (A1 : (l + frag) mod frag = 0) by (destruct Hf as [-> | ->]; lia).
    assert (A2 : l + frag <= target) by (destruct Hf as [-> | ->]; lia).
    assert (A3 : l + frag <= 32) by (destruct Hf as [-> | ->]; lia).
    destruct (IH c1 j (l + frag) c' l' H Hj1 A1 A2 A3 Hd1) as (R1 & R2 & R3 & R4 & R5).
    split; [exact R1|]. split; [exact R2|]. split; [exact R3|]. split; [exact R4|].
    intros le e Hle Hm. apply R5; [lia|]. rewrite Hs. apply expand_act_mod; [exact Hle|exact (proj2 Hd)|exact Hm].
  - injection H as <- <-. assert (l = target) by lia. subst l.
    split; [reflexivity|]. split; [exact Hl32|]. split; [exact Hj|]. split; [exact Hd|].
    intros le e _ Hm. exact Hm.
Qed.

(* ================================================================ craft_assign *)
(* an assignment: symbol, entry of the scratch array (first fragment least significant), bits *)
Record asn := mk_asn { a_sym : N; a_e : N; a_len : N }.
Definition asn_code (frag : N) (x : asn) : pcode :=
  mk_pc (rev_frags frag (a_e x) (a_len x) 0 40) (a_len x).
Definition asn_req (x : asn) : N * N := (a_sym x, a_len x).
(* [newer] was assigned after [older]: its first (a_len older) bits, reversed, are below older's *)
Definition Rasn (newer older : asn) : Prop :=
  a_len older <= a_len newer /\ a_e newer mod 2 ^ a_len older < a_e older.
Definition asn_wf (frag : N) (x : asn) : Prop :=
  0 < a_len x /\ a_len x <= 32 /\ a_len x mod frag = 0 /\ a_e x < 2 ^ a_len x.
Definition tab_ok (frag sigma : N) (asg : list asn) (table : list pcode) : Prop :=
  len table = sigma + 1 /\
  (forall x, In x asg -> nthN table (a_sym x) = Some (asn_code frag x)) /\
  (forall s, ~ In s (map a_sym asg) -> s <= sigma -> nthN table s = Some pc_zero).

Lemma craft_assign_inv frag sigma size : frag = 1 \/ frag = 2 ->
  forall rest c j l table asg tab,
  craft_assign frag rest c j l size table = Val tab ->
  StronglySorted Rasn asg -> Forall (asn_wf frag) asg -> tab_ok frag sigma asg table ->
  l mod frag = 0 -> l <= 32 -> j <= len c -> dec_lt (2 ^ l) (skipnN j c) ->
  Forall (fun x => a_len x <= l /\ Forall (fun v => v mod 2 ^ a_len x < a_e x) (skipnN j c)) asg ->
  NoDup (map a_sym asg ++ map fst rest) ->
  Forall (fun p => fst p <= sigma /\ 0 < snd p /\ snd p mod frag = 0 /\ l <= snd p) rest ->
  StronglySorted (fun p q => snd p <= snd q) rest ->
  exists asgF, StronglySorted Rasn asgF /\ Forall (asn_wf frag) asgF /\ tab_ok frag sigma asgF tab /\
               map asn_req (rev asgF) = map asn_req (rev asg) ++ rest.
Proof.
  intros Hf. induction rest as [|[sym target] rest IH];
    intros c j l table asg tab H HS HW HT Hlm Hl32 Hj Hd HI HN HR HSr.
  - cbn [craft_assign] in H. injection H as <-. exists asg.
    rewrite app_nil_r. repeat split; try assumption; apply HT.
  - cbn [craft_assign] in H.
    inversion HR as [|? ? Hp HR']; subst. cbn [fst snd] in Hp. destruct Hp as (Hsig & Htpos & Htm & Hlt).
    inversion HSr as [|? ? HSr' Hhead]; subst.
    destruct (craft_grow frag c j l target size 40) as [[c' l']|] eqn:EG; cbn [bind] in H; [|discriminate].
    destruct (craft_grow_spec frag target size Hf Htm 40%nat c j l c' l' EG Hj Hlm Hlt Hl32 Hd)
      as (-> & Ht32 & Hj' & Hd' & Hmod).
    unfold idx in H. destruct (nthN c' j) as [cj|] eqn:EN; cbn [bind] in H; [|discriminate].
    destruct HT as (HT1 & HT2 & HT3).
    destruct (N.ltb_spec sym (len table)) as [Hsym|Hsym]; cbn [bind] in H; [|discriminate].
    pose proof (skipnN_nth' c' j cj EN) as Esk. rewrite Esk in Hd', Hmod.
    destruct Hd' as [Hd1 Hd2]. inversion Hd1 as [|? ? Hd1' Hcj]; subst.
    inversion Hd2 as [|? ? Hcjb Hd2']; subst.
    set (new := mk_asn sym cj target).
    cbn [map app fst] in HN. pose proof (NoDup_remove _ _ _ HN) as [HN1 HN2].
    rewrite Forall_forall in HI.
    apply (IH c' (j + 1) target _ (new :: asg) tab) in H.
    + destruct H as (asgF & F1 & F2 & F3 & F4). exists asgF.
      split; [exact F1|]. split; [exact F2|]. split; [exact F3|].
      rewrite F4. cbn [rev]. rewrite map_app, <- app_assoc. reflexivity.
    + constructor; [exact HS|]. apply Forall_forall. intros x Hx. destruct (HI x Hx) as [Hxl Hxm].
      split; [cbn [new a_len]; lia|]. cbn [new a_e].
      specialize (Hmod (a_len x) (a_e x) Hxl Hxm). inversion Hmod; subst. assumption.
    + constructor; [|exact HW]. unfold asn_wf. cbn [new a_len a_e]. repeat split; assumption.
    + split; [rewrite setN_len; exact HT1|]. split.
      * intros x [<-|Hx].
        -- cbn [new a_sym]. apply nthN_setN_same. exact Hsym.
        -- rewrite nthN_setN_other; [exact (HT2 x Hx)|]. intros Heq. apply HN2.
           apply in_or_app. left. rewrite Heq. apply in_map. exact Hx.
      * intros s Hs Hss.
        assert (Hs' : sym <> s /\ ~ In s (map a_sym asg)).
        { split; intros Hc; apply Hs; [left; exact Hc|right; exact Hc]. }
        rewrite nthN_setN_other by exact (proj1 Hs'). apply HT3; [exact (proj2 Hs')|exact Hss].
    + exact Htm.
    + exact Ht32.
    + apply nthN_some_lt in EN. lia.
    + split; assumption.
    + constructor.
      * cbn [new a_len a_e]. split; [lia|]. rewrite Forall_forall in Hcj, Hd2'.
        apply Forall_forall. intros v Hv. rewrite N.mod_small by exact (Hd2' v Hv). exact (Hcj v Hv).
      * apply Forall_forall. intros x Hx. destruct (HI x Hx) as [Hxl Hxm]. split; [lia|].
        specialize (Hmod (a_len x) (a_e x) Hxl Hxm). inversion Hmod; subst. assumption.
    + cbn [map new a_sym app]. constructor; assumption.
    + rewrite Forall_forall in HR', Hhead. apply Forall_forall. intros p Hp.
      destruct (HR' p Hp) as (Q1 & Q2 & Q3 & Q4). specialize (Hhead p Hp). cbn [snd] in Hhead.
      repeat split; assumption.
    + exact HSr'.
Qed.

(* ================================================================ bridge to Theory/Codes.v *)
Lemma arity_of_pow frag : N.of_nat (arity_of frag) = 2 ^ frag.
Proof. unfold arity_of. apply Nnat.N2Nat.id. Qed.

Lemma code_dig_lt frag tab : forall l x, code_dig frag tab l x < N.of_nat (arity_of frag).
Proof.
  intros l x. rewrite arity_of_pow. unfold code_dig. pose proof (pow2_pos frag) as Hp.
  destruct (nthN tab (sym_index x)) as [c|]; [|exact Hp].
  rewrite land_mask. apply N.mod_lt. lia.
Qed.

Lemma mul_div_exact l frag : 0 < frag -> l mod frag = 0 -> frag * (l / frag) = l.
Proof. intros Hf Hm. pose proof (N.div_mod l frag ltac:(lia)) as H. lia. Qed.

Lemma asn_code_wf frag x : 0 < frag -> asn_wf frag x -> code_wf frag (asn_code frag x) = true.
Proof.
  intros Hf (H1 & H2 & H3 & H4). unfold code_wf, asn_code. cbn [pc_len pc_content].
  rewrite rev_frags_spec by assumption.
  pose proof (revd_lt (2 ^ frag) (pow2_pos frag) (N.to_nat (a_len x / frag)) (a_e x)) as Hr.
  rewrite Nnat.N2Nat.id, <- pow2_mul, mul_div_exact in Hr by assumption.
  repeat (apply andb_true_intro; split); lia.
Qed.

Lemma entry_bridge frag tab x : 0 < frag -> asn_wf frag x -> a_sym x < 2 ^ 64 ->
  nthN tab (a_sym x) = Some (asn_code frag x) ->
  code_clen frag tab (a_sym x) = N.to_nat (a_len x / frag) /\
  forall n, (n <= N.to_nat (a_len x / frag))%nat ->
    rev_val N (arity_of frag) (code_dig frag tab) n (a_sym x) = a_e x mod (2 ^ frag) ^ N.of_nat n.
Proof.
  intros Hf (H1 & H2 & H3 & H4) Hs Hn.
  assert (Es : sym_index (a_sym x) = a_sym x) by (unfold sym_index; apply N.mod_small; exact Hs).
  split.
  - unfold code_clen. rewrite Es, Hn. reflexivity.
  - induction n as [|n IH]; intros Hle.
    + cbn [rev_val]. change (N.of_nat 0) with 0. rewrite N.pow_0_r, N.mod_1_r. reflexivity.
    + cbn [rev_val]. rewrite IH by lia. rewrite arity_of_pow.
      rewrite (mod_pow_succ (2 ^ frag) (a_e x) n (pow2_pos frag)). f_equal. f_equal.
      unfold code_dig. rewrite Es, Hn. cbn [asn_code pc_content pc_len].
      rewrite land_mask, N.shiftr_div_pow2, rev_frags_spec by assumption.
      set (k := N.to_nat (a_len x / frag)) in *.
      assert (Ek : a_len x = frag * N.of_nat k).
      { unfold k. rewrite Nnat.N2Nat.id. symmetry. apply mul_div_exact; assumption. }
      assert (Ed : a_len x - frag * (N.of_nat n + 1) = frag * N.of_nat (k - 1 - n)).
      { replace (N.of_nat (k - 1 - n)) with (N.of_nat k - (N.of_nat n + 1)) by lia.
        rewrite N.mul_sub_distr_l, <- Ek. reflexivity. }
      rewrite Ed, pow2_mul. apply revd_digit; [|lia].
      apply (N.pow_gt_1 2 frag); lia.
Qed.

(* ================================================================ main theorem *)
Theorem craft_table_ok : forall frag f sigma scratch tab,
  craft_input_ok frag f sigma -> craft_wm_codes frag f sigma scratch = Val tab ->
  len tab = sigma + 1 /\
  (forall sym l, In (sym, l) f -> exists c, nthN tab sym = Some c /\ pc_len c = l /\ code_wf frag c = true) /\
  (forall sym, ~ In sym (map fst f) -> sym <= sigma -> nthN tab sym = Some pc_zero) /\
  code_wm_ok frag tab (map fst f) = true.
Proof.
  intros frag f sigma scratch tab (Hf & HN & HF & HS & Hsig) H. unfold craft_wm_codes in H.
  assert (Hfp : 0 < frag) by (destruct Hf as [-> | ->]; lia).
  destruct (craft_assign_inv frag sigma scratch Hf f [0] 0 0 _ [] tab H) as (asg & A1 & A2 & A3 & A4).
  - constructor.
  - constructor.
  - split; [|split].
    + unfold len. rewrite repeat_length. lia.
    + intros x [].
    + intros s _ Hs. apply nthN_repeat. lia.
  - destruct Hf as [-> | ->]; reflexivity.
  - lia.
  - unfold len. cbn [length]. lia.
  - cbn [skipnN]. change (0 =? 0) with true. cbv iota. split.
    + constructor; constructor.
    + constructor; [|constructor]. change (2 ^ 0) with 1. lia.
  - constructor.
  - exact HN.
  - rewrite Forall_forall in HF. apply Forall_forall. intros p Hp. destruct (HF p Hp) as (Q1 & Q2 & Q3).
    repeat split; try assumption. lia.
  - exact HS.
  - cbn [rev map app] in A4. destruct A3 as (T1 & T2 & T3). rewrite Forall_forall in A2.
    assert (Esyms : map fst f = map a_sym (rev asg)).
    { rewrite <- A4, map_map. apply map_ext. reflexivity. }
    assert (Hlook : forall s, In s (map fst f) -> exists x, In x asg /\ a_sym x = s).
    { intros s Hs. rewrite Esyms in Hs. apply in_map_iff in Hs as (x & Hx1 & Hx2).
      exists x. split; [apply in_rev; exact Hx2|exact Hx1]. }
    assert (Hsym64 : forall x, In x asg -> a_sym x < 2 ^ 64).
    { intros x Hx. pose proof (nthN_some_lt _ _ _ (T2 x Hx)). lia. }
    split; [exact T1|]. split; [|split].
    + intros sym l Hin. rewrite <- A4 in Hin. apply in_map_iff in Hin as (x & Hx1 & Hx2).
      apply in_rev in Hx2. injection Hx1 as <- <-. exists (asn_code frag x).
      split; [exact (T2 x Hx2)|]. split; [reflexivity|]. apply asn_code_wf; [exact Hfp|exact (A2 x Hx2)].
    + intros sym Hnot Hle. apply T3; [|exact Hle]. intros Hc. apply Hnot. rewrite Esyms, map_rev.
      apply in_rev. rewrite rev_involutive. exact Hc.
    + unfold code_wm_ok, wm_ok. apply forallb_forall. intros sf Hsf. apply forallb_forall. intros sg Hsg.
      destruct (Hlook sf Hsf) as (xf & Hxf & <-). destruct (Hlook sg Hsg) as (xg & Hxg & <-).
      destruct (entry_bridge frag tab xf Hfp (A2 xf Hxf) (Hsym64 xf Hxf) (T2 xf Hxf)) as (Cf & Rf).
      destruct (entry_bridge frag tab xg Hfp (A2 xg Hxg) (Hsym64 xg Hxg) (T2 xg Hxg)) as (Cg & Rg).
      unfold ok_pair. rewrite Cf, Cg.
      destruct (Nat.ltb_spec (N.to_nat (a_len xf / frag)) (N.to_nat (a_len xg / frag))) as [Hlt|Hge];
        cbn [implb]; [|reflexivity].
      apply N.ltb_lt. rewrite Rf, Rg by lia.
      destruct (A2 xf Hxf) as (W1 & W2 & W3 & W4).
      rewrite Nnat.N2Nat.id, <- pow2_mul, mul_div_exact by assumption.
      rewrite (N.mod_small (a_e xf)) by exact W4.
      destruct (SS_pair Rasn asg xg xf A1 Hxg Hxf) as [E|[[_ R]|[R _]]].
      * subst xg. lia.
      * exact R.
      * exfalso. assert (a_len xg / frag <= a_len xf / frag) by (apply N.div_le_mono; lia). lia.
Qed.

Lemma craft_wm_ok : forall frag f sigma scratch tab,
  craft_input_ok frag f sigma -> craft_wm_codes frag f sigma scratch = Val tab ->
  HuffWM.wm_ok N (arity_of frag) (code_dig frag tab) (code_clen frag tab) (map fst f) = true.
Proof. intros frag f sigma scratch tab Hi H. exact (proj2 (proj2 (proj2 (craft_table_ok _ _ _ _ _ Hi H)))). Qed.

(* consequence used by the tree proofs (prefix_free does not depend on the arity) *)
Corollary craft_prefix_free : forall frag f sigma scratch tab,
  craft_input_ok frag f sigma -> craft_wm_codes frag f sigma scratch = Val tab ->
  HuffWM.prefix_free N (code_dig frag tab) (code_clen frag tab) (map fst f) = true.
Proof.
  intros frag f sigma scratch tab Hi H.
  apply (wm_ok_prefix_free N (arity_of frag) (code_dig frag tab) (code_dig_lt frag tab)).
  exact (craft_wm_ok frag f sigma scratch tab Hi H).
Qed.

(* codes have positive length: every symbol of the request has at least one fragment *)
Corollary craft_clen_pos : forall frag f sigma scratch tab,
  craft_input_ok frag f sigma -> craft_wm_codes frag f sigma scratch = Val tab ->
  forall sym, In sym (map fst f) -> (0 < code_clen frag tab sym)%nat.
Proof.
  intros frag f sigma scratch tab Hi H sym Hs. pose proof Hi as (Hf & _ & HF & _ & Hsig).
  destruct (craft_table_ok _ _ _ _ _ Hi H) as (_ & HT & _).
  apply in_map_iff in Hs as ([s l] & <- & Hin). cbn [fst].
  destruct (HT s l Hin) as (c & Hc & Hl & Hw). rewrite Forall_forall in HF.
  destruct (HF _ Hin) as (Q1 & Q2 & Q3). cbn [fst snd] in *.
  unfold code_clen, sym_index. rewrite N.mod_small by lia. rewrite Hc, Hl.
  assert (1 <= l / frag); [|lia]. apply N.div_le_lower_bound; destruct Hf as [-> | ->]; lia.
Qed.

(* ================================================================ totality *)
(* simulation of the length of the scratch array only: m = len c *)
Fixpoint fits_grow (frag m j l target size : N) (fuel : nat) : option (N * N) :=
  match fuel with
  | O => None
  | S f => if l <? target then
             let m' := j + 2 ^ frag * (m - j) in      (* = 2^frag * m - (2^frag - 1) * j *)
             if m' <=? size then fits_grow frag m' j (l + frag) target size f else None
           else Some (m, l)
  end.
(* the successive lengths of c (after the growth for each symbol), None when the bound is exceeded
   or no codeword is left for symbol number j (Kraft sum above 1) *)
Fixpoint craft_sizes_from (frag : N) (f : list (N * N)) (m j l size : N) : option (list N) :=
  match f with
  | [] => Some []
  | (_, target) :: rest =>
      match fits_grow frag m j l target size 40 with
      | None => None
      | Some (m', l') =>
          if j <? m' then
            match craft_sizes_from frag rest m' (j + 1) l' size with
            | Some r => Some (m' :: r)
            | None => None
            end
          else None
      end
  end.
Definition craft_sizes (frag : N) (f : list (N * N)) (scratch : N) : option (list N) :=
  craft_sizes_from frag f 1 0 0 scratch.
Definition craft_fits (frag : N) (f : list (N * N)) (scratch : N) : bool :=
  match craft_sizes frag f scratch with Some _ => true | None => false end.

Lemma fits_grow_sim frag target size : frag = 1 \/ frag = 2 -> target <= 32 ->
  forall fuel c j l m' l',
  fits_grow frag (len c) j l target size fuel = Some (m', l') -> j <= len c ->
  exists c', craft_grow frag c j l target size fuel = Val (c', l') /\ len c' = m' /\ j <= len c'.
Proof.
  intros Hf Ht. induction fuel as [|fuel IH]; intros c j l m' l' H Hj; cbn [fits_grow] in H; [discriminate|].
  cbn [craft_grow]. destruct (N.ltb_spec l target) as [Hlt|Hge].
  - cbv zeta in H. destruct (N.leb_spec (j + 2 ^ frag * (len c - j)) size) as [Hs|Hs]; [|discriminate].
    destruct (craft_expand_total frag c j l size Hf Hj ltac:(lia) Hs) as (c1 & E1 & L1).
    rewrite E1. cbn [bind]. rewrite <- L1 in H. apply IH; [exact H|lia].
  - injection H as <- <-. exists c. split; [reflexivity|split; [reflexivity|exact Hj]].
Qed.

Lemma craft_sizes_sim frag size : frag = 1 \/ frag = 2 ->
  forall f c j l table r,
  craft_sizes_from frag f (len c) j l size = Some r -> j <= len c ->
  Forall (fun p => snd p <= 32 /\ fst p < len table) f ->
  exists tab, craft_assign frag f c j l size table = Val tab.
Proof.
  intros Hf. induction f as [|[sym target] f IH]; intros c j l table r H Hj HF; cbn [craft_assign].
  - eexists. reflexivity.
  - cbn [craft_sizes_from] in H. inversion HF as [|? ? [Ht Hs] HF']; subst. cbn [fst snd] in Ht, Hs.
    destruct (fits_grow frag (len c) j l target size 40) as [[m' l']|] eqn:EG; [|discriminate].
    destruct (fits_grow_sim frag target size Hf Ht 40%nat c j l m' l' EG Hj) as (c' & E1 & L1 & J1).
    rewrite E1. cbn [bind]. destruct (N.ltb_spec j m') as [Hjm|Hjm]; [|discriminate].
    destruct (craft_sizes_from frag f m' (j + 1) l' size) as [r'|] eqn:ER; [|discriminate].
    destruct (nthN_lt_some c' j ltac:(lia)) as (cj & Ecj). unfold idx. rewrite Ecj. cbn [bind].
    destruct (N.ltb_spec sym (len table)) as [_|Hge]; [|lia]. cbn [bind].
    rewrite <- L1 in ER. apply (IH c' (j + 1) l' _ r' ER); [lia|].
    rewrite setN_len. exact HF'.
Qed.

(* the routine cannot fault except for the three modelled reasons *)
Theorem craft_total : forall frag f sigma scratch, craft_input_ok frag f sigma ->
  Forall (fun p => snd p <= 32) f -> craft_fits frag f scratch = true ->
  exists tab, craft_wm_codes frag f sigma scratch = Val tab.
Proof.
  intros frag f sigma scratch (Hf & _ & HF & _ & _) H32 Hfit. unfold craft_fits, craft_sizes in Hfit.
  destruct (craft_sizes_from frag f 1 0 0 scratch) as [r|] eqn:E; [|discriminate].
  unfold craft_wm_codes. apply (craft_sizes_sim frag scratch Hf f [0] 0 0 _ r).
  - exact E.
  - lia.
  - rewrite Forall_forall in HF, H32. apply Forall_forall. intros p Hp. split; [exact (H32 p Hp)|].
    unfold len. rewrite repeat_length. destruct (HF p Hp) as (Q & _). lia.
Qed.

(* conversely craft_fits is necessary: the condition is exact for lengths <= 32 *)
Lemma fits_grow_complete frag target size : frag = 1 \/ frag = 2 ->
  forall fuel c j l c' l',
  craft_grow frag c j l target size fuel = Val (c', l') -> j <= len c ->
  fits_grow frag (len c) j l target size fuel = Some (len c', l') /\ j <= len c'.
Proof.
  intros Hf. induction fuel as [|fuel IH]; intros c j l c' l' H Hj; cbn [craft_grow] in H; [discriminate|].
  cbn [fits_grow]. destruct (N.ltb_spec l target) as [Hlt|Hge].
  - destruct (craft_expand frag c j l size) as [c1|] eqn:E; cbn [bind] in H; [|discriminate].
    destruct (craft_expand_spec frag c j l size c1 Hf Hj E) as (_ & _ & Hs & HL).
    cbv zeta. rewrite <- HL. destruct (N.leb_spec (len c1) size); [|lia].
    apply IH; [exact H|lia].
  - injection H as <- <-. split; [reflexivity|exact Hj].
Qed.

Lemma craft_sizes_complete frag size : frag = 1 \/ frag = 2 ->
  forall f c j l table tab,
  craft_assign frag f c j l size table = Val tab -> j <= len c ->
  exists r, craft_sizes_from frag f (len c) j l size = Some r.
Proof.
  intros Hf. induction f as [|[sym target] f IH]; intros c j l table tab H Hj; cbn [craft_sizes_from].
  - eexists. reflexivity.
  - cbn [craft_assign] in H.
    destruct (craft_grow frag c j l target size 40) as [[c' l']|] eqn:EG; cbn [bind] in H; [|discriminate].
    destruct (fits_grow_complete frag target size Hf 40%nat c j l c' l' EG Hj) as (E1 & J1). rewrite E1.
    unfold idx in H. destruct (nthN c' j) as [cj|] eqn:EN; cbn [bind] in H; [|discriminate].
    apply nthN_some_lt in EN. destruct (N.ltb_spec j (len c')); [|lia].
    destruct (sym <? len table); cbn [bind] in H; [|discriminate].
    destruct (IH c' (j + 1) l' _ tab H ltac:(lia)) as (r & Er). rewrite Er. eexists. reflexivity.
Qed.

Theorem craft_fits_necessary : forall frag f sigma scratch tab, frag = 1 \/ frag = 2 ->
  craft_wm_codes frag f sigma scratch = Val tab -> craft_fits frag f scratch = true.
Proof.
  intros frag f sigma scratch tab Hf H. unfold craft_wm_codes in H.
  destruct (craft_sizes_complete frag scratch Hf f [0] 0 0 _ tab H) as (r & Er).
  - unfold len. cbn [length]. lia.
  - unfold craft_fits, craft_sizes. change (len [0]) with 1 in Er. rewrite Er. reflexivity.
Qed.

(* ================================================================ examples *)
Example craft4_ex :
  craft4 [(5,2);(9,2);(7,4);(3,4);(1,4)] 9 =
    Val [pc_zero; mk_pc 6 4; pc_zero; mk_pc 3 4; pc_zero; mk_pc 3 2; pc_zero; mk_pc 7 4; pc_zero; mk_pc 2 2] /\
  craft_sizes 2 [(5,2);(9,2);(7,4);(3,4);(1,4)] 20 = Some [4; 4; 10; 10; 10] /\
  craft_fits 2 [(5,2);(9,2);(7,4);(3,4);(1,4)] 20 = true /\
  code_wm_ok 2 [pc_zero; mk_pc 6 4; pc_zero; mk_pc 3 4; pc_zero; mk_pc 3 2; pc_zero; mk_pc 7 4; pc_zero; mk_pc 2 2]
             [5; 9; 7; 3; 1] = true.
Proof. vm_compute. repeat split; reflexivity. Qed.

Example craft2_ex :
  craft2 [(5,1);(9,2);(7,3);(3,4);(1,4)] 9 =
    Val [pc_zero; mk_pc 0 4; pc_zero; mk_pc 1 4; pc_zero; mk_pc 1 1; pc_zero; mk_pc 1 3; pc_zero; mk_pc 1 2] /\
  craft_sizes 1 [(5,1);(9,2);(7,3);(3,4);(1,4)] 5 = Some [2; 3; 4; 5; 5] /\
  craft_fits 1 [(5,1);(9,2);(7,3);(3,4);(1,4)] 5 = true /\
  code_wm_ok 1 [pc_zero; mk_pc 0 4; pc_zero; mk_pc 1 4; pc_zero; mk_pc 1 1; pc_zero; mk_pc 1 3; pc_zero; mk_pc 1 2]
             [5; 9; 7; 3; 1] = true.
Proof. vm_compute. repeat split; reflexivity. Qed.

(* the predicate is not trivially true: the canonical (lexicographic) assignment for the lengths of
   craft4_ex, 5 -> (0), 9 -> (1), 7 -> (2,0), 3 -> (2,1), 1 -> (2,2), is prefix free but not
   wavelet-matrix compatible *)
Example canonical_not_wm :
  let tab := [pc_zero; mk_pc 10 4; pc_zero; mk_pc 9 4; pc_zero; mk_pc 0 2; pc_zero; mk_pc 8 4; pc_zero; mk_pc 1 2] in
  code_wm_ok 2 tab [5; 9; 7; 3; 1] = false /\
  HuffWM.prefix_free N (code_dig 2 tab) (code_clen 2 tab) [5; 9; 7; 3; 1] = true /\
  forallb (code_wf 2) [mk_pc 10 4; mk_pc 9 4; mk_pc 0 2; mk_pc 8 4; mk_pc 1 2] = true.
Proof. vm_compute. repeat split; reflexivity. Qed.

(* a request whose Kraft sum exceeds 1 (five quad codes of one fragment), and one exceeding the scratch bound *)
Example craft_fits_neg :
  craft_fits 2 [(0,2);(1,2);(2,2);(3,2);(4,2)] 20 = false /\
  craft4 [(0,2);(1,2);(2,2);(3,2);(4,2)] 4 = Fault Panic /\
  craft_fits 1 [(5,1);(9,2);(7,3);(3,4);(1,4)] 4 = false /\
  craft_wm_codes 1 [(5,1);(9,2);(7,3);(3,4);(1,4)] 9 4 = Fault Panic.
Proof. vm_compute. repeat split; reflexivity. Qed.

(* the general theorems instantiated *)
Example craft4_ex_thm : forall tab, craft4 [(5,2);(9,2);(7,4);(3,4);(1,4)] 9 = Val tab ->
  code_wm_ok 2 tab [5; 9; 7; 3; 1] = true.
Proof.
  intros tab H. unfold craft4 in H.
  refine (proj2 (proj2 (proj2 (craft_table_ok 2 [(5,2);(9,2);(7,4);(3,4);(1,4)] 9 _ tab _ H)))).
  split; [now right|]. split; [|split; [|split]].
  - cbn [map fst]. repeat (constructor; [cbn [In]; lia|]). constructor.
  - repeat (constructor; [cbn [fst snd]; lia|]). constructor.
  - repeat (constructor; [|repeat (constructor; [cbn [snd]; lia|]); constructor]). constructor.
  - change (2 ^ 64) with 18446744073709551616. lia.
Qed.

Print Assumptions craft_table_ok.
Print Assumptions craft_prefix_free.
Print Assumptions craft_clen_pos.
Print Assumptions craft_total.
Print Assumptions craft_fits_necessary.
Print Assumptions craft4_ex.
Print Assumptions craft2_ex.
Print Assumptions canonical_not_wm.
Print Assumptions craft_fits_neg.
Print Assumptions craft4_ex_thm.
