(* Construction invariant of RSSupportPlain::new (rsb_loop / rss_new of Model/RSQ.v):
   the directory it builds is the closed form [dir_ok]. *)
From Coq Require Import ZArith Lia ZifyBool ZifyN ZifyNat.
From QwtModel Require Import ListX Seq Consts QVec RSQ ListXP ConstsOk QVecP RSQBits RSQWord RSQList.
Ltac Zify.zify_post_hook ::= Z.div_mod_to_equations.
Arguments N.add : simpl never.
Arguments N.sub : simpl never.
Arguments N.mul : simpl never.
Arguments N.eqb : simpl never.
Arguments N.ltb : simpl never.
Arguments N.leb : simpl never.
Arguments N.pred : simpl never.
Arguments N.of_nat : simpl never.
Arguments N.land : simpl never.
Arguments N.lor : simpl never.
Arguments N.shiftr : simpl never.
Arguments N.shiftl : simpl never.
Arguments N.div : simpl never.
Arguments N.modulo : simpl never.
Arguments N.pow : simpl never.
Arguments N.sqrt : simpl never.


Definition bsz (bsize : N) : Prop := bsize = 256 \/ bsize = 512.
Definition RSQ_MAXN : N := MAX_LEN - 4096.
Lemma RSQ_MAXN_val : RSQ_MAXN = 8796093018112. Proof. reflexivity. Qed.

(* field k of superblock j for symbol c when the blocks starting at positions <= lim are set *)
Definition fld (bsize : N) (s : list N) (lim j k c : N) : N :=
  if j * (8 * bsize) + k * bsize <=? lim
  then rk s c (j * (8 * bsize) + k * bsize) - rk s c (j * (8 * bsize)) else 0.
Definition W (bsize : N) (s : list N) (lim j : N) : list N :=
  sbrec (fun c => rk s c (j * (8 * bsize))) (fun c k => fld bsize s lim j k c).

Lemma fld_bound bsize s lim j c : bsz bsize -> fbound (fun k => fld bsize s lim j k c).
Proof.
  intros Hb k Hk. unfold fld. destruct (_ <=? lim); [|lia].
  pose proof (rk_lip s c (j * (8 * bsize)) (k * bsize)). destruct Hb as [-> | ->]; lia.
Qed.

Lemma sbrec_ext sbc sbc' f f' :
  (forall c, c <= 3 -> sbc c = sbc' c) -> (forall c k, c <= 3 -> 1 <= k <= 7 -> f c k = f' c k) ->
  sbrec sbc f = sbrec sbc' f'.
Proof.
  intros H1 H2. unfold sbrec. apply vec4_ext. intros c Hc. rewrite (H1 c Hc).
  apply packw_ext. intros k Hk. now apply H2.
Qed.

Lemma W_ext bsize s lim lim' j :
  (forall k, 1 <= k <= 7 -> (j * (8 * bsize) + k * bsize <= lim <-> j * (8 * bsize) + k * bsize <= lim')) ->
  W bsize s lim j = W bsize s lim' j.
Proof.
  intros H. unfold W. apply sbrec_ext; [reflexivity|]. intros c k Hc Hk. unfold fld.
  specialize (H k Hk).
  destruct (N.leb_spec (j * (8 * bsize) + k * bsize) lim), (N.leb_spec (j * (8 * bsize) + k * bsize) lim'); lia.
Qed.

(* ------------------------------------------------------------------ boundaries, by cases *)
Lemma bnd_A bsize I sbc bc occ sam sbs : bsz bsize -> I mod (8 * bsize) = 0 ->
  (forall c, c <= 3 -> sbc c < 2 ^ 44) ->
  rsb_boundaries bsize (mk_rsb I (vec4 sbc) bc occ sam sbs) =
  Val (mk_rsb I (vec4 sbc) [0;0;0;0] occ sam (sbrec sbc (fun _ _ => 0) :: sbs)).
Proof.
  intros Hb HI Hs. unfold rsb_boundaries. cbn [b_i b_sbc b_bc b_occ b_samples b_sbs].
  rewrite RS_BLOCKS_IN_SB_val, HI. change (0 =? 0) with true. cbv iota.
  cbn [b_i b_sbc b_bc b_occ b_samples b_sbs].
  assert (E1 : I mod bsize = 0) by (destruct Hb as [-> | ->]; lia).
  assert (E2 : (I / bsize) mod 8 = 0) by (destruct Hb as [-> | ->]; lia).
  rewrite E1, E2. change (0 =? 0) with true. cbv iota.
  rewrite sb_new_vec4 by assumption.
  rewrite (sb_set_block_counters_0 _ (fun _ => 0)) by (intros; lia). reflexivity.
Qed.

Lemma bnd_B bsize I sbc bc occ sam last last' rest : bsz bsize -> I mod (8 * bsize) <> 0 ->
  I mod bsize = 0 -> sb_set_block_counters last ((I / bsize) mod 8) bc = Val last' ->
  rsb_boundaries bsize (mk_rsb I sbc bc occ sam (last :: rest)) =
  Val (mk_rsb I sbc bc occ sam (last' :: rest)).
Proof.
  intros Hb H1 H2 E. unfold rsb_boundaries. cbn [b_i b_sbc b_bc b_occ b_samples b_sbs].
  rewrite RS_BLOCKS_IN_SB_val. replace (I mod (8 * bsize) =? 0) with false by lia.
  rewrite H2. change (0 =? 0) with true. cbv iota. cbn [b_i b_sbc b_bc b_occ b_samples b_sbs].
  rewrite E. reflexivity.
Qed.

Lemma bnd_C bsize st : bsz bsize -> b_i st mod bsize <> 0 -> rsb_boundaries bsize st = Val st.
Proof.
  intros Hb H. unfold rsb_boundaries. rewrite RS_BLOCKS_IN_SB_val.
  assert (H1 : b_i st mod (8 * bsize) <> 0) by (destruct Hb as [-> | ->]; lia).
  replace (b_i st mod (8 * bsize) =? 0) with false by lia.
  replace (b_i st mod bsize =? 0) with false by lia. reflexivity.
Qed.

(* ------------------------------------------------------------------ small list facts *)
Lemma len_rev {A} (l : list A) : len (rev l) = len l.
Proof. unfold len. now rewrite rev_length. Qed.
Lemma nthN_snoc {A} (l : list A) v q :
  nthN (l ++ [v]) q = if q <? len l then nthN l q else if q =? len l then Some v else None.
Proof.
  destruct (N.ltb_spec q (len l)) as [H|H]; [now apply nthN_app1|].
  rewrite nthN_app2 by assumption. destruct (N.eqb_spec q (len l)) as [->|Hn].
  - now rewrite N.sub_diag.
  - apply nthN_none. rewrite len_cons, len_nil. lia.
Qed.

(* ------------------------------------------------------------------ invariants *)
(* samples of symbol c (reversed list l) when cnt occurrences have been seen *)
Definition samp_ok (bsize : N) (s : list N) (c : N) (l : list N) (cnt : N) : Prop :=
  len l = (cnt + 8191) / 8192 /\
  forall q x, nthN (rev l) q = Some x ->
    x <= len s / (8 * bsize) /\ rk s c (x * (8 * bsize)) <= q * 8192 /\
    q * 8192 < rk s c ((x + 1) * (8 * bsize)).

(* after the boundaries at index i *)
Definition binv (bsize : N) (s : list N) (i : N) (st : rsb_state) : Prop :=
  b_i st = i /\
  b_sbc st = vec4 (fun c => rk s c i) /\
  b_bc st = vec4 (fun c => rk s c i - rk s c (i / (8 * bsize) * (8 * bsize))) /\
  b_occ st = vec4 (fun c => rk s c i) /\
  (exists sm, b_samples st = vec4 sm /\ forall c, c <= 3 -> samp_ok bsize s c (sm c) (rk s c i)) /\
  (exists rest, b_sbs st = W bsize s i (i / (8 * bsize)) :: rest /\ len rest = i / (8 * bsize) /\
     forall j, j < i / (8 * bsize) -> nthN (rev rest) j = Some (W bsize s (len s) j)).

(* after the symbol at index i, before the boundaries at i + 1 *)
Definition pinv (bsize : N) (s : list N) (i : N) (st : rsb_state) : Prop :=
  b_i st = i + 1 /\
  b_sbc st = vec4 (fun c => rk s c (i + 1)) /\
  b_bc st = vec4 (fun c => rk s c (i + 1) - rk s c (i / (8 * bsize) * (8 * bsize))) /\
  b_occ st = vec4 (fun c => rk s c (i + 1)) /\
  (exists sm, b_samples st = vec4 sm /\ forall c, c <= 3 -> samp_ok bsize s c (sm c) (rk s c (i + 1))) /\
  (exists rest, b_sbs st = W bsize s i (i / (8 * bsize)) :: rest /\ len rest = i / (8 * bsize) /\
     forall j, j < i / (8 * bsize) -> nthN (rev rest) j = Some (W bsize s (len s) j)).

Lemma samples_step bsize s i x sm : bsz bsize -> len s < 2 ^ 43 -> nthN s i = Some x -> x <= 3 ->
  (forall c, c <= 3 -> samp_ok bsize s c (sm c) (rk s c i)) ->
  exists sm',
    (if rk s x i mod SELECT_NUM_SAMPLES =? 0
     then let! sl := idx (vec4 sm) x in
          Val (setN (vec4 sm) x ((i / (RS_BLOCKS_IN_SB * bsize)) mod 2 ^ 32 :: sl))
     else Val (vec4 sm)) = Val (vec4 sm') /\
    forall c, c <= 3 -> samp_ok bsize s c (sm' c) (rk s c (i + 1)).
Proof.
  intros Hb Hn Hx Hx3 Hs. rewrite SELECT_NUM_SAMPLES_val, RS_BLOCKS_IN_SB_val.
  pose proof (nthN_some_lt _ _ _ Hx) as Hi. norm_pow in Hn.
  assert (Hrk : forall c, rk s c (i + 1) = rk s c i + (if x =? c then 1 else 0))
    by (intros c; apply rk_succ; exact Hx).
  destruct (N.eqb_spec (rk s x i mod 8192) 0) as [Hz|Hnz].
  - rewrite idx_vec4 by assumption. cbn [bind]. rewrite setN_vec4 by assumption.
    eexists. split; [reflexivity|]. intros c Hc. cbv beta. rewrite Hrk.
    destruct (N.eqb_spec c x) as [->|Hcx].
    + rewrite N.eqb_refl. destruct (Hs x Hx3) as (Hl & Hp). split.
      * rewrite len_cons, Hl. lia.
      * intros q y. cbn [rev]. rewrite nthN_snoc, len_rev, Hl.
        destruct (N.ltb_spec q ((rk s x i + 8191) / 8192)) as [Hq|Hq]; [apply Hp|].
        destruct (N.eqb_spec q ((rk s x i + 8191) / 8192)) as [->|Hq']; [|discriminate].
        intros E. injection E as <-.
        assert (Ey : (i / (8 * bsize)) mod 2 ^ 32 = i / (8 * bsize)).
        { apply N.mod_small. norm_pow. destruct Hb as [-> | ->]; lia. }
        rewrite Ey.
        pose proof (rk_mono s x (i / (8 * bsize) * (8 * bsize)) i) as M1.
        pose proof (rk_mono s x (i + 1) ((i / (8 * bsize) + 1) * (8 * bsize))) as M2.
        specialize (Hrk x). rewrite N.eqb_refl in Hrk.
        destruct Hb as [-> | ->]; lia.
    + replace (x =? c) with false by lia. rewrite N.add_0_r. apply Hs. exact Hc.
  - exists sm. split; [reflexivity|]. intros c Hc. rewrite Hrk.
    destruct (N.eqb_spec x c) as [->|Hcx]; [|rewrite N.add_0_r; now apply Hs].
    destruct (Hs c Hc) as (Hl & Hp). split; [rewrite Hl; lia|exact Hp].
Qed.

Lemma rsb_symbol_inv bsize s i st x : bsz bsize -> len s < 2 ^ 43 -> binv bsize s i st ->
  nthN s i = Some x -> x <= 3 ->
  exists st', rsb_symbol bsize st x = Val st' /\ pinv bsize s i st'.
Proof.
  intros Hb Hn (Hi & Hsbc & Hbc & Hocc & (sm & Hsm & Hsamp) & Hsbs) Hx Hx3.
  destruct st as [bi sbc bc occ sam sbs]. cbn [b_i b_sbc b_bc b_occ b_samples b_sbs] in *. subst.
  unfold rsb_symbol. cbn [b_i b_sbc b_bc b_occ b_samples b_sbs].
  rewrite idx_vec4 by assumption. cbn [bind].
  destruct (samples_step bsize s i x sm Hb Hn Hx Hx3 Hsamp) as (sm' & E & Hs'). rewrite E. cbn [bind].
  rewrite !incr_vec4 by assumption. cbn [bind].
  eexists. split; [reflexivity|].
  assert (Hrk : forall c, rk s c (i + 1) = rk s c i + (if x =? c then 1 else 0))
    by (intros c; apply rk_succ; exact Hx).
  unfold pinv. cbn [b_i b_sbc b_bc b_occ b_samples b_sbs].
  split; [reflexivity|]. split; [|split; [|split; [|split]]].
  - apply vec4_ext. intros c Hc. rewrite Hrk.
    destruct (N.eqb_spec c x) as [->|Hcx]; [rewrite N.eqb_refl; reflexivity|].
    replace (x =? c) with false by lia. lia.
  - apply vec4_ext. intros c Hc. rewrite Hrk.
    pose proof (rk_mono s c (i / (8 * bsize) * (8 * bsize)) i) as M.
    assert (i / (8 * bsize) * (8 * bsize) <= i) by (destruct Hb as [-> | ->]; lia).
    destruct (N.eqb_spec c x) as [->|Hcx]; [rewrite N.eqb_refl; lia|].
    replace (x =? c) with false by lia. lia.
  - apply vec4_ext. intros c Hc. rewrite Hrk.
    destruct (N.eqb_spec c x) as [->|Hcx]; [rewrite N.eqb_refl; reflexivity|].
    replace (x =? c) with false by lia. lia.
  - exists sm'. split; [reflexivity|exact Hs'].
  - exact Hsbs.
Qed.

Lemma rk_lt44 s c i : len s < 2 ^ 43 -> rk s c i < 2 ^ 44.
Proof. intros H. pose proof (rk_le_len s c i). norm_pow. norm_pow in H. lia. Qed.

Lemma rsb_boundaries_inv bsize s i st : bsz bsize -> len s < 2 ^ 43 -> i + 1 <= len s ->
  pinv bsize s i st -> exists st', rsb_boundaries bsize st = Val st' /\ binv bsize s (i + 1) st'.
Proof.
  intros Hb Hn Hi (Ei & Hsbc & Hbc & Hocc & (sm & Hsm & Hsamp) & (rest & Hsbs & Hlen & Hpt)).
  destruct st as [bi sbc bc occ sam sbs]. cbn [b_i b_sbc b_bc b_occ b_samples b_sbs] in *. subst.
  destruct (N.eq_dec ((i + 1) mod (8 * bsize)) 0) as [HA|HA].
  - (* a new superblock starts at i + 1 *)
    rewrite bnd_A by (try assumption; intros; now apply rk_lt44).
    eexists. split; [reflexivity|].
    assert (EJ : (i + 1) / (8 * bsize) = i / (8 * bsize) + 1) by (destruct Hb as [-> | ->]; lia).
    assert (EI : (i + 1) / (8 * bsize) * (8 * bsize) = i + 1) by (destruct Hb as [-> | ->]; lia).
    unfold binv. cbn [b_i b_sbc b_bc b_occ b_samples b_sbs].
    split; [reflexivity|]. split; [reflexivity|]. split; [|split; [reflexivity|split]].
    + rewrite EI. change [0;0;0;0] with (vec4 (fun _ : N => 0)). apply vec4_ext. intros; lia.
    + exists sm. split; [reflexivity|exact Hsamp].
    + exists (W bsize s i (i / (8 * bsize)) :: rest). split; [|split].
      * f_equal. unfold W. apply sbrec_ext.
        -- intros c Hc. now rewrite EI.
        -- intros c k Hc Hk. unfold fld.
           replace (_ <=? i + 1) with false; [reflexivity|]. destruct Hb as [-> | ->]; lia.
      * rewrite len_cons, Hlen, EJ. reflexivity.
      * intros j Hj. cbn [rev]. rewrite nthN_snoc, len_rev, Hlen.
        destruct (N.ltb_spec j (i / (8 * bsize))) as [Hlt|Hge]; [now apply Hpt|].
        replace (j =? i / (8 * bsize)) with true by lia. f_equal.
        assert (j = i / (8 * bsize)) by lia. subst j.
        apply W_ext. intros k Hk. destruct Hb as [-> | ->]; lia.
  - assert (EJ : (i + 1) / (8 * bsize) = i / (8 * bsize)) by (destruct Hb as [-> | ->]; lia).
    destruct (N.eq_dec ((i + 1) mod bsize) 0) as [HB|HB].
    + (* a block starts at i + 1 *)
      set (J := i / (8 * bsize)) in *. set (m := ((i + 1) / bsize) mod 8).
      assert (Hm : 1 <= m <= 7) by (subst m; destruct Hb as [-> | ->]; lia).
      assert (EI : J * (8 * bsize) + m * bsize = i + 1) by (subst m J; destruct Hb as [-> | ->]; lia).
      assert (Eset : sb_set_block_counters (W bsize s i J) m
                (vec4 (fun c => rk s c (i + 1) - rk s c (J * (8 * bsize)))) = Val (W bsize s (i + 1) J)).
      { unfold W. apply sb_set_block_counters_rec.
        - exact Hm.
        - intros c Hc. now apply fld_bound.
        - intros c k Hc Hk. unfold fld. replace (_ <=? i) with false; [reflexivity|].
          destruct Hb as [-> | ->]; lia.
        - intros c Hc. pose proof (rk_lip s c (J * (8 * bsize)) (m * bsize)) as L. rewrite EI in L.
          destruct Hb as [-> | ->]; lia.
        - intros c Hc. now apply rk_lt44.
        - intros c Hc. unfold fld. rewrite EI. replace (i + 1 <=? i + 1) with true by lia. reflexivity.
        - intros c k Hc Hk Hne. unfold fld.
          destruct (N.leb_spec (J * (8 * bsize) + k * bsize) (i + 1)),
                   (N.leb_spec (J * (8 * bsize) + k * bsize) i); try reflexivity;
            exfalso; destruct Hb as [-> | ->]; lia. }
      rewrite (bnd_B _ _ _ _ _ _ _ _ _ Hb HA HB Eset).
      eexists. split; [reflexivity|].
      unfold binv. cbn [b_i b_sbc b_bc b_occ b_samples b_sbs]. rewrite EJ.
      split; [reflexivity|]. split; [reflexivity|]. split; [reflexivity|]. split; [reflexivity|]. split.
      * exists sm. split; [reflexivity|exact Hsamp].
      * exists rest. repeat split; assumption.
    + rewrite bnd_C by assumption.
      eexists. split; [reflexivity|].
      unfold binv. cbn [b_i b_sbc b_bc b_occ b_samples b_sbs]. rewrite EJ.
      split; [reflexivity|]. split; [reflexivity|]. split; [reflexivity|]. split; [reflexivity|]. split.
      * exists sm. split; [reflexivity|exact Hsamp].
      * exists rest. split; [|split; assumption]. f_equal.
        apply W_ext. intros k Hk. destruct Hb as [-> | ->]; lia.
Qed.

(* ------------------------------------------------------------------ the loop *)
Lemma binv_init bsize s : bsz bsize ->
  exists st, rsb_boundaries bsize (mk_rsb 0 [0;0;0;0] [0;0;0;0] [0;0;0;0] [[];[];[];[]] []) = Val st /\
             binv bsize s 0 st.
Proof.
  intros Hb. change [0;0;0;0] with (vec4 (fun _ : N => 0)) at 1.
  rewrite bnd_A; [|exact Hb| destruct Hb as [-> | ->]; reflexivity | intros; norm_pow; lia].
  eexists. split; [reflexivity|].
  assert (E0 : 0 / (8 * bsize) = 0) by (destruct Hb as [-> | ->]; reflexivity).
  unfold binv. cbn [b_i b_sbc b_bc b_occ b_samples b_sbs]. rewrite E0.
  split; [reflexivity|]. split; [|split; [|split; [|split]]].
  - apply vec4_ext. intros c Hc. now rewrite rk_0.
  - change [0;0;0;0] with (vec4 (fun _ : N => 0)). apply vec4_ext. intros c Hc. rewrite rk_0. lia.
  - change [0;0;0;0] with (vec4 (fun _ : N => 0)). apply vec4_ext. intros c Hc. now rewrite rk_0.
  - exists (fun _ => []). split; [reflexivity|]. intros c Hc. rewrite rk_0. split; [reflexivity|].
    intros q x. cbn [rev]. destruct q; discriminate.
  - exists []. split; [|split; [reflexivity|intros j Hj; lia]].
    f_equal. unfold W. apply sbrec_ext.
    + intros c Hc. replace (0 * (8 * bsize)) with 0 by lia. now rewrite rk_0.
    + intros c k Hc Hk. unfold fld. replace (_ <=? 0) with false; [reflexivity|].
      destruct Hb as [-> | ->]; lia.
Qed.

Fixpoint rsb_loop' (bsize : N) (st : rsb_state) (syms : list N) : outcome rsb_state :=
  match syms with
  | [] => Val st
  | x :: syms' =>
      let! st2 := rsb_symbol bsize st x in
      let! st3 := rsb_boundaries bsize st2 in
      rsb_loop' bsize st3 syms'
  end.

Lemma rsb_loop_eq bsize : forall syms st,
  rsb_loop bsize st syms = let! st1 := rsb_boundaries bsize st in rsb_loop' bsize st1 syms.
Proof.
  induction syms as [|x syms IH]; intros st; cbn [rsb_loop rsb_loop'].
  - destruct (rsb_boundaries bsize st); reflexivity.
  - destruct (rsb_boundaries bsize st) as [st1|]; cbn [bind]; [|reflexivity].
    destruct (rsb_symbol bsize st1 x) as [st2|]; cbn [bind]; [|reflexivity]. apply IH.
Qed.

Lemma rsb_loop'_inv bsize s : bsz bsize -> len s < 2 ^ 43 -> Forall (fun x => x < 4) s ->
  forall rest p st, s = p ++ rest -> binv bsize s (len p) st ->
  exists st', rsb_loop' bsize st rest = Val st' /\ binv bsize s (len s) st'.
Proof.
  intros Hb Hn HF. induction rest as [|x rest IH]; intros p st Es Hinv; cbn [rsb_loop'].
  - exists st. split; [reflexivity|]. rewrite app_nil_r in Es. rewrite <- Es in Hinv. exact Hinv.
  - assert (Hx : nthN s (len p) = Some x).
    { rewrite Es, nthN_app2 by lia. now rewrite N.sub_diag. }
    assert (Hx3 : x <= 3).
    { rewrite Forall_forall in HF. assert (x < 4); [|lia]. apply HF. rewrite Es. apply in_or_app. right. now left. }
    destruct (rsb_symbol_inv bsize s (len p) st x Hb Hn Hinv Hx Hx3) as (st2 & E2 & H2). rewrite E2. cbn [bind].
    pose proof (nthN_some_lt _ _ _ Hx) as Hlt.
    destruct (rsb_boundaries_inv bsize s (len p) st2 Hb Hn ltac:(lia) H2) as (st3 & E3 & H3). rewrite E3. cbn [bind].
    apply (IH (p ++ [x])).
    + now rewrite <- app_assoc.
    + now rewrite len_app, len_cons, len_nil.
Qed.

Lemma rsb_loop_inv bsize s : bsz bsize -> len s < 2 ^ 43 -> Forall (fun x => x < 4) s ->
  exists st, rsb_loop bsize (mk_rsb 0 [0;0;0;0] [0;0;0;0] [0;0;0;0] [[];[];[];[]] []) s = Val st /\
             binv bsize s (len s) st.
Proof.
  intros Hb Hn HF. rewrite rsb_loop_eq. destruct (binv_init bsize s Hb) as (st0 & E0 & H0).
  rewrite E0. cbn [bind]. apply (rsb_loop'_inv bsize s Hb Hn HF s [] st0); [reflexivity|exact H0].
Qed.

(* ------------------------------------------------------------------ the finished directory *)
Definition fsamp_ok (bsize : N) (s : list N) (c : N) (L : list N) : Prop :=
  (forall q, q * 8192 < countN c s -> exists x, nthN L q = Some x /\
     x <= len s / (8 * bsize) /\ rk s c (x * (8 * bsize)) <= q * 8192 /\
     q * 8192 < rk s c ((x + 1) * (8 * bsize))) /\
  (0 < countN c s -> nthN L ((countN c s + 8191) / 8192) = Some (len s / (8 * bsize))).

Definition dir_ok (bsize : N) (s : list N) (r : rssupport) : Prop :=
  len (rs_superblocks r) = len s / (8 * bsize) + 1 /\
  (forall j, j <= len s / (8 * bsize) ->
     nthN (rs_superblocks r) j = Some (W bsize s (len s + bsize) j)) /\
  exists sm, rs_samples r = vec4 sm /\ forall c, c <= 3 -> fsamp_ok bsize s c (sm c).

Lemma fsamp_final bsize s c l sentinel : samp_ok bsize s c l (countN c s) -> sentinel = len s / (8 * bsize) ->
  fsamp_ok bsize s c (rev (sentinel :: match l with [] => [0] | _ => l end)).
Proof.
  intros (Hl & Hp) ->. split.
  - intros q Hq. assert (Hql : q < len l) by (rewrite Hl; lia).
    destruct l as [|y l']; [unfold len in Hql; cbn [length] in Hql; lia|]. set (l := y :: l') in *.
    change (rev (len s / (8 * bsize) :: l)) with (rev l ++ [len s / (8 * bsize)]).
    rewrite nthN_app1 by now rewrite len_rev.
    destruct (nthN_lt_some (rev l) q) as (x & Ex); [now rewrite len_rev|].
    exists x. split; [exact Ex|]. now apply Hp.
  - intros Hpos. assert (Hql : 0 < len l) by (rewrite Hl; lia).
    destruct l as [|y l']; [unfold len in Hql; cbn [length] in Hql; lia|]. set (l := y :: l') in *.
    change (rev (len s / (8 * bsize) :: l)) with (rev l ++ [len s / (8 * bsize)]).
    rewrite nthN_snoc, len_rev, <- Hl. replace (len l <? len l) with false by lia.
    now rewrite N.eqb_refl.
Qed.

Theorem rss_new_ok bsize s : bsz bsize -> len s < RSQ_MAXN -> Forall (fun x => x < 4) s ->
  exists r, rss_new bsize s = Val r /\ dir_ok bsize s r.
Proof.
  intros Hb Hn HF. rewrite RSQ_MAXN_val in Hn.
  assert (Hn43 : len s < 2 ^ 43) by (norm_pow; lia).
  unfold rss_new. rewrite MAX_LEN_val, RS_BLOCKS_IN_SB_val.
  replace (len s <? 8796093022208) with true by lia. cbn [oassert bind].
  replace ((bsize =? 256) || (bsize =? 512)) with true by (destruct Hb as [-> | ->]; reflexivity).
  cbn [bind].
  destruct (rsb_loop_inv bsize s Hb Hn43 HF) as (st & E & Hinv). rewrite E. cbn [bind].
  destruct Hinv as (Ei & Hsbc & Hbc & Hocc & (sm & Hsm & Hsamp) & (rest & Hsbs & Hlen & Hpt)).
  set (n := len s) in *. set (J := n / (8 * bsize)) in *.
  assert (Efin : (if (n / bsize) mod 8 + 1 <? 8
                  then match b_sbs st with
                       | [] => Fault Panic
                       | last :: rest0 =>
                           let! last' := sb_set_block_counters last ((n / bsize) mod 8 + 1) (b_bc st) in
                           Val (last' :: rest0)
                       end
                  else Val (b_sbs st)) = Val (W bsize s (n + bsize) J :: rest)).
  { rewrite Hsbs, Hbc. set (m := (n / bsize) mod 8 + 1).
    assert (EI : J * (8 * bsize) + (m - 1) * bsize <= n /\ n < J * (8 * bsize) + m * bsize)
      by (subst m J; destruct Hb as [-> | ->]; lia).
    destruct (N.ltb_spec m 8) as [Hm|Hm].
    - assert (Eset : sb_set_block_counters (W bsize s n J) m
                (vec4 (fun c => rk s c n - rk s c (J * (8 * bsize)))) = Val (W bsize s (n + bsize) J)).
      { unfold W. apply sb_set_block_counters_rec.
        - generalize dependent m. intros m. lia.
        - intros c Hc. now apply fld_bound.
        - intros c k Hc Hk. unfold fld. replace (_ <=? n) with false; [reflexivity|].
          destruct Hb as [-> | ->]; lia.
        - intros c Hc. pose proof (rk_lip s c (J * (8 * bsize)) (n - J * (8 * bsize))) as L.
          replace (J * (8 * bsize) + (n - J * (8 * bsize))) with n in L by lia.
          destruct Hb as [-> | ->]; lia.
        - intros c Hc. now apply rk_lt44.
        - intros c Hc. unfold fld. replace (_ <=? n + bsize) with true by (destruct Hb as [-> | ->]; lia).
          rewrite (rk_all s c (J * (8 * bsize) + m * bsize)) by (fold n; lia).
          rewrite (rk_all s c n) by (fold n; lia). reflexivity.
        - intros c k Hc Hk Hne. unfold fld.
          destruct (N.leb_spec (J * (8 * bsize) + k * bsize) (n + bsize)),
                   (N.leb_spec (J * (8 * bsize) + k * bsize) n); try reflexivity;
            exfalso; destruct Hb as [-> | ->]; lia. }
      rewrite Eset. reflexivity.
    - do 2 f_equal. apply W_ext. intros k Hk. destruct Hb as [-> | ->]; lia. }
  rewrite Efin. cbn [bind]. rewrite len_cons, Hlen.
  assert (HJ : J + 1 < 2 ^ 32) by (subst J; norm_pow; destruct Hb as [-> | ->]; lia).
  rewrite (N.mod_small (J + 1)) by exact HJ.
  replace (J + 1 =? 0) with false by lia. cbn [bind].
  assert (Esent : (J + 1 + 2 ^ 32 - 1) mod 2 ^ 32 = J).
  { replace (J + 1 + 2 ^ 32 - 1) with (J + 1 * 2 ^ 32) by lia. rewrite N.mod_add by (norm_pow; lia).
    apply N.mod_small. lia. }
  rewrite Esent.
  eexists. split; [reflexivity|]. unfold dir_ok. cbn [rs_superblocks rs_samples]. fold n. fold J. split; [|split].
  - rewrite len_rev, len_cons, Hlen. reflexivity.
  - intros j Hj. cbn [rev]. rewrite nthN_snoc, len_rev, Hlen.
    destruct (N.ltb_spec j J) as [Hlt|Hge].
    + rewrite Hpt by assumption. f_equal. apply W_ext. intros k Hk.
      subst J. destruct Hb as [-> | ->]; lia.
    + replace (j =? J) with true by lia. assert (j = J) by lia. subst j. reflexivity.
  - rewrite Hsm, map_vec4. eexists. split; [reflexivity|]. intros c Hc. cbv beta.
    apply fsamp_final; [|reflexivity]. specialize (Hsamp c Hc). rewrite rk_all in Hsamp by (fold n; lia).
    exact Hsamp.
Qed.
