(* Huffman-shaped quad wavelet tree (Model/Huff.v), part 1: the bridge between the code table
   and the digit / code length functions of Theory/Codes.v, and the construction: the levels
   hq_levels builds are rank/select quad vectors of the digit lists [hwm_levels] of the theory. *)
From Coq Require Import ZArith Lia ZifyBool ZifyN ZifyNat.
From QwtModel Require Import ListX Seq Consts QVec RSQ QWT Huff ListXP ConstsOk QVecP RSQList RSQWord RSQBuild RSQP.
From QwtModel Require Import WaveletMatrix HuffWM Codes.
Ltac Zify.zify_post_hook ::= Z.div_mod_to_equations.
Arguments N.add : simpl never.
Arguments N.sub : simpl never.
Arguments N.mul : simpl never.
Arguments N.eqb : simpl never.
Arguments N.ltb : simpl never.
Arguments N.leb : simpl never.
Arguments N.pred : simpl never.
Arguments N.of_nat : simpl never.
Arguments N.land : simpl never.
Arguments N.lor : simpl never.
Arguments N.shiftr : simpl never.
Arguments N.shiftl : simpl never.
Arguments N.div : simpl never.
Arguments N.modulo : simpl never.
Arguments N.pow : simpl never.

(* ---------------------------------------------------------------- generic list facts *)
Lemma mapo_val {A B} (f : A -> outcome B) (g : A -> B) l :
  (forall x, In x l -> f x = Val (g x)) -> mapo f l = Val (map g l).
Proof.
  induction l as [|x l IH]; intros H; cbn [mapo map]; [reflexivity|].
  rewrite (H x (or_introl eq_refl)). cbn [bind].
  rewrite IH by (intros y Hy; apply H; now right). reflexivity.
Qed.

Lemma pick_tagged {A} (t : A -> N) d l :
  map snd (filter (fun p : N * A => fst p =? d) (map (fun a => (t a, a)) l)) =
  filter (fun a => t a =? d) l.
Proof.
  induction l as [|a l IH]; cbn [map filter fst]; [reflexivity|].
  destruct (t a =? d); cbn [map snd]; now rewrite IH.
Qed.

Lemma flat_opt_filter {A B} (p : A -> bool) (g : A -> B) l :
  flat_map (fun o : option B => match o with Some d => [d] | None => [] end)
           (map (fun s => if p s then Some (g s) else None) l) = map g (filter p l).
Proof.
  induction l as [|a l IH]; cbn [map flat_map filter]; [reflexivity|].
  destruct (p a); cbn [app map]; now rewrite IH.
Qed.

Lemma filter_all {A} (p : A -> bool) l : (forall x, In x l -> p x = true) -> filter p l = l.
Proof.
  induction l as [|a l IH]; intros H; cbn [filter]; [reflexivity|].
  rewrite (H a (or_introl eq_refl)), IH; [reflexivity|]. intros y Hy. apply H. now right.
Qed.
Lemma filter_none {A} (p : A -> bool) l : (forall x, In x l -> p x = false) -> filter p l = [].
Proof.
  induction l as [|a l IH]; intros H; cbn [filter]; [reflexivity|].
  rewrite (H a (or_introl eq_refl)), IH; [reflexivity|]. intros y Hy. apply H. now right.
Qed.

Lemma map_sym4_id l : Forall (fun x => x < 4) l -> map sym4 l = l.
Proof.
  induction 1 as [|x l Hx HF IH]; cbn [map]; [reflexivity|].
  rewrite IH. f_equal. unfold sym4. apply N.mod_small. exact Hx.
Qed.

Lemma Forall2_nthN {A B} (R : A -> B -> Prop) xs ys : Forall2 R xs ys ->
  forall i y, nthN ys i = Some y -> exists x, nthN xs i = Some x /\ R x y.
Proof.
  induction 1 as [|x y xs ys Hxy HF IH]; intros i y0 Hy; [discriminate|].
  cbn [nthN] in *. destruct (i =? 0).
  - injection Hy as <-. eauto.
  - exact (IH _ _ Hy).
Qed.

Lemma In_maxN x l : In x l -> x <= maxN l.
Proof.
  induction l as [|y l IH]; intros H; [contradiction|].
  cbn [maxN]. destruct H as [->|H]; [lia|]. specialize (IH H). lia.
Qed.

Lemma nthN_In {A} (l : list A) i x : nthN l i = Some x -> In x l.
Proof. rewrite nthN_nth_error. apply nth_error_In. Qed.

(* projections of rsq_spec *)
Section RsqProj.
Variables (bsize : N) (r : rsq) (s : list N).
Hypothesis H : rsq_spec bsize r s.
Lemma rs_rank c i : rsq_rank bsize r c i =
  Val (if (c <=? 3) && (i <=? len s) then Some (rank_spec s c i) else None).
Proof. apply H. Qed.
Lemma rs_select c k : k < 2 ^ 64 -> rsq_select bsize r c k = Val (if c <=? 3 then select_spec s c k else None).
Proof. apply H. Qed.
Lemma rs_rank_u c i : c <= 3 -> i <= len s -> rsq_rank_unchecked bsize r c i = Val (rank_spec s c i).
Proof. apply H. Qed.
Lemma rs_get_u i x : nthN s i = Some x -> rsq_get_unchecked r i = Val x.
Proof. apply H. Qed.
Lemma rs_occs_u c : c <= 3 -> rsq_occs_smaller_unchecked r c = Val (count_lt c s).
Proof. apply H. Qed.
Lemma rs_block c i : c <= 3 -> i <= len s ->
  exists v, rss_rank_block bsize (rsq_rs r) c i = Val v /\ v <= rank_spec s c i.
Proof. apply H. Qed.
End RsqProj.

(* ---------------------------------------------------------------- the code table *)
Section Bridge.
Variable tab : list pcode.
Notation dig := (code_dig 2 tab).
Notation clen := (code_clen 2 tab).

Lemma dig_lt : forall l x, dig l x < N.of_nat 4.
Proof.
  intros l x. unfold code_dig. change (N.of_nat 4) with 4. change (2 ^ 2 - 1) with 3.
  destruct (nthN tab (sym_index x)); [rewrite land3; lia|lia].
Qed.
Lemma dig_le3 l x : dig l x <= 3.
Proof. pose proof (dig_lt l x) as H. change (N.of_nat 4) with 4 in H. lia. Qed.
Lemma clen_eq x c : nthN tab (sym_index x) = Some c -> clen x = N.to_nat (pc_len c / 2).
Proof. intros H. unfold code_clen. now rewrite H. Qed.
Lemma dig_eq x c l : nthN tab (sym_index x) = Some c ->
  dig l x = N.land (N.shiftr (pc_content c) (pc_len c - 2 * (N.of_nat l + 1))) 3.
Proof. intros H. unfold code_dig. now rewrite H. Qed.

Variable seq : list N.
Hypothesis Htab : len tab < 2 ^ 64.
Hypothesis Hwf : forall x, In x seq -> exists c, nthN tab x = Some c /\ code_wf 2 c = true.
Notation QQ l := (Q N 4 dig clen l seq).
Notation LV l0 n := (hwm_levels N 4 dig clen l0 n seq).

Lemma sym_index_in x : In x seq -> sym_index x = x.
Proof.
  intros H. destruct (Hwf x H) as (c & Hc & _). apply nthN_some_lt in Hc.
  unfold sym_index. apply N.mod_small. lia.
Qed.

Record code_facts (x : N) (c : pcode) : Prop := {
  cf_nth : nthN tab (sym_index x) = Some c;
  cf_pos : 0 < pc_len c;
  cf_le : pc_len c <= 32;
  cf_even : pc_len c mod 2 = 0;
  cf_content : pc_content c < 2 ^ pc_len c }.

Lemma in_seq_code x : In x seq -> exists c, code_facts x c.
Proof.
  intros H. destruct (Hwf x H) as (c & Hc & W). exists c. unfold code_wf in W.
  apply andb_prop in W as [W W4]. apply andb_prop in W as [W W3]. apply andb_prop in W as [W1 W2].
  constructor; [rewrite (sym_index_in x H); exact Hc|lia|lia|lia|lia].
Qed.

Lemma clen_pos x : In x seq -> (0 < clen x)%nat.
Proof.
  intros H. destruct (in_seq_code x H) as (c & [H1 H2 H3 H4 H5]). rewrite (clen_eq x c H1). lia.
Qed.

Lemma QQ_in l x : In x (QQ l) -> In x seq /\ (l < clen x)%nat.
Proof.
  intros H. apply (Q_In N 4 dig dig_lt clen) in H. destruct H as [H1 H2]. split; [exact H1|].
  pose proof (clen_pos x H1). lia.
Qed.

(* ---------- one level: the digits pushed and the reordering ---------- *)
Lemma level_digit_val l a : In a seq ->
  (let! code := idx tab (sym_index a) in
   if 2 * (N.of_nat l + 1) <=? pc_len code
   then Val (Some (N.land (N.shiftr (pc_content code) (pc_len code - 2 * (N.of_nat l + 1))) 3))
   else Val None) = Val (if (l <? clen a)%nat then Some (dig l a) else None).
Proof.
  intros H. destruct (in_seq_code a H) as (c & [H1 H2 H3 H4 H5]).
  unfold idx. rewrite H1. cbn [bind]. rewrite (clen_eq a c H1), (dig_eq a c l H1).
  destruct (N.leb_spec (2 * (N.of_nat l + 1)) (pc_len c)), (Nat.ltb_spec l (N.to_nat (pc_len c / 2)));
    try reflexivity; lia.
Qed.

Definition tagf (l : nat) (a : N) : N := if (S l <? clen a)%nat then dig l a else 4.

Lemma level_tag_val l a : In a seq ->
  (let! code := idx tab (sym_index a) in
   if pc_len code <=? 2 * (N.of_nat l + 1) then Val (4, a)
   else let! d := osub (pc_len code) (2 * (N.of_nat l + 1)) in
        Val (N.land (N.shiftr (pc_content code) d) (4 - 1), a)) = Val (tagf l a, a).
Proof.
  intros H. destruct (in_seq_code a H) as (c & [H1 H2 H3 H4 H5]).
  unfold idx, tagf. rewrite H1. cbn [bind]. rewrite (clen_eq a c H1), (dig_eq a c l H1).
  change (4 - 1) with 3.
  destruct (N.leb_spec (pc_len c) (2 * (N.of_nat l + 1))), (Nat.ltb_spec (S l) (N.to_nat (pc_len c / 2)));
    try reflexivity; try lia.
  unfold osub. destruct (N.leb_spec (2 * (N.of_nat l + 1)) (pc_len c)); [reflexivity|lia].
Qed.

Lemma part_with_codes_ok l lst : (forall x, In x lst -> In x seq) ->
  part_with_codes 4 lst (2 * (N.of_nat l + 1)) tab =
  Val (parts N dig l 4 (filter (fun x => (S l <? clen x)%nat) lst) ++
       filter (fun x => negb (S l <? clen x)%nat) lst).
Proof.
  intros Hin. unfold part_with_codes.
  rewrite (mapo_val _ (fun a => (tagf l a, a))) by (intros a Ha; apply level_tag_val, Hin, Ha).
  cbn [bind]. change (4 =? 4) with true. cbv iota. rewrite !pick_tagged. f_equal.
  cbn [parts app]. change (N.of_nat 0) with 0. change (N.of_nat 1) with 1.
  change (N.of_nat 2) with 2. change (N.of_nat 3) with 3.
  rewrite !filter_filter, <- !app_assoc.
  assert (E : forall k, k < 4 ->
            filter (fun a => tagf l a =? k) lst =
            filter (fun x => (S l <? clen x)%nat && (dig l x =? k)) lst).
  { intros k Hk. apply filter_ext. intros a. unfold tagf.
    destruct (S l <? clen a)%nat; cbn [andb]; [reflexivity|]. destruct (N.eqb_spec 4 k); [lia|reflexivity]. }
  rewrite !E by lia. do 4 f_equal.
  apply filter_ext. intros a. unfold tagf. destruct (S l <? clen a)%nat; cbn [negb]; [|reflexivity].
  pose proof (dig_le3 l a). destruct (N.eqb_spec (dig l a) 4); [lia|reflexivity].
Qed.

(* the model's sequence at level l is Q l seq followed by symbols whose code has ended *)
Definition fin_tail (l : nat) (F : list N) : Prop := forall x, In x F -> In x seq /\ (clen x <= l)%nat.

Lemma level_seq_in l F : fin_tail l F -> forall x, In x (QQ l ++ F) -> In x seq.
Proof.
  intros HF x Hx. apply in_app_or in Hx as [Hx|Hx]; [exact (proj1 (QQ_in l x Hx))|exact (proj1 (HF x Hx))].
Qed.

Lemma level_digits l F : fin_tail l F ->
  filter (fun x => (l <? clen x)%nat) (QQ l ++ F) = QQ l.
Proof.
  intros HF. rewrite filter_app, filter_all, filter_none; [apply app_nil_r| |].
  - intros x Hx. destruct (HF x Hx) as [_ H]. apply Nat.ltb_ge. exact H.
  - intros x Hx. destruct (QQ_in l x Hx) as [_ H]. apply Nat.ltb_lt. exact H.
Qed.

Lemma level_next l F : fin_tail l F ->
  exists F', fin_tail (S l) F' /\
    parts N dig l 4 (filter (fun x => (S l <? clen x)%nat) (QQ l ++ F)) ++
    filter (fun x => negb (S l <? clen x)%nat) (QQ l ++ F) = QQ (S l) ++ F'.
Proof.
  intros HF. exists (filter (fun x => negb (S l <? clen x)%nat) (QQ l ++ F)). split.
  - intros x Hx. apply filter_In in Hx as [Hx Hc]. split; [exact (level_seq_in l F HF x Hx)|].
    destruct (Nat.ltb_spec (S l) (clen x)); [discriminate|lia].
  - f_equal. rewrite filter_app.
    rewrite (filter_none _ F), app_nil_r; [reflexivity|].
    intros x Hx. destruct (HF x Hx) as [_ H]. apply Nat.ltb_ge. lia.
Qed.

(* ---------- construction ---------- *)
Section Build.
Variable bsize : N.
Hypothesis Hb : bsize = 256 \/ bsize = 512.
Hypothesis Hn : len seq < RSQ_MAXN.

Lemma hq_levels_ok : forall k l F, fin_tail l F ->
  exists rs lens, hq_levels bsize (QQ l ++ F) tab (2 * (N.of_nat l + 1)) k = Val (rs, lens) /\
    Forall2 (rsq_spec bsize) rs (LV l k) /\ lens = map (@len N) (LV l k).
Proof.
  induction k as [|k IH]; intros l F HF.
  - exists [], []. cbn [hq_levels hwm_levels map]. repeat split. constructor.
  - cbn [hq_levels].
    rewrite (mapo_val _ (fun a => if (l <? clen a)%nat then Some (dig l a) else None))
      by (intros a Ha; apply level_digit_val, (level_seq_in l F HF a Ha)).
    cbn [bind]. rewrite flat_opt_filter, (level_digits l F HF).
    destruct (qvb_push_all_inv (map (dig l) (QQ l)) qvb_new [] qvb_inv_new) as (q & Eq & Hq).
    rewrite Eq. cbn [bind app] in *.
    assert (HD : Forall (fun x => x < 4) (map (dig l) (QQ l))).
    { apply Forall_forall. intros d Hd. apply in_map_iff in Hd as (x & <- & _).
      pose proof (dig_le3 l x). lia. }
    rewrite (map_sym4_id _ HD) in Hq.
    assert (HL : len (map (dig l) (QQ l)) < RSQ_MAXN).
    { rewrite len_map. pose proof (Q_len_le N 4 dig dig_lt clen l seq). lia. }
    destruct (rsq_from_qv_correct bsize q _ Hb Hq HD HL) as (r & Er & Hr).
    rewrite Er. cbn [bind].
    rewrite (part_with_codes_ok l _ (level_seq_in l F HF)). cbn [bind].
    destruct (level_next l F HF) as (F' & HF' & E'). rewrite E'.
    destruct (IH (S l) F' HF') as (rs & lens & E & H1 & H2).
    replace (2 * (N.of_nat l + 1) + 2) with (2 * (N.of_nat (S l) + 1)) by lia.
    rewrite E. cbn [bind].
    exists (r :: rs), (qv_len q :: lens). split; [reflexivity|].
    cbn [hwm_levels map]. split; [constructor; assumption|].
    rewrite (qv_len_inv q _ Hq), H2. reflexivity.
Qed.

End Build.

(* the stored level lists *)
Lemma LV_nth : forall n l0 j, (j < n)%nat ->
  nthN (LV l0 n) (N.of_nat j) = Some (map (dig (l0 + j)%nat) (QQ (l0 + j)%nat)).
Proof.
  induction n as [|n IH]; intros l0 j Hj; [lia|]. cbn [hwm_levels].
  destruct j as [|j].
  - change (N.of_nat 0) with 0. rewrite nthN_0, Nat.add_0_r. reflexivity.
  - replace (N.of_nat (S j)) with (N.of_nat j + 1) by lia. rewrite nthN_succ.
    rewrite (IH (S l0) j) by lia. now rewrite Nat.add_succ_r.
Qed.

End Bridge.

