(* C13: the quad vector builder stores exactly (v mod 4) for every pushed value. *)
From Coq Require Import ZArith Lia ZifyBool ZifyN ZifyNat.
From QwtModel Require Import ListX Consts QVec ListXP ConstsOk.
Ltac Zify.zify_post_hook ::= Z.div_mod_to_equations.
Arguments N.add : simpl never.
Arguments N.sub : simpl never.
Arguments N.mul : simpl never.
Arguments N.eqb : simpl never.
Arguments N.ltb : simpl never.
Arguments N.leb : simpl never.
Arguments N.pred : simpl never.
Arguments N.of_nat : simpl never.
Arguments N.land : simpl never.
Arguments N.lor : simpl never.
Arguments N.shiftr : simpl never.
Arguments N.div : simpl never.
Arguments N.modulo : simpl never.

Definition sym4 (x : N) : N := x mod 4.

Lemma land3 x : N.land x 3 = x mod 4.
Proof. change 3 with (N.ones 2). rewrite N.land_ones. reflexivity. Qed.
Lemma land255 x : N.land x 255 = x mod 256.
Proof. change 255 with (N.ones 8). rewrite N.land_ones. reflexivity. Qed.
Lemma shiftr8 x : N.shiftr x 8 = x / 256.
Proof. rewrite N.shiftr_div_pow2. reflexivity. Qed.
Lemma shiftr1 x : N.shiftr x 1 = x / 2.
Proof. rewrite N.shiftr_div_pow2. reflexivity. Qed.

(* builder invariant: [s] = the symbols pushed so far *)
Definition qvb_inv (b : qvec) (s : list N) : Prop :=
  qv_position b = 2 * len s /\
  Forall (fun l => len l = 256) (qv_data b) /\
  len (qv_data b) = (len s + 255) / 256 /\
  exists pad, concat (qv_data b) = s ++ repeat 0 pad.

Lemma qvb_inv_new : qvb_inv qvb_new [].
Proof.
  unfold qvb_inv, qvb_new; cbn [qv_position qv_data]. repeat split.
  - constructor.
  - exists 0%nat. reflexivity.
Qed.

Lemma len_repeat {A} (a : A) n : len (repeat a n) = N.of_nat n.
Proof. unfold len. now rewrite repeat_length. Qed.

Lemma zero_line_len : len zero_line = 256.
Proof. unfold zero_line. rewrite len_repeat, LINE_SYMS_nat_val. reflexivity. Qed.

Lemma concat_app_last {A} (ls : list (list A)) l : concat (ls ++ [l]) = concat ls ++ l.
Proof. rewrite concat_app. cbn [concat]. now rewrite app_nil_r. Qed.

Lemma list_snoc_inv {A} (l : list A) : l <> [] -> exists l' x, l = l' ++ [x].
Proof. intros H. destruct (exists_last H) as (l' & x & E). eauto. Qed.

Lemma setN_repeat0 (pad : nat) v : (0 < pad)%nat -> setN (repeat 0 pad) 0 v = v :: repeat 0 (pad - 1).
Proof. destruct pad; [lia|]. intros _. cbn [repeat setN]. replace (S pad - 1)%nat with pad by lia. reflexivity. Qed.

Lemma qvb_push_inv b s x :
  qvb_inv b s -> exists b', qvb_push b x = Val b' /\ qvb_inv b' (s ++ [sym4 x]).
Proof.
  intros (Hpos & Hall & Hlen & pad & Hcat).
  unfold qvb_push. rewrite Hpos, PUSH_LINE_MASK_ok, LINE_MASK_ok, LINE_SHIFT_val, PUSH_POS_STEP_ok.
  change (2 ^ 8 - 1) with 255. rewrite land255.
  replace (2 * len s / 2) with (len s) by lia.
  assert (Hclen : len (concat (qv_data b)) = 256 * len (qv_data b)) by (apply len_concat_uniform; exact Hall).
  assert (Hpadlen : len s + N.of_nat pad = 256 * ((len s + 255) / 256)).
  { rewrite <- Hlen, <- Hclen, Hcat, len_app, len_repeat. reflexivity. }
  destruct (N.eqb_spec (len s mod 256) 0) as [Hz|Hnz].
  - (* a new line is pushed *)
    assert (pad = 0%nat) by lia. subst pad. cbn [repeat] in Hcat. rewrite app_nil_r in Hcat.
    rewrite Hz.
    rewrite last_opt_app. cbn [ounwrap bind]. rewrite set_last_app.
    eexists; split; [reflexivity|].
    unfold qvb_inv; cbn [qv_position qv_data]. repeat split.
    + lens. lia.
    + apply Forall_app. split; [exact Hall|]. constructor; [|constructor].
      cbv beta. unfold line_set_symbol. destruct (nthN zero_line 0); [rewrite setN_len|]; apply zero_line_len.
    + lens. rewrite Hlen. lia.
    + exists 255%nat. cbv beta. rewrite concat_app_last, Hcat, <- app_assoc. f_equal.
      unfold line_set_symbol, zero_line. rewrite LINE_SYMS_nat_val.
      rewrite nthN_repeat by lia. rewrite setN_repeat0 by lia. rewrite land3, N.lor_0_l. reflexivity.
  - (* the last line is updated *)
    assert (Hne : qv_data b <> []).
    { intros E. rewrite E in Hlen. unfold len in Hlen at 1. cbn in Hlen. lia. }
    destruct (list_snoc_inv _ Hne) as (init & last & Ed). rewrite Ed in *.
    rewrite last_opt_app. cbn [ounwrap bind]. rewrite set_last_app.
    apply Forall_app in Hall. destruct Hall as [Hinit Hlast]. inversion Hlast as [|? ? Hl _]; subst.
    lens in Hlen. lens in Hclen.
    assert (Hci : len (concat init) = 256 * len init) by (apply len_concat_uniform; exact Hinit).
    rewrite concat_app_last in Hcat.
    set (p := len s mod 256) in *.
    assert (Hsplit : len s = len (concat init) + p) by lia.
    (* last = (tail of s) ++ zeros *)
    assert (Hp : p < len last) by lia.
    assert (Hlast_p : nthN last p = Some 0).
    { assert (E : nthN (concat init ++ last) (len s) = Some 0).
      { rewrite Hcat. rewrite nthN_app2 by lia. rewrite N.sub_diag. apply nthN_repeat. lia. }
      rewrite nthN_app2 in E by lia. replace (len s - len (concat init)) with p in E by lia. exact E. }
    eexists; split; [reflexivity|].
    unfold qvb_inv; cbn [qv_position qv_data]. repeat split.
    + lens. lia.
    + apply Forall_app. split; [exact Hinit|]. constructor; [|constructor].
      cbv beta. unfold line_set_symbol. rewrite Hlast_p, setN_len. exact Hl.
    + lens. lia.
    + exists (pad - 1)%nat. cbv beta. rewrite concat_app_last. unfold line_set_symbol. rewrite Hlast_p.
      rewrite N.lor_0_l, land3.
      assert (E : concat init ++ setN last p (x mod 4) = setN (concat init ++ last) (len s) (x mod 4)).
      { rewrite setN_app2 by lia. do 2 f_equal. lia. }
      rewrite E, Hcat. rewrite setN_app2 by lia. rewrite N.sub_diag, <- app_assoc. f_equal.
      rewrite setN_repeat0 by lia. reflexivity.
Qed.

Lemma qvb_push_all_inv : forall vs b s, qvb_inv b s ->
  exists b', qvb_push_all b vs = Val b' /\ qvb_inv b' (s ++ map sym4 vs).
Proof.
  induction vs as [|v vs IH]; intros b s H; cbn [qvb_push_all map].
  - exists b. rewrite app_nil_r. auto.
  - destruct (qvb_push_inv b s v H) as (b1 & E1 & H1). rewrite E1. cbn [bind].
    destruct (IH b1 _ H1) as (b2 & E2 & H2). exists b2. split; [exact E2|].
    now rewrite <- app_assoc in H2.
Qed.

Lemma qvb_extend_inv : forall vs b s, qvb_inv b s ->
  exists b', qvb_extend b vs = Val b' /\ qvb_inv b' (s ++ map (fun v => sym4 (as_u8 v)) vs).
Proof.
  induction vs as [|v vs IH]; intros b s H; cbn [qvb_extend map].
  - exists b. rewrite app_nil_r. auto.
  - destruct (qvb_push_inv b s (as_u8 v) H) as (b1 & E1 & H1). rewrite E1. cbn [bind].
    destruct (IH b1 _ H1) as (b2 & E2 & H2). exists b2. split; [exact E2|].
    now rewrite <- app_assoc in H2.
Qed.

(* the two low bits of any integer survive the cast to u8 *)
Lemma sym4_as_u8 v : sym4 (as_u8 v) = Z.to_N (v mod 4)%Z.
Proof. unfold sym4, as_u8. lia. Qed.

(* ---- observers on a state satisfying the invariant ---- *)
Lemma qv_len_inv b s : qvb_inv b s -> qv_len b = len s.
Proof. intros (Hpos & _). unfold qv_len. rewrite QV_LEN_SHIFT_ok, shiftr1, Hpos. lia. Qed.

Lemma qv_is_empty_inv b s : qvb_inv b s -> qv_is_empty b = (len s =? 0).
Proof. intros (Hpos & _). unfold qv_is_empty. rewrite Hpos. lia. Qed.

Lemma qv_get_unchecked_inv b s i a : qvb_inv b s -> nthN s i = Some a -> qv_get_unchecked b i = Val a.
Proof.
  intros (Hpos & Hall & Hlen & pad & Hcat) Hi.
  pose proof (nthN_some_lt _ _ _ Hi) as Hlt.
  unfold qv_get_unchecked. rewrite Hpos.
  replace (i <? 2 * len s / 2) with true by lia. cbn [odebug_assert bind].
  rewrite LINE_SHIFT_val, shiftr8, LINE_MASK_ok, LINE_SHIFT_val. change (2 ^ 8 - 1) with 255. rewrite land255.
  assert (E : nthN (concat (qv_data b)) i = Some a).
  { rewrite Hcat, nthN_app1 by assumption. exact Hi. }
  rewrite (nthN_concat_uniform 256) in E by (try exact Hall; lia).
  unfold uidx, line_get_unchecked, uidx. destruct (nthN (qv_data b) (i / 256)) as [l|]; [|discriminate].
  cbn [bind]. rewrite E. reflexivity.
Qed.

Lemma qv_get_inv b s i : qvb_inv b s -> qv_get b i = Val (nthN s i).
Proof.
  intros H. pose proof H as (Hpos & _). unfold qv_get. rewrite shiftr1, Hpos.
  replace (2 * len s / 2) with (len s) by lia.
  destruct (N.leb_spec (len s) i) as [Hge|Hlt].
  - now rewrite nthN_none.
  - destruct (nthN_lt_some s i Hlt) as (a & Ea). rewrite (qv_get_unchecked_inv b s i a H Ea), Ea. reflexivity.
Qed.

(* iterator: calling next k times from a fresh iterator yields s[0..k) then None forever *)
Lemma qvit_next_inv b s i : qvb_inv b s -> i < 2 ^ 64 - 1 -> qvit_next b i = Val (nthN s i, i + 1).
Proof.
  intros H Hi. unfold qvit_next, oadd. replace (i + 1 <? 2 ^ 64) with true by lia. cbn [bind].
  rewrite (qv_get_inv b s i H). reflexivity.
Qed.

(* ---- the statements of C13 ---- *)
Definition stored (vs : list Z) : list N := map (fun v => Z.to_N (v mod 4)%Z) vs.

Theorem qv_from_iter_correct (vs : list Z) :
  exists q, qv_from_iter vs = Val q /\
    qv_len q = len vs /\
    qv_is_empty q = (len vs =? 0) /\
    (forall i, qv_get q i = Val (nthN (stored vs) i)) /\
    (forall i, i < 2 ^ 64 - 1 -> qvit_next q i = Val (nthN (stored vs) i, i + 1)).
Proof.
  destruct (qvb_extend_inv vs qvb_new [] qvb_inv_new) as (q & E & H). cbn [app] in H.
  assert (Hs : map (fun v => sym4 (as_u8 v)) vs = stored vs).
  { unfold stored. apply map_ext. intros v. apply sym4_as_u8. }
  rewrite Hs in H. exists q. split; [exact E|]. repeat split.
  - rewrite (qv_len_inv q _ H). unfold stored, len. now rewrite map_length.
  - rewrite (qv_is_empty_inv q _ H). unfold stored, len. now rewrite map_length.
  - intros i. apply qv_get_inv. exact H.
  - intros i Hi. apply qvit_next_inv; assumption.
Qed.

(* any push / extend history: the builder state after it stores the concatenated values *)
Inductive bop := Push (symbol : N) | Extend (vs : list Z).
Definition bop_spec (o : bop) : list N :=
  match o with Push x => [sym4 x] | Extend vs => stored vs end.
Definition bstep (b : qvec) (o : bop) : outcome qvec :=
  match o with Push x => qvb_push b x | Extend vs => qvb_extend b vs end.
Fixpoint brun (b : qvec) (h : list bop) : outcome qvec :=
  match h with [] => Val b | o :: h' => let! b' := bstep b o in brun b' h' end.

Theorem qvb_history_correct (h : list bop) :
  exists q, brun qvb_new h = Val q /\
    let s := concat (map bop_spec h) in
    qv_len (qvb_build q) = len s /\
    qv_is_empty (qvb_build q) = (len s =? 0) /\
    forall i, qv_get (qvb_build q) i = Val (nthN s i).
Proof.
  assert (G : forall h b s, qvb_inv b s -> exists q, brun b h = Val q /\ qvb_inv q (s ++ concat (map bop_spec h))).
  { clear h. intros h. induction h as [|o h' IH]; intros b s Hb; cbn [brun map concat].
    - exists b. rewrite app_nil_r. auto.
    - destruct o as [x|vs]; cbn [bstep bop_spec].
      + destruct (qvb_push_inv b s x Hb) as (b1 & E1 & H1). rewrite E1. cbn [bind].
        destruct (IH b1 _ H1) as (q & E & Hq). exists q. split; [exact E|]. now rewrite <- app_assoc in Hq.
      + destruct (qvb_extend_inv vs b s Hb) as (b1 & E1 & H1). rewrite E1. cbn [bind].
        assert (Hs : map (fun v => sym4 (as_u8 v)) vs = stored vs).
        { unfold stored. apply map_ext. intros v. apply sym4_as_u8. }
        rewrite Hs in H1.
        destruct (IH b1 _ H1) as (q & E & Hq). exists q. split; [exact E|]. now rewrite <- app_assoc in Hq. }
  destruct (G h qvb_new [] qvb_inv_new) as (q & E & Hq). cbn [app] in Hq.
  exists q. split; [exact E|]. cbn zeta. unfold qvb_build. repeat split.
  - apply qv_len_inv. exact Hq.
  - apply qv_is_empty_inv. exact Hq.
  - intros i. apply qv_get_inv. exact Hq.
Qed.

(* non-vacuity: a concrete history, evaluated *)
Example qvb_history_example :
  match brun qvb_new [Push 7; Extend [(-1)%Z; 6%Z; 256%Z]; Push 2] with
  | Val q => qv_len q = 5 /\ qv_get q 1 = Val (Some 3) /\ qv_get q 3 = Val (Some 0) /\ qv_get q 5 = Val None
  | Fault _ => False
  end.
Proof. vm_compute. repeat split; reflexivity. Qed.
