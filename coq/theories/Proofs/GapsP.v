(* C19, remaining structure families: corollaries of the construction contracts, in the style of
   PathsP.v (which covers the quad wavelet trees and the rank/select quad vector).
   (1) binary wavelet trees (plain and Huffman-shaped): the constructor is injective, the answers of
       the plain tree do not depend on the element width, the answers of the Huffman-shaped tree do
       not depend on the (admissible) code table, unchecked = checked on valid arguments;
   (2) RSNarrow / RSWide / DArray: values built from different bit lists are different;
   (3) the quad vector collected from an iterator: injective up to the two stored bits.
   Clone and the From/FromIterator conversions are the identity in the model.
   Injectivity is always read off the contract: a value t that is a correct representation of s
   answers [get t i = nthN s i], hence determines s. *)
From Coq Require Import ZArith Lia ZifyBool ZifyN ZifyNat.
From QwtModel Require Import ListX Seq Consts Words QVec RSQ QWT BitVec RSBin DArrayM Huff.
From QwtModel Require Import ListXP WordsP QVecP RSQBuild BitVecP RSBinP DArrayP BinFinalP BinWTP PathsP.
Ltac Zify.zify_post_hook ::= Z.div_mod_to_equations.
Arguments N.add : simpl never.
Arguments N.sub : simpl never.
Arguments N.mul : simpl never.
Arguments N.eqb : simpl never.
Arguments N.ltb : simpl never.
Arguments N.leb : simpl never.
Arguments N.pred : simpl never.
Arguments N.of_nat : simpl never.
Arguments N.land : simpl never.
Arguments N.lor : simpl never.
Arguments N.shiftr : simpl never.
Arguments N.shiftl : simpl never.
Arguments N.div : simpl never.
Arguments N.modulo : simpl never.
Arguments N.pow : simpl never.
Arguments N.sqrt : simpl never.
Arguments N.log2 : simpl never.
Arguments N.max : simpl never.

(* ================================================================== 1. binary wavelet trees *)
(* the two construction theorems with the word-level hypotheses discharged *)
Lemma wt_build_ok : forall w seq, BinWTP.width_ok w -> Forall (fun x => x < 2 ^ w) seq ->
  len seq < RSQ_MAXN -> exists t, wt_build w false seq [] = Val t /\ wt_spec w t seq.
Proof. exact (wt_build_correct select_in_word_correct popcount_correct). Qed.

(* hwt_build_correct asks seq <> []; the empty sequence is hwt_build_nil *)
Lemma hwt_build_ok : forall w seq tab, BinWTP.width_ok w -> Forall (fun x => x < 2 ^ w) seq ->
  len seq < RSQ_MAXN -> table_ok2 seq tab -> exists t, wt_build w true seq tab = Val t /\ hwt_spec w t seq.
Proof.
  intros w seq tab Hw HF Hn HT. destruct seq as [|x0 seq'].
  - apply hwt_build_nil.
  - apply (hwt_build_correct select_in_word_correct popcount_correct); try assumption. discriminate.
Qed.

(* a tree determines the sequence it is a correct representation of *)
Lemma wt_spec_inj : forall w t s1 s2, wt_spec w t s1 -> wt_spec w t s2 -> s1 = s2.
Proof.
  intros w t s1 s2 S1 S2.
  destruct S1 as (_ & _ & G1 & _). destruct S2 as (_ & _ & G2 & _).
  apply nthN_ext_all. intros i. apply Val_inj. now rewrite <- G1, <- G2.
Qed.

Lemma hwt_spec_inj : forall w t s1 s2, hwt_spec w t s1 -> hwt_spec w t s2 -> s1 = s2.
Proof.
  intros w t s1 s2 S1 S2.
  destruct S1 as (_ & G1 & _). destruct S2 as (_ & G2 & _).
  apply nthN_ext_all. intros i. apply Val_inj. now rewrite <- G1, <- G2.
Qed.

(* ---------------------------------------------------------------- injectivity *)
Theorem wt_new_inj : forall w s1 s2 t, BinWTP.width_ok w ->
  Forall (fun x => x < 2 ^ w) s1 -> Forall (fun x => x < 2 ^ w) s2 -> len s1 < RSQ_MAXN -> len s2 < RSQ_MAXN ->
  wt_build w false s1 [] = Val t -> wt_build w false s2 [] = Val t -> s1 = s2.
Proof.
  intros w s1 s2 t Hw HF1 HF2 Hn1 Hn2 E1 E2.
  destruct (wt_build_ok w s1 Hw HF1 Hn1) as (t1 & E1' & S1).
  destruct (wt_build_ok w s2 Hw HF2 Hn2) as (t2 & E2' & S2).
  rewrite E1 in E1'. apply Val_inj in E1'. subst t1.
  rewrite E2 in E2'. apply Val_inj in E2'. subst t2.
  exact (wt_spec_inj w t s1 s2 S1 S2).
Qed.

Corollary wt_new_eq_iff : forall w s1 s2, BinWTP.width_ok w ->
  Forall (fun x => x < 2 ^ w) s1 -> Forall (fun x => x < 2 ^ w) s2 -> len s1 < RSQ_MAXN -> len s2 < RSQ_MAXN ->
  (wt_build w false s1 [] = wt_build w false s2 [] <-> s1 = s2).
Proof.
  intros w s1 s2 Hw HF1 HF2 Hn1 Hn2. split; [|now intros ->].
  intros E. destruct (wt_build_ok w s1 Hw HF1 Hn1) as (t & E1 & _).
  apply (wt_new_inj w s1 s2 t); try assumption. now rewrite <- E.
Qed.

Theorem hwt_build_inj : forall w s1 s2 tab t, BinWTP.width_ok w ->
  Forall (fun x => x < 2 ^ w) s1 -> Forall (fun x => x < 2 ^ w) s2 -> len s1 < RSQ_MAXN -> len s2 < RSQ_MAXN ->
  table_ok2 s1 tab -> table_ok2 s2 tab ->
  wt_build w true s1 tab = Val t -> wt_build w true s2 tab = Val t -> s1 = s2.
Proof.
  intros w s1 s2 tab t Hw HF1 HF2 Hn1 Hn2 HT1 HT2 E1 E2.
  destruct (hwt_build_ok w s1 tab Hw HF1 Hn1 HT1) as (t1 & E1' & S1).
  destruct (hwt_build_ok w s2 tab Hw HF2 Hn2 HT2) as (t2 & E2' & S2).
  rewrite E1 in E1'. apply Val_inj in E1'. subst t1.
  rewrite E2 in E2'. apply Val_inj in E2'. subst t2.
  exact (hwt_spec_inj w t s1 s2 S1 S2).
Qed.

(* the tables need not be the same *)
Corollary hwt_build_inj_tabs : forall w s1 s2 tab1 tab2 t, BinWTP.width_ok w ->
  Forall (fun x => x < 2 ^ w) s1 -> Forall (fun x => x < 2 ^ w) s2 -> len s1 < RSQ_MAXN -> len s2 < RSQ_MAXN ->
  table_ok2 s1 tab1 -> table_ok2 s2 tab2 ->
  wt_build w true s1 tab1 = Val t -> wt_build w true s2 tab2 = Val t -> s1 = s2.
Proof.
  intros w s1 s2 tab1 tab2 t Hw HF1 HF2 Hn1 Hn2 HT1 HT2 E1 E2.
  destruct (hwt_build_ok w s1 tab1 Hw HF1 Hn1 HT1) as (t1 & E1' & S1).
  destruct (hwt_build_ok w s2 tab2 Hw HF2 Hn2 HT2) as (t2 & E2' & S2).
  rewrite E1 in E1'. apply Val_inj in E1'. subst t1.
  rewrite E2 in E2'. apply Val_inj in E2'. subst t2.
  exact (hwt_spec_inj w t s1 s2 S1 S2).
Qed.

Corollary hwt_build_eq_iff : forall w s1 s2 tab, BinWTP.width_ok w ->
  Forall (fun x => x < 2 ^ w) s1 -> Forall (fun x => x < 2 ^ w) s2 -> len s1 < RSQ_MAXN -> len s2 < RSQ_MAXN ->
  table_ok2 s1 tab -> table_ok2 s2 tab ->
  (wt_build w true s1 tab = wt_build w true s2 tab <-> s1 = s2).
Proof.
  intros w s1 s2 tab Hw HF1 HF2 Hn1 Hn2 HT1 HT2. split; [|now intros ->].
  intros E. destruct (hwt_build_ok w s1 tab Hw HF1 Hn1 HT1) as (t & E1 & _).
  apply (hwt_build_inj w s1 s2 tab t); try assumption. now rewrite <- E.
Qed.

(* ---------------------------------------------------------------- width independence *)
Theorem wt_width_independent : forall w1 w2 seq t1 t2,
  BinWTP.width_ok w1 -> BinWTP.width_ok w2 ->
  Forall (fun x => x < 2 ^ w1) seq -> Forall (fun x => x < 2 ^ w2) seq -> len seq < RSQ_MAXN ->
  wt_build w1 false seq [] = Val t1 -> wt_build w2 false seq [] = Val t2 ->
  (forall i, wt_get w1 false t1 i = wt_get w2 false t2 i) /\
  (forall c i, c < 2 ^ w1 -> c < 2 ^ w2 -> wt_rank w1 false t1 c i = wt_rank w2 false t2 c i) /\
  (forall c k, c < 2 ^ w1 -> c < 2 ^ w2 -> k < 2 ^ 64 -> wt_select w1 false t1 c k = wt_select w2 false t2 c k).
Proof.
  intros w1 w2 seq t1 t2 Hw1 Hw2 HF1 HF2 Hn E1 E2.
  destruct (wt_build_ok w1 seq Hw1 HF1 Hn) as (t1' & E1' & S1).
  destruct (wt_build_ok w2 seq Hw2 HF2 Hn) as (t2' & E2' & S2).
  rewrite E1 in E1'. apply Val_inj in E1'. subst t1'.
  rewrite E2 in E2'. apply Val_inj in E2'. subst t2'.
  destruct S1 as (_ & _ & G1 & R1 & Q1 & _).
  destruct S2 as (_ & _ & G2 & R2 & Q2 & _).
  split; [|split].
  - intros i. now rewrite G1, G2.
  - intros c i Hc1 Hc2. now rewrite (R1 c i Hc1), (R2 c i Hc2).
  - intros c k Hc1 Hc2 Hk. now rewrite (Q1 c k Hc1 Hk), (Q2 c k Hc2 Hk).
Qed.

(* also the metadata and the unchecked queries *)
Corollary wt_width_independent_more : forall w1 w2 seq t1 t2,
  BinWTP.width_ok w1 -> BinWTP.width_ok w2 ->
  Forall (fun x => x < 2 ^ w1) seq -> Forall (fun x => x < 2 ^ w2) seq -> len seq < RSQ_MAXN ->
  wt_build w1 false seq [] = Val t1 -> wt_build w2 false seq [] = Val t2 ->
  w_n t1 = w_n t2 /\ w_n_levels t1 = w_n_levels t2 /\
  (forall i, i < len seq -> wt_get_unchecked w1 false t1 i = wt_get_unchecked w2 false t2 i) /\
  (forall c i, 0 < len seq -> c <= maxN seq -> i <= len seq ->
     wt_rank_unchecked w1 false t1 c i = wt_rank_unchecked w2 false t2 c i).
Proof.
  intros w1 w2 seq t1 t2 Hw1 Hw2 HF1 HF2 Hn E1 E2.
  destruct (wt_build_ok w1 seq Hw1 HF1 Hn) as (t1' & E1' & S1).
  destruct (wt_build_ok w2 seq Hw2 HF2 Hn) as (t2' & E2' & S2).
  rewrite E1 in E1'. apply Val_inj in E1'. subst t1'.
  rewrite E2 in E2'. apply Val_inj in E2'. subst t2'.
  destruct S1 as (L1 & NL1 & _ & _ & _ & U1 & RU1 & _).
  destruct S2 as (L2 & NL2 & _ & _ & _ & U2 & RU2 & _).
  split; [congruence|]. split; [congruence|]. split.
  - intros i Hi. destruct (nthN_lt_some seq i Hi) as (x & Hx). now rewrite (U1 i x Hx), (U2 i x Hx).
  - intros c i Hp Hc Hi. now rewrite (RU1 c i Hp Hc Hi), (RU2 c i Hp Hc Hi).
Qed.

(* ---------------------------------------------------------------- any admissible table *)
(* Huffman-shaped binary trees built with different (equally good) code tables answer identically *)
Theorem hwt_any_table : forall w seq tab1 tab2 t1 t2, BinWTP.width_ok w ->
  Forall (fun x => x < 2 ^ w) seq -> len seq < RSQ_MAXN -> table_ok2 seq tab1 -> table_ok2 seq tab2 ->
  wt_build w true seq tab1 = Val t1 -> wt_build w true seq tab2 = Val t2 ->
  (forall i, wt_get w true t1 i = wt_get w true t2 i) /\
  (forall c i, c < 2 ^ w -> wt_rank w true t1 c i = wt_rank w true t2 c i) /\
  (forall c k, c < 2 ^ w -> k < 2 ^ 64 -> wt_select w true t1 c k = wt_select w true t2 c k).
Proof.
  intros w seq tab1 tab2 t1 t2 Hw HF Hn H1 H2 E1 E2.
  destruct (hwt_build_ok w seq tab1 Hw HF Hn H1) as (u1 & F1 & S1).
  destruct (hwt_build_ok w seq tab2 Hw HF Hn H2) as (u2 & F2 & S2).
  rewrite E1 in F1. apply Val_inj in F1. subst u1.
  rewrite E2 in F2. apply Val_inj in F2. subst u2.
  destruct S1 as (_ & G1 & R1 & L1 & _). destruct S2 as (_ & G2 & R2 & L2 & _).
  split; [|split].
  - intros i. now rewrite G1, G2.
  - intros c i Hc. now rewrite (R1 c i Hc), (R2 c i Hc).
  - intros c k Hc Hk. now rewrite (L1 c k Hc Hk), (L2 c k Hc Hk).
Qed.

(* the plain and the Huffman-shaped binary tree over the same sequence *)
Theorem wt_hwt_agree : forall w seq tab tp th, BinWTP.width_ok w ->
  Forall (fun x => x < 2 ^ w) seq -> len seq < RSQ_MAXN -> table_ok2 seq tab ->
  wt_build w false seq [] = Val tp -> wt_build w true seq tab = Val th ->
  w_n tp = w_n th /\
  (forall i, wt_get w false tp i = wt_get w true th i) /\
  (forall i, i < len seq -> wt_get_unchecked w false tp i = wt_get_unchecked w true th i).
Proof.
  intros w seq tab tp th Hw HF Hn HT Ep Eh.
  destruct (wt_build_ok w seq Hw HF Hn) as (tp' & Ep' & SP).
  destruct (hwt_build_ok w seq tab Hw HF Hn HT) as (th' & Eh' & SH).
  rewrite Ep in Ep'. apply Val_inj in Ep'. subst tp'.
  rewrite Eh in Eh'. apply Val_inj in Eh'. subst th'.
  destruct SP as (LP & _ & GP & _ & _ & UP & _).
  destruct SH as (LH & GH & _ & _ & UH & _).
  split; [congruence|]. split.
  - intros i. now rewrite GP, GH.
  - intros i Hi. destruct (nthN_lt_some seq i Hi) as (x & Hx). now rewrite (UP i x Hx), (UH i x Hx).
Qed.

(* ---------------------------------------------------------------- unchecked = checked (C10) *)
Theorem hwt_unchecked : forall w t seq, hwt_spec w t seq ->
  (forall i x, nthN seq i = Some x -> wt_get_unchecked w true t i = Val x /\ wt_get w true t i = Val (Some x)) /\
  (forall c i, 0 < countN c seq -> i <= len seq -> wt_rank_unchecked w true t c i = Val (rank_spec seq c i)) /\
  (forall c k p, c < 2 ^ w -> select_spec seq c k = Some p -> wt_select_unchecked w true t c k = Val p).
Proof.
  intros w t seq (_ & G & _ & _ & GU & RU & SU).
  split; [|split].
  - intros i x Hx. split; [now apply GU|]. rewrite G. now f_equal.
  - intros c i Hc Hi. now apply RU.
  - intros c k p Hc Hp. now apply SU with (k := k).
Qed.

(* with the checked rank and select as well *)
Corollary hwt_unchecked_checked : forall w t seq, hwt_spec w t seq ->
  (forall c i, c < 2 ^ w -> 0 < countN c seq -> i <= len seq ->
     wt_rank_unchecked w true t c i = Val (rank_spec seq c i) /\ wt_rank w true t c i = Val (Some (rank_spec seq c i))) /\
  (forall c k p, c < 2 ^ w -> k < 2 ^ 64 -> select_spec seq c k = Some p ->
     wt_select_unchecked w true t c k = Val p /\ wt_select w true t c k = Val (Some p)).
Proof.
  intros w t seq (_ & _ & R & S & _ & RU & SU).
  split.
  - intros c i Hc Hp Hi. split; [now apply RU|]. rewrite (R c i Hc).
    replace (i <=? len seq) with true by lia. replace (0 <? countN c seq) with true by lia. reflexivity.
  - intros c k p Hc Hk Hp. split; [now apply SU with (k := k)|]. rewrite (S c k Hc Hk). now f_equal.
Qed.

(* ================================================================== 2. RSNarrow / RSWide / DArray *)
Lemma bin_spec_inj : forall s1 s2 get r1 r0 q1 q0 n1 n0 r1' r0' q1' q0' n1' n0',
  bin_spec s1 get r1 r0 q1 q0 n1 n0 -> bin_spec s2 get r1' r0' q1' q0' n1' n0' -> s1 = s2.
Proof.
  intros s1 s2 get r1 r0 q1 q0 n1 n0 r1' r0' q1' q0' n1' n0' (G1 & _) (G2 & _).
  apply nthN_ext_all. intros i. apply Val_inj. now rewrite <- G1, <- G2.
Qed.

Theorem rsn_inj : forall b1 b2 bv1 bv2 r, len b1 < 2 ^ 43 -> len b2 < 2 ^ 43 ->
  bv_from_bools b1 = Val bv1 -> bv_from_bools b2 = Val bv2 ->
  rsn_new bv1 = Val r -> rsn_new bv2 = Val r -> b1 = b2.
Proof.
  intros b1 b2 bv1 bv2 r H1 H2 B1 B2 E1 E2.
  destruct (rsn_of_bools_correct select_in_word_correct popcount_correct b1 H1) as (bv1' & r1 & B1' & E1' & S1 & _).
  destruct (rsn_of_bools_correct select_in_word_correct popcount_correct b2 H2) as (bv2' & r2 & B2' & E2' & S2 & _).
  rewrite B1 in B1'. apply Val_inj in B1'. subst bv1'.
  rewrite B2 in B2'. apply Val_inj in B2'. subst bv2'.
  rewrite E1 in E1'. apply Val_inj in E1'. subst r1.
  rewrite E2 in E2'. apply Val_inj in E2'. subst r2.
  exact (bin_spec_inj _ _ _ _ _ _ _ _ _ _ _ _ _ _ _ S1 S2).
Qed.

Theorem rsw_inj : forall b1 b2 bv1 bv2 r, len b1 < 2 ^ 43 -> len b2 < 2 ^ 43 ->
  bv_from_bools b1 = Val bv1 -> bv_from_bools b2 = Val bv2 ->
  rsw_new bv1 = Val r -> rsw_new bv2 = Val r -> b1 = b2.
Proof.
  intros b1 b2 bv1 bv2 r H1 H2 B1 B2 E1 E2.
  destruct (rsw_of_bools_correct select_in_word_correct popcount_correct b1 H1) as (bv1' & r1 & B1' & E1' & S1 & _).
  destruct (rsw_of_bools_correct select_in_word_correct popcount_correct b2 H2) as (bv2' & r2 & B2' & E2' & S2 & _).
  rewrite B1 in B1'. apply Val_inj in B1'. subst bv1'.
  rewrite B2 in B2'. apply Val_inj in B2'. subst bv2'.
  rewrite E1 in E1'. apply Val_inj in E1'. subst r1.
  rewrite E2 in E2'. apply Val_inj in E2'. subst r2.
  exact (bin_spec_inj _ _ _ _ _ _ _ _ _ _ _ _ _ _ _ S1 S2).
Qed.

(* on top of any reachable bit vector state: the structure keeps its bit vector *)
Theorem rsn_new_inj_bv : forall bv1 bv2 r, bv_inv bv1 -> bv_inv bv2 ->
  bv_nbits bv1 < 2 ^ 43 -> bv_nbits bv2 < 2 ^ 43 ->
  rsn_new bv1 = Val r -> rsn_new bv2 = Val r -> bv1 = bv2.
Proof.
  intros bv1 bv2 r I1 I2 H1 H2 E1 E2.
  destruct (rsn_of_inv_correct select_in_word_correct popcount_correct bv1 I1 H1) as (r1 & E1' & K1 & _).
  destruct (rsn_of_inv_correct select_in_word_correct popcount_correct bv2 I2 H2) as (r2 & E2' & K2 & _).
  rewrite E1 in E1'. apply Val_inj in E1'. subst r1.
  rewrite E2 in E2'. apply Val_inj in E2'. subst r2.
  congruence.
Qed.

Theorem rsw_new_inj_bv : forall bv1 bv2 r, bv_inv bv1 -> bv_inv bv2 ->
  bv_nbits bv1 < 2 ^ 43 -> bv_nbits bv2 < 2 ^ 43 ->
  rsw_new bv1 = Val r -> rsw_new bv2 = Val r -> bv1 = bv2.
Proof.
  intros bv1 bv2 r I1 I2 H1 H2 E1 E2.
  destruct (rsw_of_inv_correct select_in_word_correct popcount_correct bv1 I1 H1) as (r1 & E1' & K1 & _).
  destruct (rsw_of_inv_correct select_in_word_correct popcount_correct bv2 I2 H2) as (r2 & E2' & K2 & _).
  rewrite E1 in E1'. apply Val_inj in E1'. subst r1.
  rewrite E2 in E2'. apply Val_inj in E2'. subst r2.
  congruence.
Qed.

(* DArray: the select0 settings of the two constructions need not even be the same *)
Lemma da_spec_inj : forall s0 s0' d b1 b2, da_spec s0 d b1 -> da_spec s0' d b2 -> b1 = b2.
Proof.
  intros s0 s0' d b1 b2 (_ & _ & _ & G1 & _) (_ & _ & _ & G2 & _).
  apply nthN_ext_all. intros i. apply Val_inj. now rewrite <- G1, <- G2.
Qed.

Theorem da_from_bools_inj : forall s0 s0' b1 b2 d, len b1 < 2 ^ 63 -> len b2 < 2 ^ 63 ->
  da_from_bools s0 b1 = Val d -> da_from_bools s0' b2 = Val d -> b1 = b2.
Proof.
  intros s0 s0' b1 b2 d H1 H2 E1 E2.
  destruct (da_of_bools_correct select_in_word_correct popcount_correct s0 b1 H1) as (d1 & E1' & S1).
  destruct (da_of_bools_correct select_in_word_correct popcount_correct s0' b2 H2) as (d2 & E2' & S2).
  rewrite E1 in E1'. apply Val_inj in E1'. subst d1.
  rewrite E2 in E2'. apply Val_inj in E2'. subst d2.
  exact (da_spec_inj s0 s0' d b1 b2 S1 S2).
Qed.

(* the statement asked for: one select0 setting, either value *)
Corollary da_inj : forall s0 b1 b2 d, len b1 < 2 ^ 63 -> len b2 < 2 ^ 63 ->
  da_from_bools s0 b1 = Val d -> da_from_bools s0 b2 = Val d -> b1 = b2.
Proof. intros s0. exact (da_from_bools_inj s0 s0). Qed.

Corollary da_from_bools_eq_iff : forall s0 b1 b2, len b1 < 2 ^ 63 -> len b2 < 2 ^ 63 ->
  (da_from_bools s0 b1 = da_from_bools s0 b2 <-> b1 = b2).
Proof.
  intros s0 b1 b2 H1 H2. split; [|now intros ->].
  intros E. destruct (da_of_bools_correct select_in_word_correct popcount_correct s0 b1 H1) as (d & E1 & _).
  apply (da_inj s0 b1 b2 d); try assumption. now rewrite <- E.
Qed.

(* da_new on top of any reachable bit vector state *)
Theorem da_new_inj : forall s0 s0' bv1 bv2 d, bv_inv bv1 -> bv_inv bv2 ->
  da_new s0 bv1 = Val d -> da_new s0' bv2 = Val d -> bv1 = bv2.
Proof.
  intros s0 s0' bv1 bv2 d I1 I2 E1 E2.
  destruct (da_of_inv_correct select_in_word_correct popcount_correct s0 bv1 I1) as (d1 & E1' & K1 & _).
  destruct (da_of_inv_correct select_in_word_correct popcount_correct s0' bv2 I2) as (d2 & E2' & K2 & _).
  rewrite E1 in E1'. apply Val_inj in E1'. subst d1.
  rewrite E2 in E2'. apply Val_inj in E2'. subst d2.
  congruence.
Qed.

(* ================================================================== 3. quad vector *)
(* the quad vector stores v mod 4 of every collected value: injective up to [stored] *)
Theorem qv_from_iter_inj : forall v1 v2 q,
  qv_from_iter v1 = Val q -> qv_from_iter v2 = Val q -> stored v1 = stored v2.
Proof.
  intros v1 v2 q E1 E2.
  destruct (qv_from_iter_correct v1) as (q1 & E1' & _ & _ & G1 & _).
  destruct (qv_from_iter_correct v2) as (q2 & E2' & _ & _ & G2 & _).
  rewrite E1 in E1'. apply Val_inj in E1'. subst q1.
  rewrite E2 in E2'. apply Val_inj in E2'. subst q2.
  apply nthN_ext_all. intros i. apply Val_inj. now rewrite <- G1, <- G2.
Qed.

Corollary qv_from_iter_eq_iff : forall v1 v2,
  Forall (fun v => (0 <= v < 4)%Z) v1 -> Forall (fun v => (0 <= v < 4)%Z) v2 ->
  (qv_from_iter v1 = qv_from_iter v2 <-> v1 = v2).
Proof.
  intros v1 v2 HF1 HF2. split; [|now intros ->].
  intros E. destruct (qv_from_iter_correct v1) as (q & E1 & _).
  assert (Hs : stored v1 = stored v2) by (apply (qv_from_iter_inj v1 v2 q); [exact E1|now rewrite <- E]).
  clear - HF1 HF2 Hs. revert v2 HF2 Hs. induction HF1 as [|x v1 Hx _ IH]; intros [|y v2] HF2 Hs.
  - reflexivity.
  - discriminate Hs.
  - discriminate Hs.
  - inversion HF2 as [|y' v2' Hy HF2']. subst. unfold stored in Hs. cbn [map] in Hs.
    injection Hs as Hxy Hs. f_equal; [|apply IH; assumption].
    rewrite Z.mod_small in Hxy by lia. rewrite Z.mod_small in Hxy by lia. lia.
Qed.

(* [stored] cannot be dropped: values that differ above bit 1 collect to the same vector *)
Example qv_from_iter_not_inj :
  qv_from_iter [1%Z; 6%Z] = qv_from_iter [5%Z; (-2)%Z] /\ [1%Z; 6%Z] <> [5%Z; (-2)%Z].
Proof. split; [vm_compute; reflexivity|discriminate]. Qed.

(* ================================================================== non-vacuity *)
(* two different small sequences build (without fault) different binary wavelet trees: the stored
   words of the levels differ *)
Definition bwt_words (o : outcome bwt) : option (list (list N)) :=
  match o with
  | Val t => Some (map (fun r => bv_words (rsw_bv r)) (w_bvs t))
  | Fault _ => None
  end.
Fixpoint lN_eqb (a b : list N) : bool :=
  match a, b with
  | [], [] => true
  | x :: a', y :: b' => (x =? y) && lN_eqb a' b'
  | _, _ => false
  end.
Fixpoint llN_eqb (a b : list (list N)) : bool :=
  match a, b with
  | [], [] => true
  | x :: a', y :: b' => lN_eqb x y && llN_eqb a' b'
  | _, _ => false
  end.
Definition wt_differ_b (w : N) (compressed : bool) (s1 s2 : list N) (tab : list pcode) : bool :=
  match bwt_words (wt_build w compressed s1 tab), bwt_words (wt_build w compressed s2 tab) with
  | Some a, Some b => negb (llN_eqb a b)
  | _, _ => false
  end.

Lemma lN_eqb_refl a : lN_eqb a a = true.
Proof. induction a as [|x a IH]; [reflexivity|]. cbn [lN_eqb]. rewrite N.eqb_refl, IH. reflexivity. Qed.
Lemma llN_eqb_refl a : llN_eqb a a = true.
Proof. induction a as [|x a IH]; [reflexivity|]. cbn [llN_eqb]. rewrite lN_eqb_refl, IH. reflexivity. Qed.

(* the checker is sound: it only says "true" for builds that succeed and differ *)
Lemma wt_differ_b_sound w compressed s1 s2 tab : wt_differ_b w compressed s1 s2 tab = true ->
  (exists t1 t2, wt_build w compressed s1 tab = Val t1 /\ wt_build w compressed s2 tab = Val t2 /\ t1 <> t2).
Proof.
  unfold wt_differ_b. intros H.
  destruct (wt_build w compressed s1 tab) as [t1|f1]; [|discriminate H].
  destruct (wt_build w compressed s2 tab) as [t2|f2]; [|discriminate H].
  exists t1, t2. split; [reflexivity|]. split; [reflexivity|]. intros ->.
  cbn [bwt_words] in H. rewrite llN_eqb_refl in H. discriminate H.
Qed.

Definition gap_ex_s1 : list N := [3; 200; 7; 3; 0; 91].
Definition gap_ex_s2 : list N := [3; 200; 7; 0; 3; 91].   (* two neighbours swapped *)
Definition gap_ex_plain_b : bool := wt_differ_b 8 false gap_ex_s1 gap_ex_s2 [].
Example wt_differ_ex : gap_ex_plain_b = true.
Proof. vm_compute. reflexivity. Qed.

Example wt_differ_ex_values : exists t1 t2,
  wt_build 8 false gap_ex_s1 [] = Val t1 /\ wt_build 8 false gap_ex_s2 [] = Val t2 /\ t1 <> t2.
Proof. apply wt_differ_b_sound. exact wt_differ_ex. Qed.

(* the same two inputs satisfy the premises of wt_new_inj, and the theorem agrees *)
Definition gap_ex_premises_b : bool :=
  forallb (fun x => x <? 2 ^ 8) gap_ex_s1 && forallb (fun x => x <? 2 ^ 8) gap_ex_s2 &&
  (len gap_ex_s1 <? RSQ_MAXN) && (len gap_ex_s2 <? RSQ_MAXN).
Example gap_ex_premises : gap_ex_premises_b = true.
Proof. vm_compute. reflexivity. Qed.

Example wt_new_inj_ex : wt_build 8 false gap_ex_s1 [] <> wt_build 8 false gap_ex_s2 [].
Proof.
  pose proof gap_ex_premises as H. unfold gap_ex_premises_b in H.
  apply andb_prop in H as [H H4]. apply andb_prop in H as [H H3]. apply andb_prop in H as [H1 H2].
  rewrite forallb_forall in H1, H2.
  intros E. apply (wt_new_eq_iff 8 gap_ex_s1 gap_ex_s2) in E.
  - discriminate E.
  - left; reflexivity.
  - apply Forall_forall. intros x Hx. specialize (H1 x Hx). lia.
  - apply Forall_forall. intros x Hx. specialize (H2 x Hx). lia.
  - lia.
  - lia.
Qed.

(* compressed flavour, over the table of BinWTP.hwt_ex_tab (symbols 0, 2, 5, 9) *)
Definition gap_ex_h2 : list N :=
  [5; 0; 9; 2; 5; 5; 9; 0; 2; 9; 5; 9; 9; 0; 5; 2; 9; 5; 0; 9; 5; 2; 5; 9; 0; 9; 5; 5; 9; 2].
Definition gap_ex_huff_b : bool :=
  wt_differ_b 8 true hwt_ex_seq gap_ex_h2 hwt_ex_tab && table_okb2 hwt_ex_seq hwt_ex_tab && table_okb2 gap_ex_h2 hwt_ex_tab.
Example hwt_differ_ex : gap_ex_huff_b = true.
Proof. vm_compute. reflexivity. Qed.

(* bit vectors: two different bit lists, different RSNarrow / RSWide / DArray values *)
Definition gap_ex_bits_b : bool :=
  match bv_from_bools [true; false; true; true], bv_from_bools [true; true; false; true] with
  | Val a, Val b =>
      match rsn_new a, rsn_new b, rsw_new a, rsw_new b, da_new true a, da_new true b with
      | Val n1, Val n2, Val w1, Val w2, Val d1, Val d2 =>
          negb (lN_eqb (bv_words (rsn_bv n1)) (bv_words (rsn_bv n2))) &&
          negb (lN_eqb (bv_words (rsw_bv w1)) (bv_words (rsw_bv w2))) &&
          negb (lN_eqb (bv_words (da_bv d1)) (bv_words (da_bv d2)))
      | _, _, _, _, _, _ => false
      end
  | _, _ => false
  end.
Example bits_differ_ex : gap_ex_bits_b = true.
Proof. vm_compute. reflexivity. Qed.

Print Assumptions wt_build_ok.
Print Assumptions hwt_build_ok.
Print Assumptions wt_spec_inj.
Print Assumptions hwt_spec_inj.
Print Assumptions wt_new_inj.
Print Assumptions wt_new_eq_iff.
Print Assumptions hwt_build_inj.
Print Assumptions hwt_build_inj_tabs.
Print Assumptions hwt_build_eq_iff.
Print Assumptions wt_width_independent.
Print Assumptions wt_width_independent_more.
Print Assumptions hwt_any_table.
Print Assumptions wt_hwt_agree.
Print Assumptions hwt_unchecked.
Print Assumptions hwt_unchecked_checked.
Print Assumptions rsn_inj.
Print Assumptions rsw_inj.
Print Assumptions rsn_new_inj_bv.
Print Assumptions rsw_new_inj_bv.
Print Assumptions da_from_bools_inj.
Print Assumptions da_inj.
Print Assumptions da_from_bools_eq_iff.
Print Assumptions da_new_inj.
Print Assumptions qv_from_iter_inj.
Print Assumptions qv_from_iter_eq_iff.
Print Assumptions qv_from_iter_not_inj.
Print Assumptions wt_differ_b_sound.
Print Assumptions wt_differ_ex.
Print Assumptions wt_differ_ex_values.
Print Assumptions wt_new_inj_ex.
Print Assumptions hwt_differ_ex.
Print Assumptions bits_differ_ex.
