(* C02: the Huffman-shaped quad wavelet tree (Model/Huff.v: hq_build and the hq_* queries)
   answers every query exactly like the list specification (Spec/Seq.v) and never faults, for
   EVERY sequence of fewer than RSQ_MAXN symbols and EVERY wavelet-matrix-compatible code table.
   Structure: HQWTBridge (code table -> digits / construction), HQWTWalks (model walks = generic
   walks of Theory/WaveletMatrix.v), HQWTCode (content / decode tables / same code = same symbol),
   this file (the queries and the theorems). *)
From Coq Require Import ZArith Lia ZifyBool ZifyN ZifyNat.
From QwtModel Require Import ListX Seq Consts QVec RSQ QWT Huff ListXP ConstsOk QVecP RSQList RSQWord RSQBuild RSQP.
From QwtModel Require Import WaveletMatrix HuffWM Codes HQWTBridge HQWTWalks HQWTCode.
Ltac Zify.zify_post_hook ::= Z.div_mod_to_equations.
Arguments N.add : simpl never.
Arguments N.sub : simpl never.
Arguments N.mul : simpl never.
Arguments N.eqb : simpl never.
Arguments N.ltb : simpl never.
Arguments N.leb : simpl never.
Arguments N.pred : simpl never.
Arguments N.of_nat : simpl never.
Arguments N.land : simpl never.
Arguments N.lor : simpl never.
Arguments N.shiftr : simpl never.
Arguments N.shiftl : simpl never.
Arguments N.div : simpl never.
Arguments N.modulo : simpl never.
Arguments N.pow : simpl never.

Definition width_ok (w : N) : Prop := w = 8 \/ w = 16 \/ w = 32 \/ w = 64 \/ w = 128.

(* the table has a well-formed code exactly for the symbols that occur in seq, is wavelet-matrix
   compatible, and (NOT implied by wavelet-matrix compatibility, see [codes_distinct_needed])
   two distinct occurring symbols never share a table entry *)
Definition table_ok (seq : list N) (tab : list pcode) : Prop :=
  len tab < 2 ^ 64 /\
  (forall x, In x seq -> exists c, nthN tab x = Some c /\ code_wf 2 c = true) /\
  (forall x c, nthN tab x = Some c -> pc_len c <> 0 -> In x seq) /\
  (forall syms, (forall x, In x syms -> In x seq) -> code_wm_ok 2 tab syms = true) /\
  (forall x y c, In x seq -> In y seq -> nthN tab x = Some c -> nthN tab y = Some c -> x = y).

Definition hq_spec (w bsize : N) (t : hqwt) (seq : list N) : Prop :=
  hq_len t = len seq /\
  (forall i, hq_get w bsize t i = Val (nthN seq i)) /\
  (forall c i, c < 2 ^ w -> hq_rank bsize t c i =
       Val (if (i <=? len seq) && (0 <? countN c seq) then Some (rank_spec seq c i) else None)) /\
  (forall c i, c < 2 ^ w -> hq_rank_prefetch bsize t c i = hq_rank bsize t c i) /\
  (forall c k, c < 2 ^ w -> k < 2 ^ 64 -> hq_select bsize t c k = Val (select_spec seq c k)) /\
  (forall i x, nthN seq i = Some x -> hq_get_unchecked w bsize t i = Val x) /\
  (forall c i, 0 < countN c seq -> i <= len seq -> hq_rank_unchecked bsize t c i = Val (rank_spec seq c i)
                                                 /\ hq_rank_prefetch_unchecked bsize t c i = Val (rank_spec seq c i)) /\
  (forall c k p, c < 2 ^ w -> select_spec seq c k = Some p -> hq_select_unchecked bsize t c k = Val p).

(* ---------------------------------------------------------------- the queries *)
Section Main.
Variables (w bsize : N) (tab : list pcode) (s : list N).
Hypothesis Hb : bsize = 256 \/ bsize = 512.
Hypothesis HF : Forall (fun x => x < 2 ^ w) s.
Hypothesis Hn : len s < RSQ_MAXN.
Hypothesis Htab : len tab < 2 ^ 64.
Hypothesis Hwf : forall x, In x s -> exists c, nthN tab x = Some c /\ code_wf 2 c = true.
Hypothesis Hocc : forall x c, nthN tab x = Some c -> pc_len c <> 0 -> In x s.
Hypothesis Hok : code_wm_ok 2 tab s = true.
Hypothesis Hdist : forall x y c, In x s -> In y s -> nthN tab x = Some c -> nthN tab y = Some c -> x = y.
Variables (qvs : list rsq) (lens : list N).

Notation dig := (code_dig 2 tab).
Notation clen := (code_clen 2 tab).
Notation QQ l := (Q N 4 dig clen l s).
Notation LV l0 n := (hwm_levels N 4 dig clen l0 n s).
Notation digs l0 n c := (digits_of N dig l0 n c).
Notation mx := (maxN (map pc_len tab)).
Notation M := (N.to_nat (mx / 2)).

Hypothesis LOK : forall l, (l < M)%nat ->
  exists r, nthN qvs (N.of_nat l) = Some r /\ rsq_spec bsize r (map (dig l) (QQ l)).
Hypothesis LENS : forall l, (l < M)%nat -> nthN lens (N.of_nat l) = Some (len (QQ l)).
Set Default Proof Using "All".

Notation t := (mk_hq (len s) (mx / 2) tab (decode_tables tab mx) qvs lens).
Notation BR f := (f tab s Htab Hwf).
Notation WK f := (f tab s Htab Hwf bsize Hn qvs lens M LOK LENS).
Notation CD f := (f tab s Htab Hwf Hocc Hdist).

Lemma wmok : wm_ok N 4 dig clen s = true.
Proof. exact Hok. Qed.

Lemma len_le_mx x c : In x s -> code_facts tab x c -> pc_len c <= mx.
Proof.
  intros Hx [H1 _ _ _ _]. apply In_maxN. apply in_map.
  rewrite (BR sym_index_in x Hx) in H1. exact (nthN_In _ _ _ H1).
Qed.

Lemma clen_le_M x : In x s -> (clen x <= M)%nat.
Proof.
  intros Hx. destruct (BR in_seq_code x Hx) as (c & HFc).
  pose proof (len_le_mx x c Hx HFc) as H. destruct HFc as [H1 _ _ _ _].
  rewrite (clen_eq tab x c H1). lia.
Qed.

Lemma code_of_in c code : In c s -> code_facts tab c code -> hq_code_of t c = Some code.
Proof.
  intros Hc [H1 H2 H3 H4 H5]. unfold hq_code_of. cbn [h_codes].
  pose proof (BR sym_index_in c Hc) as E. rewrite E in H1. rewrite E.
  pose proof (nthN_some_lt _ _ _ H1) as Hlt.
  rewrite N.eqb_refl. cbn [negb orb]. destruct (N.leb_spec (len tab) c); [lia|].
  rewrite H1. destruct (N.eqb_spec (pc_len code) 0); [lia|reflexivity].
Qed.

Lemma code_of_notin c : ~ In c s -> hq_code_of t c = None.
Proof.
  intros Hc. unfold hq_code_of. cbn [h_codes].
  destruct (N.eqb_spec (sym_index c) c) as [E|E]; cbn [negb orb]; [|reflexivity]. rewrite E.
  destruct (N.leb_spec (len tab) c); [reflexivity|].
  destruct (nthN tab c) as [cd|] eqn:Ecd; [|reflexivity].
  destruct (N.eqb_spec (pc_len cd) 0) as [|Hne]; [reflexivity|].
  exfalso. exact (Hc (Hocc c cd Ecd Hne)).
Qed.

Lemma in_dec_s c : {In c s} + {~ In c s}.
Proof. apply in_dec, N.eq_dec. Qed.

(* ---------- rank ---------- *)
Lemma rank_bounds c i m : In c s -> i <= len s -> (m < clen c)%nat ->
  fst (rank_walk (LV 0 m) (digs 0 m c) 0 i) <= len (QQ (0 + m)%nat) /\
  snd (rank_walk (LV 0 m) (digs 0 m c) 0 i) <= len (QQ (0 + m)%nat).
Proof.
  intros Hc Hi Hm. cbn [Nat.add].
  pose proof (hwm_rank_prefix N 4 dig (dig_lt tab) clen s c (wm_ok_cont N 4 dig clen s c wmok Hc)
                (BR clen_pos c Hc) m i Hm Hi) as H. cbv zeta in H. lia.
Qed.

Lemma rank_unchecked_ok c i : In c s -> i <= len s ->
  hq_rank_unchecked bsize t c i = Val (rank_spec s c i).
Proof.
  intros Hc Hi. destruct (BR in_seq_code c Hc) as (code & HFc). pose proof HFc as [H1 H2 H3 H4 H5].
  pose proof (WK hq_rank_walk_ok c code H1 (clen c) 0%nat 0 i (clen_le_M c Hc)
                (fun m Hm => rank_bounds c i m Hc Hi Hm)) as W.
  change (N.of_nat 0) with 0 in W. change (2 * (0 + 1)) with 2 in W.
  unfold hq_rank_unchecked. cbn [h_codes h_qvs]. unfold idx. rewrite H1. cbn [bind].
  rewrite <- (clen_eq tab c code H1), W. cbn [bind].
  pose proof (hwm_rank_correct N 4 dig (dig_lt tab) clen s c i wmok Hc (BR clen_pos c Hc) Hi) as R.
  cbv zeta in R. destruct (rank_walk _ _ 0 i) as [p' i']. cbn [fst snd] in R.
  destruct R as (R1 & R2 & R3). unfold osub. destruct (N.leb_spec p' i'); [|lia].
  rewrite R3, (CD filter_same_code c (firstnN i s) Hc), rank_spec_rk; [reflexivity|].
  intros x Hx. rewrite <- (firstnN_skipnN s i). apply in_or_app. now left.
Qed.

Lemma rank_prefetch_unchecked_ok c i : In c s -> i <= len s ->
  hq_rank_prefetch_unchecked bsize t c i = Val (rank_spec s c i).
Proof.
  intros Hc Hi. destruct (BR in_seq_code c Hc) as (code & HFc). pose proof HFc as [H1 H2 H3 H4 H5].
  destruct (CD clen_len c code HFc) as [HL Hpos]. pose proof (clen_le_M c Hc) as HM.
  assert (W : hq_estimate_walk bsize qvs (pc_content code) (pc_len code - 2 * (N.of_nat 0 + 1)) 0 i
                (N.of_nat 0) (clen c - 1) = Val tt).
  { apply (WK hq_estimate_walk_ok c code H1 (clen c - 1)%nat 0%nat 0 i 0 i); [lia|lia|lia|].
    intros m Hm. apply rank_bounds; [exact Hc|exact Hi|lia]. }
  change (N.of_nat 0) with 0 in W. change (2 * (0 + 1)) with 2 in W.
  pose proof (rank_unchecked_ok c i Hc Hi) as R.
  unfold hq_rank_prefetch_unchecked. cbn [h_codes h_qvs]. unfold idx at 1. rewrite H1. cbn [bind].
  destruct (LOK 0%nat ltac:(lia)) as (r0 & Er0 & _). change (N.of_nat 0) with 0 in Er0.
  unfold idx at 1. rewrite Er0. cbn [bind].
  replace (N.to_nat (pc_len code / 2 - 1)) with (clen c - 1)%nat by lia.
  rewrite W. cbn [bind]. exact R.
Qed.

(* ---------- get ---------- *)
Lemma get_unchecked_ok i x : nthN s i = Some x -> hq_get_unchecked w bsize t i = Val x.
Proof.
  intros Hi. assert (Hx : In x s) by exact (nthN_In _ _ _ Hi).
  destruct (BR in_seq_code x Hx) as (c & HFc). pose proof HFc as [H1 H2 H3 H4 H5].
  destruct (CD clen_len x c HFc) as [HL Hpos].
  unfold hq_get_unchecked. cbn [h_n_levels h_decode].
  pose proof (WK hq_get_walk_ok t eq_refl eq_refl M 0%nat i 0 0 (le_n _)) as G.
  change (N.of_nat 0) with 0 in G. rewrite G. cbn [bind].
  destruct (hwm_get_correct N 4 dig (dig_lt tab) clen M s i x wmok Hi Hpos (clen_le_M x Hx)) as [Gw _].
  rewrite Gw, (CD acc_fold_full x c HFc).
  assert (EL : 0 + 2 * len (digs 0 (clen x) x) = pc_len c).
  { unfold len. rewrite digits_of_length. lia. }
  rewrite EL.
  destruct (CD decode_ok x c mx Hx HFc (len_le_mx x c Hx HFc)) as (T & ET & EK).
  unfold idx. rewrite ET. cbn [bind]. rewrite EK. cbn [bind].
  rewrite Forall_forall in HF. specialize (HF x Hx).
  destruct (N.ltb_spec x (2 ^ w)); [reflexivity|lia].
Qed.

(* ---------- select ---------- *)
Lemma select_ok c k : In c s -> hq_select bsize t c k = Val (select_spec s c k).
Proof.
  intros Hc. destruct (BR in_seq_code c Hc) as (code & HFc). pose proof HFc as [H1 H2 H3 H4 H5].
  destruct (CD clen_len c code HFc) as [HL Hpos].
  unfold hq_select. rewrite (code_of_in c code Hc HFc). cbn [h_qvs].
  rewrite <- (clen_eq tab c code H1).
  pose proof (hselect_down_bounds N 4 dig (dig_lt tab) clen s c (wm_ok_cont N 4 dig clen s c wmok Hc) Hpos) as HB.
  pose proof (WK hq_select_down_ok c code H1 (clen c) 0%nat 0 (clen_le_M c Hc) HB) as D.
  change (N.of_nat 0) with 0 in D. change (2 * (0 + 1)) with 2 in D. rewrite D. cbn [bind].
  pose proof (WK hq_select_up_ok c code H1 HL (clen_le_M c Hc) (clen c) 0%nat 0 k eq_refl HB) as U.
  change (N.of_nat 0) with 0 in U. unfold numb in U. rewrite U. f_equal.
  transitivity (wm_select (LV 0 (clen c)) (digs 0 (clen c) c) k); [reflexivity|].
  rewrite (hwm_select_correct N 4 dig (dig_lt tab) clen s c k wmok Hc Hpos).
  rewrite (select_pred_ext_in (same_code N dig clen c) (fun x => x =? c) s
             (fun x Hx => CD same_code_eq c x Hc Hx)).
  unfold select_spec. now rewrite select_from_pred_eq.
Qed.

Lemma select_notin c k : ~ In c s -> hq_select bsize t c k = Val (select_spec s c k).
Proof.
  intros Hc. unfold hq_select. rewrite (code_of_notin c Hc).
  rewrite select_spec_none; [reflexivity|].
  destruct (N.eq_dec (countN c s) 0) as [E|E]; [lia|]. exfalso. apply Hc, countN_pos_In. lia.
Qed.

(* ---------- the specification ---------- *)
Lemma spec_ok : hq_spec w bsize t s.
Proof.
  unfold hq_spec. split; [reflexivity|].
  split; [|split; [|split; [|split; [|split; [|split]]]]].
  - intros i. unfold hq_get. cbn [h_n]. destruct (N.leb_spec (len s) i) as [Hle|Hlt].
    + now rewrite nthN_none.
    + destruct (nthN_lt_some s i Hlt) as (x & Hx). rewrite (get_unchecked_ok i x Hx), Hx. reflexivity.
  - intros c i _. unfold hq_rank. cbn [h_n].
    destruct (N.ltb_spec (len s) i) as [Hgt|Hle]; destruct (N.leb_spec i (len s)) as [Hle'|Hgt']; try lia;
      [reflexivity|]. cbn [andb].
    destruct (in_dec_s c) as [Hc|Hc].
    + destruct (BR in_seq_code c Hc) as (code & HFc).
      rewrite (code_of_in c code Hc HFc), (rank_unchecked_ok c i Hc Hle). cbn [bind].
      apply countN_pos_In in Hc. destruct (N.ltb_spec 0 (countN c s)); [reflexivity|lia].
    + rewrite (code_of_notin c Hc).
      destruct (N.ltb_spec 0 (countN c s)) as [Hp|]; [|reflexivity].
      apply countN_pos_In in Hp. contradiction.
  - intros c i _. unfold hq_rank_prefetch, hq_rank. cbn [h_n].
    destruct (N.ltb_spec (len s) i) as [Hgt|Hle]; [reflexivity|].
    destruct (in_dec_s c) as [Hc|Hc].
    + destruct (BR in_seq_code c Hc) as (code & HFc).
      rewrite (code_of_in c code Hc HFc), (rank_unchecked_ok c i Hc Hle),
        (rank_prefetch_unchecked_ok c i Hc Hle). reflexivity.
    + now rewrite (code_of_notin c Hc).
  - intros c k _ _. destruct (in_dec_s c) as [Hc|Hc]; [now apply select_ok|now apply select_notin].
  - exact get_unchecked_ok.
  - intros c i Hc Hi. apply countN_pos_In in Hc.
    split; [now apply rank_unchecked_ok|now apply rank_prefetch_unchecked_ok].
  - intros c k p _ Hsel. unfold hq_select_unchecked.
    assert (E : hq_select bsize t c k = Val (select_spec s c k)).
    { destruct (in_dec_s c) as [Hc|Hc]; [now apply select_ok|now apply select_notin]. }
    rewrite E, Hsel. reflexivity.
Qed.

End Main.

(* ---------------------------------------------------------------- the empty sequence *)
Lemma hq_empty_spec w bsize d : hq_spec w bsize (mk_hq 0 0 [] [] [d] [0]) [].
Proof.
  assert (EC : forall c, hq_code_of (mk_hq 0 0 [] [] [d] [0]) c = None).
  { intros c. unfold hq_code_of. cbn [h_codes]. change (len (@nil pcode)) with 0.
    destruct (N.leb_spec 0 (sym_index c)); [|lia]. now rewrite orb_true_r. }
  unfold hq_spec. split; [reflexivity|].
  split; [|split; [|split; [|split; [|split; [|split]]]]].
  - intros i. unfold hq_get. cbn [h_n]. destruct (N.leb_spec 0 i); [reflexivity|lia].
  - intros c i _. unfold hq_rank. rewrite EC. cbn [h_n countN].
    change (0 <? 0) with false. rewrite andb_false_r. now destruct (0 <? i).
  - intros c i _. unfold hq_rank_prefetch, hq_rank. now rewrite EC.
  - intros c k _ _. unfold hq_select. now rewrite EC.
  - intros i x H. discriminate H.
  - intros c i H. cbn [countN] in H. lia.
  - intros c k p _ H. discriminate H.
Qed.

Lemma hq_build_nil bsize tab : (bsize = 256 \/ bsize = 512) -> forall w,
  exists t, hq_build bsize [] tab = Val t /\ hq_spec w bsize t [].
Proof.
  intros Hb w. destruct (rsq_default_correct bsize Hb) as (d & Ed & _).
  unfold hq_build. rewrite Ed. cbn [bind]. eexists. split; [reflexivity|]. apply hq_empty_spec.
Qed.

Lemma hq_build_cons bsize x0 seq' tab :
  hq_build bsize (x0 :: seq') tab =
  (let! (qvs, lens) := hq_levels bsize (x0 :: seq') tab 2 (N.to_nat (maxN (map pc_len tab) / 2)) in
   Val (mk_hq (len (x0 :: seq')) (maxN (map pc_len tab) / 2) tab
              (decode_tables tab (maxN (map pc_len tab))) qvs lens)).
Proof. reflexivity. Qed.

(* ---------------------------------------------------------------- the theorems *)
Theorem hq_build_correct : forall w bsize seq tab, width_ok w -> (bsize = 256 \/ bsize = 512) ->
  Forall (fun x => x < 2 ^ w) seq -> len seq < RSQ_MAXN -> table_ok seq tab ->
  exists t, hq_build bsize seq tab = Val t /\ hq_spec w bsize t seq.
Proof.
  intros w bsize seq tab _ Hb HF Hn (Htab & Hwf & Hocc & Hok & Hdist).
  destruct seq as [|x0 seq']; [now apply hq_build_nil|].
  rewrite hq_build_cons. set (s := x0 :: seq') in *.
  specialize (Hok s (fun x H => H)).
  assert (HT : fin_tail tab s 0 []) by (intros x []).
  destruct (hq_levels_ok tab s Htab Hwf bsize Hb Hn (N.to_nat (maxN (map pc_len tab) / 2)) 0%nat [] HT)
    as (qvs & lens & E & H1 & H2).
  cbn [Q] in E. rewrite app_nil_r in E. change (2 * (N.of_nat 0 + 1)) with 2 in E.
  rewrite E. cbn [bind]. eexists. split; [reflexivity|].
  assert (LV0 : forall l, (l < N.to_nat (maxN (map pc_len tab) / 2))%nat ->
            nthN (hwm_levels N 4 (code_dig 2 tab) (code_clen 2 tab) 0 (N.to_nat (maxN (map pc_len tab) / 2)) s)
                 (N.of_nat l) =
            Some (map (code_dig 2 tab l) (Q N 4 (code_dig 2 tab) (code_clen 2 tab) l s))).
  { intros l Hl. exact (LV_nth tab s Htab _ 0%nat l Hl). }
  apply (spec_ok w bsize tab s Hb HF Hn Htab Hwf Hocc Hok Hdist qvs lens).
  - intros l Hl. destruct (Forall2_nthN _ _ _ H1 _ _ (LV0 l Hl)) as (r & Er & Hr). eauto.
  - intros l Hl. rewrite H2, nthN_map, (LV0 l Hl). cbn [option_map]. now rewrite len_map.
Qed.

(* empty sequence: every query is None *)
Theorem hq_build_empty : forall w bsize, (bsize = 256 \/ bsize = 512) ->
  exists t, hq_build bsize [] [] = Val t /\ hq_spec w bsize t [].
Proof. intros w bsize Hb. now apply hq_build_nil. Qed.

(* ---------------------------------------------------------------- a checker for table_ok *)
Lemma wm_ok_sub {A} a (dg : nat -> A -> N) cl (s syms : list A) :
  HuffWM.wm_ok A a dg cl s = true -> (forall x, In x syms -> In x s) -> HuffWM.wm_ok A a dg cl syms = true.
Proof.
  unfold HuffWM.wm_ok. intros H Hs. apply forallb_forall. intros f Hf. apply forallb_forall. intros g Hg.
  rewrite forallb_forall in H. specialize (H f (Hs f Hf)). rewrite forallb_forall in H. exact (H g (Hs g Hg)).
Qed.

(* the four conditions on the table without distinctness of the entries *)
Definition table_ok_weak (seq : list N) (tab : list pcode) : Prop :=
  len tab < 2 ^ 64 /\
  (forall x, In x seq -> exists c, nthN tab x = Some c /\ code_wf 2 c = true) /\
  (forall x c, nthN tab x = Some c -> pc_len c <> 0 -> In x seq) /\
  (forall syms, (forall x, In x syms -> In x seq) -> code_wm_ok 2 tab syms = true).
Definition codes_distinct (seq : list N) (tab : list pcode) : Prop :=
  forall x y c, In x seq -> In y seq -> nthN tab x = Some c -> nthN tab y = Some c -> x = y.

Lemma table_ok_split seq tab : table_ok seq tab <-> table_ok_weak seq tab /\ codes_distinct seq tab.
Proof. unfold table_ok, table_ok_weak, codes_distinct. tauto. Qed.

Definition table_okb_weak (seq : list N) (tab : list pcode) : bool :=
  (len tab <? 2 ^ 64) &&
  forallb (fun x => match nthN tab x with Some c => code_wf 2 c | None => false end) seq &&
  forallb (fun '(i, c) => (pc_len c =? 0) || existsb (fun y => y =? i) seq) (number_levels tab 0) &&
  code_wm_ok 2 tab seq.
Definition ocode_eqb (o1 o2 : option pcode) : bool :=
  match o1, o2 with
  | Some a, Some b => (pc_content a =? pc_content b) && (pc_len a =? pc_len b)
  | _, _ => false
  end.
Definition codes_distinctb (seq : list N) (tab : list pcode) : bool :=
  forallb (fun x => forallb (fun y => (x =? y) || negb (ocode_eqb (nthN tab x) (nthN tab y))) seq) seq.
Definition table_okb (seq : list N) (tab : list pcode) : bool :=
  table_okb_weak seq tab && codes_distinctb seq tab.

Lemma table_okb_weak_sound seq tab : table_okb_weak seq tab = true -> table_ok_weak seq tab.
Proof.
  unfold table_okb_weak. intros H.
  apply andb_prop in H as [H H4]. apply andb_prop in H as [H H3]. apply andb_prop in H as [H1 H2].
  rewrite forallb_forall in H2, H3. split; [lia|]. split; [|split].
  - intros x Hx. specialize (H2 x Hx). destruct (nthN tab x) as [c|]; [eauto|discriminate].
  - intros x c Hx Hne.
    assert (Hin : In (x, c) (number_levels tab 0)).
    { apply number_levels_In. rewrite N.sub_0_r. split; [lia|exact Hx]. }
    specialize (H3 _ Hin). cbv beta iota in H3.
    destruct (N.eqb_spec (pc_len c) 0); [contradiction|]. cbn [orb] in H3.
    apply existsb_exists in H3 as (y & Hy & E). apply N.eqb_eq in E. now subst.
  - intros syms Hs. exact (wm_ok_sub _ _ _ _ _ H4 Hs).
Qed.

Lemma codes_distinctb_sound seq tab : codes_distinctb seq tab = true -> codes_distinct seq tab.
Proof.
  unfold codes_distinctb, codes_distinct. intros H x y c Hx Hy Ex Ey.
  rewrite forallb_forall in H. specialize (H x Hx). rewrite forallb_forall in H. specialize (H y Hy).
  rewrite Ex, Ey in H. unfold ocode_eqb in H. rewrite !N.eqb_refl in H. cbn [andb negb] in H.
  rewrite orb_false_r in H. now apply N.eqb_eq.
Qed.

Theorem table_okb_sound seq tab : table_okb seq tab = true -> table_ok seq tab.
Proof.
  unfold table_okb. intros H. apply andb_prop in H as [H1 H2]. apply table_ok_split.
  split; [now apply table_okb_weak_sound|now apply codes_distinctb_sound].
Qed.

(* ---------------------------------------------------------------- distinctness is needed *)
(* REPORTED: wavelet-matrix compatibility (code_wm_ok) compares only codes of different lengths, so
   it accepts a table giving two occurring symbols the same entry; the model (like the code) then
   decodes both as the smaller symbol and counts them together.  Hence the fifth conjunct of
   table_ok. *)
Definition bad_seq : list N := [0; 1].
Definition bad_tab : list pcode := [mk_pc 0 2; mk_pc 0 2].
Lemma codes_distinct_needed :
  table_ok_weak bad_seq bad_tab /\ Forall (fun x => x < 2 ^ 8) bad_seq /\
  exists t, hq_build 256 bad_seq bad_tab = Val t /\
    hq_get 8 256 t 1 = Val (Some 0) /\ nthN bad_seq 1 = Some 1 /\
    hq_rank 256 t 1 2 = Val (Some 2) /\ rank_spec bad_seq 1 2 = 1.
Proof.
  split; [apply table_okb_weak_sound; vm_compute; reflexivity|].
  split; [repeat constructor|].
  destruct (hq_build 256 bad_seq bad_tab) as [t|f] eqn:E; [|vm_compute in E; discriminate E].
  exists t. split; [reflexivity|].
  assert (G : match hq_build 256 bad_seq bad_tab with
              | Val t => hq_get 8 256 t 1 = Val (Some 0) /\ nthN bad_seq 1 = Some 1 /\
                         hq_rank 256 t 1 2 = Val (Some 2) /\ rank_spec bad_seq 1 2 = 1
              | Fault _ => False
              end) by (vm_compute; repeat split; reflexivity).
  rewrite E in G. exact G.
Qed.
(* without the fifth conjunct hq_build_correct is false *)
Lemma hq_build_correct_without_distinct_refuted :
  ~ (forall w bsize seq tab, width_ok w -> (bsize = 256 \/ bsize = 512) ->
     Forall (fun x => x < 2 ^ w) seq -> len seq < RSQ_MAXN -> table_ok_weak seq tab ->
     exists t, hq_build bsize seq tab = Val t /\ hq_spec w bsize t seq).
Proof.
  intros H. destruct codes_distinct_needed as (Hw & HF & t & E & G1 & G2 & _).
  destruct (H 8 256 bad_seq bad_tab) as (t' & E' & _ & Hget & _);
    [left; reflexivity|left; reflexivity|exact HF|reflexivity|exact Hw|].
  rewrite E in E'. injection E' as <-. rewrite Hget, G2 in G1. discriminate G1.
Qed.

(* ---------------------------------------------------------------- non-vacuity *)
Definition hq_ex_seq : list N :=
  [5; 0; 9; 2; 5; 5; 9; 0; 2; 9; 5; 9; 9; 0; 5; 2; 9; 5; 0; 9; 5; 2; 5; 9; 0; 9; 5; 5; 2; 9].
(* = craft4 [(5,2);(9,2);(0,4);(2,4)] 9 *)
Definition hq_ex_tab : list pcode :=
  [mk_pc 7 4; pc_zero; mk_pc 3 4; pc_zero; pc_zero; mk_pc 3 2; pc_zero; pc_zero; pc_zero; mk_pc 2 2].

Example hq_ex_craft : craft4 [(5, 2); (9, 2); (0, 4); (2, 4)] 9 = Val hq_ex_tab.
Proof. vm_compute. reflexivity. Qed.
Example hq_ex_table_ok : table_ok hq_ex_seq hq_ex_tab.
Proof. apply table_okb_sound. vm_compute. reflexivity. Qed.

Definition hq_ex_checks (bsize : N) : Prop :=
  match hq_build bsize hq_ex_seq hq_ex_tab with
  | Val t =>
      hq_len t = 30 /\ h_lens t = [30; 10] /\
      map (hq_get 8 bsize t) [0; 1; 2; 3; 29; 30] =
        [Val (Some 5); Val (Some 0); Val (Some 9); Val (Some 2); Val (Some 9); Val None] /\
      map (fun c => hq_rank bsize t c 17) [0; 2; 5; 9; 1; 300] =
        [Val (Some 3); Val (Some 3); Val (Some 5); Val (Some 6); Val None; Val None] /\
      map (hq_select bsize t 9) [0; 1; 9; 10; 11] =
        [Val (Some 2); Val (Some 6); Val (Some 29); Val None; Val None] /\
      hq_rank_prefetch bsize t 5 30 = Val (Some 10) /\ hq_rank bsize t 5 31 = Val None /\
      hq_select_unchecked bsize t 2 3 = Val 21 /\ hq_get_unchecked 8 bsize t 7 = Val 0 /\
      hq_rank_unchecked bsize t 0 30 = Val 5 /\ hq_rank_prefetch_unchecked bsize t 2 30 = Val 5
  | Fault _ => False
  end.
Example hq_example_256 : hq_ex_checks 256.
Proof. vm_compute. repeat split; reflexivity. Qed.
Example hq_example_512 : hq_ex_checks 512.
Proof. vm_compute. repeat split; reflexivity. Qed.
(* the same values from the specification side *)
Example hq_example_spec :
  map (nthN hq_ex_seq) [0; 1; 2; 3; 29; 30] = [Some 5; Some 0; Some 9; Some 2; Some 9; None] /\
  map (fun c => rank_spec hq_ex_seq c 17) [0; 2; 5; 9] = [3; 3; 5; 6] /\
  map (select_spec hq_ex_seq 9) [0; 1; 9; 10; 11] = [Some 2; Some 6; Some 29; None; None] /\
  rank_spec hq_ex_seq 5 30 = 10 /\ select_spec hq_ex_seq 2 3 = Some 21 /\
  rank_spec hq_ex_seq 0 30 = 5 /\ rank_spec hq_ex_seq 2 30 = 5.
Proof. vm_compute. repeat split; reflexivity. Qed.
(* the general theorem instantiated on the example *)
Example hq_example_thm : forall bsize, (bsize = 256 \/ bsize = 512) ->
  exists t, hq_build bsize hq_ex_seq hq_ex_tab = Val t /\ hq_spec 8 bsize t hq_ex_seq.
Proof.
  intros bsize Hb. apply hq_build_correct; [left; reflexivity|exact Hb| |reflexivity|exact hq_ex_table_ok].
  apply Forall_forall. intros x Hx.
  assert (H : forallb (fun y => y <? 2 ^ 8) hq_ex_seq = true) by (vm_compute; reflexivity).
  rewrite forallb_forall in H. specialize (H x Hx). lia.
Qed.

Print Assumptions hq_build_correct.
Print Assumptions hq_build_empty.
Print Assumptions table_okb_sound.
Print Assumptions codes_distinct_needed.
Print Assumptions hq_build_correct_without_distinct_refuted.
Print Assumptions hq_ex_table_ok.
Print Assumptions hq_example_256.
Print Assumptions hq_example_512.
Print Assumptions hq_example_spec.
Print Assumptions hq_example_thm.
