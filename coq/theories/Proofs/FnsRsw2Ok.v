(* T5 (RSWide select path + bit DataLine select): the definitions regenerated from src/bitvector/rs_wide.rs and
   src/bitvector/mod.rs (Gen/FnsRsw2.v, Gen/FnsBv.v) agree with the hand model (Model/RSBin.v).

   Statement shapes
     *_ok    equality  g_f <fields> args = h_f r args   (for the functions with a loop fuel: at the fuel the hand
             model uses, S (length (rsw_meta r)))
     *_fuel  the same equality for every larger fuel, as long as the hand model does not answer Fault OutOfFuel
     *_sim   simulation form derived from it (hand = Val v -> generated = Val v)
   Hypotheses (all hold for what rsw_new builds from a bit vector below 2^43 bits, see the end of the file):
     i < 2^64 (the parameter type), metadata entries below 2^128 (the element type u128), select samples below 2^48,
     words below 2^64 (the element type), the number of words a multiple of 8 (whole DataLines).
   No disagreement with the hand model was found on in-range arguments. *)
From Coq Require Import ZArith Lia ZifyBool ZifyN ZifyNat.
From QwtModel Require Import ListX Loops Consts SelTable Words BitVec RSBin Seq ListXP.
From QwtModel Require Import LeavesUtils LeavesRSW FnsBv FnsRsw2 LeavesLib LeavesUtilsOk LeavesRSWOk.
From QwtModel Require RSBinL RSBinB RSBinW RSBinP WordsP BitVecP BinFinalP.
Ltac Zify.zify_post_hook ::= Z.div_mod_to_equations.
Open Scope N_scope.

(* ================================================================== general lemmas *)
Lemma bind_Val_inv {A B} (x : outcome A) (f : A -> outcome B) v :
  bind x f = Val v -> exists a, x = Val a /\ f a = Val v.
Proof. destruct x as [a|]; cbn [bind]; [|discriminate]. intros H. now exists a. Qed.

Lemma oadd_ok w a b : a + b < 2 ^ w -> oadd w a b = Val (a + b).
Proof. intros H. unfold oadd. destruct (N.ltb_spec (a + b) (2 ^ w)); [reflexivity|lia]. Qed.
Lemma omul_ok w a b : a * b < 2 ^ w -> omul w a b = Val (a * b).
Proof. intros H. unfold omul. destruct (N.ltb_spec (a * b) (2 ^ w)); [reflexivity|lia]. Qed.

(* ------------------------------------------------------------------ chunks of 8 *)
Lemma len_skipn {A} (l : list A) n : len (skipn n l) = len l - N.of_nat n.
Proof. unfold len. rewrite skipn_length. lia. Qed.

Lemma skipn_skipn' {A} : forall a b (l : list A), skipn a (skipn b l) = skipn (b + a) l.
Proof.
  intros a b. induction b as [|b IH]; intros l; [reflexivity|].
  destruct l as [|x l]; [now rewrite !skipn_nil|]. cbn [skipn Nat.add]. apply IH.
Qed.

Lemma nthN_chunks_aux {A} : forall fuel (ws : list A) b, (length ws <= fuel)%nat ->
  nthN (chunks_aux 8 ws fuel) b = if b * 8 <? len ws then Some (firstn 8 (skipnN (b * 8) ws)) else None.
Proof.
  induction fuel as [|f IH]; intros ws b Hf.
  - destruct ws; [|cbn [length] in Hf; lia]. cbn [chunks_aux nthN].
    destruct (N.ltb_spec (b * 8) (len (@nil A))); [unfold len in *; cbn [length] in *; lia|reflexivity].
  - cbn [chunks_aux]. destruct ws as [|x ws'].
    + cbn [nthN]. destruct (N.ltb_spec (b * 8) (len (@nil A))); [unfold len in *; cbn [length] in *; lia|reflexivity].
    + set (ws := x :: ws') in *.
      destruct (N.eq_dec b 0) as [->|Hb].
      * rewrite nthN_0. change (0 * 8) with 0.
        destruct (N.ltb_spec 0 (len ws)); [|unfold ws, len in *; cbn [length] in *; lia].
        rewrite skipnN_skipn. reflexivity.
      * replace b with ((b - 1) + 1) at 1 by lia. rewrite nthN_succ.
        rewrite IH by (rewrite skipn_length; lia).
        rewrite len_skipn. change (N.of_nat 8) with 8.
        destruct (N.ltb_spec ((b - 1) * 8) (len ws - 8)); destruct (N.ltb_spec (b * 8) (len ws)); try lia; [|reflexivity].
        f_equal. f_equal. rewrite !skipnN_skipn, skipn_skipn'. f_equal. lia.
Qed.

Lemma idx_chunks (ws : list N) b :
  idx (chunks 8 ws) b = if b * 8 <? len ws then Val (line_of ws b) else Fault Panic.
Proof.
  unfold idx, chunks. rewrite nthN_chunks_aux by lia. unfold line_of.
  destruct (b * 8 <? len ws); reflexivity.
Qed.

Lemma line_of_length (ws : list N) b : len ws mod 8 = 0 -> b * 8 < len ws -> length (line_of ws b) = 8%nat.
Proof.
  intros Hm Hb. unfold line_of. rewrite firstn_length, skipnN_skipn, skipn_length. unfold len in *. lia.
Qed.

Lemma Forall_firstn {A} (P : A -> Prop) n : forall l, Forall P l -> Forall P (firstn n l).
Proof.
  induction n as [|n IH]; intros l H; [constructor|]. destruct l as [|x l]; [constructor|].
  inversion H; subst. cbn [firstn]. constructor; [assumption|now apply IH].
Qed.
Lemma Forall_skipn {A} (P : A -> Prop) n : forall l, Forall P l -> Forall P (skipn n l).
Proof.
  induction n as [|n IH]; intros l H; [exact H|]. destruct l as [|x l]; [constructor|].
  inversion H; subst. cbn [skipn]. now apply IH.
Qed.
Lemma line_of_Forall (P : N -> Prop) ws b : Forall P ws -> Forall P (line_of ws b).
Proof. intros H. unfold line_of. rewrite skipnN_skipn. now apply Forall_firstn, Forall_skipn. Qed.

(* ================================================================== DataLine::select1_unchecked / select0_unchecked *)
Lemma select_in_word_lt w k s : select_in_word w k = Val s -> s < 2 ^ 32.
Proof.
  unfold select_in_word. cbv zeta.
  repeat lazymatch goal with
  | |- bind ?x _ = _ -> _ => destruct x; cbn [bind]; [|discriminate]
  end.
  destruct (_ =? SIW_NOTFOUND).
  - intros E. apply Val_inj in E. subst s. reflexivity.
  - repeat lazymatch goal with
    | |- bind ?x _ = _ -> _ => destruct x; cbn [bind]; [|discriminate]
    end.
    lazymatch goal with
    | |- oadd 32 ?a ?b = _ -> _ => unfold oadd; destruct (N.ltb_spec (a + b) (2 ^ 32)); [|discriminate]
    end.
    intros E. apply Val_inj in E. subst s. assumption.
Qed.

Lemma notw_eq w : N.lxor w (2 ^ 64 - 1) = notw w.
Proof. reflexivity. Qed.

Lemma popcount_le64 w : w < 2 ^ 64 -> popcount w <= 64.
Proof. intros H. apply (popcount_le_bits 64). exact H. Qed.

Section BlineLoop.
Variable neg : bool.
Variable words : list N.
Variable i : N.
Variable body : N -> N * N -> outcome (step (N * N) N).
Hypothesis body_spec : forall w x off rank, nthN words w = Some x -> x < 2 ^ 64 ->
  off + 64 + 2 ^ 32 <= 2 ^ 64 -> rank + 64 < 2 ^ 64 ->
  body w (off, rank) =
    (let x' := if neg then notw x else x in
     let! d := osub i rank in
     if d <? popcount x' then let! s := select_in_word x' d in Val (Brk (off + s, rank))
     else Val (Next (off + 64, rank + popcount x'))).

Lemma bline_loop_ok : forall (l : list N) w off rank,
  (forall j, j < len l -> nthN words (w + j) = nthN l j) -> Forall (fun w => w < 2 ^ 64) l ->
  off + 64 * len l + 2 ^ 32 <= 2 ^ 64 -> rank + 64 * len l < 2 ^ 64 ->
  (let! r := for_loop body w (length l) (off, rank) in
   match r with Retd v => Val v | Done (off, rank) => Val off end) = bline_select_loop neg l i rank off.
Proof.
  induction l as [|x l IH]; intros w off rank Hn Hok Hoff Hrank.
  - reflexivity.
  - inversion Hok as [|? ? Hx Hok']; subst. rewrite len_cons in *.
    assert (Ex : nthN words w = Some x).
    { specialize (Hn 0 ltac:(lia)). rewrite N.add_0_r, nthN_0 in Hn. exact Hn. }
    cbn [length for_loop bline_select_loop].
    rewrite (body_spec w x off rank Ex Hx) by lia. cbv zeta.
    assert (Hx' : (if neg then notw x else x) < 2 ^ 64) by (destruct neg; [apply RSBinB.notw_lt|]; exact Hx).
    pose proof (popcount_le64 _ Hx') as Hp.
    set (x' := if neg then notw x else x) in *.
    destruct (osub i rank) as [d|]; cbn [bind]; [|reflexivity].
    destruct (d <? popcount x').
    + destruct (select_in_word x' d); reflexivity.
    + cbn [bind]. apply IH; [|assumption|lia|lia].
      intros j Hj. specialize (Hn (j + 1) ltac:(lia)). rewrite nthN_succ in Hn. rewrite <- Hn. f_equal. lia.
Qed.
End BlineLoop.

Lemma bline_select_loop_bound neg : forall l i rank off v,
  bline_select_loop neg l i rank off = Val v -> v <= off + 64 * len l + 2 ^ 32.
Proof.
  induction l as [|x l IH]; intros i rank off v; cbn [bline_select_loop].
  - intros E. apply Val_inj in E. subst. lia.
  - rewrite len_cons. cbv zeta. destruct (osub i rank) as [d|]; cbn [bind]; [|discriminate].
    destruct (d <? _).
    + destruct (select_in_word _ d) as [s|] eqn:Es; cbn [bind]; [|discriminate].
      apply select_in_word_lt in Es. intros E. apply Val_inj in E. subst. lia.
    + intros E. apply IH in E. lia.
Qed.

Theorem g_bline_select1_unchecked_ok : forall l i, length l = 8%nat -> Forall (fun w => w < 2 ^ 64) l ->
  g_bline_select1_unchecked l i = bline_select_loop false l i 0 0.
Proof.
  intros l i Hlen Hok. unfold g_bline_select1_unchecked. cbv zeta.
  change (N.to_nat (8 - 0)) with 8%nat. rewrite <- Hlen.
  apply (bline_loop_ok false l i); [|intros; now rewrite N.add_0_l|assumption|unfold len; lia|unfold len; lia].
  intros w x off rank Ex Hx Hoff Hrank. cbv beta iota zeta.
  unfold uidx. rewrite Ex. cbn [bind].
  pose proof (popcount_le64 _ Hx) as Hp.
  destruct (osub i rank) as [d|] eqn:Ed; cbn [bind]; [|reflexivity].
  destruct (N.ltb_spec d (popcount x)) as [Hd|Hd].
  - rewrite g_select_in_word_ok by lia.
    destruct (select_in_word x d) as [s|] eqn:Es; cbn [bind]; [|reflexivity].
    apply select_in_word_lt in Es. rewrite oadd_ok by lia. reflexivity.
  - rewrite !oadd_ok by lia. reflexivity.
Qed.

Theorem g_bline_select0_unchecked_ok : forall l i, length l = 8%nat -> Forall (fun w => w < 2 ^ 64) l ->
  g_bline_select0_unchecked l i = bline_select_loop true l i 0 0.
Proof.
  intros l i Hlen Hok. unfold g_bline_select0_unchecked. cbv zeta.
  change (N.to_nat (8 - 0)) with 8%nat. rewrite <- Hlen.
  apply (bline_loop_ok true l i); [|intros; now rewrite N.add_0_l|assumption|unfold len; lia|unfold len; lia].
  intros w x off rank Ex Hx Hoff Hrank. cbv beta iota zeta.
  unfold uidx. rewrite Ex. cbn [bind]. rewrite notw_eq.
  pose proof (RSBinB.notw_lt _ Hx) as Hx'.
  pose proof (popcount_le64 _ Hx') as Hp.
  destruct (osub i rank) as [d|] eqn:Ed; cbn [bind]; [|reflexivity].
  destruct (N.ltb_spec d (popcount (notw x))) as [Hd|Hd].
  - rewrite g_select_in_word_ok by lia.
    destruct (select_in_word (notw x) d) as [s|] eqn:Es; cbn [bind]; [|reflexivity].
    apply select_in_word_lt in Es. rewrite oadd_ok by lia. reflexivity.
  - rewrite !oadd_ok by lia. reflexivity.
Qed.

(* ================================================================== the two scans of select*_subblock *)
(* more fuel never changes a result that is not Fault OutOfFuel *)
Lemma while_mono {S R} (cond : S -> outcome bool) (body : S -> outcome (step S R)) : forall fuel fuel' s,
  (fuel <= fuel')%nat -> while_loop cond body fuel s <> Fault OutOfFuel ->
  while_loop cond body fuel' s = while_loop cond body fuel s.
Proof.
  induction fuel as [|f IH]; intros fuel' s Hle Hne.
  - cbn [while_loop] in Hne. contradiction.
  - destruct fuel' as [|f']; [lia|]. cbn [while_loop] in *.
    destruct (cond s) as [c|]; cbn [bind] in *; [|reflexivity].
    destruct c; [|reflexivity].
    destruct (body s) as [r|]; cbn [bind] in *; [|reflexivity].
    destruct r; [apply IH; [lia|assumption]|reflexivity|reflexivity].
Qed.

Lemma while_scan {R} (body : N -> outcome (step N R)) (test : N -> outcome N) i he :
  (forall hs, hs < he -> body hs = let! v := test hs in if i <? v then Val (Brk hs) else Val (Next (hs + 1))) ->
  forall fuel hs, while_loop (fun hs => Val (hs <? he)) body fuel hs
                  = let! p := scan_while test i hs he fuel in Val (Done p).
Proof.
  intros Hb. induction fuel as [|f IH]; intros hs; cbn [while_loop scan_while bind]; [reflexivity|].
  destruct (N.ltb_spec hs he) as [Hlt|Hge]; [|reflexivity].
  rewrite Hb by assumption. destruct (test hs) as [v|]; cbn [bind]; [|reflexivity].
  destruct (i <? v); [reflexivity|apply IH].
Qed.

Lemma for_scan {R} (body : N -> N -> outcome (step N R)) (test : N -> outcome N) i position :
  (forall j, j <= 7 -> body j position = let! v := test (position + j) in
       if i <? v then let! j1 := osub j 1 in Val (Brk (position + j1))
       else Val (Next (if j =? 7 then position + j else position))) ->
  forall n j, j + N.of_nat n = 8 ->
    for_loop body j n position = let! p := scan_for test i position j n in Val (Done p).
Proof.
  intros Hb. induction n as [|n IH]; intros j Hj; cbn [for_loop scan_for bind]; [reflexivity|].
  rewrite Hb by lia. destruct (test (position + j)) as [v|]; cbn [bind]; [|reflexivity].
  destruct (i <? v).
  - destruct (osub j 1); reflexivity.
  - destruct (N.eqb_spec j 7) as [->|H7].
    + destruct n; [reflexivity|lia].
    + apply IH. lia.
Qed.

Lemma scan_while_bound test i he : forall fuel hs p, scan_while test i hs he fuel = Val p -> p <= N.max hs he.
Proof.
  induction fuel as [|f IH]; intros hs p; cbn [scan_while]; [discriminate|].
  destruct (N.ltb_spec hs he).
  - destruct (test hs) as [v|]; cbn [bind]; [|discriminate].
    destruct (i <? v); [intros E; apply Val_inj in E; lia|intros E; apply IH in E; lia].
  - intros E; apply Val_inj in E; lia.
Qed.

Lemma scan_for_bound test i position : forall n j p, j + N.of_nat n <= 8 ->
  scan_for test i position j n = Val p -> p <= position + 7.
Proof.
  induction n as [|n IH]; intros j p Hj; cbn [scan_for].
  - intros E; apply Val_inj in E; lia.
  - destruct (test (position + j)) as [v|]; cbn [bind]; [|discriminate].
    destruct (i <? v).
    + destruct (osub j 1) as [j1|] eqn:Ej; cbn [bind]; [|discriminate].
      apply osub_Val in Ej. intros E; apply Val_inj in E; lia.
    + destruct (N.eqb_spec j 7); [intros E; apply Val_inj in E; lia|apply IH; lia].
Qed.

(* the block found by the hand model's select_subblock is small when the samples are *)
Lemma rsw_select_subblock_bound (one : bool) r i block rank :
  Forall (fun s => s < 2 ^ 48) (if one then rsw_samples1 r else rsw_samples0 r) ->
  rsw_select_subblock one r i = Val (block, rank) -> block < 2 ^ 52.
Proof.
  intros HS. unfold rsw_select_subblock. cbv zeta.
  set (samples := if one then rsw_samples1 r else rsw_samples0 r) in *.
  destruct (idx samples _) as [hs|] eqn:E1; cbn [bind]; [|discriminate].
  destruct (idx samples (_ + 1)) as [he0|] eqn:E2; cbn [bind]; [|discriminate].
  pose proof (idx_Forall _ _ _ _ HS E1) as Hhs. pose proof (idx_Forall _ _ _ _ HS E2) as Hhe. cbv beta in Hhs, Hhe.
  destruct (scan_while _ i hs (1 + he0) _) as [hs'|] eqn:E3; cbn [bind]; [|discriminate].
  apply scan_while_bound in E3.
  destruct (osub hs' 1) as [p0|] eqn:E4; cbn [bind]; [|discriminate]. apply osub_Val in E4.
  fold_consts.
  destruct (scan_for _ i (p0 * 8) 0 8) as [pos|] eqn:E5; cbn [bind]; [|discriminate].
  apply scan_for_bound in E5; [|lia].
  match goal with |- bind ?x _ = _ -> _ => destruct x; cbn [bind]; [|discriminate] end.
  intros E. apply Val_inj in E. injection E as <- _. lia.
Qed.

(* ================================================================== RSWide::n_zeros / n_ones *)
Theorem g_rsw_n_zeros_ok : forall r, g_rsw_n_zeros (rsw_n_zeros r) = Val (rsw_n_zeros_q r).
Proof. reflexivity. Qed.

Theorem g_rsw_n_ones_ok : forall r, g_rsw_n_ones (bv_nbits (rsw_bv r)) (rsw_n_zeros r) = rsw_n_ones r.
Proof. reflexivity. Qed.

(* ================================================================== RSWide::select1_subblock *)
Theorem g_rsw_select1_subblock_ok : forall r i, i < 2 ^ 64 ->
  Forall (fun w => w < 2 ^ 128) (rsw_meta r) -> Forall (fun s => s < 2 ^ 48) (rsw_samples1 r) ->
  g_rsw_select1_subblock (S (length (rsw_meta r))) (rsw_meta r) [rsw_samples0 r; rsw_samples1 r] i
  = rsw_select_subblock true r i.
Proof.
  intros r i Hi HM HS. unfold g_rsw_select1_subblock, rsw_select_subblock, RSW_ONES_PER_HINT. cbv zeta.
  change (idx [rsw_samples0 r; rsw_samples1 r] 1) with (Val (rsw_samples1 r)). cbn [bind].
  obind_as hs E1. pose proof (idx_Forall _ _ _ _ HS E1) as Hhs. cbv beta in Hhs.
  rewrite oadd_ok by lia. cbn [bind].
  obind_as he0 E2. pose proof (idx_Forall _ _ _ _ HS E2) as Hhe. cbv beta in Hhe.
  rewrite oadd_ok by lia. cbn [bind].
  rewrite (while_scan _ (rsw_superblock_rank r) i (1 + he0)).
  2:{ intros b Hb. rewrite g_rsw_superblock_rank_ok by (assumption || lia).
      destruct (rsw_superblock_rank r b) as [v|]; cbn [bind]; [|reflexivity].
      destruct (i <? v); [reflexivity|]. rewrite oadd_ok by lia. reflexivity. }
  destruct (scan_while (rsw_superblock_rank r) i hs (1 + he0) (S (length (rsw_meta r)))) as [hs'|] eqn:E3;
    cbn [bind]; [|reflexivity].
  apply scan_while_bound in E3.
  obind_as p0 E4. apply osub_Val in E4. fold_consts.
  rewrite omul_ok by lia. cbn [bind].
  change (N.to_nat (8 - 0)) with 8%nat.
  rewrite (for_scan _ (rsw_sub_block_rank r) i (p0 * 8)); [| |reflexivity].
  2:{ intros j Hj. rewrite oadd_ok by lia. cbn [bind].
      rewrite g_rsw_sub_block_rank_ok by (assumption || lia).
      destruct (rsw_sub_block_rank r (p0 * 8 + j)) as [v|]; cbn [bind]; [|reflexivity].
      destruct (i <? v).
      - destruct (osub j 1) as [j1|] eqn:Ej; cbn [bind]; [|reflexivity]. apply osub_Val in Ej.
        rewrite oadd_ok by lia. reflexivity.
      - destruct (N.eqb_spec j 7); reflexivity. }
  destruct (scan_for (rsw_sub_block_rank r) i (p0 * 8) 0 8) as [pos|] eqn:E5; cbn [bind]; [|reflexivity].
  apply scan_for_bound in E5; [|lia].
  rewrite g_rsw_sub_block_rank_ok by (assumption || lia). reflexivity.
Qed.

(* ================================================================== RSWide::select0_subblock *)
Theorem g_rsw_select0_subblock_ok : forall r i, i < 2 ^ 64 ->
  Forall (fun w => w < 2 ^ 128) (rsw_meta r) -> Forall (fun s => s < 2 ^ 48) (rsw_samples0 r) ->
  g_rsw_select0_subblock (S (length (rsw_meta r))) (rsw_meta r) [rsw_samples0 r; rsw_samples1 r] i
  = rsw_select_subblock false r i.
Proof.
  intros r i Hi HM HS.
  unfold g_rsw_select0_subblock, rsw_select_subblock, RSW_ZEROS_PER_HINT, RSW_SUPERBLOCK_WORDS, RSW_BLOCK_WORDS.
  cbv zeta.
  change (idx [rsw_samples0 r; rsw_samples1 r] 0) with (Val (rsw_samples0 r)). cbn [bind].
  obind_as hs E1. pose proof (idx_Forall _ _ _ _ HS E1) as Hhs. cbv beta in Hhs.
  rewrite oadd_ok by lia. cbn [bind].
  obind_as he0 E2. pose proof (idx_Forall _ _ _ _ HS E2) as Hhe. cbv beta in Hhe.
  rewrite oadd_ok by lia. cbn [bind].
  repeat ofold. cbn [bind].
  set (blk := fun b => let! br := rsw_superblock_rank r b in osub (64 * 64 * b) br).
  set (sub := fun s => let! sr := rsw_sub_block_rank r s in osub (8 * 64 * s) sr).
  rewrite (while_scan _ blk i (1 + he0)).
  2:{ intros b Hb. unfold blk. rewrite omul_ok by lia. cbn [bind].
      rewrite g_rsw_superblock_rank_ok by (assumption || lia).
      destruct (rsw_superblock_rank r b) as [v|]; cbn [bind]; [|reflexivity].
      destruct (osub (64 * 64 * b) v) as [z|]; cbn [bind]; [|reflexivity].
      destruct (i <? z); [reflexivity|]. rewrite oadd_ok by lia. reflexivity. }
  destruct (scan_while blk i hs (1 + he0) (S (length (rsw_meta r)))) as [hs'|] eqn:E3;
    cbn [bind]; [|reflexivity].
  apply scan_while_bound in E3.
  obind_as p0 E4. apply osub_Val in E4. fold_consts.
  rewrite omul_ok by lia. cbn [bind].
  change (N.to_nat (8 - 0)) with 8%nat.
  rewrite (for_scan _ sub i (p0 * 8)); [| |reflexivity].
  2:{ intros j Hj. unfold sub. rewrite oadd_ok by lia. cbn [bind]. rewrite omul_ok by lia. cbn [bind].
      rewrite g_rsw_sub_block_rank_ok by (assumption || lia).
      destruct (rsw_sub_block_rank r (p0 * 8 + j)) as [v|]; cbn [bind]; [|reflexivity].
      destruct (osub (8 * 64 * (p0 * 8 + j)) v) as [z|]; cbn [bind]; [|reflexivity].
      destruct (i <? z).
      - destruct (osub j 1) as [j1|] eqn:Ej; cbn [bind]; [|reflexivity]. apply osub_Val in Ej.
        rewrite oadd_ok by lia. reflexivity.
      - destruct (N.eqb_spec j 7); reflexivity. }
  destruct (scan_for sub i (p0 * 8) 0 8) as [pos|] eqn:E5; cbn [bind]; [|reflexivity].
  apply scan_for_bound in E5; [|lia].
  unfold sub. rewrite omul_ok by lia. cbn [bind].
  rewrite g_rsw_sub_block_rank_ok by (assumption || lia).
  destruct (rsw_sub_block_rank r pos) as [v|]; cbn [bind]; [|reflexivity].
  destruct (osub (8 * 64 * pos) v); reflexivity.
Qed.

(* ------------------------------------------------------------------ any larger fuel *)
Lemma g_rsw_select1_subblock_mono fuel fuel' meta samples i : (fuel <= fuel')%nat ->
  g_rsw_select1_subblock fuel meta samples i <> Fault OutOfFuel ->
  g_rsw_select1_subblock fuel' meta samples i = g_rsw_select1_subblock fuel meta samples i.
Proof.
  intros Hle Hne. unfold g_rsw_select1_subblock in *. cbv zeta in *.
  repeat lazymatch goal with
  | |- bind ?x _ = bind ?x _ => destruct x; cbn [bind] in *; [|reflexivity]
  end.
  rewrite (while_mono _ _ fuel fuel' _ Hle); [reflexivity|].
  intros E. rewrite E in Hne. apply Hne. reflexivity.
Qed.

Lemma g_rsw_select0_subblock_mono fuel fuel' meta samples i : (fuel <= fuel')%nat ->
  g_rsw_select0_subblock fuel meta samples i <> Fault OutOfFuel ->
  g_rsw_select0_subblock fuel' meta samples i = g_rsw_select0_subblock fuel meta samples i.
Proof.
  intros Hle Hne. unfold g_rsw_select0_subblock in *. cbv zeta in *.
  repeat lazymatch goal with
  | |- bind ?x _ = bind ?x _ => destruct x; cbn [bind] in *; [|reflexivity]
  end.
  rewrite (while_mono _ _ fuel fuel' _ Hle); [reflexivity|].
  intros E. rewrite E in Hne. apply Hne. reflexivity.
Qed.

Theorem g_rsw_select1_subblock_fuel : forall r i fuel, i < 2 ^ 64 ->
  Forall (fun w => w < 2 ^ 128) (rsw_meta r) -> Forall (fun s => s < 2 ^ 48) (rsw_samples1 r) ->
  (S (length (rsw_meta r)) <= fuel)%nat -> rsw_select_subblock true r i <> Fault OutOfFuel ->
  g_rsw_select1_subblock fuel (rsw_meta r) [rsw_samples0 r; rsw_samples1 r] i = rsw_select_subblock true r i.
Proof.
  intros r i fuel Hi HM HS Hf Hne. rewrite <- (g_rsw_select1_subblock_ok r i Hi HM HS) in *.
  now apply g_rsw_select1_subblock_mono.
Qed.

Theorem g_rsw_select0_subblock_fuel : forall r i fuel, i < 2 ^ 64 ->
  Forall (fun w => w < 2 ^ 128) (rsw_meta r) -> Forall (fun s => s < 2 ^ 48) (rsw_samples0 r) ->
  (S (length (rsw_meta r)) <= fuel)%nat -> rsw_select_subblock false r i <> Fault OutOfFuel ->
  g_rsw_select0_subblock fuel (rsw_meta r) [rsw_samples0 r; rsw_samples1 r] i = rsw_select_subblock false r i.
Proof.
  intros r i fuel Hi HM HS Hf Hne. rewrite <- (g_rsw_select0_subblock_ok r i Hi HM HS) in *.
  now apply g_rsw_select0_subblock_mono.
Qed.

(* ================================================================== RSWide::select1_unchecked / select0_unchecked *)
Theorem g_rsw_select1_unchecked_ok : forall r i, i < 2 ^ 64 ->
  Forall (fun w => w < 2 ^ 128) (rsw_meta r) -> Forall (fun s => s < 2 ^ 48) (rsw_samples1 r) ->
  len (bv_words (rsw_bv r)) mod 8 = 0 -> Forall (fun w => w < 2 ^ 64) (bv_words (rsw_bv r)) ->
  g_rsw_select1_unchecked (S (length (rsw_meta r))) (chunks 8 (bv_words (rsw_bv r))) (rsw_meta r)
    [rsw_samples0 r; rsw_samples1 r] i
  = rsw_select_unchecked true r i.
Proof.
  intros r i Hi HM HS H8 HW. unfold g_rsw_select1_unchecked, rsw_select_unchecked.
  rewrite g_rsw_select1_subblock_ok by assumption.
  destruct (rsw_select_subblock true r i) as [[block rank]|] eqn:E; cbn [bind]; [|reflexivity].
  apply rsw_select_subblock_bound in E; [|exact HS].
  rewrite idx_chunks. destruct (N.ltb_spec (block * 8) (len (bv_words (rsw_bv r)))) as [Hb|Hb]; cbn [bind]; [|reflexivity].
  destruct (osub i rank) as [d|]; cbn [bind]; [|reflexivity].
  rewrite g_bline_select1_unchecked_ok by (apply line_of_length || apply line_of_Forall; assumption).
  cbn [negb].
  destruct (bline_select_loop false _ d 0 0) as [off|] eqn:Eo; cbn [bind]; [|reflexivity].
  apply bline_select_loop_bound in Eo.
  assert (Hl : len (line_of (bv_words (rsw_bv r)) block) = 8) by (unfold len; rewrite line_of_length by assumption; reflexivity).
  rewrite Hl in Eo.
  rewrite omul_ok by lia. cbn [bind]. rewrite oadd_ok by lia. reflexivity.
Qed.

Theorem g_rsw_select0_unchecked_ok : forall r i, i < 2 ^ 64 ->
  Forall (fun w => w < 2 ^ 128) (rsw_meta r) -> Forall (fun s => s < 2 ^ 48) (rsw_samples0 r) ->
  len (bv_words (rsw_bv r)) mod 8 = 0 -> Forall (fun w => w < 2 ^ 64) (bv_words (rsw_bv r)) ->
  g_rsw_select0_unchecked (S (length (rsw_meta r))) (chunks 8 (bv_words (rsw_bv r))) (rsw_meta r)
    [rsw_samples0 r; rsw_samples1 r] i
  = rsw_select_unchecked false r i.
Proof.
  intros r i Hi HM HS H8 HW. unfold g_rsw_select0_unchecked, rsw_select_unchecked.
  rewrite g_rsw_select0_subblock_ok by assumption.
  destruct (rsw_select_subblock false r i) as [[block rank]|] eqn:E; cbn [bind]; [|reflexivity].
  apply rsw_select_subblock_bound in E; [|exact HS].
  rewrite idx_chunks. destruct (N.ltb_spec (block * 8) (len (bv_words (rsw_bv r)))) as [Hb|Hb]; cbn [bind]; [|reflexivity].
  destruct (osub i rank) as [d|]; cbn [bind]; [|reflexivity].
  rewrite g_bline_select0_unchecked_ok by (apply line_of_length || apply line_of_Forall; assumption).
  cbn [negb].
  destruct (bline_select_loop true _ d 0 0) as [off|] eqn:Eo; cbn [bind]; [|reflexivity].
  apply bline_select_loop_bound in Eo.
  assert (Hl : len (line_of (bv_words (rsw_bv r)) block) = 8) by (unfold len; rewrite line_of_length by assumption; reflexivity).
  rewrite Hl in Eo.
  rewrite omul_ok by lia. cbn [bind]. rewrite oadd_ok by lia. reflexivity.
Qed.

Theorem g_rsw_select1_unchecked_fuel : forall r i fuel, i < 2 ^ 64 ->
  Forall (fun w => w < 2 ^ 128) (rsw_meta r) -> Forall (fun s => s < 2 ^ 48) (rsw_samples1 r) ->
  len (bv_words (rsw_bv r)) mod 8 = 0 -> Forall (fun w => w < 2 ^ 64) (bv_words (rsw_bv r)) ->
  (S (length (rsw_meta r)) <= fuel)%nat -> rsw_select_unchecked true r i <> Fault OutOfFuel ->
  g_rsw_select1_unchecked fuel (chunks 8 (bv_words (rsw_bv r))) (rsw_meta r) [rsw_samples0 r; rsw_samples1 r] i
  = rsw_select_unchecked true r i.
Proof.
  intros r i fuel Hi HM HS H8 HW Hf Hne.
  assert (Hsb : rsw_select_subblock true r i <> Fault OutOfFuel).
  { intros E. apply Hne. unfold rsw_select_unchecked. rewrite E. reflexivity. }
  unfold g_rsw_select1_unchecked.
  rewrite (g_rsw_select1_subblock_fuel r i fuel), <- (g_rsw_select1_subblock_ok r i) by assumption.
  exact (g_rsw_select1_unchecked_ok r i Hi HM HS H8 HW).
Qed.

Theorem g_rsw_select0_unchecked_fuel : forall r i fuel, i < 2 ^ 64 ->
  Forall (fun w => w < 2 ^ 128) (rsw_meta r) -> Forall (fun s => s < 2 ^ 48) (rsw_samples0 r) ->
  len (bv_words (rsw_bv r)) mod 8 = 0 -> Forall (fun w => w < 2 ^ 64) (bv_words (rsw_bv r)) ->
  (S (length (rsw_meta r)) <= fuel)%nat -> rsw_select_unchecked false r i <> Fault OutOfFuel ->
  g_rsw_select0_unchecked fuel (chunks 8 (bv_words (rsw_bv r))) (rsw_meta r) [rsw_samples0 r; rsw_samples1 r] i
  = rsw_select_unchecked false r i.
Proof.
  intros r i fuel Hi HM HS H8 HW Hf Hne.
  assert (Hsb : rsw_select_subblock false r i <> Fault OutOfFuel).
  { intros E. apply Hne. unfold rsw_select_unchecked. rewrite E. reflexivity. }
  unfold g_rsw_select0_unchecked.
  rewrite (g_rsw_select0_subblock_fuel r i fuel), <- (g_rsw_select0_subblock_ok r i) by assumption.
  exact (g_rsw_select0_unchecked_ok r i Hi HM HS H8 HW).
Qed.

(* ================================================================== RSWide::select1 / select0 *)
Theorem g_rsw_select1_ok : forall r i, i < 2 ^ 64 ->
  Forall (fun w => w < 2 ^ 128) (rsw_meta r) -> Forall (fun s => s < 2 ^ 48) (rsw_samples1 r) ->
  len (bv_words (rsw_bv r)) mod 8 = 0 -> Forall (fun w => w < 2 ^ 64) (bv_words (rsw_bv r)) ->
  g_rsw_select1 (S (length (rsw_meta r))) (chunks 8 (bv_words (rsw_bv r))) (bv_nbits (rsw_bv r)) (rsw_meta r)
    [rsw_samples0 r; rsw_samples1 r] (rsw_n_zeros r) i
  = rsw_select1 r i.
Proof.
  intros r i Hi HM HS H8 HW. unfold g_rsw_select1, rsw_select1.
  rewrite g_rsw_n_ones_ok. destruct (rsw_n_ones r) as [o|]; cbn [bind]; [|reflexivity].
  destruct (o <=? i); [reflexivity|]. rewrite g_rsw_select1_unchecked_ok by assumption. reflexivity.
Qed.

Theorem g_rsw_select0_ok : forall r i, i < 2 ^ 64 ->
  Forall (fun w => w < 2 ^ 128) (rsw_meta r) -> Forall (fun s => s < 2 ^ 48) (rsw_samples0 r) ->
  len (bv_words (rsw_bv r)) mod 8 = 0 -> Forall (fun w => w < 2 ^ 64) (bv_words (rsw_bv r)) ->
  g_rsw_select0 (S (length (rsw_meta r))) (chunks 8 (bv_words (rsw_bv r))) (rsw_meta r)
    [rsw_samples0 r; rsw_samples1 r] (rsw_n_zeros r) i
  = rsw_select0 r i.
Proof.
  intros r i Hi HM HS H8 HW. unfold g_rsw_select0, rsw_select0, g_rsw_n_zeros. cbn [bind].
  destruct (rsw_n_zeros r <=? i); [reflexivity|]. rewrite g_rsw_select0_unchecked_ok by assumption. reflexivity.
Qed.

Theorem g_rsw_select1_fuel : forall r i fuel, i < 2 ^ 64 ->
  Forall (fun w => w < 2 ^ 128) (rsw_meta r) -> Forall (fun s => s < 2 ^ 48) (rsw_samples1 r) ->
  len (bv_words (rsw_bv r)) mod 8 = 0 -> Forall (fun w => w < 2 ^ 64) (bv_words (rsw_bv r)) ->
  (S (length (rsw_meta r)) <= fuel)%nat -> rsw_select1 r i <> Fault OutOfFuel ->
  g_rsw_select1 fuel (chunks 8 (bv_words (rsw_bv r))) (bv_nbits (rsw_bv r)) (rsw_meta r)
    [rsw_samples0 r; rsw_samples1 r] (rsw_n_zeros r) i
  = rsw_select1 r i.
Proof.
  intros r i fuel Hi HM HS H8 HW Hf Hne. unfold g_rsw_select1, rsw_select1 in *.
  rewrite g_rsw_n_ones_ok. destruct (rsw_n_ones r) as [o|]; cbn [bind] in *; [|reflexivity].
  destruct (o <=? i); [reflexivity|].
  rewrite g_rsw_select1_unchecked_fuel; [reflexivity|assumption..|].
  intros E. rewrite E in Hne. apply Hne. reflexivity.
Qed.

Theorem g_rsw_select0_fuel : forall r i fuel, i < 2 ^ 64 ->
  Forall (fun w => w < 2 ^ 128) (rsw_meta r) -> Forall (fun s => s < 2 ^ 48) (rsw_samples0 r) ->
  len (bv_words (rsw_bv r)) mod 8 = 0 -> Forall (fun w => w < 2 ^ 64) (bv_words (rsw_bv r)) ->
  (S (length (rsw_meta r)) <= fuel)%nat -> rsw_select0 r i <> Fault OutOfFuel ->
  g_rsw_select0 fuel (chunks 8 (bv_words (rsw_bv r))) (rsw_meta r)
    [rsw_samples0 r; rsw_samples1 r] (rsw_n_zeros r) i
  = rsw_select0 r i.
Proof.
  intros r i fuel Hi HM HS H8 HW Hf Hne. unfold g_rsw_select0, rsw_select0, g_rsw_n_zeros in *. cbn [bind].
  destruct (rsw_n_zeros r <=? i); [reflexivity|].
  rewrite g_rsw_select0_unchecked_fuel; [reflexivity|assumption..|].
  intros E. rewrite E in Hne. apply Hne. reflexivity.
Qed.

(* ------------------------------------------------------------------ simulation forms *)
Theorem g_rsw_select1_sim : forall r i fuel v, i < 2 ^ 64 ->
  Forall (fun w => w < 2 ^ 128) (rsw_meta r) -> Forall (fun s => s < 2 ^ 48) (rsw_samples1 r) ->
  len (bv_words (rsw_bv r)) mod 8 = 0 -> Forall (fun w => w < 2 ^ 64) (bv_words (rsw_bv r)) ->
  (S (length (rsw_meta r)) <= fuel)%nat -> rsw_select1 r i = Val v ->
  g_rsw_select1 fuel (chunks 8 (bv_words (rsw_bv r))) (bv_nbits (rsw_bv r)) (rsw_meta r)
    [rsw_samples0 r; rsw_samples1 r] (rsw_n_zeros r) i = Val v.
Proof.
  intros r i fuel v Hi HM HS H8 HW Hf E. rewrite g_rsw_select1_fuel; try assumption. rewrite E. discriminate.
Qed.

Theorem g_rsw_select0_sim : forall r i fuel v, i < 2 ^ 64 ->
  Forall (fun w => w < 2 ^ 128) (rsw_meta r) -> Forall (fun s => s < 2 ^ 48) (rsw_samples0 r) ->
  len (bv_words (rsw_bv r)) mod 8 = 0 -> Forall (fun w => w < 2 ^ 64) (bv_words (rsw_bv r)) ->
  (S (length (rsw_meta r)) <= fuel)%nat -> rsw_select0 r i = Val v ->
  g_rsw_select0 fuel (chunks 8 (bv_words (rsw_bv r))) (rsw_meta r)
    [rsw_samples0 r; rsw_samples1 r] (rsw_n_zeros r) i = Val v.
Proof.
  intros r i fuel v Hi HM HS H8 HW Hf E. rewrite g_rsw_select0_fuel; try assumption. rewrite E. discriminate.
Qed.

Theorem g_rsw_select1_unchecked_sim : forall r i fuel v, i < 2 ^ 64 ->
  Forall (fun w => w < 2 ^ 128) (rsw_meta r) -> Forall (fun s => s < 2 ^ 48) (rsw_samples1 r) ->
  len (bv_words (rsw_bv r)) mod 8 = 0 -> Forall (fun w => w < 2 ^ 64) (bv_words (rsw_bv r)) ->
  (S (length (rsw_meta r)) <= fuel)%nat -> rsw_select_unchecked true r i = Val v ->
  g_rsw_select1_unchecked fuel (chunks 8 (bv_words (rsw_bv r))) (rsw_meta r) [rsw_samples0 r; rsw_samples1 r] i = Val v.
Proof.
  intros r i fuel v Hi HM HS H8 HW Hf E. rewrite g_rsw_select1_unchecked_fuel; try assumption. rewrite E. discriminate.
Qed.

Theorem g_rsw_select0_unchecked_sim : forall r i fuel v, i < 2 ^ 64 ->
  Forall (fun w => w < 2 ^ 128) (rsw_meta r) -> Forall (fun s => s < 2 ^ 48) (rsw_samples0 r) ->
  len (bv_words (rsw_bv r)) mod 8 = 0 -> Forall (fun w => w < 2 ^ 64) (bv_words (rsw_bv r)) ->
  (S (length (rsw_meta r)) <= fuel)%nat -> rsw_select_unchecked false r i = Val v ->
  g_rsw_select0_unchecked fuel (chunks 8 (bv_words (rsw_bv r))) (rsw_meta r) [rsw_samples0 r; rsw_samples1 r] i = Val v.
Proof.
  intros r i fuel v Hi HM HS H8 HW Hf E. rewrite g_rsw_select0_unchecked_fuel; try assumption. rewrite E. discriminate.
Qed.

Theorem g_rsw_select1_subblock_sim : forall r i fuel v, i < 2 ^ 64 ->
  Forall (fun w => w < 2 ^ 128) (rsw_meta r) -> Forall (fun s => s < 2 ^ 48) (rsw_samples1 r) ->
  (S (length (rsw_meta r)) <= fuel)%nat -> rsw_select_subblock true r i = Val v ->
  g_rsw_select1_subblock fuel (rsw_meta r) [rsw_samples0 r; rsw_samples1 r] i = Val v.
Proof.
  intros r i fuel v Hi HM HS Hf E. rewrite g_rsw_select1_subblock_fuel; try assumption. rewrite E. discriminate.
Qed.

Theorem g_rsw_select0_subblock_sim : forall r i fuel v, i < 2 ^ 64 ->
  Forall (fun w => w < 2 ^ 128) (rsw_meta r) -> Forall (fun s => s < 2 ^ 48) (rsw_samples0 r) ->
  (S (length (rsw_meta r)) <= fuel)%nat -> rsw_select_subblock false r i = Val v ->
  g_rsw_select0_subblock fuel (rsw_meta r) [rsw_samples0 r; rsw_samples1 r] i = Val v.
Proof.
  intros r i fuel v Hi HM HS Hf E. rewrite g_rsw_select0_subblock_fuel; try assumption. rewrite E. discriminate.
Qed.

(* ================================================================== what rsw_new builds *)
Lemma Forall_nthN {A} (P : A -> Prop) : forall l, (forall i x, nthN l i = Some x -> P x) -> Forall P l.
Proof.
  induction l as [|y l IH]; intros H; [constructor|]. constructor.
  - apply (H 0). apply nthN_0.
  - apply IH. intros i x E. apply (H (i + 1)). rewrite nthN_succ. exact E.
Qed.

Lemma samples_ok_bound R BS HS lenF lastb total S :
  RSBinL.samples_ok R BS HS lenF lastb total S -> Forall (fun s => s <= lastb) S.
Proof.
  intros (Hlen & Hent & Hlast & _). apply Forall_nthN. intros t b E.
  pose proof (nthN_some_lt _ _ _ E) as Ht.
  destruct (N.le_gt_cases t (total / HS)) as [Hle|Hgt].
  - destruct (Hent t b Hle E) as (Hb & _). exact Hb.
  - assert (t = total / HS + 1) by lia. subst t. rewrite Hlast in E. injection E as <-. lia.
Qed.

(* size facts about the structure the constructor builds from a well-formed bit vector (< 2^43 bits) *)
Lemma rsw_new_sizes bv r : RSBinB.bv_wf bv -> rsw_new bv = Val r ->
  rsw_bv r = bv /\
  Forall (fun w => w < 2 ^ 128) (rsw_meta r) /\
  Forall (fun s => s < 2 ^ 48) (rsw_samples0 r) /\ Forall (fun s => s < 2 ^ 48) (rsw_samples1 r) /\
  len (bv_words bv) mod 8 = 0 /\ Forall (fun w => w < 2 ^ 64) (bv_words bv).
Proof.
  intros Hwf Hnew.
  destruct (RSBinW.rsw_new_ok WordsP.popcount_correct bv Hwf) as (r' & E & Hbv & (Hlen & Hnth & Hs1 & Hs0) & _).
  rewrite E in Hnew. apply Val_inj in Hnew. subst r'.
  pose proof (RSBinB.wf_len bv Hwf) as Hl. pose proof (RSBinB.wf_ok bv Hwf) as Hok.
  pose proof (RSBinB.wf_nbits bv Hwf) as Hn.
  set (ws := bv_words bv) in *. set (nl := RSBinB.nlines bv) in *.
  assert (H43 : 2 ^ 43 = 8796093022208) by reflexivity.
  assert (H48 : 2 ^ 48 = 281474976710656) by reflexivity.
  split; [exact Hbv|]. split; [|split; [|split; [|split; [lia|exact Hok]]]].
  - apply Forall_nthN. intros S x Ex. pose proof (nthN_some_lt _ _ _ Ex) as HS.
    rewrite Hnth in Ex by lia. injection Ex as <-.
    unfold RSBinW.encW.
    pose proof (RSBinL.enc_bound 4096 (RSBinB.R1 ws (4096 * S)) (RSBinW.cW ws S) 7 ltac:(lia)) as Hb.
    assert (Hb' : RSBinL.enc 4096 (RSBinB.R1 ws (4096 * S)) (RSBinW.cW ws S) 7
                  < (RSBinB.R1 ws (4096 * S) + 1) * 4096 ^ N.of_nat 7).
    { apply Hb. intros j _ Hj. apply RSBinW.cW_bound. lia. }
    pose proof (RSBinB.R1_le_len ws (4096 * S)) as HR.
    change (4096 ^ N.of_nat 7) with (2 ^ 84) in Hb'.
    assert (HT : RSBinB.R1 ws (4096 * S) + 1 <= 2 ^ 44).
    { assert (2 ^ 44 = 17592186044416) by reflexivity. lia. }
    apply N.lt_le_trans with (1 := Hb'). change (2 ^ 128) with (2 ^ 44 * 2 ^ 84).
    apply N.mul_le_mono_r. exact HT.
  - apply samples_ok_bound in Hs0. eapply Forall_impl; [|exact Hs0]. cbv beta. intros s Hs. lia.
  - apply samples_ok_bound in Hs1. eapply Forall_impl; [|exact Hs1]. cbv beta. intros s Hs. lia.
Qed.

(* ================================================================== end to end *)
(* for every list of booleans below 2^43 bits: the query functions REGENERATED from src/bitvector/rs_wide.rs, applied
   to the fields of the structure that the (hand-modelled) constructor builds, answer the list specification *)
Theorem rsw_gen_of_bools_correct : forall bs, len bs < 2 ^ 43 ->
  exists bv r, bv_from_bools bs = Val bv /\ rsw_new bv = Val r /\
    forall fuel, (S (length (rsw_meta r)) <= fuel)%nat ->
    (forall k, k < 2 ^ 64 ->
       g_rsw_select1 fuel (chunks 8 (bv_words bv)) (bv_nbits bv) (rsw_meta r) [rsw_samples0 r; rsw_samples1 r]
         (rsw_n_zeros r) k = Val (select1_spec bs k)) /\
    (forall k, k < 2 ^ 64 ->
       g_rsw_select0 fuel (chunks 8 (bv_words bv)) (rsw_meta r) [rsw_samples0 r; rsw_samples1 r]
         (rsw_n_zeros r) k = Val (select0_spec bs k)) /\
    g_rsw_n_ones (bv_nbits bv) (rsw_n_zeros r) = Val (countb bs) /\
    g_rsw_n_zeros (rsw_n_zeros r) = Val (len bs - countb bs) /\
    (forall k p, k < 2 ^ 64 -> select1_spec bs k = Some p ->
       g_rsw_select1_unchecked fuel (chunks 8 (bv_words bv)) (rsw_meta r) [rsw_samples0 r; rsw_samples1 r] k = Val p) /\
    (forall k p, k < 2 ^ 64 -> select0_spec bs k = Some p ->
       g_rsw_select0_unchecked fuel (chunks 8 (bv_words bv)) (rsw_meta r) [rsw_samples0 r; rsw_samples1 r] k = Val p).
Proof.
  intros bs Hl. assert (Hl63 : len bs < 2 ^ 63) by lia.
  destruct (BitVecP.bv_from_bools_correct bs Hl63) as (bv & E & Hinv & Habs).
  assert (H43 : bv_nbits bv < 2 ^ 43) by (rewrite <- (BitVecP.inv_len bv Hinv), Habs; exact Hl).
  pose proof (BinFinalP.bv_inv_wf_rs bv Hinv H43) as Hwf.
  destruct (RSBinP.rsw_correct WordsP.select_in_word_correct WordsP.popcount_correct bv Hwf)
    as (r & Er & _ & (_ & _ & _ & Hsel1 & Hsel0 & Hones & Hzeros) & _ & Hu1 & Hu0).
  rewrite Habs in *.
  destruct (rsw_new_sizes bv r Hwf Er) as (Hbv & HM & HS0 & HS1 & H8 & HW).
  exists bv, r. split; [exact E|]. split; [exact Er|]. intros fuel Hf.
  rewrite <- Hbv in H8, HW |- *.
  split; [|split; [|split; [|split; [|split]]]].
  - intros k Hk. apply g_rsw_select1_sim; try assumption. apply Hsel1. exact Hk.
  - intros k Hk. apply g_rsw_select0_sim; try assumption. apply Hsel0. exact Hk.
  - rewrite g_rsw_n_ones_ok. exact Hones.
  - rewrite g_rsw_n_zeros_ok. exact Hzeros.
  - intros k p Hk Hp. apply g_rsw_select1_unchecked_sim; try assumption. apply Hu1. exact Hp.
  - intros k p Hk Hp. apply g_rsw_select0_unchecked_sim; try assumption. apply Hu0. exact Hp.
Qed.

(* the same, for whatever bv / r the two constructors return (they are functions) *)
Corollary rsw_gen_of_bools_correct_all : forall bs bv r, len bs < 2 ^ 43 ->
  bv_from_bools bs = Val bv -> rsw_new bv = Val r ->
  forall fuel, (S (length (rsw_meta r)) <= fuel)%nat ->
    (forall k, k < 2 ^ 64 ->
       g_rsw_select1 fuel (chunks 8 (bv_words bv)) (bv_nbits bv) (rsw_meta r) [rsw_samples0 r; rsw_samples1 r]
         (rsw_n_zeros r) k = Val (select1_spec bs k)) /\
    (forall k, k < 2 ^ 64 ->
       g_rsw_select0 fuel (chunks 8 (bv_words bv)) (rsw_meta r) [rsw_samples0 r; rsw_samples1 r]
         (rsw_n_zeros r) k = Val (select0_spec bs k)) /\
    g_rsw_n_ones (bv_nbits bv) (rsw_n_zeros r) = Val (countb bs) /\
    g_rsw_n_zeros (rsw_n_zeros r) = Val (len bs - countb bs).
Proof.
  intros bs bv r Hl Ebv Er fuel Hf.
  destruct (rsw_gen_of_bools_correct bs Hl) as (bv' & r' & Ebv' & Er' & H).
  rewrite Ebv in Ebv'. apply Val_inj in Ebv'. subst bv'.
  rewrite Er in Er'. apply Val_inj in Er'. subst r'.
  destruct (H fuel Hf) as (H1 & H0 & Ho & Hz & _). repeat split; assumption.
Qed.

(* Nothing about the constructor is missing: the size hypotheses of the theorems above are discharged for every
   structure rsw_new builds (rsw_new_sizes) from RSBinW.rsw_new_ok / rsw_dir_ok (metadata = encW words, samples_ok)
   and RSBinB.bv_wf (whole lines, words below 2^64, fewer than 2^43 bits).
   No mismatch between the generated functions and the hand model was found:
     - DataLine::select{1,0}_unchecked: plain equality on 8-word lines of u64 words (the additions `rank += kp`,
       `off += 64`, `off += select_in_word(..)` cannot overflow: rank, off <= 512 and select_in_word < 2^32);
     - select{1,0}_subblock / select{1,0}_unchecked / select{1,0}: equality at the hand model's fuel, and at every
       larger fuel unless the hand model itself answers Fault OutOfFuel; the extra machine checks of the generated
       code (hint + 1, 1 + sample, hint_start + 1, position * 8, position + j, 4096 * hint_start, 512 * (position + j),
       block * 512 + off) cannot fail when the select samples are below 2^48. *)

Print Assumptions g_bline_select1_unchecked_ok.
Print Assumptions g_bline_select0_unchecked_ok.
Print Assumptions g_rsw_n_zeros_ok.
Print Assumptions g_rsw_n_ones_ok.
Print Assumptions g_rsw_select1_subblock_ok.
Print Assumptions g_rsw_select0_subblock_ok.
Print Assumptions g_rsw_select1_subblock_fuel.
Print Assumptions g_rsw_select0_subblock_fuel.
Print Assumptions g_rsw_select1_unchecked_ok.
Print Assumptions g_rsw_select0_unchecked_ok.
Print Assumptions g_rsw_select1_unchecked_fuel.
Print Assumptions g_rsw_select0_unchecked_fuel.
Print Assumptions g_rsw_select1_ok.
Print Assumptions g_rsw_select0_ok.
Print Assumptions g_rsw_select1_fuel.
Print Assumptions g_rsw_select0_fuel.
Print Assumptions g_rsw_select1_sim.
Print Assumptions g_rsw_select0_sim.
Print Assumptions g_rsw_select1_unchecked_sim.
Print Assumptions g_rsw_select0_unchecked_sim.
Print Assumptions g_rsw_select1_subblock_sim.
Print Assumptions g_rsw_select0_subblock_sim.
Print Assumptions rsw_new_sizes.
Print Assumptions rsw_gen_of_bools_correct.
Print Assumptions rsw_gen_of_bools_correct_all.

(* ================================================================== ROUND 2: rank *)
(* ================================================================== DataLine::rank1_unchecked / rank1 *)
(* `left: i32` of the source is a Z in the generated code; the hand model keeps an N and a sign flag.
   g_bline_rank1 = bline_rank1 for EVERY i (both test i > 512 first); g_bline_rank1_unchecked = bline_rank1_loop
   for i < 2^31 (`i as i32` does not wrap); beyond that they differ, see g_bline_rank1_unchecked_wraps below. *)
Lemma zwrap32_small i : i < 2 ^ 31 -> zwrap 32 (Z.of_N i) = Z.of_N i.
Proof.
  intros H. assert (H31 : 2 ^ 31 = 2147483648) by reflexivity.
  unfold zwrap. cbv zeta. change (Z.of_N 32) with 32%Z.
  change (2 ^ 32)%Z with 4294967296%Z. change (2 ^ (32 - 1))%Z with 2147483648%Z.
  rewrite Z.mod_small by lia.
  destruct (Z.ltb_spec (Z.of_N i) 2147483648); [reflexivity|lia].
Qed.

Lemma zisub32_ok a b : (- 2147483648 <= a - b < 2147483648)%Z -> zisub 32 a b = Val (a - b)%Z.
Proof.
  intros H. unfold zisub. destruct (zin 32 (a - b)) eqn:E; [reflexivity|]. exfalso.
  unfold zin in E. change (Z.of_N 32) with 32%Z in E. change (2 ^ (32 - 1))%Z with 2147483648%Z in E. lia.
Qed.

Lemma ziadd32_ok a b : (- 2147483648 <= a + b < 2147483648)%Z -> ziadd 32 a b = Val (a + b)%Z.
Proof.
  intros H. unfold ziadd. destruct (zin 32 (a + b)) eqn:E; [reflexivity|]. exfalso.
  unfold zin in E. change (Z.of_N 32) with 32%Z in E. change (2 ^ (32 - 1))%Z with 2147483648%Z in E. lia.
Qed.

Lemma popcount_land_le64 x m : x < 2 ^ 64 -> popcount (N.land x m) <= 64.
Proof. intros H. apply popcount_le64. rewrite N.land_comm. now apply land_lt_r. Qed.

Lemma bline_rank1_loop_le : forall l left, Forall (fun w => w < 2 ^ 64) l ->
  bline_rank1_loop l left false <= 64 * len l.
Proof.
  induction l as [|x l IH]; intros left Hok; cbn [bline_rank1_loop]; [unfold len; cbn [length]; lia|].
  inversion Hok as [|? ? Hx Hok']; subst. rewrite len_cons. cbv zeta.
  pose proof (popcount_land_le64 x (if 63 <? left then M64 - 1 else N.shiftl 1 left - 1) Hx).
  destruct (left <? 64); [lia|]. specialize (IH (left - 64) Hok'). lia.
Qed.

Section RankLoop.
Variable words : list N.
Variable body : N -> N * Z -> outcome (step (N * Z) N).
Hypothesis body_neg : forall w rank z, (z < 0)%Z -> body w (rank, z) = Val (Brk (rank, z)).
Hypothesis body_pos : forall w x rank left, nthN words w = Some x -> x < 2 ^ 64 -> left < 2 ^ 31 ->
  rank + 64 < 2 ^ 64 ->
  body w (rank, Z.of_N left) =
    Val (Next (rank + popcount (N.land x (if 63 <? left then M64 - 1 else N.shiftl 1 left - 1)),
               (Z.of_N left - 64)%Z)).

Lemma rank_loop_neg : forall n w rank z, (z < 0)%Z -> for_loop body w n (rank, z) = Val (Done (rank, z)).
Proof.
  intros n w rank z Hz. destruct n as [|n]; [reflexivity|]. cbn [for_loop]. rewrite body_neg by assumption. reflexivity.
Qed.

Lemma rank_loop_ok : forall (l : list N) w rank left,
  (forall j, j < len l -> nthN words (w + j) = nthN l j) -> Forall (fun w => w < 2 ^ 64) l ->
  rank + 64 * len l < 2 ^ 64 -> left < 2 ^ 31 ->
  (let! r := for_loop body w (length l) (rank, Z.of_N left) in
   match r with Retd v => Val v | Done (rank, left_) => Val rank end)
  = Val (rank + bline_rank1_loop l left false).
Proof.
  induction l as [|x l IH]; intros w rank left Hn Hok Hrank Hleft.
  - cbn [length for_loop bind bline_rank1_loop]. now rewrite N.add_0_r.
  - inversion Hok as [|? ? Hx Hok']; subst. rewrite len_cons in *.
    assert (Ex : nthN words w = Some x).
    { specialize (Hn 0 ltac:(lia)). rewrite N.add_0_r, nthN_0 in Hn. exact Hn. }
    cbn [length for_loop bline_rank1_loop]. cbv zeta.
    rewrite (body_pos w x rank left Ex Hx Hleft) by lia. cbn [bind].
    set (pc := popcount (N.land x (if 63 <? left then M64 - 1 else N.shiftl 1 left - 1))).
    assert (Hpc : pc <= 64) by (apply popcount_land_le64; exact Hx).
    destruct (N.ltb_spec left 64) as [Hl|Hl].
    + rewrite rank_loop_neg by lia. cbn [bind]. f_equal. lia.
    + replace (Z.of_N left - 64)%Z with (Z.of_N (left - 64)) by lia.
      rewrite IH; [f_equal; lia| |assumption|lia|lia].
      intros j Hj. specialize (Hn (j + 1) ltac:(lia)). rewrite nthN_succ in Hn. rewrite <- Hn. f_equal. lia.
Qed.
End RankLoop.

Theorem g_bline_rank1_unchecked_ok : forall l i, length l = 8%nat -> Forall (fun w => w < 2 ^ 64) l -> i < 2 ^ 31 ->
  g_bline_rank1_unchecked l i = Val (bline_rank1_loop l i false).
Proof.
  intros l i Hlen Hok Hi. unfold g_bline_rank1_unchecked. cbv zeta.
  change (N.to_nat (8 - 0)) with 8%nat. rewrite <- Hlen. rewrite zwrap32_small by assumption.
  rewrite (rank_loop_ok l); [now rewrite N.add_0_l| | |intros; now rewrite N.add_0_l|assumption|unfold len; lia|assumption].
  - intros w rank z Hz. cbv beta iota. destruct (Z.ltb_spec z 0); [reflexivity|lia].
  - intros w x rank left Ex Hx Hleft Hrank. cbv beta iota.
    assert (H31 : 2 ^ 31 = 2147483648) by reflexivity.
    destruct (Z.ltb_spec (Z.of_N left) 0); [lia|].
    unfold uidx. rewrite Ex. cbn [bind].
    pose proof (popcount_land_le64 x (if 63 <? left then M64 - 1 else N.shiftl 1 left - 1) Hx) as Hp.
    destruct (N.ltb_spec 63 left) as [Hl|Hl]; destruct (Z.ltb_spec 63 (Z.of_N left)); try lia.
    + cbn [bind]. change 18446744073709551615 with (M64 - 1).
      rewrite oadd_ok by lia. cbn [bind]. rewrite zisub32_ok by lia. reflexivity.
    + unfold zshamt. destruct (Z.ltb_spec (Z.of_N left) 0); [lia|]. cbn [bind]. rewrite N2Z.id.
      unfold oshl. destruct (N.ltb_spec left 64); [|lia]. cbn [bind].
      rewrite N.shiftl_1_l in *.
      assert (Hpow : 2 ^ left < 2 ^ 64) by (apply N.pow_lt_mono_r; lia).
      rewrite N.mod_small by exact Hpow.
      assert (1 <= 2 ^ left) by (pose proof (N.pow_nonzero 2 left ltac:(lia)); lia).
      unfold osub. destruct (N.leb_spec 1 (2 ^ left)); [|lia]. cbn [bind].
      rewrite oadd_ok by lia. cbn [bind]. rewrite zisub32_ok by lia. reflexivity.
Qed.

(* no range hypothesis on i: both sides answer None above 512 before anything else *)
Theorem g_bline_rank1_ok : forall l i, length l = 8%nat -> Forall (fun w => w < 2 ^ 64) l ->
  g_bline_rank1 l i = Val (bline_rank1 l i).
Proof.
  intros l i Hlen Hok. unfold g_bline_rank1, bline_rank1.
  destruct (N.ltb_spec 512 i) as [Hi|Hi]; [reflexivity|].
  assert (H31 : 2 ^ 31 = 2147483648) by reflexivity.
  rewrite g_bline_rank1_unchecked_ok by (assumption || lia). reflexivity.
Qed.

(* out of the contract of the unsafe function (i <= 512): at i = 2^31 `i as i32` is negative, the generated code
   (= the Rust code) counts nothing, the hand model counts the whole line *)
Example g_bline_rank1_unchecked_wraps :
  g_bline_rank1_unchecked [1;0;0;0;0;0;0;0] (2 ^ 31) = Val 0 /\ bline_rank1_loop [1;0;0;0;0;0;0;0] (2 ^ 31) false = 1.
Proof. split; vm_compute; reflexivity. Qed.

(* ================================================================== RSWide::rank1_unchecked / rank1 *)
Lemma rsw_sub_block_rank_lt r sb v : Forall (fun w => w < 2 ^ 128) (rsw_meta r) ->
  rsw_sub_block_rank r sb = Val v -> v < 2 ^ 44 + 4096.
Proof.
  intros HF. unfold rsw_sub_block_rank. cbv zeta.
  destruct (rsw_superblock_rank r (sb / 8)) as [sr|] eqn:E1; cbn [bind]; [|discriminate].
  apply (rsw_superblock_rank_lt _ _ _ HF) in E1.
  destruct (sb mod 8 =? 0).
  - intros E. apply Val_inj in E. subst. lia.
  - destruct (idx (rsw_meta r) (sb / 8)) as [m|]; cbn [bind]; [|discriminate].
    intros E. apply Val_inj in E. subst.
    pose proof (land_ones_lt (N.shiftr m ((7 - sb mod 8) * RSW_BLK_BITS_RD)) 12) as H12.
    change (N.ones 12) with RSW_BLK_MASK in H12. change (2 ^ 12) with 4096 in H12. lia.
Qed.

Theorem g_rsw_rank1_unchecked_ok : forall r i, i < 2 ^ 64 ->
  Forall (fun w => w < 2 ^ 128) (rsw_meta r) ->
  len (bv_words (rsw_bv r)) mod 8 = 0 -> Forall (fun w => w < 2 ^ 64) (bv_words (rsw_bv r)) ->
  g_rsw_rank1_unchecked (chunks 8 (bv_words (rsw_bv r))) (rsw_meta r) i = rsw_rank1_unchecked r i.
Proof.
  intros r i Hi HM H8 HW. unfold g_rsw_rank1_unchecked, rsw_rank1_unchecked. cbv zeta.
  destruct (N.eqb_spec i 0) as [E0|E0]; [reflexivity|].
  unfold osub at 1. destruct (N.leb_spec 1 i); [|lia]. cbn [bind].
  assert (Hsb : N.shiftr (i - 1) 9 < 2 ^ 64) by (pose proof (shiftr_le (i - 1) 9); lia).
  set (i' := i - 1) in *. set (sb := N.shiftr i' 9) in *.
  rewrite g_rsw_sub_block_rank_ok by assumption.
  destruct (rsw_sub_block_rank r sb) as [res|] eqn:Er; cbn [bind]; [|reflexivity].
  apply (rsw_sub_block_rank_lt _ _ _ HM) in Er.
  assert (Hland : N.land i' 511 < 512) by (apply (land_ones_lt i' 9)).
  assert (H31 : 2 ^ 31 = 2147483648) by reflexivity.
  rewrite zwrap32_small by lia. rewrite ziadd32_ok by lia. cbn [bind].
  destruct (Z.eqb_spec (Z.of_N (N.land i' 511) + 1) 0) as [Ez|Ez]; [lia|].
  rewrite idx_chunks.
  destruct (N.ltb_spec (sb * 8) (len (bv_words (rsw_bv r)))) as [Hb|Hb]; cbn [bind]; [|reflexivity].
  replace (Z.to_N ((Z.of_N (N.land i' 511) + 1) mod 2 ^ 64)) with (N.land i' 511 + 1).
  2:{ assert (E64 : (2 ^ 64 = 18446744073709551616)%Z) by reflexivity. rewrite E64.
      rewrite Z.mod_small by lia. lia. }
  rewrite g_bline_rank1_ok by (apply line_of_length || apply line_of_Forall; assumption). cbn [bind].
  unfold bline_rank1. destruct (N.ltb_spec 512 (N.land i' 511 + 1)); [lia|]. cbn [ounwrap bind].
  pose proof (bline_rank1_loop_le (line_of (bv_words (rsw_bv r)) sb) (N.land i' 511 + 1)
                (line_of_Forall _ _ _ HW)) as Hk.
  assert (Hl : len (line_of (bv_words (rsw_bv r)) sb) = 8) by (unfold len; rewrite line_of_length by assumption; reflexivity).
  rewrite Hl in Hk.
  assert (H44 : 2 ^ 44 = 17592186044416) by reflexivity.
  rewrite oadd_ok by lia. reflexivity.
Qed.

Theorem g_rsw_rank1_ok : forall r i, i < 2 ^ 64 ->
  Forall (fun w => w < 2 ^ 128) (rsw_meta r) ->
  len (bv_words (rsw_bv r)) mod 8 = 0 -> Forall (fun w => w < 2 ^ 64) (bv_words (rsw_bv r)) ->
  g_rsw_rank1 (chunks 8 (bv_words (rsw_bv r))) (bv_nbits (rsw_bv r)) (rsw_meta r) i = rsw_rank1 r i.
Proof.
  intros r i Hi HM H8 HW. unfold g_rsw_rank1, rsw_rank1, g_bv_is_empty, g_bv_len, bv_is_empty, bv_len. cbn [bind].
  destruct (bv_nbits (rsw_bv r) =? 0); cbn [bind orb]; [reflexivity|].
  destruct (bv_nbits (rsw_bv r) <? i); [reflexivity|].
  rewrite g_rsw_rank1_unchecked_ok by assumption. reflexivity.
Qed.

(* ================================================================== end to end: rank *)
Theorem rsw_gen_of_bools_rank_correct : forall bs, len bs < 2 ^ 43 ->
  exists bv r, bv_from_bools bs = Val bv /\ rsw_new bv = Val r /\
    (forall i, i < 2 ^ 64 ->
       g_rsw_rank1 (chunks 8 (bv_words bv)) (bv_nbits bv) (rsw_meta r) i
       = Val (if negb (len bs =? 0) && (i <=? len bs) then Some (rank1_spec bs i) else None)) /\
    (forall i, 0 < len bs -> i <= len bs ->
       g_rsw_rank1_unchecked (chunks 8 (bv_words bv)) (rsw_meta r) i = Val (rank1_spec bs i)).
Proof.
  intros bs Hl. assert (Hl63 : len bs < 2 ^ 63) by lia.
  destruct (BitVecP.bv_from_bools_correct bs Hl63) as (bv & E & Hinv & Habs).
  assert (H43 : bv_nbits bv < 2 ^ 43) by (rewrite <- (BitVecP.inv_len bv Hinv), Habs; exact Hl).
  pose proof (BinFinalP.bv_inv_wf_rs bv Hinv H43) as Hwf.
  destruct (RSBinP.rsw_correct WordsP.select_in_word_correct WordsP.popcount_correct bv Hwf)
    as (r & Er & _ & (_ & Hrank1 & _) & Hru & _).
  rewrite Habs in *.
  destruct (rsw_new_sizes bv r Hwf Er) as (Hbv & HM & _ & _ & H8 & HW).
  exists bv, r. split; [exact E|]. split; [exact Er|].
  rewrite <- Hbv in H8, HW |- *.
  split.
  - intros i Hi. rewrite g_rsw_rank1_ok by assumption. apply Hrank1.
  - intros i Hpos Hi. rewrite g_rsw_rank1_unchecked_ok by (assumption || lia). apply (Hru i Hpos Hi).
Qed.

Corollary rsw_gen_of_bools_rank_correct_all : forall bs bv r, len bs < 2 ^ 43 ->
  bv_from_bools bs = Val bv -> rsw_new bv = Val r ->
    (forall i, i < 2 ^ 64 ->
       g_rsw_rank1 (chunks 8 (bv_words bv)) (bv_nbits bv) (rsw_meta r) i
       = Val (if negb (len bs =? 0) && (i <=? len bs) then Some (rank1_spec bs i) else None)) /\
    (forall i, 0 < len bs -> i <= len bs ->
       g_rsw_rank1_unchecked (chunks 8 (bv_words bv)) (rsw_meta r) i = Val (rank1_spec bs i)).
Proof.
  intros bs bv r Hl Ebv Er.
  destruct (rsw_gen_of_bools_rank_correct bs Hl) as (bv' & r' & Ebv' & Er' & H).
  rewrite Ebv in Ebv'. apply Val_inj in Ebv'. subst bv'.
  rewrite Er in Er'. apply Val_inj in Er'. subst r'. exact H.
Qed.

Print Assumptions g_bline_rank1_unchecked_ok.
Print Assumptions g_bline_rank1_ok.
Print Assumptions g_bline_rank1_unchecked_wraps.
Print Assumptions g_rsw_rank1_unchecked_ok.
Print Assumptions g_rsw_rank1_ok.
Print Assumptions rsw_gen_of_bools_rank_correct.
Print Assumptions rsw_gen_of_bools_rank_correct_all.
