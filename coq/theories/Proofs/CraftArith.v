(* Arithmetic bridge for craft_wm_codes: N.lor on disjoint fragments is +, rev_frags reverses the
   base-2^frag digits, and the HuffWM.rev_val of a table entry is the residue of the scratch entry. *)
From Coq Require Import ZArith Lia ZifyBool ZifyN ZifyNat Sorted.
From QwtModel Require Import ListX ListXP Huff.
Ltac Zify.zify_post_hook ::= Z.div_mod_to_equations.
Arguments N.add : simpl never.
Arguments N.sub : simpl never.
Arguments N.mul : simpl never.
Arguments N.eqb : simpl never.
Arguments N.ltb : simpl never.
Arguments N.leb : simpl never.
Arguments N.pred : simpl never.
Arguments N.of_nat : simpl never.
Arguments N.land : simpl never.
Arguments N.lor : simpl never.
Arguments N.shiftr : simpl never.
Arguments N.shiftl : simpl never.
Arguments N.div : simpl never.
Arguments N.modulo : simpl never.
Arguments N.pow : simpl never.

(* ---------- lor on disjoint bits ---------- *)
Lemma pow2_pos n : 0 < 2 ^ n.
Proof. assert (H : 2 ^ n <> 0) by (apply N.pow_nonzero; lia). lia. Qed.

Lemma land_shiftl_0 x k n : x < 2 ^ n -> N.land x (N.shiftl k n) = 0.
Proof.
  intros Hx. apply N.bits_inj. intros i. rewrite N.land_spec, N.bits_0.
  destruct (N.ltb_spec i n) as [Hi|Hi].
  - rewrite N.shiftl_spec_low by exact Hi. apply andb_false_r.
  - rewrite <- (N.mod_small x (2 ^ n) Hx), N.mod_pow2_bits_high by exact Hi. reflexivity.
Qed.

Lemma lor_shiftl_add x k n : x < 2 ^ n -> N.lor x (N.shiftl k n) = x + k * 2 ^ n.
Proof.
  intros Hx. pose proof (land_shiftl_0 x k n Hx) as H0.
  rewrite <- N.lxor_lor by exact H0. rewrite <- N.add_nocarry_lxor by exact H0.
  now rewrite N.shiftl_mul_pow2.
Qed.

Lemma shiftl_lor_add hi r n : r < 2 ^ n -> N.lor (N.shiftl hi n) r = hi * 2 ^ n + r.
Proof. intros H. rewrite N.lor_comm, lor_shiftl_add by exact H. lia. Qed.

Lemma land_mask frag x : N.land x (2 ^ frag - 1) = x mod 2 ^ frag.
Proof. rewrite N.sub_1_r, <- N.ones_equiv. apply N.land_ones. Qed.

Lemma pow2_mul frag k : 2 ^ (frag * k) = (2 ^ frag) ^ k.
Proof. apply N.pow_mul_r. Qed.

Lemma mod_add_mul x k P M : M <> 0 -> (x + k * (M * P)) mod M = x mod M.
Proof.
  intros HM. replace (x + k * (M * P)) with (x + (k * P) * M) by lia. apply N.mod_add. exact HM.
Qed.

(* ---------- digit reversal ---------- *)
(* the k base-a digits of x, least significant first, written most significant first *)
Fixpoint revd (a x : N) (k : nat) : N :=
  match k with O => 0 | S k' => (x mod a) * a ^ N.of_nat k' + revd a (x / a) k' end.

Lemma revd_lt a : 0 < a -> forall k x, revd a x k < a ^ N.of_nat k.
Proof.
  intros Ha. induction k as [|k IH]; intros x; cbn [revd].
  - change (N.of_nat 0) with 0. rewrite N.pow_0_r. lia.
  - rewrite Nnat.Nat2N.inj_succ, N.pow_succ_r'. specialize (IH (x / a)).
    assert (Hm : x mod a < a) by (apply N.mod_lt; lia).
    assert (H : (x mod a + 1) * a ^ N.of_nat k <= a * a ^ N.of_nat k) by (apply N.mul_le_mono_r; lia).
    lia.
Qed.

Lemma revd_digit a : 1 < a -> forall k x s, (s < k)%nat ->
  (revd a x k / a ^ N.of_nat (k - 1 - s)) mod a = (x / a ^ N.of_nat s) mod a.
Proof.
  intros Ha. induction k as [|k IH]; intros x s Hs; [lia|]. cbn [revd].
  assert (Hp : forall n, a ^ n <> 0) by (intros n; apply N.pow_nonzero; lia).
  destruct s as [|s].
  - replace (S k - 1 - 0)%nat with k by lia. change (N.of_nat 0) with 0. rewrite N.pow_0_r, N.div_1_r.
    rewrite N.div_add_l by apply Hp. rewrite (N.div_small (revd a (x / a) k)) by (apply revd_lt; lia).
    rewrite N.add_0_r. apply N.mod_mod. lia.
  - replace (S k - 1 - S s)%nat with (k - 1 - s)%nat by lia.
    assert (E : a ^ N.of_nat k = a ^ N.of_nat s * a * a ^ N.of_nat (k - 1 - s)).
    { replace (N.of_nat k) with (N.of_nat s + 1 + N.of_nat (k - 1 - s)) by lia.
      rewrite !N.pow_add_r, N.pow_1_r. reflexivity. }
    rewrite E. rewrite N.mul_assoc, N.div_add_l by apply Hp.
    replace (x mod a * (a ^ N.of_nat s * a) + revd a (x / a) k / a ^ N.of_nat (k - 1 - s))
      with (revd a (x / a) k / a ^ N.of_nat (k - 1 - s) + (x mod a * a ^ N.of_nat s) * a) by lia.
    rewrite N.mod_add by lia. rewrite IH by lia.
    rewrite N.div_div by (try apply Hp; lia).
    rewrite Nnat.Nat2N.inj_succ, N.pow_succ_r'. reflexivity.
Qed.

(* rev_frags computes revd *)
Lemma rev_frags_revd frag x l : 0 < frag -> forall k t fuel,
  l = t + frag * N.of_nat k -> (k < fuel)%nat ->
  rev_frags frag x l t fuel = revd (2 ^ frag) (x / 2 ^ t) k.
Proof.
  intros Hf. induction k as [|k IH]; intros t fuel Hl Hk; (destruct fuel as [|fuel]; [lia|]); cbn [rev_frags revd].
  - destruct (N.ltb_spec t l); [lia|reflexivity].
  - destruct (N.ltb_spec t l); [|lia].
    rewrite (IH (t + frag) fuel) by lia.
    replace (l - t - frag) with (frag * N.of_nat k) by lia.
    assert (Hp : forall n, 2 ^ n <> 0) by (intros n; apply N.pow_nonzero; lia).
    rewrite N.pow_add_r, <- N.div_div by apply Hp.
    rewrite shiftl_lor_add.
    + rewrite land_mask, N.shiftr_div_pow2, pow2_mul. reflexivity.
    + rewrite pow2_mul. apply revd_lt. apply pow2_pos.
Qed.

Lemma rev_frags_spec frag x l : 0 < frag -> l mod frag = 0 -> l <= 32 ->
  rev_frags frag x l 0 40 = revd (2 ^ frag) x (N.to_nat (l / frag)).
Proof.
  intros Hf Hm Hl.
  assert (Hd : l / frag <= 32).
  { apply N.div_le_upper_bound; [lia|]. assert (1 * 32 <= frag * 32) by (apply N.mul_le_mono_r; lia). lia. }
  rewrite (rev_frags_revd frag x l Hf (N.to_nat (l / frag)) 0 40).
  - change (2 ^ 0) with 1. now rewrite N.div_1_r.
  - rewrite Nnat.N2Nat.id. pose proof (N.div_mod l frag ltac:(lia)). lia.
  - lia.
Qed.

(* residues: x mod a^(n+1) from x mod a^n and digit n *)
Lemma mod_pow_succ a x n : 0 < a ->
  x mod a ^ N.of_nat (S n) = x mod a ^ N.of_nat n + (x / a ^ N.of_nat n) mod a * a ^ N.of_nat n.
Proof.
  intros Ha. rewrite Nnat.Nat2N.inj_succ, N.pow_succ_r', (N.mul_comm a).
  rewrite N.mod_mul_r; [lia| apply N.pow_nonzero; lia | lia].
Qed.

(* ---------- strictly decreasing bounded lists ---------- *)
Definition dec_lt (B : N) (L : list N) : Prop :=
  StronglySorted (fun x y => y < x) L /\ Forall (fun x => x < B) L.

Lemma dec_lt_nil B : dec_lt B [].
Proof. split; constructor. Qed.

Lemma dec_lt_block P k act R : dec_lt P act -> dec_lt (k * P) R ->
  dec_lt ((k + 1) * P) (map (fun x => x + k * P) act ++ R).
Proof.
  intros [Hs Hb] [HsR HbR]. rewrite Forall_forall in Hb, HbR. split.
  - induction act as [|x act IH]; cbn [map app]; [exact HsR|].
    inversion Hs as [|? ? Hs' Hx]; subst. constructor.
    + apply IH; [exact Hs'|]. intros y Hy. apply Hb. now right.
    + rewrite Forall_forall in Hx. apply Forall_forall. intros y Hy. apply in_app_or in Hy as [Hy|Hy].
      * apply in_map_iff in Hy as (z & <- & Hz). specialize (Hx z Hz). lia.
      * specialize (HbR y Hy). lia.
  - apply Forall_forall. intros y Hy. apply in_app_or in Hy as [Hy|Hy].
    + apply in_map_iff in Hy as (z & <- & Hz). specialize (Hb z Hz). lia.
    + specialize (HbR y Hy). lia.
Qed.

Lemma Forall_mod_block (M P k e : N) act R : M <> 0 ->
  Forall (fun v => v mod M < e) act -> Forall (fun v => v mod M < e) R ->
  Forall (fun v => v mod M < e) (map (fun x => x + k * (M * P)) act ++ R).
Proof.
  intros HM Ha HR. apply Forall_app. split; [|exact HR].
  apply Forall_forall. intros y Hy. apply in_map_iff in Hy as (z & <- & Hz).
  rewrite mod_add_mul by exact HM. rewrite Forall_forall in Ha. exact (Ha z Hz).
Qed.

(* ---------- small list facts ---------- *)
Lemma skipnN_app_exact' {A} (l1 l2 : list A) : skipnN (len l1) (l1 ++ l2) = l2.
Proof.
  rewrite skipnN_skipn. unfold len. rewrite Nnat.Nat2N.id.
  rewrite skipn_app, Nat.sub_diag, skipn_all. reflexivity.
Qed.
Lemma skipnN_nth' {A} (l : list A) : forall i x, nthN l i = Some x -> skipnN i l = x :: skipnN (i + 1) l.
Proof.
  induction l as [|y l IH]; intros i x H; cbn [nthN] in H; [discriminate|].
  cbn [skipnN]. destruct (N.eqb_spec i 0) as [->|Hn].
  - injection H as ->. destruct (N.eqb_spec (0 + 1) 0); [lia|].
    replace (N.pred (0 + 1)) with 0 by lia. now destruct l.
  - destruct (N.eqb_spec (i + 1) 0); [lia|]. replace (N.pred (i + 1)) with (N.pred i + 1) by lia.
    apply IH. exact H.
Qed.
Lemma len_firstnN_le' {A} (l : list A) a : a <= len l -> len (firstnN a l) = a.
Proof. intros H. rewrite firstnN_len. lia. Qed.

Lemma SS_pair {B} (R : B -> B -> Prop) l x y : StronglySorted R l -> In x l -> In y l ->
  x = y \/ R x y \/ R y x.
Proof.
  induction 1 as [|z l Hs IH Hz]; intros Hx Hy; [contradiction|]. rewrite Forall_forall in Hz.
  destruct Hx as [->|Hx], Hy as [->|Hy]; auto.
Qed.
