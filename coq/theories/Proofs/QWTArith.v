(* C01 helper: arithmetic of the quad wavelet tree (Model/QWT.v): two_bits, msb / number of
   levels, base-4 digits, and the stable 4-way partition. *)
From Coq Require Import ZArith Lia ZifyBool ZifyN ZifyNat.
From QwtModel Require Import ListX Seq Consts QVec RSQ QWT ListXP ConstsOk QVecP RSQList RSQWord.
From QwtModel Require Import WaveletMatrix.
Ltac Zify.zify_post_hook ::= Z.div_mod_to_equations.
Arguments N.add : simpl never.
Arguments N.sub : simpl never.
Arguments N.mul : simpl never.
Arguments N.eqb : simpl never.
Arguments N.ltb : simpl never.
Arguments N.leb : simpl never.
Arguments N.pred : simpl never.
Arguments N.of_nat : simpl never.
Arguments N.land : simpl never.
Arguments N.lor : simpl never.
Arguments N.shiftr : simpl never.
Arguments N.shiftl : simpl never.
Arguments N.div : simpl never.
Arguments N.modulo : simpl never.
Arguments N.pow : simpl never.
Arguments N.sqrt : simpl never.
Arguments N.log2 : simpl never.
Arguments N.max : simpl never.

(* number of levels the constructor picks: ceil(bitlen(max)/2), at least 1
   (the same as [qlevels] of QWTP.v) *)
Definition qlevels (seq : list N) : N := (msb (maxN seq) + 1 + 1) / 2.

(* digit of x at level l in a tree of L levels *)
Definition qdig (L : nat) (l : nat) (x : N) : N := (x / 4 ^ N.of_nat (L - 1 - l)) mod 4.

Lemma qdig_lt L : forall l x, qdig L l x < N.of_nat 4.
Proof. intros l x. unfold qdig. change (N.of_nat 4) with 4. apply N.mod_lt. lia. Qed.

Lemma qdig_le3 L l x : qdig L l x <= 3.
Proof. pose proof (qdig_lt L l x) as H. change (N.of_nat 4) with 4 in H. lia. Qed.

(* ---------- two_bits ---------- *)

Lemma mod64_mod4 y : (y mod 2 ^ 64) mod 4 = y mod 4.
Proof. change (2 ^ 64) with 18446744073709551616. lia. Qed.

Lemma two_bits_val w x sh : sh < w -> two_bits w x sh = Val ((x / 2 ^ sh) mod 4).
Proof.
  intros H. unfold two_bits, oshr. replace (sh <? w) with true by lia. cbn [bind].
  rewrite land3, N.shiftr_div_pow2, mod64_mod4. reflexivity.
Qed.

Lemma pow2_double m : 2 ^ (2 * m) = 4 ^ m.
Proof. rewrite N.pow_mul_r. reflexivity. Qed.

Lemma two_bits_qdig w L l x : 2 * N.of_nat (L - 1 - l) < w ->
  two_bits w x (2 * N.of_nat (L - 1 - l)) = Val (qdig L l x).
Proof. intros H. rewrite two_bits_val by exact H. rewrite pow2_double. reflexivity. Qed.

(* ---------- mapo ---------- *)

Lemma mapo_val {A B} (f : A -> outcome B) (g : A -> B) l :
  (forall x, In x l -> f x = Val (g x)) -> mapo f l = Val (map g l).
Proof.
  induction l as [|x l IH]; intros H; cbn [mapo map]; [reflexivity|].
  rewrite (H x (or_introl eq_refl)). cbn [bind]. rewrite IH; [reflexivity|].
  intros y Hy. apply H. now right.
Qed.

(* ---------- the stable partition ---------- *)

Lemma pick_filter (f : N -> N) d seq :
  map snd (filter (fun p => fst p =? d) (combine (map f seq) seq)) = filter (fun x => f x =? d) seq.
Proof.
  induction seq as [|x seq IH]; cbn [map combine filter fst snd]; [reflexivity|].
  destruct (f x =? d); cbn [map snd]; now rewrite IH.
Qed.

Lemma stable_partition_of_4_val w seq shift : shift < w ->
  stable_partition_of_4 w seq shift =
  Val (concat (map (fun d => filter (fun x => (x / 2 ^ shift) mod 4 =? d) seq) [0;1;2;3])).
Proof.
  intros Hs. unfold stable_partition_of_4.
  rewrite (mapo_val _ (fun x => (x / 2 ^ shift) mod 4)) by (intros x _; now apply two_bits_val).
  cbn [bind]. rewrite !pick_filter. cbn [map concat]. now rewrite app_nil_r.
Qed.

Lemma parts4 L l s :
  parts N (qdig L) l 4 s =
  concat (map (fun d => filter (fun x => qdig L l x =? d) s) [0;1;2;3]).
Proof.
  cbn [parts map concat].
  change (N.of_nat 0) with 0. change (N.of_nat 1) with 1. change (N.of_nat 2) with 2. change (N.of_nat 3) with 3.
  rewrite app_nil_r. cbn [app]. now rewrite <- !app_assoc.
Qed.

Lemma stable_partition_parts w L l s : 2 * N.of_nat (L - 1 - l) < w ->
  stable_partition_of_4 w s (2 * N.of_nat (L - 1 - l)) = Val (parts N (qdig L) l 4 s).
Proof.
  intros H. rewrite stable_partition_of_4_val by exact H. rewrite parts4, pow2_double. reflexivity.
Qed.

(* ---------- maxN ---------- *)

Lemma maxN_ge s : forall x, In x s -> x <= maxN s.
Proof.
  induction s as [|y s IH]; intros x Hx; [destruct Hx|].
  cbn [maxN]. destruct Hx as [->|Hx]; [lia|]. specialize (IH x Hx). lia.
Qed.

Lemma maxN_lt s b : 0 < b -> Forall (fun x => x < b) s -> maxN s < b.
Proof.
  intros Hb. induction 1 as [|y s Hy HF IH]; cbn [maxN]; lia.
Qed.

Lemma maxN_in s : s <> [] -> In (maxN s) s.
Proof.
  induction s as [|y s IH]; intros H; [congruence|].
  cbn [maxN]. destruct s as [|z s'].
  - cbn [maxN]. left. lia.
  - destruct (N.max_spec y (maxN (z :: s'))) as [[_ ->]|[_ ->]]; [right; apply IH; congruence|now left].
Qed.

(* ---------- msb / qlevels ---------- *)

Lemma qlevels_pos seq : 1 <= qlevels seq.
Proof. unfold qlevels. lia. Qed.

Lemma lt_pow2_msb v : v < 2 ^ (msb v + 1).
Proof.
  unfold msb. destruct (N.eqb_spec v 0) as [->|Hv]; [reflexivity|].
  rewrite N.add_1_r. apply N.log2_spec. lia.
Qed.

Lemma qlevels_bound seq : maxN seq < 4 ^ qlevels seq.
Proof.
  rewrite <- pow2_double. eapply N.lt_le_trans; [apply lt_pow2_msb|].
  apply N.pow_le_mono_r; [lia|]. unfold qlevels. lia.
Qed.

Lemma msb_lt v w : 0 < w -> v < 2 ^ w -> msb v < w.
Proof.
  intros Hw Hv. unfold msb. destruct (N.eqb_spec v 0) as [->|Hz]; [exact Hw|].
  apply N.log2_lt_pow2; [lia|exact Hv].
Qed.

Lemma qlevels_shift seq w : 0 < w -> maxN seq < 2 ^ w -> 2 * (qlevels seq - 1) < w.
Proof.
  intros Hw Hm. pose proof (msb_lt _ _ Hw Hm) as H. unfold qlevels. lia.
Qed.

(* ---------- digits determine the number ---------- *)

Lemma div4_eq X C : (X / 4 =? C / 4) && (X mod 4 =? C mod 4) = (X =? C).
Proof.
  destruct (N.eqb_spec (X / 4) (C / 4)), (N.eqb_spec (X mod 4) (C mod 4)), (N.eqb_spec X C);
    cbn [andb]; try reflexivity; exfalso; lia.
Qed.

Lemma pre_div L c x : forall k, (k <= L)%nat -> x < 4 ^ N.of_nat L -> c < 4 ^ N.of_nat L ->
  pre N (qdig L) k c x = (x / 4 ^ N.of_nat (L - k) =? c / 4 ^ N.of_nat (L - k)).
Proof.
  induction k as [|k IH]; intros Hk Hx Hc.
  - cbn [pre]. rewrite Nat.sub_0_r, !N.div_small by assumption. reflexivity.
  - cbn [pre]. rewrite IH by (try assumption; lia). unfold qdig.
    replace (L - 1 - k)%nat with (L - S k)%nat by lia.
    replace (L - k)%nat with (S (L - S k)) by lia.
    rewrite Nnat.Nat2N.inj_succ, N.pow_succ_r', (N.mul_comm 4).
    rewrite <- !N.div_div by (try lia; apply N.pow_nonzero; lia).
    apply div4_eq.
Qed.

Lemma pre_eq L c x : x < 4 ^ N.of_nat L -> c < 4 ^ N.of_nat L ->
  pre N (qdig L) L c x = (x =? c).
Proof.
  intros Hx Hc. rewrite pre_div by (try assumption; lia).
  rewrite Nat.sub_diag. change (4 ^ N.of_nat 0) with 1. now rewrite !N.div_1_r.
Qed.

(* the prefix value after reading the first k digits *)
Lemma qdig_step L l x : (l < L)%nat ->
  x / 4 ^ N.of_nat (L - S l) = (x / 4 ^ N.of_nat (L - l)) * 2 ^ 2 + qdig L l x.
Proof.
  intros Hl. unfold qdig. replace (L - 1 - l)%nat with (L - S l)%nat by lia.
  replace (L - l)%nat with (S (L - S l)) by lia.
  rewrite Nnat.Nat2N.inj_succ, N.pow_succ_r', (N.mul_comm 4).
  rewrite <- N.div_div by (try lia; apply N.pow_nonzero; lia).
  change (2 ^ 2) with 4. generalize (x / 4 ^ N.of_nat (L - S l)). intros y. lia.
Qed.

(* ---------- list facts ---------- *)

Lemma filter_ext_in' {A} (f g : A -> bool) l : (forall x, In x l -> f x = g x) -> filter f l = filter g l.
Proof.
  induction l as [|x l IH]; intros H; cbn [filter]; [reflexivity|].
  rewrite (H x (or_introl eq_refl)), IH; [reflexivity|]. intros y Hy. apply H. now right.
Qed.

Lemma len_filter_eqb c l : len (filter (fun x => x =? c) l) = countN c l.
Proof.
  induction l as [|x l IH]; cbn [filter countN]; [reflexivity|].
  destruct (x =? c); rewrite ?len_cons, IH; lia.
Qed.

Lemma In_firstnN {A} (l : list A) i x : In x (firstnN i l) -> In x l.
Proof.
  revert i. induction l as [|y l IH]; intros i; cbn [firstnN]; [tauto|].
  destruct (i =? 0); [intros []|]. intros [->|H]; [now left|right; now apply (IH (N.pred i))].
Qed.

Lemma select_pred_eqb (f : N -> bool) c s : (forall x, In x s -> f x = (x =? c)) ->
  forall k pos, select_pred N f s k pos = select_from s c k pos.
Proof.
  induction s as [|x s IH]; intros H k pos; cbn [select_pred select_from]; [reflexivity|].
  rewrite (H x (or_introl eq_refl)), !IH by (intros y Hy; apply H; now right). reflexivity.
Qed.

Lemma In_parts {A} (dig : nat -> A -> N) l k s x : In x (parts A dig l k s) -> In x s.
Proof.
  induction k as [|k IH]; cbn [parts]; [intros []|].
  intros H. apply in_app_or in H. destruct H as [H|H]; [now apply IH|].
  apply filter_In in H. tauto.
Qed.

Lemma In_lev {A} a (dig : nat -> A -> N) l s x : In x (lev A a dig l s) -> In x s.
Proof.
  induction l as [|l IH]; cbn [lev]; [tauto|]. intros H. apply In_parts in H. now apply IH.
Qed.

Lemma count_split d D : countN d D + count_lt d D <= len D.
Proof.
  induction D as [|x D IH]; cbn [countN count_lt]; [unfold len; cbn [length]; lia|].
  rewrite len_cons. destruct (N.eqb_spec x d), (N.ltb_spec x d); lia.
Qed.

(* select returns a position at or after b when asked for an occurrence not before rank(b) *)
Lemma select_from_rk s c : forall k pos p, select_from s c k pos = Some p ->
  exists q, p = pos + q /\ nthN s q = Some c /\ rk s c q = k.
Proof.
  induction s as [|x s IH]; intros k pos p; cbn [select_from]; [discriminate|].
  destruct (N.eqb_spec x c) as [->|Hxc].
  - destruct (N.eqb_spec k 0) as [->|Hk].
    + intros H. injection H as <-. exists 0. split; [lia|]. split; [reflexivity|apply rk_0].
    + intros H. apply IH in H. destruct H as (q & -> & Hn & Hr). exists (q + 1).
      rewrite nthN_succ, rk_cons, N.eqb_refl. split; [lia|]. split; [exact Hn|lia].
  - intros H. apply IH in H. destruct H as (q & -> & Hn & Hr). exists (q + 1).
    rewrite nthN_succ, rk_cons. destruct (N.eqb_spec x c); [congruence|].
    split; [lia|]. split; [exact Hn|lia].
Qed.

Lemma select_spec_ge s c k p b : select_spec s c k = Some p -> rk s c b <= k -> b <= p.
Proof.
  unfold select_spec. intros H Hb. apply select_from_rk in H. destruct H as (q & -> & Hn & Hr).
  rewrite N.add_0_l. destruct (N.le_gt_cases b q) as [Hle|Hgt]; [exact Hle|exfalso].
  pose proof (rk_succ s c q c Hn) as Hs. rewrite N.eqb_refl in Hs.
  pose proof (rk_mono s c (q + 1) b) as Hm. lia.
Qed.
