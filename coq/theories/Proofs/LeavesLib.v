(* T3: the leaf functions REGENERATED from the Rust source (Gen/Leaves.v, tools/gen_leaves.py)
   agree with the hand-written model (Model/Words.v, Model/RSQ.v) on all in-range arguments.

   This file is written once.  It compiles as long as the generated definitions keep their meaning;
   when the Rust source of a leaf changes meaning, the matching theorem below stops compiling and the
   obligation "the model says what the code says" is reported broken.

   The proofs are deliberately shape-insensitive (renaming, parentheses, reordering of independent
   lets, literal spelling do not matter): both sides are unfolded and walked step by step ([obind],
   [oif]: the matching steps must be convertible, a local test that fails at once on a mismatch);
   the few facts that are not plain computation (an addition that cannot overflow, a truncation of a
   small value, a different order of two panics) are settled by case analysis on the comparison itself
   ([ocase]) or on the small discriminating values (word index 0/1, list shape).

   Extra hypotheses beyond the parameter types (reported as findings): none for SuperblockPlain any more.
     g_sb_get_rank_ok    used to need block_id <= 11 (for block_id >= 12 the source shifts a u128 by >= 128
                         bits: Fault Overflow, where the hand model returned a value); Model/RSQ.v sb_get_rank
                         now carries the checks and truncations of the source and the equality is
                         unconditional (the word/parameter bounds are kept in the statement, unused). *)
(* this file: the shared helper lemmas and tactics *)
From Coq Require Import ZArith Lia ZifyBool ZifyN.
From QwtModel Require Import ListX Consts SelTable Words RSQ.
Open Scope N_scope.

(* ------------------------------------------------------------------ small helpers *)
Lemma land1_cases x : N.land x 1 = 0 \/ N.land x 1 = 1.
Proof. destruct x as [|[p|p|]]; [left|right|left|right]; reflexivity. Qed.

Lemma shl1_small x : N.shiftl (N.land x 1) 1 mod 2 ^ 128 = N.shiftl (N.land x 1) 1.
Proof. destruct (land1_cases x) as [-> | ->]; reflexivity. Qed.

Lemma land_lt_r a b k : b < 2 ^ k -> N.land a b < 2 ^ k.
Proof.
  intros H. destruct (N.eq_dec (N.land a b) 0) as [-> | Hz]; [lia|].
  apply N.log2_lt_pow2; [lia|].
  assert (Hb : b <> 0) by (intros ->; now rewrite N.land_0_r in Hz).
  apply N.le_lt_trans with (N.log2 b); [|apply N.log2_lt_pow2; lia].
  etransitivity; [apply N.log2_land|apply N.le_min_r].
Qed.

Lemma land_ones_lt a k : N.land a (N.ones k) < 2 ^ k.
Proof. rewrite N.land_ones. apply N.mod_upper_bound, N.pow_nonzero. discriminate. Qed.

Lemma shiftr_le x s : N.shiftr x s <= x.
Proof.
  rewrite N.shiftr_div_pow2. destruct (N.eq_dec x 0) as [-> | Hx]; [now rewrite N.div_0_l by (apply N.pow_nonzero; discriminate)|].
  apply N.div_le_upper_bound; [apply N.pow_nonzero; discriminate|].
  assert (0 < 2 ^ s) by (apply N.neq_0_lt_0, N.pow_nonzero; discriminate). nia.
Qed.

Lemma shiftr_lt x s k : x < 2 ^ (s + k) -> N.shiftr x s < 2 ^ k.
Proof.
  intros H. rewrite N.shiftr_div_pow2. apply N.div_lt_upper_bound; [apply N.pow_nonzero; discriminate|].
  now rewrite <- N.pow_add_r.
Qed.

Lemma popcount_double v : popcount (2 * v) = popcount v.
Proof. now destruct v. Qed.
Lemma popcount_succ_double v : popcount (1 + 2 * v) = 1 + popcount v.
Proof. now destruct v. Qed.
Lemma popcount_le_bits : forall (n : nat) x, x < 2 ^ N.of_nat n -> popcount x <= N.of_nat n.
Proof.
  induction n as [|n IH]; intros x Hx.
  - change (2 ^ N.of_nat 0) with 1 in Hx. replace x with 0 by lia. cbn [popcount]. lia.
  - assert (Hh : x / 2 < 2 ^ N.of_nat n).
    { replace (N.of_nat (S n)) with (N.succ (N.of_nat n)) in Hx by lia. rewrite N.pow_succ_r' in Hx. lia. }
    specialize (IH _ Hh).
    assert (Ex : x = 2 * (x / 2) \/ x = 1 + 2 * (x / 2)) by lia.
    destruct Ex as [Ex | Ex]; rewrite Ex.
    + rewrite popcount_double. lia.
    + rewrite popcount_succ_double. lia.
Qed.
Lemma popcount_land_le128 w m : m < 2 ^ 128 -> popcount (N.land w m) <= 128.
Proof. intros H. apply (popcount_le_bits 128). now apply land_lt_r. Qed.

Lemma uidx_Forall {A} (P : A -> Prop) : forall (l : list A) i a, Forall P l -> uidx l i = Val a -> P a.
Proof.
  unfold uidx. induction l as [|x l IH]; intros i a HF E; cbn [nthN] in E; [discriminate|].
  inversion HF; subst. destruct (i =? 0); [now inversion E; subst|]. now apply (IH (N.pred i)).
Qed.

Lemma idx_Forall {A} (P : A -> Prop) : forall (l : list A) i a, Forall P l -> idx l i = Val a -> P a.
Proof.
  unfold idx. induction l as [|x l IH]; intros i a HF E; cbn [nthN] in E; [discriminate|].
  inversion HF; subst. destruct (i =? 0); [now inversion E; subst|]. now apply (IH (N.pred i)).
Qed.

(* to be used instead of [injection] / [inversion], which normalise the arguments of Val (and do not come
   back when one of them is a shift by a large literal) *)
Lemma Val_inj {A} (a b : A) : Val a = Val b -> a = b.
Proof. intros H. now injection H. Qed.

(* `let! x := e in Val x` is e *)
Lemma bind_Val_r {A} (x : outcome A) : bind x (fun a => Val a) = x.
Proof. now destruct x. Qed.

Lemma osub_Val a b v : osub a b = Val v -> v = a - b /\ b <= a.
Proof. unfold osub. destruct (N.leb_spec b a); intros E; [now inversion E|discriminate]. Qed.

(* `let mut r = 0; r += x` *)
Lemma oadd_0_l w b : b < 2 ^ w -> oadd w 0 b = Val b.
Proof. intros H. unfold oadd. rewrite N.add_0_l. now destruct (N.ltb_spec b (2 ^ w)); [|lia]. Qed.

Lemma div_lt_bound a b c : a < c -> a / b < c.
Proof.
  intros H. destruct (N.eq_dec b 0) as [-> | Hb]; [destruct a; cbn; lia|].
  apply N.div_lt_upper_bound; [exact Hb|]. nia.
Qed.

Lemma land_mod_low x : N.land (x mod 2 ^ 64) 4095 = N.land x 4095.
Proof.
  change 4095 with (N.ones 12). apply N.bits_inj. intros n. rewrite !N.land_spec.
  destruct (N.ltb_spec n 12) as [Hn | Hn].
  - rewrite N.mod_pow2_bits_low by lia. reflexivity.
  - rewrite N.ones_spec_high by lia. now rewrite !andb_false_r.
Qed.

(* closed numerals: literals, named constants, and + * - ^ of those *)
Ltac closedP p := lazymatch p with xH => idtac | xO ?q => closedP q | xI ?q => closedP q end.
Ltac closedN t :=
  lazymatch t with
  | N0 => idtac
  | Npos ?p => closedP p
  | N.add ?a ?b => closedN a; closedN b
  | N.mul ?a ?b => closedN a; closedN b
  | N.sub ?a ?b => closedN a; closedN b
  | N.pow ?a ?b => closedN a; closedN b
  | _ => is_const t; let v := eval cbv delta [t] in t in closedN v
  end.

(* a quotient / remainder of two closed numerals (e.g. SUPERBLOCK_SIZE / BLOCK_SIZE) is replaced by its value *)
Ltac fold_consts :=
  repeat match goal with
  | |- context [N.div ?a ?b] => closedN a; closedN b;
      let v := eval vm_compute in (N.div a b) in change (N.div a b) with v
  | |- context [N.modulo ?a ?b] => closedN a; closedN b;
      let v := eval vm_compute in (N.modulo a b) in change (N.modulo a b) with v
  end.

(* an operation whose side condition is decided by computation alone (literal shift amount, product of
   two literals, ...) is replaced by its value *)
Ltac ofold :=
  match goal with
  | |- context [oadd ?w ?a ?b] => closedN a; closedN b;
      let c := eval vm_compute in (a + b <? 2 ^ w) in constr_eq c true; change (oadd w a b) with (Val (a + b))
  | |- context [omul ?w ?a ?b] => closedN a; closedN b;
      let c := eval vm_compute in (a * b <? 2 ^ w) in constr_eq c true; change (omul w a b) with (Val (a * b))
  | |- context [osub ?a ?b] => closedN a; closedN b;
      let c := eval vm_compute in (b <=? a) in constr_eq c true; change (osub a b) with (Val (a - b))
  | |- context [oshl ?w ?x ?s] => closedN s; closedN w;
      let c := eval vm_compute in (s <? w) in constr_eq c true; change (oshl w x s) with (Val (N.shiftl x s mod 2 ^ w))
  | |- context [oshr ?w ?x ?s] => closedN s; closedN w;
      let c := eval vm_compute in (s <? w) in constr_eq c true; change (oshr w x s) with (Val (N.shiftr x s))
  end.

(* one monadic step on both sides: the same (convertible) first computation, then the continuations.
   The conversion test is local to that computation, so that a mismatch fails at once. *)
Ltac obind :=
  cbn [bind];
  lazymatch goal with
  | |- bind ?x _ = bind ?y _ =>
      change y with x; let E := fresh "E" in destruct x eqn:E; cbn [bind]; [|reflexivity]
  end.

(* the same test at the head of both sides *)
Ltac oif :=
  lazymatch goal with
  | |- (if ?c then _ else _) = (if ?d then _ else _) => change d with c; destruct c; cbv beta iota
  end.

Ltac obind_as v E :=
  cbn [bind];
  lazymatch goal with
  | |- bind ?x _ = bind ?y _ => change y with x; destruct x as [v|] eqn:E; cbn [bind]; [|reflexivity]
  end.

(* settle one comparison that is stuck at the head of a conditional (lia decides impossible branches) *)
Ltac ocase :=
  match goal with
  | |- context [if N.ltb ?a ?b then _ else _] => destruct (N.ltb_spec a b); try lia
  | |- context [if N.leb ?a ?b then _ else _] => destruct (N.leb_spec a b); try lia
  | |- context [if N.eqb ?a ?b then _ else _] => destruct (N.eqb_spec a b); try lia
  end; cbv beta iota; cbn [bind].

Ltac pose_new H :=
  let T := type of H in
  lazymatch goal with
  | _ : T |- _ => fail
  | _ => pose proof H
  end.

Ltac list4 ws := destruct ws as [|? [|? [|? [|? ?]]]].

