(* RSWide: construction invariant and correctness of the queries (used by RSBinP.v). *)
From Coq Require Import ZArith Lia ZifyBool ZifyN ZifyNat.
From QwtModel Require Import ListX Seq RSBin ListXP RSBinL RSBinB.
Ltac Zify.zify_post_hook ::= Z.div_mod_to_equations.
Arguments N.add : simpl never.
Arguments N.sub : simpl never.
Arguments N.mul : simpl never.
Arguments N.eqb : simpl never.
Arguments N.ltb : simpl never.
Arguments N.leb : simpl never.
Arguments N.pred : simpl never.
Arguments N.of_nat : simpl never.
Arguments N.land : simpl never.
Arguments N.lor : simpl never.
Arguments N.lxor : simpl never.
Arguments N.shiftr : simpl never.
Arguments N.shiftl : simpl never.
Arguments N.div : simpl never.
Arguments N.modulo : simpl never.
Arguments N.pow : simpl never.
Arguments N.testbit : simpl never.

Lemma RSW_BLOCK_WORDS_val : RSW_BLOCK_WORDS = 8. Proof. reflexivity. Qed.
Lemma RSW_SUPERBLOCK_WORDS_val : RSW_SUPERBLOCK_WORDS = 64. Proof. reflexivity. Qed.
Lemma RSW_ONES_PER_HINT_val : RSW_ONES_PER_HINT = 8192. Proof. reflexivity. Qed.
Lemma RSW_ZEROS_PER_HINT_val : RSW_ZEROS_PER_HINT = 8192. Proof. reflexivity. Qed.
Lemma RSW_BLK_BITS_val : RSW_BLK_BITS = 12. Proof. reflexivity. Qed.
Lemma RSW_BLK_BITS_TAIL_val : RSW_BLK_BITS_TAIL = 12. Proof. reflexivity. Qed.
Lemma RSW_SB_SHIFT_val : RSW_SB_SHIFT = 84. Proof. reflexivity. Qed.
Lemma RSW_SB_SHIFT_RD_val : RSW_SB_SHIFT_RD = 84. Proof. reflexivity. Qed.
Lemma RSW_BLK_BITS_RD_val : RSW_BLK_BITS_RD = 12. Proof. reflexivity. Qed.
Lemma RSW_BLK_MASK_val : RSW_BLK_MASK = 4095. Proof. reflexivity. Qed.
Lemma M128_val : M128 = 2 ^ 128. Proof. reflexivity. Qed.

Lemma land4095 x : N.land x 4095 = x mod 4096.
Proof. change 4095 with (N.ones 12). rewrite N.land_ones. reflexivity. Qed.

(* in-superblock counters: ones of the first j lines of superblock S *)
Definition cW (ws : list N) (S j : N) : N := R1 ws (4096 * S + 512 * j) - R1 ws (4096 * S).
Definition encW (ws : list N) (S : N) : N := enc 4096 (R1 ws (4096 * S)) (cW ws S) 7.

Lemma cW_bound ws S j : j <= 7 -> cW ws S j < 4096.
Proof. intros H. unfold cW. pose proof (R1_lip ws (4096 * S) (4096 * S + 512 * j)). lia. Qed.

Lemma skipnN_0 {A} (l : list A) : skipnN 0 l = l.
Proof. destruct l; reflexivity. Qed.

Lemma rsw_line_eq st b l : rsw_line st b l =
  let total := if b mod 8 =? 0 then ws_total st + ws_pop st else ws_total st in
  let pop0 := if b mod 8 =? 0 then 0 else ws_pop st in
  let cur := if b mod 8 =? 0 then ws_total st + ws_pop st
             else N.lor (N.shiftl (ws_cur st) 12 mod M128) (ws_pop st) in
  let ones := line_n_ones l in
  let pop := pop0 + ones in
  let u1 := hint_upd 8192 (ws_s1 st) (ws_hint1 st) (total + pop) (b / 8) in
  let zeros := ws_zeros st + (512 - ones) in
  let u0 := hint_upd 8192 (ws_s0 st) (ws_hint0 st) zeros (b / 8) in
  let meta := if (b + 1) mod 8 =? 0 then cur :: ws_meta st else ws_meta st in
  mk_rsws meta total cur pop zeros (fst u0) (fst u1) (snd u0) (snd u1).
Proof.
  unfold rsw_line, hint_upd. rewrite RSW_ONES_PER_HINT_val, RSW_ZEROS_PER_HINT_val, RSW_BLK_BITS_val.
  destruct (b mod 8 =? 0); cbv zeta iota.
  - destruct (ws_hint1 st <? (ws_total st + ws_pop st + (0 + line_n_ones l)) / 8192);
    destruct (ws_hint0 st <? (ws_zeros st + (512 - line_n_ones l)) / 8192); reflexivity.
  - destruct (ws_hint1 st <? (ws_total st + (ws_pop st + line_n_ones l)) / 8192);
    destruct (ws_hint0 st <? (ws_zeros st + (512 - line_n_ones l)) / 8192); reflexivity.
Qed.

Lemma rsw_loop_inv (P : rsw_state -> N -> Prop) ws nl : len ws = 8 * nl ->
  (forall st b, b < nl -> P st b -> P (rsw_line st b (line_of ws b)) (b + 1)) ->
  forall fuel b st, b + N.of_nat fuel = nl -> P st b -> P (rsw_loop st b (skipnN (8 * b) ws) fuel) nl.
Proof.
  intros Hlen Hstep. induction fuel as [|fuel IH]; intros b st Hb HP; cbn [rsw_loop].
  - replace nl with b by lia. exact HP.
  - destruct (skipnN (8 * b) ws) as [|x rest] eqn:E.
    + exfalso. pose proof (len_skipnN ws (8 * b)) as Hl. rewrite E in Hl. change (len (@nil N)) with 0 in Hl. lia.
    + rewrite <- E.
      assert (E1 : firstn 8 (skipnN (8 * b) ws) = line_of ws b).
      { unfold line_of. now rewrite (N.mul_comm b 8). }
      assert (E2 : skipn 8 (skipnN (8 * b) ws) = skipnN (8 * (b + 1)) ws).
      { change 8%nat with (N.to_nat 8). rewrite <- skipnN_skipn, skipnN_add. f_equal. lia. }
      rewrite E1, E2. apply IH; [lia|]. apply Hstep; [lia|exact HP].
Qed.

Definition winv (ws : list N) (lastb : N) (st : rsw_state) (b : N) : Prop :=
  ws_total st + ws_pop st = R1 ws (512 * b) /\
  ws_total st = R1 ws (4096 * ((b - 1) / 8)) /\
  ws_cur st = enc 4096 (ws_total st) (cW ws ((b - 1) / 8)) (N.to_nat ((b - 1) mod 8)) /\
  ws_zeros st = 512 * b - R1 ws (512 * b) /\
  (exists L, ws_meta st = rev L /\ len L = b / 8 /\ forall S, S < b / 8 -> nthN L S = Some (encW ws S)) /\
  sinv (Rc ws true) 4096 8192 lastb (ws_s1 st) (ws_hint1 st) (R1 ws (512 * b)) /\
  sinv (Rc ws false) 4096 8192 lastb (ws_s0 st) (ws_hint0 st) (512 * b - R1 ws (512 * b)).

Definition rsw_st0 : rsw_state := mk_rsws [] 0 0 0 0 [0] [0] 0 0.

Lemma winv_init ws lastb : winv ws lastb rsw_st0 0.
Proof.
  unfold winv, rsw_st0. cbn [ws_meta ws_total ws_cur ws_pop ws_zeros ws_s0 ws_s1 ws_hint0 ws_hint1].
  change (512 * 0) with 0. change ((0 - 1) / 8) with 0. change ((0 - 1) mod 8) with 0. change (0 / 8) with 0.
  change (4096 * 0) with 0. rewrite R1_0. repeat split.
  - exists []. repeat split. intros S HS. lia.
  - apply sinv_init; [lia|apply Rc_0].
  - apply sinv_init; [lia|apply Rc_0].
Qed.

(* cur << 12 | pop *)
Lemma wide_push cur pop : cur < 2 ^ 116 -> pop < 4096 ->
  N.lor (N.shiftl cur 12 mod M128) pop = cur * 4096 + pop.
Proof.
  intros Hc Hp. rewrite N.shiftl_mul_pow2, N.mod_small.
  - rewrite <- N.shiftl_mul_pow2. rewrite lor_shiftl_add by (change (2 ^ 12) with 4096; exact Hp). reflexivity.
  - change (2 ^ 12) with 4096. change M128 with (2 ^ 116 * 4096). lia.
Qed.

Lemma enc_wide_bound T c k : T < 2 ^ 44 - 1 -> (k <= 6)%nat -> (forall i, 1 <= i -> i <= 7 -> c i < 4096) ->
  enc 4096 T c k < 2 ^ 116.
Proof.
  intros HT Hk Hc. pose proof (enc_bound 4096 T c k) as Hb.
  assert (H1 : enc 4096 T c k < (T + 1) * 4096 ^ N.of_nat k) by (apply Hb; [lia|intros; apply Hc; lia]).
  assert (H2 : 4096 ^ N.of_nat k <= 4096 ^ 6) by (apply N.pow_le_mono_r; lia).
  assert (H3 : (T + 1) * 4096 ^ N.of_nat k <= 2 ^ 44 * 4096 ^ 6) by (apply N.mul_le_mono; lia).
  change (2 ^ 44 * 4096 ^ 6) with (2 ^ 116) in H3. lia.
Qed.

Section Wide.
Hypothesis PC : popcount_ok.
Hypothesis SIW : siw_ok.

Lemma winv_step ws lastb st b : words_ok ws -> 64 * len ws < 2 ^ 44 - 1 -> b / 8 <= lastb ->
  winv ws lastb st b -> winv ws lastb (rsw_line st b (line_of ws b)) (b + 1).
Proof.
  intros Hok Hsmall Hbl (Isum & Itot & Icur & Izeros & (L & IL & ILlen & ILa) & Is1 & Is0).
  pose proof (R1_line PC ws b Hok) as HR. pose proof (line_n_ones_le PC ws b Hok) as Hones.
  set (ones := line_n_ones (line_of ws b)) in *.
  pose proof (R1_le ws (512 * b)) as Hle.
  pose proof (R1_le_len ws (4096 * ((b - 1) / 8))) as HT.
  set (m := b mod 8) in *. set (S := b / 8) in *.
  rewrite rsw_line_eq. cbv zeta. fold m. fold S. fold ones.
  (* samples *)
  assert (Hs1 := sinv_step (Rc ws true) 4096 8192 lastb (ws_s1 st) (ws_hint1 st)
                  (R1 ws (512 * b)) (R1 ws (512 * (b + 1))) S).
  assert (Hs0 := sinv_step (Rc ws false) 4096 8192 lastb (ws_s0 st) (ws_hint0 st)
                  (512 * b - R1 ws (512 * b)) (512 * (b + 1) - R1 ws (512 * (b + 1))) S).
  assert (Hs1' : forall x, x = R1 ws (512 * (b + 1)) -> sinv (Rc ws true) 4096 8192 lastb
            (fst (hint_upd 8192 (ws_s1 st) (ws_hint1 st) x S))
            (snd (hint_upd 8192 (ws_s1 st) (ws_hint1 st) x S)) (R1 ws (512 * (b + 1)))).
  { intros x ->. apply Hs1; [lia|assumption|lia|lia|assumption
               |cbn [Rc]; unfold S; apply R1_mono; lia|cbn [Rc]; unfold S; apply R1_mono; lia]. }
  assert (Hs0' : sinv (Rc ws false) 4096 8192 lastb
            (fst (hint_upd 8192 (ws_s0 st) (ws_hint0 st) (ws_zeros st + (512 - ones)) S))
            (snd (hint_upd 8192 (ws_s0 st) (ws_hint0 st) (ws_zeros st + (512 - ones)) S))
            (512 * (b + 1) - R1 ws (512 * (b + 1)))).
  { replace (ws_zeros st + (512 - ones)) with (512 * (b + 1) - R1 ws (512 * (b + 1))) by lia.
    apply Hs0; [lia|assumption|lia|lia|assumption| |].
    - change (512 * b - R1 ws (512 * b)) with (Rc ws false (512 * b)). apply Rc_mono. unfold S. lia.
    - change (512 * (b + 1) - R1 ws (512 * (b + 1))) with (Rc ws false (512 * (b + 1))). apply Rc_mono. unfold S. lia. }
  clear Hs1 Hs0.
  replace ((b + 1 - 1) / 8) with S by (unfold S; f_equal; lia).
  destruct (N.eqb_spec m 0) as [Hm0|Hm0].
  - (* first line of a superblock *)
    assert (Em : (b + 1) mod 8 =? 0 = false) by (unfold m in *; lia). rewrite Em.
    assert (E4 : 4096 * S = 512 * b) by (unfold S, m in *; lia).
    unfold winv. cbn [ws_meta ws_total ws_cur ws_pop ws_zeros ws_s0 ws_s1 ws_hint0 ws_hint1].
    replace ((b + 1 - 1) / 8) with S by (unfold S; f_equal; lia).
    replace ((b + 1 - 1) mod 8) with 0 by (unfold m in *; lia).
    replace ((b + 1) / 8) with S by (unfold S, m in *; lia).
    split; [lia|]. split; [rewrite E4; lia|]. split; [reflexivity|]. split; [lia|].
    split; [exists L; repeat split; assumption|]. split; [apply Hs1'; lia|assumption].
  - assert (Eb : (b - 1) / 8 = S) by (unfold S, m in *; lia).
    assert (Ebm : (b - 1) mod 8 = m - 1) by (unfold S, m in *; lia).
    rewrite Eb, Ebm in *.
    assert (Epop : ws_pop st = cW ws S m).
    { unfold cW. replace (4096 * S + 512 * m) with (512 * b) by (unfold S, m; lia). lia. }
    assert (Hpush : N.lor (N.shiftl (ws_cur st) 12 mod M128) (ws_pop st) =
                    enc 4096 (ws_total st) (cW ws S) (N.to_nat m)).
    { assert (Et : N.to_nat m = Datatypes.S (N.to_nat (m - 1))) by lia. rewrite Et. cbn [enc]. rewrite <- Et, N2Nat.id.
      rewrite <- Icur, <- Epop. apply wide_push.
      - rewrite Icur. apply enc_wide_bound; [lia|unfold m; lia|intros; apply cW_bound; lia].
      - rewrite Epop. apply cW_bound. unfold m. lia. }
    rewrite Hpush.
    unfold winv. cbn [ws_meta ws_total ws_cur ws_pop ws_zeros ws_s0 ws_s1 ws_hint0 ws_hint1].
    replace ((b + 1 - 1) / 8) with S by (unfold S; f_equal; lia).
    replace ((b + 1 - 1) mod 8) with m by (unfold m; f_equal; lia).
    split; [lia|]. split; [assumption|]. split; [reflexivity|]. split; [lia|].
    split; [|split; [apply Hs1'; lia|assumption]].
    destruct (N.eqb_spec ((b + 1) mod 8) 0) as [E8|E8].
    + assert (m = 7) by (unfold m in *; lia).
      exists (L ++ [enc 4096 (ws_total st) (cW ws S) (N.to_nat m)]).
      split; [rewrite rev_app_distr, IL; reflexivity|]. split; [lens; unfold S, m in *; lia|].
      intros S' HS'. destruct (N.eq_dec S' S) as [->|Hne].
      * rewrite nthN_app2 by lia. replace (S - len L) with 0 by lia. rewrite nthN_0.
        unfold encW. rewrite <- Itot. rewrite H. reflexivity.
      * rewrite nthN_app1 by (unfold S, m in *; lia). apply ILa. unfold S, m in *; lia.
    + exists L. split; [assumption|]. split; [unfold S, m in *; lia|].
      intros S' HS'. apply ILa. unfold S, m in *; lia.
Qed.

Lemma winv_final ws nl lastb : words_ok ws -> len ws = 8 * nl -> 64 * len ws < 2 ^ 44 - 1 -> nl <= 8 * lastb ->
  winv ws lastb (rsw_loop rsw_st0 0 ws (N.to_nat nl)) nl.
Proof.
  intros Hok Hlen Hsmall Hl.
  assert (E : rsw_loop rsw_st0 0 ws (N.to_nat nl) = rsw_loop rsw_st0 0 (skipnN (8 * 0) ws) (N.to_nat nl)).
  { change (8 * 0) with 0. rewrite skipnN_0. reflexivity. }
  rewrite E.
  apply (rsw_loop_inv (winv ws lastb) ws nl Hlen); [|lia|apply winv_init].
  intros st b Hb Hi. apply winv_step; try assumption. lia.
Qed.

(* the tail fill of the last, partial superblock *)
Lemma iter_enc T c pop : T < 2 ^ 44 - 1 -> pop < 4096 -> (forall i, 1 <= i -> i <= 7 -> c i < 4096) ->
  forall k n, (n + k <= 7)%nat -> (forall i, N.of_nat n < i -> i <= 7 -> c i = pop) ->
  iterN (fun x => N.lor (N.shiftl x 12 mod M128) pop) k (enc 4096 T c n) = enc 4096 T c (n + k).
Proof.
  intros HT Hpop Hc. induction k as [|k IH]; intros n Hn Hcp; cbn [iterN].
  - now rewrite Nat.add_0_r.
  - rewrite wide_push; [|apply enc_wide_bound; [assumption|lia|assumption]|assumption].
    replace (enc 4096 T c n * 4096 + pop) with (enc 4096 T c (Datatypes.S n)).
    + rewrite IH; [f_equal; lia|lia|]. intros i Hi1 Hi2. apply Hcp; lia.
    + cbn [enc]. rewrite Hcp by lia. reflexivity.
Qed.

(* ------------------------------------------------------------------ the directory *)
Definition rsw_dir_ok (ws : list N) (lastb : N) (r : rswide) : Prop :=
  len (rsw_meta r) = lastb + 1 /\
  (forall S, S <= lastb -> nthN (rsw_meta r) S = Some (encW ws S)) /\
  samples_ok (Rc ws true) 4096 8192 (64 * len ws) lastb (Rc ws true (64 * len ws)) (rsw_samples1 r) /\
  samples_ok (Rc ws false) 4096 8192 (64 * len ws) lastb (Rc ws false (64 * len ws)) (rsw_samples0 r).

Lemma encW_tail ws S : len ws <= 64 * S -> encW ws S = R1 ws (64 * len ws) * 2 ^ 84.
Proof.
  intros H. unfold encW. rewrite enc_zero.
  - rewrite (R1_sat ws (4096 * S)) by lia. reflexivity.
  - intros i _ _. unfold cW. rewrite (R1_sat ws (4096 * S + 512 * i)), (R1_sat ws (4096 * S)) by lia. lia.
Qed.

Lemma rsw_new_ok bv : bv_wf bv -> exists r, rsw_new bv = Val r /\ rsw_bv r = bv /\
  rsw_dir_ok (bv_words bv) ((nlines bv + 7) / 8) r /\
  rsw_n_zeros r = bv_nbits bv - R1 (bv_words bv) (bv_nbits bv).
Proof.
  intros Hwf. pose proof (wf_len bv Hwf) as Hlen. pose proof (wf_ok bv Hwf) as Hok.
  pose proof (wf_nbits bv Hwf) as Hn.
  set (ws := bv_words bv) in *. set (nl := nlines bv) in *. set (lastb := (nl + 7) / 8).
  assert (Hsmall : 64 * len ws < 2 ^ 44 - 1).
  { change (2 ^ 44 - 1) with 17592186044415. change (2 ^ 43) with 8796093022208 in Hn. lia. }
  destruct (winv_final ws nl lastb Hok Hlen Hsmall ltac:(unfold lastb; lia))
    as (Isum & Itot & Icur & Izeros & (L & IL & ILlen & ILa) & Is1 & Is0).
  unfold rsw_new. fold ws. fold rsw_st0. replace (len ws / 8) with nl by lia.
  set (st := rsw_loop rsw_st0 0 ws (N.to_nat nl)) in *.
  rewrite RSW_BLK_BITS_TAIL_val, RSW_SB_SHIFT_val.
  assert (Etot : ws_total st + ws_pop st = R1 ws (64 * len ws)) by (rewrite Isum; f_equal; lia).
  rewrite Etot.
  assert (Hpad : R1 ws (64 * len ws) = R1 ws (bv_nbits bv)) by (apply R1_pad; [assumption|lia]).
  pose proof (R1_le ws (bv_nbits bv)) as Hle.
  assert (Esh : N.shiftl (R1 ws (64 * len ws)) 84 mod M128 = encW ws lastb).
  { rewrite encW_tail by (unfold lastb; lia). rewrite N.shiftl_mul_pow2. apply N.mod_small.
    change M128 with (2 ^ 44 * 2 ^ 84). apply N.mul_lt_mono_pos_r; [reflexivity|]. lia. }
  rewrite Esh.
  assert (Hs1 := sinv_final _ _ _ _ _ _ _ lastb (64 * len ws) Is1 ltac:(lia) ltac:(unfold lastb; lia)).
  assert (Hs0 := sinv_final _ _ _ _ _ _ _ lastb (64 * len ws) Is0 ltac:(lia) ltac:(unfold lastb; lia)).
  replace (R1 ws (512 * nl)) with (Rc ws true (64 * len ws)) in Hs1 by (cbn [Rc]; f_equal; lia).
  replace (512 * nl - R1 ws (512 * nl)) with (Rc ws false (64 * len ws)) in Hs0
    by (cbn [Rc]; replace (64 * len ws) with (512 * nl) by lia; reflexivity).
  unfold bv_len.
  destruct (N.eqb_spec (nl mod 8) 0) as [Hm|Hm].
  - assert (Elast : lastb = nl / 8) by (unfold lastb; lia).
    assert (Elen : len (encW ws lastb :: ws_meta st) = lastb + 1).
    { rewrite IL. lens. unfold len at 1. rewrite rev_length. fold (len L). lia. }
    rewrite Elen. unfold osub. destruct (N.leb_spec 1 (lastb + 1)); [|lia]. cbn [bind].
    destruct (N.leb_spec (R1 ws (64 * len ws)) (bv_nbits bv)); [|lia]. cbn [bind].
    replace (lastb + 1 - 1) with lastb by lia.
    eexists. split; [reflexivity|]. split; [reflexivity|]. split; [|cbn [rsw_n_zeros]; lia].
    unfold rsw_dir_ok. cbn [rsw_meta rsw_samples0 rsw_samples1].
    assert (Ep : rev (encW ws lastb :: ws_meta st) = L ++ [encW ws lastb]).
    { cbn [rev]. rewrite IL, rev_involutive. reflexivity. }
    rewrite Ep. split; [lens; lia|]. split; [|split; assumption].
    intros S HS. destruct (N.eq_dec S lastb) as [->|Hne].
    + rewrite nthN_app2 by lia. replace (lastb - len L) with 0 by lia. apply nthN_0.
    + rewrite nthN_app1 by lia. apply ILa. lia.
  - assert (Elast : lastb = nl / 8 + 1) by (unfold lastb; lia).
    assert (Eb : (nl - 1) / 8 = nl / 8) by lia. assert (Ebm : (nl - 1) mod 8 = nl mod 8 - 1) by lia.
    rewrite Eb, Ebm in *.
    assert (HT : ws_total st < 2 ^ 44 - 1) by (pose proof (R1_le_len ws (4096 * (nl / 8))); lia).
    assert (Epop : forall i, N.of_nat (N.to_nat (nl mod 8 - 1)) < i -> i <= 7 -> cW ws (nl / 8) i = ws_pop st).
    { intros i Hi1 Hi2. unfold cW. rewrite (R1_sat ws (4096 * (nl / 8) + 512 * i)) by lia. lia. }
    assert (Hpop : ws_pop st < 4096).
    { rewrite <- (Epop 7) by lia. apply cW_bound. lia. }
    assert (Eit : iterN (fun c => N.lor (N.shiftl c 12 mod M128) (ws_pop st)) (N.to_nat (8 - nl mod 8)) (ws_cur st)
                  = encW ws (nl / 8)).
    { rewrite Icur. rewrite (iter_enc (ws_total st) (cW ws (nl / 8)) (ws_pop st) HT Hpop); try assumption.
      - unfold encW. rewrite <- Itot. f_equal. lia.
      - intros; apply cW_bound; lia.
      - lia. }
    rewrite Eit.
    assert (Elen : len (encW ws lastb :: encW ws (nl / 8) :: ws_meta st) = lastb + 1).
    { rewrite IL. lens. unfold len at 1. rewrite rev_length. fold (len L). lia. }
    rewrite Elen. unfold osub. destruct (N.leb_spec 1 (lastb + 1)); [|lia]. cbn [bind].
    destruct (N.leb_spec (R1 ws (64 * len ws)) (bv_nbits bv)); [|lia]. cbn [bind].
    replace (lastb + 1 - 1) with lastb by lia.
    eexists. split; [reflexivity|]. split; [reflexivity|]. split; [|cbn [rsw_n_zeros]; lia].
    unfold rsw_dir_ok. cbn [rsw_meta rsw_samples0 rsw_samples1].
    assert (Ep : rev (encW ws lastb :: encW ws (nl / 8) :: ws_meta st) = L ++ [encW ws (nl / 8); encW ws lastb]).
    { cbn [rev]. rewrite IL, rev_involutive, <- app_assoc. reflexivity. }
    rewrite Ep. split; [lens; lia|]. split; [|split; assumption].
    intros S HS. destruct (N.lt_ge_cases S (nl / 8)) as [Hlt|Hge].
    + rewrite nthN_app1 by lia. apply ILa. lia.
    + rewrite nthN_app2 by lia. destruct (N.eq_dec S (nl / 8)) as [->|Hne].
      * replace (nl / 8 - len L) with 0 by lia. apply nthN_0.
      * assert (S = lastb) by lia. subst S. replace (lastb - len L) with (0 + 1) by lia.
        rewrite nthN_succ. apply nthN_0.
Qed.

(* ------------------------------------------------------------------ queries *)
Section WQueries.
Variable bv : bitvec.
Variable r : rswide.
Hypothesis Hwf : bv_wf bv.
Hypothesis Hbv : rsw_bv r = bv.
Let ws := bv_words bv.
Let nl := nlines bv.
Let lastb := (nl + 7) / 8.
Hypothesis Hdir : rsw_dir_ok ws lastb r.
Hypothesis Hnz : rsw_n_zeros r = bv_nbits bv - R1 ws (bv_nbits bv).

Lemma wlen_ws : len ws = 8 * nl.
Proof. apply wf_len. exact Hwf. Qed.

Lemma rsw_superblock_rank_ok S : S <= lastb -> rsw_superblock_rank r S = Val (R1 ws (4096 * S)).
Proof.
  intros HS. destruct Hdir as (_ & Hm & _). unfold rsw_superblock_rank, idx. rewrite (Hm S HS). cbn [bind].
  rewrite RSW_SB_SHIFT_RD_val, N.shiftr_div_pow2. f_equal. change (2 ^ 84) with (4096 ^ N.of_nat 7).
  unfold encW. apply enc_top; [lia|]. intros i _ Hi. apply cW_bound. lia.
Qed.

Lemma rsw_sub_block_rank_ok s0 : s0 / 8 <= lastb -> rsw_sub_block_rank r s0 = Val (R1 ws (512 * s0)).
Proof.
  intros Hs. unfold rsw_sub_block_rank. rewrite rsw_superblock_rank_ok by assumption. cbn [bind].
  destruct (N.eqb_spec (s0 mod 8) 0) as [E|E].
  - do 2 f_equal. lia.
  - destruct Hdir as (_ & Hm & _). unfold idx. rewrite (Hm _ Hs). cbn [bind]. f_equal.
    rewrite RSW_BLK_BITS_RD_val, RSW_BLK_MASK_val, land4095, N.shiftr_div_pow2.
    replace ((7 - s0 mod 8) * 12) with (12 * (7 - s0 mod 8)) by lia. rewrite N.pow_mul_r. change (2 ^ 12) with 4096.
    unfold encW. pose proof (enc_field 4096 (R1 ws (4096 * (s0 / 8))) (cW ws (s0 / 8)) 7) as Hf.
    change (N.of_nat 7) with 7 in Hf.
    rewrite Hf; [|lia|intros i _ Hi; apply cW_bound; lia|lia|lia].
    unfold cW. replace (4096 * (s0 / 8) + 512 * (s0 mod 8)) with (512 * s0) by lia.
    pose proof (R1_mono ws (4096 * (s0 / 8)) (512 * s0)). lia.
Qed.

Lemma rsw_rank1_unchecked_ok i : i <= bv_nbits bv -> rsw_rank1_unchecked r i = Val (R1 ws i).
Proof.
  intros Hi. unfold rsw_rank1_unchecked. destruct (N.eqb_spec i 0) as [->|Hi0].
  - unfold ws. rewrite R1_0. reflexivity.
  - pose proof (wf_nbits bv Hwf) as Hn. pose proof wlen_ws as Hl. fold nl in Hn.
    rewrite shiftr9, land511, Hbv. fold ws.
    rewrite rsw_sub_block_rank_ok by (unfold lastb; lia). cbn [bind].
    destruct (N.ltb_spec ((i - 1) / 512 * 8) (len ws)); [|lia]. cbn [bind].
    unfold bline_rank1. destruct (N.ltb_spec 512 ((i - 1) mod 512 + 1)); [lia|]. cbn [ounwrap bind]. f_equal.
    rewrite (bline_rank1_loop_spec PC) by (rewrite line_of_window; apply words_ok_window, (wf_ok bv Hwf)).
    rewrite <- FL_window_line, rank_spec_window by lia.
    fold (R1 ws (512 * ((i - 1) / 512))). fold (R1 ws (512 * ((i - 1) / 512) + ((i - 1) mod 512 + 1))).
    replace (512 * ((i - 1) / 512) + ((i - 1) mod 512 + 1)) with i by lia.
    pose proof (R1_mono ws (512 * ((i - 1) / 512)) i). lia.
Qed.

Lemma rsw_rank0_unchecked_ok i : i <= bv_nbits bv -> rsw_rank0_unchecked r i = Val (i - R1 ws i).
Proof.
  intros Hi. unfold rsw_rank0_unchecked. rewrite rsw_rank1_unchecked_ok by assumption. cbn [bind].
  pose proof (R1_le ws i). unfold osub. destruct (N.leb_spec (R1 ws i) i); [reflexivity|lia].
Qed.

Let s := bv_abs bv.

Lemma rsw_rank1_ok i :
  rsw_rank1 r i = Val (if (negb (len s =? 0)) && (i <=? len s) then Some (rank1_spec s i) else None).
Proof.
  unfold rsw_rank1, s. rewrite (len_abs bv Hwf), Hbv. unfold bv_is_empty, bv_len.
  destruct (N.eqb_spec (bv_nbits bv) 0) as [E|E]; cbn [negb orb andb]; [reflexivity|].
  destruct (N.ltb_spec (bv_nbits bv) i); destruct (N.leb_spec i (bv_nbits bv)); try lia; [reflexivity|].
  rewrite rsw_rank1_unchecked_ok by assumption. cbn [bind]. rewrite rank1_abs by assumption. reflexivity.
Qed.

Lemma rsw_rank0_ok i :
  rsw_rank0 r i = Val (if (negb (len s =? 0)) && (i <=? len s) then Some (rank0_spec s i) else None).
Proof.
  unfold rsw_rank0. rewrite rsw_rank1_ok. cbn [bind]. unfold s. rewrite (len_abs bv Hwf).
  destruct (N.eqb_spec (bv_nbits bv) 0) as [E|E]; cbn [negb andb]; [reflexivity|].
  destruct (N.leb_spec i (bv_nbits bv)); [|reflexivity].
  rewrite rank1_abs, rank0_abs by assumption. pose proof (R1_le (bv_words bv) i).
  unfold osub. destruct (N.leb_spec (R1 (bv_words bv) i) i); [|lia]. reflexivity.
Qed.

Lemma rsw_n_zeros_ok : rsw_n_zeros_q r = len s - countb s.
Proof. unfold rsw_n_zeros_q, s. rewrite Hnz, (len_abs bv Hwf), (countb_abs bv Hwf). reflexivity. Qed.

Lemma rsw_n_ones_ok : rsw_n_ones r = Val (countb s).
Proof.
  unfold rsw_n_ones, s. rewrite Hnz, Hbv, (countb_abs bv Hwf). unfold bv_len. fold ws.
  pose proof (R1_le ws (bv_nbits bv)). unfold osub.
  destruct (N.leb_spec (bv_nbits bv - R1 ws (bv_nbits bv)) (bv_nbits bv)); [|lia]. f_equal. lia.
Qed.

(* select *)
Definition wblk (one : bool) (r : rswide) (b : N) : outcome N :=
  if one then rsw_superblock_rank r b
  else let! br := rsw_superblock_rank r b in osub (RSW_SUPERBLOCK_WORDS * 64 * b) br.
Definition wsub (one : bool) (r : rswide) (s : N) : outcome N :=
  if one then rsw_sub_block_rank r s
  else let! sr := rsw_sub_block_rank r s in osub (RSW_BLOCK_WORDS * 64 * s) sr.

Lemma rsw_select_subblock_eq one i : rsw_select_subblock one r i =
  let samples := if one then rsw_samples1 r else rsw_samples0 r in
  let! hs := idx samples (i / 8192) in
  let! he0 := idx samples (i / 8192 + 1) in
  let! hs' := scan_while (wblk one r) i hs (1 + he0) (S (length (rsw_meta r))) in
  let! p0 := osub hs' 1 in
  let! position := scan_for (wsub one r) i (p0 * 8) 0 8 in
  let! rank := wsub one r position in
  Val (position, rank).
Proof. destruct one; reflexivity. Qed.

Lemma wblk_ok one b : b <= lastb -> wblk one r b = Val (Rc ws one (4096 * b)).
Proof.
  intros Hb. unfold wblk. rewrite rsw_superblock_rank_ok by assumption. destruct one; [reflexivity|].
  cbn [bind Rc]. rewrite RSW_SUPERBLOCK_WORDS_val. replace (64 * 64 * b) with (4096 * b) by lia.
  pose proof (R1_le ws (4096 * b)). unfold osub. destruct (N.leb_spec (R1 ws (4096 * b)) (4096 * b)); [reflexivity|lia].
Qed.

Lemma wsub_ok one s0 : s0 / 8 <= lastb -> wsub one r s0 = Val (Rc ws one (512 * s0)).
Proof.
  intros Hb. unfold wsub. rewrite rsw_sub_block_rank_ok by assumption. destruct one; [reflexivity|].
  cbn [bind Rc]. rewrite RSW_BLOCK_WORDS_val. replace (8 * 64 * s0) with (512 * s0) by lia.
  pose proof (R1_le ws (512 * s0)).
  unfold osub. destruct (N.leb_spec (R1 ws (512 * s0)) (512 * s0)); [reflexivity|lia].
Qed.

Lemma rsw_select_subblock_ok one k p : select_spec (FL ws) (cbit one) k = Some p ->
  rsw_select_subblock one r k = Val (p / 512, Rc ws one (512 * (p / 512))).
Proof.
  intros Hsel. destruct (Rc_select ws one k p Hsel) as (Hp & HRp & HRp1).
  pose proof wlen_ws as Hl.
  destruct Hdir as (Hplen & _ & Hsam1 & Hsam0).
  assert (Hsam : samples_ok (Rc ws one) 4096 8192 (64 * len ws) lastb (Rc ws one (64 * len ws))
                   (if one then rsw_samples1 r else rsw_samples0 r)) by (destruct one; assumption).
  assert (Hmono : forall i j, i <= j -> Rc ws one i <= Rc ws one j) by (intros; now apply Rc_mono).
  assert (Hkt : k < Rc ws one (64 * len ws)).
  { pose proof (Hmono (p + 1) (64 * len ws)). lia. }
  assert (H4096 : 0 < 4096) by lia. assert (H8192 : 0 < 8192) by lia.
  assert (Hk1 : Rc ws one p <= k) by lia. assert (Hk2 : k < Rc ws one (p + 1)) by lia.
  destruct (samples_bracket _ _ _ _ _ _ _ k p H4096 H8192 Hmono Hsam Hp Hk1 Hk2 Hkt)
    as (hs & he & Ehs & Ehe & Hhs & Hhe & Hhel).
  rewrite rsw_select_subblock_eq. cbv zeta. unfold idx at 1. rewrite Ehs. cbn [bind].
  unfold idx at 1. rewrite Ehe. cbn [bind].
  rewrite (scan_while_find (wblk one r) (fun b => Rc ws one (4096 * b)) k (p / 4096 + 1)).
  - cbn [bind]. unfold osub. destruct (N.leb_spec 1 (p / 4096 + 1)); [|lia]. cbn [bind].
    replace (p / 4096 + 1 - 1) with (p / 4096) by lia.
    rewrite (scan_for_find (wsub one r) (fun s0 => Rc ws one (512 * s0)) k (p / 4096 * 8) (p / 512 - p / 4096 * 8)).
    + cbn [bind]. replace (p / 4096 * 8 + (p / 512 - p / 4096 * 8)) with (p / 512) by lia.
      rewrite wsub_ok by lia. reflexivity.
    + lia.
    + intros j Hj. rewrite wsub_ok by lia. split; [reflexivity|].
      rewrite <- HRp. apply Hmono. lia.
    + intros Hj. rewrite wsub_ok by lia. split; [reflexivity|].
      assert (Rc ws one (p + 1) <= Rc ws one (512 * (p / 4096 * 8 + (p / 512 - p / 4096 * 8 + 1)))) by (apply Hmono; lia).
      lia.
  - lia.
  - lia.
  - intros b Hb1 Hb2. cbv beta. rewrite wblk_ok by lia. split; [reflexivity|].
    rewrite <- HRp. apply Hmono. lia.
  - intros Hlt. cbv beta. rewrite wblk_ok by lia. split; [reflexivity|].
    assert (Rc ws one (p + 1) <= Rc ws one (4096 * (p / 4096 + 1))) by (apply Hmono; lia). lia.
  - unfold len in Hplen. lia.
Qed.

Lemma rsw_select_unchecked_ok one k p : select_spec (map N_of_bool s) (cbit one) k = Some p ->
  rsw_select_unchecked one r k = Val p.
Proof.
  intros Hsel0. pose proof (select_abs bv one k p Hsel0) as Hsel. fold ws in Hsel.
  destruct (Rc_select ws one k p Hsel) as (Hp & HRp & HRp1). pose proof wlen_ws as Hl.
  unfold rsw_select_unchecked. rewrite (rsw_select_subblock_ok one k p Hsel). cbn [bind].
  rewrite Hbv. fold ws.
  destruct (N.ltb_spec (p / 512 * 8) (len ws)); [|lia]. cbn [bind].
  assert (Hle : Rc ws one (512 * (p / 512)) <= k) by (rewrite <- HRp; apply Rc_mono; lia).
  unfold osub. destruct (N.leb_spec (Rc ws one (512 * (p / 512))) k); [|lia]. cbn [bind].
  assert (Hlok : words_ok (line_of ws (p / 512))) by (rewrite line_of_window; apply words_ok_window, (wf_ok bv Hwf)).
  rewrite (bline_select_loop_spec PC SIW one _ Hlok _ 0 0 (p mod 512)).
  - cbn [bind]. f_equal. lia.
  - lia.
  - rewrite N.sub_0_r. apply select_line_local. exact Hsel.
Qed.

Lemma rsw_select1_ok k : rsw_select1 r k = Val (select1_spec s k).
Proof.
  unfold rsw_select1. rewrite rsw_n_ones_ok. cbn [bind]. unfold select1_spec.
  destruct (N.leb_spec (countb s) k) as [Hle|Hlt].
  - symmetry. f_equal. apply select_spec_none_iff. rewrite <- countb_countN. exact Hle.
  - destruct (select_spec_lt (map N_of_bool s) 1 k) as (p & Ep); [rewrite <- countb_countN; exact Hlt|].
    rewrite Ep. rewrite (rsw_select_unchecked_ok true k p Ep). reflexivity.
Qed.

Lemma rsw_select0_ok k : rsw_select0 r k = Val (select0_spec s k).
Proof.
  unfold rsw_select0. fold (rsw_n_zeros_q r). rewrite rsw_n_zeros_ok. unfold select0_spec.
  assert (Hc : countN 0 (map N_of_bool s) = len s - countb s).
  { unfold s. pose proof (count_abs bv false Hwf) as Hc0. cbn [cbit Rc] in Hc0.
    rewrite Hc0, (len_abs bv Hwf), (countb_abs bv Hwf). reflexivity. }
  destruct (N.leb_spec (len s - countb s) k) as [Hle|Hlt].
  - symmetry. f_equal. apply select_spec_none_iff. rewrite Hc. exact Hle.
  - destruct (select_spec_lt (map N_of_bool s) 0 k) as (p & Ep); [rewrite Hc; exact Hlt|].
    rewrite Ep. rewrite (rsw_select_unchecked_ok false k p Ep). reflexivity.
Qed.

End WQueries.
End Wide.
