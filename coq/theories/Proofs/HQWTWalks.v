(* Huffman-shaped quad wavelet tree, part 2: every walk of the model (Model/Huff.v) computes,
   inside the outcome monad, the generic walk of Theory/WaveletMatrix.v over the digit lists
   [hwm_levels]; no Fault occurs under the bounds the theory provides. *)
From Coq Require Import ZArith Lia ZifyBool ZifyN ZifyNat.
From QwtModel Require Import ListX Seq Consts QVec RSQ QWT Huff ListXP ConstsOk QVecP RSQList RSQWord RSQBuild RSQP.
From QwtModel Require Import WaveletMatrix HuffWM Codes HQWTBridge.
Ltac Zify.zify_post_hook ::= Z.div_mod_to_equations.
Arguments N.add : simpl never.
Arguments N.sub : simpl never.
Arguments N.mul : simpl never.
Arguments N.eqb : simpl never.
Arguments N.ltb : simpl never.
Arguments N.leb : simpl never.
Arguments N.pred : simpl never.
Arguments N.of_nat : simpl never.
Arguments N.land : simpl never.
Arguments N.lor : simpl never.
Arguments N.shiftr : simpl never.
Arguments N.shiftl : simpl never.
Arguments N.div : simpl never.
Arguments N.modulo : simpl never.
Arguments N.pow : simpl never.

Lemma rank_spec_lrank D d i : rank_spec D d i = lrank D d i.
Proof. rewrite rank_spec_rk. reflexivity. Qed.

Lemma lrank_mono D d a b : a <= b -> lrank D d a <= lrank D d b.
Proof. apply rk_mono. Qed.

Lemma select_from_ge Y d : forall j pos p, select_from Y d j pos = Some p -> pos <= p.
Proof.
  induction Y as [|y Y IH]; intros j pos p; cbn [select_from]; [discriminate|].
  destruct (y =? d); [destruct (j =? 0)|]; intros H.
  - injection H as <-. lia.
  - apply IH in H. lia.
  - apply IH in H. lia.
Qed.

Lemma select_from_skip X Y d : forall j pos,
  select_from (X ++ Y) d (countN d X + j) pos = select_from Y d j (pos + len X).
Proof.
  induction X as [|x X IH]; intros j pos; cbn [app countN select_from].
  - lens. f_equal; lia.
  - rewrite len_cons. destruct (N.eqb_spec x d) as [->|Hx].
    + destruct (N.eqb_spec (1 + countN d X + j) 0); [lia|].
      replace (N.pred (1 + countN d X + j)) with (countN d X + j) by lia.
      rewrite IH. f_equal. lia.
    + replace (0 + countN d X + j) with (countN d X + j) by lia. rewrite IH. f_equal. lia.
Qed.

Lemma select_spec_ge D d b j p : b <= len D -> select_spec D d (lrank D d b + j) = Some p -> b <= p.
Proof.
  intros Hb. unfold select_spec, lrank.
  pose proof (firstnN_skipnN D b) as E. pose proof (firstnN_len D b) as HL.
  set (X := firstnN b D) in *. set (Y := skipnN b D) in *. rewrite <- E.
  rewrite select_from_skip. intros H. apply select_from_ge in H. lia.
Qed.

Definition acc_step (r d : N) : N := N.lor (N.shiftl r 2 mod 2 ^ 32) d.

Definition numb (lv : N) (path : list (N * N)) : list (N * N * N) :=
  map (fun '(lv, (b, rb)) => (lv, b, rb)) (number_levels path lv).
Lemma numb_cons lv b rb path : numb lv ((b, rb) :: path) = (lv, b, rb) :: numb (lv + 1) path.
Proof. reflexivity. Qed.
Lemma numb_length path : forall lv, length (numb lv path) = length path.
Proof.
  induction path as [|[b rb] path IH]; intros lv; [reflexivity|].
  rewrite numb_cons. cbn [length]. now rewrite IH.
Qed.
Lemma select_down_length levels : forall digs b, length levels = length digs ->
  length (select_down levels digs b) = length levels.
Proof.
  induction levels as [|D levels IH]; intros [|d digs] b H; try discriminate H; [reflexivity|].
  cbn [select_down length]. rewrite IH; [reflexivity|]. now injection H.
Qed.

Section Walks.
Variable tab : list pcode.
Variable s : list N.
Hypothesis Htab : len tab < 2 ^ 64.
Hypothesis Hwf : forall x, In x s -> exists c, nthN tab x = Some c /\ code_wf 2 c = true.
Variable bsize : N.
Hypothesis Hn : len s < RSQ_MAXN.

Notation dig := (code_dig 2 tab).
Notation clen := (code_clen 2 tab).
Notation QQ l := (Q N 4 dig clen l s).
Notation LV l0 n := (hwm_levels N 4 dig clen l0 n s).
Notation digs l0 n c := (digits_of N dig l0 n c).

Variable qvs : list rsq.
Variable lens : list N.
Variable M : nat.
Hypothesis LOK : forall l, (l < M)%nat ->
  exists r, nthN qvs (N.of_nat l) = Some r /\ rsq_spec bsize r (map (dig l) (QQ l)).
Hypothesis LENS : forall l, (l < M)%nat -> nthN lens (N.of_nat l) = Some (len (QQ l)).
Set Default Proof Using "All".

Lemma QQ_len_lt l : len (QQ l) < 2 ^ 64.
Proof.
  pose proof (Q_len_le N 4 dig (dig_lt tab) clen l s) as H. rewrite RSQ_MAXN_val in Hn.
  assert (8796093018112 < 2 ^ 64) by reflexivity. lia.
Qed.

(* ---------- rank ---------- *)
Lemma hq_rank_walk_ok c code : nthN tab (sym_index c) = Some code ->
  forall n l p i, (l + n <= M)%nat ->
  (forall m, (m < n)%nat -> fst (rank_walk (LV l m) (digs l m c) p i) <= len (QQ (l + m)%nat) /\
                            snd (rank_walk (LV l m) (digs l m c) p i) <= len (QQ (l + m)%nat)) ->
  hq_rank_walk bsize qvs (pc_content code) (pc_len code - 2 * (N.of_nat l + 1)) p i (N.of_nat l) n =
  Val (rank_walk (LV l n) (digs l n c) p i).
Proof.
  intros Hc. induction n as [|n IH]; intros l p i HM HB; [reflexivity|].
  cbn [hq_rank_walk]. rewrite <- (dig_eq tab c code l Hc).
  destruct (LOK l ltac:(lia)) as (r & Er & Hr). unfold idx at 1. rewrite Er. cbn [bind].
  pose proof (HB 0%nat ltac:(lia)) as B0. cbn [hwm_levels rank_walk fst snd] in B0.
  rewrite Nat.add_0_r in B0.
  rewrite (rs_occs_u _ _ _ Hr) by apply dig_le3. cbn [bind].
  rewrite !(rs_rank_u _ _ _ Hr) by (try apply dig_le3; rewrite len_map; lia). cbn [bind].
  replace (pc_len code - 2 * (N.of_nat l + 1) - 2) with (pc_len code - 2 * (N.of_nat (S l) + 1)) by lia.
  replace (N.of_nat l + 1) with (N.of_nat (S l)) by lia.
  rewrite digits_of_S. cbn [hwm_levels rank_walk]. rewrite !rank_spec_lrank. unfold loccs_smaller.
  rewrite !(N.add_comm (lrank _ _ _)).
  apply IH; [lia|]. intros m Hm. specialize (HB (S m) ltac:(lia)).
  rewrite digits_of_S in HB. cbn [hwm_levels rank_walk] in HB. unfold loccs_smaller in HB.
  rewrite Nat.add_succ_r in HB. exact HB.
Qed.

(* ---------- prefetch estimation ---------- *)
Lemma hq_estimate_walk_ok c code : nthN tab (sym_index c) = Some code ->
  forall n l rs re p i, (l + n < M)%nat -> rs <= p -> re <= i ->
  (forall m, (m <= n)%nat -> fst (rank_walk (LV l m) (digs l m c) p i) <= len (QQ (l + m)%nat) /\
                             snd (rank_walk (LV l m) (digs l m c) p i) <= len (QQ (l + m)%nat)) ->
  hq_estimate_walk bsize qvs (pc_content code) (pc_len code - 2 * (N.of_nat l + 1)) rs re (N.of_nat l) n = Val tt.
Proof.
  intros Hc. induction n as [|n IH]; intros l rs re p i HM Hrs Hre HB; [reflexivity|].
  cbn [hq_estimate_walk]. rewrite <- (dig_eq tab c code l Hc).
  destruct (LOK l ltac:(lia)) as (r & Er & Hr). unfold idx at 1. rewrite Er. cbn [bind].
  pose proof (HB 0%nat ltac:(lia)) as B0. cbn [hwm_levels rank_walk fst snd] in B0.
  rewrite Nat.add_0_r in B0.
  rewrite (rs_occs_u _ _ _ Hr) by apply dig_le3. cbn [bind].
  destruct (rs_block _ _ _ Hr (dig l c) rs (dig_le3 tab l c)) as (a & Ea & Ha); [rewrite len_map; lia|].
  destruct (rs_block _ _ _ Hr (dig l c) re (dig_le3 tab l c)) as (b & Eb & Hb'); [rewrite len_map; lia|].
  rewrite Ea, Eb. cbn [bind].
  destruct (LOK (S l) ltac:(lia)) as (r' & Er' & _).
  replace (pc_len code - 2 * (N.of_nat l + 1) - 2) with (pc_len code - 2 * (N.of_nat (S l) + 1)) by lia.
  replace (N.of_nat l + 1) with (N.of_nat (S l)) by lia.
  unfold idx at 1. rewrite Er'. cbn [bind].
  rewrite rank_spec_lrank in Ha, Hb'.
  pose proof (lrank_mono (map (dig l) (QQ l)) (dig l c) rs p Hrs) as M1.
  pose proof (lrank_mono (map (dig l) (QQ l)) (dig l c) re i Hre) as M2.
  apply (IH (S l) _ _ (loccs_smaller (map (dig l) (QQ l)) (dig l c) + lrank (map (dig l) (QQ l)) (dig l c) p)
            (loccs_smaller (map (dig l) (QQ l)) (dig l c) + lrank (map (dig l) (QQ l)) (dig l c) i));
    [lia|unfold loccs_smaller; lia|unfold loccs_smaller; lia|].
  intros m Hm. specialize (HB (S m) ltac:(lia)).
  rewrite digits_of_S in HB. cbn [hwm_levels rank_walk] in HB.
  rewrite Nat.add_succ_r in HB. exact HB.
Qed.

(* ---------- get ---------- *)
Lemma hq_get_walk_ok t : h_qvs t = qvs -> h_lens t = lens ->
  forall n l cur res sh, (l + n <= M)%nat ->
  hq_get_walk bsize t cur res sh (N.of_nat l) n =
  Val (fold_left acc_step (get_walk (LV l n) cur) res, sh + 2 * len (get_walk (LV l n) cur)).
Proof.
  intros Eq El. induction n as [|n IH]; intros l cur res sh HM.
  - cbn [hq_get_walk hwm_levels get_walk fold_left]. lens. do 2 f_equal. lia.
  - cbn [hq_get_walk hwm_levels get_walk]. rewrite El, Eq. unfold idx at 1.
    rewrite (LENS l) by lia. cbn [bind].
    destruct (LOK l ltac:(lia)) as (r & Er & Hr).
    destruct (N.leb_spec (len (QQ l)) cur) as [Hle|Hlt].
    + rewrite nthN_none by (rewrite len_map; exact Hle). cbn [fold_left]. lens.
      do 2 f_equal. lia.
    + destruct (nthN_lt_some (map (dig l) (QQ l)) cur) as (d & Ed); [rewrite len_map; exact Hlt|].
      rewrite Ed. unfold idx at 1. rewrite Er. cbn [bind].
      rewrite (rs_get_u _ _ _ Hr _ _ Ed). cbn [bind].
      assert (Hd : d <= 3).
      { apply nthN_In in Ed. apply in_map_iff in Ed as (x & <- & _). apply dig_le3. }
      rewrite (rs_occs_u _ _ _ Hr) by exact Hd. cbn [bind].
      rewrite (rs_rank_u _ _ _ Hr) by (try exact Hd; rewrite len_map; lia). cbn [bind].
      replace (N.of_nat l + 1) with (N.of_nat (S l)) by lia.
      rewrite IH by lia. cbn [fold_left]. rewrite len_cons, rank_spec_lrank.
      unfold loccs_smaller. rewrite (N.add_comm (lrank _ _ _)). fold (acc_step res d).
      do 2 f_equal. lia.
Qed.

(* ---------- select ---------- *)
Lemma hq_select_down_ok c code : nthN tab (sym_index c) = Some code ->
  forall n l b, (l + n <= M)%nat ->
  Forall2 (fun '(b, rb) l => b <= len (QQ l) /\ rb <= b)
          (select_down (LV l n) (digs l n c) b) (List.seq l n) ->
  hq_select_down bsize qvs (pc_content code) (pc_len code - 2 * (N.of_nat l + 1)) b (N.of_nat l) n =
  Val (Some (select_down (LV l n) (digs l n c) b)).
Proof.
  intros Hc. induction n as [|n IH]; intros l b HM HB; [reflexivity|].
  rewrite digits_of_S in HB. rewrite digits_of_S. cbn [hwm_levels select_down List.seq] in HB |- *.
  inversion HB as [|? ? ? ? HB0 HB']; subst. cbv beta iota in HB0. destruct HB0 as [B1 B2].
  cbn [hq_select_down]. rewrite <- (dig_eq tab c code l Hc).
  destruct (LOK l ltac:(lia)) as (r & Er & Hr). unfold idx at 1. rewrite Er. cbn [bind].
  rewrite (rs_rank _ _ _ Hr). rewrite len_map.
  pose proof (dig_le3 tab l c) as Hd.
  destruct (N.leb_spec (dig l c) 3); [|lia]. destruct (N.leb_spec b (len (QQ l))); [|lia].
  cbn [andb bind]. rewrite (rs_occs_u _ _ _ Hr) by exact Hd. cbn [bind].
  replace (pc_len code - 2 * (N.of_nat l + 1) - 2) with (pc_len code - 2 * (N.of_nat (S l) + 1)) by lia.
  replace (N.of_nat l + 1) with (N.of_nat (S l)) by lia.
  rewrite rank_spec_lrank. unfold loccs_smaller in *.
  rewrite (IH (S l)) by (try lia; exact HB'). cbn [bind]. reflexivity.
Qed.

Lemma hq_select_up_app repr : forall P1 P2 sh res,
  hq_select_up bsize qvs repr sh res (P1 ++ P2) =
  bind (hq_select_up bsize qvs repr sh res P1)
       (fun r => match r with
                 | None => Val None
                 | Some r' => hq_select_up bsize qvs repr (sh + 2 * len P1) r' P2
                 end).
Proof.
  induction P1 as [|[[lv b] rb] P1 IH]; intros P2 sh res.
  - cbn [app hq_select_up bind]. lens. f_equal. lia.
  - cbn [app hq_select_up]. destruct (idx qvs lv) as [qv|f]; cbn [bind]; [|reflexivity].
    destruct (2 ^ 64 <=? rb + res); [reflexivity|].
    destruct (rsq_select bsize qv _ (rb + res)) as [[p|]|f]; cbn [bind]; try reflexivity.
    destruct (osub p b) as [r'|f]; cbn [bind]; [|reflexivity].
    rewrite IH, len_cons.
    replace (sh + 2 + 2 * len P1) with (sh + 2 * (len P1 + 1)) by lia. reflexivity.
Qed.

Lemma hq_select_up_ok c code : nthN tab (sym_index c) = Some code ->
  pc_len code = 2 * N.of_nat (clen c) -> (clen c <= M)%nat ->
  forall n l b k, (l + n = clen c)%nat ->
  Forall2 (fun '(b, rb) l => b <= len (QQ l) /\ rb <= b)
          (select_down (LV l n) (digs l n c) b) (List.seq l n) ->
  hq_select_up bsize qvs (pc_content code) 0 k
    (rev (numb (N.of_nat l) (select_down (LV l n) (digs l n c) b))) =
  Val (select_up (rev (hpath N 4 dig clen s c l n b)) k).
Proof.
  intros Hc Hlen HcM. induction n as [|n IH]; intros l b k Hl HB; [reflexivity|].
  rewrite select_up_rev_hpath_S.
  rewrite digits_of_S in HB. rewrite digits_of_S. cbn [hwm_levels select_down List.seq] in HB |- *.
  inversion HB as [|? ? ? ? HB0 HB']; subst. cbv beta iota in HB0. destruct HB0 as [B1 B2].
  rewrite numb_cons. cbn [rev]. rewrite hq_select_up_app.
  replace (N.of_nat l + 1) with (N.of_nat (S l)) by lia.
  rewrite (IH (S l)) by (try lia; exact HB'). cbn [bind].
  destruct (select_up _ k) as [j|]; [|reflexivity].
  cbn [hq_select_up].
  assert (EL : 0 + 2 * len (rev (numb (N.of_nat (S l))
                 (select_down (LV (S l) n) (digs (S l) n c)
                    (lrank (map (dig l) (QQ l)) (dig l c) b + loccs_smaller (map (dig l) (QQ l)) (dig l c))))) =
               pc_len code - 2 * (N.of_nat l + 1)).
  { unfold len. rewrite rev_length, numb_length, select_down_length;
      rewrite (hwm_levels_length N 4 dig clen); [lia|]. now rewrite digits_of_length. }
  rewrite EL, <- (dig_eq tab c code l Hc).
  destruct (LOK l ltac:(lia)) as (r & Er & Hr). unfold idx at 1. rewrite Er. cbn [bind].
  pose proof (dig_le3 tab l c) as Hd. pose proof (QQ_len_lt l) as HQ.
  unfold up_step.
  destruct (N.leb_spec (2 ^ 64) (lrank (map (dig l) (QQ l)) (dig l c) b + j)) as [Hbig|Hsmall].
  - rewrite select_spec_none; [reflexivity|].
    pose proof (countN_le_len (dig l c) (map (dig l) (QQ l))) as H. rewrite len_map in H. lia.
  - rewrite (rs_select _ _ _ Hr) by exact Hsmall.
    destruct (N.leb_spec (dig l c) 3); [|lia]. cbn [bind].
    destruct (select_spec _ _ _) as [p|] eqn:Ep; [|reflexivity].
    apply select_spec_ge in Ep; [|rewrite len_map; exact B1].
    unfold osub. destruct (N.leb_spec b p); [|lia]. destruct (N.ltb_spec p b); [lia|].
    cbn [bind hq_select_up]. reflexivity.
Qed.

End Walks.
