(* C03: the binary wavelet tree (Model/Huff.v, second half: wt_build and the wt_* queries), in
   both flavours, answers every query exactly like the list specification (Spec/Seq.v) and never
   faults, for EVERY sequence of fewer than RSQ_MAXN symbols of any allowed width and, for the
   compressed (Huffman-shaped) tree, EVERY wavelet-matrix-compatible code table.

   Structure:
     BinWTBase   one level ([lvl_spec]: an RSWide vector over a NON-EMPTY 0/1 digit list), the
                 bridge (rank1 + n_zeros, i - rank1)  <->  (occs_smaller + rank) on 0/1 lists,
                 one_bit / binary digits / stable 2-way partition / msb;
     BinWTWalks  the model walks compute the generic walks of Theory/WaveletMatrix.v (shared by
                 both flavours; the flavour only decides how a bit of the queried symbol is read);
     BinWTBuild  construction of a level (bv_from_bools + rsw_new, by BitVecP and RSBinP) and of
                 the plain tree (levels = [wm_levels], arity 2);
     BinWTPlain  the plain queries;
     BinWTHuff   the compressed tree: code table -> 1-bit digits (Theory/Codes.v), construction
                 (levels = [hwm_levels], never empty), decode tables, the compressed queries;
     BinWTP      (this file) the specifications, the theorems, examples, Print Assumptions.

   [popcount] and [select_in_word] enter through RSBinP.rsw_correct only: the two construction
   theorems are stated in a Section with the same two hypotheses as RSBinP.v and carry them as
   explicit premises once the Section is closed.  The other theorems are closed. *)
From Coq Require Import ZArith Lia ZifyBool ZifyN ZifyNat.
From QwtModel Require Import ListX Seq QWT BitVec RSBin Huff ListXP QVecP RSQList RSQWord RSQBuild RSBinL.
From QwtModel Require Import WaveletMatrix HuffWM Codes QWTArith HQWTBridge HQWTWalks HQWTCode.
From QwtModel Require Import BinWTBase BinWTWalks BinWTBuild BinWTPlain BinWTHuff.
From QwtModel Require HQWTP.
Ltac Zify.zify_post_hook ::= Z.div_mod_to_equations.
Arguments N.add : simpl never.
Arguments N.sub : simpl never.
Arguments N.mul : simpl never.
Arguments N.eqb : simpl never.
Arguments N.ltb : simpl never.
Arguments N.leb : simpl never.
Arguments N.pred : simpl never.
Arguments N.of_nat : simpl never.
Arguments N.land : simpl never.
Arguments N.lor : simpl never.
Arguments N.shiftr : simpl never.
Arguments N.shiftl : simpl never.
Arguments N.div : simpl never.
Arguments N.modulo : simpl never.
Arguments N.pow : simpl never.
Arguments N.sqrt : simpl never.
Arguments N.log2 : simpl never.
Arguments N.max : simpl never.

Definition width_ok (w : N) : Prop := w = 8 \/ w = 16 \/ w = 32 \/ w = 64 \/ w = 128.

(* ---------------------------------------------------------------- specifications *)
(* plain tree *)
Definition wt_spec (w : N) (t : bwt) (seq : list N) : Prop :=
  w_n t = len seq /\
  w_n_levels t = (if len seq =? 0 then 0 else msb (maxN seq) + 1) /\
  (forall i, wt_get w false t i = Val (nthN seq i)) /\
  (forall c i, c < 2 ^ w -> wt_rank w false t c i =
       Val (if negb (len seq =? 0) && (i <=? len seq) && (c <=? maxN seq) then Some (rank_spec seq c i) else None)) /\
  (forall c k, c < 2 ^ w -> k < 2 ^ 64 -> wt_select w false t c k =
       Val (if negb (len seq =? 0) && (c <=? maxN seq) then select_spec seq c k else None)) /\
  (forall i x, nthN seq i = Some x -> wt_get_unchecked w false t i = Val x) /\
  (forall c i, 0 < len seq -> c <= maxN seq -> i <= len seq -> wt_rank_unchecked w false t c i = Val (rank_spec seq c i)) /\
  (forall c k p, c < 2 ^ w -> select_spec seq c k = Some p -> wt_select_unchecked w false t c k = Val p).

(* Huffman-shaped tree: the code table as in HQWTP.table_ok, with 1-bit fragments *)
Definition table_ok2 (seq : list N) (tab : list pcode) : Prop :=
  len tab < 2 ^ 64 /\
  (forall x, In x seq -> exists c, nthN tab x = Some c /\ code_wf 1 c = true) /\
  (forall x c, nthN tab x = Some c -> pc_len c <> 0 -> In x seq) /\
  (forall syms, (forall x, In x syms -> In x seq) -> code_wm_ok 1 tab syms = true) /\
  (forall x y c, In x seq -> In y seq -> nthN tab x = Some c -> nthN tab y = Some c -> x = y).

Definition hwt_spec (w : N) (t : bwt) (seq : list N) : Prop :=
  w_n t = len seq /\
  (forall i, wt_get w true t i = Val (nthN seq i)) /\
  (forall c i, c < 2 ^ w -> wt_rank w true t c i =
       Val (if (i <=? len seq) && (0 <? countN c seq) then Some (rank_spec seq c i) else None)) /\
  (forall c k, c < 2 ^ w -> k < 2 ^ 64 -> wt_select w true t c k = Val (select_spec seq c k)) /\
  (forall i x, nthN seq i = Some x -> wt_get_unchecked w true t i = Val x) /\
  (forall c i, 0 < countN c seq -> i <= len seq -> wt_rank_unchecked w true t c i = Val (rank_spec seq c i)) /\
  (forall c k p, c < 2 ^ w -> select_spec seq c k = Some p -> wt_select_unchecked w true t c k = Val p).

(* ---------------------------------------------------------------- the partition (part of C17) *)
Theorem stable_partition_of_2_correct : forall w seq shift, width_ok w -> shift < w ->
  Forall (fun x => x < 2 ^ w) seq ->
  stable_partition_of_2 w seq shift =
  Val (filter (fun x => (x / 2 ^ shift) mod 2 =? 0) seq ++ filter (fun x => (x / 2 ^ shift) mod 2 =? 1) seq).
Proof. intros w seq shift _ Hs _. now apply stable_partition_of_2_val. Qed.

(* in the vocabulary of Theory/WaveletMatrix.v: [parts] on the bit of level l of L levels *)
Corollary stable_partition_of_2_parts : forall w L l s, N.of_nat (L - 1 - l) < w ->
  stable_partition_of_2 w s (N.of_nat (L - 1 - l)) = Val (parts N (bdig L) l 2 s).
Proof. exact stable_partition_2_parts. Qed.

(* ---------------------------------------------------------------- the 0/1 bridge *)
(* On a 0/1 digit list D (D = map N_of_bool of the level's bits) the pair (rank1, n_zeros) of the
   binary code gives the generic wavelet-matrix mapping occs_smaller + rank. *)
Theorem bin_bridge : forall D i, bin D -> i <= len D ->
  loccs_smaller D 0 = 0 /\
  loccs_smaller D 1 = len D - countN 1 D /\
  lrank D 1 i + loccs_smaller D 1 = loccs_smaller D 1 + lrank D 1 i /\
  lrank D 1 i <= i /\
  i - lrank D 1 i = loccs_smaller D 0 + lrank D 0 i.
Proof.
  intros D i HD Hi. destruct (bin_map_0 D i HD Hi) as [H1 H2].
  split; [apply loccs_smaller_0|]. split; [now apply loccs_smaller_1|]. split; [lia|]. split; assumption.
Qed.

(* the same on the stored bits *)
Corollary bin_bridge_bits : forall (B : list bool) i, i <= len B ->
  let D := map N_of_bool B in
  rank1_spec B i + (len B - countb B) = loccs_smaller D 1 + lrank D 1 i /\
  rank1_spec B i <= i /\
  i - rank1_spec B i = loccs_smaller D 0 + lrank D 0 i.
Proof.
  intros B i Hi D.
  assert (HD : bin D).
  { unfold D, bin. apply Forall_forall. intros d Hd. apply in_map_iff in Hd as (b & <- & _).
    destruct b; cbn [N_of_bool]; lia. }
  assert (HL : len D = len B) by apply len_map.
  destruct (bin_bridge D i HD ltac:(lia)) as (_ & E1 & _ & E2 & E3).
  unfold rank1_spec. fold D. rewrite rank_spec_lrank, countb_countN. fold D. repeat split; lia.
Qed.

(* ---------------------------------------------------------------- the empty sequence *)
Theorem wt_build_empty : forall w compressed tab, exists t, wt_build w compressed [] tab = Val t /\
  (forall i, wt_get w compressed t i = Val None) /\
  (forall c i, wt_rank w compressed t c i = Val None) /\
  (forall c k, wt_select w compressed t c k = Val None).
Proof.
  intros w compressed tab. exists (mk_bwt 0 0 None None None [] []). split; [reflexivity|].
  split; [|split].
  - intros i. unfold wt_get. cbn [w_n]. destruct (N.leb_spec 0 i); [reflexivity|lia].
  - intros c i. unfold wt_rank. cbn [w_n]. reflexivity.
  - intros c k. unfold wt_select. cbn [w_n]. reflexivity.
Qed.

Lemma wt_spec_empty w : wt_spec w (mk_bwt 0 0 None None None [] []) [].
Proof.
  unfold wt_spec. change (len (@nil N)) with 0. change (0 =? 0) with true. cbv iota. cbn [negb andb].
  split; [reflexivity|]. split; [reflexivity|].
  split; [|split; [|split; [|split; [|split]]]].
  - intros i. unfold wt_get. cbn [w_n]. destruct (N.leb_spec 0 i); [reflexivity|lia].
  - intros c i _. reflexivity.
  - intros c k _ _. reflexivity.
  - intros i x H. discriminate H.
  - intros c i H. lia.
  - intros c k p _ H. discriminate H.
Qed.

Lemma wt_build_plain_cons w x0 seq' :
  wt_build w false (x0 :: seq') [] =
  (let! (bvs, lens) := wt_levels w false (x0 :: seq') [] (blevels (x0 :: seq')) 1 (N.to_nat (blevels (x0 :: seq'))) in
   Val (mk_bwt (len (x0 :: seq')) (blevels (x0 :: seq')) (Some (maxN (x0 :: seq'))) None None bvs lens)).
Proof. reflexivity. Qed.

Lemma wt_build_huff_cons w x0 seq' tab :
  wt_build w true (x0 :: seq') tab =
  (let! (bvs, lens) := wt_levels w true (x0 :: seq') tab (maxN (map pc_len tab)) 1 (N.to_nat (maxN (map pc_len tab))) in
   Val (mk_bwt (len (x0 :: seq')) (maxN (map pc_len tab)) None (Some tab)
               (Some (decode_tables tab (maxN (map pc_len tab)))) bvs lens)).
Proof. reflexivity. Qed.

(* ---------------------------------------------------------------- the constructors *)
Section BinWT.
Hypothesis select_in_word_correct : forall w k, w < 2 ^ 64 -> k < 128 ->
  select_in_word w k = Val (match select_spec (bits_of 64 w) 1 k with Some p => p | None => 64 end).
Hypothesis popcount_correct : forall n x, x < 2 ^ N.of_nat n -> popcount x = countN 1 (bits_of n x).

Theorem wt_build_correct : forall w seq, width_ok w -> Forall (fun x => x < 2 ^ w) seq ->
  len seq < RSQ_MAXN ->
  exists t, wt_build w false seq [] = Val t /\ wt_spec w t seq.
Proof.
  intros w seq Hwok HF Hn.
  assert (Hwpos : 0 < w) by (unfold width_ok in Hwok; lia).
  destruct seq as [|x0 seq'].
  - exists (mk_bwt 0 0 None None None [] []). split; [reflexivity|apply wt_spec_empty].
  - rewrite wt_build_plain_cons. set (s := x0 :: seq') in *.
    set (L := N.to_nat (blevels s)).
    assert (HLN : blevels s = N.of_nat L) by (unfold L; lia).
    assert (Hpos : 0 < len s) by (unfold s; rewrite len_cons; lia).
    assert (Hpow : 0 < 2 ^ w) by (apply N.neq_0_lt_0, N.pow_nonzero; lia).
    pose proof (maxN_lt s (2 ^ w) Hpow HF) as Hmax.
    pose proof (blevels_le s w Hwpos Hmax) as Hle. rewrite HLN in Hle.
    pose proof (blevels_pos s) as HLpos. rewrite HLN in HLpos.
    pose proof (blevels_bound s) as Hm. rewrite HLN in Hm.
    destruct (wt_levels_plain_ok select_in_word_correct popcount_correct w L s Hpos Hn Hle L 0%nat eq_refl)
      as (bvs & lens & E & HT).
    change (blev L 0 s) with s in E. change (N.of_nat 0 + 1) with 1 in E.
    fold L. rewrite HLN, E. cbn [bind]. eexists. split; [reflexivity|].
    cbn [Nat.add] in HT.
    assert (HL : (0 < L)%nat) by lia.
    assert (Hxw : forall x, In x s -> x < 2 ^ w) by (rewrite Forall_forall in HF; exact HF).
    unfold wt_spec. replace (len s =? 0) with false by lia. cbv iota. cbn [negb andb].
    split; [reflexivity|]. split; [cbn [w_n_levels]; unfold blevels in HLN; lia|].
    split; [|split; [|split; [|split; [|split]]]].
    + intros i. exact (wt_get_ok w L s bvs lens HT HL Hle Hpos Hxw Hm i).
    + intros c i _. exact (wt_rank_ok w L s bvs lens HT HL Hle Hpos Hxw Hm c i).
    + intros c k _ _. destruct (N.leb_spec c (maxN s)) as [Hc|Hc].
      * exact (wt_select_ok w L s bvs lens HT HL Hle Hpos Hxw Hm c k Hc).
      * exact (wt_select_big w L s bvs lens HT HL Hle Hpos Hxw Hm c k Hc).
    + intros i x Ex. exact (wt_get_unchecked_ok w L s bvs lens HT HL Hle Hpos Hxw Hm i x Ex).
    + intros c i _ Hc Hi. exact (wt_rank_unchecked_ok w L s bvs lens HT HL Hle Hpos Hxw Hm c i Hc Hi).
    + intros c k p _ Ep. unfold wt_select_unchecked.
      rewrite (wt_select_ok w L s bvs lens HT HL Hle Hpos Hxw Hm c k).
      * rewrite Ep. reflexivity.
      * unfold select_spec in Ep. apply select_from_rk in Ep. destruct Ep as (q & _ & Enq & _).
        apply maxN_ge. eapply nthN_In'. exact Enq.
Qed.

Theorem hwt_build_correct : forall w seq tab, width_ok w -> Forall (fun x => x < 2 ^ w) seq ->
  len seq < RSQ_MAXN -> seq <> [] -> table_ok2 seq tab ->
  exists t, wt_build w true seq tab = Val t /\ hwt_spec w t seq.
Proof.
  intros w seq tab _ HF Hn Hne (Htab & Hwf & Hocc & Hok & Hdist).
  destruct (xmax_exists tab seq Hne Htab Hwf Hocc) as (xm & Hxm & Exm).
  destruct seq as [|x0 seq']; [congruence|]. rewrite wt_build_huff_cons. set (s := x0 :: seq') in *.
  specialize (Hok s (fun x H => H)).
  assert (Hpos : 0 < len s) by (unfold s; rewrite len_cons; lia).
  assert (HT0 : fin_tail tab s 0 []) by (intros x []).
  destruct (wt_levels_huff_ok tab s Htab Hwf select_in_word_correct popcount_correct Hn xm Hxm
              w (maxN (map pc_len tab)) (N.to_nat (maxN (map pc_len tab))) 0%nat [] ltac:(lia) HT0)
    as (bvs & lens & E & HT).
  cbn [Q] in E. rewrite app_nil_r in E. change (N.of_nat 0 + 1) with 1 in E.
  rewrite E. cbn [bind]. eexists. split; [reflexivity|]. cbn [Nat.add] in HT.
  unfold hwt_spec. split; [reflexivity|].
  split; [|split; [|split; [|split; [|split]]]].
  - intros i. exact (hwt_get_ok w tab s HF Hn Hpos Htab Hwf Hocc Hok Hdist bvs lens HT i).
  - intros c i _. exact (hwt_rank_ok w tab s HF Hn Hpos Htab Hwf Hocc Hok Hdist bvs lens HT c i).
  - intros c k _ _. exact (hwt_select_ok w tab s HF Hn Hpos Htab Hwf Hocc Hok Hdist bvs lens HT c k).
  - intros i x Ex. exact (hwt_get_unchecked_ok w tab s HF Hn Hpos Htab Hwf Hocc Hok Hdist bvs lens HT i x Ex).
  - intros c i Hc Hi. apply countN_pos_In in Hc.
    exact (hwt_rank_unchecked_ok w tab s HF Hn Hpos Htab Hwf Hocc Hok Hdist bvs lens HT c i Hc Hi).
  - intros c k p _ Ep. unfold wt_select_unchecked.
    rewrite (hwt_select_ok w tab s HF Hn Hpos Htab Hwf Hocc Hok Hdist bvs lens HT c k), Ep. reflexivity.
Qed.

End BinWT.

(* the compressed constructor on the empty sequence (not covered by hwt_build_correct, whose
   statement asks seq <> []): the specification holds as well *)
Theorem hwt_build_nil : forall w tab, exists t, wt_build w true [] tab = Val t /\ hwt_spec w t [].
Proof.
  intros w tab. exists (mk_bwt 0 0 None None None [] []). split; [reflexivity|].
  unfold hwt_spec. split; [reflexivity|]. split; [|split; [|split; [|split; [|split]]]].
  - intros i. unfold wt_get. cbn [w_n]. destruct (N.leb_spec 0 i); [reflexivity|lia].
  - intros c i _. cbn [countN]. change (0 <? 0) with false. rewrite andb_false_r. reflexivity.
  - intros c k _ _. reflexivity.
  - intros i x H. discriminate H.
  - intros c i H. cbn [countN] in H. lia.
  - intros c k p _ H. discriminate H.
Qed.

(* ---------------------------------------------------------------- a checker for table_ok2 *)
Definition table_okb2_weak (seq : list N) (tab : list pcode) : bool :=
  (len tab <? 2 ^ 64) &&
  forallb (fun x => match nthN tab x with Some c => code_wf 1 c | None => false end) seq &&
  forallb (fun '(i, c) => (pc_len c =? 0) || existsb (fun y => y =? i) seq) (number_levels tab 0) &&
  code_wm_ok 1 tab seq.
Definition table_okb2 (seq : list N) (tab : list pcode) : bool :=
  table_okb2_weak seq tab && HQWTP.codes_distinctb seq tab.

(* the four conditions on the table without distinctness of the entries *)
Definition table_ok2_weak (seq : list N) (tab : list pcode) : Prop :=
  len tab < 2 ^ 64 /\
  (forall x, In x seq -> exists c, nthN tab x = Some c /\ code_wf 1 c = true) /\
  (forall x c, nthN tab x = Some c -> pc_len c <> 0 -> In x seq) /\
  (forall syms, (forall x, In x syms -> In x seq) -> code_wm_ok 1 tab syms = true).

Lemma table_okb2_weak_sound seq tab : table_okb2_weak seq tab = true -> table_ok2_weak seq tab.
Proof.
  unfold table_okb2_weak. intros H.
  apply andb_prop in H as [H H4]. apply andb_prop in H as [H H3]. apply andb_prop in H as [H1 H2].
  rewrite forallb_forall in H2, H3. split; [lia|]. split; [|split].
  - intros x Hx. specialize (H2 x Hx). destruct (nthN tab x) as [c|]; [eauto|discriminate].
  - intros x c Hx Hne.
    assert (Hin : In (x, c) (number_levels tab 0)).
    { apply number_levels_In. rewrite N.sub_0_r. split; [lia|exact Hx]. }
    specialize (H3 _ Hin). cbv beta iota in H3.
    destruct (N.eqb_spec (pc_len c) 0); [contradiction|]. cbn [orb] in H3.
    apply existsb_exists in H3 as (y & Hy & E). apply N.eqb_eq in E. now subst.
  - intros syms Hs. exact (HQWTP.wm_ok_sub _ _ _ _ _ H4 Hs).
Qed.

Theorem table_okb2_sound seq tab : table_okb2 seq tab = true -> table_ok2 seq tab.
Proof.
  unfold table_okb2. intros H. apply andb_prop in H as [H1 H2].
  destruct (table_okb2_weak_sound seq tab H1) as (G1 & G2 & G3 & G4).
  pose proof (HQWTP.codes_distinctb_sound seq tab H2) as G5.
  unfold table_ok2. repeat split; assumption.
Qed.

(* ---------------------------------------------------------------- distinctness is needed *)
(* As for the quad tree (HQWTP.codes_distinct_needed): wavelet-matrix compatibility compares only
   codes of different lengths, so it accepts a table giving two occurring symbols the same entry;
   the model (like the code) then decodes both as the smaller symbol and counts them together.
   Hence the fifth conjunct of table_ok2. *)
Definition bad_seq2 : list N := [0; 1].
Definition bad_tab2 : list pcode := [mk_pc 0 1; mk_pc 0 1].
Lemma codes_distinct_needed2 :
  table_ok2_weak bad_seq2 bad_tab2 /\ Forall (fun x => x < 2 ^ 8) bad_seq2 /\
  exists t, wt_build 8 true bad_seq2 bad_tab2 = Val t /\
    wt_get 8 true t 1 = Val (Some 0) /\ nthN bad_seq2 1 = Some 1 /\
    wt_rank 8 true t 1 2 = Val (Some 2) /\ rank_spec bad_seq2 1 2 = 1.
Proof.
  split; [apply table_okb2_weak_sound; vm_compute; reflexivity|].
  split; [repeat constructor|].
  destruct (wt_build 8 true bad_seq2 bad_tab2) as [t|f] eqn:E; [|vm_compute in E; discriminate E].
  exists t. split; [reflexivity|].
  assert (G : match wt_build 8 true bad_seq2 bad_tab2 with
              | Val t => wt_get 8 true t 1 = Val (Some 0) /\ nthN bad_seq2 1 = Some 1 /\
                         wt_rank 8 true t 1 2 = Val (Some 2) /\ rank_spec bad_seq2 1 2 = 1
              | Fault _ => False
              end) by (vm_compute; repeat split; reflexivity).
  rewrite E in G. exact G.
Qed.
(* without the fifth conjunct hwt_build_correct is false *)
Lemma hwt_build_correct_without_distinct_refuted :
  ~ (forall w seq tab, width_ok w -> Forall (fun x => x < 2 ^ w) seq -> len seq < RSQ_MAXN ->
     seq <> [] -> table_ok2_weak seq tab ->
     exists t, wt_build w true seq tab = Val t /\ hwt_spec w t seq).
Proof.
  intros H. destruct codes_distinct_needed2 as (Hw & HF & t & E & G1 & G2 & _).
  destruct (H 8 bad_seq2 bad_tab2) as (t' & E' & _ & Hget & _);
    [left; reflexivity|exact HF|reflexivity|discriminate|exact Hw|].
  rewrite E in E'. injection E' as <-. rewrite Hget, G2 in G1. discriminate G1.
Qed.

(* ---------------------------------------------------------------- non-vacuity: plain tree *)
(* 30 values up to 300 (9 levels), element type u16 *)
Definition wt_ex_seq : list N := map (fun i => (i * i * 7 + 3 * i) mod 301) (seqN 0 29) ++ [300].

Example wt_example :
  match wt_build 16 false wt_ex_seq [] with
  | Val t =>
      w_n t = 30 /\ w_n_levels t = 9 /\ w_sigma t = Some 300 /\ len (w_bvs t) = 9 /\
      w_lens t = [30; 30; 30; 30; 30; 30; 30; 30; 30] /\
      map (wt_get 16 false t) [0; 7; 17; 29; 30] =
        [Val (Some 0); Val (Some 63); Val (Some 268); Val (Some 300); Val None] /\
      map (fun c => wt_rank 16 false t c 30) [34; 10; 300; 3; 301] =
        [Val (Some 2); Val (Some 1); Val (Some 1); Val (Some 0); Val None] /\
      wt_rank 16 false t 34 16 = Val (Some 1) /\ wt_rank 16 false t 34 31 = Val None /\
      map (wt_select 16 false t 34) [0; 1; 2] = [Val (Some 2); Val (Some 16); Val None] /\
      wt_select 16 false t 3 0 = Val None /\ wt_select 16 false t 301 0 = Val None /\
      wt_get_unchecked 16 false t 17 = Val 268 /\ wt_rank_unchecked 16 false t 34 30 = Val 2 /\
      wt_select_unchecked 16 false t 300 0 = Val 29
  | Fault _ => False
  end.
Proof. vm_compute. repeat split; reflexivity. Qed.
(* the same values from the specification side *)
Example wt_example_spec :
  let s := wt_ex_seq in
  len s = 30 /\ maxN s = 300 /\ msb (maxN s) + 1 = 9 /\
  map (nthN s) [0; 7; 17; 29; 30] = [Some 0; Some 63; Some 268; Some 300; None] /\
  map (fun c => rank_spec s c 30) [34; 10; 300; 3] = [2; 1; 1; 0] /\ rank_spec s 34 16 = 1 /\
  map (select_spec s 34) [0; 1; 2] = [Some 2; Some 16; None] /\ select_spec s 3 0 = None /\
  select_spec s 300 0 = Some 29.
Proof. vm_compute. repeat split; reflexivity. Qed.
(* symbols above 2^64 (element type u128): one_bit truncates to 64 bits before masking *)
Example wt_example_u128 :
  let s := [2 ^ 100 + 5; 7; 2 ^ 100 + 5; 2 ^ 127; 0; 2 ^ 64 + 1] in
  match wt_build 128 false s [] with
  | Val t => w_n_levels t = 128 /\ wt_get 128 false t 3 = Val (Some (2 ^ 127)) /\
             wt_rank 128 false t (2 ^ 100 + 5) 6 = Val (Some 2) /\
             wt_select 128 false t (2 ^ 64 + 1) 0 = Val (Some 5) /\
             wt_select 128 false t (2 ^ 100 + 5) 1 = Val (Some 2)
  | Fault _ => False
  end.
Proof. vm_compute. repeat split; reflexivity. Qed.
(* the general theorem instantiated on the example input *)
Example wt_example_thm :
  (forall w k, w < 2 ^ 64 -> k < 128 ->
     select_in_word w k = Val (match select_spec (bits_of 64 w) 1 k with Some p => p | None => 64 end)) ->
  (forall n x, x < 2 ^ N.of_nat n -> popcount x = countN 1 (bits_of n x)) ->
  exists t, wt_build 16 false wt_ex_seq [] = Val t /\ wt_spec 16 t wt_ex_seq.
Proof.
  intros SIW PC. apply (wt_build_correct SIW PC); [right; left; reflexivity| |reflexivity].
  apply Forall_forall. intros x Hx.
  assert (H : forallb (fun y => y <? 2 ^ 16) wt_ex_seq = true) by (vm_compute; reflexivity).
  rewrite forallb_forall in H. specialize (H x Hx). lia.
Qed.

(* ---------------------------------------------------------------- non-vacuity: compressed tree *)
Definition hwt_ex_seq : list N :=
  [5; 0; 9; 2; 5; 5; 9; 0; 2; 9; 5; 9; 9; 0; 5; 2; 9; 5; 0; 9; 5; 2; 5; 9; 0; 9; 5; 5; 2; 9].
(* = craft2 [(5,1);(9,2);(0,3);(2,3)] 9 *)
Definition hwt_ex_tab : list pcode :=
  [mk_pc 1 3; pc_zero; mk_pc 0 3; pc_zero; pc_zero; mk_pc 1 1; pc_zero; pc_zero; pc_zero; mk_pc 1 2].

Example hwt_ex_craft : craft2 [(5, 1); (9, 2); (0, 3); (2, 3)] 9 = Val hwt_ex_tab.
Proof. vm_compute. reflexivity. Qed.
Example hwt_ex_table_ok : table_ok2 hwt_ex_seq hwt_ex_tab.
Proof. apply table_okb2_sound. vm_compute. reflexivity. Qed.

Example hwt_example :
  match wt_build 8 true hwt_ex_seq hwt_ex_tab with
  | Val t =>
      w_n t = 30 /\ w_n_levels t = 3 /\ w_lens t = [30; 20; 10] /\
      map (wt_get 8 true t) [0; 1; 2; 3; 29; 30] =
        [Val (Some 5); Val (Some 0); Val (Some 9); Val (Some 2); Val (Some 9); Val None] /\
      map (fun c => wt_rank 8 true t c 17) [0; 2; 5; 9; 1; 300] =
        [Val (Some 3); Val (Some 3); Val (Some 5); Val (Some 6); Val None; Val None] /\
      map (wt_select 8 true t 9) [0; 1; 9; 10; 11] =
        [Val (Some 2); Val (Some 6); Val (Some 29); Val None; Val None] /\
      wt_rank 8 true t 5 30 = Val (Some 10) /\ wt_rank 8 true t 5 31 = Val None /\
      wt_select 8 true t (2 ^ 64 + 5) 0 = Val None /\
      wt_select_unchecked 8 true t 2 3 = Val 21 /\ wt_get_unchecked 8 true t 7 = Val 0 /\
      wt_rank_unchecked 8 true t 0 30 = Val 5
  | Fault _ => False
  end.
Proof. vm_compute. repeat split; reflexivity. Qed.
(* hwt_new (craft2 then wt_build) gives the same tree *)
Example hwt_example_new :
  hwt_new 8 hwt_ex_seq [(5, 1); (9, 2); (0, 3); (2, 3)] = wt_build 8 true hwt_ex_seq hwt_ex_tab.
Proof. vm_compute. reflexivity. Qed.
(* the same values from the specification side *)
Example hwt_example_spec :
  map (nthN hwt_ex_seq) [0; 1; 2; 3; 29; 30] = [Some 5; Some 0; Some 9; Some 2; Some 9; None] /\
  map (fun c => rank_spec hwt_ex_seq c 17) [0; 2; 5; 9] = [3; 3; 5; 6] /\
  map (select_spec hwt_ex_seq 9) [0; 1; 9; 10; 11] = [Some 2; Some 6; Some 29; None; None] /\
  rank_spec hwt_ex_seq 5 30 = 10 /\ select_spec hwt_ex_seq 2 3 = Some 21 /\
  rank_spec hwt_ex_seq 0 30 = 5.
Proof. vm_compute. repeat split; reflexivity. Qed.
(* the general theorem instantiated on the example *)
Example hwt_example_thm :
  (forall w k, w < 2 ^ 64 -> k < 128 ->
     select_in_word w k = Val (match select_spec (bits_of 64 w) 1 k with Some p => p | None => 64 end)) ->
  (forall n x, x < 2 ^ N.of_nat n -> popcount x = countN 1 (bits_of n x)) ->
  exists t, wt_build 8 true hwt_ex_seq hwt_ex_tab = Val t /\ hwt_spec 8 t hwt_ex_seq.
Proof.
  intros SIW PC.
  apply (hwt_build_correct SIW PC); [left; reflexivity| |reflexivity|discriminate|exact hwt_ex_table_ok].
  apply Forall_forall. intros x Hx.
  assert (H : forallb (fun y => y <? 2 ^ 8) hwt_ex_seq = true) by (vm_compute; reflexivity).
  rewrite forallb_forall in H. specialize (H x Hx). lia.
Qed.
(* the empty sequence, both flavours *)
Example wt_example_empty :
  match wt_build 16 false [] [], wt_build 8 true [] hwt_ex_tab with
  | Val t1, Val t2 =>
      wt_get 16 false t1 0 = Val None /\ wt_rank 16 false t1 0 0 = Val None /\ wt_select 16 false t1 0 0 = Val None /\
      wt_get 8 true t2 0 = Val None /\ wt_rank 8 true t2 5 0 = Val None /\ wt_select 8 true t2 5 0 = Val None
  | _, _ => False
  end.
Proof. vm_compute. repeat split; reflexivity. Qed.

Print Assumptions stable_partition_of_2_correct.
Print Assumptions stable_partition_of_2_parts.
Print Assumptions bin_bridge.
Print Assumptions bin_bridge_bits.
Print Assumptions wt_build_empty.
Print Assumptions wt_build_correct.
Print Assumptions hwt_build_correct.
Print Assumptions hwt_build_nil.
Print Assumptions table_okb2_sound.
Print Assumptions codes_distinct_needed2.
Print Assumptions hwt_build_correct_without_distinct_refuted.
Print Assumptions wt_example.
Print Assumptions wt_example_spec.
Print Assumptions wt_example_u128.
Print Assumptions wt_example_thm.
Print Assumptions hwt_ex_craft.
Print Assumptions hwt_ex_table_ok.
Print Assumptions hwt_example.
Print Assumptions hwt_example_new.
Print Assumptions hwt_example_spec.
Print Assumptions hwt_example_thm.
Print Assumptions wt_example_empty.
