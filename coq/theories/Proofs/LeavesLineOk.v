(* T3 (quad DataLine: normalize, set_symbol, get_unchecked, rank_unchecked): see Proofs/LeavesLib.v for the explanation.  Written once; compiles as long as the
   definitions regenerated from the Rust source keep their meaning. *)
From Coq Require Import ZArith Lia ZifyBool ZifyN.
From QwtModel Require Import ListX Consts SelTable Words RSQ LeavesLine LeavesLib.
Open Scope N_scope.

(* ------------------------------------------------------------------ DataLine::normalize *)
(* no hypothesis on the words; symbol >= 4 panics on both sides (REPEATEDSYMB index), the hand model
   merely checks it at a different point: all faults involved are Panic *)
Theorem g_qline_normalize_ok : forall ws symbol, symbol < 256 ->
  g_qline_normalize ws symbol = qline_normalize ws symbol.
Proof.
  intros ws symbol _. unfold g_qline_normalize, qline_normalize, M128.
  pose proof (land1_cases symbol) as Hl.
  remember (N.land symbol 1) as l eqn:El. clear El.
  remember (N.shiftr symbol 1) as h eqn:Eh. clear Eh.
  destruct Hl as [-> | ->]; destruct h as [|[p|p|]]; list4 ws; reflexivity.
Qed.

(* ------------------------------------------------------------------ DataLine::set_symbol *)
Theorem g_qline_set_symbol_ok : forall ws symbol i, symbol < 256 -> i < 256 ->
  g_qline_set_symbol ws symbol i = qline_set_symbol ws symbol i.
Proof.
  intros ws symbol i _ Hi.
  unfold g_qline_set_symbol, qline_set_symbol, QV_WORD_SHIFT, QV_LOW_PLANE, QV_WORD_MASK, QV_SYM_MASK, oshl.
  assert (Hc : N.land i 127 < 128) by (change 127 with (N.ones 7); apply (land_ones_lt i 7)).
  remember (N.land i 127) as c eqn:Ec. clear Ec.
  assert (Hh : N.shiftr i 7 = 0 \/ N.shiftr i 7 = 1).
  { assert (N.shiftr i 7 < 2 ^ 1) by (apply shiftr_lt; exact Hi). change (2 ^ 1) with 2 in *. lia. }
  remember (N.shiftr i 7) as h eqn:Eh. clear Eh.
  destruct (N.ltb_spec c 128) as [_|]; [|lia].
  destruct Hh as [-> | ->]; list4 ws; reflexivity.
Qed.

(* ------------------------------------------------------------------ DataLine::get_unchecked *)
(* the source adds 2 to the word index in usize arithmetic (cannot overflow for i : usize) and truncates
   the two-bit result, first to u128 after `<< 1`, then to u8: both truncations are the identity *)
Theorem g_qline_get_unchecked_ok : forall ws i, i < 2 ^ 64 ->
  g_qline_get_unchecked ws i = qline_get_unchecked ws i.
Proof.
  intros ws i Hi.
  unfold g_qline_get_unchecked, qline_get_unchecked, QVG_WORD_SHIFT, QVG_LOW_PLANE, QVG_WORD_MASK. cbv zeta.
  pose proof (shiftr_le i 7) as Hh.
  assert (Hs : N.shiftr i 7 < 2 ^ 57) by (apply shiftr_lt; exact Hi).
  unfold oadd. ocase.
  do 4 obind. now rewrite shl1_small.
Qed.

(* ------------------------------------------------------------------ DataLine::rank_unchecked *)
(* the source multiplies u128::MAX by a 0/1 flag in checked u128 arithmetic and accumulates the two
   popcounts in checked u32 arithmetic; neither can overflow whatever the words are *)
Theorem g_qline_rank_unchecked_ok : forall ws symbol i, symbol < 256 -> i < 2 ^ 64 ->
  g_qline_rank_unchecked ws symbol i = qline_rank_unchecked ws symbol i.
Proof.
  intros ws symbol i Hs Hi.
  unfold g_qline_rank_unchecked, qline_rank_unchecked, QVR_WORD_SHIFT, QVR_WORD_MASK, M128. cbv zeta.
  do 2 obind. rewrite g_qline_normalize_ok by assumption.
  obind_as p Ep. destruct p as [w0 w1]. cbv beta iota.
  obind_as sh1 E1. obind_as mo E2.
  assert (Hm : mo < 2 ^ 128).
  { unfold oshl in E1. unfold osub in E2.
    destruct (N.ltb_spec (N.land i 127) 128); [|discriminate].
    destruct (N.leb_spec 1 sh1); [|discriminate].
    inversion E1; inversion E2; subst.
    assert (N.shiftl 1 (N.land i 127) mod 2 ^ 128 < 2 ^ 128) by (apply N.mod_upper_bound; lia). lia. }
  clear E1 E2.
  assert (Hf : 2 ^ 128 - 1 < 2 ^ 128) by lia.
  remember (2 ^ 128 - 1) as full eqn:Efull.
  pose proof (fun w => popcount_land_le128 w _ Hm) as P1.
  pose proof (fun w => popcount_land_le128 w _ Hf) as P2.
  pose proof (fun w => popcount_land_le128 w 0 ltac:(lia)) as P3.
  unfold omul, oadd.
  repeat match goal with
    | |- context [if N.eqb ?x ?y then _ else _] => destruct (N.eqb_spec x y); cbv beta iota; cbn [bind]
    end;
  rewrite ?N.mul_1_r, ?N.mul_0_r;
  repeat match goal with
    | |- context [popcount (N.land ?w mo)] => pose_new (P1 w)
    | |- context [popcount (N.land ?w full)] => pose_new (P2 w)
    | |- context [popcount (N.land ?w 0)] => pose_new (P3 w)
    end;
  repeat (ocase; rewrite ?N.mul_1_r, ?N.mul_0_r); try reflexivity.
Qed.


Print Assumptions g_qline_normalize_ok.
Print Assumptions g_qline_set_symbol_ok.
Print Assumptions g_qline_get_unchecked_ok.
Print Assumptions g_qline_rank_unchecked_ok.
