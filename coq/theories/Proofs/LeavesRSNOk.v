(* T3 (RSNarrow: block_rank, sub_block_ranks, sub_block_rank): see Proofs/LeavesLib.v for the explanation.  Written
   once; compiles as long as the definitions regenerated from src/bitvector/rs_narrow.rs keep their meaning.

   FINDINGS (hand model Model/RSBin.v corrected, proofs of Proofs/RSBinN.v repaired):
     rsn_block_rank / rsn_sub_block_ranks   the source computes `block * 2` (`+ 1`) in checked usize arithmetic:
                           Fault Overflow for block >= 2^63, where the hand model indexed with the unbounded
                           product (Fault Panic, or a value on a list longer than any slice);
     rsn_sub_block_rank    the source accumulates with `result += ..` in checked usize arithmetic: for a block
                           rank within 511 of 2^64 the last addition is Fault Overflow, the hand model
                           returned the unbounded sum.
   Remaining hypothesis beyond the parameter type: the type invariant of `Box<[u64]>` (entries below 2^64),
   needed for `result = 0; result += block_rank` not to overflow. *)
From Coq Require Import ZArith Lia ZifyBool ZifyN.
From QwtModel Require Import ListX Consts SelTable Words RSBin LeavesRSN LeavesLib.
Open Scope N_scope.

(* ------------------------------------------------------------------ RSNarrow::block_rank *)
Theorem g_rsn_block_rank_ok : forall r block, block < 2 ^ 64 ->
  g_rsn_block_rank (rsn_pairs r) block = rsn_block_rank r block.
Proof.
  intros r block _. unfold g_rsn_block_rank, rsn_block_rank.
  repeat obind. rewrite ?bind_Val_r. reflexivity.
Qed.

(* ------------------------------------------------------------------ RSNarrow::sub_block_ranks *)
Theorem g_rsn_sub_block_ranks_ok : forall r block, block < 2 ^ 64 ->
  g_rsn_sub_block_ranks (rsn_pairs r) block = rsn_sub_block_ranks r block.
Proof.
  intros r block _. unfold g_rsn_sub_block_ranks, rsn_sub_block_ranks.
  repeat obind. rewrite ?bind_Val_r. reflexivity.
Qed.

(* ------------------------------------------------------------------ RSNarrow::sub_block_rank *)
Lemma rsn_block_rank_lt r b v : Forall (fun w => w < 2 ^ 64) (rsn_pairs r) ->
  rsn_block_rank r b = Val v -> v < 2 ^ 64.
Proof.
  intros HF. unfold rsn_block_rank. destruct (omul 64 b 2); cbn [bind]; [|discriminate].
  intros E. exact (idx_Forall _ _ _ _ HF E).
Qed.

(* `(7 - left) * 9` cannot overflow; `0 + block_rank` cannot either on u64 entries *)
Theorem g_rsn_sub_block_rank_ok : forall r sub_block,
  Forall (fun w => w < 2 ^ 64) (rsn_pairs r) -> sub_block < 2 ^ 64 ->
  g_rsn_sub_block_rank (rsn_pairs r) sub_block = rsn_sub_block_rank r sub_block.
Proof.
  intros r sb HF Hsb.
  unfold g_rsn_sub_block_rank, rsn_sub_block_rank, RSN_BLOCK_SIZE, RSN_SBR_BITS, RSN_SBR_MASK. cbv zeta.
  fold_consts.
  assert (Hb : sb / 8 < 2 ^ 64) by (apply div_lt_bound; exact Hsb).
  rewrite g_rsn_block_rank_ok, g_rsn_sub_block_ranks_ok by exact Hb.
  obind_as br E1. pose proof (rsn_block_rank_lt _ _ _ HF E1) as Hbr.
  rewrite oadd_0_l by exact Hbr. cbn [bind].
  obind. obind_as d E3. apply osub_Val in E3. destruct E3 as [-> _].
  unfold omul. ocase.
  obind. rewrite ?bind_Val_r. reflexivity.
Qed.

Print Assumptions g_rsn_block_rank_ok.
Print Assumptions g_rsn_sub_block_ranks_ok.
Print Assumptions g_rsn_sub_block_rank_ok.
