(* The link between the tree model and the entropy mathematics (Spec/Entropy.v): the level data
   of a Huffman-shaped wavelet tree is exactly  sum_c f_c * len_c  code fragments
   (2-bit symbols for the quad tree, bits for the binary tree).
     1. generic (Theory/HuffWM.v): level l of the Huffman-shaped wavelet matrix is a permutation
        of the symbols with clen > l; the level lengths sum to  sum_x clen x;
     2. frequency form:  sum_x g x  =  cost fs (map g syms)  over the distinct symbols;
     3. / 4. the quad and the binary Huffman-shaped trees built by the model;
     5. the plain binary tree;
     6. the entropy corollaries (Reals);
     7. a computed example. *)
From Coq Require Import ZArith Lia ZifyBool ZifyN ZifyNat Permutation.
From QwtModel Require Import ListX Seq Consts QVec RSQ QWT BitVec RSBin Huff ListXP ConstsOk QVecP RSQList RSQWord
  RSQBuild RSQP RSBinL.
From QwtModel Require Import WaveletMatrix HuffWM Codes QWTArith HQWTBridge HQWTWalks HQWTCode.
From QwtModel Require Import BinWTBase BinWTWalks BinWTBuild BinWTPlain BinWTHuff.
From QwtModel Require HQWTP BinWTP WordsP QWTBuild QWTP.
Ltac Zify.zify_post_hook ::= Z.div_mod_to_equations.
Arguments N.add : simpl never.
Arguments N.sub : simpl never.
Arguments N.mul : simpl never.
Arguments N.eqb : simpl never.
Arguments N.ltb : simpl never.
Arguments N.leb : simpl never.
Arguments N.pred : simpl never.
Arguments N.of_nat : simpl never.
Arguments N.land : simpl never.
Arguments N.lor : simpl never.
Arguments N.shiftr : simpl never.
Arguments N.shiftl : simpl never.
Arguments N.div : simpl never.
Arguments N.modulo : simpl never.
Arguments N.pow : simpl never.
Arguments N.sqrt : simpl never.
Arguments N.log2 : simpl never.
Arguments N.max : simpl never.

(* ---------------------------------------------------------------- generic list facts *)
Lemma filter_perm {A} (p : A -> bool) l1 l2 : Permutation l1 l2 -> Permutation (filter p l1) (filter p l2).
Proof.
  induction 1 as [|x l1 l2 H IH|x y l|l1 l2 l3 H1 IH1 H2 IH2]; cbn [filter].
  - constructor.
  - destruct (p x); [now constructor|exact IH].
  - destruct (p x), (p y); try apply Permutation_refl. apply perm_swap.
  - exact (Permutation_trans IH1 IH2).
Qed.

Lemma filter_filter_and {A} (p q : A -> bool) l :
  filter p (filter q l) = filter (fun x => q x && p x) l.
Proof.
  induction l as [|x l IH]; cbn [filter]; [reflexivity|].
  destruct (q x); cbn [filter andb]; [destruct (p x)|]; now rewrite IH.
Qed.

Lemma filter_ext_in' {A} (p q : A -> bool) l : (forall x, In x l -> p x = q x) -> filter p l = filter q l.
Proof.
  induction l as [|x l IH]; intros H; cbn [filter]; [reflexivity|].
  rewrite (H x (or_introl eq_refl)), IH; [reflexivity|]. intros y Hy. apply H. now right.
Qed.

(* a disjoint union of two filters *)
Lemma filter_union_perm {A} (p q r : A -> bool) l :
  (forall x, In x l -> r x = p x || q x) -> (forall x, In x l -> p x && q x = false) ->
  Permutation (filter p l ++ filter q l) (filter r l).
Proof.
  induction l as [|x l IH]; intros Hr Hd; cbn [filter]; [constructor|].
  assert (IH' : Permutation (filter p l ++ filter q l) (filter r l)).
  { apply IH; intros y Hy; [apply Hr|apply Hd]; now right. }
  pose proof (Hr x (or_introl eq_refl)) as Er. pose proof (Hd x (or_introl eq_refl)) as Ed.
  destruct (p x), (q x); cbn [orb andb] in Er, Ed; try discriminate Ed; rewrite Er.
  - cbn [app]. now constructor.
  - apply Permutation_sym. apply Permutation_cons_app. apply Permutation_sym. exact IH'.
  - exact IH'.
Qed.

Lemma sumN_app l1 l2 : sumN (l1 ++ l2) = sumN l1 + sumN l2.
Proof. induction l1 as [|x l1 IH]; cbn [app sumN]; [lia|]. rewrite IH. lia. Qed.

Lemma len_perm {A} (l1 l2 : list A) : Permutation l1 l2 -> len l1 = len l2.
Proof. intros H. unfold len. now rewrite (Permutation_length H). Qed.

(* ---------------------------------------------------------------- 1. the generic theory *)
Section LevelTotal.
Variable A : Type.
Variable a : nat.
Variable dig : nat -> A -> N.
Hypothesis Hdig : forall l x, dig l x < N.of_nat a.
Variable clen : A -> nat.

Local Notation parts := (WaveletMatrix.parts A dig).
Local Notation Q := (HuffWM.Q A a dig clen).
Local Notation hwm_levels := (HuffWM.hwm_levels A a dig clen).

(* [parts l k W] keeps exactly the elements of W whose level-l digit is < k *)
Lemma parts_perm_filter l k W :
  Permutation (parts l k W) (filter (fun x => dig l x <? N.of_nat k) W).
Proof.
  induction k as [|k IH]; cbn [WaveletMatrix.parts].
  - rewrite (filter_none (fun x => dig l x <? N.of_nat 0) W); [constructor|]. intros x _. lia.
  - eapply Permutation_trans; [apply Permutation_app_tail; exact IH|].
    apply filter_union_perm; intros x _; lia.
Qed.

Lemma parts_perm l W : Permutation (parts l a W) W.
Proof.
  eapply Permutation_trans; [apply parts_perm_filter|].
  rewrite filter_all; [apply Permutation_refl|]. intros x _. pose proof (Hdig l x). lia.
Qed.

(* level l holds exactly (a permutation of) the symbols whose code is longer than l *)
Lemma Q_perm : forall l s, (forall x, In x s -> (0 < clen x)%nat) ->
  Permutation (Q l s) (filter (fun x => (l <? clen x)%nat) s).
Proof.
  intros l s Hpos. induction l as [|l IH]; cbn [HuffWM.Q].
  - rewrite filter_all; [apply Permutation_refl|]. intros x Hx. specialize (Hpos x Hx). lia.
  - eapply Permutation_trans; [apply parts_perm|].
    eapply Permutation_trans; [apply filter_perm; exact IH|].
    rewrite filter_filter_and.
    rewrite (filter_ext_in' _ (fun x => (S l <? clen x)%nat) s); [apply Permutation_refl|].
    intros x _. lia.
Qed.

Lemma Q_len_filter l s : (forall x, In x s -> (0 < clen x)%nat) ->
  len (Q l s) = len (filter (fun x => (l <? clen x)%nat) s).
Proof. intros H. apply len_perm, Q_perm, H. Qed.

Lemma sum_ind_lt c : forall M, sumN (map (fun l => if (l <? c)%nat then 1 else 0) (seq 0 M)) = N.of_nat (Nat.min c M).
Proof.
  induction M as [|M IH]; [cbn [seq map sumN]; lia|].
  rewrite seq_S, map_app, sumN_app, IH. cbn [Nat.add map sumN].
  destruct (Nat.ltb_spec M c); lia.
Qed.

Lemma level_sum_filter M : forall s,
  sumN (map (fun l => len (filter (fun x => (l <? clen x)%nat) s)) (seq 0 M)) =
  sumN (map (fun x => N.of_nat (Nat.min (clen x) M)) s).
Proof.
  induction s as [|x s IH].
  - cbn [filter map sumN]. induction (seq 0 M) as [|l ls IHl]; cbn [map sumN]; [reflexivity|].
    rewrite IHl. reflexivity.
  - cbn [map sumN]. rewrite <- IH, <- sum_ind_lt. clear IH.
    induction (seq 0 M) as [|l ls IHl]; cbn [map sumN]; [lia|].
    rewrite IHl. cbn [filter]. destruct (l <? clen x)%nat; [rewrite len_cons|]; lia.
Qed.

Lemma hwm_levels_lens n : forall l0 s,
  map (@len N) (hwm_levels l0 n s) = map (fun l => len (Q l s)) (seq l0 n).
Proof.
  induction n as [|n IH]; intros l0 s; cbn [HuffWM.hwm_levels map seq]; [reflexivity|].
  rewrite IH, len_map. reflexivity.
Qed.

(* the levels 0 .. M-1 together store  sum_x clen x  digits *)
Theorem hwm_levels_total : forall M s, (forall x, In x s -> (0 < clen x <= M)%nat) ->
  sumN (map (@len N) (hwm_levels 0 M s)) = sumN (map (fun x => N.of_nat (clen x)) s).
Proof.
  intros M s H. rewrite hwm_levels_lens.
  rewrite (map_ext_in _ (fun l => len (filter (fun x => (l <? clen x)%nat) s))).
  2:{ intros l _. apply Q_len_filter. intros x Hx. apply (H x Hx). }
  rewrite level_sum_filter. f_equal. apply map_ext_in. intros x Hx. specialize (H x Hx). lia.
Qed.

End LevelTotal.

(* ---------------------------------------------------------------- 2. the frequency form *)
Lemma sumN_by_symbol (G : N -> N) syms : NoDup syms -> forall seq, (forall x, In x seq -> In x syms) ->
  sumN (map G seq) = sumN (map (fun c => countN c seq * G c) syms).
Proof.
  intros ND. induction seq as [|x seq IH]; intros Hin.
  - cbn [map sumN countN]. clear ND Hin. induction syms as [|c syms IHs]; cbn [map sumN]; [reflexivity|].
    rewrite <- IHs. lia.
  - cbn [map sumN]. rewrite IH by (intros y Hy; apply Hin; now right).
    assert (Hx : In x syms) by (apply Hin; now left). clear IH Hin.
    induction syms as [|c syms IHs]; [contradiction|]. inversion ND as [|? ? Hn ND']; subst.
    cbn [map sumN countN]. destruct Hx as [->|Hx].
    + rewrite N.eqb_refl.
      assert (E : sumN (map (fun c => ((if x =? c then 1 else 0) + countN c seq) * G c) syms) =
                  sumN (map (fun c => countN c seq * G c) syms)).
      { f_equal. apply map_ext_in. intros c Hc. destruct (N.eqb_spec x c) as [->|]; [contradiction|]. lia. }
      rewrite E. lia.
    + destruct (N.eqb_spec x c) as [->|Hne]; [contradiction|].
      specialize (IHs ND' Hx). cbn [countN] in IHs. lia.
Qed.

Lemma of_nat_fold_plus l : N.of_nat (fold_right plus 0%nat l) = sumN (map N.of_nat l).
Proof. induction l as [|x l IH]; cbn [fold_right map sumN]; [reflexivity|]. rewrite <- IH. lia. Qed.

From QwtModel Require Import Entropy.

Definition freqs (seq : list N) : list nat := map (fun c => N.to_nat (countN c seq)) (nodup N.eq_dec seq).

Lemma cost_map (f g : N -> nat) syms :
  cost (map f syms) (map g syms) = fold_right plus 0%nat (map (fun c => (f c * g c)%nat) syms).
Proof.
  unfold cost. f_equal. induction syms as [|c syms IH]; cbn [map combine fst snd]; [reflexivity|].
  now rewrite IH.
Qed.

Theorem sum_by_frequency : forall (seq : list N) (g : N -> nat),
  sumN (map (fun x => N.of_nat (g x)) seq) =
  N.of_nat (cost (map (fun c => N.to_nat (countN c seq)) (nodup N.eq_dec seq)) (map g (nodup N.eq_dec seq))).
Proof.
  intros seq g. rewrite cost_map, of_nat_fold_plus, map_map.
  rewrite (sumN_by_symbol (fun x => N.of_nat (g x)) (nodup N.eq_dec seq) (NoDup_nodup _ _) seq).
  - f_equal. apply map_ext. intros c. lia.
  - intros x Hx. now apply nodup_In.
Qed.

Theorem freq_total : forall seq : list N,
  total (map (fun c => N.to_nat (countN c seq)) (nodup N.eq_dec seq)) = N.to_nat (len seq).
Proof.
  intros seq. unfold total.
  assert (H : N.of_nat (fold_right plus 0%nat (map (fun c => N.to_nat (countN c seq)) (nodup N.eq_dec seq))) = len seq).
  { rewrite of_nat_fold_plus, map_map.
    assert (E : len seq = sumN (map (fun _ => 1) seq)).
    { induction seq as [|x s IH]; [reflexivity|]. rewrite len_cons. cbn [map sumN]. lia. }
    rewrite E. rewrite (sumN_by_symbol (fun _ => 1) (nodup N.eq_dec seq) (NoDup_nodup _ _) seq).
    - f_equal. apply map_ext. intros c. lia.
    - intros x Hx. now apply nodup_In. }
  lia.
Qed.

Corollary freq_total_length : forall seq : list N,
  total (map (fun c => N.to_nat (countN c seq)) (nodup N.eq_dec seq)) = length seq.
Proof. intros seq. rewrite freq_total. unfold len. lia. Qed.

Theorem freq_pos : forall seq : list N,
  Forall (fun f => 0 < f)%nat (map (fun c => N.to_nat (countN c seq)) (nodup N.eq_dec seq)).
Proof.
  intros seq. apply Forall_forall. intros f Hf. apply in_map_iff in Hf as (c & <- & Hc).
  apply nodup_In in Hc. apply countN_pos_In in Hc. lia.
Qed.

Theorem freq_nonempty : forall seq : list N, seq <> [] ->
  map (fun c => N.to_nat (countN c seq)) (nodup N.eq_dec seq) <> [].
Proof.
  intros [|x s] H; [congruence|]. intros E. apply map_eq_nil in E.
  assert (Hx : In x (nodup N.eq_dec (x :: s))) by (apply nodup_In; now left).
  rewrite E in Hx. contradiction.
Qed.

(* ---------------------------------------------------------------- 3. the Huffman-shaped quad tree *)
Lemma Forall2_map_r {A B C} (R : A -> C -> Prop) (f : B -> C) l1 l2 :
  Forall2 (fun x y => R x (f y)) l1 l2 -> Forall2 R l1 (map f l2).
Proof. induction 1; cbn [map]; constructor; assumption. Qed.

(* every occurring symbol has a code of 1 .. M fragments, M = number of levels *)
Lemma hq_clen_bounds seq tab : len tab < 2 ^ 64 ->
  (forall x, In x seq -> exists c, nthN tab x = Some c /\ code_wf 2 c = true) ->
  forall x, In x seq -> (0 < code_clen 2 tab x <= N.to_nat (maxN (map pc_len tab) / 2))%nat.
Proof.
  intros Htab Hwf x Hx.
  destruct (HQWTBridge.in_seq_code tab seq Htab Hwf x Hx) as (c & [H1 H2 H3 H4 H5]).
  rewrite (HQWTBridge.clen_eq tab x c H1).
  rewrite (HQWTBridge.sym_index_in tab seq Htab Hwf x Hx) in H1.
  pose proof (In_maxN (pc_len c) (map pc_len tab) (in_map pc_len _ _ (nthN_In _ _ _ H1))) as Hle.
  lia.
Qed.

(* the builder's levels are the levels of the theory *)
Lemma hq_build_levels bsize seq tab t : (bsize = 256 \/ bsize = 512) -> len seq < RSQ_MAXN ->
  HQWTP.table_ok seq tab -> seq <> [] -> hq_build bsize seq tab = Val t ->
  Forall2 (rsq_spec bsize) (h_qvs t)
    (hwm_levels N 4 (code_dig 2 tab) (code_clen 2 tab) 0 (N.to_nat (maxN (map pc_len tab) / 2)) seq) /\
  h_lens t = map (@len N)
    (hwm_levels N 4 (code_dig 2 tab) (code_clen 2 tab) 0 (N.to_nat (maxN (map pc_len tab) / 2)) seq).
Proof.
  intros Hb Hn (Htab & Hwf & _) Hne E.
  destruct seq as [|x0 seq']; [congruence|].
  rewrite HQWTP.hq_build_cons in E. set (s := x0 :: seq') in *.
  assert (HT : HQWTBridge.fin_tail tab s 0 []) by (intros x []).
  destruct (hq_levels_ok tab s Htab Hwf bsize Hb Hn (N.to_nat (maxN (map pc_len tab) / 2)) 0%nat [] HT)
    as (qvs & lens & E' & H1 & H2).
  cbn [Q] in E'. rewrite app_nil_r in E'. change (2 * (N.of_nat 0 + 1)) with 2 in E'.
  rewrite E' in E. cbn [bind] in E. injection E as <-. cbn [h_qvs h_lens]. split; assumption.
Qed.

Theorem hq_level_symbols : forall w bsize seq tab t, HQWTP.width_ok w -> (bsize = 256 \/ bsize = 512) ->
  Forall (fun x => x < 2 ^ w) seq -> len seq < RSQ_MAXN -> HQWTP.table_ok seq tab ->
  hq_build bsize seq tab = Val t ->
  sumN (h_lens t) = sumN (map (fun x => N.of_nat (code_clen 2 tab x)) seq).
Proof.
  intros w bsize seq tab t _ Hb _ Hn Htok E.
  destruct seq as [|x0 seq'] eqn:Es.
  - unfold hq_build in E. destruct (rsq_default bsize) as [d|f]; cbn [bind] in E; [|discriminate E].
    injection E as <-. reflexivity.
  - rewrite <- Es in *. assert (Hne : seq <> []) by (rewrite Es; discriminate).
    destruct (hq_build_levels bsize seq tab t Hb Hn Htok Hne E) as [_ H2]. rewrite H2.
    destruct Htok as (Htab & Hwf & _).
    apply (hwm_levels_total N 4 (code_dig 2 tab) (HQWTBridge.dig_lt tab) (code_clen 2 tab)).
    exact (hq_clen_bounds seq tab Htab Hwf).
Qed.

(* level r really stores h_lens[r] symbols *)
Theorem hq_level_lens : forall w bsize seq tab t, HQWTP.width_ok w -> (bsize = 256 \/ bsize = 512) ->
  Forall (fun x => x < 2 ^ w) seq -> len seq < RSQ_MAXN -> HQWTP.table_ok seq tab ->
  hq_build bsize seq tab = Val t ->
  Forall2 (fun r n => rsq_len r = n) (h_qvs t) (h_lens t).
Proof.
  intros w bsize seq tab t _ Hb _ Hn Htok E.
  destruct seq as [|x0 seq'] eqn:Es.
  - unfold hq_build in E. destruct (rsq_default_correct bsize Hb) as (d & Ed & Hd). rewrite Ed in E.
    cbn [bind] in E. injection E as <-. cbn [h_qvs h_lens]. constructor; [|constructor]. apply Hd.
  - rewrite <- Es in *. assert (Hne : seq <> []) by (rewrite Es; discriminate).
    destruct (hq_build_levels bsize seq tab t Hb Hn Htok Hne E) as [H1 H2]. rewrite H2.
    apply Forall2_map_r. eapply Forall2_imp; [|exact H1]. intros r D Hr. apply Hr.
Qed.

(* ---------------------------------------------------------------- 4. the Huffman-shaped binary tree *)
(* wt_levels returns as many levels (and lengths) as asked *)
Lemma wt_levels_length w compressed codes nl : forall k seq shift rs lens,
  wt_levels w compressed seq codes nl shift k = Val (rs, lens) -> length rs = k /\ length lens = k.
Proof.
  induction k as [|k IH]; intros seq shift rs lens H; cbn [wt_levels] in H.
  - injection H as <- <-. split; reflexivity.
  - destruct (mapo _ seq) as [bs|]; cbn [bind] in H; [|discriminate H].
    destruct (bv_from_bools _) as [bv|]; cbn [bind] in H; [|discriminate H].
    destruct (rsw_new bv) as [r|]; cbn [bind] in H; [|discriminate H].
    destruct (if compressed then _ else _) as [seq'|]; cbn [bind] in H; [|discriminate H].
    destruct (wt_levels w compressed seq' codes nl (shift + 1) k) as [[rest lens']|] eqn:E;
      cbn [bind] in H; [|discriminate H].
    injection H as <- <-. destruct (IH _ _ _ _ E) as [H1 H2]. cbn [length]. split; congruence.
Qed.

Lemma list_eq_map_seq {B} (f : nat -> B) : forall (l : list B) M l0, length l = M ->
  (forall j, (j < M)%nat -> nthN l (N.of_nat j) = Some (f (l0 + j)%nat)) -> l = map f (seq l0 M).
Proof.
  induction l as [|x l IH]; intros M l0 HL H.
  - cbn [length] in HL. subst M. reflexivity.
  - cbn [length] in HL. subst M. cbn [seq map]. f_equal.
    + pose proof (H 0%nat ltac:(lia)) as H0. change (N.of_nat 0) with 0 in H0. rewrite nthN_0, Nat.add_0_r in H0.
      congruence.
    + apply IH; [reflexivity|]. intros j Hj. specialize (H (S j) ltac:(lia)).
      replace (N.of_nat (S j)) with (N.of_nat j + 1) in H by lia. rewrite nthN_succ in H.
      now rewrite Nat.add_succ_r in H.
Qed.

(* the invariant of a built tree determines the stored lengths *)
Lemma btree_ok_lens (Ds : nat -> list N) M bvs lens : length lens = M -> btree_ok Ds M bvs lens ->
  lens = map (fun l => len (Ds l)) (seq 0 M).
Proof.
  intros HL HT. apply list_eq_map_seq; [exact HL|]. intros j Hj. exact (proj2 (HT j Hj)).
Qed.

Lemma hwt_clen_bounds seq tab : len tab < 2 ^ 64 ->
  (forall x, In x seq -> exists c, nthN tab x = Some c /\ code_wf 1 c = true) ->
  forall x, In x seq -> (0 < code_clen 1 tab x <= N.to_nat (maxN (map pc_len tab)))%nat.
Proof.
  intros Htab Hwf x Hx.
  destruct (BinWTHuff.in_seq_code tab seq Htab Hwf x Hx) as (c & [H1 H2 H3 H5]).
  rewrite (BinWTHuff.clen_eq tab x c H1).
  rewrite (BinWTHuff.sym_index_in tab seq Htab Hwf x Hx) in H1.
  pose proof (In_maxN (pc_len c) (map pc_len tab) (in_map pc_len _ _ (nthN_In _ _ _ H1))) as Hle.
  lia.
Qed.

Lemma hwt_build_levels w seq tab t : len seq < RSQ_MAXN -> BinWTP.table_ok2 seq tab ->
  wt_build w true seq tab = Val t ->
  w_lens t = map (@len N)
    (hwm_levels N 2 (code_dig 1 tab) (code_clen 1 tab) 0 (N.to_nat (maxN (map pc_len tab))) seq) \/ seq = [].
Proof.
  intros Hn (Htab & Hwf & Hocc & _) E.
  destruct seq as [|x0 seq'] eqn:Es; [now right|left]. rewrite <- Es in *.
  assert (Hne : seq <> []) by (rewrite Es; discriminate).
  destruct (xmax_exists tab seq Hne Htab Hwf Hocc) as (xm & Hxm & Exm).
  assert (Eb : wt_build w true seq tab =
    (let! (bvs, lens) := wt_levels w true seq tab (maxN (map pc_len tab)) 1 (N.to_nat (maxN (map pc_len tab))) in
     Val (mk_bwt (len seq) (maxN (map pc_len tab)) None (Some tab)
                 (Some (decode_tables tab (maxN (map pc_len tab)))) bvs lens))).
  { rewrite Es. reflexivity. }
  rewrite Eb in E. clear Eb.
  assert (HT0 : BinWTHuff.fin_tail tab seq 0 []) by (intros x []).
  destruct (wt_levels_huff_ok tab seq Htab Hwf WordsP.select_in_word_correct WordsP.popcount_correct Hn xm Hxm
              w (maxN (map pc_len tab)) (N.to_nat (maxN (map pc_len tab))) 0%nat [] ltac:(lia) HT0)
    as (bvs & lens & E' & HT).
  cbn [Q] in E'. rewrite app_nil_r in E'. change (N.of_nat 0 + 1) with 1 in E'.
  destruct (wt_levels_length _ _ _ _ _ _ _ _ _ E') as [_ HL].
  rewrite E' in E. cbn [bind] in E. injection E as <-. cbn [w_lens]. cbn [Nat.add] in HT.
  rewrite (btree_ok_lens _ _ _ _ HL HT), hwm_levels_lens.
  apply map_ext. intros l. unfold hDs. now rewrite len_map.
Qed.

Theorem hwt_level_bits : forall w seq tab t, BinWTP.width_ok w -> Forall (fun x => x < 2 ^ w) seq ->
  len seq < RSQ_MAXN -> BinWTP.table_ok2 seq tab -> wt_build w true seq tab = Val t ->
  sumN (w_lens t) = sumN (map (fun x => N.of_nat (code_clen 1 tab x)) seq).
Proof.
  intros w seq tab t _ _ Hn Htok E.
  destruct (hwt_build_levels w seq tab t Hn Htok E) as [H2| ->].
  - rewrite H2. destruct Htok as (Htab & Hwf & _).
    apply (hwm_levels_total N 2 (code_dig 1 tab) (BinWTHuff.dig_lt tab) (code_clen 1 tab)).
    exact (hwt_clen_bounds seq tab Htab Hwf).
  - cbn [wt_build] in E. injection E as <-. reflexivity.
Qed.

(* ---------------------------------------------------------------- 5. the plain trees *)
Lemma sumN_const {B} (c : N) (l : list B) : sumN (map (fun _ => c) l) = c * len l.
Proof. induction l as [|x l IH]; cbn [map sumN]; [unfold len; cbn [length]; lia|]. rewrite IH, len_cons. lia. Qed.

(* plain binary tree: every one of the n_levels levels stores len seq bits *)
Theorem wt_plain_level_bits : forall w seq t, BinWTP.width_ok w -> Forall (fun x => x < 2 ^ w) seq ->
  len seq < RSQ_MAXN -> wt_build w false seq [] = Val t ->
  Forall (fun n => n = len seq) (w_lens t) /\ len (w_lens t) = w_n_levels t /\
  sumN (w_lens t) = len seq * w_n_levels t.
Proof.
  intros w seq t Hwok HF Hn E.
  assert (Hwpos : 0 < w) by (unfold BinWTP.width_ok in Hwok; lia).
  destruct seq as [|x0 seq'].
  - cbn [wt_build] in E. injection E as <-. cbn [w_lens w_n_levels sumN]. repeat split. constructor.
  - rewrite BinWTP.wt_build_plain_cons in E. set (s := x0 :: seq') in *.
    set (L := N.to_nat (blevels s)) in *.
    assert (HLN : blevels s = N.of_nat L) by (unfold L; lia).
    assert (Hpos : 0 < len s) by (unfold s; rewrite len_cons; lia).
    assert (Hpow : 0 < 2 ^ w) by (apply N.neq_0_lt_0, N.pow_nonzero; lia).
    pose proof (maxN_lt s (2 ^ w) Hpow HF) as Hmax.
    pose proof (blevels_le s w Hwpos Hmax) as Hle. rewrite HLN in Hle.
    destruct (wt_levels_plain_ok WordsP.select_in_word_correct WordsP.popcount_correct w L s Hpos Hn Hle L 0%nat eq_refl)
      as (bvs & lens & E' & HT).
    change (blev L 0 s) with s in E'. change (N.of_nat 0 + 1) with 1 in E'.
    destruct (wt_levels_length _ _ _ _ _ _ _ _ _ E') as [_ HL].
    rewrite HLN, E' in E. cbn [bind] in E. injection E as <-. cbn [w_lens w_n_levels]. cbn [Nat.add] in HT.
    rewrite (btree_ok_lens _ _ _ _ HL HT).
    rewrite (map_ext (fun l => len (bD L l s)) (fun _ => len s)) by (intros l; apply bD_len).
    split; [|split].
    + apply Forall_forall. intros n Hn'. apply in_map_iff in Hn' as (l & <- & _). reflexivity.
    + unfold len. rewrite map_length, seq_length. reflexivity.
    + rewrite sumN_const. unfold len at 2. rewrite seq_length. reflexivity.
Qed.

(* plain quad tree: every level stores len seq 2-bit symbols *)
Lemma wm_levels_lens {A} a (dg : nat -> A -> N) (Hdg : forall l x, dg l x < N.of_nat a) s : forall n l0,
  Forall (fun D => len D = len s) (wm_levels A a dg l0 n s) /\ length (wm_levels A a dg l0 n s) = n.
Proof.
  induction n as [|n IH]; intros l0; cbn [wm_levels length]; [split; [constructor|reflexivity]|].
  destruct (IH (S l0)) as [H1 H2]. split; [|now rewrite H2].
  constructor; [|exact H1]. rewrite len_map. apply (lev_length A a dg Hdg).
Qed.

Lemma Forall2_len {A B} (R : A -> B -> Prop) l1 l2 : Forall2 R l1 l2 -> length l1 = length l2.
Proof. induction 1; cbn [length]; congruence. Qed.

Theorem qwt_plain_level_symbols : forall w bsize seq t, QWTP.width_ok w -> (bsize = 256 \/ bsize = 512) ->
  Forall (fun x => x < 2 ^ w) seq -> len seq < RSQ_MAXN -> qwt_new w bsize seq = Val t ->
  Forall (fun r => rsq_len r = len seq) (q_qvs t) /\ (seq <> [] -> len (q_qvs t) = q_n_levels t) /\
  sumN (map rsq_len (q_qvs t)) = len seq * q_n_levels t.
Proof.
  intros w bsize seq t Hwok Hb HF Hn E.
  assert (Hwpos : 0 < w) by (unfold QWTP.width_ok in Hwok; lia).
  destruct seq as [|x0 seq'] eqn:Eseq.
  - unfold qwt_new in E. destruct (rsq_default_correct bsize Hb) as (d & Ed & Hd). rewrite Ed in E.
    cbn [bind] in E. injection E as <-. cbn [q_qvs q_n_levels map sumN].
    assert (E0 : rsq_len d = 0) by apply Hd. rewrite E0.
    split; [constructor; [exact (proj1 Hd)|constructor]|]. split; [congruence|reflexivity].
  - rewrite <- Eseq in *. assert (Hne : len seq <> 0) by (rewrite Eseq, len_cons; lia).
    assert (Enew : qwt_new w bsize seq =
              let! s0 := osub (QWTP.levels_of seq) 1 in
              let! qvs := qwt_levels w bsize seq (2 * s0) (N.to_nat (QWTP.levels_of seq)) in
              Val {| q_n := len seq; q_n_levels := QWTP.levels_of seq; q_sigma := maxN seq; q_qvs := qvs |}).
    { rewrite Eseq. reflexivity. }
    rewrite Enew in E. clear Enew Eseq x0 seq'.
    set (L := N.to_nat (QWTP.levels_of seq)) in *.
    assert (HLN : QWTP.levels_of seq = N.of_nat L) by (unfold L; lia).
    pose proof (qlevels_pos seq) as Hpos. rewrite <- QWTP.levels_of_qlevels in Hpos.
    assert (HL : (0 < L)%nat) by lia.
    assert (Hpow : 0 < 2 ^ w) by (apply N.neq_0_lt_0, N.pow_nonzero; lia).
    pose proof (maxN_lt seq (2 ^ w) Hpow HF) as Hmax.
    pose proof (qlevels_shift seq w Hwpos Hmax) as Hsh. rewrite <- QWTP.levels_of_qlevels, HLN in Hsh.
    assert (Hw : 2 * N.of_nat (L - 1) < w) by lia.
    unfold osub in E. replace (1 <=? QWTP.levels_of seq) with true in E by lia. cbn [bind] in E.
    replace (2 * (QWTP.levels_of seq - 1)) with (2 * N.of_nat (L - 1)) in E by lia.
    destruct (QWTBuild.qwt_levels_tree w bsize L seq Hb Hn HL Hw) as (qvs & Eq & _ & HF2).
    rewrite Eq in E. cbn [bind] in E. injection E as <-. cbn [q_qvs q_n_levels].
    destruct (wm_levels_lens 4 (qdig L) (qdig_lt L) seq L 0%nat) as [HD HLen].
    assert (HA : Forall (fun r => rsq_len r = len seq) qvs).
    { clear - HF2 HD. induction HF2 as [|r D rs Ds Hr HF2 IH]; [constructor|].
      inversion HD as [|? ? HD1 HD2]; subst. constructor; [|exact (IH HD2)].
      destruct Hr as [Hr _]. now rewrite Hr. }
    assert (HQ : len qvs = N.of_nat L).
    { unfold len. rewrite (Forall2_len _ _ _ HF2), HLen. reflexivity. }
    split; [exact HA|]. split; [intros _; now rewrite HQ, HLN|].
    rewrite (map_ext_in rsq_len (fun _ => len seq)).
    + rewrite sumN_const, HQ, HLN. reflexivity.
    + intros r Hr. rewrite Forall_forall in HA. exact (HA r Hr).
Qed.

(* ---------------------------------------------------------------- 6. the entropy corollaries *)
From Coq Require Import Reals.

(* the level data in frequency form: sum_c f_c * len_c *)
Theorem hq_level_symbols_cost : forall w bsize seq tab t, HQWTP.width_ok w -> (bsize = 256 \/ bsize = 512) ->
  Forall (fun x => x < 2 ^ w) seq -> len seq < RSQ_MAXN -> HQWTP.table_ok seq tab ->
  hq_build bsize seq tab = Val t ->
  let syms := nodup N.eq_dec seq in
  let fs := map (fun c => N.to_nat (countN c seq)) syms in
  let ls := map (code_clen 2 tab) syms in
  sumN (h_lens t) = N.of_nat (cost fs ls).
Proof.
  intros w bsize seq tab t Hw Hb HF Hn Htok E syms fs ls.
  rewrite (hq_level_symbols w bsize seq tab t Hw Hb HF Hn Htok E). apply sum_by_frequency.
Qed.

Theorem hwt_level_bits_cost : forall w seq tab t, BinWTP.width_ok w -> Forall (fun x => x < 2 ^ w) seq ->
  len seq < RSQ_MAXN -> BinWTP.table_ok2 seq tab -> wt_build w true seq tab = Val t ->
  let syms := nodup N.eq_dec seq in
  let fs := map (fun c => N.to_nat (countN c seq)) syms in
  let ls := map (code_clen 1 tab) syms in
  sumN (w_lens t) = N.of_nat (cost fs ls).
Proof.
  intros w seq tab t Hw HF Hn Htok E syms fs ls.
  rewrite (hwt_level_bits w seq tab t Hw HF Hn Htok E). apply sum_by_frequency.
Qed.

Theorem hq_level_bits_entropy : forall w bsize seq tab t, HQWTP.width_ok w -> (bsize = 256 \/ bsize = 512) ->
  Forall (fun x => x < 2 ^ w) seq -> len seq < RSQ_MAXN -> HQWTP.table_ok seq tab ->
  hq_build bsize seq tab = Val t -> seq <> [] ->
  let syms := nodup N.eq_dec seq in
  let fs := map (fun c => N.to_nat (countN c seq)) syms in
  let ls := map (code_clen 2 tab) syms in
  optimal 4 fs ls ->
  (2 * INR (N.to_nat (sumN (h_lens t))) <= INR (N.to_nat (len seq)) * (H0 fs + 2))%R.
Proof.
  intros w bsize seq tab t Hw Hb HF Hn Htok E Hne syms fs ls Hopt.
  pose proof (hq_level_symbols_cost w bsize seq tab t Hw Hb HF Hn Htok E) as HS. cbv zeta in HS.
  fold syms in HS. fold fs in HS. fold ls in HS. rewrite HS, Nnat.Nat2N.id.
  rewrite <- (freq_total seq). fold syms. fold fs.
  apply optimal_entropy_quad; [apply freq_pos|now apply freq_nonempty|exact Hopt].
Qed.

Theorem hwt_level_bits_entropy : forall w seq tab t, BinWTP.width_ok w -> Forall (fun x => x < 2 ^ w) seq ->
  len seq < RSQ_MAXN -> BinWTP.table_ok2 seq tab -> wt_build w true seq tab = Val t -> seq <> [] ->
  let syms := nodup N.eq_dec seq in
  let fs := map (fun c => N.to_nat (countN c seq)) syms in
  let ls := map (code_clen 1 tab) syms in
  optimal 2 fs ls ->
  (INR (N.to_nat (sumN (w_lens t))) <= INR (N.to_nat (len seq)) * (H0 fs + 1))%R.
Proof.
  intros w seq tab t Hw HF Hn Htok E Hne syms fs ls Hopt.
  pose proof (hwt_level_bits_cost w seq tab t Hw HF Hn Htok E) as HS. cbv zeta in HS.
  fold syms in HS. fold fs in HS. fold ls in HS. rewrite HS, Nnat.Nat2N.id.
  rewrite <- (freq_total seq). fold syms. fold fs.
  apply optimal_entropy_bin; [apply freq_pos|now apply freq_nonempty|exact Hopt].
Qed.

(* never more level data than a plain tree of L levels *)
Theorem hq_never_more_than_plain : forall w bsize seq tab t L, HQWTP.width_ok w -> (bsize = 256 \/ bsize = 512) ->
  Forall (fun x => x < 2 ^ w) seq -> len seq < RSQ_MAXN -> HQWTP.table_ok seq tab ->
  hq_build bsize seq tab = Val t ->
  let syms := nodup N.eq_dec seq in
  let fs := map (fun c => N.to_nat (countN c seq)) syms in
  let ls := map (code_clen 2 tab) syms in
  (1 <= L)%nat -> (length syms <= 4 ^ L)%nat -> optimal 4 fs ls ->
  sumN (h_lens t) <= len seq * N.of_nat L.
Proof.
  intros w bsize seq tab t L Hw Hb HF Hn Htok E syms fs ls HL Hlen Hopt.
  pose proof (hq_level_symbols_cost w bsize seq tab t Hw Hb HF Hn Htok E) as HS. cbv zeta in HS.
  fold syms in HS. fold fs in HS. fold ls in HS. rewrite HS.
  assert (Hlen' : (length fs <= 4 ^ L)%nat) by (unfold fs; rewrite map_length; exact Hlen).
  pose proof (optimal_le_fixed 4 L fs ls ltac:(lia) HL Hlen' Hopt) as H.
  pose proof (freq_total seq) as HT. fold syms in HT. fold fs in HT. rewrite HT in H.
  clear - H. nia.
Qed.

Theorem hwt_never_more_than_plain : forall w seq tab t L, BinWTP.width_ok w -> Forall (fun x => x < 2 ^ w) seq ->
  len seq < RSQ_MAXN -> BinWTP.table_ok2 seq tab -> wt_build w true seq tab = Val t ->
  let syms := nodup N.eq_dec seq in
  let fs := map (fun c => N.to_nat (countN c seq)) syms in
  let ls := map (code_clen 1 tab) syms in
  (1 <= L)%nat -> (length syms <= 2 ^ L)%nat -> optimal 2 fs ls ->
  sumN (w_lens t) <= len seq * N.of_nat L.
Proof.
  intros w seq tab t L Hw HF Hn Htok E syms fs ls HL Hlen Hopt.
  pose proof (hwt_level_bits_cost w seq tab t Hw HF Hn Htok E) as HS. cbv zeta in HS.
  fold syms in HS. fold fs in HS. fold ls in HS. rewrite HS.
  assert (Hlen' : (length fs <= 2 ^ L)%nat) by (unfold fs; rewrite map_length; exact Hlen).
  pose proof (optimal_le_fixed 2 L fs ls ltac:(lia) HL Hlen' Hopt) as H.
  pose proof (freq_total seq) as HT. fold syms in HT. fold fs in HT. rewrite HT in H.
  clear - H. nia.
Qed.

(* ---------------------------------------------------------------- 7. non-vacuity *)
(* five symbols, quad code lengths 1,1,1,2,2 fragments (2,2,2,4,4 bits); 24 elements *)
Definition lb_ex_seq : list N :=
  [1; 4; 7; 3; 1; 1; 6; 4; 7; 1; 3; 4; 1; 7; 7; 6; 1; 4; 3; 1; 7; 4; 1; 6].
Definition lb_ex_lens : list (N * N) := [(1, 2); (4, 2); (7, 2); (3, 4); (6, 4)].

(* craft the table, check it, build the tree, compare the stored level lengths with the sums *)
Definition lb_ex_check (bsize : N) : bool :=
  match craft4 lb_ex_lens 7 with
  | Val tab =>
      HQWTP.table_okb lb_ex_seq tab &&
      match hq_build bsize lb_ex_seq tab with
      | Val t =>
          (sumN (h_lens t) =? sumN (map (fun x => N.of_nat (code_clen 2 tab x)) lb_ex_seq)) &&
          (sumN (h_lens t) =?
             N.of_nat (cost (map (fun c => N.to_nat (countN c lb_ex_seq)) (nodup N.eq_dec lb_ex_seq))
                            (map (code_clen 2 tab) (nodup N.eq_dec lb_ex_seq)))) &&
          (sumN (h_lens t) =? 30) &&
          (len (h_lens t) =? 2) &&
          forallb (fun p => rsq_len (fst p) =? snd p) (combine (h_qvs t) (h_lens t)) &&
          (total (map (fun c => N.to_nat (countN c lb_ex_seq)) (nodup N.eq_dec lb_ex_seq)) =? 24)%nat
      | Fault _ => false
      end
  | Fault _ => false
  end.
Example lb_example_256 : lb_ex_check 256 = true.
Proof. vm_compute. reflexivity. Qed.
Example lb_example_512 : lb_ex_check 512 = true.
Proof. vm_compute. reflexivity. Qed.

(* the same on the examples of HQWTP / BinWTP, through the theorems *)
Example lb_example_hq_thm : forall t, hq_build 256 HQWTP.hq_ex_seq HQWTP.hq_ex_tab = Val t ->
  sumN (h_lens t) = 40.
Proof.
  intros t E.
  assert (HF : Forall (fun x => x < 2 ^ 8) HQWTP.hq_ex_seq).
  { apply Forall_forall. intros x Hx.
    assert (H : forallb (fun y => y <? 2 ^ 8) HQWTP.hq_ex_seq = true) by (vm_compute; reflexivity).
    rewrite forallb_forall in H. specialize (H x Hx). lia. }
  rewrite (hq_level_symbols 8 256 _ _ t (or_introl eq_refl) (or_introl eq_refl) HF eq_refl HQWTP.hq_ex_table_ok E).
  vm_compute. reflexivity.
Qed.

Example lb_example_hwt_thm : forall t, wt_build 8 true BinWTP.hwt_ex_seq BinWTP.hwt_ex_tab = Val t ->
  sumN (w_lens t) = 60.
Proof.
  intros t E.
  assert (HF : Forall (fun x => x < 2 ^ 8) BinWTP.hwt_ex_seq).
  { apply Forall_forall. intros x Hx.
    assert (H : forallb (fun y => y <? 2 ^ 8) BinWTP.hwt_ex_seq = true) by (vm_compute; reflexivity).
    rewrite forallb_forall in H. specialize (H x Hx). lia. }
  rewrite (hwt_level_bits 8 _ _ t (or_introl eq_refl) HF eq_refl BinWTP.hwt_ex_table_ok E).
  vm_compute. reflexivity.
Qed.

(* the hypotheses of the entropy corollary are jointly satisfiable: four symbols, one fragment each
   (optimal: every admissible assignment has all lengths >= 1) *)
Definition ent_ex_seq : list N := [0; 1; 2; 3; 0; 0; 1; 0; 2; 0].
Definition ent_ex_tab : list pcode := [mk_pc 3 2; mk_pc 2 2; mk_pc 1 2; mk_pc 0 2].
Definition ent_ex_check : bool :=
  match craft4 [(0, 2); (1, 2); (2, 2); (3, 2)] 3 with
  | Val tab => HQWTP.table_okb ent_ex_seq tab && is_val (hq_build 256 ent_ex_seq tab) &&
               forallb (fun c => (code_clen 2 tab c =? 1)%nat) (nodup N.eq_dec ent_ex_seq)
  | Fault _ => false
  end.
Example ent_example_check : ent_ex_check = true.
Proof. vm_compute. reflexivity. Qed.
Example ent_ex_craft : craft4 [(0, 2); (1, 2); (2, 2); (3, 2)] 3 = Val ent_ex_tab.
Proof. vm_compute. reflexivity. Qed.
Example ent_ex_table_ok : HQWTP.table_ok ent_ex_seq ent_ex_tab.
Proof. apply HQWTP.table_okb_sound. vm_compute. reflexivity. Qed.
Example ent_ex_optimal :
  optimal 4 (map (fun c => N.to_nat (countN c ent_ex_seq)) (nodup N.eq_dec ent_ex_seq))
            (map (code_clen 2 ent_ex_tab) (nodup N.eq_dec ent_ex_seq)).
Proof.
  split; [vm_compute; reflexivity|]. intros ls' Hlen Hall _.
  replace (cost _ (map (code_clen 2 ent_ex_tab) (nodup N.eq_dec ent_ex_seq)))
    with (total (map (fun c => N.to_nat (countN c ent_ex_seq)) (nodup N.eq_dec ent_ex_seq)))
    by (vm_compute; reflexivity).
  apply cost_ge_total; assumption.
Qed.
(* the builder succeeds on it and the entropy bound applies to the tree it returns *)
Example ent_example_thm : exists t, hq_build 256 ent_ex_seq ent_ex_tab = Val t /\
  (2 * INR (N.to_nat (sumN (h_lens t))) <=
   INR (N.to_nat (len ent_ex_seq)) *
   (H0 (map (fun c => N.to_nat (countN c ent_ex_seq)) (nodup N.eq_dec ent_ex_seq)) + 2))%R.
Proof.
  assert (HF : Forall (fun x => x < 2 ^ 8) ent_ex_seq).
  { apply Forall_forall. intros x Hx.
    assert (H : forallb (fun y => y <? 2 ^ 8) ent_ex_seq = true) by (vm_compute; reflexivity).
    rewrite forallb_forall in H. specialize (H x Hx). lia. }
  destruct (HQWTP.hq_build_correct 8 256 ent_ex_seq ent_ex_tab (or_introl eq_refl) (or_introl eq_refl) HF eq_refl
              ent_ex_table_ok) as (t & E & _).
  exists t. split; [exact E|].
  apply (hq_level_bits_entropy 8 256 ent_ex_seq ent_ex_tab t (or_introl eq_refl) (or_introl eq_refl) HF eq_refl
           ent_ex_table_ok E); [discriminate|exact ent_ex_optimal].
Qed.

Print Assumptions Q_perm.
Print Assumptions hwm_levels_total.
Print Assumptions sum_by_frequency.
Print Assumptions freq_total.
Print Assumptions freq_total_length.
Print Assumptions freq_pos.
Print Assumptions freq_nonempty.
Print Assumptions hq_level_symbols.
Print Assumptions hq_level_lens.
Print Assumptions hwt_level_bits.
Print Assumptions wt_plain_level_bits.
Print Assumptions qwt_plain_level_symbols.
Print Assumptions hq_level_symbols_cost.
Print Assumptions hwt_level_bits_cost.
Print Assumptions hq_level_bits_entropy.
Print Assumptions hwt_level_bits_entropy.
Print Assumptions hq_never_more_than_plain.
Print Assumptions hwt_never_more_than_plain.
Print Assumptions lb_example_256.
Print Assumptions lb_example_512.
Print Assumptions lb_example_hq_thm.
Print Assumptions lb_example_hwt_thm.
Print Assumptions ent_example_thm.
