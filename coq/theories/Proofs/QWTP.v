(* C01: the quad wavelet tree (Model/QWT.v) answers every query exactly like the list
   specification (Spec/Seq.v), for every sequence of fewer than RSQ_MAXN symbols of any
   admitted width and both block sizes, and no Fault occurs.
   Structure: QWTArith (two_bits / msb / base-4 digits / stable partition),
   QWTBuild (construction: level l stores the digits [wm_levels] of Theory/WaveletMatrix.v, each
   as a rank/select quad vector correct by Proofs/RSQP.v),
   QWTWalk (the model walks compute the generic walks of Theory/WaveletMatrix.v). *)
From Coq Require Import ZArith Lia ZifyBool ZifyN ZifyNat.
From QwtModel Require Import ListX Seq Consts QVec RSQ QWT ListXP ConstsOk QVecP RSQList RSQWord RSQBuild RSQP.
From QwtModel Require Import WaveletMatrix QWTArith QWTBuild QWTWalk.
Ltac Zify.zify_post_hook ::= Z.div_mod_to_equations.
Arguments N.add : simpl never.
Arguments N.sub : simpl never.
Arguments N.mul : simpl never.
Arguments N.eqb : simpl never.
Arguments N.ltb : simpl never.
Arguments N.leb : simpl never.
Arguments N.pred : simpl never.
Arguments N.of_nat : simpl never.
Arguments N.land : simpl never.
Arguments N.lor : simpl never.
Arguments N.shiftr : simpl never.
Arguments N.shiftl : simpl never.
Arguments N.div : simpl never.
Arguments N.modulo : simpl never.
Arguments N.pow : simpl never.
Arguments N.sqrt : simpl never.
Arguments N.log2 : simpl never.
Arguments N.max : simpl never.

Definition width_ok (w : N) : Prop := w = 8 \/ w = 16 \/ w = 32 \/ w = 64 \/ w = 128.
(* number of levels the constructor picks: ceil(bitlen(max)/2), at least 1 *)
Definition levels_of (seq : list N) : N := (msb (maxN seq) + 1 + 1) / 2.

Definition qwt_spec (w bsize : N) (t : qwt) (seq : list N) : Prop :=
  qwt_len t = len seq /\
  qwt_is_empty t = (len seq =? 0) /\
  qwt_sigma t = (if len seq =? 0 then None else Some (maxN seq)) /\
  q_n_levels t = (if len seq =? 0 then 0 else levels_of seq) /\
  (forall i, qwt_get w bsize t i = Val (nthN seq i)) /\
  (forall c i, c < 2 ^ w -> qwt_rank w bsize t c i =
       Val (if negb (len seq =? 0) && (i <=? len seq) && (c <=? maxN seq) then Some (rank_spec seq c i) else None)) /\
  (forall c i, c < 2 ^ w -> qwt_rank_prefetch w bsize t c i = qwt_rank w bsize t c i) /\
  (forall c k, c < 2 ^ w -> k < 2 ^ 64 -> qwt_select w bsize t c k =
       Val (if negb (len seq =? 0) && (c <=? maxN seq) then select_spec seq c k else None)) /\
  (* unchecked variants under their preconditions *)
  (forall i x, nthN seq i = Some x -> qwt_get_unchecked w bsize t i = Val x) /\
  (forall c i, 0 < len seq -> c <= maxN seq -> i <= len seq -> qwt_rank_unchecked w bsize t c i = Val (rank_spec seq c i)
                                                            /\ qwt_rank_prefetch_unchecked w bsize t c i = Val (rank_spec seq c i)) /\
  (forall c k p, c < 2 ^ w -> select_spec seq c k = Some p -> qwt_select_unchecked w bsize t c k = Val p).

Lemma levels_of_qlevels seq : levels_of seq = qlevels seq.
Proof. reflexivity. Qed.

(* ---------- the partition is the generic stable partition (part of C17) ---------- *)
Theorem stable_partition_of_4_correct : forall w seq shift, width_ok w -> shift < w ->
  Forall (fun x => x < 2 ^ w) seq ->
  stable_partition_of_4 w seq shift =
  Val (concat (map (fun d => filter (fun x => (x / 2 ^ shift) mod 4 =? d) seq) [0;1;2;3])).
Proof. intros w seq shift _ Hs _. now apply stable_partition_of_4_val. Qed.

(* in the vocabulary of Theory/WaveletMatrix.v: [parts] on the digit of level l of L levels *)
Corollary stable_partition_of_4_parts : forall w L l s, 2 * N.of_nat (L - 1 - l) < w ->
  stable_partition_of_4 w s (2 * N.of_nat (L - 1 - l)) = Val (parts N (qdig L) l 4 s).
Proof. exact stable_partition_parts. Qed.

(* ---------- a tree without symbols (q_n = 0) answers None everywhere ---------- *)
Lemma qwt_spec_empty w bsize t : q_n t = 0 -> q_n_levels t = 0 -> qwt_spec w bsize t [].
Proof.
  intros Hn Hnl. unfold qwt_spec. change (len (@nil N)) with 0. change (0 =? 0) with true.
  cbv iota. cbn [negb andb].
  split; [|split; [|split; [|split; [|split; [|split; [|split; [|split; [|split; [|split]]]]]]]]].
  - exact Hn.
  - unfold qwt_is_empty. now rewrite Hn.
  - unfold qwt_sigma, qwt_is_empty. now rewrite Hn.
  - exact Hnl.
  - intros i. unfold qwt_get. rewrite Hn. replace (0 <=? i) with true by lia. reflexivity.
  - intros c i _. unfold qwt_rank. rewrite Hn. change (0 =? 0) with true. now rewrite orb_true_r.
  - intros c i _. unfold qwt_rank_prefetch, qwt_rank. rewrite Hn. change (0 =? 0) with true.
    now rewrite orb_true_r.
  - intros c k _ _. unfold qwt_select. rewrite Hn. change (0 =? 0) with true. now rewrite orb_true_r.
  - intros i x H. discriminate H.
  - intros c i H. lia.
  - intros c k p _ H. discriminate H.
Qed.

(* the default value answers None everywhere *)
Theorem qwt_default_correct : forall w bsize, qwt_spec w bsize qwt_default [].
Proof. intros w bsize. apply qwt_spec_empty; reflexivity. Qed.

(* ---------- the constructor ---------- *)
(* construction lemma: the levels of the built tree are rank/select quad vectors over exactly the
   digit lists [wm_levels] of the generic wavelet matrix (arity 4, digit [qdig L]) *)
Theorem qwt_new_levels : forall w bsize seq, width_ok w -> (bsize = 256 \/ bsize = 512) ->
  Forall (fun x => x < 2 ^ w) seq -> len seq < RSQ_MAXN -> seq <> [] ->
  let L := N.to_nat (levels_of seq) in
  exists t, qwt_new w bsize seq = Val t /\
    Forall2 (rsq_spec bsize) (q_qvs t) (wm_levels N 4 (qdig L) 0 L seq).
Proof.
  intros w bsize seq Hwok Hb HF Hn Hne L.
  assert (Hwpos : 0 < w) by (unfold width_ok in Hwok; lia).
  assert (Enew : qwt_new w bsize seq =
            let! s0 := osub (levels_of seq) 1 in
            let! qvs := qwt_levels w bsize seq (2 * s0) (N.to_nat (levels_of seq)) in
            Val {| q_n := len seq; q_n_levels := levels_of seq; q_sigma := maxN seq; q_qvs := qvs |}).
  { destruct seq; [congruence|reflexivity]. }
  rewrite Enew. clear Enew.
  assert (HLN : levels_of seq = N.of_nat L) by (unfold L; lia).
  pose proof (qlevels_pos seq) as Hpos. rewrite <- levels_of_qlevels in Hpos.
  assert (HL : (0 < L)%nat) by lia.
  assert (Hpow : 0 < 2 ^ w) by (apply N.neq_0_lt_0, N.pow_nonzero; lia).
  pose proof (maxN_lt seq (2 ^ w) Hpow HF) as Hmax.
  pose proof (qlevels_shift seq w Hwpos Hmax) as Hsh. rewrite <- levels_of_qlevels, HLN in Hsh.
  assert (Hw : 2 * N.of_nat (L - 1) < w) by lia.
  unfold osub. replace (1 <=? levels_of seq) with true by lia. cbn [bind].
  replace (2 * (levels_of seq - 1)) with (2 * N.of_nat (L - 1)) by lia.
  destruct (qwt_levels_tree w bsize L seq Hb Hn HL Hw) as (qvs & Eq & _ & HF2).
  fold L. rewrite Eq. cbn [bind]. eexists. split; [reflexivity|exact HF2].
Qed.

Theorem qwt_new_correct : forall w bsize seq, width_ok w -> (bsize = 256 \/ bsize = 512) ->
  Forall (fun x => x < 2 ^ w) seq -> len seq < RSQ_MAXN ->
  exists t, qwt_new w bsize seq = Val t /\ qwt_spec w bsize t seq.
Proof.
  intros w bsize seq Hwok Hb HF Hn.
  assert (Hwpos : 0 < w) by (unfold width_ok in Hwok; lia).
  destruct seq as [|x0 seq'] eqn:Eseq.
  - unfold qwt_new. destruct (rsq_default_correct bsize Hb) as (d & Ed & _). rewrite Ed. cbn [bind].
    eexists. split; [reflexivity|]. apply qwt_spec_empty; reflexivity.
  - rewrite <- Eseq in *. assert (Hne : len seq <> 0) by (rewrite Eseq, len_cons; lia).
    assert (Enew : qwt_new w bsize seq =
              let! s0 := osub (levels_of seq) 1 in
              let! qvs := qwt_levels w bsize seq (2 * s0) (N.to_nat (levels_of seq)) in
              Val {| q_n := len seq; q_n_levels := levels_of seq; q_sigma := maxN seq; q_qvs := qvs |}).
    { rewrite Eseq. reflexivity. }
    rewrite Enew. clear Enew Eseq x0 seq'.
    set (L := N.to_nat (levels_of seq)).
    assert (HLN : levels_of seq = N.of_nat L) by (unfold L; lia).
    pose proof (qlevels_pos seq) as Hpos. rewrite <- levels_of_qlevels in Hpos.
    assert (HL : (0 < L)%nat) by lia.
    assert (Hpow : 0 < 2 ^ w) by (apply N.neq_0_lt_0, N.pow_nonzero; lia).
    pose proof (maxN_lt seq (2 ^ w) Hpow HF) as Hmax.
    pose proof (qlevels_shift seq w Hwpos Hmax) as Hsh. rewrite <- levels_of_qlevels, HLN in Hsh.
    assert (Hw : 2 * N.of_nat (L - 1) < w) by lia.
    pose proof (qlevels_bound seq) as Hm4. rewrite <- levels_of_qlevels, HLN in Hm4.
    unfold osub. replace (1 <=? levels_of seq) with true by lia. cbn [bind].
    replace (2 * (levels_of seq - 1)) with (2 * N.of_nat (L - 1)) by lia.
    destruct (qwt_levels_tree w bsize L seq Hb Hn HL Hw) as (qvs & Eq & HT & _).
    fold L. rewrite Eq. cbn [bind]. eexists. split; [reflexivity|].
    assert (Hlen64 : len seq < 2 ^ 64).
    { rewrite RSQ_MAXN_val in Hn. change (2 ^ 64) with 18446744073709551616. lia. }
    unfold qwt_spec. replace (len seq =? 0) with false by lia. cbv iota.
    split; [reflexivity|]. split; [unfold qwt_is_empty; cbn [q_n]; lia|].
    split; [unfold qwt_sigma, qwt_is_empty; cbn [q_n q_sigma]; now replace (len seq =? 0) with false by lia|].
    split; [reflexivity|].
    pose proof (walks_bundle w bsize L seq qvs HT HL Hw Hlen64
                  {| q_n := len seq; q_n_levels := levels_of seq; q_sigma := maxN seq; q_qvs := qvs |}
                  eq_refl HLN eq_refl eq_refl Hne) as HB.
    unfold qwt_queries_spec in HB. replace (len seq =? 0) with false in HB by lia.
    apply HB; [|exact Hm4]. intros x Hx. rewrite Forall_forall in HF. now apply HF.
Qed.

(* ------------------------------------------------------------------ non-vacuity *)
(* 40 values below 70 (maximum 64: 4 levels), element type u8 *)
Definition qwt_example_input : list N := map (fun i => (i * i * 7 + 3 * i) mod 70) (seqN 0 40).

Definition qwt_example_checks (bsize : N) : Prop :=
  match qwt_new 8 bsize qwt_example_input with
  | Val t =>
      qwt_len t = 40 /\ q_n_levels t = 4 /\ qwt_sigma t = Some 64 /\ len (q_qvs t) = 4 /\
      qwt_get 8 bsize t 17 = Val (Some 44) /\ qwt_get 8 bsize t 39 = Val (Some 54) /\
      qwt_get 8 bsize t 40 = Val None /\
      qwt_rank 8 bsize t 10 40 = Val (Some 3) /\ qwt_rank 8 bsize t 54 30 = Val (Some 1) /\
      qwt_rank 8 bsize t 3 40 = Val (Some 0) /\ qwt_rank 8 bsize t 3 41 = Val None /\
      qwt_rank 8 bsize t 65 40 = Val None /\
      qwt_rank_prefetch 8 bsize t 0 21 = Val (Some 1) /\
      qwt_select 8 bsize t 10 1 = Val (Some 15) /\ qwt_select 8 bsize t 0 2 = Val (Some 35) /\
      qwt_select 8 bsize t 10 7 = Val None /\ qwt_select 8 bsize t 3 0 = Val None /\
      qwt_select 8 bsize t 65 0 = Val None /\
      qwt_get_unchecked 8 bsize t 17 = Val 44 /\ qwt_rank_unchecked 8 bsize t 10 40 = Val 3 /\
      qwt_rank_prefetch_unchecked 8 bsize t 10 40 = Val 3 /\
      qwt_select_unchecked 8 bsize t 54 1 = Val 32
  | Fault _ => False
  end.

Example qwt_example_256 : qwt_example_checks 256.
Proof. vm_compute. repeat split; reflexivity. Qed.
Example qwt_example_512 : qwt_example_checks 512.
Proof. vm_compute. repeat split; reflexivity. Qed.
(* the same values from the specification side *)
Example qwt_example_spec :
  let s := qwt_example_input in
  len s = 40 /\ maxN s = 64 /\ levels_of s = 4 /\ nthN s 17 = Some 44 /\ nthN s 39 = Some 54 /\
  rank_spec s 10 40 = 3 /\ rank_spec s 54 30 = 1 /\ rank_spec s 3 40 = 0 /\ rank_spec s 0 21 = 1 /\
  select_spec s 10 1 = Some 15 /\ select_spec s 0 2 = Some 35 /\ select_spec s 10 7 = None /\
  select_spec s 3 0 = None /\ select_spec s 54 1 = Some 32.
Proof. vm_compute. repeat split; reflexivity. Qed.
(* symbols above 2^64 (element type u128): two_bits truncates to 64 bits before masking *)
Example qwt_example_u128 :
  let s := [2 ^ 100 + 5; 7; 2 ^ 100 + 5; 2 ^ 127; 0; 2 ^ 64 + 1] in
  match qwt_new 128 256 s with
  | Val t => q_n_levels t = 64 /\ qwt_get 128 256 t 3 = Val (Some (2 ^ 127)) /\
             qwt_rank 128 256 t (2 ^ 100 + 5) 6 = Val (Some 2) /\
             qwt_select 128 256 t (2 ^ 64 + 1) 0 = Val (Some 5) /\
             qwt_select 128 256 t (2 ^ 100 + 5) 1 = Val (Some 2)
  | Fault _ => False
  end.
Proof. vm_compute. repeat split; reflexivity. Qed.
(* the theorem instantiated on the example input *)
Example qwt_example_thm : forall bsize, (bsize = 256 \/ bsize = 512) ->
  exists t, qwt_new 8 bsize qwt_example_input = Val t /\ qwt_spec 8 bsize t qwt_example_input.
Proof.
  intros bsize Hb. apply qwt_new_correct; [left; reflexivity|exact Hb| |reflexivity].
  unfold qwt_example_input. apply Forall_forall. intros x Hx. apply in_map_iff in Hx.
  destruct Hx as (i & <- & _). change (2 ^ 8) with 256. lia.
Qed.

Print Assumptions qwt_new_correct.
Print Assumptions qwt_new_levels.
Print Assumptions qwt_default_correct.
Print Assumptions stable_partition_of_4_correct.
Print Assumptions stable_partition_of_4_parts.
Print Assumptions qwt_example_256.
Print Assumptions qwt_example_512.
Print Assumptions qwt_example_spec.
Print Assumptions qwt_example_u128.
Print Assumptions qwt_example_thm.
