(* List-level lemmas for the rank/select proofs: prefix counts [rk], the bridge to
   rank_spec / select_spec, counting through uniform lines, select inside a line. *)
From Coq Require Import ZArith Lia ZifyBool ZifyN ZifyNat.
From QwtModel Require Import ListX Seq Consts QVec RSQ ListXP ConstsOk QVecP.
Ltac Zify.zify_post_hook ::= Z.div_mod_to_equations.
Arguments N.add : simpl never.
Arguments N.sub : simpl never.
Arguments N.mul : simpl never.
Arguments N.eqb : simpl never.
Arguments N.ltb : simpl never.
Arguments N.leb : simpl never.
Arguments N.pred : simpl never.
Arguments N.of_nat : simpl never.
Arguments N.land : simpl never.
Arguments N.lor : simpl never.
Arguments N.shiftr : simpl never.
Arguments N.shiftl : simpl never.
Arguments N.div : simpl never.
Arguments N.modulo : simpl never.
Arguments N.pow : simpl never.
Arguments N.sqrt : simpl never.


(* ------------------------------------------------------------------ firstnN / skipnN *)
Lemma firstnN_0 {A} (l : list A) : firstnN 0 l = [].
Proof. destruct l; reflexivity. Qed.
Lemma firstnN_succ {A} (x : A) l i : firstnN (i + 1) (x :: l) = x :: firstnN i l.
Proof. cbn [firstnN]. destruct (N.eqb_spec (i + 1) 0); [lia|]. do 2 f_equal. lia. Qed.
Lemma firstnN_app {A} (l1 l2 : list A) i :
  firstnN i (l1 ++ l2) = firstnN i l1 ++ firstnN (i - len l1) l2.
Proof.
  rewrite !firstnN_firstn, firstn_app. do 2 f_equal. unfold len. lia.
Qed.
Lemma skipnN_0 {A} (l : list A) : skipnN 0 l = l.
Proof. destruct l; reflexivity. Qed.
Lemma skipnN_none {A} (l : list A) i : len l <= i -> skipnN i l = [].
Proof. intros H. rewrite skipnN_skipn. apply skipn_all2. unfold len in H. lia. Qed.
Lemma skipnN_nth {A} (l : list A) : forall i x, nthN l i = Some x -> skipnN i l = x :: skipnN (i + 1) l.
Proof.
  induction l as [|y l IH]; intros i x H; [discriminate|].
  cbn [nthN] in H. cbn [skipnN]. destruct (N.eqb_spec i 0) as [->|Hn].
  - injection H as ->. change (0 + 1 =? 0) with false. cbv iota. change (N.pred (0 + 1)) with 0.
    now rewrite skipnN_0.
  - destruct (N.eqb_spec (i + 1) 0); [lia|]. rewrite (IH _ _ H). do 2 f_equal. lia.
Qed.

(* ------------------------------------------------------------------ prefix counts *)
Definition rk (s : list N) (c i : N) : N := countN c (firstnN i s).

Lemma rk_0 s c : rk s c 0 = 0.
Proof. unfold rk. now rewrite firstnN_0. Qed.
Lemma rk_nil c i : rk [] c i = 0.
Proof. reflexivity. Qed.
Lemma rk_cons x s c i : rk (x :: s) c (i + 1) = (if x =? c then 1 else 0) + rk s c i.
Proof. unfold rk. rewrite firstnN_succ. reflexivity. Qed.
Lemma rk_app s z c i : rk (s ++ z) c i = rk s c i + rk z c (i - len s).
Proof. unfold rk. now rewrite firstnN_app, countN_app. Qed.
Lemma rk_all s c i : len s <= i -> rk s c i = countN c s.
Proof. intros H. unfold rk. now rewrite firstnN_all. Qed.
Lemma rk_app_le s z c i : i <= len s -> rk (s ++ z) c i = rk s c i.
Proof. intros H. rewrite rk_app. replace (i - len s) with 0 by lia. rewrite rk_0. lia. Qed.

Lemma rk_mono s c : forall a b, a <= b -> rk s c a <= rk s c b.
Proof.
  induction s as [|x s IH]; intros a b H; [rewrite !rk_nil; lia|].
  destruct (N.eq_dec a 0) as [->|Ha]; [rewrite rk_0; lia|].
  replace a with (N.pred a + 1) by lia. replace b with (N.pred b + 1) by lia.
  rewrite !rk_cons. pose proof (IH (N.pred a) (N.pred b) ltac:(lia)). lia.
Qed.
Lemma rk_lip s c : forall a d, rk s c (a + d) <= rk s c a + d.
Proof.
  induction s as [|x s IH]; intros a d; [rewrite !rk_nil; lia|].
  destruct (N.eq_dec a 0) as [->|Ha].
  - rewrite rk_0. destruct (N.eq_dec d 0) as [->|Hd]; [rewrite rk_0; lia|].
    replace (0 + d) with (N.pred d + 1) by lia. rewrite rk_cons.
    pose proof (IH 0 (N.pred d)) as P. rewrite rk_0 in P. replace (0 + N.pred d) with (N.pred d) in P by lia.
    destruct (x =? c); lia.
  - replace (a + d) with (N.pred a + d + 1) by lia. replace a with (N.pred a + 1) at 2 by lia.
    rewrite !rk_cons. pose proof (IH (N.pred a) d). lia.
Qed.
Lemma rk_le s c a : rk s c a <= a.
Proof. pose proof (rk_lip s c 0 a) as H. rewrite rk_0 in H. now replace (0 + a) with a in H by lia. Qed.
Lemma rk_le_count s c a : rk s c a <= countN c s.
Proof.
  destruct (N.le_ge_cases (len s) a) as [H|H]; [rewrite rk_all by assumption; lia|].
  rewrite <- (rk_all s c (len s)) by lia. now apply rk_mono.
Qed.
Lemma rk_le_len s c a : rk s c a <= len s.
Proof. pose proof (rk_le_count s c a). pose proof (countN_le_len c s). lia. Qed.
Lemma rk_succ s c : forall i x, nthN s i = Some x -> rk s c (i + 1) = rk s c i + (if x =? c then 1 else 0).
Proof.
  induction s as [|y s IH]; intros i x H; [discriminate|].
  cbn [nthN] in H. destruct (N.eqb_spec i 0) as [->|Hn].
  - injection H as ->. rewrite rk_cons, !rk_0. lia.
  - remember (N.pred i) as j eqn:Ej. assert (Ei : i = j + 1) by lia. rewrite Ei.
    rewrite !rk_cons, (IH _ _ H). lia.
Qed.

Lemma rank_spec_rk s c : forall i, rank_spec s c i = rk s c i.
Proof.
  induction s as [|x s IH]; intros i; [reflexivity|].
  cbn [rank_spec]. destruct (N.eqb_spec i 0) as [->|Hn]; [now rewrite rk_0|].
  replace i with (N.pred i + 1) at 2 by lia. now rewrite rk_cons, IH.
Qed.

(* ------------------------------------------------------------------ select *)
Lemma select_from_some s c : forall q k pos, nthN s q = Some c -> rk s c q = k ->
  select_from s c k pos = Some (pos + q).
Proof.
  induction s as [|x s IH]; intros q k pos Hn Hr; [discriminate|].
  cbn [nthN] in Hn. cbn [select_from]. destruct (N.eqb_spec q 0) as [->|Hq].
  - injection Hn as ->. rewrite rk_0 in Hr. subst k. rewrite !N.eqb_refl. f_equal. lia.
  - replace q with (N.pred q + 1) in Hr by lia. rewrite rk_cons in Hr.
    destruct (N.eqb_spec x c) as [->|Hx].
    + destruct (N.eqb_spec k 0); [lia|]. rewrite (IH (N.pred q) (N.pred k) (pos + 1) Hn ltac:(lia)). f_equal. lia.
    + rewrite (IH (N.pred q) k (pos + 1) Hn ltac:(lia)). f_equal. lia.
Qed.
Lemma select_from_none s c : forall k pos, countN c s <= k -> select_from s c k pos = None.
Proof.
  induction s as [|x s IH]; intros k pos H; [reflexivity|].
  cbn [countN] in H. cbn [select_from]. destruct (N.eqb_spec x c) as [->|Hx].
  - destruct (N.eqb_spec k 0); [lia|]. apply IH. lia.
  - apply IH. lia.
Qed.
Lemma select_spec_some s c q k : nthN s q = Some c -> rk s c q = k -> select_spec s c k = Some q.
Proof. intros H1 H2. unfold select_spec. now rewrite (select_from_some s c q k 0 H1 H2). Qed.
Lemma select_spec_none s c k : countN c s <= k -> select_spec s c k = None.
Proof. intros H. now apply select_from_none. Qed.
Lemma select_spec_some_lt s c k p : select_spec s c k = Some p -> k < countN c s.
Proof.
  intros H. destruct (N.lt_ge_cases k (countN c s)) as [L|L]; [exact L|].
  rewrite select_spec_none in H by assumption. discriminate.
Qed.

(* ------------------------------------------------------------------ count_lt *)
Lemma count_lt_0 l : count_lt 0 l = 0.
Proof. induction l as [|x l IH]; cbn [count_lt]; [reflexivity|]. rewrite IH. destruct (N.ltb_spec x 0); lia. Qed.
Lemma count_lt_succ c l : count_lt (c + 1) l = count_lt c l + countN c l.
Proof.
  induction l as [|x l IH]; cbn [count_lt countN]; [reflexivity|]. rewrite IH.
  destruct (N.ltb_spec x (c + 1)), (N.ltb_spec x c), (N.eqb_spec x c); lia.
Qed.

(* ------------------------------------------------------------------ counting through lines *)
Lemma rk_line c (data : list (list N)) : Forall (fun l => len l = 256) data ->
  forall j x, x <= 256 ->
  rk (concat data) c (256 * j + x) =
  rk (concat data) c (256 * j) + match nthN data j with Some d => rk d c x | None => 0 end.
Proof.
  induction 1 as [|d rest Hd HF IH]; intros j x Hx.
  - cbn [concat nthN]. rewrite !rk_nil. reflexivity.
  - cbn [concat]. rewrite !rk_app, Hd. destruct (N.eq_dec j 0) as [->|Hj].
    + rewrite nthN_0. replace (256 * 0 + x) with x by lia. replace (x - 256) with 0 by lia.
      replace (256 * 0) with 0 by lia. change (0 - 256) with 0. rewrite !rk_0. lia.
    + replace j with (N.pred j + 1) at 5 by lia. rewrite nthN_succ.
      rewrite !(rk_all d) by lia.
      replace (256 * j + x - 256) with (256 * N.pred j + x) by lia.
      replace (256 * j - 256) with (256 * N.pred j) by lia.
      rewrite (IH (N.pred j) x Hx). lia.
Qed.

(* the symbols the iterator of a quad vector yields *)
Lemma qv_iter_all_inv q s : qvb_inv q s -> forall fuel i, len s <= i + N.of_nat fuel ->
  qv_iter_all q i fuel = Val (skipnN i s).
Proof.
  intros Hq. induction fuel as [|fuel IH]; intros i H; cbn [qv_iter_all].
  - now rewrite skipnN_none by lia.
  - rewrite (qv_get_inv q s i Hq). cbn [bind]. destruct (nthN s i) as [x|] eqn:E.
    + rewrite (IH (i + 1)) by lia. cbn [bind]. now rewrite (skipnN_nth s i x E).
    + destruct (N.lt_ge_cases i (len s)) as [L|L].
      * destruct (nthN_lt_some s i L) as (a & Ea). congruence.
      * now rewrite skipnN_none.
Qed.
Lemma qv_symbols_inv q s : qvb_inv q s -> qv_symbols q = Val s.
Proof.
  intros Hq. unfold qv_symbols. rewrite (qv_iter_all_inv q s Hq), skipnN_0; [reflexivity|].
  destruct Hq as (_ & _ & Hlen & _). rewrite LINE_SYMS_nat_val. unfold len in *. lia.
Qed.

(* ------------------------------------------------------------------ select inside a line *)
Lemma find_kth_spec c : forall l k pos, k < countN c l ->
  exists q, find_kth c l k pos = Some (pos + q) /\ q < len l /\ nthN l q = Some c /\ rk l c q = k.
Proof.
  induction l as [|x l IH]; intros k pos H; cbn [countN] in H; [lia|].
  cbn [find_kth]. destruct (N.eqb_spec x c) as [->|Hx].
  - destruct (N.eqb_spec k 0) as [->|Hk].
    + exists 0. rewrite len_cons, rk_0, nthN_0. repeat split; try lia. f_equal; lia.
    + destruct (IH (N.pred k) (pos + 1) ltac:(lia)) as (q & E & Hq & Hn & Hr).
      exists (q + 1). rewrite E, len_cons, nthN_succ, rk_cons, N.eqb_refl. repeat split; try lia; try assumption.
      f_equal; lia.
  - destruct (IH k (pos + 1) ltac:(lia)) as (q & E & Hq & Hn & Hr).
    exists (q + 1). rewrite E, len_cons, nthN_succ, rk_cons. replace (x =? c) with false by lia.
    repeat split; try lia; try assumption. f_equal; lia.
Qed.

Lemma half_select_spec c l k : k < countN c l ->
  exists q, half_select c l k = q /\ q < len l /\ nthN l q = Some c /\ rk l c q = k.
Proof.
  intros H. destruct (find_kth_spec c l k 0 H) as (q & E & Hq). exists q. unfold half_select. rewrite E.
  split; [lia|exact Hq].
Qed.

Lemma sel_line_found c d t res : len d = 256 -> t < countN c d ->
  exists q a b, sel_line c d t res = (Some (res + q), a, b) /\ q < 256 /\ nthN d q = Some c /\ rk d c q = t.
Proof.
  intros Hd Ht. unfold sel_line.
  assert (Ed : d = firstn 128 d ++ skipn 128 d) by (symmetry; apply firstn_skipn).
  assert (L0 : len (firstn 128 d) = 128). { unfold len in *. rewrite firstn_length. lia. }
  set (w0 := firstn 128 d) in *. set (w1 := skipn 128 d) in *.
  assert (L1 : len w1 = 128). { rewrite Ed, len_app in Hd. lia. }
  rewrite Ed, countN_app in Ht.
  destruct (N.ltb_spec t (countN c w0)) as [H0|H0].
  - destruct (half_select_spec c w0 t H0) as (q & E & Hq & Hn & Hr). rewrite E.
    exists q. do 2 eexists. split; [reflexivity|]. split; [lia|]. rewrite Ed. split.
    + now rewrite nthN_app1 by lia.
    + now rewrite rk_app_le by lia.
  - destruct (N.ltb_spec (t - countN c w0) (countN c w1)) as [H1|H1]; [|lia].
    destruct (half_select_spec c w1 _ H1) as (q & E & Hq & Hn & Hr). rewrite E.
    exists (128 + q). do 2 eexists. split; [f_equal; f_equal; f_equal; lia|]. split; [lia|]. rewrite Ed. split.
    + rewrite nthN_app2 by lia. rewrite L0. now replace (128 + q - 128) with q by lia.
    + rewrite rk_app, L0. rewrite rk_all by lia. replace (128 + q - 128) with q by lia. lia.
Qed.

Lemma sel_line_notfound c d t res : len d = 256 -> countN c d <= t ->
  sel_line c d t res = (None, t - countN c d, res + 256).
Proof.
  intros Hd Ht. unfold sel_line.
  assert (Ed : d = firstn 128 d ++ skipn 128 d) by (symmetry; apply firstn_skipn).
  set (w0 := firstn 128 d) in *. set (w1 := skipn 128 d) in *.
  assert (Ec : countN c d = countN c w0 + countN c w1) by (rewrite Ed at 1; apply countN_app).
  rewrite Ec in *.
  destruct (N.ltb_spec t (countN c w0)) as [H0|H0]; [lia|].
  destruct (N.ltb_spec (t - countN c w0) (countN c w1)) as [H1|H1]; [lia|].
  f_equal; [f_equal|]; lia.
Qed.
