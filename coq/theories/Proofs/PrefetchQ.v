(* C09 helper 3: the plain quad wavelet tree with prefetch support.  The supports built by
   qwt_pfs_new are [pfs_spec] of the level digit lists; the estimation walk keeps
   rs <= re <= len seq, which is below the panic bound of every (non empty) level. *)
From Coq Require Import ZArith Lia ZifyBool ZifyN ZifyNat.
From QwtModel Require Import ListX Seq Consts QVec RSQ QWT RSBin Prefetch ListXP ConstsOk QVecP RSQList RSQWord RSQBuild RSQP.
From QwtModel Require Import WaveletMatrix QWTArith QWTBuild QWTWalk QWTP PrefetchL PrefetchV.
Ltac Zify.zify_post_hook ::= Z.div_mod_to_equations.
Arguments N.add : simpl never.
Arguments N.sub : simpl never.
Arguments N.mul : simpl never.
Arguments N.eqb : simpl never.
Arguments N.ltb : simpl never.
Arguments N.leb : simpl never.
Arguments N.pred : simpl never.
Arguments N.of_nat : simpl never.
Arguments N.land : simpl never.
Arguments N.lor : simpl never.
Arguments N.shiftr : simpl never.
Arguments N.shiftl : simpl never.
Arguments N.div : simpl never.
Arguments N.modulo : simpl never.
Arguments N.pow : simpl never.
Arguments N.sqrt : simpl never.
Arguments N.log2 : simpl never.
Arguments N.max : simpl never.
Arguments N.min : simpl never.

Lemma maxn_lt_43 n : n < RSQ_MAXN -> n < 2 ^ 43.
Proof. rewrite RSQ_MAXN_val. change (2 ^ 43) with 8796093022208. lia. Qed.

(* the invariant of the list of supports *)
Definition pfs_ok (L : nat) (s : list N) (pfs : list pfsupport) : Prop :=
  forall l, (l < L)%nat -> exists p, nthN pfs (N.of_nat l) = Some p /\ pfs_spec p (qD L l s).

(* a position up to the length of a non empty level is below the panic bound *)
Lemma in_bound D i : len D <> 0 -> i <= len D + 2046 -> i <? pfs_bound D = true.
Proof.
  intros HD Hi. assert (HD' : D <> []) by (intros ->; now apply HD).
  pose proof (npush_slack D HD'). unfold pfs_bound. lia.
Qed.

Section PfsQ.
Hypothesis select_in_word_correct : forall w k, w < 2 ^ 64 -> k < 128 ->
  select_in_word w k = Val (match select_spec (bits_of 64 w) 1 k with Some p => p | None => 64 end).
Hypothesis popcount_correct : forall n x, x < 2 ^ N.of_nat n -> popcount x = countN 1 (bits_of n x).

Lemma qwt_pfs_levels_ok w L s : len s < RSQ_MAXN -> 2 * N.of_nat (L - 1) < w ->
  forall n l0 shift, (l0 + n = L)%nat -> ((0 < n)%nat -> shift = 2 * N.of_nat (L - 1 - l0)) ->
  exists ps, qwt_pfs_levels w (qlev L l0 s) shift n = Val ps /\
    forall j, (j < n)%nat -> exists p, nthN ps (N.of_nat j) = Some p /\ pfs_spec p (qD L (l0 + j) s).
Proof.
  intros Hn Hw. induction n as [|n IH]; intros l0 shift Hl Hs.
  - exists []. split; [reflexivity|]. intros j Hj. lia.
  - rewrite (Hs ltac:(lia)). clear Hs shift. cbn [qwt_pfs_levels].
    assert (Hsh : 2 * N.of_nat (L - 1 - l0) < w) by lia.
    rewrite (mapo_val _ (qdig L l0)) by (intros x _; now apply two_bits_qdig).
    cbn [bind]. fold (qD L l0 s).
    change (map (fun d => d mod 4) (qD L l0 s)) with (map sym4 (qD L l0 s)).
    rewrite (map_sym4_id _ (qD_lt4 L l0 s)). change PFS_SHIFT with 11.
    destruct (pfs_new_spec select_in_word_correct popcount_correct (qD L l0 s) (qD_lt4 L l0 s))
      as (p & Ep & Hp).
    { rewrite qD_len. now apply maxn_lt_43. }
    rewrite Ep. cbn [bind].
    rewrite (stable_partition_parts w L l0 _ Hsh). cbn [bind]. rewrite <- qlev_S.
    destruct (IH (S l0) (if 2 <=? 2 * N.of_nat (L - 1 - l0) then 2 * N.of_nat (L - 1 - l0) - 2
                         else 2 * N.of_nat (L - 1 - l0))) as (rest & Erest & Hrest); [lia| |].
    { intros Hn0. replace (2 <=? 2 * N.of_nat (L - 1 - l0)) with true by lia. lia. }
    rewrite Erest. cbn [bind]. exists (p :: rest). split; [reflexivity|].
    intros j Hj. destruct j as [|j].
    + exists p. rewrite Nat.add_0_r. split; [reflexivity|exact Hp].
    + destruct (Hrest j ltac:(lia)) as (p' & En & Hp'). exists p'.
      replace (N.of_nat (S j)) with (N.of_nat j + 1) by lia. rewrite nthN_succ.
      replace (l0 + S j)%nat with (S l0 + j)%nat by lia. split; assumption.
Qed.

(* qwt_pfs_new on a non empty sequence *)
Lemma qwt_pfs_new_ok w seq : QWTP.width_ok w -> Forall (fun x => x < 2 ^ w) seq -> len seq < RSQ_MAXN ->
  seq <> [] -> let L := N.to_nat (levels_of seq) in
  exists pfs, qwt_pfs_new w seq = Val pfs /\ pfs_ok L seq pfs.
Proof.
  intros Hwok HF Hn Hne L.
  assert (Hwpos : 0 < w) by (unfold QWTP.width_ok in Hwok; lia).
  assert (Enew : qwt_pfs_new w seq =
            let! s0 := osub (levels_of seq) 1 in
            qwt_pfs_levels w seq (2 * s0) (N.to_nat (levels_of seq))).
  { destruct seq; [congruence|reflexivity]. }
  rewrite Enew. clear Enew.
  assert (HLN : levels_of seq = N.of_nat L) by (unfold L; lia).
  pose proof (qlevels_pos seq) as Hpos. rewrite <- levels_of_qlevels in Hpos.
  assert (HL : (0 < L)%nat) by lia.
  assert (Hpow : 0 < 2 ^ w) by (apply N.neq_0_lt_0, N.pow_nonzero; lia).
  pose proof (maxN_lt seq (2 ^ w) Hpow HF) as Hmax.
  pose proof (qlevels_shift seq w Hwpos Hmax) as Hsh. rewrite <- levels_of_qlevels, HLN in Hsh.
  assert (Hw : 2 * N.of_nat (L - 1) < w) by lia.
  unfold osub. replace (1 <=? levels_of seq) with true by lia. cbn [bind].
  replace (2 * (levels_of seq - 1)) with (2 * N.of_nat (L - 1)) by lia.
  destruct (qwt_pfs_levels_ok w L seq Hn Hw L 0%nat (2 * N.of_nat (L - 1))) as (ps & E & H);
    [lia|intros _; f_equal; f_equal; lia|].
  fold L. change (qlev L 0 seq) with seq in E. rewrite E. exists ps. split; [reflexivity|].
  intros l Hl. exact (H l Hl).
Qed.

(* ---------------------------------------------------------------- the estimation walk *)
Section Walk.
Variables (w bsize : N) (L : nat) (s : list N) (qvs : list rsq) (pfs : list pfsupport).
Hypothesis HT : tree_ok bsize L s qvs.
Hypothesis HP : pfs_ok L s pfs.
Hypothesis HL : (0 < L)%nat.
Hypothesis Hw : 2 * N.of_nat (L - 1) < w.
Hypothesis Hne : len s <> 0.

Lemma qwt_pfs_walk_ok c : forall n l0 rs re, (l0 + n = L - 1)%nat -> rs <= re -> re <= len s ->
  exists rs' re', qwt_pfs_walk w qvs pfs c (2 * N.of_nat (L - 1 - l0)) rs re (N.of_nat l0) n = Val (rs', re') /\
    rs' <= re'.
Proof.
  induction n as [|n IH]; intros l0 rs re Hl Hrs Hre.
  - exists rs, re. split; [reflexivity|exact Hrs].
  - cbn [qwt_pfs_walk]. rewrite (two_bits_qdig w L l0 c) by lia. cbn [bind].
    destruct (HT l0 ltac:(lia)) as (r & Enth & Hr). unfold idx at 1. rewrite Enth. cbn [bind].
    destruct (rsq_spec_proj _ _ _ Hr) as (_ & _ & _ & _ & Pocc & _).
    pose proof (qdig_le3 L l0 c) as Hd.
    rewrite Pocc by exact Hd. cbn [bind].
    destruct (HP l0 ltac:(lia)) as (p & Ep & _ & _ & Hp). unfold idx at 1. rewrite Ep. cbn [bind].
    assert (HDl : len (qD L l0 s) = len s) by apply qD_len.
    rewrite !Hp by lia.
    rewrite (in_bound (qD L l0 s) rs) by lia. rewrite (in_bound (qD L l0 s) re) by lia. cbn [bind].
    destruct (HT (S l0) ltac:(lia)) as (r1 & Enth1 & _). unfold idx.
    replace (N.of_nat l0 + 1) with (N.of_nat (S l0)) by lia. rewrite Enth1. cbn [bind].
    unfold osub. replace (2 <=? 2 * N.of_nat (L - 1 - l0)) with true by lia. cbn [bind].
    replace (2 * N.of_nat (L - 1 - l0) - 2) with (2 * N.of_nat (L - 1 - S l0)) by lia.
    pose proof (count_split (qdig L l0 c) (qD L l0 s)) as Hcs. rewrite HDl in Hcs.
    pose proof (pfs_val_le_count (qD L l0 s) (qdig L l0 c) re) as H2.
    pose proof (pfs_val_mono (qD L l0 s) (qdig L l0 c) rs re Hrs) as H3.
    unfold loccs_smaller.
    apply IH; lia.
Qed.

Lemma qwt_pfs_estimate_ok c i t : q_n_levels t = N.of_nat L -> q_qvs t = qvs -> i <= len s ->
  exists v, qwt_pfs_estimate w t pfs c i = Val v.
Proof.
  intros Hnl Hq Hi. unfold qwt_pfs_estimate. rewrite Hnl, Hq. unfold osub at 1.
  replace (1 <=? N.of_nat L) with true by lia. cbn [bind].
  destruct (HT 0%nat HL) as (r0 & Enth0 & _). change (N.of_nat 0) with 0 in Enth0.
  unfold idx. rewrite Enth0. cbn [bind].
  replace (N.of_nat L - 1) with (N.of_nat (L - 1 - 0)) by lia. rewrite Nnat.Nat2N.id.
  change 0 with (N.of_nat 0) at 2.
  destruct (qwt_pfs_walk_ok c (L - 1 - 0) 0%nat 0 i ltac:(lia) ltac:(lia) Hi) as (rs' & re' & E & Hle).
  rewrite E. cbn [bind]. unfold osub. replace (rs' <=? re') with true by lia. eauto.
Qed.
End Walk.

End PfsQ.
