(* The REGENERATED binary code assignment (Gen/FnsCraft2.v: g_craft_wm_codes2, translated statement by statement
   from `craft_wm_codes` of src/binwt/mod.rs) against the hand model Model/Huff.v (craft2 = craft_wm_codes 1) and
   the correctness theorems of Proofs/CraftP.v.

   Contents
     omapf_copy, sort_by_snd_perm, sort_by_snd_sorted, sort_by_snd_id      helper facts (1)
     g_inner_loop      the generated `for r in j..m` on the array  P ++ A ++ Q ++ T
     g_expand_sim      ... = craft_expand 1 on the first 2*m - j entries (invariant crel)
     g_grow_sim        the generated `while f[j].1 > l`  = craft_grow 1   (fuel: hand fuel <= generated fuel)
     g_rev_loop        the generated bit reversal       = rev_frags 1 cj l 0 40  (l <= 32)
     g_assign_sim      the generated `for j in 0..alph_size` = craft_assign 1
     g_craft2_core_sim / g_craft2_sim      simulation, sorted input / any iteration order of the hash map (2)
     g_craft2_end_to_end                   with craft_total and craft_table_ok (3)
     examples (4): the KNOWN DIFFERENCE on infeasible length profiles, and a feasible profile.

   Invariant between the generated fixed-size scratch array [carr] and the hand model's growing list [c]:
     crel size carr c  :=  len carr = size /\ firstnN (len c) carr = c            (m = len c)

   Size hypotheses used:  len freq < 2^63  (the code computes 2 * m in usize, m <= max(len freq, 2)),
   sigma + 1 < 2^64 (the code computes sigma + 1 in usize), 40 <= fuel (the hand model runs its growth loop
   with fuel 40; the generated `while` needs no more).  No bound on the code lengths or on the entries of the
   scratch array is needed: whenever the hand model returns, l stays <= 32.

   KNOWN DIFFERENCE (not papered over, see the examples at the end): the theorems are simulations
   "hand model returns tab -> generated code returns tab".  The converse is FALSE on infeasible length profiles
   (Kraft sum > 1): when j reaches m the hand model faults (idx c' j on a list of length m = j) while the source
   reads the zero left in the untouched part of the scratch array and returns a table with a DUPLICATED code
   (lengths [1;1;1]), or faults with a different fault (usize underflow of 2*m - j, lengths [1;1;1;2;3]). *)
From Coq Require Import ZArith Lia ZifyBool ZifyN ZifyNat Sorted Permutation.
From QwtModel Require Import ListX Loops ListXP BitsLib Huff Codes WaveletMatrix HuffWM CraftArith CraftP FnsCraft2.
Ltac Zify.zify_post_hook ::= Z.div_mod_to_equations.

(* ================================================================ (1) helper facts *)
Lemma omapf_copy {A B} (l : list (A * B)) : omapf (fun '(k, v_) => Val (k, v_)) l = Val l.
Proof.
  induction l as [|[k v] l IH]; cbn [omapf bind]; [reflexivity|]. rewrite IH. reflexivity.
Qed.

Lemma insert_by_perm {A} (key : A -> N) x l : Permutation (insert_by key x l) (x :: l).
Proof.
  induction l as [|y l IH]; cbn [insert_by]; [reflexivity|].
  destruct (key x <=? key y); [reflexivity|].
  rewrite IH. apply perm_swap.
Qed.

Lemma sort_by_snd_perm {A} (l : list (A * N)) : Permutation (sort_by_snd l) l.
Proof.
  unfold sort_by_snd. induction l as [|x l IH]; cbn [fold_right]; [reflexivity|].
  rewrite insert_by_perm. now constructor.
Qed.

Lemma sort_by_snd_len {A} (l : list (A * N)) : len (sort_by_snd l) = len l.
Proof. unfold len. now rewrite (Permutation_length (sort_by_snd_perm l)). Qed.

Lemma insert_by_sorted {A} (key : A -> N) x l :
  StronglySorted (fun p q => key p <= key q) l -> StronglySorted (fun p q => key p <= key q) (insert_by key x l).
Proof.
  induction 1 as [|y l Hs IH Hy]; cbn [insert_by].
  - constructor; constructor.
  - destruct (N.leb_spec (key x) (key y)) as [Hle|Hgt].
    + constructor; [constructor; assumption|]. constructor; [exact Hle|].
      rewrite Forall_forall in *. intros z Hz. specialize (Hy z Hz). cbv beta in *. lia.
    + constructor; [exact IH|]. rewrite (Forall_forall _ (insert_by key x l)). intros z Hz.
      apply (Permutation_in _ (insert_by_perm key x l)) in Hz. destruct Hz as [<-|Hz]; [lia|].
      rewrite Forall_forall in Hy. exact (Hy z Hz).
Qed.

Lemma sort_by_snd_sorted {A} (l : list (A * N)) : StronglySorted (fun p q => snd p <= snd q) (sort_by_snd l).
Proof.
  unfold sort_by_snd. induction l as [|x l IH]; cbn [fold_right]; [constructor|].
  apply (insert_by_sorted snd). exact IH.
Qed.

Lemma sort_by_snd_id {A} (l : list (A * N)) :
  StronglySorted (fun p q => snd p <= snd q) l -> sort_by_snd l = l.
Proof.
  unfold sort_by_snd. induction 1 as [|x l Hs IH Hx]; cbn [fold_right]; [reflexivity|].
  rewrite IH. destruct l as [|y l]; cbn [insert_by]; [reflexivity|].
  inversion Hx as [|? ? Hxy _]; subst. destruct (N.leb_spec (snd x) (snd y)); [reflexivity|lia].
Qed.

(* ---------- list facts ---------- *)
Lemma nthN_mid {A} (P R : list A) a : nthN (P ++ a :: R) (len P) = Some a.
Proof. rewrite nthN_app2 by lia. rewrite N.sub_diag. apply nthN_0. Qed.
Lemma setN_mid {A} (P R : list A) a v : setN (P ++ a :: R) (len P) v = P ++ v :: R.
Proof. rewrite setN_app2 by lia. rewrite N.sub_diag. reflexivity. Qed.
Lemma idx_mid {A} (P R : list A) a i : i = len P -> idx (P ++ a :: R) i = Val a.
Proof. intros ->. unfold idx. now rewrite nthN_mid. Qed.
Lemma setN_mid' {A} (P R : list A) a v i : i = len P -> setN (P ++ a :: R) i v = P ++ v :: R.
Proof. intros ->. apply setN_mid. Qed.

Lemma setN_map {A B} (g : A -> B) (l : list A) : forall i v, setN (map g l) i (g v) = map g (setN l i v).
Proof.
  induction l as [|x l IH]; intros i v; cbn [map setN]; [reflexivity|].
  destruct (i =? 0); cbn [map]; [reflexivity|]. now rewrite IH.
Qed.

(* ================================================================ the pieces of the generated function *)
Definition R2 : Type := step (list N * N * N * list N * list N) (list N * list N).
Definition g_inner (m j l : N) : N -> list N -> outcome (step (list N) R2) :=
  fun r_ c =>
              let! t5 := idx c r_ in
              let! t6 := osub m j in
              let! t7 := omul 64 t6 1 in
              let! t8 := oadd 64 t7 r_ in
              let! t9 := idx c t8 in
              let c := setN c t8 t5 in
              let! t10 := oshl 32 1 l in
              let! t11 := idx c r_ in
              let c := setN c r_ (N.lor t11 t10) in
              Val (Next c).

Definition g_wcond (f : list (N * N)) (j : N) : list N * N * N -> outcome bool :=
  fun '(c, m, l) =>
          let! t4 := idx f j in
          Val (N.ltb l (snd t4)).

Definition g_wbody (j : N) : list N * N * N -> outcome (step (list N * N * N) R2) :=
  fun '(c, m, l) =>
          let! r := for_loop (g_inner m j l) j (N.to_nat (m - j)) c in
          match r with
          | Retd v => Val (Ret v)
          | Done c =>
              let! t12 := omul 64 2 m in
              let! m := osub t12 j in
              let! l := oadd 32 l 1 in
              Val (Next (c, m, l))
          end.

Definition g_revbody (c : list N) (j l : N) : N -> N -> outcome (step N R2) :=
  fun t reversed_code =>
              let! t13 := idx c j in
              let! t14 := oshr 32 t13 t in
              let! t15 := osub l t in
              let! t16 := osub t15 1 in
              let! t17 := oshl 32 (N.land t14 1) t16 in
              let reversed_code := N.lor reversed_code t17 in
              Val (Next reversed_code).

Definition g_outer (fuel : nat) (f : list (N * N)) :
  N -> list N * N * N * list N * list N -> outcome (step (list N * N * N * list N * list N) (list N * list N)) :=
  fun j '(c, m, l, assignments_content, assignments_len) =>
      let! r := while_loop (g_wcond f j) (g_wbody j) fuel (c, m, l) in
      match r with
      | Retd v => Val v
      | Done (c, m, l) =>
          let reversed_code := 0 in
          let! r := for_loop (g_revbody c j l) 0 (N.to_nat (l - 0)) reversed_code in
          match r with
          | Retd v => Val v
          | Done reversed_code =>
              let '(t18, t19) := (reversed_code, l) in
              let! t20 := idx f j in
              let t21 := fst t20 in
              let! _ := idx assignments_content t21 in
              let assignments_content := setN assignments_content t21 t18 in
              let assignments_len := setN assignments_len t21 t19 in
              Val (Next (c, m, l, assignments_content, assignments_len))
          end
      end.

Lemma g_craft_wm_codes2_unfold fuel freq sigma :
  g_craft_wm_codes2 fuel freq sigma =
  (let! f := omapf (fun '(k, v_) => Val (k, v_)) freq in
   let f := sort_by_snd f in
   let! t3 := oadd 64 sigma 1 in
   let! r := for_loop (g_outer fuel f) 0 (N.to_nat (len freq - 0))
               (repeat 0 (N.to_nat (N.max (len freq) 2)), 1, 0, repeat 0 (N.to_nat t3), repeat 0 (N.to_nat t3)) in
   match r with
   | Retd v => Val v
   | Done (c, m, l, assignments_content, assignments_len) => Val (assignments_content, assignments_len)
   end).
Proof. reflexivity. Qed.

(* ================================================================ (2) the inner `for r in j..m` *)
Ltac napp := repeat first [rewrite <- app_assoc | rewrite <- app_comm_cons].

Lemma skipnN_0 {A} (l : list A) : skipnN 0 l = l.
Proof. destruct l; reflexivity. Qed.

(* one iteration, on the array  P ++ (a :: A') ++ Q ++ x :: T'  with r = len P and m - j = len (a :: A') + len Q:
   the old value a goes to the position of x, the old position gets the new bit *)
Lemma g_inner_step m j l P a A' Q x T' : l < 32 -> j <= m -> m - j = len A' + 1 + len Q ->
  len P + (m - j) < 2 ^ 64 ->
  g_inner m j l (len P) (P ++ (a :: A') ++ Q ++ x :: T') =
  Val (Next ((P ++ [N.lor a (N.shiftl 1 l)]) ++ A' ++ (Q ++ [a]) ++ T')).
Proof.
  intros Hl Hj Hd Hb. unfold g_inner. napp.
  rewrite (idx_mid P _ a) by reflexivity. cbn [bind].
  unfold osub. destruct (N.leb_spec j m) as [_|?]; [|lia]. cbn [bind].
  unfold omul. destruct (N.ltb_spec ((m - j) * 1) (2 ^ 64)) as [_|?]; [|lia]. cbn [bind].
  unfold oadd. destruct (N.ltb_spec ((m - j) * 1 + len P) (2 ^ 64)) as [_|?]; [|lia]. cbn [bind].
  assert (E : (m - j) * 1 + len P = len (P ++ a :: A' ++ Q)) by (lens; lia).
  rewrite E.
  replace (P ++ a :: A' ++ Q ++ x :: T') with ((P ++ a :: A' ++ Q) ++ x :: T') by (napp; reflexivity).
  rewrite (idx_mid _ _ x) by reflexivity. cbn [bind].
  rewrite (setN_mid' _ _ x) by reflexivity.
  unfold oshl. destruct (N.ltb_spec l 32) as [_|?]; [|lia]. cbn [bind].
  rewrite (N.mod_small (N.shiftl 1 l)).
  2:{ rewrite N.shiftl_1_l. apply N.pow_lt_mono_r; lia. }
  napp. rewrite (idx_mid P _ a) by reflexivity. cbn [bind].
  rewrite (setN_mid' P _ a) by reflexivity. reflexivity.
Qed.

Lemma g_inner_loop m j l : l < 32 -> j <= m ->
  forall A P Q T, m - j = len A + len Q -> len A <= len T -> len P + len A + (m - j) <= 2 ^ 64 ->
  for_loop (g_inner m j l) (len P) (length A) (P ++ A ++ Q ++ T)
  = Val (Done (P ++ map (fun x => N.lor x (N.shiftl 1 l)) A ++ Q ++ A ++ skipnN (len A) T)).
Proof.
  intros Hl Hj. induction A as [|a A IH]; intros P Q T Hd HT Hb.
  - cbn [for_loop length map app]. rewrite len_nil, skipnN_0. reflexivity.
  - destruct T as [|x T]; [rewrite len_nil, len_cons in HT; lia|]. rewrite !len_cons in *.
    cbn [for_loop length].
    rewrite (g_inner_step m j l P a A Q x T Hl Hj) by lia. cbn [bind].
    replace (len P + 1) with (len (P ++ [N.lor a (N.shiftl 1 l)])) by (lens; lia).
    rewrite IH.
    + f_equal. f_equal. cbn [map skipnN]. destruct (N.eqb_spec (len A + 1) 0) as [?|_]; [lia|].
      replace (N.pred (len A + 1)) with (len A) by lia. napp. reflexivity.
    + lens. lia.
    + lia.
    + lens. lia.
Qed.

(* the invariant between the fixed-size scratch array and the hand model's list of its first m entries *)
Definition crel (size : N) (carr c : list N) : Prop := len carr = size /\ firstnN (len c) carr = c.

Lemma g_expand_sim size carr c j l c' : crel size carr c -> size < 2 ^ 63 -> j <= len c ->
  craft_expand 1 c j l size = Val c' ->
  exists carr', for_loop (g_inner (len c) j l) j (N.to_nat (len c - j)) carr = Val (Done carr') /\
                crel size carr' c' /\ len c' = 2 * len c - j /\ l < 32.
Proof.
  intros [HS HC] Hsz Hj H. unfold craft_expand in H. cbv zeta in H.
  destruct (N.leb_spec 32 l) as [?|Hl]; cbn [bind] in H; [discriminate|].
  change (1 =? 2) with false in H. cbv iota in H.
  match type of H with (if ?b then _ else _) = _ => destruct b eqn:Eb end; [|discriminate].
  apply N.leb_le in Eb. injection H as H.
  set (P := firstnN j c) in *. set (A := skipnN j c) in *. set (T := skipnN (len c) carr).
  assert (EP : len P = j) by (apply len_firstnN_le'; exact Hj).
  assert (EA : len A = len c - j) by (apply len_skipnN).
  assert (Ec : c = P ++ A) by (symmetry; apply firstnN_skipnN).
  assert (Ecarr : carr = P ++ A ++ [] ++ T).
  { cbn [app]. rewrite app_assoc, <- Ec. rewrite <- HC at 1. symmetry. apply firstnN_skipnN. }
  assert (ET : len c + len T = size).
  { pose proof (f_equal (@len N) Ecarr) as E1. pose proof (f_equal (@len N) Ec) as E2.
    lens in E1. lens in E2. lia. }
  assert (EL : len c' = 2 * len c - j).
  { rewrite <- H. lens. rewrite len_map, EP, EA. lia. }
  lens in Eb. rewrite len_map, EP, EA in Eb.
  pose proof (g_inner_loop (len c) j l Hl Hj A P [] T) as HL.
  rewrite EP, len_nil in HL. specialize (HL ltac:(lia) ltac:(lia) ltac:(lia)).
  replace (length A) with (N.to_nat (len c - j)) in HL by (rewrite <- EA; unfold len; apply Nnat.Nat2N.id).
  rewrite <- Ecarr in HL. cbn [app] in HL.
  eexists. split; [exact HL|]. split; [|split; [exact EL|exact Hl]].
  replace (P ++ map (fun x => N.lor x (N.shiftl 1 l)) A ++ A ++ skipnN (len A) T)
    with (c' ++ skipnN (len A) T) by (rewrite <- H; napp; reflexivity).
  split.
  - lens. rewrite len_skipnN. lia.
  - apply firstnN_app_exact.
Qed.

(* ================================================================ the `while f[j].1 > l` *)
Lemma g_grow_sim f size j sym target : size < 2 ^ 63 -> idx f j = Val (sym, target) ->
  forall k fuel carr c l c' l', (k <= fuel)%nat -> crel size carr c -> j <= len c -> l <= 32 ->
  craft_grow 1 c j l target size k = Val (c', l') ->
  exists carr', while_loop (g_wcond f j) (g_wbody j) fuel (carr, len c, l) = Val (Done (carr', len c', l')) /\
                crel size carr' c' /\ j <= len c' /\ l' <= 32.
Proof.
  intros Hsz Hf. induction k as [|k IH]; intros fuel carr c l c' l' Hk HR Hj Hl H; cbn [craft_grow] in H; [discriminate|].
  destruct fuel as [|fuel]; [lia|]. cbn [while_loop]. unfold g_wcond at 1. cbv beta iota.
  rewrite Hf. cbn [bind snd].
  destruct (N.ltb_spec l target) as [Hlt|Hge].
  - destruct (craft_expand 1 c j l size) as [c1|] eqn:E; cbn [bind] in H; [|discriminate].
    destruct (g_expand_sim size carr c j l c1 HR Hsz Hj E) as (carr1 & HL & HR1 & EL & Hl32).
    unfold g_wbody at 1. cbv beta iota. rewrite HL. cbn [bind].
    pose proof HR as [HS HC]. assert (len c <= size).
    { rewrite <- HS, <- HC at 1. rewrite firstnN_len. lia. }
    unfold omul. destruct (N.ltb_spec (2 * len c) (2 ^ 64)) as [_|?]; [|lia]. cbn [bind].
    unfold osub. destruct (N.leb_spec j (2 * len c)) as [_|?]; [|lia]. cbn [bind].
    unfold oadd. destruct (N.ltb_spec (l + 1) (2 ^ 32)) as [_|?]; [|lia]. cbn [bind].
    rewrite <- EL. apply (IH fuel carr1 c1 (l + 1) c' l'); [lia|exact HR1|lia|lia|exact H].
  - injection H as <- <-. exists carr. split; [reflexivity|]. split; [exact HR|]. split; [exact Hj|exact Hl].
Qed.

(* ================================================================ the bit reversal `for t in 0..l` *)
Lemma bit_shl_small x s : s < 32 -> N.shiftl (N.land x 1) s mod 2 ^ 32 = N.shiftl (N.land x 1) s.
Proof.
  intros Hs. apply N.mod_small. rewrite N.shiftl_mul_pow2.
  assert (2 ^ s < 2 ^ 32) by (apply N.pow_lt_mono_r; lia).
  change 1 with (N.ones 1). rewrite N.land_ones. change (2 ^ 1) with 2.
  assert (x mod 2 < 2) by (apply N.mod_lt; lia). nia.
Qed.

Lemma g_rev_loop c j l cj : idx c j = Val cj -> l <= 32 ->
  forall n t acc fuel, t + N.of_nat n = l -> (n < fuel)%nat ->
  for_loop (g_revbody c j l) t n acc = Val (Done (N.lor acc (rev_frags 1 cj l t fuel))).
Proof.
  intros Hc Hl. induction n as [|n IH]; intros t acc fuel Ht Hn; (destruct fuel as [|fuel]; [lia|]);
    cbn [for_loop rev_frags].
  - destruct (N.ltb_spec t l) as [?|_]; [lia|]. now rewrite N.lor_0_r.
  - destruct (N.ltb_spec t l) as [_|?]; [|lia]. unfold g_revbody at 1. rewrite Hc. cbn [bind].
    unfold oshr. destruct (N.ltb_spec t 32) as [_|?]; [|lia]. cbn [bind].
    unfold osub. destruct (N.leb_spec t l) as [_|?]; [|lia]. cbn [bind].
    destruct (N.leb_spec 1 (l - t)) as [_|?]; [|lia]. cbn [bind].
    unfold oshl. destruct (N.ltb_spec (l - t - 1) 32) as [_|?]; [|lia]. cbn [bind].
    rewrite bit_shl_small by lia. rewrite (IH (t + 1) _ fuel) by lia.
    change (2 ^ 1 - 1) with 1. now rewrite N.lor_assoc.
Qed.

(* as it stands in the generated function: t in 0..l, reversed_code = 0, against the hand model's fuel 40 *)
Corollary g_rev_sim c j l cj : idx c j = Val cj -> l <= 32 ->
  for_loop (g_revbody c j l) 0 (N.to_nat (l - 0)) 0 = Val (Done (rev_frags 1 cj l 0 40)).
Proof.
  intros Hc Hl. rewrite N.sub_0_r. rewrite (g_rev_loop c j l cj Hc Hl (N.to_nat l) 0 0 40%nat) by lia.
  now rewrite N.lor_0_l.
Qed.

(* ================================================================ the outer `for j in 0..alph_size` *)
Lemma g_assign_sim fuel f size : (40 <= fuel)%nat -> size < 2 ^ 63 ->
  forall rest pre carr c l table tab, f = pre ++ rest -> crel size carr c -> len pre <= len c -> l <= 32 ->
  craft_assign 1 rest c (len pre) l size table = Val tab ->
  exists fin, for_loop (g_outer fuel f) (len pre) (length rest)
                (carr, len c, l, map pc_content table, map pc_len table)
              = Val (Done (fin, map pc_content tab, map pc_len tab)).
Proof.
  intros Hfuel Hsz. induction rest as [|[sym target] rest IH]; intros pre carr c l table tab Hf HR Hj Hl H;
    cbn [craft_assign] in H.
  - injection H as <-. exists (carr, len c, l). reflexivity.
  - destruct (craft_grow 1 c (len pre) l target size 40) as [[c1 l1]|] eqn:EG; cbn [bind] in H; [|discriminate].
    destruct (idx c1 (len pre)) as [cj|] eqn:Ecj; cbn [bind] in H; [|discriminate].
    destruct (N.ltb_spec sym (len table)) as [Hsym|?]; cbn [bind] in H; [|discriminate].
    assert (Hfj : idx f (len pre) = Val (sym, target)) by (rewrite Hf; now apply idx_mid).
    destruct (g_grow_sim f size (len pre) sym target Hsz Hfj 40%nat fuel carr c l c1 l1 Hfuel HR Hj Hl EG)
      as (carr1 & HW & HR1 & Hj1 & Hl1).
    cbn [for_loop length]. unfold g_outer at 1. cbv beta iota. rewrite HW. cbn [bind]. cbv beta iota zeta.
    assert (Hjlt : len pre < len c1).
    { unfold idx in Ecj. destruct (nthN c1 (len pre)) eqn:En; [|discriminate]. exact (nthN_some_lt _ _ _ En). }
    assert (Ecj' : idx carr1 (len pre) = Val cj).
    { destruct HR1 as [_ HC]. rewrite <- HC in Ecj. unfold idx in *. rewrite nthN_firstnN in Ecj.
      destruct (N.ltb_spec (len pre) (len c1)); [exact Ecj|lia]. }
    rewrite N.sub_0_r.
    rewrite (g_rev_loop carr1 (len pre) l1 cj Ecj' Hl1 (N.to_nat l1) 0 0 40%nat) by lia.
    cbn [bind]. rewrite N.lor_0_l. rewrite Hfj. cbn [bind fst].
    destruct (nthN_lt_some (map pc_content table) sym) as (old & Eold); [rewrite len_map; exact Hsym|].
    unfold idx at 1. rewrite Eold. cbn [bind].
    set (code := mk_pc (rev_frags 1 cj l1 0 40) l1) in *.
    change (rev_frags 1 cj l1 0 40) with (pc_content code).
    change (setN (map pc_len table) sym l1) with (setN (map pc_len table) sym (pc_len code)).
    rewrite !setN_map.
    replace (len pre + 1) with (len (pre ++ [(sym, target)])) in * by (lens; lia).
    apply (IH (pre ++ [(sym, target)]) carr1 c1 l1 (setN table sym code) tab).
    + rewrite Hf. napp. reflexivity.
    + exact HR1.
    + lens. lia.
    + exact Hl1.
    + exact H.
Qed.

(* ================================================================ the whole function *)
Lemma firstnN_0 {A} (l : list A) : firstnN 0 l = [].
Proof. destruct l; reflexivity. Qed.

Lemma map_repeat' {A B} (g : A -> B) x n : map g (repeat x n) = repeat (g x) n.
Proof. induction n as [|n IH]; cbn [repeat map]; [reflexivity|]. now rewrite IH. Qed.

Lemma crel_init size : 2 <= size -> crel size (repeat 0 (N.to_nat size)) [0].
Proof.
  intros H. split.
  - rewrite len_repeat. lia.
  - destruct (N.to_nat size) as [|n] eqn:E; [lia|]. cbn [repeat]. change (len [0]) with 1.
    cbn [firstnN]. change (1 =? 0) with false. cbv iota. change (N.pred 1) with 0. now rewrite firstnN_0.
Qed.

(* any iteration order of the hash map: the code sorts (stably) by length first *)
Theorem g_craft2_sim : forall fuel freq sigma tab,
  len freq < 2 ^ 63 -> sigma + 1 < 2 ^ 64 -> (40 <= fuel)%nat ->
  craft2 (sort_by_snd freq) sigma = Val tab ->
  g_craft_wm_codes2 fuel freq sigma = Val (map pc_content tab, map pc_len tab).
Proof.
  intros fuel freq sigma tab Hlen Hsig Hfuel H. rewrite g_craft_wm_codes2_unfold, omapf_copy. cbn [bind]. cbv zeta.
  unfold oadd. destruct (N.ltb_spec (sigma + 1) (2 ^ 64)) as [_|?]; [|lia]. cbn [bind].
  unfold craft2, craft_wm_codes in H. rewrite sort_by_snd_len in H.
  set (f := sort_by_snd freq) in *. set (size := N.max (len freq) 2) in *.
  destruct (g_assign_sim fuel f size Hfuel ltac:(lia) f [] (repeat 0 (N.to_nat size)) [0] 0
              (repeat pc_zero (N.to_nat (sigma + 1))) tab eq_refl) as (fin & HL).
  - apply crel_init. lia.
  - rewrite len_nil. change (len [0]) with 1. lia.
  - lia.
  - exact H.
  - rewrite !map_repeat' in HL. change (len []) with 0 in HL. change (len [0]) with 1 in HL.
    change (pc_content pc_zero) with 0 in HL. change (pc_len pc_zero) with 0 in HL.
    replace (N.to_nat (len freq - 0)) with (length f).
    2:{ rewrite N.sub_0_r, <- (sort_by_snd_len freq). unfold len. now rewrite Nnat.Nat2N.id. }
    rewrite HL. cbn [bind]. destruct fin as [[c m] l]. reflexivity.
Qed.

(* the priority statement: input already sorted by length *)
Theorem g_craft2_core_sim : forall fuel freq sigma tab,
  StronglySorted (fun p q => snd p <= snd q) freq ->
  len freq < 2 ^ 63 -> sigma + 1 < 2 ^ 64 -> (40 <= fuel)%nat ->
  craft2 freq sigma = Val tab ->
  g_craft_wm_codes2 fuel freq sigma = Val (map pc_content tab, map pc_len tab).
Proof.
  intros fuel freq sigma tab HS Hlen Hsig Hfuel H. apply g_craft2_sim; try assumption.
  now rewrite (sort_by_snd_id freq HS).
Qed.

(* ================================================================ (3) end to end with CraftP.v *)
(* an admissible hash map (distinct symbols <= sigma, positive lengths) gives an admissible request after the sort *)
Lemma craft_input_ok_sort freq sigma :
  NoDup (map fst freq) -> Forall (fun p => fst p <= sigma /\ 0 < snd p) freq -> sigma < 2 ^ 64 ->
  craft_input_ok 1 (sort_by_snd freq) sigma.
Proof.
  intros HN HF Hs. pose proof (sort_by_snd_perm freq) as HP. split; [left; reflexivity|]. split; [|split; [|split]].
  - apply (Permutation_NoDup (l := map fst freq)); [|exact HN]. apply Permutation_map. now symmetry.
  - rewrite Forall_forall in *. intros p Hp. apply (Permutation_in _ HP) in Hp. specialize (HF p Hp).
    rewrite N.mod_1_r. tauto.
  - apply sort_by_snd_sorted.
  - exact Hs.
Qed.

Theorem g_craft2_end_to_end : forall fuel freq sigma,
  let f := sort_by_snd freq in
  craft_input_ok 1 f sigma -> Forall (fun p => snd p <= 32) f -> craft_fits 1 f (N.max (len f) 2) = true ->
  len freq < 2 ^ 63 -> sigma + 1 < 2 ^ 64 -> (40 <= fuel)%nat ->
  exists tab, g_craft_wm_codes2 fuel freq sigma = Val (map pc_content tab, map pc_len tab) /\
    len tab = sigma + 1 /\
    (forall sym l, In (sym, l) f -> exists c, nthN tab sym = Some c /\ pc_len c = l /\ code_wf 1 c = true) /\
    (forall sym, ~ In sym (map fst f) -> sym <= sigma -> nthN tab sym = Some pc_zero) /\
    code_wm_ok 1 tab (map fst f) = true.
Proof.
  intros fuel freq sigma f Hok H32 Hfit Hlen Hsig Hfuel.
  destruct (craft_total 1 f sigma (N.max (len f) 2) Hok H32 Hfit) as (tab & Ht).
  exists tab. split.
  - apply g_craft2_sim; try assumption.
  - exact (craft_table_ok 1 f sigma _ tab Hok Ht).
Qed.

(* the same with every hypothesis and conclusion about the entries stated on the hash map itself *)
Theorem g_craft2_end_to_end_map : forall fuel freq sigma,
  NoDup (map fst freq) -> Forall (fun p => fst p <= sigma /\ 0 < snd p /\ snd p <= 32) freq ->
  craft_fits 1 (sort_by_snd freq) (N.max (len freq) 2) = true ->
  len freq < 2 ^ 63 -> sigma + 1 < 2 ^ 64 -> (40 <= fuel)%nat ->
  exists tab, g_craft_wm_codes2 fuel freq sigma = Val (map pc_content tab, map pc_len tab) /\
    len tab = sigma + 1 /\
    (forall sym l, In (sym, l) freq -> exists c, nthN tab sym = Some c /\ pc_len c = l /\ code_wf 1 c = true) /\
    (forall sym, ~ In sym (map fst freq) -> sym <= sigma -> nthN tab sym = Some pc_zero) /\
    code_wm_ok 1 tab (map fst (sort_by_snd freq)) = true.
Proof.
  intros fuel freq sigma HN HF Hfit Hlen Hsig Hfuel. pose proof (sort_by_snd_perm freq) as HP.
  destruct (g_craft2_end_to_end fuel freq sigma) as (tab & HG & R1 & R2 & R3 & R4); try assumption.
  - apply craft_input_ok_sort; [exact HN| |lia]. rewrite Forall_forall in *. intros p Hp. specialize (HF p Hp). tauto.
  - rewrite Forall_forall in *. intros p Hp. apply (Permutation_in _ HP) in Hp. specialize (HF p Hp). tauto.
  - now rewrite sort_by_snd_len.
  - exists tab. split; [exact HG|]. split; [exact R1|]. split; [|split; [|exact R4]].
    + intros sym l Hin. apply R2. apply (Permutation_in _ (Permutation_sym HP)). exact Hin.
    + intros sym Hn. apply R3. intros Hin. apply Hn.
      apply (Permutation_in _ (Permutation_map fst HP)). exact Hin.
Qed.

(* ================================================================ (4) examples *)
(* feasible profile 1,3,3,3,4,4 (sorted, and in another iteration order of the hash map): generated = hand *)
Example g_craft2_feasible :
  g_craft_wm_codes2 40 [(0,1);(1,3);(2,3);(3,3);(4,4);(5,4)] 5 = Val ([1; 3; 1; 2; 1; 0], [1; 3; 3; 3; 4; 4]) /\
  craft2 [(0,1);(1,3);(2,3);(3,3);(4,4);(5,4)] 5
    = Val [mk_pc 1 1; mk_pc 3 3; mk_pc 1 3; mk_pc 2 3; mk_pc 1 4; mk_pc 0 4].
Proof. split; vm_compute; reflexivity. Qed.
Example g_craft2_feasible_unsorted :
  g_craft_wm_codes2 40 [(3,4);(0,1);(5,4);(1,3);(2,3);(4,3)] 5 = Val ([1; 3; 1; 1; 2; 0], [1; 3; 3; 4; 3; 4]) /\
  craft2 (sort_by_snd [(3,4);(0,1);(5,4);(1,3);(2,3);(4,3)]) 5
    = Val [mk_pc 1 1; mk_pc 3 3; mk_pc 1 3; mk_pc 1 4; mk_pc 2 3; mk_pc 0 4].
Proof. split; vm_compute; reflexivity. Qed.

(* KNOWN DIFFERENCE: infeasible length profiles (Kraft sum > 1).  The simulation theorems above are one-directional
   (hand model returns -> generated code returns the same); the converse fails:
     lengths 1,1,1: the hand model faults (idx c' 2 on a list of length m = 2); the source reads the zero of the
       untouched scratch entry c[2] and returns a table in which symbols 1 and 2 get the SAME code (0, 1 bit);
     lengths 1,1,2: the same, symbol 2 gets (0, 2 bits), which has the code of symbol 1 as a prefix;
     lengths 1,1,1,2,3: both fault, with different faults: at j = 4 the source has m = 1 and computes 2*m - j
       (usize underflow), the hand model already faulted at j = 2. *)
Example g_craft2_infeasible_111 :
  g_craft_wm_codes2 40 [(0,1);(1,1);(2,1)] 2 = Val ([1; 0; 0], [1; 1; 1]) /\
  craft2 [(0,1);(1,1);(2,1)] 2 = Fault Panic.
Proof. split; vm_compute; reflexivity. Qed.
Example g_craft2_infeasible_112 :
  g_craft_wm_codes2 40 [(0,1);(1,1);(2,2)] 2 = Val ([1; 0; 0], [1; 1; 2]) /\
  craft2 [(0,1);(1,1);(2,2)] 2 = Fault Panic.
Proof. split; vm_compute; reflexivity. Qed.
Example g_craft2_infeasible_11123 :
  g_craft_wm_codes2 40 [(0,1);(1,1);(2,1);(3,2);(4,3)] 4 = Fault Overflow /\
  craft2 [(0,1);(1,1);(2,1);(3,2);(4,3)] 4 = Fault Panic.
Proof. split; vm_compute; reflexivity. Qed.
(* on such inputs the hypothesis craft_fits of the end-to-end theorems is false *)
Example g_craft2_infeasible_unfit : craft_fits 1 [(0,1);(1,1);(2,1)] 3 = false.
Proof. vm_compute. reflexivity. Qed.

Print Assumptions g_craft2_core_sim.
Print Assumptions g_craft2_sim.
Print Assumptions g_craft2_end_to_end.
Print Assumptions g_craft2_end_to_end_map.
Print Assumptions g_expand_sim.
Print Assumptions g_grow_sim.
Print Assumptions g_rev_sim.
Print Assumptions g_assign_sim.
Print Assumptions sort_by_snd_perm.
Print Assumptions sort_by_snd_sorted.
Print Assumptions sort_by_snd_id.
