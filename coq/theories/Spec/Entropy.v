(* Entropy bounds for minimum-redundancy (Huffman-shaped) code length
   assignments, for ALL frequency vectors.  Self-contained: plain stdlib. *)
From Coq Require Import Reals Lra Lia List Arith.
Import ListNotations.

(* ------------------------------------------------------------------ *)
(* Definitions                                                         *)
(* ------------------------------------------------------------------ *)

Definition total (fs : list nat) : nat := fold_right plus 0%nat fs.

(* Σ f_i * l_i *)
Definition cost (fs ls : list nat) : nat :=
  fold_right plus 0%nat (map (fun p => (fst p * snd p)%nat) (combine fs ls)).

Definition log2R (x : R) : R := (ln x / ln 2)%R.

(* zero-order empirical entropy, bits per symbol *)
Definition H0 (fs : list nat) : R :=
  let n := INR (total fs) in
  fold_right Rplus 0%R (map (fun f => (INR f / n * log2R (n / INR f))%R) fs).

Definition kraft (d : nat) (ls : list nat) : R :=
  fold_right Rplus 0%R (map (fun l => (/ (INR d ^ l))%R) ls).

(* Shannon length for degree d: least l >= 1 with d^l * f >= n *)
Fixpoint shl_aux (d n f l fuel : nat) : nat :=
  match fuel with
  | O => l
  | S k => if (n <=? d ^ l * f)%nat then l else shl_aux d n f (S l) k
  end.

Definition shl (d n f : nat) : nat := shl_aux d n f 1 n.

Definition optimal (d : nat) (fs ls : list nat) : Prop :=
  length ls = length fs /\
  forall ls', length ls' = length fs ->
              Forall (fun l => 1 <= l)%nat ls' ->
              (kraft d ls' <= 1)%R ->
              (cost fs ls <= cost fs ls')%nat.

(* ------------------------------------------------------------------ *)
(* Shannon length: specification                                       *)
(* ------------------------------------------------------------------ *)

Lemma shl_aux_spec d n f : (2 <= d)%nat -> (1 <= f)%nat ->
  forall fuel l, (1 <= l)%nat -> (l = 1 \/ d ^ pred l * f < n)%nat ->
    (n <= l + fuel)%nat ->
    (l <= shl_aux d n f l fuel)%nat /\
    (n <= d ^ shl_aux d n f l fuel * f)%nat /\
    (shl_aux d n f l fuel = 1 \/ d ^ pred (shl_aux d n f l fuel) * f < n)%nat.
Proof.
  intros Hd Hf. induction fuel as [|k IH]; intros l Hl HP Hn; simpl.
  - split; [lia|]. split; [|exact HP].
    assert (l < d ^ l)%nat by (apply Nat.pow_gt_lin_r; lia).
    assert (d ^ l * 1 <= d ^ l * f)%nat by (apply Nat.mul_le_mono_l; lia).
    lia.
  - destruct (Nat.leb_spec n (d ^ l * f)) as [Hle|Hlt].
    + split; [lia|]. split; [exact Hle|exact HP].
    + destruct (IH (S l)) as (A & B & C).
      * lia.
      * right. simpl pred. exact Hlt.
      * lia.
      * split; [lia|]. split; [exact B|exact C].
Qed.

(* 1 <= shl; reaches n; minimal (either 1, or the previous length fails) *)
Lemma shl_spec d n f : (2 <= d)%nat -> (1 <= f)%nat ->
  (1 <= shl d n f)%nat /\
  (n <= d ^ shl d n f * f)%nat /\
  (shl d n f = 1 \/ d ^ pred (shl d n f) * f < n)%nat.
Proof.
  intros Hd Hf. unfold shl.
  apply (shl_aux_spec d n f Hd Hf n 1%nat); [lia | left; reflexivity | lia].
Qed.

Lemma shl_ge_1 d n f : (2 <= d)%nat -> (1 <= f)%nat -> (1 <= shl d n f)%nat.
Proof. intros Hd Hf. apply (shl_spec d n f Hd Hf). Qed.

(* leastness in the usual form *)
Lemma shl_least d n f l : (2 <= d)%nat -> (1 <= f)%nat ->
  (1 <= l)%nat -> (n <= d ^ l * f)%nat -> (shl d n f <= l)%nat.
Proof.
  intros Hd Hf Hl Hn.
  destruct (shl_spec d n f Hd Hf) as (A & B & [C|C]); [lia|].
  destruct (le_lt_dec (shl d n f) l) as [|Hlt]; [assumption|exfalso].
  assert (Hpow : (d ^ l <= d ^ pred (shl d n f))%nat)
    by (apply Nat.pow_le_mono_r; lia).
  assert ((d ^ l * f <= d ^ pred (shl d n f) * f)%nat)
    by (apply Nat.mul_le_mono_r; exact Hpow).
  lia.
Qed.

(* ------------------------------------------------------------------ *)
(* Real-number helpers                                                 *)
(* ------------------------------------------------------------------ *)

Lemma ln_pow_nat x k : (0 < x)%R -> ln (x ^ k) = (INR k * ln x)%R.
Proof.
  intros Hx. induction k as [|k IH].
  - simpl. rewrite ln_1. lra.
  - rewrite S_INR. rewrite <- tech_pow_Rmult.
    rewrite ln_mult; [|exact Hx|apply pow_lt; exact Hx].
    rewrite IH. lra.
Qed.

Lemma ln_nonneg x : (1 <= x)%R -> (0 <= ln x)%R.
Proof.
  intros [H|H].
  - left. rewrite <- ln_1. apply ln_increasing; lra.
  - subst x. rewrite ln_1. lra.
Qed.

Lemma ln2_pos : (0 < ln 2)%R.
Proof. generalize ln_lt_2. lra. Qed.

Lemma ln4 : ln 4 = (2 * ln 2)%R.
Proof.
  replace 4%R with (2 * 2)%R by lra.
  rewrite ln_mult by lra. lra.
Qed.

Lemma log2R_mul x c : ((log2R x + c) * ln 2 = ln x + c * ln 2)%R.
Proof.
  unfold log2R. field. apply Rgt_not_eq. exact ln2_pos.
Qed.

Lemma INR_pos n : (1 <= n)%nat -> (0 < INR n)%R.
Proof. intros H. apply lt_0_INR. lia. Qed.

Lemma INR_d_ge2 d : (2 <= d)%nat -> (2 <= INR d)%R.
Proof. intros H. apply le_INR in H. simpl in H. lra. Qed.

(* the core per-symbol bound: l * ln d <= ln (n/f) + ln d *)
Lemma shl_len_bound d n f : (2 <= d)%nat -> (1 <= f)%nat -> (f <= n)%nat ->
  (INR (shl d n f) * ln (INR d) <= ln (INR n / INR f) + ln (INR d))%R.
Proof.
  intros Hd Hf Hfn.
  assert (HD : (2 <= INR d)%R) by (apply INR_d_ge2; exact Hd).
  assert (HF : (0 < INR f)%R) by (apply INR_pos; exact Hf).
  assert (HN : (0 < INR n)%R) by (apply INR_pos; lia).
  destruct (shl_spec d n f Hd Hf) as (A & B & [C|C]).
  - rewrite C. simpl INR.
    assert (0 <= ln (INR n / INR f))%R.
    { apply ln_nonneg. apply le_INR in Hfn.
      apply Rmult_le_reg_r with (INR f); [exact HF|].
      unfold Rdiv. rewrite Rmult_assoc, Rinv_l by lra. lra. }
    lra.
  - destruct (shl d n f) as [|r]; [lia|]. simpl pred in C.
    apply lt_INR in C. rewrite mult_INR, pow_INR in C.
    assert (Hlt : (INR d ^ r < INR n / INR f)%R).
    { apply Rmult_lt_reg_r with (INR f); [exact HF|].
      unfold Rdiv. rewrite Rmult_assoc, Rinv_l by lra. lra. }
    apply ln_increasing in Hlt; [|apply pow_lt; lra].
    rewrite ln_pow_nat in Hlt by lra.
    rewrite S_INR. lra.
Qed.

Lemma shl_bits_quad n f : (1 <= f)%nat -> (f <= n)%nat ->
  (2 * INR (shl 4 n f) <= log2R (INR n / INR f) + 2)%R.
Proof.
  intros Hf Hfn.
  assert (H := shl_len_bound 4 n f ltac:(lia) Hf Hfn).
  replace (INR 4) with 4%R in H by (simpl; lra).
  rewrite ln4 in H.
  assert (L := ln2_pos).
  apply Rmult_le_reg_r with (ln 2); [exact L|].
  rewrite log2R_mul. lra.
Qed.

Lemma shl_bits_bin n f : (1 <= f)%nat -> (f <= n)%nat ->
  (INR (shl 2 n f) <= log2R (INR n / INR f) + 1)%R.
Proof.
  intros Hf Hfn.
  assert (H := shl_len_bound 2 n f ltac:(lia) Hf Hfn).
  replace (INR 2) with 2%R in H by (simpl; lra).
  assert (L := ln2_pos).
  apply Rmult_le_reg_r with (ln 2); [exact L|].
  rewrite log2R_mul. lra.
Qed.

(* ------------------------------------------------------------------ *)
(* List sums                                                           *)
(* ------------------------------------------------------------------ *)

Lemma cost_cons f fs l ls : cost (f :: fs) (l :: ls) = (f * l + cost fs ls)%nat.
Proof. reflexivity. Qed.

Lemma total_cons f fs : total (f :: fs) = (f + total fs)%nat.
Proof. reflexivity. Qed.

(* Σ f * log2 (n/f), the un-normalised entropy *)
Definition nH (n : R) (fs : list nat) : R :=
  fold_right Rplus 0%R (map (fun f => (INR f * log2R (n / INR f))%R) fs).

Lemma nH_H0_gen (n : R) fs : (n <> 0)%R ->
  (n * fold_right Rplus 0%R (map (fun f => (INR f / n * log2R (n / INR f))%R) fs)
   = nH n fs)%R.
Proof.
  intros Hn. unfold nH. induction fs as [|f fs IH]; simpl.
  - lra.
  - rewrite Rmult_plus_distr_l, IH. f_equal.
    unfold Rdiv. rewrite <- !Rmult_assoc.
    rewrite (Rmult_comm n (INR f)), (Rmult_assoc (INR f) n), Rinv_r by exact Hn.
    lra.
Qed.

Lemma nH_H0 fs : (0 < total fs)%nat ->
  (INR (total fs) * H0 fs = nH (INR (total fs)) fs)%R.
Proof.
  intros H. unfold H0. apply nH_H0_gen.
  apply Rgt_not_eq. apply lt_0_INR. exact H.
Qed.

Definition bounded (n : nat) (fs : list nat) : Prop :=
  Forall (fun f => 1 <= f /\ f <= n)%nat fs.

Lemma le_total f fs : In f fs -> (f <= total fs)%nat.
Proof.
  induction fs as [|g fs IH]; simpl; [tauto|].
  intros [->|H]; [lia|]. specialize (IH H). lia.
Qed.

Lemma pos_bounded fs : Forall (fun f => 0 < f)%nat fs -> bounded (total fs) fs.
Proof.
  intros H. unfold bounded. rewrite Forall_forall in *.
  intros f Hf. split; [apply (H f Hf)|apply le_total; exact Hf].
Qed.

Lemma pos_total fs : Forall (fun f => 0 < f)%nat fs -> fs <> [] -> (0 < total fs)%nat.
Proof.
  intros H Hne. destruct fs as [|f fs]; [congruence|].
  inversion H; subst. rewrite total_cons. lia.
Qed.

Lemma cost_sum_quad n fs : bounded n fs ->
  (2 * INR (cost fs (map (shl 4 n) fs)) <= nH (INR n) fs + 2 * INR (total fs))%R.
Proof.
  unfold nH. induction 1 as [|f fs [Hf Hfn] _ IH].
  - simpl. lra.
  - simpl map. rewrite cost_cons, total_cons, !plus_INR, mult_INR.
    simpl fold_right.
    assert (B := shl_bits_quad n f Hf Hfn).
    assert (HF : (0 <= INR f)%R) by apply pos_INR.
    assert (INR f * (2 * INR (shl 4 n f))
            <= INR f * (log2R (INR n / INR f) + 2))%R
      by (apply Rmult_le_compat_l; assumption).
    lra.
Qed.

Lemma cost_sum_bin n fs : bounded n fs ->
  (INR (cost fs (map (shl 2 n) fs)) <= nH (INR n) fs + INR (total fs))%R.
Proof.
  unfold nH. induction 1 as [|f fs [Hf Hfn] _ IH].
  - simpl. lra.
  - simpl map. rewrite cost_cons, total_cons, !plus_INR, mult_INR.
    simpl fold_right.
    assert (B := shl_bits_bin n f Hf Hfn).
    assert (HF : (0 <= INR f)%R) by apply pos_INR.
    assert (INR f * INR (shl 2 n f)
            <= INR f * (log2R (INR n / INR f) + 1))%R
      by (apply Rmult_le_compat_l; assumption).
    lra.
Qed.

(* Kraft sum of the Shannon lengths is at most Σ f / n *)
Lemma kraft_sum d n fs : (2 <= d)%nat -> (0 < n)%nat -> bounded n fs ->
  (kraft d (map (shl d n) fs) <= INR (total fs) / INR n)%R.
Proof.
  intros Hd Hn. unfold kraft.
  assert (HD : (2 <= INR d)%R) by (apply INR_d_ge2; exact Hd).
  assert (HN : (0 < INR n)%R) by (apply lt_0_INR; exact Hn).
  induction 1 as [|f fs [Hf Hfn] _ IH].
  - simpl. unfold Rdiv. lra.
  - simpl map. simpl fold_right. rewrite total_cons, plus_INR.
    destruct (shl_spec d n f Hd Hf) as (_ & B & _).
    apply le_INR in B. rewrite mult_INR, pow_INR in B.
    set (l := shl d n f) in *.
    assert (HP : (0 < INR d ^ l)%R) by (apply pow_lt; lra).
    assert (HI : (0 < / INR d ^ l)%R) by (apply Rinv_0_lt_compat; exact HP).
    assert (E : (/ INR d ^ l * INR n <= INR f)%R).
    { apply Rle_trans with (/ INR d ^ l * (INR d ^ l * INR f))%R.
      - apply Rmult_le_compat_l; [lra|exact B].
      - rewrite <- Rmult_assoc, Rinv_l by lra. lra. }
    assert (E' : (/ INR d ^ l <= INR f / INR n)%R).
    { apply Rmult_le_reg_r with (INR n); [exact HN|].
      unfold Rdiv. rewrite (Rmult_assoc (INR f)), Rinv_l by lra. lra. }
    unfold Rdiv in *. rewrite Rmult_plus_distr_r. lra.
Qed.

(* ------------------------------------------------------------------ *)
(* 1. Shannon lengths satisfy Kraft                                    *)
(* ------------------------------------------------------------------ *)

Theorem shannon_kraft : forall d fs, (2 <= d)%nat ->
  Forall (fun f => 0 < f)%nat fs -> fs <> [] ->
  (kraft d (map (shl d (total fs)) fs) <= 1)%R.
Proof.
  intros d fs Hd Hpos Hne.
  assert (Hn := pos_total fs Hpos Hne).
  eapply Rle_trans; [apply kraft_sum; [exact Hd|exact Hn|apply pos_bounded; exact Hpos]|].
  unfold Rdiv. rewrite Rinv_r; [lra|].
  apply Rgt_not_eq. apply lt_0_INR. exact Hn.
Qed.

Lemma shannon_ge_1 d n fs : (2 <= d)%nat -> bounded n fs ->
  Forall (fun l => 1 <= l)%nat (map (shl d n) fs).
Proof.
  intros Hd H. apply Forall_forall. intros l Hl.
  apply in_map_iff in Hl. destruct Hl as (f & <- & Hf).
  unfold bounded in H. rewrite Forall_forall in H.
  apply shl_ge_1; [exact Hd|apply (H f Hf)].
Qed.

(* ------------------------------------------------------------------ *)
(* 2. Shannon cost is within one digit per symbol of the entropy       *)
(* ------------------------------------------------------------------ *)

Theorem shannon_cost_quad : forall fs,
  Forall (fun f => 0 < f)%nat fs -> fs <> [] ->
  (2 * INR (cost fs (map (shl 4 (total fs)) fs)) <= INR (total fs) * (H0 fs + 2))%R.
Proof.
  intros fs Hpos Hne.
  assert (Hn := pos_total fs Hpos Hne).
  rewrite Rmult_plus_distr_l, nH_H0 by exact Hn.
  rewrite (Rmult_comm (INR (total fs)) 2).
  apply cost_sum_quad. apply pos_bounded. exact Hpos.
Qed.

Theorem shannon_cost_bin : forall fs,
  Forall (fun f => 0 < f)%nat fs -> fs <> [] ->
  (INR (cost fs (map (shl 2 (total fs)) fs)) <= INR (total fs) * (H0 fs + 1))%R.
Proof.
  intros fs Hpos Hne.
  assert (Hn := pos_total fs Hpos Hne).
  rewrite Rmult_plus_distr_l, nH_H0 by exact Hn.
  rewrite Rmult_1_r.
  apply cost_sum_bin. apply pos_bounded. exact Hpos.
Qed.

(* ------------------------------------------------------------------ *)
(* 3. Optimal (minimum-redundancy) assignments are entropy bounded     *)
(* ------------------------------------------------------------------ *)

Lemma optimal_le_shannon d fs ls : (2 <= d)%nat ->
  Forall (fun f => 0 < f)%nat fs -> fs <> [] -> optimal d fs ls ->
  (cost fs ls <= cost fs (map (shl d (total fs)) fs))%nat.
Proof.
  intros Hd Hpos Hne [_ Hopt]. apply Hopt.
  - apply map_length.
  - apply shannon_ge_1; [exact Hd|apply pos_bounded; exact Hpos].
  - apply shannon_kraft; assumption.
Qed.

Theorem optimal_entropy_quad : forall fs ls,
  Forall (fun f => 0 < f)%nat fs -> fs <> [] -> optimal 4 fs ls ->
  (2 * INR (cost fs ls) <= INR (total fs) * (H0 fs + 2))%R.
Proof.
  intros fs ls Hpos Hne Hopt.
  assert (H := optimal_le_shannon 4 fs ls ltac:(lia) Hpos Hne Hopt).
  apply le_INR in H.
  assert (S := shannon_cost_quad fs Hpos Hne). lra.
Qed.

Theorem optimal_entropy_bin : forall fs ls,
  Forall (fun f => 0 < f)%nat fs -> fs <> [] -> optimal 2 fs ls ->
  (INR (cost fs ls) <= INR (total fs) * (H0 fs + 1))%R.
Proof.
  intros fs ls Hpos Hne Hopt.
  assert (H := optimal_le_shannon 2 fs ls ltac:(lia) Hpos Hne Hopt).
  apply le_INR in H.
  assert (S := shannon_cost_bin fs Hpos Hne). lra.
Qed.

(* ------------------------------------------------------------------ *)
(* 4. Never worse than a fixed-length code                             *)
(* ------------------------------------------------------------------ *)

Lemma cost_repeat L fs : cost fs (repeat L (length fs)) = (total fs * L)%nat.
Proof.
  induction fs as [|f fs IH].
  - reflexivity.
  - simpl length. simpl repeat. rewrite cost_cons, total_cons, IH. lia.
Qed.

Lemma kraft_repeat d L k : kraft d (repeat L k) = (INR k * / INR d ^ L)%R.
Proof.
  unfold kraft. induction k as [|k IH].
  - simpl. lra.
  - rewrite S_INR. simpl repeat. simpl map. simpl fold_right. rewrite IH. lra.
Qed.

Lemma Forall_repeat {A} (P : A -> Prop) x k : P x -> Forall P (repeat x k).
Proof. intros H. induction k; simpl; constructor; assumption. Qed.

Theorem optimal_le_fixed : forall d L fs ls,
  (2 <= d)%nat -> (1 <= L)%nat -> (length fs <= d ^ L)%nat ->
  optimal d fs ls -> (cost fs ls <= total fs * L)%nat.
Proof.
  intros d L fs ls Hd HL Hlen [_ Hopt].
  rewrite <- cost_repeat. apply Hopt.
  - apply repeat_length.
  - apply Forall_repeat. exact HL.
  - rewrite kraft_repeat.
    assert (HD : (2 <= INR d)%R) by (apply INR_d_ge2; exact Hd).
    assert (HP : (0 < INR d ^ L)%R) by (apply pow_lt; lra).
    apply le_INR in Hlen. rewrite pow_INR in Hlen.
    apply Rmult_le_reg_r with (INR d ^ L)%R; [exact HP|].
    rewrite Rmult_assoc, Rinv_l by lra. lra.
Qed.

(* ------------------------------------------------------------------ *)
(* Examples: the hypotheses are satisfiable, the definitions compute   *)
(* ------------------------------------------------------------------ *)

Example ex_fs_pos : Forall (fun f => 0 < f)%nat [5;2;1;1]%nat /\ [5;2;1;1]%nat <> [].
Proof. split; [repeat constructor|discriminate]. Qed.

Example ex_total : total [5;2;1;1]%nat = 9%nat.
Proof. reflexivity. Qed.

Example ex_shl_quad : map (shl 4 9) [5;2;1;1]%nat = [1;2;2;2]%nat.
Proof. vm_compute. reflexivity. Qed.

Example ex_shl_bin : map (shl 2 9) [5;2;1;1]%nat = [1;3;4;4]%nat.
Proof. vm_compute. reflexivity. Qed.

Example ex_cost_quad_shannon : cost [5;2;1;1]%nat (map (shl 4 9) [5;2;1;1]%nat) = 13%nat.
Proof. vm_compute. reflexivity. Qed.

Example ex_cost_flat : cost [5;2;1;1]%nat [1;1;1;1]%nat = 9%nat.
Proof. vm_compute. reflexivity. Qed.

Example ex_kraft_flat : (kraft 4 [1;1;1;1]%nat <= 1)%R.
Proof. unfold kraft. simpl. lra. Qed.

(* [1;1;1;1] really is optimal for degree 4 on this frequency vector:
   every admissible assignment has all lengths >= 1, hence cost >= total. *)
Lemma cost_ge_total fs : forall ls, length ls = length fs ->
  Forall (fun l => 1 <= l)%nat ls -> (total fs <= cost fs ls)%nat.
Proof.
  induction fs as [|f fs IH]; intros [|l ls] Hlen Hall; simpl in Hlen; try discriminate.
  - simpl. lia.
  - inversion Hall; subst. rewrite cost_cons, total_cons.
    assert (total fs <= cost fs ls)%nat by (apply IH; [lia|assumption]).
    nia.
Qed.

Example ex_optimal : optimal 4 [5;2;1;1]%nat [1;1;1;1]%nat.
Proof.
  split; [reflexivity|]. intros ls' Hlen Hall _.
  change (cost [5;2;1;1]%nat [1;1;1;1]%nat) with (total [5;2;1;1]%nat).
  apply cost_ge_total; assumption.
Qed.

(* so the main theorem applies to it: 2 * 9 <= 9 * (H0 + 2) *)
Example ex_entropy :
  (2 * INR 9 <= INR 9 * (H0 [5;2;1;1]%nat + 2))%R.
Proof.
  exact (optimal_entropy_quad [5;2;1;1]%nat [1;1;1;1]%nat
           (proj1 ex_fs_pos) (proj2 ex_fs_pos) ex_optimal).
Qed.

Print Assumptions shannon_kraft.
Print Assumptions shannon_cost_quad.
Print Assumptions shannon_cost_bin.
Print Assumptions optimal_entropy_quad.
Print Assumptions optimal_entropy_bin.
Print Assumptions optimal_le_fixed.
Print Assumptions shl_least.
Print Assumptions ex_optimal.
