(* The specification every sequence structure is compared with: three list functions.
   Nothing about blocks, counters or levels. *)
From QwtModel Require Export ListX.

(* occurrences of c in s[0..i)  (i may exceed |s|: then the whole list is counted) *)
Fixpoint rank_spec (s : list N) (c i : N) : N :=
  match s with
  | [] => 0
  | x :: s' => if i =? 0 then 0 else (if x =? c then 1 else 0) + rank_spec s' c (N.pred i)
  end.

(* position of the (k+1)-th occurrence of c, counting positions from [pos] *)
Fixpoint select_from (s : list N) (c k pos : N) : option N :=
  match s with
  | [] => None
  | x :: s' =>
      if x =? c then (if k =? 0 then Some pos else select_from s' c (N.pred k) (pos + 1))
      else select_from s' c k (pos + 1)
  end.
Definition select_spec (s : list N) (c k : N) : option N := select_from s c k 0.

Definition get_spec {A} (s : list A) (i : N) : option A := nthN s i.

(* bit sequences *)
Definition N_of_bool (b : bool) : N := if b then 1 else 0.
Definition rank1_spec (s : list bool) (i : N) : N := rank_spec (map N_of_bool s) 1 i.
Definition rank0_spec (s : list bool) (i : N) : N := rank_spec (map N_of_bool s) 0 i.
Definition select1_spec (s : list bool) (k : N) : option N := select_spec (map N_of_bool s) 1 k.
Definition select0_spec (s : list bool) (k : N) : option N := select_spec (map N_of_bool s) 0 k.
