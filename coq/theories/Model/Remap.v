(* Model of utils::text_remap.  The HashSet of distinct bytes is modelled by the list
   [uniq] of its elements in the (arbitrary) order the set yielded them; theorems quantify over
   every such order.  Definitions only. *)
From QwtModel Require Export ListX.

Fixpoint insert_asc (x : N) (l : list N) : list N :=
  match l with [] => [x] | y :: r => if x <=? y then x :: l else y :: insert_asc x r end.
Definition sort_asc (l : list N) : list N := fold_left (fun acc x => insert_asc x acc) l [].   (* unique.sort() *)

Fixpoint index_of (x : N) (l : list N) (i : N) : option N :=
  match l with [] => None | y :: r => if y =? x then Some i else index_of x r (i + 1) end.

(* returns (remapped text, alphabet size) *)
Definition text_remap (uniq : list N) (input : list N) : outcome (list N * N) :=
  let unique := sort_asc uniq in
  (* remap: HashMap c -> i ; `*remap.get(c).unwrap() as u8` *)
  (fix go (l : list N) : outcome (list N * N) :=
     match l with
     | [] => Val ([], len unique)
     | c :: r => match index_of c unique 0 with
                 | None => Fault Panic
                 | Some i => let! (rest, d) := go r in Val (i mod 256 :: rest, d)
                 end
     end) input.
