(* Model of src/quadwt/mod.rs (QWaveletTree) and of utils::{msb, stable_partition_of_4}.
   Symbols are N below 2^w (w = width of the element type).  Definitions only. *)
From QwtModel Require Export RSQ.

Fixpoint mapo {A B} (f : A -> outcome B) (l : list A) : outcome (list B) :=
  match l with
  | [] => Val []
  | x :: l' => let! y := f x in let! r := mapo f l' in Val (y :: r)
  end.

(* utils::msb *)
Definition msb (v : N) : N := if v =? 0 then 0 else N.log2 v.

(* (x >> shift).as_() & 3  with as_ : T -> usize *)
Definition two_bits (w x shift : N) : outcome N :=
  let! y := oshr w x shift in Val (N.land (y mod 2 ^ 64) 3).

(* utils::stable_partition_of_4(sequence, shift) *)
Definition stable_partition_of_4 (w : N) (seq : list N) (shift : N) : outcome (list N) :=
  let! ds := mapo (fun a => two_bits w a shift) seq in
  let tagged := combine ds seq in
  let pick := fun d => map snd (filter (fun p => fst p =? d) tagged) in
  Val (pick 0 ++ pick 1 ++ pick 2 ++ pick 3).

Record qwt := mk_qwt {
  q_n : N;
  q_n_levels : N;
  q_sigma : N;
  q_qvs : list rsq
}.

Fixpoint qwt_levels (w bsize : N) (seq : list N) (shift : N) (nl : nat) : outcome (list rsq) :=
  match nl with
  | O => Val []
  | S k =>
      let! digits := mapo (fun s => two_bits w s shift) seq in
      let! qv := qvb_push_all qvb_new digits in
      let! rs := rsq_from_qv bsize qv in
      let! seq' := stable_partition_of_4 w seq shift in
      let! rest := qwt_levels w bsize seq' (if 2 <=? shift then shift - 2 else shift) k in
      Val (rs :: rest)
  end.

(* QWaveletTree::new *)
Definition qwt_new (w bsize : N) (seq : list N) : outcome qwt :=
  match seq with
  | [] => let! d := rsq_default bsize in Val {| q_n := 0; q_n_levels := 0; q_sigma := 0; q_qvs := [d] |}
  | _ =>
      let sigma := maxN seq in
      let log_sigma := msb sigma + 1 in
      let n_levels := (log_sigma + 1) / 2 in
      let! s0 := osub n_levels 1 in
      let! qvs := qwt_levels w bsize seq (2 * s0) (N.to_nat n_levels) in
      Val {| q_n := len seq; q_n_levels := n_levels; q_sigma := sigma; q_qvs := qvs |}
  end.

Definition qwt_default : qwt := {| q_n := 0; q_n_levels := 0; q_sigma := 0; q_qvs := [] |}.

Definition qwt_len (t : qwt) : N := q_n t.
Definition qwt_is_empty (t : qwt) : bool := q_n t =? 0.
Definition qwt_sigma (t : qwt) : option N := if qwt_is_empty t then None else Some (q_sigma t).

(* for level in 0..n_levels-1: (cur_p, cur_i) -> rank + offset *)
Fixpoint qwt_rank_walk (w bsize : N) (qvs : list rsq) (symbol shift : N) (cur_p cur_i : N) (level : N)
         (nl : nat) : outcome (N * N * N) :=
  match nl with
  | O => Val (cur_p, cur_i, shift)
  | S k =>
      let! tb := two_bits w symbol shift in
      let! qv := idx qvs level in
      let! offset := rsq_occs_smaller_unchecked qv tb in
      let! rp := rsq_rank_unchecked bsize qv tb cur_p in
      let! ri := rsq_rank_unchecked bsize qv tb cur_i in
      let! shift' := osub shift 2 in
      qwt_rank_walk w bsize qvs symbol shift' (rp + offset) (ri + offset) (level + 1) k
  end.

(* rank_unchecked(symbol, i) *)
Definition qwt_rank_unchecked (w bsize : N) (t : qwt) (symbol i : N) : outcome N :=
  let! l1 := osub (q_n_levels t) 1 in
  let! (cur_p, cur_i, shift) :=
     qwt_rank_walk w bsize (q_qvs t) symbol (2 * l1) 0 i 0 (N.to_nat l1) in
  let! tb := two_bits w symbol shift in
  let! qv := idx (q_qvs t) l1 in
  let! ci := rsq_rank_unchecked bsize qv tb cur_i in
  let! cp := rsq_rank_unchecked bsize qv tb cur_p in
  osub ci cp.

(* rank(symbol, i) *)
Definition qwt_rank (w bsize : N) (t : qwt) (symbol i : N) : outcome (option N) :=
  if (q_n t <? i) || (q_sigma t <? symbol) || (q_n t =? 0) then Val None
  else let! v := qwt_rank_unchecked w bsize t symbol i in Val (Some v).

(* get_unchecked(i) *)
Fixpoint qwt_get_walk (w bsize : N) (qvs : list rsq) (result cur_i level : N) (nl : nat)
  : outcome (N * N) :=
  match nl with
  | O => Val (result, cur_i)
  | S k =>
      let! qv := idx qvs level in
      let! symbol := rsq_get_unchecked qv cur_i in
      let result' := N.lor (N.shiftl result 2 mod 2 ^ w) symbol in
      let! offset := rsq_occs_smaller_unchecked qv symbol in
      let! r := rsq_rank_unchecked bsize qv symbol cur_i in
      qwt_get_walk w bsize qvs result' (r + offset) (level + 1) k
  end.

Definition qwt_get_unchecked (w bsize : N) (t : qwt) (i : N) : outcome N :=
  let! l1 := osub (q_n_levels t) 1 in
  let! (result, cur_i) := qwt_get_walk w bsize (q_qvs t) 0 i 0 (N.to_nat l1) in
  let! qv := idx (q_qvs t) l1 in
  let! symbol := rsq_get_unchecked qv cur_i in
  Val (N.lor (N.shiftl result 2 mod 2 ^ w) symbol).

Definition qwt_get (w bsize : N) (t : qwt) (i : N) : outcome (option N) :=
  if q_n t <=? i then Val None
  else let! v := qwt_get_unchecked w bsize t i in Val (Some v).

(* select: downward pass; returns None when a level rank is None (the `?`) *)
Fixpoint qwt_select_down (w bsize : N) (qvs : list rsq) (symbol shift b level : N) (nl : nat)
  : outcome (option (list (N * N))) :=        (* (path_off, rank_path_off) per level, top first *)
  match nl with
  | O => Val (Some [])
  | S k =>
      let! tb := two_bits w symbol shift in
      let! qv := idx qvs level in
      let! r := rsq_rank bsize qv tb b in
      match r with
      | None => Val None
      | Some rank_b =>
          let! offset := rsq_occs_smaller_unchecked qv tb in
          let b' := rank_b + offset in
          (* shift is i64 here: it may go to -2 after the last level *)
          let shift' := if 2 <=? shift then shift - 2 else 0 in
          let! rest := qwt_select_down w bsize qvs symbol shift' b' (level + 1) k in
          match rest with
          | None => Val None
          | Some l => Val (Some ((b, rank_b) :: l))
          end
      end
  end.

(* upward pass over the recorded path, deepest level first *)
Fixpoint qwt_select_up (w bsize : N) (qvs : list rsq) (symbol shift result : N)
         (path : list (N * N * N))      (* (level, b, rank_b), deepest first *)
  : outcome (option N) :=
  match path with
  | [] => Val (Some result)
  | (level, b, rank_b) :: rest =>
      let! tb := two_bits w symbol shift in
      let! qv := idx qvs level in
      if 2 ^ 64 <=? rank_b + result then Val None         (* checked_add(..)? *)
      else
        let! s := rsq_select bsize qv tb (rank_b + result) in
        match s with
        | None => Val None
        | Some p => let! r' := osub p b in
                    qwt_select_up w bsize qvs symbol (shift + 2) r' rest
        end
  end.

Fixpoint number_levels {A} (l : list A) (level : N) : list (N * A) :=
  match l with [] => [] | x :: l' => (level, x) :: number_levels l' (level + 1) end.

Definition qwt_select (w bsize : N) (t : qwt) (symbol i : N) : outcome (option N) :=
  if (q_sigma t <? symbol) || (q_n t =? 0) then Val None
  else
    let! l1 := osub (q_n_levels t) 1 in
    let! down := qwt_select_down w bsize (q_qvs t) symbol (2 * l1) 0 0 (N.to_nat (q_n_levels t)) in
    match down with
    | None => Val None
    | Some path =>
        let numbered := map (fun '(lv, (b, rb)) => (lv, b, rb)) (number_levels path 0) in
        qwt_select_up w bsize (q_qvs t) symbol 0 i (rev numbered)
    end.

Definition qwt_select_unchecked (w bsize : N) (t : qwt) (symbol i : N) : outcome N :=
  let! s := qwt_select w bsize t symbol i in ounwrap s.

(* rank_prefetch_unchecked without prefetch support: the estimation phase reads block counters
   (rank_block_unchecked) and issues prefetches (no architectural effect), then calls rank *)
Fixpoint qwt_estimate_walk (w bsize : N) (qvs : list rsq) (symbol shift : N) (rs re : N) (level : N)
         (nl : nat) : outcome unit :=
  match nl with
  | O => Val tt
  | S k =>
      let! tb := two_bits w symbol shift in
      let! qv := idx qvs level in
      let! offset := rsq_occs_smaller_unchecked qv tb in
      let! a := rss_rank_block bsize (rsq_rs qv) tb rs in
      let! b := rss_rank_block bsize (rsq_rs qv) tb re in
      let! _ := idx qvs (level + 1) in
      let! shift' := osub shift 2 in
      qwt_estimate_walk w bsize qvs symbol shift' (a + offset) (b + offset) (level + 1) k
  end.

Definition qwt_rank_prefetch_unchecked (w bsize : N) (t : qwt) (symbol i : N) : outcome N :=
  let! l1 := osub (q_n_levels t) 1 in
  let! _ := idx (q_qvs t) 0 in
  let! _ := qwt_estimate_walk w bsize (q_qvs t) symbol (2 * l1) 0 i 0 (N.to_nat l1) in
  qwt_rank_unchecked w bsize t symbol i.

Definition qwt_rank_prefetch (w bsize : N) (t : qwt) (symbol i : N) : outcome (option N) :=
  if (q_n t <? i) || (q_sigma t <? symbol) || (q_n t =? 0) then Val None
  else let! v := qwt_rank_prefetch_unchecked w bsize t symbol i in Val (Some v).
