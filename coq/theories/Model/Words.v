(* Word view: the straight-line integer leaf functions of the code, on N with explicit
   widths.  src/utils/mod.rs {select_in_word, select_in_word_u128, popcnt_wide, msb},
   quad DataLine {normalize, set_symbol, get_unchecked, rank_unchecked}.  Definitions only. *)
From QwtModel Require Export ListX Consts SelTable.

Fixpoint popcount_pos (p : positive) : N :=
  match p with
  | xH => 1
  | xO q => popcount_pos q
  | xI q => 1 + popcount_pos q
  end.
(* u64::count_ones / u128::count_ones *)
Definition popcount (x : N) : N := match x with N0 => 0 | Npos p => popcount_pos p end.

(* bits of a w-bit word, least significant first, as 0/1 *)
Definition bits_of (w : nat) (x : N) : list N := map (fun i => N.b2n (N.testbit x i)) (seqN 0 w).

Definition M64 : N := 2 ^ 64.

(* utils::select_in_word(word: u64, k: u64) -> u32 *)
Definition select_in_word (word k : N) : outcome N :=
  let s := word in
  let! s := osub s (N.shiftr (N.land s (SIW_M1 * K_ONES_STEP4)) 1) in
  let! s := oadd 64 (N.land s (SIW_M2 * K_ONES_STEP4)) (N.land (N.shiftr s 2) (3 * K_ONES_STEP4)) in
  let! t := oadd 64 s (N.shiftr s 4) in
  let s := N.land t (SIW_M3 * K_ONES_STEP8) in
  let byte_sums := (s * K_ONES_STEP8) mod M64 in                (* wrapping_mul *)
  let! k_step8 := omul 64 k K_ONES_STEP8 in
  let! d := osub (N.lor k_step8 K_LAMBDAS_STEP8) byte_sums in
  let geq_k_step8 := N.land d K_LAMBDAS_STEP8 in
  let! place := omul 32 (popcount geq_k_step8) SIW_PLACE_MUL in
  if place =? SIW_NOTFOUND then Val 64
  else
    let! sh := oshl 64 byte_sums 8 in
    let! sr := oshr 64 sh place in
    let! byte_rank := osub k (N.land sr SIW_BYTE_MASK) in
    let! wsh := oshr 64 word place in
    let! br8 := oshl 64 byte_rank 8 in
    let! tv := idx sel_table (N.lor (N.land wsh 255) br8) in
    oadd 32 place tv.

(* utils::select_in_word_u128(word: u128, k: u64) -> u32 *)
Definition select_in_word_u128 (word k : N) : outcome N :=
  let first := word mod M64 in
  let kp := popcount first in
  if k <? kp then select_in_word first k
  else
    let! k' := osub k kp in
    let! r := select_in_word (N.shiftr word 64 mod M64) k' in
    oadd 32 64 r.

(* utils::popcnt_wide::<N>(data): the first N words *)
Definition popcnt_wide (n : nat) (data : list N) : N := sumN (map popcount (firstn n data)).

(* utils::msb::<T>(v), T of w bits: (w - 1) - leading_zeros *)
Definition msb_w (w v : N) : outcome N :=
  if v =? 0 then Val 0 else osub (w - 1) (w - 1 - N.log2 v).

(* ------------------------------------------------------------- quad DataLine, word view *)
(* words: [u128; 4]; words 0,1 = high bit plane, words 2,3 = low bit plane *)
Definition M128 : N := 2 ^ 128.
Definition qline_words := list N.

Definition qline_zero : list N := [0; 0; 0; 0].

(* DataLine::set_symbol(symbol: u8, i: u8) *)
Definition qline_set_symbol (ws : list N) (symbol i : N) : outcome (list N) :=
  let word_id_high := N.shiftr i QV_WORD_SHIFT in
  let word_id_low := word_id_high + QV_LOW_PLANE in
  let cur_shift := N.land i QV_WORD_MASK in
  let symbol := N.land symbol QV_SYM_MASK in
  let! wh := idx ws word_id_high in
  let! hi := oshl 128 (N.shiftr symbol 1) cur_shift in
  let ws1 := setN ws word_id_high (N.lor wh hi) in
  let! wl := idx ws1 word_id_low in
  let! lo := oshl 128 (N.land symbol 1) cur_shift in
  Val (setN ws1 word_id_low (N.lor wl lo)).

(* DataLine::get_unchecked(i) *)
Definition qline_get_unchecked (ws : list N) (i : N) : outcome N :=
  let word_id_high := N.shiftr i QVG_WORD_SHIFT in
  let word_id_low := word_id_high + QVG_LOW_PLANE in
  let cur_shift := N.land i QVG_WORD_MASK in
  let! word_high := uidx ws word_id_high in
  let! word_low := uidx ws word_id_low in
  let! h := oshr 128 word_high cur_shift in
  let! l := oshr 128 word_low cur_shift in
  Val (N.lor (N.shiftl (N.land h 1) 1) (N.land l 1) mod 256).

(* DataLine::normalize(symbol) *)
Definition qline_normalize (ws : list N) (symbol : N) : outcome (N * N) :=
  let rep := fun b => if b =? 0 then M128 - 1 else 0 in     (* REPEATEDSYMB[b] *)
  let mask_high := rep (N.shiftr symbol 1) in
  let mask_low := rep (N.land symbol 1) in
  let! _ := if 1 <? N.shiftr symbol 1 then Fault Panic else Val tt in     (* REPEATEDSYMB index *)
  let! w0 := idx ws 0 in let! w1 := idx ws 1 in let! w2 := idx ws 2 in let! w3 := idx ws 3 in
  Val (N.land (N.lxor w0 mask_high) (N.lxor w2 mask_low),
       N.land (N.lxor w1 mask_high) (N.lxor w3 mask_low)).

(* DataLine::rank_unchecked(symbol, i) *)
Definition qline_rank_unchecked (ws : list N) (symbol i : N) : outcome N :=
  let! _ := odebug_assert (symbol <=? 3) in
  let! _ := odebug_assert (i <=? 256) in
  let! (word_0, word_1) := qline_normalize ws symbol in
  let last_word := N.shiftr i QVR_WORD_SHIFT in
  let offset := N.land i QVR_WORD_MASK in
  let mask_full := M128 - 1 in
  let! one_sh := oshl 128 1 offset in
  let! mask_offset := osub one_sh 1 in
  let mask := if last_word =? 0 then mask_offset else mask_full in
  let rank := popcount (N.land word_0 mask) in
  let mask := if last_word =? 1 then mask_offset else mask_full * (if last_word =? 2 then 1 else 0) in
  Val (rank + popcount (N.land word_1 mask)).

(* the packing that relates the list view (256 symbols) to the word view *)
Fixpoint plane_bits (bit : N -> N) (syms : list N) : N :=
  match syms with
  | [] => 0
  | s :: r => bit s + 2 * plane_bits bit r
  end.
Definition pack_qline (syms : list N) : list N :=
  let hi := fun s => N.shiftr s 1 mod 2 in
  let lo := fun s => s mod 2 in
  [plane_bits hi (firstn 128 syms); plane_bits hi (skipn 128 syms);
   plane_bits lo (firstn 128 syms); plane_bits lo (skipn 128 syms)].
