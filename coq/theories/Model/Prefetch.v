(* Model of src/quadwt/prefetch_support.rs and of the estimation phase
   rank_prefetch_superblocks_unchecked of the trees built WITH prefetch support
   (QWT256Pfs ... HQWT512Pfs).  prefetch_read_NTA itself has no architectural effect and is
   not modelled; what is modelled is every place where the estimation can fault.
   Definitions only. *)
From QwtModel Require Export Huff.

Record pfsupport := mk_pfs { pf_samples : list rsnarrow; pf_shift : N }.

Record pfs_state := mk_pfss {
  ps_counters : list N; ps_bits : list bool;
  ps_bvs : list (list bool)          (* the four bit vectors, each reversed *)
}.

Definition set_nth_bool (l : list bool) (i : N) (v : bool) : list bool := setN l i v.

(* one iteration of `for (i, symbol) in qv.iter().enumerate()` *)
Definition pfs_step (sample_rate n : N) (st : pfs_state) (i symbol : N) : outcome pfs_state :=
  let! c := idx (ps_counters st) symbol in
  let counters := setN (ps_counters st) symbol (c + 1) in
  let bits := if (c + 1) mod sample_rate =? 0 then setN (ps_bits st) symbol true else ps_bits st in
  if (i mod sample_rate =? 0) || (i =? n - 1) then
    Val (mk_pfss counters [false; false; false; false]
                 (map (fun '(bv, b) => b :: bv) (combine (ps_bvs st) bits)))
  else Val (mk_pfss counters bits (ps_bvs st)).

Fixpoint pfs_loop (sample_rate n : N) (st : pfs_state) (i : N) (syms : list N) : outcome pfs_state :=
  match syms with
  | [] => Val st
  | s :: r => let! st' := pfs_step sample_rate n st i s in pfs_loop sample_rate n st' (i + 1) r
  end.

(* PrefetchSupport::new(qv, sample_rate_shift); [syms] = qv.iter() *)
Definition pfs_new (syms : list N) (shift : N) : outcome pfsupport :=
  let! sample_rate := oshl 64 1 shift in
  let! st := pfs_loop sample_rate (len syms) (mk_pfss [0;0;0;0] [false;false;false;false] [[];[];[];[]]) 0 syms in
  let! samples := mapo (fun bv => let! b := bv_from_bools (rev bv) in rsn_new b) (ps_bvs st) in
  Val (mk_pfs samples shift).

(* approx_rank_unchecked(symbol, i) *)
Definition pfs_approx_rank (p : pfsupport) (symbol i : N) : outcome N :=
  let! sh := oshr 64 i (pf_shift p) in
  let block_id := sh in
  let! sample_rate := oshl 64 1 (pf_shift p) in
  let! s := uidx (pf_samples p) symbol in
  let! r := rsn_rank1 s (block_id + 1) in
  let! r := ounwrap r in
  omul 64 r sample_rate.

(* estimation with prefetch support, quad tree: for level in 0..n_levels-1 *)
Fixpoint qwt_pfs_walk (w : N) (qvs : list rsq) (pfs : list pfsupport) (symbol shift rs re level : N) (nl : nat)
  : outcome (N * N) :=
  match nl with
  | O => Val (rs, re)
  | S k =>
      let! tb := two_bits w symbol shift in
      let! qv := idx qvs level in
      let! offset := rsq_occs_smaller_unchecked qv tb in
      let! p := idx pfs level in
      let! a := pfs_approx_rank p tb rs in
      let! b := pfs_approx_rank p tb re in
      let! _ := idx qvs (level + 1) in
      let! shift' := osub shift 2 in
      qwt_pfs_walk w qvs pfs symbol shift' (a + offset) (b + offset) (level + 1) k
  end.

(* rank_prefetch_superblocks_unchecked: returns range.end - range.start *)
Definition qwt_pfs_estimate (w : N) (t : qwt) (pfs : list pfsupport) (symbol i : N) : outcome N :=
  let! l1 := osub (q_n_levels t) 1 in
  let! _ := idx (q_qvs t) 0 in
  let! (rs, re) := qwt_pfs_walk w (q_qvs t) pfs symbol (2 * l1) 0 i 0 (N.to_nat l1) in
  osub re rs.

(* the per-level supports the constructor builds (same digit lists as the levels) *)
Fixpoint qwt_pfs_levels (w : N) (seq : list N) (shift : N) (nl : nat) : outcome (list pfsupport) :=
  match nl with
  | O => Val []
  | S k =>
      let! digits := mapo (fun s => two_bits w s shift) seq in
      let! p := pfs_new (map (fun d => d mod 4) digits) PFS_SHIFT in
      let! seq' := stable_partition_of_4 w seq shift in
      let! rest := qwt_pfs_levels w seq' (if 2 <=? shift then shift - 2 else shift) k in
      Val (p :: rest)
  end.
Definition qwt_pfs_new (w : N) (seq : list N) : outcome (list pfsupport) :=
  match seq with
  | [] => Val []
  | _ => let n_levels := (msb (maxN seq) + 1 + 1) / 2 in
         let! s0 := osub n_levels 1 in
         qwt_pfs_levels w seq (2 * s0) (N.to_nat n_levels)
  end.

(* rank_prefetch on a tree with prefetch support *)
Definition qwt_rank_prefetch_pfs (w bsize : N) (t : qwt) (pfs : list pfsupport) (symbol i : N) : outcome (option N) :=
  if (q_n t <? i) || (q_sigma t <? symbol) || (q_n t =? 0) then Val None
  else
    let! _ := qwt_pfs_estimate w t pfs symbol i in
    let! v := qwt_rank_prefetch_unchecked w bsize t symbol i in
    Val (Some v).

(* Huffman-shaped tree: while shift >= 2 *)
Fixpoint hq_pfs_walk (qvs : list rsq) (pfs : list pfsupport) (repr shift rs re level : N) (nl : nat) : outcome (N * N) :=
  match nl with
  | O => Val (rs, re)
  | S k =>
      let tb := N.land (N.shiftr repr shift) 3 in
      let! qv := idx qvs level in
      let! offset := rsq_occs_smaller_unchecked qv tb in
      let! p := idx pfs level in
      let! a := pfs_approx_rank p tb rs in
      let! b := pfs_approx_rank p tb re in
      let! _ := idx qvs (level + 1) in
      hq_pfs_walk qvs pfs repr (shift - 2) (a + offset) (b + offset) (level + 1) k
  end.
Definition hq_pfs_estimate (t : hqwt) (pfs : list pfsupport) (symbol i : N) : outcome N :=
  let! code := idx (h_codes t) (sym_index symbol) in
  let! _ := idx (h_qvs t) 0 in
  let! (rs, re) := hq_pfs_walk (h_qvs t) pfs (pc_content code) (pc_len code - 2) 0 i 0 (N.to_nat (pc_len code / 2 - 1)) in
  osub re rs.

Fixpoint hq_pfs_levels (seq : list N) (codes : list pcode) (shift : N) (nl : nat) : outcome (list pfsupport) :=
  match nl with
  | O => Val []
  | S k =>
      let! ds := mapo (fun s => let! code := idx codes (sym_index s) in
                                if shift <=? pc_len code
                                then Val (Some (N.land (N.shiftr (pc_content code) (pc_len code - shift)) 3))
                                else Val None) seq in
      let digits := flat_map (fun o => match o with Some d => [d] | None => [] end) ds in
      let! p := pfs_new digits PFS_SHIFT_HQ in
      let! seq' := part_with_codes 4 seq shift codes in
      let! rest := hq_pfs_levels seq' codes (shift + 2) k in
      Val (p :: rest)
  end.
Definition hq_pfs_new (seq : list N) (codes : list pcode) : outcome (list pfsupport) :=
  match seq with
  | [] => Val []
  | _ => hq_pfs_levels seq codes 2 (N.to_nat (maxN (map pc_len codes) / 2))
  end.
Definition hq_rank_prefetch_pfs (bsize : N) (t : hqwt) (pfs : list pfsupport) (symbol i : N) : outcome (option N) :=
  if h_n t <? i then Val None
  else match hq_code_of t symbol with
       | None => Val None
       | Some _ =>
           let! _ := hq_pfs_estimate t pfs symbol i in
           let! v := hq_rank_prefetch_unchecked bsize t symbol i in
           Val (Some v)
       end.
