(* Models of craft_wm_codes (quad: src/quadwt/huffqwt.rs, binary: src/binwt/mod.rs),
   HuffQWaveletTree, and the binary WaveletTree (plain and compressed).  Definitions only. *)
From QwtModel Require Export QWT RSBin.

Record pcode := mk_pc { pc_content : N; pc_len : N }.      (* PrefixCode { content: u32, len: u32 } *)
Definition pc_zero : pcode := mk_pc 0 0.

(* ---------------------------------------------------------------- craft_wm_codes *)
(* One iteration of `while f[j].1 > l` for fragment size [frag] bits (2 = quad, 1 = binary).
   [c] holds the first m entries of the scratch array.  In the code the loop
     for r in j..m { c[(m-j)*k + r] = c[r] | k' << l ... ; c[r] |= top << l }
   writes to pairwise disjoint indices >= m, so it equals the list expression below; the array
   bound is the explicit check against [size]. *)
Definition craft_expand (frag : N) (c : list N) (j l size : N) : outcome (list N) :=
  let m := len c in
  let! _ := if 32 <=? l then Fault Overflow else Val tt in          (* k << l on u32 *)
  let pre := firstnN j c in
  let act := skipnN j c in
  let tag := fun k => map (fun x => N.lor x (N.shiftl k l)) act in
  let c' := if frag =? 2 then pre ++ tag 3 ++ tag 2 ++ tag 1 ++ act
            else pre ++ tag 1 ++ act in
  if len c' <=? size then Val c' else Fault Panic.

Fixpoint craft_grow (frag : N) (c : list N) (j l target size : N) (fuel : nat) : outcome (list N * N) :=
  match fuel with
  | O => Fault OutOfFuel
  | S f => if l <? target then
             let! c' := craft_expand frag c j l size in
             craft_grow frag c' j (l + frag) target size f
           else Val (c, l)
  end.

(* reversed_code: digits of c[j] (least significant fragment first) written most significant first *)
Fixpoint rev_frags (frag : N) (x : N) (l : N) (t : N) (fuel : nat) : N :=
  match fuel with
  | O => 0
  | S f => if t <? l then
             N.lor (N.shiftl (N.land (N.shiftr x t) (2 ^ frag - 1)) (l - t - frag)) (rev_frags frag x l (t + frag) f)
           else 0
  end.

(* f: (symbol, length in bits) in the order the sorted vector had (stable sort by length of the
   hash map's iteration order: the order among equal lengths is an input) *)
Fixpoint craft_assign (frag : N) (f : list (N * N)) (c : list N) (j l size : N) (table : list pcode)
  : outcome (list pcode) :=
  match f with
  | [] => Val table
  | (sym, target) :: rest =>
      let! (c', l') := craft_grow frag c j l target size 40 in
      let! cj := idx c' j in
      let code := mk_pc (rev_frags frag cj l' 0 40) l' in
      let! _ := if sym <? len table then Val tt else Fault Panic in
      craft_assign frag rest c' (j + 1) l' size (setN table sym code)
  end.

Definition craft_wm_codes (frag : N) (f : list (N * N)) (sigma : N) (scratch : N) : outcome (list pcode) :=
  craft_assign frag f [0] 0 0 scratch (repeat pc_zero (N.to_nat (sigma + 1))).
(* quad: scratch = alph_size * 4 ; binary (after the fix): max alph_size 2 *)
Definition craft4 (f : list (N * N)) (sigma : N) : outcome (list pcode) :=
  craft_wm_codes 2 f sigma (len f * 4).
Definition craft2 (f : list (N * N)) (sigma : N) : outcome (list pcode) :=
  craft_wm_codes 1 f sigma (N.max (len f) 2).

(* ------------------------------------------------------------- decode tables *)
Fixpoint insert_sorted (x : N * N) (l : list (N * N)) : list (N * N) :=
  match l with
  | [] => [x]
  | y :: r => if fst x <? fst y then x :: l else y :: insert_sorted x r    (* stable *)
  end.
Definition sort_by_key (l : list (N * N)) : list (N * N) := fold_left (fun acc x => insert_sorted x acc) l [].

(* codes_decode[len] = sorted [(content, symbol)] *)
Definition decode_tables (codes : list pcode) (max_len : N) : list (list (N * N)) :=
  map (fun ln => sort_by_key
                   (map (fun '(i, c) => (pc_content c, i))
                        (filter (fun '(i, c) => negb (pc_len c =? 0) && (pc_len c =? ln)) (number_levels codes 0))))
      (seqN 0 (S (N.to_nat max_len))).

(* binary_search_by_key(&result).expect(..) *)
Definition table_lookup (t : list (N * N)) (key : N) : outcome N :=
  match find (fun p => fst p =? key) t with Some p => Val (snd p) | None => Fault Panic end.

(* ------------------------------------------------------------- HuffQWaveletTree *)
Record hqwt := mk_hq {
  h_n : N; h_n_levels : N;
  h_codes : list pcode;
  h_decode : list (list (N * N));
  h_qvs : list rsq;
  h_lens : list N
}.

Definition sym_index (x : N) : N := x mod 2 ^ 64.          (* symbol.as_() : usize *)

Definition part_with_codes (nbuckets : N) (seq : list N) (shift : N) (codes : list pcode) : outcome (list N) :=
  let! tagged := mapo (fun a => let! code := idx codes (sym_index a) in
                                if pc_len code <=? shift then Val (nbuckets, a)
                                else let! d := osub (pc_len code) shift in
                                     Val (N.land (N.shiftr (pc_content code) d) (nbuckets - 1), a)) seq in
  let pick := fun d => map snd (filter (fun p => fst p =? d) tagged) in
  Val (if nbuckets =? 4 then pick 0 ++ pick 1 ++ pick 2 ++ pick 3 ++ pick 4
       else pick 0 ++ pick 1 ++ pick 2).

Fixpoint hq_levels (bsize : N) (seq : list N) (codes : list pcode) (shift : N) (nl : nat)
  : outcome (list rsq * list N) :=
  match nl with
  | O => Val ([], [])
  | S k =>
      let! ds := mapo (fun s => let! code := idx codes (sym_index s) in
                                if shift <=? pc_len code
                                then Val (Some (N.land (N.shiftr (pc_content code) (pc_len code - shift)) 3))
                                else Val None) seq in
      let digits := flat_map (fun o => match o with Some d => [d] | None => [] end) ds in
      let! qv := qvb_push_all qvb_new digits in
      let! rs := rsq_from_qv bsize qv in
      let! seq' := part_with_codes 4 seq shift codes in
      let! (rest, lens) := hq_levels bsize seq' codes (shift + 2) k in
      Val (rs :: rest, qv_len qv :: lens)
  end.

(* HuffQWaveletTree::new with the code table produced by craft_wm_codes *)
Definition hq_build (bsize : N) (seq : list N) (codes : list pcode) : outcome hqwt :=
  match seq with
  | [] => let! d := rsq_default bsize in
          Val (mk_hq 0 0 [] [] [d] [0])
  | _ =>
      let max_len := maxN (map pc_len codes) in
      let n_levels := max_len / 2 in
      let! (qvs, lens) := hq_levels bsize seq codes 2 (N.to_nat n_levels) in
      Val (mk_hq (len seq) n_levels codes (decode_tables codes max_len) qvs lens)
  end.
Definition hq_new (bsize : N) (seq : list N) (f : list (N * N)) : outcome hqwt :=
  match seq with
  | [] => hq_build bsize [] []
  | _ => let! codes := craft4 f (sym_index (maxN seq)) in hq_build bsize seq codes
  end.

Definition hq_len (t : hqwt) : N := h_n t.

Fixpoint hq_get_walk (bsize : N) (t : hqwt) (cur_i result shift level : N) (nl : nat) : outcome (N * N) :=
  match nl with
  | O => Val (result, shift)
  | S k =>
      let! ln := idx (h_lens t) level in
      if ln <=? cur_i then Val (result, shift)
      else
        let! qv := idx (h_qvs t) level in
        let! symbol := rsq_get_unchecked qv cur_i in
        let result' := N.lor (N.shiftl result 2 mod 2 ^ 32) symbol in
        let! offset := rsq_occs_smaller_unchecked qv symbol in
        let! r := rsq_rank_unchecked bsize qv symbol cur_i in
        hq_get_walk bsize t (r + offset) result' (shift + 2) (level + 1) k
  end.
Definition hq_get_unchecked (w bsize : N) (t : hqwt) (i : N) : outcome N :=
  let! (result, shift) := hq_get_walk bsize t i 0 0 0 (N.to_nat (h_n_levels t)) in
  let! tab := idx (h_decode t) shift in
  let! s := table_lookup tab result in
  if s <? 2 ^ w then Val s else Fault Panic.            (* T::from(..).unwrap() *)
Definition hq_get (w bsize : N) (t : hqwt) (i : N) : outcome (option N) :=
  if h_n t <=? i then Val None else let! v := hq_get_unchecked w bsize t i in Val (Some v).

(* the validity test shared by rank / rank_prefetch / select *)
Definition hq_code_of (t : hqwt) (symbol : N) : option pcode :=
  if negb (sym_index symbol =? symbol) || (len (h_codes t) <=? sym_index symbol) then None
  else match nthN (h_codes t) (sym_index symbol) with
       | Some c => if pc_len c =? 0 then None else Some c
       | None => None
       end.

(* while shift >= 0 { ... level += 1; shift -= 2 }: code.len / 2 iterations *)
Fixpoint hq_rank_walk (bsize : N) (qvs : list rsq) (repr shift : N) (cur_p cur_i level : N) (nl : nat)
  : outcome (N * N) :=
  match nl with
  | O => Val (cur_p, cur_i)
  | S k =>
      let tb := N.land (N.shiftr repr shift) 3 in
      let! qv := idx qvs level in
      let! offset := rsq_occs_smaller_unchecked qv tb in
      let! rp := rsq_rank_unchecked bsize qv tb cur_p in
      let! ri := rsq_rank_unchecked bsize qv tb cur_i in
      hq_rank_walk bsize qvs repr (shift - 2) (rp + offset) (ri + offset) (level + 1) k
  end.
Definition hq_rank_unchecked (bsize : N) (t : hqwt) (symbol i : N) : outcome N :=
  let! code := idx (h_codes t) (sym_index symbol) in
  let iters := N.to_nat (pc_len code / 2) in      (* shift = len - 2, len - 4, ... >= 0 *)
  let! (cur_p, cur_i) := hq_rank_walk bsize (h_qvs t) (pc_content code) (pc_len code - 2) 0 i 0 iters in
  osub cur_i cur_p.
Definition hq_rank (bsize : N) (t : hqwt) (symbol i : N) : outcome (option N) :=
  if h_n t <? i then Val None
  else match hq_code_of t symbol with
       | None => Val None
       | Some _ => let! v := hq_rank_unchecked bsize t symbol i in Val (Some v)
       end.

Fixpoint hq_select_down (bsize : N) (qvs : list rsq) (repr shift b level : N) (nl : nat)
  : outcome (option (list (N * N))) :=
  match nl with
  | O => Val (Some [])
  | S k =>
      let tb := N.land (N.shiftr repr shift) 3 in
      let! qv := idx qvs level in
      let! r := rsq_rank bsize qv tb b in
      match r with
      | None => Val None
      | Some rank_b =>
          let! offset := rsq_occs_smaller_unchecked qv tb in
          let! rest := hq_select_down bsize qvs repr (shift - 2) (rank_b + offset) (level + 1) k in
          match rest with None => Val None | Some l => Val (Some ((b, rank_b) :: l)) end
      end
  end.
Fixpoint hq_select_up (bsize : N) (qvs : list rsq) (repr shift result : N) (path : list (N * N * N))
  : outcome (option N) :=
  match path with
  | [] => Val (Some result)
  | (level, b, rank_b) :: rest =>
      let tb := N.land (N.shiftr repr shift) 3 in
      let! qv := idx qvs level in
      if 2 ^ 64 <=? rank_b + result then Val None
      else
        let! s := rsq_select bsize qv tb (rank_b + result) in
        match s with
        | None => Val None
        | Some p => let! r' := osub p b in hq_select_up bsize qvs repr (shift + 2) r' rest
        end
  end.
Definition hq_select (bsize : N) (t : hqwt) (symbol i : N) : outcome (option N) :=
  match hq_code_of t symbol with
  | None => Val None
  | Some code =>
      let iters := N.to_nat (pc_len code / 2) in
      let! down := hq_select_down bsize (h_qvs t) (pc_content code) (pc_len code - 2) 0 0 iters in
      match down with
      | None => Val None
      | Some path =>
          let numbered := map (fun '(lv, (b, rb)) => (lv, b, rb)) (number_levels path 0) in
          hq_select_up bsize (h_qvs t) (pc_content code) 0 i (rev numbered)
      end
  end.
Definition hq_select_unchecked (bsize : N) (t : hqwt) (symbol i : N) : outcome N :=
  let! s := hq_select bsize t symbol i in ounwrap s.

(* rank_prefetch_unchecked without prefetch support: while shift >= 2 estimation, then rank *)
Fixpoint hq_estimate_walk (bsize : N) (qvs : list rsq) (repr shift rs re level : N) (nl : nat) : outcome unit :=
  match nl with
  | O => Val tt
  | S k =>
      let tb := N.land (N.shiftr repr shift) 3 in
      let! qv := idx qvs level in
      let! offset := rsq_occs_smaller_unchecked qv tb in
      let! a := rss_rank_block bsize (rsq_rs qv) tb rs in
      let! b := rss_rank_block bsize (rsq_rs qv) tb re in
      let! _ := idx qvs (level + 1) in
      hq_estimate_walk bsize qvs repr (shift - 2) (a + offset) (b + offset) (level + 1) k
  end.
Definition hq_rank_prefetch_unchecked (bsize : N) (t : hqwt) (symbol i : N) : outcome N :=
  let! code := idx (h_codes t) (sym_index symbol) in
  let! _ := idx (h_qvs t) 0 in
  (* shift from len-2 down to 2: len/2 - 1 iterations *)
  let! _ := hq_estimate_walk bsize (h_qvs t) (pc_content code) (pc_len code - 2) 0 i 0 (N.to_nat (pc_len code / 2 - 1)) in
  hq_rank_unchecked bsize t symbol i.
Definition hq_rank_prefetch (bsize : N) (t : hqwt) (symbol i : N) : outcome (option N) :=
  if h_n t <? i then Val None
  else match hq_code_of t symbol with
       | None => Val None
       | Some _ => let! v := hq_rank_prefetch_unchecked bsize t symbol i in Val (Some v)
       end.

(* ---------------------------------------------------------- binary WaveletTree *)
Record bwt := mk_bwt {
  w_n : N; w_n_levels : N;
  w_sigma : option N;
  w_codes : option (list pcode);
  w_decode : option (list (list (N * N)));
  w_bvs : list rswide;
  w_lens : list N
}.

(* (x >> shift).as_() & 1 *)
Definition one_bit (w x shift : N) : outcome N :=
  let! y := oshr w x shift in Val (N.land (y mod 2 ^ 64) 1).

Definition stable_partition_of_2 (w : N) (seq : list N) (shift : N) : outcome (list N) :=
  let! ds := mapo (fun a => one_bit w a shift) seq in
  let tagged := combine ds seq in
  let pick := fun d => map snd (filter (fun p => fst p =? d) tagged) in
  Val (pick 0 ++ pick 1).

Fixpoint wt_levels (w : N) (compressed : bool) (seq : list N) (codes : list pcode) (n_levels shift : N) (nl : nat)
  : outcome (list rswide * list N) :=
  match nl with
  | O => Val ([], [])
  | S k =>
      let! bs := mapo (fun s =>
                   if compressed then
                     let! code := idx codes (sym_index s) in
                     if shift <=? pc_len code
                     then Val (Some (N.land (N.shiftr (pc_content code) (pc_len code - shift)) 1 =? 1))
                     else Val None
                   else
                     let! sh := osub n_levels shift in
                     let! b := one_bit w s sh in Val (Some (b =? 1))) seq in
      let bits := flat_map (fun o => match o with Some d => [d] | None => [] end) bs in
      let! bv := bv_from_bools bits in
      let! rs := rsw_new bv in
      let! seq' := if compressed then part_with_codes 2 seq shift codes
                   else (let! sh := osub n_levels shift in stable_partition_of_2 w seq sh) in
      let! (rest, lens) := wt_levels w compressed seq' codes n_levels (shift + 1) k in
      Val (rs :: rest, bv_len bv :: lens)
  end.

Definition wt_build (w : N) (compressed : bool) (seq : list N) (codes : list pcode) : outcome bwt :=
  match seq with
  | [] => Val (mk_bwt 0 0 None None None [] [])
  | _ =>
      let sigma := maxN seq in
      if compressed then
        let max_len := maxN (map pc_len codes) in
        let! (bvs, lens) := wt_levels w true seq codes max_len 1 (N.to_nat max_len) in
        Val (mk_bwt (len seq) max_len None (Some codes) (Some (decode_tables codes max_len)) bvs lens)
      else
        let n_levels := msb sigma + 1 in
        let! (bvs, lens) := wt_levels w false seq [] n_levels 1 (N.to_nat n_levels) in
        Val (mk_bwt (len seq) n_levels (Some sigma) None None bvs lens)
  end.
Definition hwt_new (w : N) (seq : list N) (f : list (N * N)) : outcome bwt :=
  match seq with
  | [] => wt_build w true [] []
  | _ => let! codes := craft2 f (sym_index (maxN seq)) in wt_build w true seq codes
  end.

(* bit_at(symbol, repr, symbol_len, level) *)
Definition wt_bit_at (w : N) (compressed : bool) (symbol repr symbol_len level : N) : outcome bool :=
  let! sh := osub symbol_len (level + 1) in
  if compressed then let! y := oshr 32 repr sh in Val (N.land y 1 =? 1)
  else let! b := one_bit w symbol sh in Val (b =? 1).

Fixpoint wt_get_walk (compressed : bool) (t : bwt) (cur_i result result_t shift level : N) (w : N) (nl : nat)
  : outcome (N * N * N) :=
  match nl with
  | O => Val (result, result_t, shift)
  | S k =>
      let! stop := if compressed then (let! ln := idx (w_lens t) level in Val (ln <=? cur_i)) else Val false in
      if stop then Val (result, result_t, shift)
      else
        let! bv := idx (w_bvs t) level in
        let! symbol := rsw_get_unchecked bv cur_i in
        let sb := if symbol then 1 else 0 in
        let result' := if compressed then N.lor (N.shiftl result 1 mod 2 ^ 32) sb else result in
        let result_t' := if compressed then result_t else N.lor (N.shiftl result_t 1 mod 2 ^ w) sb in
        let! tmp := rsw_rank1_unchecked bv cur_i in
        let! cur_i' := if symbol then Val (tmp + rsw_n_zeros_q bv) else osub cur_i tmp in
        wt_get_walk compressed t cur_i' result' result_t' (shift + 1) (level + 1) w k
  end.
Definition wt_get_unchecked (w : N) (compressed : bool) (t : bwt) (i : N) : outcome N :=
  let! (result, result_t, shift) := wt_get_walk compressed t i 0 0 0 0 w (N.to_nat (w_n_levels t)) in
  if compressed then
    let! dec := ounwrap (w_decode t) in
    let! tab := idx dec shift in
    let! s := table_lookup tab result in
    if s <? 2 ^ w then Val s else Fault Panic
  else Val result_t.
Definition wt_get (w : N) (compressed : bool) (t : bwt) (i : N) : outcome (option N) :=
  if w_n t <=? i then Val None else let! v := wt_get_unchecked w compressed t i in Val (Some v).

(* Some (repr, symbol_len) when the symbol is valid *)
Definition wt_valid (compressed : bool) (t : bwt) (symbol : N) : outcome (option (N * N)) :=
  if compressed then
    let! codes := ounwrap (w_codes t) in
    if negb (sym_index symbol =? symbol) || (len codes <=? sym_index symbol) then Val None
    else let! c := idx codes (sym_index symbol) in
         if pc_len c =? 0 then Val None else Val (Some (pc_content c, pc_len c))
  else
    let! sg := ounwrap (w_sigma t) in
    if sg <? symbol then Val None else Val (Some (0, w_n_levels t)).

Fixpoint wt_rank_walk (w : N) (compressed : bool) (bvs : list rswide) (symbol repr symbol_len : N) (cur_p cur_i level : N) (nl : nat)
  : outcome (N * N) :=
  match nl with
  | O => Val (cur_p, cur_i)
  | S k =>
      let! bit := wt_bit_at w compressed symbol repr symbol_len level in
      let! bv := idx bvs level in
      let offset := rsw_n_zeros_q bv in
      let! tmp_p := rsw_rank1_unchecked bv cur_p in
      let! tmp_i := rsw_rank1_unchecked bv cur_i in
      let! cp := if bit then Val (tmp_p + offset) else osub cur_p tmp_p in
      let! ci := if bit then Val (tmp_i + offset) else osub cur_i tmp_i in
      wt_rank_walk w compressed bvs symbol repr symbol_len cp ci (level + 1) k
  end.
Definition wt_rank_unchecked (w : N) (compressed : bool) (t : bwt) (symbol i : N) : outcome N :=
  let! (repr, symbol_len) :=
     if compressed then (let! codes := ounwrap (w_codes t) in let! c := idx codes (sym_index symbol) in Val (pc_content c, pc_len c))
     else Val (0, w_n_levels t) in
  let! (cp, ci) := wt_rank_walk w compressed (w_bvs t) symbol repr symbol_len 0 i 0 (N.to_nat symbol_len) in
  osub ci cp.
Definition wt_rank (w : N) (compressed : bool) (t : bwt) (symbol i : N) : outcome (option N) :=
  if (w_n t =? 0) || (w_n t <? i) then Val None
  else
    let! v := wt_valid compressed t symbol in
    match v with
    | None => Val None
    | Some _ => let! r := wt_rank_unchecked w compressed t symbol i in Val (Some r)
    end.

Fixpoint wt_select_down (w : N) (compressed : bool) (bvs : list rswide) (symbol repr symbol_len b level : N) (nl : nat)
  : outcome (option (list (N * N))) :=
  match nl with
  | O => Val (Some [])
  | S k =>
      let! bit := wt_bit_at w compressed symbol repr symbol_len level in
      let! bv := idx bvs level in
      let! r := if bit then rsw_rank1 bv b else rsw_rank0 bv b in
      match r with
      | None => Val None
      | Some rank_b =>
          let b' := rank_b + (if bit then rsw_n_zeros_q bv else 0) in
          let! rest := wt_select_down w compressed bvs symbol repr symbol_len b' (level + 1) k in
          match rest with None => Val None | Some l => Val (Some ((b, rank_b) :: l)) end
      end
  end.
Fixpoint wt_select_up (w : N) (compressed : bool) (bvs : list rswide) (symbol repr symbol_len result : N) (path : list (N * N * N))
  : outcome (option N) :=
  match path with
  | [] => Val (Some result)
  | (level, b, rank_b) :: rest =>
      let! bit := wt_bit_at w compressed symbol repr symbol_len level in
      let! bv := idx bvs level in
      if 2 ^ 64 <=? rank_b + result then Val None
      else
        let! s := if bit then rsw_select1 bv (rank_b + result) else rsw_select0 bv (rank_b + result) in
        match s with
        | None => Val None
        | Some p => let! r' := osub p b in wt_select_up w compressed bvs symbol repr symbol_len r' rest
        end
  end.
Definition wt_select (w : N) (compressed : bool) (t : bwt) (symbol i : N) : outcome (option N) :=
  if w_n t =? 0 then Val None
  else
    let! v := wt_valid compressed t symbol in
    match v with
    | None => Val None
    | Some (repr, symbol_len) =>
        let! down := wt_select_down w compressed (w_bvs t) symbol repr symbol_len 0 0 (N.to_nat symbol_len) in
        match down with
        | None => Val None
        | Some path =>
            let numbered := map (fun '(lv, (b, rb)) => (lv, b, rb)) (number_levels path 0) in
            wt_select_up w compressed (w_bvs t) symbol repr symbol_len i (rev numbered)
        end
    end.
Definition wt_select_unchecked (w : N) (compressed : bool) (t : bwt) (symbol i : N) : outcome N :=
  let! s := wt_select w compressed t symbol i in ounwrap s.
