(* The complete internal state of every structure as a wire value (Model/Serde.v): fields in the
   declaration order of the Rust structs.  encode (schema) (value_of state) must equal the bytes
   bincode::serialize produces for the real value: this ties the model's INTERNAL state
   (data words, packed counters, samples, hints, inventories, code tables, level lengths) to the
   implementation's, not only its answers.  Definitions only. *)
From Coq Require Import ZArith.
From QwtModel Require Export Serde Prefetch DArrayM.

Definition vu (x : N) : value := VU x.
Definition vseq_u (l : list N) : value := VSeq (map VU l).

(* quad DataLine { words: [u128; 4] } from the list view *)
Definition qline_value (l : list N) : value := VTuple [VSeq (map VU (pack_qline l))].
Definition qv_value (q : qvec) : value :=
  VTuple [VSeq (map qline_value (qv_data q)); VU (qv_position q)].
Definition rss_value (r : rssupport) : value :=
  VTuple [VSeq (map (fun sb => VTuple [vseq_u sb]) (rs_superblocks r)); VSeq (map vseq_u (rs_samples r))].
Definition rsq_value (r : rsq) : value :=
  VTuple [qv_value (rsq_qv r); rss_value (rsq_rs r); vseq_u (rsq_occs_smaller r)].

(* bit DataLine { words: [u64; 8] } *)
Definition bv_value (b : bitvec) : value :=
  VTuple [VSeq (map (fun l => VTuple [vseq_u l]) (chunks 8 (bv_words b))); VU (bv_nbits b); VU (bv_nones b)].
Definition rsn_value (r : rsnarrow) : value :=
  VTuple [bv_value (rsn_bv r); vseq_u (rsn_pairs r); VSeq [vseq_u (rsn_samples0 r); vseq_u (rsn_samples1 r)]].
Definition rsw_value (r : rswide) : value :=
  VTuple [bv_value (rsw_bv r); vseq_u (rsw_meta r); VSeq [vseq_u (rsw_samples0 r); vseq_u (rsw_samples1 r)]; VU (rsw_n_zeros r)].
Definition i64_bits (z : Z) : N := Z.to_N (z mod 2 ^ 64)%Z.
Definition inv_value (i : inventories) : value :=
  VTuple [VU (inv_n_sets i); vseq_u (map i64_bits (inv_block i)); vseq_u (inv_sub i); vseq_u (inv_overflow i)].
Definition da_value (d : darray) : value :=
  VTuple [bv_value (da_bv d); inv_value (da_ones d); VOpt (option_map inv_value (da_zeros d))].
Definition pfs_value (p : pfsupport) : value := VTuple [VSeq (map rsn_value (pf_samples p)); VU (pf_shift p)].
Definition qwt_value (t : qwt) (pfs : option (list pfsupport)) : value :=
  VTuple [VU (q_n t); VU (q_n_levels t); VU (q_sigma t); VSeq (map rsq_value (q_qvs t));
          VOpt (option_map (fun ps => VSeq (map pfs_value ps)) pfs)].
Definition code_value (c : pcode) : value := VTuple [VU (pc_content c); VU (pc_len c)].
Definition decode_value (d : list (list (N * N))) : value :=
  VSeq (map (fun tab => VSeq (map (fun p => VTuple [VU (fst p); VU (snd p)]) tab)) d).
Definition hq_value (t : hqwt) (pfs : option (list pfsupport)) : value :=
  VTuple [VU (h_n t); VU (h_n_levels t); VSeq (map code_value (h_codes t)); decode_value (h_decode t);
          VSeq (map rsq_value (h_qvs t)); vseq_u (h_lens t); VUnit;
          VOpt (option_map (fun ps => VSeq (map pfs_value ps)) pfs)].
Definition wt_value (t : bwt) : value :=
  VTuple [VU (w_n t); VU (w_n_levels t); VOpt (option_map VU (w_sigma t));
          VOpt (option_map (fun cs => VSeq (map code_value cs)) (w_codes t));
          VOpt (option_map decode_value (w_decode t));
          VSeq (map rsw_value (w_bvs t)); vseq_u (w_lens t); VUnit].

(* derived Default of HuffQWaveletTree: every field empty (new(&mut []) instead keeps one default
   level and lens = [0]); both answer None to every query *)
Definition hq_default : hqwt := mk_hq 0 0 [] [] [] [].
(* derived Default of RSNarrow / RSWide: every field empty (new(empty) instead stores the initial
   directory entries); all queries answer None / 0 on both *)
Definition rsn_default : rsnarrow := mk_rsn bv_empty [] [] [].
Definition rsw_default : rswide := mk_rsw bv_empty [] [] [] 0.
