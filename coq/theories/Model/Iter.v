(* Model of WTIterator (src/lib.rs): a front index and an end index over get_unchecked.
   Generic in the tree: [get_u] is the tree's get_unchecked.  Definitions only. *)
From QwtModel Require Export ListX.

Record wtit := mk_wtit { it_i : N; it_end : N }.
Definition wtit_new (n : N) : wtit := mk_wtit 0 n.           (* iter() / into_iter() *)

Definition wtit_next (get_u : N -> outcome N) (st : wtit) : outcome (option N * wtit) :=
  if it_i st <? it_end st then
    let! i' := oadd 64 (it_i st) 1 in
    let! v := get_u (i' - 1) in
    Val (Some v, mk_wtit i' (it_end st))
  else Val (None, st).

Definition wtit_next_back (get_u : N -> outcome N) (st : wtit) : outcome (option N * wtit) :=
  if it_i st <? it_end st then
    let! e' := osub (it_end st) 1 in
    let! v := get_u e' in
    Val (Some v, mk_wtit (it_i st) e')
  else Val (None, st).

Definition wtit_len (st : wtit) : outcome N := osub (it_end st) (it_i st).

(* a call history *)
Inductive itop := INext | IBack | ILen.
Inductive itout := ONone | OSome (v : N) | OLen (n : N).

Fixpoint wtit_run (get_u : N -> outcome N) (st : wtit) (h : list itop) : outcome (list itout) :=
  match h with
  | [] => Val []
  | INext :: r => let! (v, st') := wtit_next get_u st in
                  let! rest := wtit_run get_u st' r in
                  Val ((match v with Some x => OSome x | None => ONone end) :: rest)
  | IBack :: r => let! (v, st') := wtit_next_back get_u st in
                  let! rest := wtit_run get_u st' r in
                  Val ((match v with Some x => OSome x | None => ONone end) :: rest)
  | ILen :: r => let! n := wtit_len st in
                 let! rest := wtit_run get_u st r in
                 Val (OLen n :: rest)
  end.

(* the specification: a double-ended queue over the not yet yielded elements *)
Fixpoint deque_run (rem : list N) (h : list itop) : list itout :=
  match h with
  | [] => []
  | INext :: r => match rem with
                  | [] => ONone :: deque_run [] r
                  | x :: rem' => OSome x :: deque_run rem' r
                  end
  | IBack :: r => match rev rem with
                  | [] => ONone :: deque_run [] r
                  | x :: revrest => OSome x :: deque_run (rev revrest) r
                  end
  | ILen :: r => OLen (len rem) :: deque_run rem r
  end.
