(* Size model (C14, C16): for every model state, (a) the bytes the real value keeps alive on
   the heap, as implied by the element counts of its boxed slices and vectors, and (b) what the
   hand-written `space_usage_byte` implementations report.  Inline sizes (size_of) of the Rust
   structs are parameters measured by the harness (record [abi]).  Definitions only. *)
From QwtModel Require Export Prefetch DArrayM.

Record abi := mk_abi {
  sz_rsq : N;       (* size_of::<RSQVector<RSSupportPlain<B>>>() *)
  sz_rsw : N;       (* size_of::<RSWide>() *)
  sz_rsn : N;       (* size_of::<RSNarrow>() *)
  sz_pfs : N;       (* size_of::<PrefetchSupport>() *)
  sz_code : N;      (* size_of::<PrefixCode>() = 8 *)
  sz_vec : N        (* size_of::<Vec<_>>() = 24 *)
}.
Definition abi64 : abi := mk_abi 144 88 80 32 8 24.

Definition sum_lens {A} (ls : list (list A)) : N := sumN (map len ls).

(* ---- heap bytes actually retained (requested sizes; allocator rounding is not modelled) ---- *)
Definition qv_heap (q : qvec) : N := 64 * len (qv_data q).
Definition rss_heap (r : rssupport) : N := 64 * len (rs_superblocks r) + 4 * sum_lens (rs_samples r).
Definition rsq_heap (r : rsq) : N := qv_heap (rsq_qv r) + rss_heap (rsq_rs r).
Definition bv_heap (b : bitvec) : N := 8 * len (bv_words b).
Definition rsn_heap (r : rsnarrow) : N :=
  bv_heap (rsn_bv r) + 8 * len (rsn_pairs r) + 8 * (len (rsn_samples0 r) + len (rsn_samples1 r)).
Definition rsw_heap (r : rswide) : N :=
  bv_heap (rsw_bv r) + 16 * len (rsw_meta r) + 8 * (len (rsw_samples0 r) + len (rsw_samples1 r)).
Definition inv_heap (i : inventories) : N := 8 * len (inv_block i) + 2 * len (inv_sub i) + 8 * len (inv_overflow i).
Definition da_heap (d : darray) : N :=
  bv_heap (da_bv d) + inv_heap (da_ones d) + match da_zeros d with Some z => inv_heap z | None => 0 end.
(* PrefetchSupport: Vec<RSNarrow> of 4 elements (exact capacity: collected from an array iterator) *)
Definition pfs_heap (a : abi) (p : pfsupport) : N :=
  sz_rsn a * len (pf_samples p) + sumN (map rsn_heap (pf_samples p)).
(* QWaveletTree: qvs is shrunk to fit; prefetch_support is allocated with capacity n_levels *)
Definition qwt_heap (a : abi) (t : qwt) (pfs : option (list pfsupport)) : N :=
  sz_rsq a * len (q_qvs t) + sumN (map rsq_heap (q_qvs t)) +
  match pfs with
  | Some ps => sz_pfs a * len ps + sumN (map (pfs_heap a) ps)
  | None => 0
  end.
Definition wt_heap_plain (a : abi) (t : bwt) : N :=
  sz_rsw a * len (w_bvs t) + sumN (map rsw_heap (w_bvs t)) + 8 * len (w_lens t).

(* ---- what space_usage_byte() reports ---- *)
Definition qv_space (q : qvec) : N := 16 + 64 * len (qv_data q) + 8.
Definition rss_space (r : rssupport) : N :=
  sumN (map (fun s => 16 + 4 * len s) (rs_samples r)) + (16 + 64 * len (rs_superblocks r)).
Definition rsq_space (r : rsq) : N := qv_space (rsq_qv r) + rss_space (rsq_rs r) + 5 * 8.
Definition bv_space (b : bitvec) : N := 16 + 8 * len (bv_words b) + 8 + 8.
Definition rsn_space (r : rsnarrow) : N :=
  bv_space (rsn_bv r) + (16 + 8 * len (rsn_pairs r)) + (16 + 8 * len (rsn_samples0 r)) + (16 + 8 * len (rsn_samples1 r)).
Definition rsw_space (r : rswide) : N :=
  bv_space (rsw_bv r) + (16 + 16 * len (rsw_meta r)) + (16 + 8 * len (rsw_samples0 r)) + (16 + 8 * len (rsw_samples1 r)).
Definition inv_space (i : inventories) : N :=
  8 + (16 + 8 * len (inv_block i)) + (16 + 2 * len (inv_sub i)) + (16 + 8 * len (inv_overflow i)).
Definition da_space (d : darray) : N :=
  bv_space (da_bv d) + inv_space (da_ones d) + match da_zeros d with Some z => inv_space z | None => 0 end.
Definition pfs_space (p : pfsupport) : N := sumN (map rsn_space (pf_samples p)).
Definition qwt_space (t : qwt) (pfs : option (list pfsupport)) : N :=
  8 + 8 + sumN (map rsq_space (q_qvs t)) +
  match pfs with Some ps => sumN (map pfs_space ps) | None => 0 end.
Definition hq_space (t : hqwt) (pfs : option (list pfsupport)) : N :=
  8 + 8 + 256 * 8 + sumN (map (fun v => len v * 5) (h_decode t)) + len (h_lens t) * 8 +
  sumN (map rsq_space (h_qvs t)) +
  match pfs with Some ps => sumN (map pfs_space ps) | None => 0 end.
Definition wt_space (compressed : bool) (t : bwt) : N :=
  8 + 8 +
  (* codes_decode is an Option<Vec<..>> here: `.iter()` yields the outer vector once, so the
     code counts 5 bytes per decode TABLE (max_len + 1 of them), not per entry *)
  (if compressed then 256 * 8 + match w_decode t with Some d => len d * 5 | None => 0 end else 0) +
  len (w_lens t) * 8 + sumN (map rsw_space (w_bvs t)).

(* number of separately allocated components (each contributes a constant to the difference
   between reported and retained bytes) *)
Definition rsq_components : N := 6.
Definition qwt_components (t : qwt) (pfs : option (list pfsupport)) : N :=
  2 + rsq_components * len (q_qvs t) + match pfs with Some ps => 1 + 17 * len ps | None => 0 end.
