(* Model of src/qvector/rs_qvector.rs and rs_qvector/rs_support_plain.rs.
   SuperblockPlain is modelled at the word view (four u128 as N, same shifts and masks);
   the quad vector at the list view (Model/QVec.v).  Definitions only. *)
From QwtModel Require Export QVec.

(* ------------------------------------------------------------ SuperblockPlain *)
Notation sblock := (list N) (only parsing).               (* counters: [u128; 4] *)

(* SuperblockPlain::new(sbc) *)
Definition sb_new (sbc : list N) : sblock := map (fun c => N.shiftl c SB_SHIFT mod 2 ^ 128) sbc.

(* get_rank(symbol, block_id): every operation of the source at its machine width (u128 data, usize
   arithmetic), including the `as usize` truncations and the overflow checks of `(block_id - nf) * 12`,
   `data >> ..` (amount >= 128 for block_id >= 12), `.. * not_first` and `sb + b`; equal to the
   regenerated g_sb_get_rank for every block_id (Proofs/LeavesSBOk.v) *)
Definition sb_get_rank (s : sblock) (symbol block_id : N) : outcome N :=
  let! data := uidx s symbol in
  let sb := N.shiftr data SB_SHIFT_GR mod 2 ^ 64 in
  let not_first := if 0 <? block_id then 1 else 0 in
  let! k := osub block_id not_first in
  let! sh := omul 64 k BLK_BITS_GR in
  let! d := oshr 128 data sh in
  let! b := omul 64 (N.land (d mod 2 ^ 64) BLK_MASK_GR) not_first in
  oadd 64 sb b.

Definition sb_get_superblock_counter (s : sblock) (symbol : N) : outcome N :=
  let! data := uidx s symbol in Val (N.shiftr data SB_SHIFT_GC mod 2 ^ 64).

(* set_block_counters(block_id, counters) *)
Definition sb_set_block_counters (s : sblock) (block_id : N) (counters : list N) : outcome sblock :=
  let! _ := oassert (block_id <? SET_BLOCK_ID_LIMIT) in
  let! _ := oassert (forallb (fun c => c <? BLK_LIMIT) counters) in
  if block_id =? 0 then Val s
  else Val (map (fun '(w, c) => N.lor w (N.shiftl c ((block_id - 1) * BLK_BITS) mod 2 ^ 128))
                (combine s counters)).

(* block_predecessor(symbol, target): loop for block_id in 1..8 *)
Fixpoint sb_block_pred_loop (cnt prev_cnt target : N) (block_id : N) (fuel : nat) : N * N :=
  match fuel with
  | O => (BLOCKS_IN_SB - 1, prev_cnt)
  | S f =>
      let curr := N.land cnt BLK_MASK_BP in
      if target <=? curr then (block_id - 1, prev_cnt)
      else sb_block_pred_loop (N.shiftr cnt BLK_BITS_BP) curr target (block_id + 1) f
  end.
Definition sb_block_predecessor (s : sblock) (symbol target : N) : outcome (N * N) :=
  let! cnt := idx s symbol in
  Val (sb_block_pred_loop cnt 0 target 1 (N.to_nat (BLOCKS_IN_SB - 1))).

(* ------------------------------------------------------------ RSSupportPlain *)
Record rssupport := mk_rss {
  rs_superblocks : list sblock;
  rs_samples : list (list N)      (* select_samples: [Box<[u32]>; 4] *)
}.

(* construction state of RSSupportPlain::new *)
Record rsb_state := mk_rsb {
  b_i : N;
  b_sbc : list N;     (* superblock_counters *)
  b_bc : list N;      (* block_counters *)
  b_occ : list N;     (* occs *)
  b_samples : list (list N);   (* each sample list reversed: head = last pushed *)
  b_sbs : list sblock          (* reversed: head = last pushed *)
}.

Definition incr (l : list N) (s : N) : outcome (list N) :=
  let! v := idx l s in Val (setN l s (v + 1)).

(* the part of the loop body executed for every i in 0..=n *)
Definition rsb_boundaries (bsize : N) (st : rsb_state) : outcome rsb_state :=
  let sbsize := RS_BLOCKS_IN_SB * bsize in
  let i := b_i st in
  let st1 :=
    if i mod sbsize =? 0
    then mk_rsb i (b_sbc st) [0;0;0;0] (b_occ st) (b_samples st) (sb_new (b_sbc st) :: b_sbs st)
    else st in
  if i mod bsize =? 0 then
    let block_id := (i / bsize) mod RS_BLOCKS_IN_SB in
    match b_sbs st1 with
    | [] => Fault Panic                         (* last_mut().unwrap() *)
    | last :: rest =>
        let! last' := sb_set_block_counters last block_id (b_bc st1) in
        Val (mk_rsb i (b_sbc st1) (b_bc st1) (b_occ st1) (b_samples st1) (last' :: rest))
    end
  else Val st1.

Definition rsb_symbol (bsize : N) (st : rsb_state) (symbol : N) : outcome rsb_state :=
  let sbsize := RS_BLOCKS_IN_SB * bsize in
  let i := b_i st in
  let! o := idx (b_occ st) symbol in
  let! samples :=
    if o mod SELECT_NUM_SAMPLES =? 0 then
      let! sl := idx (b_samples st) symbol in
      Val (setN (b_samples st) symbol ((i / sbsize) mod 2 ^ 32 :: sl))
    else Val (b_samples st) in
  let! sbc := incr (b_sbc st) symbol in
  let! bc := incr (b_bc st) symbol in
  let! occ := incr (b_occ st) symbol in
  Val (mk_rsb (i + 1) sbc bc occ samples (b_sbs st)).

Fixpoint rsb_loop (bsize : N) (st : rsb_state) (syms : list N) : outcome rsb_state :=
  match syms with
  | [] => rsb_boundaries bsize st              (* i = qv.len(): boundaries only *)
  | s :: syms' =>
      let! st1 := rsb_boundaries bsize st in
      let! st2 := rsb_symbol bsize st1 s in
      rsb_loop bsize st2 syms'
  end.

(* RSSupportPlain::new(qv); [syms] = the symbols qv.get_unchecked(i) yields *)
Definition rss_new (bsize : N) (syms : list N) : outcome rssupport :=
  let n := len syms in
  let! _ := oassert (n <? MAX_LEN) in
  let! _ := oassert ((bsize =? 256) || (bsize =? 512)) in
  let! st := rsb_loop bsize (mk_rsb 0 [0;0;0;0] [0;0;0;0] [0;0;0;0] [[];[];[];[]] []) syms in
  let next_block_id := (n / bsize) mod RS_BLOCKS_IN_SB + 1 in
  let! sbs :=
    if next_block_id <? RS_BLOCKS_IN_SB then
      match b_sbs st with
      | [] => Fault Panic
      | last :: rest => let! last' := sb_set_block_counters last next_block_id (b_bc st) in
                        Val (last' :: rest)
      end
    else Val (b_sbs st) in
  let nsb := len sbs in
  let sentinel := (nsb mod 2 ^ 32 + 2 ^ 32 - 1) mod 2 ^ 32 in   (* superblocks.len() as u32 - 1 *)
  let! _ := if nsb mod 2 ^ 32 =? 0 then Fault Overflow else Val tt in
  let samples := map (fun sl => rev (sentinel :: (match sl with [] => [0] | _ => sl end))) (b_samples st) in
  Val {| rs_superblocks := rev sbs; rs_samples := samples |}.

Definition rss_superblock_index (bsize i : N) : N := i / (bsize * RS_BLOCKS_IN_SB).
Definition rss_block_index (bsize i : N) : N := i / bsize.

(* rank_block(symbol, i) *)
Definition rss_rank_block (bsize : N) (r : rssupport) (symbol i : N) : outcome N :=
  let! _ := odebug_assert (symbol <=? 3) in
  let! sb := uidx (rs_superblocks r) (rss_superblock_index bsize i) in
  sb_get_rank sb symbol (N.land (rss_block_index bsize i) RANK_BLOCK_MASK).

(* while first < last { if counter(first) >= i break; first += step } *)
Fixpoint rss_scan (r : rssupport) (symbol i first last step : N) (fuel : nat) : outcome N :=
  match fuel with
  | O => Fault OutOfFuel
  | S f =>
      if first <? last then
        let! sb := idx (rs_superblocks r) first in
        let! c := sb_get_superblock_counter sb symbol in
        if i <=? c then Val first
        else rss_scan r symbol i (first + step) last step f
      else Val first
  end.

(* select_block(symbol, i) -> (position, rank) *)
Definition rss_select_block (bsize : N) (r : rssupport) (symbol i : N) : outcome (N * N) :=
  let! i1 := osub i 1 in
  let sampled_i := i1 / SELECT_NUM_SAMPLES in
  let! samples := idx (rs_samples r) symbol in
  let! first0 := idx samples sampled_i in
  let! last0 := idx samples (sampled_i + 1) in
  let last := 1 + last0 in
  let! d := osub last first0 in
  let step := N.sqrt d + 1 in                     (* f64::sqrt(..) as usize + 1 *)
  let fuel := S (length (rs_superblocks r)) in
  let! first1 := rss_scan r symbol i first0 last step fuel in
  let! first2 := osub first1 step in
  let! first3 := rss_scan r symbol i first2 last 1 (S (N.to_nat step) + fuel) in
  let! first4 := osub first3 1 in
  let position := first4 * bsize * RS_BLOCKS_IN_SB in
  let! sb := idx (rs_superblocks r) first4 in
  let! rank := sb_get_superblock_counter sb symbol in
  let! t := osub i rank in
  let! (block_id, block_rank) := sb_block_predecessor sb symbol t in
  Val (position + block_id * bsize, rank + block_rank).

(* ------------------------------------------------------------------ RSQVector *)
Record rsq := mk_rsq {
  rsq_qv : qvec;
  rsq_rs : rssupport;
  rsq_occs_smaller : list N       (* n_occs_smaller: [usize; 5] *)
}.

(* symbols as qv.iter() yields them *)
Fixpoint qv_iter_all (q : qvec) (i : N) (fuel : nat) : outcome (list N) :=
  match fuel with
  | O => Val []
  | S f => let! v := qv_get q i in
           match v with
           | None => Val []
           | Some s => let! rest := qv_iter_all q (i + 1) f in Val (s :: rest)
           end
  end.
Definition qv_symbols (q : qvec) : outcome (list N) :=
  qv_iter_all q 0 (length (qv_data q) * LINE_SYMS_nat).

Definition occs_smaller_of (syms : list N) : list N :=
  let c := fun s => countN s syms in
  [0; c 0; c 0 + c 1; c 0 + c 1 + c 2; c 0 + c 1 + c 2 + c 3].

(* From<QVector> *)
Definition rsq_from_qv (bsize : N) (q : qvec) : outcome rsq :=
  let! syms := qv_symbols q in
  let! rs := rss_new bsize syms in
  Val {| rsq_qv := q; rsq_rs := rs; rsq_occs_smaller := occs_smaller_of syms |}.

(* new(&[T]) / from_iter: collect into a QVector (values truncated by as_ / & 3) *)
Definition rsq_new (bsize : N) (vs : list N) : outcome rsq :=
  let! q := qvb_push_all qvb_new (map (fun v => v mod 256) vs) in
  rsq_from_qv bsize q.

(* Default::default() = Self::from(QVector::default()) *)
Definition rsq_default (bsize : N) : outcome rsq := rsq_from_qv bsize qvb_new.

Definition rsq_len (r : rsq) : N := qv_len (rsq_qv r).
Definition rsq_is_empty (r : rsq) : bool := qv_len (rsq_qv r) =? 0.
Definition rsq_get (r : rsq) (i : N) : outcome (option N) := qv_get (rsq_qv r) i.
Definition rsq_get_unchecked (r : rsq) (i : N) : outcome N := qv_get_unchecked (rsq_qv r) i.

(* rank_intra_block(symbol, i) *)
Definition rsq_rank_intra_block (bsize : N) (r : rsq) (symbol i : N) : outcome N :=
  let! _ := odebug_assert (symbol <=? 3) in
  let data := qv_data (rsq_qv r) in
  if bsize =? 256 then
    match nthN data (N.shiftr i 8) with
    | Some d => line_rank_unchecked d symbol (N.land i 255)
    | None => Val 0
    end
  else
    let block_id := N.shiftr i 9 in
    let offset_in_block := N.land i 511 in
    let offset_first := if offset_in_block <=? 256 then offset_in_block else 256 in
    let! rank := match nthN data (block_id * 2) with
                 | Some d => line_rank_unchecked d symbol offset_first
                 | None => Val 0
                 end in
    if 256 <? offset_in_block then
      let! r2 := match nthN data (block_id * 2 + 1) with
                 | Some d => line_rank_unchecked d symbol (offset_in_block - 256)
                 | None => Val 0
                 end in
      Val (rank + r2)
    else Val rank.

Definition rsq_rank_unchecked (bsize : N) (r : rsq) (symbol i : N) : outcome N :=
  let! _ := odebug_assert (symbol <=? 3) in
  let! a := rss_rank_block bsize (rsq_rs r) symbol i in
  let! b := rsq_rank_intra_block bsize r symbol i in
  Val (a + b).

Definition rsq_rank (bsize : N) (r : rsq) (symbol i : N) : outcome (option N) :=
  if (3 <? symbol) || (rsq_len r <? i) then Val None
  else let! v := rsq_rank_unchecked bsize r symbol i in Val (Some v).

Definition rsq_occs_unchecked (r : rsq) (symbol : N) : outcome N :=
  let! _ := odebug_assert (symbol <=? 3) in
  let! a := idx (rsq_occs_smaller r) ((symbol + 1) mod 256) in
  let! b := idx (rsq_occs_smaller r) symbol in
  osub a b.
Definition rsq_occs (r : rsq) (symbol : N) : outcome (option N) :=
  if 3 <? symbol then Val None else let! v := rsq_occs_unchecked r symbol in Val (Some v).
Definition rsq_occs_smaller_unchecked (r : rsq) (symbol : N) : outcome N :=
  let! _ := odebug_assert (symbol <=? 3) in
  idx (rsq_occs_smaller r) symbol.
Definition rsq_occs_smaller_q (r : rsq) (symbol : N) : outcome (option N) :=
  if 3 <? symbol then Val None else let! v := rsq_occs_smaller_unchecked r symbol in Val (Some v).

(* select inside a line at the list view: position of the (k+1)-th [symbol] among the 128
   symbols of a half line, 128 (= not found sentinel of select_in_word_u128) otherwise *)
Fixpoint find_kth (symbol : N) (l : list N) (k : N) (pos : N) : option N :=
  match l with
  | [] => None
  | x :: l' => if x =? symbol then (if k =? 0 then Some pos else find_kth symbol l' (N.pred k) (pos + 1))
               else find_kth symbol l' k (pos + 1)
  end.
Definition half_select (symbol : N) (h : list N) (k : N) : N :=
  match find_kth symbol h k 0 with Some p => p | None => 128 end.

(* one iteration of the loop of select_intra_block over a line *)
Definition sel_line (symbol : N) (d : line) (i result : N) : (option N) * N * N :=
  let w0 := firstn 128 d in
  let w1 := skipn 128 d in
  let cnt0 := countN symbol w0 in
  if i <? cnt0 then (Some (result + half_select symbol w0 i), i, result)
  else
    let i := i - cnt0 in
    let result := result + 128 in
    let cnt1 := countN symbol w1 in
    if i <? cnt1 then (Some (result + half_select symbol w1 i), i, result)
    else (None, i - cnt1, result + 128).

(* select_intra_block(symbol, i, pos) *)
Definition rsq_select_intra_block (bsize : N) (r : rsq) (symbol i pos : N) : outcome N :=
  let line_id := N.shiftr pos 8 in
  let! i0 := osub i 1 in
  let data := qv_data (rsq_qv r) in
  let! d0 := uidx data line_id in
  match sel_line symbol d0 i0 0 with
  | (Some p, _, _) => Val p
  | (None, i1, res1) =>
      if bsize =? 256 then Val 0
      else
        let! d1 := uidx data (line_id + 1) in
        match sel_line symbol d1 i1 res1 with
        | (Some p, _, _) => Val p
        | (None, _, _) => Val 0
        end
  end.

Definition rsq_select (bsize : N) (r : rsq) (symbol i : N) : outcome (option N) :=
  if 3 <? symbol then Val None
  else
    let! occ := rsq_occs_unchecked r symbol in
    if occ <=? i then Val None
    else
      let! i1 := oadd 64 i 1 in
      let! (pos, rank) := rss_select_block bsize (rsq_rs r) symbol i1 in
      let! t := osub i rank in
      let! t1 := oadd 64 t 1 in
      let! off := rsq_select_intra_block bsize r symbol t1 pos in
      Val (Some (pos + off)).

Definition rsq_select_unchecked (bsize : N) (r : rsq) (symbol i : N) : outcome N :=
  let! _ := odebug_assert (symbol <=? 3) in
  let! o := rsq_occs r symbol in
  let! _ := odebug_assert (match o with Some oc => i <? oc | None => false end) in
  let! s := rsq_select bsize r symbol i in
  ounwrap s.
