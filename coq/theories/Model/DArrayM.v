(* Model of src/darray/mod.rs.  Definitions only. *)
From Coq Require Import ZArith.
From QwtModel Require Export RSBin.

Record inventories := mk_inv {
  inv_n_sets : N;
  inv_block : list Z;       (* block_inventory: Box<[i64]> *)
  inv_sub : list N;         (* subblock_inventory: Box<[u16]> *)
  inv_overflow : list N     (* overflow_positions: Box<[usize]> *)
}.

(* every SUBBLOCK_SIZE-th element, starting with the first *)
Fixpoint step_by (k : nat) (l : list N) (fuel : nat) : list N :=
  match fuel with
  | O => []
  | S f => match l with [] => [] | x :: _ => x :: step_by k (skipn k l) f end
  end.

(* flush_block: vectors are kept reversed during construction *)
Definition flush_block (curr : list N) (st : list Z * list N * list N) : outcome (list Z * list N * list N) :=
  let '(blk, sub, ovf) := st in
  match curr with
  | [] => Val st
  | first :: _ =>
      let last := List.last curr 0 in
      let! d := osub last first in
      if d <? DA_MAX_DIST then
        let subs := map (fun p => (p - first) mod 2 ^ 16) (step_by (N.to_nat DA_SUBBLOCK) curr (length curr)) in
        Val (Z.of_N first :: blk, rev subs ++ sub, ovf)
      else
        let v := (- Z.of_N (len ovf) - 1)%Z in
        let k := (len curr + DA_SUBBLOCK - 1) / DA_SUBBLOCK in
        Val (v :: blk, repeat (2 ^ 16 - 1) (N.to_nat k) ++ sub, rev curr ++ ovf)
  end.

Fixpoint inv_loop (ps : list N) (curr_rev : list N) (ncurr : N) (st : list Z * list N * list N) (n_sets : N)
  : outcome (list N * (list Z * list N * list N) * N) :=
  match ps with
  | [] => Val (curr_rev, st, n_sets)
  | p :: r =>
      let curr_rev := p :: curr_rev in
      let ncurr := ncurr + 1 in
      if ncurr =? DA_BLOCK then
        let! st' := flush_block (rev curr_rev) st in
        inv_loop r [] 0 st' (n_sets + 1)
      else inv_loop r curr_rev ncurr st (n_sets + 1)
  end.

Definition inv_new (bit : bool) (bv : bitvec) : outcome inventories :=
  let ps := pi_collect bit bv pi_new (S (N.to_nat (bv_nbits bv))) in
  let! (curr_rev, st, n_sets) := inv_loop ps [] 0 ([], [], []) 0 in
  let! (blk, sub, ovf) := flush_block (rev curr_rev) st in
  Val {| inv_n_sets := n_sets; inv_block := rev blk; inv_sub := rev sub; inv_overflow := rev ovf |}.

Fixpoint nthZ (l : list Z) (i : N) : option Z :=
  match l with [] => None | x :: l' => if i =? 0 then Some x else nthZ l' (N.pred i) end.

Fixpoint da_scan (bit : bool) (bv : bitvec) (word reminder word_idx : N) (fuel : nat) : outcome (N * N * N) :=
  match fuel with
  | O => Fault OutOfFuel
  | S f =>
      let popcnt := popcount word in
      if reminder <? popcnt then Val (word, reminder, word_idx)
      else
        let! w := bv_get_word bv (word_idx + 1) in
        da_scan bit bv (if bit then w else notw w) (reminder - popcnt) (word_idx + 1) f
  end.

Definition da_select (bit : bool) (bv : bitvec) (inv : inventories) (i : N) : outcome (option N) :=
  if inv_n_sets inv <=? i then Val None
  else
    let block := i / DA_BLOCK in
    let! block_pos := match nthZ (inv_block inv) block with Some z => Val z | None => Fault Panic end in
    if (block_pos <? 0)%Z then
      let overflow_pos := Z.to_N (- block_pos - 1)%Z in
      let! p := idx (inv_overflow inv) (overflow_pos + N.land i (DA_BLOCK - 1)) in
      Val (Some p)
    else
      let subblock := i / DA_SUBBLOCK in
      let! sb := idx (inv_sub inv) subblock in
      let start_pos := Z.to_N block_pos + sb in
      let reminder := N.land i (DA_SUBBLOCK - 1) in
      if reminder =? 0 then Val (Some start_pos)
      else
        let word_idx := N.shiftr start_pos 6 in
        let word_shift := N.land start_pos 63 in
        let! w := bv_get_word bv word_idx in
        let word := N.land (if bit then w else notw w) (N.shiftl (M64 - 1) word_shift mod M64) in
        let! (word, reminder, word_idx) := da_scan bit bv word reminder word_idx (S (length (bv_words bv))) in
        let! s := select_in_word word reminder in
        Val (Some (N.shiftl word_idx 6 + s)).

Record darray := mk_da {
  da_bv : bitvec;
  da_ones : inventories;
  da_zeros : option inventories
}.

Definition da_new (s0 : bool) (bv : bitvec) : outcome darray :=
  let! ones := inv_new true bv in
  let! zeros := if s0 then let! z := inv_new false bv in Val (Some z) else Val None in
  Val {| da_bv := bv; da_ones := ones; da_zeros := zeros |}.

Definition da_select1 (d : darray) (i : N) : outcome (option N) := da_select true (da_bv d) (da_ones d) i.
Definition da_select0 (s0 : bool) (d : darray) (i : N) : outcome (option N) :=
  let! _ := oassert s0 in
  let! z := ounwrap (da_zeros d) in
  da_select false (da_bv d) z i.
Definition da_len (d : darray) : N := bv_len (da_bv d).
Definition da_count_ones (d : darray) : N := inv_n_sets (da_ones d).
Definition da_count_zeros (d : darray) : outcome N := osub (bv_len (da_bv d)) (inv_n_sets (da_ones d)).
Definition da_get (d : darray) (i : N) : outcome (option bool) := bv_get (da_bv d) i.

Fixpoint strictly_increasing (l : list N) : bool :=
  match l with
  | x :: ((y :: _) as r) => (x <? y) && strictly_increasing r
  | _ => true
  end.
Definition da_from_positions (s0 : bool) (ps : list N) : outcome darray :=
  let! _ := oassert (strictly_increasing ps) in
  let! bv := bv_from_positions ps in
  da_new s0 bv.
Definition da_from_bools (s0 : bool) (bs : list bool) : outcome darray :=
  let! bv := bv_from_bools bs in da_new s0 bv.
