(* Model of src/qvector/mod.rs at the list view: a DataLine is a list of 256 symbols
   (the two bit planes are the word view, see Model/Words.v).  Definitions only. *)
From Coq Require Import ZArith.
From QwtModel Require Export ListX Consts.

Notation line := (list N) (only parsing).                       (* 256 two-bit symbols *)
Record qvec := mk_qvec { qv_data : list line; qv_position : N }.

Definition zero_line : line := repeat 0 LINE_SYMS_nat.     (* DataLine::default() *)

(* DataLine::set_symbol(symbol, i): words |= (symbol & 3) bit planes << i, i : u8 *)
Definition line_set_symbol (l : line) (symbol i : N) : line :=
  match nthN l i with
  | Some old => setN l i (N.lor old (N.land symbol 3))
  | None => l
  end.

(* DataLine::get_unchecked(i): i is masked by the caller *)
Definition line_get_unchecked (l : line) (i : N) : outcome N := uidx l i.

(* DataLine::rank_unchecked(symbol, i) *)
Definition line_rank_unchecked (l : line) (symbol i : N) : outcome N :=
  let! _ := odebug_assert (symbol <=? 3) in
  let! _ := odebug_assert (i <=? LINE_SYMS) in
  Val (countN symbol (firstnN i l)).

(* QVectorBuilder *)
Definition qvb_new : qvec := {| qv_data := []; qv_position := 0 |}.

Definition qvb_push (b : qvec) (symbol : N) : outcome qvec :=
  let pos_in_last_line := N.land (qv_position b / 2) PUSH_LINE_MASK in
  let data := if pos_in_last_line =? 0 then qv_data b ++ [zero_line] else qv_data b in
  let! last := ounwrap (last_opt data) in
  Val {| qv_data := set_last data (line_set_symbol last symbol pos_in_last_line);
         qv_position := qv_position b + PUSH_POS_STEP |}.

(* value.as_() for AsPrimitive<u8> on any primitive integer type: low 8 bits *)
Definition as_u8 (v : Z) : N := Z.to_N (v mod 256)%Z.

Fixpoint qvb_extend (b : qvec) (vs : list Z) : outcome qvec :=
  match vs with
  | [] => Val b
  | v :: vs' => let! b' := qvb_push b (as_u8 v) in qvb_extend b' vs'
  end.

Definition qvb_build (b : qvec) : qvec := b.      (* into_boxed_slice: same content *)
Definition qv_from_iter (vs : list Z) : outcome qvec := qvb_extend qvb_new vs.

(* push of symbols already of type u8 *)
Fixpoint qvb_push_all (b : qvec) (vs : list N) : outcome qvec :=
  match vs with
  | [] => Val b
  | v :: vs' => let! b' := qvb_push b v in qvb_push_all b' vs'
  end.

(* QVector *)
Definition qv_len (q : qvec) : N := N.shiftr (qv_position q) QV_LEN_SHIFT.
Definition qv_is_empty (q : qvec) : bool := qv_position q =? 0.

Definition qv_get_unchecked (q : qvec) (i : N) : outcome N :=
  let! _ := odebug_assert (i <? qv_position q / 2) in
  let! l := uidx (qv_data q) (N.shiftr i LINE_SHIFT) in
  line_get_unchecked l (N.land i LINE_MASK).

Definition qv_get (q : qvec) (i : N) : outcome (option N) :=
  if N.shiftr (qv_position q) 1 <=? i then Val None
  else let! v := qv_get_unchecked q i in Val (Some v).

(* QVectorIterator: state = next index; [next] returns (item, new state) *)
Definition qvit_next (q : qvec) (i : N) : outcome (option N * N) :=
  let! i' := oadd 64 i 1 in
  let! v := qv_get q i in Val (v, i').

(* the abstraction: the stored symbols *)
Definition qv_abs (q : qvec) : list N := firstnN (qv_len q) (concat (qv_data q)).

(* closed form of the builder, proved equal to the push loop in Proofs/QVecP.v *)
Definition qv_of_syms (s : list N) : qvec :=
  {| qv_data := map (pad_to LINE_SYMS_nat 0) (chunks LINE_SYMS_nat s);
     qv_position := 2 * len s |}.
