(* Schema-driven model of the bincode 1.3 default wire format (fixint encoding, little
   endian, no byte limit).  A [ty] describes what `#[derive(Serialize, Deserialize)]`
   produces for a Rust type, a [value] is the data, [encode]/[decode] are the wire format.
   Definitions only (extracted to OCaml): executable, total, structurally recursive. *)
From QwtModel Require Export ListX.

(* wire types *)
Inductive ty : Type :=
| TU (nbytes : nat)          (* unsigned integer of nbytes bytes, little endian: u8 u16 u32 u64
                                u128, usize = TU 8, i64 as its two's complement = TU 8 *)
| TBool                      (* one byte 0 / 1 *)
| TSeq (t : ty)              (* Vec<T> / Box<[T]>: u64 length, then the elements *)
| TArr (n : nat) (t : ty)    (* [T; n]: the n elements, no length *)
| TOpt (t : ty)              (* Option<T>: tag byte 0, or tag byte 1 then the value *)
| TTuple (ts : list ty)      (* struct or tuple: the fields in declaration order *)
| TUnit.                     (* PhantomData / () : nothing *)

Inductive value : Type :=
| VU (x : N)
| VBool (b : bool)
| VSeq (vs : list value)     (* for TSeq and TArr *)
| VOpt (o : option value)
| VTuple (vs : list value)
| VUnit.

(* ---- little endian integers ---- *)

(* the [n] low bytes of [x], least significant first *)
Fixpoint le_bytes (n : nat) (x : N) : list N :=
  match n with
  | O => []
  | S n' => x mod 256 :: le_bytes n' (x / 256)
  end.

Fixpoint le_value (bs : list N) : N :=
  match bs with
  | [] => 0
  | b :: bs' => b + 256 * le_value bs'
  end.

(* split off exactly [n] bytes; None if the input is too short or contains a non-byte *)
Fixpoint take_bytes (n : nat) (bs : list N) : option (list N * list N) :=
  match n with
  | O => Some ([], bs)
  | S n' =>
      match bs with
      | [] => None
      | b :: bs' =>
          if b <? 256 then
            match take_bytes n' bs' with
            | Some (a, r) => Some (b :: a, r)
            | None => None
            end
          else None
      end
  end.

(* ---- repeated decoding ---- *)

Notation decoder A := (list N -> option (A * list N)) (only parsing).

(* [n] items one after the other, [n] structural (arrays) *)
Fixpoint dec_nat {A} (f : decoder A) (n : nat) (bs : list N) : option (list A * list N) :=
  match n with
  | O => Some ([], bs)
  | S n' =>
      match f bs with
      | Some (v, r) =>
          match dec_nat f n' r with
          | Some (vs, r') => Some (v :: vs, r')
          | None => None
          end
      | None => None
      end
  end.

(* [p] items one after the other, [p] binary: a length prefix is an arbitrary u64, so it is
   never converted to nat; fails as soon as one item fails *)
Fixpoint dec_pos {A} (f : decoder A) (p : positive) (bs : list N) : option (list A * list N) :=
  match p with
  | xH =>
      match f bs with
      | Some (v, r) => Some ([v], r)
      | None => None
      end
  | xO p' =>
      match dec_pos f p' bs with
      | Some (vs1, r1) =>
          match dec_pos f p' r1 with
          | Some (vs2, r2) => Some (vs1 ++ vs2, r2)
          | None => None
          end
      | None => None
      end
  | xI p' =>
      match f bs with
      | Some (v, r) =>
          match dec_pos f p' r with
          | Some (vs1, r1) =>
              match dec_pos f p' r1 with
              | Some (vs2, r2) => Some (v :: vs1 ++ vs2, r2)
              | None => None
              end
          | None => None
          end
      | None => None
      end
  end.

Definition dec_N {A} (f : decoder A) (c : N) (bs : list N) : option (list A * list N) :=
  match c with
  | N0 => Some ([], bs)
  | Npos p => dec_pos f p bs
  end.

(* ---- well-typed values ---- *)

Fixpoint wt (t : ty) (v : value) {struct t} : bool :=
  match t, v with
  | TU n, VU x => x <? 2 ^ (8 * N.of_nat n)
  | TBool, VBool _ => true
  | TSeq t', VSeq vs => (len vs <? 2 ^ 64) && forallb (wt t') vs
  | TArr n t', VSeq vs => Nat.eqb (length vs) n && forallb (wt t') vs
  | TOpt t', VOpt None => true
  | TOpt t', VOpt (Some v') => wt t' v'
  | TTuple ts, VTuple vs =>
      (fix go (ts : list ty) (vs : list value) {struct ts} : bool :=
         match ts, vs with
         | [], [] => true
         | t1 :: ts', v1 :: vs' => wt t1 v1 && go ts' vs'
         | _, _ => false
         end) ts vs
  | TUnit, VUnit => true
  | _, _ => false
  end.

(* ---- serialize ---- *)

Fixpoint encode (t : ty) (v : value) {struct t} : list N :=
  match t, v with
  | TU n, VU x => le_bytes n x
  | TBool, VBool b => [if b then 1 else 0]
  | TSeq t', VSeq vs => le_bytes 8 (len vs) ++ flat_map (encode t') vs
  | TArr _ t', VSeq vs => flat_map (encode t') vs
  | TOpt _, VOpt None => [0]
  | TOpt t', VOpt (Some v') => 1 :: encode t' v'
  | TTuple ts, VTuple vs =>
      (fix go (ts : list ty) (vs : list value) {struct ts} : list N :=
         match ts, vs with
         | t1 :: ts', v1 :: vs' => encode t1 v1 ++ go ts' vs'
         | _, _ => []
         end) ts vs
  | _, _ => []
  end.

(* ---- deserialize: the value and the bytes that are left ---- *)

Fixpoint decode (t : ty) (bs : list N) {struct t} : option (value * list N) :=
  match t with
  | TU n =>
      match take_bytes n bs with
      | Some (a, r) => Some (VU (le_value a), r)
      | None => None
      end
  | TBool =>
      match bs with
      | [] => None
      | b :: r =>
          if b =? 0 then Some (VBool false, r)
          else if b =? 1 then Some (VBool true, r)
          else None
      end
  | TSeq t' =>
      match take_bytes 8 bs with
      | Some (a, r) =>
          match dec_N (decode t') (le_value a) r with
          | Some (vs, r') => Some (VSeq vs, r')
          | None => None
          end
      | None => None
      end
  | TArr n t' =>
      match dec_nat (decode t') n bs with
      | Some (vs, r) => Some (VSeq vs, r)
      | None => None
      end
  | TOpt t' =>
      match bs with
      | [] => None
      | b :: r =>
          if b =? 0 then Some (VOpt None, r)
          else if b =? 1 then
            match decode t' r with
            | Some (v, r') => Some (VOpt (Some v), r')
            | None => None
            end
          else None
      end
  | TTuple ts =>
      match
        (fix go (ts : list ty) (bs : list N) {struct ts} : option (list value * list N) :=
           match ts with
           | [] => Some ([], bs)
           | t1 :: ts' =>
               match decode t1 bs with
               | Some (v, r) =>
                   match go ts' r with
                   | Some (vs, r') => Some (v :: vs, r')
                   | None => None
                   end
               | None => None
               end
           end) ts bs
      with
      | Some (vs, r) => Some (VTuple vs, r)
      | None => None
      end
  | TUnit => Some (VUnit, bs)
  end.

(* top-level copies of the three local fixpoints over the fields of a tuple (the nested
   form is what the guard checker accepts; SerdeP proves that they coincide) *)
Fixpoint wt_tuple (ts : list ty) (vs : list value) {struct ts} : bool :=
  match ts, vs with
  | [], [] => true
  | t1 :: ts', v1 :: vs' => wt t1 v1 && wt_tuple ts' vs'
  | _, _ => false
  end.

Fixpoint enc_tuple (ts : list ty) (vs : list value) {struct ts} : list N :=
  match ts, vs with
  | t1 :: ts', v1 :: vs' => encode t1 v1 ++ enc_tuple ts' vs'
  | _, _ => []
  end.

Fixpoint dec_tuple (ts : list ty) (bs : list N) {struct ts} : option (list value * list N) :=
  match ts with
  | [] => Some ([], bs)
  | t1 :: ts' =>
      match decode t1 bs with
      | Some (v, r) =>
          match dec_tuple ts' r with
          | Some (vs, r') => Some (v :: vs, r')
          | None => None
          end
      | None => None
      end
  end.
