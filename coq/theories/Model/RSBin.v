(* Models of src/bitvector/rs_narrow.rs (RSNarrow), src/bitvector/rs_wide.rs (RSWide) and of the
   rank/select methods of the bit DataLine, over the word view of Model/BitVec.v.
   Definitions only. *)
From QwtModel Require Export BitVec.

Definition notw (w : N) : N := N.lxor w (M64 - 1).       (* !w on u64 *)

(* ------------------------------------------------------------ bit DataLine (8 words) *)
Definition line_of (ws : list N) (b : N) : list N := firstn 8 (skipnN (b * 8) ws).
Definition line_n_ones (l : list N) : N := sumN (map popcount l).

(* DataLine::rank1_unchecked(i), i <= 512 *)
Fixpoint bline_rank1_loop (l : list N) (left : N) (neg : bool) : N :=
  match l with
  | [] => 0
  | w :: r =>
      if neg then 0
      else
        let mask := if 63 <? left then M64 - 1 else N.shiftl 1 left - 1 in
        popcount (N.land w mask) + (if left <? 64 then 0 else bline_rank1_loop r (left - 64) false)
  end.
Definition bline_rank1 (l : list N) (i : N) : option N :=
  if 512 <? i then None else Some (bline_rank1_loop l i false).

(* DataLine::select1_unchecked / select0_unchecked *)
Fixpoint bline_select_loop (neg : bool) (l : list N) (i rank off : N) : outcome N :=
  match l with
  | [] => Val off
  | w :: r =>
      let w := if neg then notw w else w in
      let kp := popcount w in
      let! d := osub i rank in
      if d <? kp then let! s := select_in_word w d in Val (off + s)
      else bline_select_loop neg r i (rank + kp) (off + 64)
  end.

(* ----------------------------------------------------------------------- RSNarrow *)
Record rsnarrow := mk_rsn {
  rsn_bv : bitvec;
  rsn_pairs : list N;            (* block_rank_pairs: Box<[u64]> *)
  rsn_samples0 : list N;
  rsn_samples1 : list N
}.

Record rsn_state := mk_rsns {
  ns_pairs : list N;   (* reversed *)
  ns_next_rank : N; ns_cur_subrank : N; ns_subranks : N;
  ns_s0 : list N; ns_s1 : list N;      (* reversed *)
  ns_hint0 : N; ns_hint1 : N; ns_zeros : N
}.

Definition rsn_word (st : rsn_state) (g : N) (word : N) : rsn_state :=
  let b := g / 8 in
  let shift := g mod RSN_BLOCK_SIZE in
  let pop := popcount word in
  let subranks := if 1 <=? shift then N.lor (N.shiftl (ns_subranks st) RSN_SUB_BITS mod M64) (ns_cur_subrank st)
                  else ns_subranks st in
  let next_rank := ns_next_rank st + pop in
  let cur_subrank := ns_cur_subrank st + pop in
  let '(s1, h1) := if ns_hint1 st <? next_rank / RSN_ONES_PER_HINT then (b :: ns_s1 st, ns_hint1 st + 1)
                   else (ns_s1 st, ns_hint1 st) in
  let zeros := ns_zeros st + (64 - pop) in
  let '(s0, h0) := if ns_hint0 st <? zeros / RSN_ZEROS_PER_HINT then (b :: ns_s0 st, ns_hint0 st + 1)
                   else (ns_s0 st, ns_hint0 st) in
  if shift =? RSN_BLOCK_SIZE - 1
  then mk_rsns (next_rank :: subranks :: ns_pairs st) next_rank 0 0 s0 s1 h0 h1 zeros
  else mk_rsns (ns_pairs st) next_rank cur_subrank subranks s0 s1 h0 h1 zeros.

Fixpoint rsn_loop (st : rsn_state) (g : N) (ws : list N) : rsn_state :=
  match ws with [] => st | w :: r => rsn_loop (rsn_word st g w) (g + 1) r end.

Fixpoint iterN {A} (f : A -> A) (n : nat) (x : A) : A := match n with O => x | S k => iterN f k (f x) end.

Definition rsn_new (bv : bitvec) : outcome rsnarrow :=
  let st := rsn_loop (mk_rsns [0] 0 0 0 [0] [0] 0 0 0) 0 (bv_words bv) in
  let nlines := len (bv_words bv) / 8 in
  let left := RSN_BLOCK_SIZE - nlines mod RSN_BLOCK_SIZE in
  let subranks := iterN (fun s => N.lor (N.shiftl s RSN_SUB_BITS_TAIL mod M64) (ns_cur_subrank st)) (N.to_nat left) (ns_subranks st) in
  let pairs := subranks :: ns_pairs st in
  let pairs := if 0 <? nlines mod RSN_BLOCK_SIZE then 0 :: ns_next_rank st :: pairs else pairs in
  let! last := osub (len pairs / 2) 1 in
  Val {| rsn_bv := bv; rsn_pairs := rev pairs;
         rsn_samples0 := rev (last :: ns_s0 st); rsn_samples1 := rev (last :: ns_s1 st) |}.

(* block_rank / sub_block_ranks / sub_block_rank with the usize overflow checks of the source
   (`block * 2`, `block * 2 + 1`, `result += ..`): equal to the definitions regenerated from
   src/bitvector/rs_narrow.rs (Proofs/LeavesRSNOk.v) *)
Definition rsn_block_rank (r : rsnarrow) (block : N) : outcome N :=
  let! k := omul 64 block 2 in idx (rsn_pairs r) k.
Definition rsn_sub_block_ranks (r : rsnarrow) (block : N) : outcome N :=
  let! k := omul 64 block 2 in
  let! k := oadd 64 k 1 in idx (rsn_pairs r) k.
Definition rsn_sub_block_rank (r : rsnarrow) (sub_block : N) : outcome N :=
  let block := sub_block / RSN_BLOCK_SIZE in
  let! br := rsn_block_rank r block in
  let left := sub_block mod RSN_BLOCK_SIZE in
  let! sr := rsn_sub_block_ranks r block in
  let! d := osub 7 left in
  let! sh := oshr 64 sr (d * RSN_SBR_BITS) in
  oadd 64 br (N.land sh RSN_SBR_MASK).

Definition rsn_rank1_unchecked (r : rsnarrow) (i : N) : outcome N :=
  if i =? 0 then Val 0
  else
    let i := i - 1 in
    let sub_block := N.shiftr i 6 in
    let! result := rsn_sub_block_rank r sub_block in
    let sub_left := N.land i 63 + 1 in
    let! _ := if N.shiftr sub_block 3 * 8 <? len (bv_words (rsn_bv r)) then Val tt else Fault UB in
    let! w := idx (bv_words (rsn_bv r)) sub_block in
    Val (result + popcount (N.shiftl w (64 - sub_left) mod M64)).

Definition rsn_rank1 (r : rsnarrow) (i : N) : outcome (option N) :=
  if bv_is_empty (rsn_bv r) || (bv_len (rsn_bv r) <? i) then Val None
  else let! v := rsn_rank1_unchecked r i in Val (Some v).
Definition rsn_rank0 (r : rsnarrow) (i : N) : outcome (option N) :=
  let! k := rsn_rank1 r i in
  match k with Some k => let! z := osub i k in Val (Some z) | None => Val None end.

Definition rsn_n_ones (r : rsnarrow) : outcome N :=
  if bv_is_empty (rsn_bv r) then Val 0
  else
    let n1 := bv_len (rsn_bv r) - 1 in
    let! a := rsn_rank1 r n1 in let! a := ounwrap a in
    let! g := bv_get (rsn_bv r) n1 in let! g := ounwrap g in
    Val (a + if g then 1 else 0).
Definition rsn_n_zeros (r : rsnarrow) : outcome N :=
  let! o := rsn_n_ones r in osub (bv_len (rsn_bv r)) o.

(* while hint_start < hint_end { if test(hint_start) > i break; hint_start += 1 } *)
Fixpoint scan_while (test : N -> outcome N) (i hint_start hint_end : N) (fuel : nat) : outcome N :=
  match fuel with
  | O => Fault OutOfFuel
  | S f => if hint_start <? hint_end then
             let! v := test hint_start in
             if i <? v then Val hint_start else scan_while test i (hint_start + 1) hint_end f
           else Val hint_start
  end.
(* for j in 0..8 { if test(position + j) > i { position += j - 1; break } if j == 7 { position += j } } *)
Fixpoint scan_for (test : N -> outcome N) (i position j : N) (fuel : nat) : outcome N :=
  match fuel with
  | O => Val position
  | S f =>
      let! v := test (position + j) in
      if i <? v then let! j1 := osub j 1 in Val (position + j1)
      else if j =? 7 then Val (position + j)
      else scan_for test i position (j + 1) f
  end.

Definition rsn_select_subblock (one : bool) (r : rsnarrow) (i : N) : outcome (N * N) :=
  let samples := if one then rsn_samples1 r else rsn_samples0 r in
  let hint := i / (if one then RSN_ONES_PER_HINT else RSN_ZEROS_PER_HINT) in
  let! hs := idx samples hint in
  let! he0 := idx samples (hint + 1) in
  let blk := fun b => if one then rsn_block_rank r b
                      else let! br := rsn_block_rank r b in osub (RSN_BLOCK_SIZE * 64 * b) br in
  let sub := fun s => if one then rsn_sub_block_rank r s
                      else let! sr := rsn_sub_block_rank r s in osub (64 * s) sr in
  let! hs' := scan_while blk i hs (1 + he0) (S (length (rsn_pairs r))) in
  let! p0 := osub hs' 1 in
  let position := p0 * RSN_BLOCK_SIZE in
  let! position := scan_for sub i position 0 8 in
  let! rank := sub position in
  Val (position, rank).

Definition rsn_select_unchecked (one : bool) (r : rsnarrow) (i : N) : outcome N :=
  let! (block, rank) := rsn_select_subblock one r i in
  let! _ := if N.shiftr block 3 * 8 <? len (bv_words (rsn_bv r)) then Val tt else Fault Panic in
  let! w := idx (bv_words (rsn_bv r)) block in
  let! d := osub i rank in
  let! s := select_in_word (if one then w else notw w) d in
  Val (block * 64 + s).

Definition rsn_select1 (r : rsnarrow) (i : N) : outcome (option N) :=
  let! o := rsn_n_ones r in
  if o <=? i then Val None else let! v := rsn_select_unchecked true r i in Val (Some v).
Definition rsn_select0 (r : rsnarrow) (i : N) : outcome (option N) :=
  let! z := rsn_n_zeros r in
  if z <=? i then Val None else let! v := rsn_select_unchecked false r i in Val (Some v).
Definition rsn_get (r : rsnarrow) (i : N) : outcome (option bool) := bv_get (rsn_bv r) i.

(* ------------------------------------------------------------------------- RSWide *)
Record rswide := mk_rsw {
  rsw_bv : bitvec;
  rsw_meta : list N;             (* superblock_metadata: Box<[u128]> *)
  rsw_samples0 : list N;
  rsw_samples1 : list N;
  rsw_n_zeros : N
}.

Record rsw_state := mk_rsws {
  ws_meta : list N;  (* reversed *)
  ws_total : N; ws_cur : N; ws_pop : N; ws_zeros : N;
  ws_s0 : list N; ws_s1 : list N; ws_hint0 : N; ws_hint1 : N
}.

Definition rsw_line (st : rsw_state) (b : N) (l : list N) : rsw_state :=
  let '(total, pop, cur) :=
     if b mod 8 =? 0 then (ws_total st + ws_pop st, 0, ws_total st + ws_pop st)
     else (ws_total st, ws_pop st, N.lor (N.shiftl (ws_cur st) RSW_BLK_BITS mod M128) (ws_pop st)) in
  let ones := line_n_ones l in
  let pop := pop + ones in
  let '(s1, h1) := if ws_hint1 st <? (total + pop) / RSW_ONES_PER_HINT then (b / 8 :: ws_s1 st, ws_hint1 st + 1)
                   else (ws_s1 st, ws_hint1 st) in
  let zeros := ws_zeros st + (512 - ones) in
  let '(s0, h0) := if ws_hint0 st <? zeros / RSW_ZEROS_PER_HINT then (b / 8 :: ws_s0 st, ws_hint0 st + 1)
                   else (ws_s0 st, ws_hint0 st) in
  let meta := if (b + 1) mod 8 =? 0 then cur :: ws_meta st else ws_meta st in
  mk_rsws meta total cur pop zeros s0 s1 h0 h1.

Fixpoint rsw_loop (st : rsw_state) (b : N) (ws : list N) (fuel : nat) : rsw_state :=
  match fuel with
  | O => st
  | S f => match ws with
           | [] => st
           | _ => rsw_loop (rsw_line st b (firstn 8 ws)) (b + 1) (skipn 8 ws) f
           end
  end.

Definition rsw_new (bv : bitvec) : outcome rswide :=
  let nlines := len (bv_words bv) / 8 in
  let st := rsw_loop (mk_rsws [] 0 0 0 0 [0] [0] 0 0) 0 (bv_words bv) (N.to_nat nlines) in
  let total := ws_total st + ws_pop st in
  let left := nlines mod 8 in
  let meta := if left =? 0 then ws_meta st
              else iterN (fun c => N.lor (N.shiftl c RSW_BLK_BITS_TAIL mod M128) (ws_pop st)) (N.to_nat (8 - left)) (ws_cur st) :: ws_meta st in
  let meta := (N.shiftl total RSW_SB_SHIFT mod M128) :: meta in
  let! last := osub (len meta) 1 in
  let! nz := osub (bv_len bv) total in
  Val {| rsw_bv := bv; rsw_meta := rev meta; rsw_samples0 := rev (last :: ws_s0 st);
         rsw_samples1 := rev (last :: ws_s1 st); rsw_n_zeros := nz |}.

Definition rsw_n_zeros_q (r : rswide) : N := rsw_n_zeros r.
Definition rsw_n_ones (r : rswide) : outcome N := osub (bv_len (rsw_bv r)) (rsw_n_zeros r).
Definition rsw_superblock_rank (r : rswide) (block : N) : outcome N :=
  let! m := idx (rsw_meta r) block in Val (N.shiftr m RSW_SB_SHIFT_RD).
Definition rsw_sub_block_rank (r : rswide) (sub_block : N) : outcome N :=
  let superblock := sub_block / 8 in
  let! sr := rsw_superblock_rank r superblock in
  let left := sub_block mod 8 in
  if left =? 0 then Val sr
  else
    let! m := idx (rsw_meta r) superblock in
    Val (sr + N.land (N.shiftr m ((7 - left) * RSW_BLK_BITS_RD)) RSW_BLK_MASK).

Definition rsw_rank1_unchecked (r : rswide) (i : N) : outcome N :=
  if i =? 0 then Val 0
  else
    let i := i - 1 in
    let sub_block := N.shiftr i 9 in
    let! result := rsw_sub_block_rank r sub_block in
    let sub_left := N.land i 511 + 1 in
    let! _ := if sub_block * 8 <? len (bv_words (rsw_bv r)) then Val tt else Fault Panic in
    let! k := ounwrap (bline_rank1 (line_of (bv_words (rsw_bv r)) sub_block) sub_left) in
    Val (result + k).
Definition rsw_rank1 (r : rswide) (i : N) : outcome (option N) :=
  if bv_is_empty (rsw_bv r) || (bv_len (rsw_bv r) <? i) then Val None
  else let! v := rsw_rank1_unchecked r i in Val (Some v).
Definition rsw_rank0 (r : rswide) (i : N) : outcome (option N) :=
  let! k := rsw_rank1 r i in
  match k with Some k => let! z := osub i k in Val (Some z) | None => Val None end.
Definition rsw_rank0_unchecked (r : rswide) (i : N) : outcome N :=
  let! k := rsw_rank1_unchecked r i in osub i k.

Definition rsw_select_subblock (one : bool) (r : rswide) (i : N) : outcome (N * N) :=
  let samples := if one then rsw_samples1 r else rsw_samples0 r in
  let hint := i / (if one then RSW_ONES_PER_HINT else RSW_ZEROS_PER_HINT) in
  let! hs := idx samples hint in
  let! he0 := idx samples (hint + 1) in
  let blk := fun b => if one then rsw_superblock_rank r b
                      else let! br := rsw_superblock_rank r b in osub (RSW_SUPERBLOCK_WORDS * 64 * b) br in
  let sub := fun s => if one then rsw_sub_block_rank r s
                      else let! sr := rsw_sub_block_rank r s in osub (RSW_BLOCK_WORDS * 64 * s) sr in
  let! hs' := scan_while blk i hs (1 + he0) (S (length (rsw_meta r))) in
  let! p0 := osub hs' 1 in
  let position := p0 * (RSW_SUPERBLOCK_WORDS / RSW_BLOCK_WORDS) in
  let! position := scan_for sub i position 0 8 in
  let! rank := sub position in
  Val (position, rank).

Definition rsw_select_unchecked (one : bool) (r : rswide) (i : N) : outcome N :=
  let! (block, rank) := rsw_select_subblock one r i in
  let! _ := if block * 8 <? len (bv_words (rsw_bv r)) then Val tt else Fault Panic in
  let! d := osub i rank in
  let! off := bline_select_loop (negb one) (line_of (bv_words (rsw_bv r)) block) d 0 0 in
  Val (block * 512 + off).

Definition rsw_select1 (r : rswide) (i : N) : outcome (option N) :=
  let! o := rsw_n_ones r in
  if o <=? i then Val None else let! v := rsw_select_unchecked true r i in Val (Some v).
Definition rsw_select0 (r : rswide) (i : N) : outcome (option N) :=
  if rsw_n_zeros r <=? i then Val None else let! v := rsw_select_unchecked false r i in Val (Some v).
Definition rsw_get (r : rswide) (i : N) : outcome (option bool) := bv_get (rsw_bv r) i.
Definition rsw_get_unchecked (r : rswide) (i : N) : outcome bool := bv_get_unchecked (rsw_bv r) i.
