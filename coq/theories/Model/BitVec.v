(* Model of src/bitvector/mod.rs: BitVector / BitVectorMut at the word view.  The data is the
   u64 slice the code itself works on (cast_to_u64_slice): 8 words per 512-bit DataLine.
   Definitions only. *)
From QwtModel Require Export Words.

Record bitvec := mk_bv {
  bv_words : list N;      (* len = 8 * number of DataLines *)
  bv_nbits : N;
  bv_nones : N
}.

Definition bv_empty : bitvec := {| bv_words := []; bv_nbits := 0; bv_nones := 0 |}.   (* default / new *)

(* DataLine::set_symbol(symbol, i) on line [line] of the word slice *)
Definition bvl_set_symbol (ws : list N) (line symbol i : N) : outcome (list N) :=
  let! _ := oassert (i <? BV_LINE_BITS) in
  let widx := line * 8 + N.shiftr i 6 in
  let! w := idx ws widx in
  let mask := N.shiftl 1 (i mod 64) in
  let w1 := N.lxor w (N.land w mask) in
  let w2 := N.lxor w1 (N.shiftl (N.land symbol 1) (i mod 64)) in
  Val (setN ws widx w2).

(* get_bit_slice(data, index) *)
Definition bv_get_bit_slice (ws : list N) (index : N) : outcome bool :=
  let word := N.shiftr index 6 in
  let pos_in_word := N.land index 63 in
  let! w := idx ws word in
  Val (N.land (N.shiftr w pos_in_word) 1 =? 1).

(* get_bits_slice(data, index, len) *)
Definition bv_get_bits_slice (ws : list N) (index len : N) : outcome N :=
  let block := N.shiftr index 6 in
  let shift := N.land index 63 in
  let! mask := if len =? 64 then Val (M64 - 1)
               else let! s := oshl 64 1 len in osub s 1 in
  if shift + len <=? 64 then
    let! w := idx ws block in
    Val (N.land (N.shiftr w shift) mask)
  else
    let! w := idx ws block in
    let! w' := idx ws (block + 1) in
    let! sh := osub 64 shift in
    let! hi := oshl 64 w' sh in
    Val (N.lor (N.shiftr w shift) (N.land hi mask)).

Definition bv_len (b : bitvec) : N := bv_nbits b.
Definition bv_is_empty (b : bitvec) : bool := bv_nbits b =? 0.
Definition bv_count_ones (b : bitvec) : N := bv_nones b.
Definition bv_count_zeros (b : bitvec) : outcome N := osub (bv_nbits b) (bv_nones b).

Definition bv_get_unchecked (b : bitvec) (i : N) : outcome bool := bv_get_bit_slice (bv_words b) i.
Definition bv_get (b : bitvec) (i : N) : outcome (option bool) :=
  if bv_nbits b <=? i then Val None else let! v := bv_get_unchecked b i in Val (Some v).

(* get_bits: [strict] = true for BitVectorMut (index + len >= n_bits), false for BitVector (>) *)
Definition bv_get_bits (strict : bool) (b : bitvec) (index len : N) : outcome (option N) :=
  let past := if index + len <? 2 ^ 64
              then (if strict then bv_nbits b <=? index + len else bv_nbits b <? index + len)
              else true in                               (* checked_add overflow: None *)
  if (len =? 0) || (64 <? len) || past then Val None
  else let! v := bv_get_bits_slice (bv_words b) index len in Val (Some v).
Definition bv_get_bits_unchecked (b : bitvec) (index len : N) : outcome N :=
  bv_get_bits_slice (bv_words b) index len.

(* get_word(i) = self.data[i >> 3].words[i % 8] *)
Definition bv_get_word (b : bitvec) (i : N) : outcome N := idx (bv_words b) i.

(* ------------------------------------------------------------------ BitVectorMut *)
Definition bvm_push (b : bitvec) (bit : bool) : outcome bitvec :=
  let pos_in_line := bv_nbits b mod BV_PUSH_MOD in
  let ws := if pos_in_line =? 0 then bv_words b ++ repeat 0 8 else bv_words b in
  let! ws' :=
     if bit then
       (if len ws =? 0 then Val ws        (* `if let Some(last) = self.data.last_mut()` *)
        else bvl_set_symbol ws (len ws / 8 - 1) 1 pos_in_line)
     else Val ws in
  let! nb := oadd 64 (bv_nbits b) 1 in
  Val {| bv_words := ws'; bv_nbits := nb; bv_nones := if bit then bv_nones b + 1 else bv_nones b |}.

Fixpoint bvm_append_loop (b : bitvec) (bits : N) (i : N) (fuel : nat) : outcome bitvec :=
  match fuel with
  | O => Val b
  | S f => let! b' := bvm_push b (N.land (N.shiftr bits i) 1 =? 1) in bvm_append_loop b' bits (i + 1) f
  end.
Definition bvm_append_bits (b : bitvec) (bits len : N) : outcome bitvec :=
  let! _ := oassert ((len =? 64) || ((if len <? 64 then N.shiftr bits len else 1) =? 0)) in
  let! _ := oassert (len <=? 64) in
  if len =? 0 then Val b else bvm_append_loop b bits 0 (N.to_nat len).

Definition resize_words (ws : list N) (n : N) : list N :=
  if n <=? len ws then firstnN n ws else ws ++ repeat 0 (N.to_nat (n - len ws)).

Definition bvm_extend_with_zeros (b : bitvec) (n : N) : outcome bitvec :=
  let! nb := oadd 64 (bv_nbits b) n in
  let! t := oadd 64 nb BV_EXT_ROUND in
  let new_size := t / BV_EXT_DIV in
  Val {| bv_words := resize_words (bv_words b) (new_size * 8); bv_nbits := nb; bv_nones := bv_nones b |}.

Definition bvm_set (b : bitvec) (index : N) (bit : bool) : outcome bitvec :=
  let! _ := oassert (index <? bv_nbits b) in
  let! cur := bv_get_unchecked b index in
  let! ones := if bit && negb cur then Val (bv_nones b + 1)
               else if negb bit && cur then osub (bv_nones b) 1 else Val (bv_nones b) in
  let dl := N.shiftr index BV_SET_SHIFT in
  let pos_in_dl := N.land index BV_SET_MASK in
  let! _ := if dl * 8 <? len (bv_words b) then Val tt else Fault Panic in       (* self.data[dl] *)
  let! ws := bvl_set_symbol (bv_words b) dl (if bit then 1 else 0) pos_in_dl in
  Val {| bv_words := ws; bv_nbits := bv_nbits b; bv_nones := ones |}.

Fixpoint bvm_set_bits_loop (ws : list N) (index bits : N) (i : N) (fuel : nat) : outcome (list N) :=
  match fuel with
  | O => Val ws
  | S f =>
      let dl := N.shiftr (index + i) BV_SETBITS_SHIFT in
      let! _ := if dl * 8 <? len ws then Val tt else Fault Panic in
      let! ws' := bvl_set_symbol ws dl (N.land (N.shiftr bits i) 1) ((index + i) mod BV_SETBITS_MOD) in
      bvm_set_bits_loop ws' index bits (i + 1) f
  end.
Definition bvm_set_bits (b : bitvec) (index len bits : N) : outcome bitvec :=
  let! e := oadd 64 index len in
  let! _ := oassert (e <=? bv_nbits b) in
  let! _ := oassert ((len =? 64) || ((if len <? 64 then N.shiftr bits len else 1) =? 0)) in
  let! _ := oassert (len <=? 64) in
  if len =? 0 then Val b
  else
    let! old := bv_get_bits_slice (bv_words b) index len in
    let! o1 := osub (bv_nones b) (popcount old) in
    let ones := o1 + popcount bits in
    let! ws := bvm_set_bits_loop (bv_words b) index bits 0 (N.to_nat len) in
    Val {| bv_words := ws; bv_nbits := bv_nbits b; bv_nones := ones |}.

Fixpoint bvm_extend_bools (b : bitvec) (bs : list bool) : outcome bitvec :=
  match bs with [] => Val b | x :: r => let! b' := bvm_push b x in bvm_extend_bools b' r end.

Fixpoint bvm_extend_positions (b : bitvec) (ps : list N) : outcome bitvec :=
  match ps with
  | [] => Val b
  | p :: r =>
      let! b1 := if bv_nbits b <=? p
                 then (let! p1 := oadd 64 p 1 in let! d := osub p1 (bv_nbits b) in bvm_extend_with_zeros b d)
                 else Val b in
      let! b2 := bvm_set b1 p true in
      bvm_extend_positions b2 r
  end.

(* FromIterator<bool> / FromIterator<positions>, for both kinds (conversions keep all fields) *)
Definition bv_from_bools (bs : list bool) : outcome bitvec := bvm_extend_bools bv_empty bs.
Definition bv_from_positions (ps : list N) : outcome bitvec := bvm_extend_positions bv_empty ps.
Definition bvm_with_zeros (n : N) : outcome bitvec := bvm_extend_with_zeros bv_empty n.

(* --------------------------------------------------------------------- iterators *)
(* BitVectorIter: state i *)
Definition bvit_next (b : bitvec) (i : N) : outcome (option bool * N) :=
  if i <? bv_nbits b then
    let! v := bv_get_bit_slice (bv_words b) i in Val (Some v, i + 1)
  else Val (None, i).
Definition bvit_len (b : bitvec) (i : N) : outcome N := osub (bv_nbits b) i.
(* BitVectorIntoIter *)
Definition bvinto_next (b : bitvec) (i : N) : outcome (option bool * N) :=
  let! v := bv_get b i in
  match v with Some _ => Val (v, i + 1) | None => Val (None, i) end.

(* BitVectorBitPositionsIter<BIT> *)
Record positer := mk_pi { pi_cur_position : N; pi_cur_word_pos : N; pi_cur_word : N }.
Definition pi_new : positer := mk_pi 0 0 0.
Definition word_for (bit : bool) (w : N) : N := if bit then w else N.lxor w (M64 - 1).   (* !w *)
Definition pi_with_pos (bit : bool) (b : bitvec) (pos : N) : positer :=
  let cwp := N.shiftr pos 6 in
  let cw := match nthN (bv_words b) cwp with Some w => word_for bit w | None => 0 end in
  mk_pi pos (cwp + 1) (N.shiftr cw (pos mod 64)).

(* trailing_zeros of a non-zero word *)
Fixpoint ctz_pos (p : positive) : N := match p with xO q => 1 + ctz_pos q | _ => 0 end.
Definition ctz (x : N) : N := match x with N0 => 64 | Npos p => ctz_pos p end.

Fixpoint pi_refill (bit : bool) (ws : list N) (st : positer) (fuel : nat) : option positer :=
  (* while cur_word == 0 { load next word or return None } *)
  if pi_cur_word st =? 0 then
    match fuel with
    | O => None
    | S f =>
        match nthN ws (pi_cur_word_pos st) with
        | Some w => pi_refill bit ws (mk_pi (N.shiftl (pi_cur_word_pos st) 6) (pi_cur_word_pos st + 1) (word_for bit w)) f
        | None => None
        end
    end
  else Some st.

Definition pi_next (bit : bool) (b : bitvec) (st : positer) : option N * positer :=
  if bv_nbits b <=? pi_cur_position st then (None, st)
  else
    match pi_refill bit (bv_words b) st (S (length (bv_words b))) with
    | None => (None, mk_pi (pi_cur_position st) (N.max (pi_cur_word_pos st) (len (bv_words b))) 0)
    | Some st1 =>
        let l := ctz (pi_cur_word st1) in
        let pos := pi_cur_position st1 + l in
        let cw := if 63 <=? l then 0 else N.shiftr (pi_cur_word st1) (l + 1) in
        let st2 := mk_pi (pos + 1) (pi_cur_word_pos st1) cw in
        if bv_nbits b <=? pos then (None, st2) else (Some pos, st2)
    end.

Fixpoint pi_collect (bit : bool) (b : bitvec) (st : positer) (fuel : nat) : list N :=
  match fuel with
  | O => []
  | S f => match pi_next bit b st with
           | (Some p, st') => p :: pi_collect bit b st' f
           | (None, _) => []
           end
  end.

(* the abstraction: the bits *)
Definition bv_abs (b : bitvec) : list bool :=
  map (fun x => x =? 1) (firstnN (bv_nbits b) (concat (map (bits_of 64) (bv_words b)))).
