(* Extraction of the executable model to OCaml.  ExtrOcamlBasic only: bool, option, list,
   prod, unit, sumbool map to OCaml's; N / positive / nat / Z stay inductive. *)
From Coq Require Import Extraction ExtrOcamlBasic ZArith.
From QwtModel Require Import Outcome ListX Seq QVec RSQ QWT Words.
Extraction Language OCaml.
Extraction "model.ml"
  N.add N.mul N.sub N.div N.modulo N.eqb N.ltb N.leb N.of_nat N.to_nat N.div_eucl N.pow
  Z.of_N Z.opp Z.to_N
  rank_spec select_spec get_spec
  qv_from_iter qv_get qv_len qv_is_empty qvit_next qvb_push qvb_new qvb_extend qv_get_unchecked
  rsq_new rsq_from_qv rsq_default rsq_len rsq_is_empty rsq_get rsq_get_unchecked rsq_rank rsq_rank_unchecked
  rsq_select rsq_select_unchecked rsq_occs rsq_occs_unchecked rsq_occs_smaller_q rsq_occs_smaller_unchecked
  qwt_new qwt_default qwt_len qwt_is_empty qwt_sigma qwt_rank qwt_rank_unchecked qwt_get qwt_get_unchecked
  qwt_select qwt_select_unchecked qwt_rank_prefetch qwt_rank_prefetch_unchecked
  select_in_word select_in_word_u128 popcnt_wide msb_w stable_partition_of_4
  qline_set_symbol qline_get_unchecked qline_rank_unchecked pack_qline.
