(* Extraction of the executable model to OCaml.  ExtrOcamlBasic only: bool, option, list,
   prod, unit, sumbool map to OCaml's; N / positive / nat / Z stay inductive. *)
From Coq Require Import Extraction ExtrOcamlBasic ZArith.
From QwtModel Require Import Outcome ListX Seq QVec RSQ QWT Words BitVec RSBin DArrayM Huff Serde Iter Prefetch Space Schema Remap State.
Extraction Language OCaml.
Extraction "model.ml"
  N.add N.mul N.sub N.div N.modulo N.eqb N.ltb N.leb N.of_nat N.to_nat N.div_eucl N.pow
  Z.of_N Z.opp Z.to_N
  rank_spec select_spec get_spec
  qv_from_iter qv_get qv_len qv_is_empty qvit_next qvb_push qvb_new qvb_extend qv_get_unchecked
  rsq_new rsq_from_qv rsq_default rsq_len rsq_is_empty rsq_get rsq_get_unchecked rsq_rank rsq_rank_unchecked
  rsq_select rsq_select_unchecked rsq_occs rsq_occs_unchecked rsq_occs_smaller_q rsq_occs_smaller_unchecked
  qwt_new qwt_default qwt_len qwt_is_empty qwt_sigma qwt_rank qwt_rank_unchecked qwt_get qwt_get_unchecked
  qwt_select qwt_select_unchecked qwt_rank_prefetch qwt_rank_prefetch_unchecked
  select_in_word select_in_word_u128 popcnt_wide msb_w stable_partition_of_4
  qline_set_symbol qline_get_unchecked qline_rank_unchecked pack_qline
  bv_empty bv_len bv_is_empty bv_count_ones bv_count_zeros bv_get bv_get_unchecked bv_get_bits bv_get_bits_unchecked bv_get_word
  bvm_push bvm_append_bits bvm_extend_with_zeros bvm_set bvm_set_bits bvm_extend_bools bvm_extend_positions
  bv_from_bools bv_from_positions bvm_with_zeros bvit_next bvit_len bvinto_next pi_new pi_with_pos pi_next pi_collect bv_abs
  rsn_new rsn_rank1 rsn_rank0 rsn_rank1_unchecked rsn_n_ones rsn_n_zeros rsn_select1 rsn_select0 rsn_select_unchecked rsn_get
  rsw_new rsw_rank1 rsw_rank0 rsw_rank1_unchecked rsw_rank0_unchecked rsw_n_ones rsw_n_zeros_q rsw_select1 rsw_select0 rsw_select_unchecked rsw_get
  craft4 craft2 hq_build hq_new hq_len hq_get hq_get_unchecked hq_rank hq_rank_unchecked hq_select hq_select_unchecked hq_rank_prefetch hq_rank_prefetch_unchecked
  wt_build hwt_new wt_get wt_get_unchecked wt_rank wt_rank_unchecked wt_select wt_select_unchecked rev_frags
  encode decode wt all_schemas stable_partition_of_2 text_remap
  hq_default rsn_default rsw_default qv_value rsq_value bv_value rsn_value rsw_value da_value qwt_value hq_value wt_value
  abi64 qv_heap rsq_heap bv_heap rsn_heap rsw_heap da_heap qwt_heap wt_heap_plain qv_space rsq_space bv_space rsn_space rsw_space da_space qwt_space hq_space wt_space
  wtit_new wtit_next wtit_next_back wtit_len
  qwt_pfs_new qwt_rank_prefetch_pfs hq_pfs_new hq_rank_prefetch_pfs
  da_new da_select1 da_select0 da_len da_count_ones da_count_zeros da_get da_from_positions da_from_bools.
