
(** val negb : bool -> bool **)

let negb = function
| true -> false
| false -> true

type nat =
| O
| S of nat

(** val option_map : ('a1 -> 'a2) -> 'a1 option -> 'a2 option **)

let option_map f = function
| Some a -> Some (f a)
| None -> None

(** val fst : ('a1 * 'a2) -> 'a1 **)

let fst = function
| (x, _) -> x

(** val snd : ('a1 * 'a2) -> 'a2 **)

let snd = function
| (_, y) -> y

(** val length : 'a1 list -> nat **)

let rec length = function
| [] -> O
| _ :: l' -> S (length l')

(** val app : 'a1 list -> 'a1 list -> 'a1 list **)

let rec app l m =
  match l with
  | [] -> m
  | a :: l1 -> a :: (app l1 m)

type comparison =
| Eq
| Lt
| Gt

(** val compOpp : comparison -> comparison **)

let compOpp = function
| Eq -> Eq
| Lt -> Gt
| Gt -> Lt

module Coq__1 = struct
 (** val add : nat -> nat -> nat **)
 let rec add n0 m =
   match n0 with
   | O -> m
   | S p -> S (add p m)
end
include Coq__1

(** val mul : nat -> nat -> nat **)

let rec mul n0 m =
  match n0 with
  | O -> O
  | S p -> add m (mul p m)

(** val eqb : nat -> nat -> bool **)

let rec eqb n0 m =
  match n0 with
  | O -> (match m with
          | O -> true
          | S _ -> false)
  | S n' -> (match m with
             | O -> false
             | S m' -> eqb n' m')

type positive =
| XI of positive
| XO of positive
| XH

type n =
| N0
| Npos of positive

type z =
| Z0
| Zpos of positive
| Zneg of positive

module Pos =
 struct
  type mask =
  | IsNul
  | IsPos of positive
  | IsNeg
 end

module Coq_Pos =
 struct
  (** val succ : positive -> positive **)

  let rec succ = function
  | XI p -> XO (succ p)
  | XO p -> XI p
  | XH -> XO XH

  (** val add : positive -> positive -> positive **)

  let rec add x y =
    match x with
    | XI p ->
      (match y with
       | XI q -> XO (add_carry p q)
       | XO q -> XI (add p q)
       | XH -> XO (succ p))
    | XO p ->
      (match y with
       | XI q -> XI (add p q)
       | XO q -> XO (add p q)
       | XH -> XI p)
    | XH -> (match y with
             | XI q -> XO (succ q)
             | XO q -> XI q
             | XH -> XO XH)

  (** val add_carry : positive -> positive -> positive **)

  and add_carry x y =
    match x with
    | XI p ->
      (match y with
       | XI q -> XI (add_carry p q)
       | XO q -> XO (add_carry p q)
       | XH -> XI (succ p))
    | XO p ->
      (match y with
       | XI q -> XO (add_carry p q)
       | XO q -> XI (add p q)
       | XH -> XO (succ p))
    | XH ->
      (match y with
       | XI q -> XI (succ q)
       | XO q -> XO (succ q)
       | XH -> XI XH)

  (** val pred_double : positive -> positive **)

  let rec pred_double = function
  | XI p -> XI (XO p)
  | XO p -> XI (pred_double p)
  | XH -> XH

  (** val pred_N : positive -> n **)

  let pred_N = function
  | XI p -> Npos (XO p)
  | XO p -> Npos (pred_double p)
  | XH -> N0

  type mask = Pos.mask =
  | IsNul
  | IsPos of positive
  | IsNeg

  (** val succ_double_mask : mask -> mask **)

  let succ_double_mask = function
  | IsNul -> IsPos XH
  | IsPos p -> IsPos (XI p)
  | IsNeg -> IsNeg

  (** val double_mask : mask -> mask **)

  let double_mask = function
  | IsPos p -> IsPos (XO p)
  | x0 -> x0

  (** val double_pred_mask : positive -> mask **)

  let double_pred_mask = function
  | XI p -> IsPos (XO (XO p))
  | XO p -> IsPos (XO (pred_double p))
  | XH -> IsNul

  (** val sub_mask : positive -> positive -> mask **)

  let rec sub_mask x y =
    match x with
    | XI p ->
      (match y with
       | XI q -> double_mask (sub_mask p q)
       | XO q -> succ_double_mask (sub_mask p q)
       | XH -> IsPos (XO p))
    | XO p ->
      (match y with
       | XI q -> succ_double_mask (sub_mask_carry p q)
       | XO q -> double_mask (sub_mask p q)
       | XH -> IsPos (pred_double p))
    | XH -> (match y with
             | XH -> IsNul
             | _ -> IsNeg)

  (** val sub_mask_carry : positive -> positive -> mask **)

  and sub_mask_carry x y =
    match x with
    | XI p ->
      (match y with
       | XI q -> succ_double_mask (sub_mask_carry p q)
       | XO q -> double_mask (sub_mask p q)
       | XH -> IsPos (pred_double p))
    | XO p ->
      (match y with
       | XI q -> double_mask (sub_mask_carry p q)
       | XO q -> succ_double_mask (sub_mask_carry p q)
       | XH -> double_pred_mask p)
    | XH -> IsNeg

  (** val mul : positive -> positive -> positive **)

  let rec mul x y =
    match x with
    | XI p -> add y (XO (mul p y))
    | XO p -> XO (mul p y)
    | XH -> y

  (** val iter : ('a1 -> 'a1) -> 'a1 -> positive -> 'a1 **)

  let rec iter f x = function
  | XI n' -> f (iter f (iter f x n') n')
  | XO n' -> iter f (iter f x n') n'
  | XH -> f x

  (** val pow : positive -> positive -> positive **)

  let pow x =
    iter (mul x) XH

  (** val size : positive -> positive **)

  let rec size = function
  | XI p0 -> succ (size p0)
  | XO p0 -> succ (size p0)
  | XH -> XH

  (** val compare_cont : comparison -> positive -> positive -> comparison **)

  let rec compare_cont r x y =
    match x with
    | XI p ->
      (match y with
       | XI q -> compare_cont r p q
       | XO q -> compare_cont Gt p q
       | XH -> Gt)
    | XO p ->
      (match y with
       | XI q -> compare_cont Lt p q
       | XO q -> compare_cont r p q
       | XH -> Gt)
    | XH -> (match y with
             | XH -> r
             | _ -> Lt)

  (** val compare : positive -> positive -> comparison **)

  let compare =
    compare_cont Eq

  (** val eqb : positive -> positive -> bool **)

  let rec eqb p q =
    match p with
    | XI p0 -> (match q with
                | XI q0 -> eqb p0 q0
                | _ -> false)
    | XO p0 -> (match q with
                | XO q0 -> eqb p0 q0
                | _ -> false)
    | XH -> (match q with
             | XH -> true
             | _ -> false)

  (** val leb : positive -> positive -> bool **)

  let leb x y =
    match compare x y with
    | Gt -> false
    | _ -> true

  (** val sqrtrem_step :
      (positive -> positive) -> (positive -> positive) -> (positive * mask)
      -> positive * mask **)

  let sqrtrem_step f g = function
  | (s, y) ->
    (match y with
     | IsPos r ->
       let s' = XI (XO s) in
       let r' = g (f r) in
       if leb s' r' then ((XI s), (sub_mask r' s')) else ((XO s), (IsPos r'))
     | _ -> ((XO s), (sub_mask (g (f XH)) (XO (XO XH)))))

  (** val sqrtrem : positive -> positive * mask **)

  let rec sqrtrem = function
  | XI p0 ->
    (match p0 with
     | XI p1 -> sqrtrem_step (fun x -> XI x) (fun x -> XI x) (sqrtrem p1)
     | XO p1 -> sqrtrem_step (fun x -> XO x) (fun x -> XI x) (sqrtrem p1)
     | XH -> (XH, (IsPos (XO XH))))
  | XO p0 ->
    (match p0 with
     | XI p1 -> sqrtrem_step (fun x -> XI x) (fun x -> XO x) (sqrtrem p1)
     | XO p1 -> sqrtrem_step (fun x -> XO x) (fun x -> XO x) (sqrtrem p1)
     | XH -> (XH, (IsPos XH)))
  | XH -> (XH, IsNul)

  (** val sqrt : positive -> positive **)

  let sqrt p =
    fst (sqrtrem p)

  (** val coq_Nsucc_double : n -> n **)

  let coq_Nsucc_double = function
  | N0 -> Npos XH
  | Npos p -> Npos (XI p)

  (** val coq_Ndouble : n -> n **)

  let coq_Ndouble = function
  | N0 -> N0
  | Npos p -> Npos (XO p)

  (** val coq_lor : positive -> positive -> positive **)

  let rec coq_lor p q =
    match p with
    | XI p0 ->
      (match q with
       | XI q0 -> XI (coq_lor p0 q0)
       | XO q0 -> XI (coq_lor p0 q0)
       | XH -> p)
    | XO p0 ->
      (match q with
       | XI q0 -> XI (coq_lor p0 q0)
       | XO q0 -> XO (coq_lor p0 q0)
       | XH -> XI p0)
    | XH -> (match q with
             | XO q0 -> XI q0
             | _ -> q)

  (** val coq_land : positive -> positive -> n **)

  let rec coq_land p q =
    match p with
    | XI p0 ->
      (match q with
       | XI q0 -> coq_Nsucc_double (coq_land p0 q0)
       | XO q0 -> coq_Ndouble (coq_land p0 q0)
       | XH -> Npos XH)
    | XO p0 ->
      (match q with
       | XI q0 -> coq_Ndouble (coq_land p0 q0)
       | XO q0 -> coq_Ndouble (coq_land p0 q0)
       | XH -> N0)
    | XH -> (match q with
             | XO _ -> N0
             | _ -> Npos XH)

  (** val coq_lxor : positive -> positive -> n **)

  let rec coq_lxor p q =
    match p with
    | XI p0 ->
      (match q with
       | XI q0 -> coq_Ndouble (coq_lxor p0 q0)
       | XO q0 -> coq_Nsucc_double (coq_lxor p0 q0)
       | XH -> Npos (XO p0))
    | XO p0 ->
      (match q with
       | XI q0 -> coq_Nsucc_double (coq_lxor p0 q0)
       | XO q0 -> coq_Ndouble (coq_lxor p0 q0)
       | XH -> Npos (XI p0))
    | XH ->
      (match q with
       | XI q0 -> Npos (XO q0)
       | XO q0 -> Npos (XI q0)
       | XH -> N0)

  (** val shiftl : positive -> n -> positive **)

  let shiftl p = function
  | N0 -> p
  | Npos n1 -> iter (fun x -> XO x) p n1

  (** val testbit : positive -> n -> bool **)

  let rec testbit p n0 =
    match p with
    | XI p0 -> (match n0 with
                | N0 -> true
                | Npos n1 -> testbit p0 (pred_N n1))
    | XO p0 -> (match n0 with
                | N0 -> false
                | Npos n1 -> testbit p0 (pred_N n1))
    | XH -> (match n0 with
             | N0 -> true
             | Npos _ -> false)

  (** val iter_op : ('a1 -> 'a1 -> 'a1) -> positive -> 'a1 -> 'a1 **)

  let rec iter_op op p a =
    match p with
    | XI p0 -> op a (iter_op op p0 (op a a))
    | XO p0 -> iter_op op p0 (op a a)
    | XH -> a

  (** val to_nat : positive -> nat **)

  let to_nat x =
    iter_op Coq__1.add x (S O)

  (** val of_succ_nat : nat -> positive **)

  let rec of_succ_nat = function
  | O -> XH
  | S x -> succ (of_succ_nat x)
 end

module N =
 struct
  (** val succ_double : n -> n **)

  let succ_double = function
  | N0 -> Npos XH
  | Npos p -> Npos (XI p)

  (** val double : n -> n **)

  let double = function
  | N0 -> N0
  | Npos p -> Npos (XO p)

  (** val pred : n -> n **)

  let pred = function
  | N0 -> N0
  | Npos p -> Coq_Pos.pred_N p

  (** val add : n -> n -> n **)

  let add n0 m =
    match n0 with
    | N0 -> m
    | Npos p -> (match m with
                 | N0 -> n0
                 | Npos q -> Npos (Coq_Pos.add p q))

  (** val sub : n -> n -> n **)

  let sub n0 m =
    match n0 with
    | N0 -> N0
    | Npos n' ->
      (match m with
       | N0 -> n0
       | Npos m' ->
         (match Coq_Pos.sub_mask n' m' with
          | Coq_Pos.IsPos p -> Npos p
          | _ -> N0))

  (** val mul : n -> n -> n **)

  let mul n0 m =
    match n0 with
    | N0 -> N0
    | Npos p -> (match m with
                 | N0 -> N0
                 | Npos q -> Npos (Coq_Pos.mul p q))

  (** val compare : n -> n -> comparison **)

  let compare n0 m =
    match n0 with
    | N0 -> (match m with
             | N0 -> Eq
             | Npos _ -> Lt)
    | Npos n' -> (match m with
                  | N0 -> Gt
                  | Npos m' -> Coq_Pos.compare n' m')

  (** val eqb : n -> n -> bool **)

  let eqb n0 m =
    match n0 with
    | N0 -> (match m with
             | N0 -> true
             | Npos _ -> false)
    | Npos p -> (match m with
                 | N0 -> false
                 | Npos q -> Coq_Pos.eqb p q)

  (** val leb : n -> n -> bool **)

  let leb x y =
    match compare x y with
    | Gt -> false
    | _ -> true

  (** val ltb : n -> n -> bool **)

  let ltb x y =
    match compare x y with
    | Lt -> true
    | _ -> false

  (** val max : n -> n -> n **)

  let max n0 n' =
    match compare n0 n' with
    | Gt -> n0
    | _ -> n'

  (** val div2 : n -> n **)

  let div2 = function
  | N0 -> N0
  | Npos p0 -> (match p0 with
                | XI p -> Npos p
                | XO p -> Npos p
                | XH -> N0)

  (** val pow : n -> n -> n **)

  let pow n0 = function
  | N0 -> Npos XH
  | Npos p0 -> (match n0 with
                | N0 -> N0
                | Npos q -> Npos (Coq_Pos.pow q p0))

  (** val log2 : n -> n **)

  let log2 = function
  | N0 -> N0
  | Npos p0 ->
    (match p0 with
     | XI p -> Npos (Coq_Pos.size p)
     | XO p -> Npos (Coq_Pos.size p)
     | XH -> N0)

  (** val pos_div_eucl : positive -> n -> n * n **)

  let rec pos_div_eucl a b =
    match a with
    | XI a' ->
      let (q, r) = pos_div_eucl a' b in
      let r' = succ_double r in
      if leb b r' then ((succ_double q), (sub r' b)) else ((double q), r')
    | XO a' ->
      let (q, r) = pos_div_eucl a' b in
      let r' = double r in
      if leb b r' then ((succ_double q), (sub r' b)) else ((double q), r')
    | XH ->
      (match b with
       | N0 -> (N0, (Npos XH))
       | Npos p -> (match p with
                    | XH -> ((Npos XH), N0)
                    | _ -> (N0, (Npos XH))))

  (** val div_eucl : n -> n -> n * n **)

  let div_eucl a b =
    match a with
    | N0 -> (N0, N0)
    | Npos na -> (match b with
                  | N0 -> (N0, a)
                  | Npos _ -> pos_div_eucl na b)

  (** val div : n -> n -> n **)

  let div a b =
    fst (div_eucl a b)

  (** val modulo : n -> n -> n **)

  let modulo a b =
    snd (div_eucl a b)

  (** val sqrt : n -> n **)

  let sqrt = function
  | N0 -> N0
  | Npos p -> Npos (Coq_Pos.sqrt p)

  (** val coq_lor : n -> n -> n **)

  let coq_lor n0 m =
    match n0 with
    | N0 -> m
    | Npos p -> (match m with
                 | N0 -> n0
                 | Npos q -> Npos (Coq_Pos.coq_lor p q))

  (** val coq_land : n -> n -> n **)

  let coq_land n0 m =
    match n0 with
    | N0 -> N0
    | Npos p -> (match m with
                 | N0 -> N0
                 | Npos q -> Coq_Pos.coq_land p q)

  (** val coq_lxor : n -> n -> n **)

  let coq_lxor n0 m =
    match n0 with
    | N0 -> m
    | Npos p -> (match m with
                 | N0 -> n0
                 | Npos q -> Coq_Pos.coq_lxor p q)

  (** val shiftl : n -> n -> n **)

  let shiftl a n0 =
    match a with
    | N0 -> N0
    | Npos a0 -> Npos (Coq_Pos.shiftl a0 n0)

  (** val shiftr : n -> n -> n **)

  let shiftr a = function
  | N0 -> a
  | Npos p -> Coq_Pos.iter div2 a p

  (** val testbit : n -> n -> bool **)

  let testbit a n0 =
    match a with
    | N0 -> false
    | Npos p -> Coq_Pos.testbit p n0

  (** val to_nat : n -> nat **)

  let to_nat = function
  | N0 -> O
  | Npos p -> Coq_Pos.to_nat p

  (** val of_nat : nat -> n **)

  let of_nat = function
  | O -> N0
  | S n' -> Npos (Coq_Pos.of_succ_nat n')

  (** val b2n : bool -> n **)

  let b2n = function
  | true -> Npos XH
  | false -> N0
 end

module Z =
 struct
  (** val double : z -> z **)

  let double = function
  | Z0 -> Z0
  | Zpos p -> Zpos (XO p)
  | Zneg p -> Zneg (XO p)

  (** val succ_double : z -> z **)

  let succ_double = function
  | Z0 -> Zpos XH
  | Zpos p -> Zpos (XI p)
  | Zneg p -> Zneg (Coq_Pos.pred_double p)

  (** val pred_double : z -> z **)

  let pred_double = function
  | Z0 -> Zneg XH
  | Zpos p -> Zpos (Coq_Pos.pred_double p)
  | Zneg p -> Zneg (XI p)

  (** val pos_sub : positive -> positive -> z **)

  let rec pos_sub x y =
    match x with
    | XI p ->
      (match y with
       | XI q -> double (pos_sub p q)
       | XO q -> succ_double (pos_sub p q)
       | XH -> Zpos (XO p))
    | XO p ->
      (match y with
       | XI q -> pred_double (pos_sub p q)
       | XO q -> double (pos_sub p q)
       | XH -> Zpos (Coq_Pos.pred_double p))
    | XH ->
      (match y with
       | XI q -> Zneg (XO q)
       | XO q -> Zneg (Coq_Pos.pred_double q)
       | XH -> Z0)

  (** val add : z -> z -> z **)

  let add x y =
    match x with
    | Z0 -> y
    | Zpos x' ->
      (match y with
       | Z0 -> x
       | Zpos y' -> Zpos (Coq_Pos.add x' y')
       | Zneg y' -> pos_sub x' y')
    | Zneg x' ->
      (match y with
       | Z0 -> x
       | Zpos y' -> pos_sub y' x'
       | Zneg y' -> Zneg (Coq_Pos.add x' y'))

  (** val opp : z -> z **)

  let opp = function
  | Z0 -> Z0
  | Zpos x0 -> Zneg x0
  | Zneg x0 -> Zpos x0

  (** val sub : z -> z -> z **)

  let sub m n0 =
    add m (opp n0)

  (** val mul : z -> z -> z **)

  let mul x y =
    match x with
    | Z0 -> Z0
    | Zpos x' ->
      (match y with
       | Z0 -> Z0
       | Zpos y' -> Zpos (Coq_Pos.mul x' y')
       | Zneg y' -> Zneg (Coq_Pos.mul x' y'))
    | Zneg x' ->
      (match y with
       | Z0 -> Z0
       | Zpos y' -> Zneg (Coq_Pos.mul x' y')
       | Zneg y' -> Zpos (Coq_Pos.mul x' y'))

  (** val pow_pos : z -> positive -> z **)

  let pow_pos z0 =
    Coq_Pos.iter (mul z0) (Zpos XH)

  (** val pow : z -> z -> z **)

  let pow x = function
  | Z0 -> Zpos XH
  | Zpos p -> pow_pos x p
  | Zneg _ -> Z0

  (** val compare : z -> z -> comparison **)

  let compare x y =
    match x with
    | Z0 -> (match y with
             | Z0 -> Eq
             | Zpos _ -> Lt
             | Zneg _ -> Gt)
    | Zpos x' -> (match y with
                  | Zpos y' -> Coq_Pos.compare x' y'
                  | _ -> Gt)
    | Zneg x' ->
      (match y with
       | Zneg y' -> compOpp (Coq_Pos.compare x' y')
       | _ -> Lt)

  (** val leb : z -> z -> bool **)

  let leb x y =
    match compare x y with
    | Gt -> false
    | _ -> true

  (** val ltb : z -> z -> bool **)

  let ltb x y =
    match compare x y with
    | Lt -> true
    | _ -> false

  (** val to_N : z -> n **)

  let to_N = function
  | Zpos p -> Npos p
  | _ -> N0

  (** val of_N : n -> z **)

  let of_N = function
  | N0 -> Z0
  | Npos p -> Zpos p

  (** val pos_div_eucl : positive -> z -> z * z **)

  let rec pos_div_eucl a b =
    match a with
    | XI a' ->
      let (q, r) = pos_div_eucl a' b in
      let r' = add (mul (Zpos (XO XH)) r) (Zpos XH) in
      if ltb r' b
      then ((mul (Zpos (XO XH)) q), r')
      else ((add (mul (Zpos (XO XH)) q) (Zpos XH)), (sub r' b))
    | XO a' ->
      let (q, r) = pos_div_eucl a' b in
      let r' = mul (Zpos (XO XH)) r in
      if ltb r' b
      then ((mul (Zpos (XO XH)) q), r')
      else ((add (mul (Zpos (XO XH)) q) (Zpos XH)), (sub r' b))
    | XH -> if leb (Zpos (XO XH)) b then (Z0, (Zpos XH)) else ((Zpos XH), Z0)

  (** val div_eucl : z -> z -> z * z **)

  let div_eucl a b =
    match a with
    | Z0 -> (Z0, Z0)
    | Zpos a' ->
      (match b with
       | Z0 -> (Z0, a)
       | Zpos _ -> pos_div_eucl a' b
       | Zneg b' ->
         let (q, r) = pos_div_eucl a' (Zpos b') in
         (match r with
          | Z0 -> ((opp q), Z0)
          | _ -> ((opp (add q (Zpos XH))), (add b r))))
    | Zneg a' ->
      (match b with
       | Z0 -> (Z0, a)
       | Zpos _ ->
         let (q, r) = pos_div_eucl a' b in
         (match r with
          | Z0 -> ((opp q), Z0)
          | _ -> ((opp (add q (Zpos XH))), (sub b r)))
       | Zneg b' -> let (q, r) = pos_div_eucl a' (Zpos b') in (q, (opp r)))

  (** val modulo : z -> z -> z **)

  let modulo a b =
    let (_, r) = div_eucl a b in r
 end

(** val last : 'a1 list -> 'a1 -> 'a1 **)

let rec last l d =
  match l with
  | [] -> d
  | a :: l0 -> (match l0 with
                | [] -> a
                | _ :: _ -> last l0 d)

(** val rev : 'a1 list -> 'a1 list **)

let rec rev = function
| [] -> []
| x :: l' -> app (rev l') (x :: [])

(** val concat : 'a1 list list -> 'a1 list **)

let rec concat = function
| [] -> []
| x :: l0 -> app x (concat l0)

(** val map : ('a1 -> 'a2) -> 'a1 list -> 'a2 list **)

let rec map f = function
| [] -> []
| a :: t -> (f a) :: (map f t)

(** val flat_map : ('a1 -> 'a2 list) -> 'a1 list -> 'a2 list **)

let rec flat_map f = function
| [] -> []
| x :: t -> app (f x) (flat_map f t)

(** val fold_left : ('a1 -> 'a2 -> 'a1) -> 'a2 list -> 'a1 -> 'a1 **)

let rec fold_left f l a0 =
  match l with
  | [] -> a0
  | b :: t -> fold_left f t (f a0 b)

(** val forallb : ('a1 -> bool) -> 'a1 list -> bool **)

let rec forallb f = function
| [] -> true
| a :: l0 -> (&&) (f a) (forallb f l0)

(** val filter : ('a1 -> bool) -> 'a1 list -> 'a1 list **)

let rec filter f = function
| [] -> []
| x :: l0 -> if f x then x :: (filter f l0) else filter f l0

(** val find : ('a1 -> bool) -> 'a1 list -> 'a1 option **)

let rec find f = function
| [] -> None
| x :: tl -> if f x then Some x else find f tl

(** val combine : 'a1 list -> 'a2 list -> ('a1 * 'a2) list **)

let rec combine l l' =
  match l with
  | [] -> []
  | x :: tl ->
    (match l' with
     | [] -> []
     | y :: tl' -> (x, y) :: (combine tl tl'))

(** val firstn : nat -> 'a1 list -> 'a1 list **)

let rec firstn n0 l =
  match n0 with
  | O -> []
  | S n1 -> (match l with
             | [] -> []
             | a :: l0 -> a :: (firstn n1 l0))

(** val skipn : nat -> 'a1 list -> 'a1 list **)

let rec skipn n0 l =
  match n0 with
  | O -> l
  | S n1 -> (match l with
             | [] -> []
             | _ :: l0 -> skipn n1 l0)

(** val repeat : 'a1 -> nat -> 'a1 list **)

let rec repeat x = function
| O -> []
| S k -> x :: (repeat x k)

type fault =
| Panic
| Overflow
| UB
| DebugAssert
| OutOfFuel

type 'a outcome =
| Val of 'a
| Fault of fault

(** val bind : 'a1 outcome -> ('a1 -> 'a2 outcome) -> 'a2 outcome **)

let bind x f =
  match x with
  | Val a -> f a
  | Fault e -> Fault e

(** val osub : n -> n -> n outcome **)

let osub a b =
  if N.leb b a then Val (N.sub a b) else Fault Overflow

(** val oadd : n -> n -> n -> n outcome **)

let oadd w a b =
  if N.ltb (N.add a b) (N.pow (Npos (XO XH)) w)
  then Val (N.add a b)
  else Fault Overflow

(** val omul : n -> n -> n -> n outcome **)

let omul w a b =
  if N.ltb (N.mul a b) (N.pow (Npos (XO XH)) w)
  then Val (N.mul a b)
  else Fault Overflow

(** val oshr : n -> n -> n -> n outcome **)

let oshr w x s =
  if N.ltb s w then Val (N.shiftr x s) else Fault Overflow

(** val oshl : n -> n -> n -> n outcome **)

let oshl w x s =
  if N.ltb s w
  then Val (N.modulo (N.shiftl x s) (N.pow (Npos (XO XH)) w))
  else Fault Overflow

(** val oassert : bool -> unit outcome **)

let oassert = function
| true -> Val ()
| false -> Fault Panic

(** val odebug_assert : bool -> unit outcome **)

let odebug_assert = function
| true -> Val ()
| false -> Fault DebugAssert

(** val ounwrap : 'a1 option -> 'a1 outcome **)

let ounwrap = function
| Some a -> Val a
| None -> Fault Panic

(** val len : 'a1 list -> n **)

let len l =
  N.of_nat (length l)

(** val nthN : 'a1 list -> n -> 'a1 option **)

let rec nthN l i =
  match l with
  | [] -> None
  | x :: l' -> if N.eqb i N0 then Some x else nthN l' (N.pred i)

(** val firstnN : n -> 'a1 list -> 'a1 list **)

let rec firstnN i = function
| [] -> []
| x :: l' -> if N.eqb i N0 then [] else x :: (firstnN (N.pred i) l')

(** val skipnN : n -> 'a1 list -> 'a1 list **)

let rec skipnN i l = match l with
| [] -> []
| _ :: l' -> if N.eqb i N0 then l else skipnN (N.pred i) l'

(** val setN : 'a1 list -> n -> 'a1 -> 'a1 list **)

let rec setN l i v =
  match l with
  | [] -> []
  | x :: l' -> if N.eqb i N0 then v :: l' else x :: (setN l' (N.pred i) v)

(** val idx : 'a1 list -> n -> 'a1 outcome **)

let idx l i =
  match nthN l i with
  | Some a -> Val a
  | None -> Fault Panic

(** val uidx : 'a1 list -> n -> 'a1 outcome **)

let uidx l i =
  match nthN l i with
  | Some a -> Val a
  | None -> Fault UB

(** val countN : n -> n list -> n **)

let rec countN c = function
| [] -> N0
| x :: l' -> N.add (if N.eqb x c then Npos XH else N0) (countN c l')

(** val chunks_aux : nat -> 'a1 list -> nat -> 'a1 list list **)

let rec chunks_aux k l = function
| O -> []
| S f ->
  (match l with
   | [] -> []
   | _ :: _ -> (firstn k l) :: (chunks_aux k (skipn k l) f))

(** val chunks : nat -> 'a1 list -> 'a1 list list **)

let chunks k l =
  chunks_aux k l (length l)

(** val last_opt : 'a1 list -> 'a1 option **)

let rec last_opt = function
| [] -> None
| x :: l' -> (match l' with
              | [] -> Some x
              | _ :: _ -> last_opt l')

(** val set_last : 'a1 list -> 'a1 -> 'a1 list **)

let rec set_last l v =
  match l with
  | [] -> []
  | x :: l' -> (match l' with
                | [] -> v :: []
                | _ :: _ -> x :: (set_last l' v))

(** val maxN : n list -> n **)

let rec maxN = function
| [] -> N0
| x :: l' -> N.max x (maxN l')

(** val sumN : n list -> n **)

let rec sumN = function
| [] -> N0
| x :: l' -> N.add x (sumN l')

(** val seqN : n -> nat -> n list **)

let rec seqN start = function
| O -> []
| S n' -> start :: (seqN (N.add start (Npos XH)) n')

(** val rank_spec : n list -> n -> n -> n **)

let rec rank_spec s c i =
  match s with
  | [] -> N0
  | x :: s' ->
    if N.eqb i N0
    then N0
    else N.add (if N.eqb x c then Npos XH else N0) (rank_spec s' c (N.pred i))

(** val select_from : n list -> n -> n -> n -> n option **)

let rec select_from s c k pos =
  match s with
  | [] -> None
  | x :: s' ->
    if N.eqb x c
    then if N.eqb k N0
         then Some pos
         else select_from s' c (N.pred k) (N.add pos (Npos XH))
    else select_from s' c k (N.add pos (Npos XH))

(** val select_spec : n list -> n -> n -> n option **)

let select_spec s c k =
  select_from s c k N0

(** val get_spec : 'a1 list -> n -> 'a1 option **)

let get_spec =
  nthN

(** val lINE_SHIFT : n **)

let lINE_SHIFT =
  Npos (XO (XO (XO XH)))

(** val lINE_MASK : n **)

let lINE_MASK =
  Npos (XI (XI (XI (XI (XI (XI (XI XH)))))))

(** val pUSH_LINE_MASK : n **)

let pUSH_LINE_MASK =
  Npos (XI (XI (XI (XI (XI (XI (XI XH)))))))

(** val pUSH_POS_STEP : n **)

let pUSH_POS_STEP =
  Npos (XO XH)

(** val qV_SYM_MASK : n **)

let qV_SYM_MASK =
  Npos (XI XH)

(** val qV_WORD_SHIFT : n **)

let qV_WORD_SHIFT =
  Npos (XI (XI XH))

(** val qV_WORD_MASK : n **)

let qV_WORD_MASK =
  Npos (XI (XI (XI (XI (XI (XI XH))))))

(** val qV_LOW_PLANE : n **)

let qV_LOW_PLANE =
  Npos (XO XH)

(** val qVG_WORD_SHIFT : n **)

let qVG_WORD_SHIFT =
  Npos (XI (XI XH))

(** val qVG_WORD_MASK : n **)

let qVG_WORD_MASK =
  Npos (XI (XI (XI (XI (XI (XI XH))))))

(** val qVG_LOW_PLANE : n **)

let qVG_LOW_PLANE =
  Npos (XO XH)

(** val qVR_WORD_SHIFT : n **)

let qVR_WORD_SHIFT =
  Npos (XI (XI XH))

(** val qVR_WORD_MASK : n **)

let qVR_WORD_MASK =
  Npos (XI (XI (XI (XI (XI (XI XH))))))

(** val qV_LEN_SHIFT : n **)

let qV_LEN_SHIFT =
  Npos XH

(** val sB_SHIFT : n **)

let sB_SHIFT =
  Npos (XO (XO (XI (XO (XI (XO XH))))))

(** val sB_SHIFT_GR : n **)

let sB_SHIFT_GR =
  Npos (XO (XO (XI (XO (XI (XO XH))))))

(** val bLK_BITS_GR : n **)

let bLK_BITS_GR =
  Npos (XO (XO (XI XH)))

(** val bLK_MASK_GR : n **)

let bLK_MASK_GR =
  Npos (XI (XI (XI (XI (XI (XI (XI (XI (XI (XI (XI XH)))))))))))

(** val sB_SHIFT_GC : n **)

let sB_SHIFT_GC =
  Npos (XO (XO (XI (XO (XI (XO XH))))))

(** val bLK_LIMIT : n **)

let bLK_LIMIT =
  Npos (XO (XO (XO (XO (XO (XO (XO (XO (XO (XO (XO (XO XH))))))))))))

(** val sET_BLOCK_ID_LIMIT : n **)

let sET_BLOCK_ID_LIMIT =
  Npos (XO (XO (XO XH)))

(** val bLK_BITS : n **)

let bLK_BITS =
  Npos (XO (XO (XI XH)))

(** val bLK_MASK_BP : n **)

let bLK_MASK_BP =
  Npos (XI (XI (XI (XI (XI (XI (XI (XI (XI (XI (XI XH)))))))))))

(** val bLK_BITS_BP : n **)

let bLK_BITS_BP =
  Npos (XO (XO (XI XH)))

(** val bLOCKS_IN_SB : n **)

let bLOCKS_IN_SB =
  Npos (XO (XO (XO XH)))

(** val rS_BLOCKS_IN_SB : n **)

let rS_BLOCKS_IN_SB =
  Npos (XO (XO (XO XH)))

(** val sELECT_NUM_SAMPLES : n **)

let sELECT_NUM_SAMPLES =
  Npos (XO (XO (XO (XO (XO (XO (XO (XO (XO (XO (XO (XO (XO XH)))))))))))))

(** val mAX_LEN : n **)

let mAX_LEN =
  Npos (XO (XO (XO (XO (XO (XO (XO (XO (XO (XO (XO (XO (XO (XO (XO (XO (XO
    (XO (XO (XO (XO (XO (XO (XO (XO (XO (XO (XO (XO (XO (XO (XO (XO (XO (XO
    (XO (XO (XO (XO (XO (XO (XO (XO
    XH)))))))))))))))))))))))))))))))))))))))))))

(** val rANK_BLOCK_MASK : n **)

let rANK_BLOCK_MASK =
  Npos (XI (XI XH))

(** val k_ONES_STEP4 : n **)

let k_ONES_STEP4 =
  Npos (XI (XO (XO (XO (XI (XO (XO (XO (XI (XO (XO (XO (XI (XO (XO (XO (XI
    (XO (XO (XO (XI (XO (XO (XO (XI (XO (XO (XO (XI (XO (XO (XO (XI (XO (XO
    (XO (XI (XO (XO (XO (XI (XO (XO (XO (XI (XO (XO (XO (XI (XO (XO (XO (XI
    (XO (XO (XO (XI (XO (XO (XO
    XH))))))))))))))))))))))))))))))))))))))))))))))))))))))))))))

(** val k_ONES_STEP8 : n **)

let k_ONES_STEP8 =
  Npos (XI (XO (XO (XO (XO (XO (XO (XO (XI (XO (XO (XO (XO (XO (XO (XO (XI
    (XO (XO (XO (XO (XO (XO (XO (XI (XO (XO (XO (XO (XO (XO (XO (XI (XO (XO
    (XO (XO (XO (XO (XO (XI (XO (XO (XO (XO (XO (XO (XO (XI (XO (XO (XO (XO
    (XO (XO (XO XH))))))))))))))))))))))))))))))))))))))))))))))))))))))))

(** val k_LAMBDAS_STEP8 : n **)

let k_LAMBDAS_STEP8 =
  Npos (XO (XO (XO (XO (XO (XO (XO (XI (XO (XO (XO (XO (XO (XO (XO (XI (XO
    (XO (XO (XO (XO (XO (XO (XI (XO (XO (XO (XO (XO (XO (XO (XI (XO (XO (XO
    (XO (XO (XO (XO (XI (XO (XO (XO (XO (XO (XO (XO (XI (XO (XO (XO (XO (XO
    (XO (XO (XI (XO (XO (XO (XO (XO (XO (XO
    XH)))))))))))))))))))))))))))))))))))))))))))))))))))))))))))))))

(** val sIW_M1 : n **)

let sIW_M1 =
  Npos (XO (XI (XO XH)))

(** val sIW_M2 : n **)

let sIW_M2 =
  Npos (XI XH)

(** val sIW_M3 : n **)

let sIW_M3 =
  Npos (XI (XI (XI XH)))

(** val sIW_PLACE_MUL : n **)

let sIW_PLACE_MUL =
  Npos (XO (XO (XO XH)))

(** val sIW_NOTFOUND : n **)

let sIW_NOTFOUND =
  Npos (XO (XO (XO (XO (XO (XO XH))))))

(** val sIW_BYTE_MASK : n **)

let sIW_BYTE_MASK =
  Npos (XI (XI (XI (XI (XI (XI (XI XH)))))))

(** val bV_LINE_BITS : n **)

let bV_LINE_BITS =
  Npos (XO (XO (XO (XO (XO (XO (XO (XO (XO XH)))))))))

(** val bV_PUSH_MOD : n **)

let bV_PUSH_MOD =
  Npos (XO (XO (XO (XO (XO (XO (XO (XO (XO XH)))))))))

(** val bV_EXT_ROUND : n **)

let bV_EXT_ROUND =
  Npos (XI (XI (XI (XI (XI (XI (XI (XI XH))))))))

(** val bV_EXT_DIV : n **)

let bV_EXT_DIV =
  Npos (XO (XO (XO (XO (XO (XO (XO (XO (XO XH)))))))))

(** val bV_SET_SHIFT : n **)

let bV_SET_SHIFT =
  Npos (XI (XO (XO XH)))

(** val bV_SET_MASK : n **)

let bV_SET_MASK =
  Npos (XI (XI (XI (XI (XI (XI (XI (XI XH))))))))

(** val bV_SETBITS_SHIFT : n **)

let bV_SETBITS_SHIFT =
  Npos (XI (XO (XO XH)))

(** val bV_SETBITS_MOD : n **)

let bV_SETBITS_MOD =
  Npos (XO (XO (XO (XO (XO (XO (XO (XO (XO XH)))))))))

(** val rSN_BLOCK_SIZE : n **)

let rSN_BLOCK_SIZE =
  Npos (XO (XO (XO XH)))

(** val rSN_ONES_PER_HINT : n **)

let rSN_ONES_PER_HINT =
  Npos (XO (XO (XO (XO (XO (XO (XO (XO (XO (XO XH))))))))))

(** val rSN_ZEROS_PER_HINT : n **)

let rSN_ZEROS_PER_HINT =
  Npos (XO (XO (XO (XO (XO (XO (XO (XO (XO (XO XH))))))))))

(** val rSN_SUB_BITS : n **)

let rSN_SUB_BITS =
  Npos (XI (XO (XO XH)))

(** val rSN_SUB_BITS_TAIL : n **)

let rSN_SUB_BITS_TAIL =
  Npos (XI (XO (XO XH)))

(** val rSN_SBR_BITS : n **)

let rSN_SBR_BITS =
  Npos (XI (XO (XO XH)))

(** val rSN_SBR_MASK : n **)

let rSN_SBR_MASK =
  Npos (XI (XI (XI (XI (XI (XI (XI (XI XH))))))))

(** val rSW_BLOCK_WORDS : n **)

let rSW_BLOCK_WORDS =
  Npos (XO (XO (XO XH)))

(** val rSW_SUPERBLOCK_WORDS : n **)

let rSW_SUPERBLOCK_WORDS =
  Npos (XO (XO (XO (XO (XO (XO XH))))))

(** val rSW_ONES_PER_HINT : n **)

let rSW_ONES_PER_HINT =
  Npos (XO (XO (XO (XO (XO (XO (XO (XO (XO (XO (XO (XO (XO XH)))))))))))))

(** val rSW_ZEROS_PER_HINT : n **)

let rSW_ZEROS_PER_HINT =
  Npos (XO (XO (XO (XO (XO (XO (XO (XO (XO (XO (XO (XO (XO XH)))))))))))))

(** val rSW_BLK_BITS : n **)

let rSW_BLK_BITS =
  Npos (XO (XO (XI XH)))

(** val rSW_BLK_BITS_TAIL : n **)

let rSW_BLK_BITS_TAIL =
  Npos (XO (XO (XI XH)))

(** val rSW_SB_SHIFT : n **)

let rSW_SB_SHIFT =
  Npos (XO (XO (XI (XO (XI (XO XH))))))

(** val rSW_SB_SHIFT_RD : n **)

let rSW_SB_SHIFT_RD =
  Npos (XO (XO (XI (XO (XI (XO XH))))))

(** val rSW_BLK_BITS_RD : n **)

let rSW_BLK_BITS_RD =
  Npos (XO (XO (XI XH)))

(** val rSW_BLK_MASK : n **)

let rSW_BLK_MASK =
  Npos (XI (XI (XI (XI (XI (XI (XI (XI (XI (XI (XI XH)))))))))))

(** val dA_BLOCK : n **)

let dA_BLOCK =
  Npos (XO (XO (XO (XO (XO (XO (XO (XO (XO (XO XH))))))))))

(** val dA_SUBBLOCK : n **)

let dA_SUBBLOCK =
  Npos (XO (XO (XO (XO (XO XH)))))

(** val dA_MAX_DIST : n **)

let dA_MAX_DIST =
  Npos (XO (XO (XO (XO (XO (XO (XO (XO (XO (XO (XO (XO (XO (XO (XO (XO
    XH))))))))))))))))

(** val pFS_SHIFT : n **)

let pFS_SHIFT =
  Npos (XI (XI (XO XH)))

(** val pFS_SHIFT_HQ : n **)

let pFS_SHIFT_HQ =
  Npos (XI (XI (XO XH)))

(** val lINE_SYMS : n **)

let lINE_SYMS =
  N.pow (Npos (XO XH)) lINE_SHIFT

(** val lINE_SYMS_nat : nat **)

let lINE_SYMS_nat =
  N.to_nat lINE_SYMS

type qvec = { qv_data : n list list; qv_position : n }

(** val zero_line : n list **)

let zero_line =
  repeat N0 lINE_SYMS_nat

(** val line_set_symbol : n list -> n -> n -> n list **)

let line_set_symbol l symbol i =
  match nthN l i with
  | Some old -> setN l i (N.coq_lor old (N.coq_land symbol (Npos (XI XH))))
  | None -> l

(** val line_get_unchecked : n list -> n -> n outcome **)

let line_get_unchecked =
  uidx

(** val line_rank_unchecked : n list -> n -> n -> n outcome **)

let line_rank_unchecked l symbol i =
  bind (odebug_assert (N.leb symbol (Npos (XI XH)))) (fun _ ->
    bind (odebug_assert (N.leb i lINE_SYMS)) (fun _ -> Val
      (countN symbol (firstnN i l))))

(** val qvb_new : qvec **)

let qvb_new =
  { qv_data = []; qv_position = N0 }

(** val qvb_push : qvec -> n -> qvec outcome **)

let qvb_push b symbol =
  let pos_in_last_line =
    N.coq_land (N.div b.qv_position (Npos (XO XH))) pUSH_LINE_MASK
  in
  let data =
    if N.eqb pos_in_last_line N0
    then app b.qv_data (zero_line :: [])
    else b.qv_data
  in
  bind (ounwrap (last_opt data)) (fun last0 -> Val { qv_data =
    (set_last data (line_set_symbol last0 symbol pos_in_last_line));
    qv_position = (N.add b.qv_position pUSH_POS_STEP) })

(** val as_u8 : z -> n **)

let as_u8 v =
  Z.to_N (Z.modulo v (Zpos (XO (XO (XO (XO (XO (XO (XO (XO XH))))))))))

(** val qvb_extend : qvec -> z list -> qvec outcome **)

let rec qvb_extend b = function
| [] -> Val b
| v :: vs' -> bind (qvb_push b (as_u8 v)) (fun b' -> qvb_extend b' vs')

(** val qv_from_iter : z list -> qvec outcome **)

let qv_from_iter vs =
  qvb_extend qvb_new vs

(** val qvb_push_all : qvec -> n list -> qvec outcome **)

let rec qvb_push_all b = function
| [] -> Val b
| v :: vs' -> bind (qvb_push b v) (fun b' -> qvb_push_all b' vs')

(** val qv_len : qvec -> n **)

let qv_len q =
  N.shiftr q.qv_position qV_LEN_SHIFT

(** val qv_is_empty : qvec -> bool **)

let qv_is_empty q =
  N.eqb q.qv_position N0

(** val qv_get_unchecked : qvec -> n -> n outcome **)

let qv_get_unchecked q i =
  bind (odebug_assert (N.ltb i (N.div q.qv_position (Npos (XO XH)))))
    (fun _ ->
    bind (uidx q.qv_data (N.shiftr i lINE_SHIFT)) (fun l ->
      line_get_unchecked l (N.coq_land i lINE_MASK)))

(** val qv_get : qvec -> n -> n option outcome **)

let qv_get q i =
  if N.leb (N.shiftr q.qv_position (Npos XH)) i
  then Val None
  else bind (qv_get_unchecked q i) (fun v -> Val (Some v))

(** val qvit_next : qvec -> n -> (n option * n) outcome **)

let qvit_next q i =
  bind (oadd (Npos (XO (XO (XO (XO (XO (XO XH))))))) i (Npos XH)) (fun i' ->
    bind (qv_get q i) (fun v -> Val (v, i')))

(** val sb_new : n list -> n list **)

let sb_new sbc =
  map (fun c ->
    N.modulo (N.shiftl c sB_SHIFT)
      (N.pow (Npos (XO XH)) (Npos (XO (XO (XO (XO (XO (XO (XO XH)))))))))) sbc

(** val sb_get_rank : n list -> n -> n -> n outcome **)

let sb_get_rank s symbol block_id =
  bind (uidx s symbol) (fun data ->
    let sb =
      N.modulo (N.shiftr data sB_SHIFT_GR)
        (N.pow (Npos (XO XH)) (Npos (XO (XO (XO (XO (XO (XO XH))))))))
    in
    let not_first = if N.ltb N0 block_id then Npos XH else N0 in
    bind (osub block_id not_first) (fun k ->
      bind (omul (Npos (XO (XO (XO (XO (XO (XO XH))))))) k bLK_BITS_GR)
        (fun sh ->
        bind (oshr (Npos (XO (XO (XO (XO (XO (XO (XO XH)))))))) data sh)
          (fun d ->
          bind
            (omul (Npos (XO (XO (XO (XO (XO (XO XH)))))))
              (N.coq_land
                (N.modulo d
                  (N.pow (Npos (XO XH)) (Npos (XO (XO (XO (XO (XO (XO
                    XH))))))))) bLK_MASK_GR) not_first) (fun b ->
            oadd (Npos (XO (XO (XO (XO (XO (XO XH))))))) sb b)))))

(** val sb_get_superblock_counter : n list -> n -> n outcome **)

let sb_get_superblock_counter s symbol =
  bind (uidx s symbol) (fun data -> Val
    (N.modulo (N.shiftr data sB_SHIFT_GC)
      (N.pow (Npos (XO XH)) (Npos (XO (XO (XO (XO (XO (XO XH))))))))))

(** val sb_set_block_counters : n list -> n -> n list -> n list outcome **)

let sb_set_block_counters s block_id counters =
  bind (oassert (N.ltb block_id sET_BLOCK_ID_LIMIT)) (fun _ ->
    bind (oassert (forallb (fun c -> N.ltb c bLK_LIMIT) counters)) (fun _ ->
      if N.eqb block_id N0
      then Val s
      else Val
             (map (fun pat ->
               let (w, c) = pat in
               N.coq_lor w
                 (N.modulo
                   (N.shiftl c (N.mul (N.sub block_id (Npos XH)) bLK_BITS))
                   (N.pow (Npos (XO XH)) (Npos (XO (XO (XO (XO (XO (XO (XO
                     XH))))))))))) (combine s counters))))

(** val sb_block_pred_loop : n -> n -> n -> n -> nat -> n * n **)

let rec sb_block_pred_loop cnt prev_cnt target block_id = function
| O -> ((N.sub bLOCKS_IN_SB (Npos XH)), prev_cnt)
| S f ->
  let curr = N.coq_land cnt bLK_MASK_BP in
  if N.leb target curr
  then ((N.sub block_id (Npos XH)), prev_cnt)
  else sb_block_pred_loop (N.shiftr cnt bLK_BITS_BP) curr target
         (N.add block_id (Npos XH)) f

(** val sb_block_predecessor : n list -> n -> n -> (n * n) outcome **)

let sb_block_predecessor s symbol target =
  bind (idx s symbol) (fun cnt -> Val
    (sb_block_pred_loop cnt N0 target (Npos XH)
      (N.to_nat (N.sub bLOCKS_IN_SB (Npos XH)))))

type rssupport = { rs_superblocks : n list list; rs_samples : n list list }

type rsb_state = { b_i : n; b_sbc : n list; b_bc : n list; b_occ : n list;
                   b_samples : n list list; b_sbs : n list list }

(** val incr : n list -> n -> n list outcome **)

let incr l s =
  bind (idx l s) (fun v -> Val (setN l s (N.add v (Npos XH))))

(** val rsb_boundaries : n -> rsb_state -> rsb_state outcome **)

let rsb_boundaries bsize st =
  let sbsize = N.mul rS_BLOCKS_IN_SB bsize in
  let i = st.b_i in
  let st1 =
    if N.eqb (N.modulo i sbsize) N0
    then { b_i = i; b_sbc = st.b_sbc; b_bc =
           (N0 :: (N0 :: (N0 :: (N0 :: [])))); b_occ = st.b_occ; b_samples =
           st.b_samples; b_sbs = ((sb_new st.b_sbc) :: st.b_sbs) }
    else st
  in
  if N.eqb (N.modulo i bsize) N0
  then let block_id = N.modulo (N.div i bsize) rS_BLOCKS_IN_SB in
       (match st1.b_sbs with
        | [] -> Fault Panic
        | last0 :: rest ->
          bind (sb_set_block_counters last0 block_id st1.b_bc) (fun last' ->
            Val { b_i = i; b_sbc = st1.b_sbc; b_bc = st1.b_bc; b_occ =
            st1.b_occ; b_samples = st1.b_samples; b_sbs = (last' :: rest) }))
  else Val st1

(** val rsb_symbol : n -> rsb_state -> n -> rsb_state outcome **)

let rsb_symbol bsize st symbol =
  let sbsize = N.mul rS_BLOCKS_IN_SB bsize in
  let i = st.b_i in
  bind (idx st.b_occ symbol) (fun o ->
    bind
      (if N.eqb (N.modulo o sELECT_NUM_SAMPLES) N0
       then bind (idx st.b_samples symbol) (fun sl -> Val
              (setN st.b_samples symbol
                ((N.modulo (N.div i sbsize)
                   (N.pow (Npos (XO XH)) (Npos (XO (XO (XO (XO (XO XH)))))))) :: sl)))
       else Val st.b_samples) (fun samples ->
      bind (incr st.b_sbc symbol) (fun sbc ->
        bind (incr st.b_bc symbol) (fun bc ->
          bind (incr st.b_occ symbol) (fun occ -> Val { b_i =
            (N.add i (Npos XH)); b_sbc = sbc; b_bc = bc; b_occ = occ;
            b_samples = samples; b_sbs = st.b_sbs })))))

(** val rsb_loop : n -> rsb_state -> n list -> rsb_state outcome **)

let rec rsb_loop bsize st = function
| [] -> rsb_boundaries bsize st
| s :: syms' ->
  bind (rsb_boundaries bsize st) (fun st1 ->
    bind (rsb_symbol bsize st1 s) (fun st2 -> rsb_loop bsize st2 syms'))

(** val rss_new : n -> n list -> rssupport outcome **)

let rss_new bsize syms =
  let n0 = len syms in
  bind (oassert (N.ltb n0 mAX_LEN)) (fun _ ->
    bind
      (oassert
        ((||) (N.eqb bsize (Npos (XO (XO (XO (XO (XO (XO (XO (XO XH))))))))))
          (N.eqb bsize (Npos (XO (XO (XO (XO (XO (XO (XO (XO (XO XH)))))))))))))
      (fun _ ->
      bind
        (rsb_loop bsize { b_i = N0; b_sbc =
          (N0 :: (N0 :: (N0 :: (N0 :: [])))); b_bc =
          (N0 :: (N0 :: (N0 :: (N0 :: [])))); b_occ =
          (N0 :: (N0 :: (N0 :: (N0 :: [])))); b_samples =
          ([] :: ([] :: ([] :: ([] :: [])))); b_sbs = [] } syms) (fun st ->
        let next_block_id =
          N.add (N.modulo (N.div n0 bsize) rS_BLOCKS_IN_SB) (Npos XH)
        in
        bind
          (if N.ltb next_block_id rS_BLOCKS_IN_SB
           then (match st.b_sbs with
                 | [] -> Fault Panic
                 | last0 :: rest ->
                   bind (sb_set_block_counters last0 next_block_id st.b_bc)
                     (fun last' -> Val (last' :: rest)))
           else Val st.b_sbs) (fun sbs ->
          let nsb = len sbs in
          let sentinel =
            N.modulo
              (N.sub
                (N.add
                  (N.modulo nsb
                    (N.pow (Npos (XO XH)) (Npos (XO (XO (XO (XO (XO XH))))))))
                  (N.pow (Npos (XO XH)) (Npos (XO (XO (XO (XO (XO XH))))))))
                (Npos XH))
              (N.pow (Npos (XO XH)) (Npos (XO (XO (XO (XO (XO XH)))))))
          in
          bind
            (if N.eqb
                  (N.modulo nsb
                    (N.pow (Npos (XO XH)) (Npos (XO (XO (XO (XO (XO XH))))))))
                  N0
             then Fault Overflow
             else Val ()) (fun _ ->
            let samples =
              map (fun sl ->
                rev
                  (sentinel :: (match sl with
                                | [] -> N0 :: []
                                | _ :: _ -> sl))) st.b_samples
            in
            Val { rs_superblocks = (rev sbs); rs_samples = samples })))))

(** val rss_superblock_index : n -> n -> n **)

let rss_superblock_index bsize i =
  N.div i (N.mul bsize rS_BLOCKS_IN_SB)

(** val rss_block_index : n -> n -> n **)

let rss_block_index bsize i =
  N.div i bsize

(** val rss_rank_block : n -> rssupport -> n -> n -> n outcome **)

let rss_rank_block bsize r symbol i =
  bind (odebug_assert (N.leb symbol (Npos (XI XH)))) (fun _ ->
    bind (uidx r.rs_superblocks (rss_superblock_index bsize i)) (fun sb ->
      sb_get_rank sb symbol
        (N.coq_land (rss_block_index bsize i) rANK_BLOCK_MASK)))

(** val rss_scan : rssupport -> n -> n -> n -> n -> n -> nat -> n outcome **)

let rec rss_scan r symbol i first last0 step = function
| O -> Fault OutOfFuel
| S f ->
  if N.ltb first last0
  then bind (idx r.rs_superblocks first) (fun sb ->
         bind (sb_get_superblock_counter sb symbol) (fun c ->
           if N.leb i c
           then Val first
           else rss_scan r symbol i (N.add first step) last0 step f))
  else Val first

(** val rss_select_block : n -> rssupport -> n -> n -> (n * n) outcome **)

let rss_select_block bsize r symbol i =
  bind (osub i (Npos XH)) (fun i1 ->
    let sampled_i = N.div i1 sELECT_NUM_SAMPLES in
    bind (idx r.rs_samples symbol) (fun samples ->
      bind (idx samples sampled_i) (fun first0 ->
        bind (idx samples (N.add sampled_i (Npos XH))) (fun last0 ->
          let last1 = N.add (Npos XH) last0 in
          bind (osub last1 first0) (fun d ->
            let step = N.add (N.sqrt d) (Npos XH) in
            let fuel = S (length r.rs_superblocks) in
            bind (rss_scan r symbol i first0 last1 step fuel) (fun first1 ->
              bind (osub first1 step) (fun first2 ->
                bind
                  (rss_scan r symbol i first2 last1 (Npos XH)
                    (add (S (N.to_nat step)) fuel)) (fun first3 ->
                  bind (osub first3 (Npos XH)) (fun first4 ->
                    let position = N.mul (N.mul first4 bsize) rS_BLOCKS_IN_SB
                    in
                    bind (idx r.rs_superblocks first4) (fun sb ->
                      bind (sb_get_superblock_counter sb symbol) (fun rank ->
                        bind (osub i rank) (fun t ->
                          bind (sb_block_predecessor sb symbol t) (fun pat ->
                            let (block_id, block_rank) = pat in
                            Val ((N.add position (N.mul block_id bsize)),
                            (N.add rank block_rank)))))))))))))))

type rsq = { rsq_qv : qvec; rsq_rs : rssupport; rsq_occs_smaller : n list }

(** val qv_iter_all : qvec -> n -> nat -> n list outcome **)

let rec qv_iter_all q i = function
| O -> Val []
| S f ->
  bind (qv_get q i) (fun v ->
    match v with
    | Some s ->
      bind (qv_iter_all q (N.add i (Npos XH)) f) (fun rest -> Val (s :: rest))
    | None -> Val [])

(** val qv_symbols : qvec -> n list outcome **)

let qv_symbols q =
  qv_iter_all q N0 (mul (length q.qv_data) lINE_SYMS_nat)

(** val occs_smaller_of : n list -> n list **)

let occs_smaller_of syms =
  let c = fun s -> countN s syms in
  N0 :: ((c N0) :: ((N.add (c N0) (c (Npos XH))) :: ((N.add
                                                       (N.add (c N0)
                                                         (c (Npos XH)))
                                                       (c (Npos (XO XH)))) :: (
  (N.add (N.add (N.add (c N0) (c (Npos XH))) (c (Npos (XO XH))))
    (c (Npos (XI XH)))) :: []))))

(** val rsq_from_qv : n -> qvec -> rsq outcome **)

let rsq_from_qv bsize q =
  bind (qv_symbols q) (fun syms ->
    bind (rss_new bsize syms) (fun rs -> Val { rsq_qv = q; rsq_rs = rs;
      rsq_occs_smaller = (occs_smaller_of syms) }))

(** val rsq_new : n -> n list -> rsq outcome **)

let rsq_new bsize vs =
  bind
    (qvb_push_all qvb_new
      (map (fun v ->
        N.modulo v (Npos (XO (XO (XO (XO (XO (XO (XO (XO XH)))))))))) vs))
    (fun q -> rsq_from_qv bsize q)

(** val rsq_default : n -> rsq outcome **)

let rsq_default bsize =
  rsq_from_qv bsize qvb_new

(** val rsq_len : rsq -> n **)

let rsq_len r =
  qv_len r.rsq_qv

(** val rsq_is_empty : rsq -> bool **)

let rsq_is_empty r =
  N.eqb (qv_len r.rsq_qv) N0

(** val rsq_get : rsq -> n -> n option outcome **)

let rsq_get r i =
  qv_get r.rsq_qv i

(** val rsq_get_unchecked : rsq -> n -> n outcome **)

let rsq_get_unchecked r i =
  qv_get_unchecked r.rsq_qv i

(** val rsq_rank_intra_block : n -> rsq -> n -> n -> n outcome **)

let rsq_rank_intra_block bsize r symbol i =
  bind (odebug_assert (N.leb symbol (Npos (XI XH)))) (fun _ ->
    let data = r.rsq_qv.qv_data in
    if N.eqb bsize (Npos (XO (XO (XO (XO (XO (XO (XO (XO XH)))))))))
    then (match nthN data (N.shiftr i (Npos (XO (XO (XO XH))))) with
          | Some d ->
            line_rank_unchecked d symbol
              (N.coq_land i (Npos (XI (XI (XI (XI (XI (XI (XI XH)))))))))
          | None -> Val N0)
    else let block_id = N.shiftr i (Npos (XI (XO (XO XH)))) in
         let offset_in_block =
           N.coq_land i (Npos (XI (XI (XI (XI (XI (XI (XI (XI XH)))))))))
         in
         let offset_first =
           if N.leb offset_in_block (Npos (XO (XO (XO (XO (XO (XO (XO (XO
                XH)))))))))
           then offset_in_block
           else Npos (XO (XO (XO (XO (XO (XO (XO (XO XH))))))))
         in
         bind
           (match nthN data (N.mul block_id (Npos (XO XH))) with
            | Some d -> line_rank_unchecked d symbol offset_first
            | None -> Val N0) (fun rank ->
           if N.ltb (Npos (XO (XO (XO (XO (XO (XO (XO (XO XH)))))))))
                offset_in_block
           then bind
                  (match nthN data
                           (N.add (N.mul block_id (Npos (XO XH))) (Npos XH)) with
                   | Some d ->
                     line_rank_unchecked d symbol
                       (N.sub offset_in_block (Npos (XO (XO (XO (XO (XO (XO
                         (XO (XO XH))))))))))
                   | None -> Val N0) (fun r2 -> Val (N.add rank r2))
           else Val rank))

(** val rsq_rank_unchecked : n -> rsq -> n -> n -> n outcome **)

let rsq_rank_unchecked bsize r symbol i =
  bind (odebug_assert (N.leb symbol (Npos (XI XH)))) (fun _ ->
    bind (rss_rank_block bsize r.rsq_rs symbol i) (fun a ->
      bind (rsq_rank_intra_block bsize r symbol i) (fun b -> Val (N.add a b))))

(** val rsq_rank : n -> rsq -> n -> n -> n option outcome **)

let rsq_rank bsize r symbol i =
  if (||) (N.ltb (Npos (XI XH)) symbol) (N.ltb (rsq_len r) i)
  then Val None
  else bind (rsq_rank_unchecked bsize r symbol i) (fun v -> Val (Some v))

(** val rsq_occs_unchecked : rsq -> n -> n outcome **)

let rsq_occs_unchecked r symbol =
  bind (odebug_assert (N.leb symbol (Npos (XI XH)))) (fun _ ->
    bind
      (idx r.rsq_occs_smaller
        (N.modulo (N.add symbol (Npos XH)) (Npos (XO (XO (XO (XO (XO (XO (XO
          (XO XH))))))))))) (fun a ->
      bind (idx r.rsq_occs_smaller symbol) (fun b -> osub a b)))

(** val rsq_occs : rsq -> n -> n option outcome **)

let rsq_occs r symbol =
  if N.ltb (Npos (XI XH)) symbol
  then Val None
  else bind (rsq_occs_unchecked r symbol) (fun v -> Val (Some v))

(** val rsq_occs_smaller_unchecked : rsq -> n -> n outcome **)

let rsq_occs_smaller_unchecked r symbol =
  bind (odebug_assert (N.leb symbol (Npos (XI XH)))) (fun _ ->
    idx r.rsq_occs_smaller symbol)

(** val rsq_occs_smaller_q : rsq -> n -> n option outcome **)

let rsq_occs_smaller_q r symbol =
  if N.ltb (Npos (XI XH)) symbol
  then Val None
  else bind (rsq_occs_smaller_unchecked r symbol) (fun v -> Val (Some v))

(** val find_kth : n -> n list -> n -> n -> n option **)

let rec find_kth symbol l k pos =
  match l with
  | [] -> None
  | x :: l' ->
    if N.eqb x symbol
    then if N.eqb k N0
         then Some pos
         else find_kth symbol l' (N.pred k) (N.add pos (Npos XH))
    else find_kth symbol l' k (N.add pos (Npos XH))

(** val half_select : n -> n list -> n -> n **)

let half_select symbol h k =
  match find_kth symbol h k N0 with
  | Some p -> p
  | None -> Npos (XO (XO (XO (XO (XO (XO (XO XH)))))))

(** val sel_line : n -> n list -> n -> n -> (n option * n) * n **)

let sel_line symbol d i result =
  let w0 =
    firstn (S (S (S (S (S (S (S (S (S (S (S (S (S (S (S (S (S (S (S (S (S (S
      (S (S (S (S (S (S (S (S (S (S (S (S (S (S (S (S (S (S (S (S (S (S (S (S
      (S (S (S (S (S (S (S (S (S (S (S (S (S (S (S (S (S (S (S (S (S (S (S (S
      (S (S (S (S (S (S (S (S (S (S (S (S (S (S (S (S (S (S (S (S (S (S (S (S
      (S (S (S (S (S (S (S (S (S (S (S (S (S (S (S (S (S (S (S (S (S (S (S (S
      (S (S (S (S (S (S (S (S (S (S
      O))))))))))))))))))))))))))))))))))))))))))))))))))))))))))))))))))))))))))))))))))))))))))))))))))))))))))))))))))))))))))))))))
      d
  in
  let w1 =
    skipn (S (S (S (S (S (S (S (S (S (S (S (S (S (S (S (S (S (S (S (S (S (S
      (S (S (S (S (S (S (S (S (S (S (S (S (S (S (S (S (S (S (S (S (S (S (S (S
      (S (S (S (S (S (S (S (S (S (S (S (S (S (S (S (S (S (S (S (S (S (S (S (S
      (S (S (S (S (S (S (S (S (S (S (S (S (S (S (S (S (S (S (S (S (S (S (S (S
      (S (S (S (S (S (S (S (S (S (S (S (S (S (S (S (S (S (S (S (S (S (S (S (S
      (S (S (S (S (S (S (S (S (S (S
      O))))))))))))))))))))))))))))))))))))))))))))))))))))))))))))))))))))))))))))))))))))))))))))))))))))))))))))))))))))))))))))))))
      d
  in
  let cnt0 = countN symbol w0 in
  if N.ltb i cnt0
  then (((Some (N.add result (half_select symbol w0 i))), i), result)
  else let i0 = N.sub i cnt0 in
       let result0 = N.add result (Npos (XO (XO (XO (XO (XO (XO (XO XH))))))))
       in
       let cnt1 = countN symbol w1 in
       if N.ltb i0 cnt1
       then (((Some (N.add result0 (half_select symbol w1 i0))), i0), result0)
       else ((None, (N.sub i0 cnt1)),
              (N.add result0 (Npos (XO (XO (XO (XO (XO (XO (XO XH))))))))))

(** val rsq_select_intra_block : n -> rsq -> n -> n -> n -> n outcome **)

let rsq_select_intra_block bsize r symbol i pos =
  let line_id = N.shiftr pos (Npos (XO (XO (XO XH)))) in
  bind (osub i (Npos XH)) (fun i0 ->
    let data = r.rsq_qv.qv_data in
    bind (uidx data line_id) (fun d0 ->
      let (p0, res1) = sel_line symbol d0 i0 N0 in
      let (o, i1) = p0 in
      (match o with
       | Some p -> Val p
       | None ->
         if N.eqb bsize (Npos (XO (XO (XO (XO (XO (XO (XO (XO XH)))))))))
         then Val N0
         else bind (uidx data (N.add line_id (Npos XH))) (fun d1 ->
                let (p1, _) = sel_line symbol d1 i1 res1 in
                let (o0, _) = p1 in
                (match o0 with
                 | Some p -> Val p
                 | None -> Val N0)))))

(** val rsq_select : n -> rsq -> n -> n -> n option outcome **)

let rsq_select bsize r symbol i =
  if N.ltb (Npos (XI XH)) symbol
  then Val None
  else bind (rsq_occs_unchecked r symbol) (fun occ ->
         if N.leb occ i
         then Val None
         else bind (oadd (Npos (XO (XO (XO (XO (XO (XO XH))))))) i (Npos XH))
                (fun i1 ->
                bind (rss_select_block bsize r.rsq_rs symbol i1) (fun pat ->
                  let (pos, rank) = pat in
                  bind (osub i rank) (fun t ->
                    bind
                      (oadd (Npos (XO (XO (XO (XO (XO (XO XH))))))) t (Npos
                        XH)) (fun t1 ->
                      bind (rsq_select_intra_block bsize r symbol t1 pos)
                        (fun off -> Val (Some (N.add pos off))))))))

(** val rsq_select_unchecked : n -> rsq -> n -> n -> n outcome **)

let rsq_select_unchecked bsize r symbol i =
  bind (odebug_assert (N.leb symbol (Npos (XI XH)))) (fun _ ->
    bind (rsq_occs r symbol) (fun o ->
      bind
        (odebug_assert (match o with
                        | Some oc -> N.ltb i oc
                        | None -> false)) (fun _ ->
        bind (rsq_select bsize r symbol i) ounwrap)))

(** val mapo : ('a1 -> 'a2 outcome) -> 'a1 list -> 'a2 list outcome **)

let rec mapo f = function
| [] -> Val []
| x :: l' -> bind (f x) (fun y -> bind (mapo f l') (fun r -> Val (y :: r)))

(** val msb : n -> n **)

let msb v =
  if N.eqb v N0 then N0 else N.log2 v

(** val two_bits : n -> n -> n -> n outcome **)

let two_bits w x shift =
  bind (oshr w x shift) (fun y -> Val
    (N.coq_land
      (N.modulo y
        (N.pow (Npos (XO XH)) (Npos (XO (XO (XO (XO (XO (XO XH))))))))) (Npos
      (XI XH))))

(** val stable_partition_of_4 : n -> n list -> n -> n list outcome **)

let stable_partition_of_4 w seq shift =
  bind (mapo (fun a -> two_bits w a shift) seq) (fun ds ->
    let tagged = combine ds seq in
    let pick = fun d -> map snd (filter (fun p -> N.eqb (fst p) d) tagged) in
    Val
    (app (pick N0)
      (app (pick (Npos XH)) (app (pick (Npos (XO XH))) (pick (Npos (XI XH)))))))

type qwt = { q_n : n; q_n_levels : n; q_sigma : n; q_qvs : rsq list }

(** val qwt_levels : n -> n -> n list -> n -> nat -> rsq list outcome **)

let rec qwt_levels w bsize seq shift = function
| O -> Val []
| S k ->
  bind (mapo (fun s -> two_bits w s shift) seq) (fun digits ->
    bind (qvb_push_all qvb_new digits) (fun qv ->
      bind (rsq_from_qv bsize qv) (fun rs ->
        bind (stable_partition_of_4 w seq shift) (fun seq' ->
          bind
            (qwt_levels w bsize seq'
              (if N.leb (Npos (XO XH)) shift
               then N.sub shift (Npos (XO XH))
               else shift) k) (fun rest -> Val (rs :: rest))))))

(** val qwt_new : n -> n -> n list -> qwt outcome **)

let qwt_new w bsize seq = match seq with
| [] ->
  bind (rsq_default bsize) (fun d -> Val { q_n = N0; q_n_levels = N0;
    q_sigma = N0; q_qvs = (d :: []) })
| _ :: _ ->
  let sigma = maxN seq in
  let log_sigma = N.add (msb sigma) (Npos XH) in
  let n_levels = N.div (N.add log_sigma (Npos XH)) (Npos (XO XH)) in
  bind (osub n_levels (Npos XH)) (fun s0 ->
    bind
      (qwt_levels w bsize seq (N.mul (Npos (XO XH)) s0) (N.to_nat n_levels))
      (fun qvs -> Val { q_n = (len seq); q_n_levels = n_levels; q_sigma =
      sigma; q_qvs = qvs }))

(** val qwt_default : qwt **)

let qwt_default =
  { q_n = N0; q_n_levels = N0; q_sigma = N0; q_qvs = [] }

(** val qwt_len : qwt -> n **)

let qwt_len t =
  t.q_n

(** val qwt_is_empty : qwt -> bool **)

let qwt_is_empty t =
  N.eqb t.q_n N0

(** val qwt_sigma : qwt -> n option **)

let qwt_sigma t =
  if qwt_is_empty t then None else Some t.q_sigma

(** val qwt_rank_walk :
    n -> n -> rsq list -> n -> n -> n -> n -> n -> nat -> ((n * n) * n)
    outcome **)

let rec qwt_rank_walk w bsize qvs symbol shift cur_p cur_i level = function
| O -> Val ((cur_p, cur_i), shift)
| S k ->
  bind (two_bits w symbol shift) (fun tb ->
    bind (idx qvs level) (fun qv ->
      bind (rsq_occs_smaller_unchecked qv tb) (fun offset ->
        bind (rsq_rank_unchecked bsize qv tb cur_p) (fun rp ->
          bind (rsq_rank_unchecked bsize qv tb cur_i) (fun ri ->
            bind (osub shift (Npos (XO XH))) (fun shift' ->
              qwt_rank_walk w bsize qvs symbol shift' (N.add rp offset)
                (N.add ri offset) (N.add level (Npos XH)) k))))))

(** val qwt_rank_unchecked : n -> n -> qwt -> n -> n -> n outcome **)

let qwt_rank_unchecked w bsize t symbol i =
  bind (osub t.q_n_levels (Npos XH)) (fun l1 ->
    bind
      (qwt_rank_walk w bsize t.q_qvs symbol (N.mul (Npos (XO XH)) l1) N0 i N0
        (N.to_nat l1)) (fun pat ->
      let (p, shift) = pat in
      let (cur_p, cur_i) = p in
      bind (two_bits w symbol shift) (fun tb ->
        bind (idx t.q_qvs l1) (fun qv ->
          bind (rsq_rank_unchecked bsize qv tb cur_i) (fun ci ->
            bind (rsq_rank_unchecked bsize qv tb cur_p) (fun cp -> osub ci cp))))))

(** val qwt_rank : n -> n -> qwt -> n -> n -> n option outcome **)

let qwt_rank w bsize t symbol i =
  if (||) ((||) (N.ltb t.q_n i) (N.ltb t.q_sigma symbol)) (N.eqb t.q_n N0)
  then Val None
  else bind (qwt_rank_unchecked w bsize t symbol i) (fun v -> Val (Some v))

(** val qwt_get_walk :
    n -> n -> rsq list -> n -> n -> n -> nat -> (n * n) outcome **)

let rec qwt_get_walk w bsize qvs result cur_i level = function
| O -> Val (result, cur_i)
| S k ->
  bind (idx qvs level) (fun qv ->
    bind (rsq_get_unchecked qv cur_i) (fun symbol ->
      let result' =
        N.coq_lor
          (N.modulo (N.shiftl result (Npos (XO XH))) (N.pow (Npos (XO XH)) w))
          symbol
      in
      bind (rsq_occs_smaller_unchecked qv symbol) (fun offset ->
        bind (rsq_rank_unchecked bsize qv symbol cur_i) (fun r ->
          qwt_get_walk w bsize qvs result' (N.add r offset)
            (N.add level (Npos XH)) k))))

(** val qwt_get_unchecked : n -> n -> qwt -> n -> n outcome **)

let qwt_get_unchecked w bsize t i =
  bind (osub t.q_n_levels (Npos XH)) (fun l1 ->
    bind (qwt_get_walk w bsize t.q_qvs N0 i N0 (N.to_nat l1)) (fun pat ->
      let (result, cur_i) = pat in
      bind (idx t.q_qvs l1) (fun qv ->
        bind (rsq_get_unchecked qv cur_i) (fun symbol -> Val
          (N.coq_lor
            (N.modulo (N.shiftl result (Npos (XO XH)))
              (N.pow (Npos (XO XH)) w)) symbol)))))

(** val qwt_get : n -> n -> qwt -> n -> n option outcome **)

let qwt_get w bsize t i =
  if N.leb t.q_n i
  then Val None
  else bind (qwt_get_unchecked w bsize t i) (fun v -> Val (Some v))

(** val qwt_select_down :
    n -> n -> rsq list -> n -> n -> n -> n -> nat -> (n * n) list option
    outcome **)

let rec qwt_select_down w bsize qvs symbol shift b level = function
| O -> Val (Some [])
| S k ->
  bind (two_bits w symbol shift) (fun tb ->
    bind (idx qvs level) (fun qv ->
      bind (rsq_rank bsize qv tb b) (fun r ->
        match r with
        | Some rank_b ->
          bind (rsq_occs_smaller_unchecked qv tb) (fun offset ->
            let b' = N.add rank_b offset in
            let shift' =
              if N.leb (Npos (XO XH)) shift
              then N.sub shift (Npos (XO XH))
              else N0
            in
            bind
              (qwt_select_down w bsize qvs symbol shift' b'
                (N.add level (Npos XH)) k) (fun rest ->
              match rest with
              | Some l -> Val (Some ((b, rank_b) :: l))
              | None -> Val None))
        | None -> Val None)))

(** val qwt_select_up :
    n -> n -> rsq list -> n -> n -> n -> ((n * n) * n) list -> n option
    outcome **)

let rec qwt_select_up w bsize qvs symbol shift result = function
| [] -> Val (Some result)
| p :: rest ->
  let (p0, rank_b) = p in
  let (level, b) = p0 in
  bind (two_bits w symbol shift) (fun tb ->
    bind (idx qvs level) (fun qv ->
      if N.leb (N.pow (Npos (XO XH)) (Npos (XO (XO (XO (XO (XO (XO XH))))))))
           (N.add rank_b result)
      then Val None
      else bind (rsq_select bsize qv tb (N.add rank_b result)) (fun s ->
             match s with
             | Some p1 ->
               bind (osub p1 b) (fun r' ->
                 qwt_select_up w bsize qvs symbol
                   (N.add shift (Npos (XO XH))) r' rest)
             | None -> Val None)))

(** val number_levels : 'a1 list -> n -> (n * 'a1) list **)

let rec number_levels l level =
  match l with
  | [] -> []
  | x :: l' -> (level, x) :: (number_levels l' (N.add level (Npos XH)))

(** val qwt_select : n -> n -> qwt -> n -> n -> n option outcome **)

let qwt_select w bsize t symbol i =
  if (||) (N.ltb t.q_sigma symbol) (N.eqb t.q_n N0)
  then Val None
  else bind (osub t.q_n_levels (Npos XH)) (fun l1 ->
         bind
           (qwt_select_down w bsize t.q_qvs symbol (N.mul (Npos (XO XH)) l1)
             N0 N0 (N.to_nat t.q_n_levels)) (fun down ->
           match down with
           | Some path ->
             let numbered =
               map (fun pat ->
                 let (lv, y) = pat in let (b, rb) = y in ((lv, b), rb))
                 (number_levels path N0)
             in
             qwt_select_up w bsize t.q_qvs symbol N0 i (rev numbered)
           | None -> Val None))

(** val qwt_select_unchecked : n -> n -> qwt -> n -> n -> n outcome **)

let qwt_select_unchecked w bsize t symbol i =
  bind (qwt_select w bsize t symbol i) ounwrap

(** val qwt_estimate_walk :
    n -> n -> rsq list -> n -> n -> n -> n -> n -> nat -> unit outcome **)

let rec qwt_estimate_walk w bsize qvs symbol shift rs re level = function
| O -> Val ()
| S k ->
  bind (two_bits w symbol shift) (fun tb ->
    bind (idx qvs level) (fun qv ->
      bind (rsq_occs_smaller_unchecked qv tb) (fun offset ->
        bind (rss_rank_block bsize qv.rsq_rs tb rs) (fun a ->
          bind (rss_rank_block bsize qv.rsq_rs tb re) (fun b ->
            bind (idx qvs (N.add level (Npos XH))) (fun _ ->
              bind (osub shift (Npos (XO XH))) (fun shift' ->
                qwt_estimate_walk w bsize qvs symbol shift' (N.add a offset)
                  (N.add b offset) (N.add level (Npos XH)) k)))))))

(** val qwt_rank_prefetch_unchecked : n -> n -> qwt -> n -> n -> n outcome **)

let qwt_rank_prefetch_unchecked w bsize t symbol i =
  bind (osub t.q_n_levels (Npos XH)) (fun l1 ->
    bind (idx t.q_qvs N0) (fun _ ->
      bind
        (qwt_estimate_walk w bsize t.q_qvs symbol (N.mul (Npos (XO XH)) l1)
          N0 i N0 (N.to_nat l1)) (fun _ ->
        qwt_rank_unchecked w bsize t symbol i)))

(** val qwt_rank_prefetch : n -> n -> qwt -> n -> n -> n option outcome **)

let qwt_rank_prefetch w bsize t symbol i =
  if (||) ((||) (N.ltb t.q_n i) (N.ltb t.q_sigma symbol)) (N.eqb t.q_n N0)
  then Val None
  else bind (qwt_rank_prefetch_unchecked w bsize t symbol i) (fun v -> Val
         (Some v))

(** val sel_table : n list **)

let sel_table =
  (Npos (XO (XO (XO XH)))) :: (N0 :: ((Npos XH) :: (N0 :: ((Npos (XO
    XH)) :: (N0 :: ((Npos XH) :: (N0 :: ((Npos (XI XH)) :: (N0 :: ((Npos
    XH) :: (N0 :: ((Npos (XO XH)) :: (N0 :: ((Npos XH) :: (N0 :: ((Npos (XO
    (XO XH))) :: (N0 :: ((Npos XH) :: (N0 :: ((Npos (XO XH)) :: (N0 :: ((Npos
    XH) :: (N0 :: ((Npos (XI XH)) :: (N0 :: ((Npos XH) :: (N0 :: ((Npos (XO
    XH)) :: (N0 :: ((Npos XH) :: (N0 :: ((Npos (XI (XO XH))) :: (N0 :: ((Npos
    XH) :: (N0 :: ((Npos (XO XH)) :: (N0 :: ((Npos XH) :: (N0 :: ((Npos (XI
    XH)) :: (N0 :: ((Npos XH) :: (N0 :: ((Npos (XO XH)) :: (N0 :: ((Npos
    XH) :: (N0 :: ((Npos (XO (XO XH))) :: (N0 :: ((Npos XH) :: (N0 :: ((Npos
    (XO XH)) :: (N0 :: ((Npos XH) :: (N0 :: ((Npos (XI XH)) :: (N0 :: ((Npos
    XH) :: (N0 :: ((Npos (XO XH)) :: (N0 :: ((Npos XH) :: (N0 :: ((Npos (XO
    (XI XH))) :: (N0 :: ((Npos XH) :: (N0 :: ((Npos (XO XH)) :: (N0 :: ((Npos
    XH) :: (N0 :: ((Npos (XI XH)) :: (N0 :: ((Npos XH) :: (N0 :: ((Npos (XO
    XH)) :: (N0 :: ((Npos XH) :: (N0 :: ((Npos (XO (XO XH))) :: (N0 :: ((Npos
    XH) :: (N0 :: ((Npos (XO XH)) :: (N0 :: ((Npos XH) :: (N0 :: ((Npos (XI
    XH)) :: (N0 :: ((Npos XH) :: (N0 :: ((Npos (XO XH)) :: (N0 :: ((Npos
    XH) :: (N0 :: ((Npos (XI (XO XH))) :: (N0 :: ((Npos XH) :: (N0 :: ((Npos
    (XO XH)) :: (N0 :: ((Npos XH) :: (N0 :: ((Npos (XI XH)) :: (N0 :: ((Npos
    XH) :: (N0 :: ((Npos (XO XH)) :: (N0 :: ((Npos XH) :: (N0 :: ((Npos (XO
    (XO XH))) :: (N0 :: ((Npos XH) :: (N0 :: ((Npos (XO XH)) :: (N0 :: ((Npos
    XH) :: (N0 :: ((Npos (XI XH)) :: (N0 :: ((Npos XH) :: (N0 :: ((Npos (XO
    XH)) :: (N0 :: ((Npos XH) :: (N0 :: ((Npos (XI (XI XH))) :: (N0 :: ((Npos
    XH) :: (N0 :: ((Npos (XO XH)) :: (N0 :: ((Npos XH) :: (N0 :: ((Npos (XI
    XH)) :: (N0 :: ((Npos XH) :: (N0 :: ((Npos (XO XH)) :: (N0 :: ((Npos
    XH) :: (N0 :: ((Npos (XO (XO XH))) :: (N0 :: ((Npos XH) :: (N0 :: ((Npos
    (XO XH)) :: (N0 :: ((Npos XH) :: (N0 :: ((Npos (XI XH)) :: (N0 :: ((Npos
    XH) :: (N0 :: ((Npos (XO XH)) :: (N0 :: ((Npos XH) :: (N0 :: ((Npos (XI
    (XO XH))) :: (N0 :: ((Npos XH) :: (N0 :: ((Npos (XO XH)) :: (N0 :: ((Npos
    XH) :: (N0 :: ((Npos (XI XH)) :: (N0 :: ((Npos XH) :: (N0 :: ((Npos (XO
    XH)) :: (N0 :: ((Npos XH) :: (N0 :: ((Npos (XO (XO XH))) :: (N0 :: ((Npos
    XH) :: (N0 :: ((Npos (XO XH)) :: (N0 :: ((Npos XH) :: (N0 :: ((Npos (XI
    XH)) :: (N0 :: ((Npos XH) :: (N0 :: ((Npos (XO XH)) :: (N0 :: ((Npos
    XH) :: (N0 :: ((Npos (XO (XI XH))) :: (N0 :: ((Npos XH) :: (N0 :: ((Npos
    (XO XH)) :: (N0 :: ((Npos XH) :: (N0 :: ((Npos (XI XH)) :: (N0 :: ((Npos
    XH) :: (N0 :: ((Npos (XO XH)) :: (N0 :: ((Npos XH) :: (N0 :: ((Npos (XO
    (XO XH))) :: (N0 :: ((Npos XH) :: (N0 :: ((Npos (XO XH)) :: (N0 :: ((Npos
    XH) :: (N0 :: ((Npos (XI XH)) :: (N0 :: ((Npos XH) :: (N0 :: ((Npos (XO
    XH)) :: (N0 :: ((Npos XH) :: (N0 :: ((Npos (XI (XO XH))) :: (N0 :: ((Npos
    XH) :: (N0 :: ((Npos (XO XH)) :: (N0 :: ((Npos XH) :: (N0 :: ((Npos (XI
    XH)) :: (N0 :: ((Npos XH) :: (N0 :: ((Npos (XO XH)) :: (N0 :: ((Npos
    XH) :: (N0 :: ((Npos (XO (XO XH))) :: (N0 :: ((Npos XH) :: (N0 :: ((Npos
    (XO XH)) :: (N0 :: ((Npos XH) :: (N0 :: ((Npos (XI XH)) :: (N0 :: ((Npos
    XH) :: (N0 :: ((Npos (XO XH)) :: (N0 :: ((Npos XH) :: (N0 :: ((Npos (XO
    (XO (XO XH)))) :: ((Npos (XO (XO (XO XH)))) :: ((Npos (XO (XO (XO
    XH)))) :: ((Npos XH) :: ((Npos (XO (XO (XO XH)))) :: ((Npos (XO
    XH)) :: ((Npos (XO XH)) :: ((Npos XH) :: ((Npos (XO (XO (XO
    XH)))) :: ((Npos (XI XH)) :: ((Npos (XI XH)) :: ((Npos XH) :: ((Npos (XI
    XH)) :: ((Npos (XO XH)) :: ((Npos (XO XH)) :: ((Npos XH) :: ((Npos (XO
    (XO (XO XH)))) :: ((Npos (XO (XO XH))) :: ((Npos (XO (XO XH))) :: ((Npos
    XH) :: ((Npos (XO (XO XH))) :: ((Npos (XO XH)) :: ((Npos (XO
    XH)) :: ((Npos XH) :: ((Npos (XO (XO XH))) :: ((Npos (XI XH)) :: ((Npos
    (XI XH)) :: ((Npos XH) :: ((Npos (XI XH)) :: ((Npos (XO XH)) :: ((Npos
    (XO XH)) :: ((Npos XH) :: ((Npos (XO (XO (XO XH)))) :: ((Npos (XI (XO
    XH))) :: ((Npos (XI (XO XH))) :: ((Npos XH) :: ((Npos (XI (XO
    XH))) :: ((Npos (XO XH)) :: ((Npos (XO XH)) :: ((Npos XH) :: ((Npos (XI
    (XO XH))) :: ((Npos (XI XH)) :: ((Npos (XI XH)) :: ((Npos XH) :: ((Npos
    (XI XH)) :: ((Npos (XO XH)) :: ((Npos (XO XH)) :: ((Npos XH) :: ((Npos
    (XI (XO XH))) :: ((Npos (XO (XO XH))) :: ((Npos (XO (XO XH))) :: ((Npos
    XH) :: ((Npos (XO (XO XH))) :: ((Npos (XO XH)) :: ((Npos (XO
    XH)) :: ((Npos XH) :: ((Npos (XO (XO XH))) :: ((Npos (XI XH)) :: ((Npos
    (XI XH)) :: ((Npos XH) :: ((Npos (XI XH)) :: ((Npos (XO XH)) :: ((Npos
    (XO XH)) :: ((Npos XH) :: ((Npos (XO (XO (XO XH)))) :: ((Npos (XO (XI
    XH))) :: ((Npos (XO (XI XH))) :: ((Npos XH) :: ((Npos (XO (XI
    XH))) :: ((Npos (XO XH)) :: ((Npos (XO XH)) :: ((Npos XH) :: ((Npos (XO
    (XI XH))) :: ((Npos (XI XH)) :: ((Npos (XI XH)) :: ((Npos XH) :: ((Npos
    (XI XH)) :: ((Npos (XO XH)) :: ((Npos (XO XH)) :: ((Npos XH) :: ((Npos
    (XO (XI XH))) :: ((Npos (XO (XO XH))) :: ((Npos (XO (XO XH))) :: ((Npos
    XH) :: ((Npos (XO (XO XH))) :: ((Npos (XO XH)) :: ((Npos (XO
    XH)) :: ((Npos XH) :: ((Npos (XO (XO XH))) :: ((Npos (XI XH)) :: ((Npos
    (XI XH)) :: ((Npos XH) :: ((Npos (XI XH)) :: ((Npos (XO XH)) :: ((Npos
    (XO XH)) :: ((Npos XH) :: ((Npos (XO (XI XH))) :: ((Npos (XI (XO
    XH))) :: ((Npos (XI (XO XH))) :: ((Npos XH) :: ((Npos (XI (XO
    XH))) :: ((Npos (XO XH)) :: ((Npos (XO XH)) :: ((Npos XH) :: ((Npos (XI
    (XO XH))) :: ((Npos (XI XH)) :: ((Npos (XI XH)) :: ((Npos XH) :: ((Npos
    (XI XH)) :: ((Npos (XO XH)) :: ((Npos (XO XH)) :: ((Npos XH) :: ((Npos
    (XI (XO XH))) :: ((Npos (XO (XO XH))) :: ((Npos (XO (XO XH))) :: ((Npos
    XH) :: ((Npos (XO (XO XH))) :: ((Npos (XO XH)) :: ((Npos (XO
    XH)) :: ((Npos XH) :: ((Npos (XO (XO XH))) :: ((Npos (XI XH)) :: ((Npos
    (XI XH)) :: ((Npos XH) :: ((Npos (XI XH)) :: ((Npos (XO XH)) :: ((Npos
    (XO XH)) :: ((Npos XH) :: ((Npos (XO (XO (XO XH)))) :: ((Npos (XI (XI
    XH))) :: ((Npos (XI (XI XH))) :: ((Npos XH) :: ((Npos (XI (XI
    XH))) :: ((Npos (XO XH)) :: ((Npos (XO XH)) :: ((Npos XH) :: ((Npos (XI
    (XI XH))) :: ((Npos (XI XH)) :: ((Npos (XI XH)) :: ((Npos XH) :: ((Npos
    (XI XH)) :: ((Npos (XO XH)) :: ((Npos (XO XH)) :: ((Npos XH) :: ((Npos
    (XI (XI XH))) :: ((Npos (XO (XO XH))) :: ((Npos (XO (XO XH))) :: ((Npos
    XH) :: ((Npos (XO (XO XH))) :: ((Npos (XO XH)) :: ((Npos (XO
    XH)) :: ((Npos XH) :: ((Npos (XO (XO XH))) :: ((Npos (XI XH)) :: ((Npos
    (XI XH)) :: ((Npos XH) :: ((Npos (XI XH)) :: ((Npos (XO XH)) :: ((Npos
    (XO XH)) :: ((Npos XH) :: ((Npos (XI (XI XH))) :: ((Npos (XI (XO
    XH))) :: ((Npos (XI (XO XH))) :: ((Npos XH) :: ((Npos (XI (XO
    XH))) :: ((Npos (XO XH)) :: ((Npos (XO XH)) :: ((Npos XH) :: ((Npos (XI
    (XO XH))) :: ((Npos (XI XH)) :: ((Npos (XI XH)) :: ((Npos XH) :: ((Npos
    (XI XH)) :: ((Npos (XO XH)) :: ((Npos (XO XH)) :: ((Npos XH) :: ((Npos
    (XI (XO XH))) :: ((Npos (XO (XO XH))) :: ((Npos (XO (XO XH))) :: ((Npos
    XH) :: ((Npos (XO (XO XH))) :: ((Npos (XO XH)) :: ((Npos (XO
    XH)) :: ((Npos XH) :: ((Npos (XO (XO XH))) :: ((Npos (XI XH)) :: ((Npos
    (XI XH)) :: ((Npos XH) :: ((Npos (XI XH)) :: ((Npos (XO XH)) :: ((Npos
    (XO XH)) :: ((Npos XH) :: ((Npos (XI (XI XH))) :: ((Npos (XO (XI
    XH))) :: ((Npos (XO (XI XH))) :: ((Npos XH) :: ((Npos (XO (XI
    XH))) :: ((Npos (XO XH)) :: ((Npos (XO XH)) :: ((Npos XH) :: ((Npos (XO
    (XI XH))) :: ((Npos (XI XH)) :: ((Npos (XI XH)) :: ((Npos XH) :: ((Npos
    (XI XH)) :: ((Npos (XO XH)) :: ((Npos (XO XH)) :: ((Npos XH) :: ((Npos
    (XO (XI XH))) :: ((Npos (XO (XO XH))) :: ((Npos (XO (XO XH))) :: ((Npos
    XH) :: ((Npos (XO (XO XH))) :: ((Npos (XO XH)) :: ((Npos (XO
    XH)) :: ((Npos XH) :: ((Npos (XO (XO XH))) :: ((Npos (XI XH)) :: ((Npos
    (XI XH)) :: ((Npos XH) :: ((Npos (XI XH)) :: ((Npos (XO XH)) :: ((Npos
    (XO XH)) :: ((Npos XH) :: ((Npos (XO (XI XH))) :: ((Npos (XI (XO
    XH))) :: ((Npos (XI (XO XH))) :: ((Npos XH) :: ((Npos (XI (XO
    XH))) :: ((Npos (XO XH)) :: ((Npos (XO XH)) :: ((Npos XH) :: ((Npos (XI
    (XO XH))) :: ((Npos (XI XH)) :: ((Npos (XI XH)) :: ((Npos XH) :: ((Npos
    (XI XH)) :: ((Npos (XO XH)) :: ((Npos (XO XH)) :: ((Npos XH) :: ((Npos
    (XI (XO XH))) :: ((Npos (XO (XO XH))) :: ((Npos (XO (XO XH))) :: ((Npos
    XH) :: ((Npos (XO (XO XH))) :: ((Npos (XO XH)) :: ((Npos (XO
    XH)) :: ((Npos XH) :: ((Npos (XO (XO XH))) :: ((Npos (XI XH)) :: ((Npos
    (XI XH)) :: ((Npos XH) :: ((Npos (XI XH)) :: ((Npos (XO XH)) :: ((Npos
    (XO XH)) :: ((Npos XH) :: ((Npos (XO (XO (XO XH)))) :: ((Npos (XO (XO (XO
    XH)))) :: ((Npos (XO (XO (XO XH)))) :: ((Npos (XO (XO (XO
    XH)))) :: ((Npos (XO (XO (XO XH)))) :: ((Npos (XO (XO (XO
    XH)))) :: ((Npos (XO (XO (XO XH)))) :: ((Npos (XO XH)) :: ((Npos (XO (XO
    (XO XH)))) :: ((Npos (XO (XO (XO XH)))) :: ((Npos (XO (XO (XO
    XH)))) :: ((Npos (XI XH)) :: ((Npos (XO (XO (XO XH)))) :: ((Npos (XI
    XH)) :: ((Npos (XI XH)) :: ((Npos (XO XH)) :: ((Npos (XO (XO (XO
    XH)))) :: ((Npos (XO (XO (XO XH)))) :: ((Npos (XO (XO (XO
    XH)))) :: ((Npos (XO (XO XH))) :: ((Npos (XO (XO (XO XH)))) :: ((Npos (XO
    (XO XH))) :: ((Npos (XO (XO XH))) :: ((Npos (XO XH)) :: ((Npos (XO (XO
    (XO XH)))) :: ((Npos (XO (XO XH))) :: ((Npos (XO (XO XH))) :: ((Npos (XI
    XH)) :: ((Npos (XO (XO XH))) :: ((Npos (XI XH)) :: ((Npos (XI
    XH)) :: ((Npos (XO XH)) :: ((Npos (XO (XO (XO XH)))) :: ((Npos (XO (XO
    (XO XH)))) :: ((Npos (XO (XO (XO XH)))) :: ((Npos (XI (XO XH))) :: ((Npos
    (XO (XO (XO XH)))) :: ((Npos (XI (XO XH))) :: ((Npos (XI (XO
    XH))) :: ((Npos (XO XH)) :: ((Npos (XO (XO (XO XH)))) :: ((Npos (XI (XO
    XH))) :: ((Npos (XI (XO XH))) :: ((Npos (XI XH)) :: ((Npos (XI (XO
    XH))) :: ((Npos (XI XH)) :: ((Npos (XI XH)) :: ((Npos (XO XH)) :: ((Npos
    (XO (XO (XO XH)))) :: ((Npos (XI (XO XH))) :: ((Npos (XI (XO
    XH))) :: ((Npos (XO (XO XH))) :: ((Npos (XI (XO XH))) :: ((Npos (XO (XO
    XH))) :: ((Npos (XO (XO XH))) :: ((Npos (XO XH)) :: ((Npos (XI (XO
    XH))) :: ((Npos (XO (XO XH))) :: ((Npos (XO (XO XH))) :: ((Npos (XI
    XH)) :: ((Npos (XO (XO XH))) :: ((Npos (XI XH)) :: ((Npos (XI
    XH)) :: ((Npos (XO XH)) :: ((Npos (XO (XO (XO XH)))) :: ((Npos (XO (XO
    (XO XH)))) :: ((Npos (XO (XO (XO XH)))) :: ((Npos (XO (XI XH))) :: ((Npos
    (XO (XO (XO XH)))) :: ((Npos (XO (XI XH))) :: ((Npos (XO (XI
    XH))) :: ((Npos (XO XH)) :: ((Npos (XO (XO (XO XH)))) :: ((Npos (XO (XI
    XH))) :: ((Npos (XO (XI XH))) :: ((Npos (XI XH)) :: ((Npos (XO (XI
    XH))) :: ((Npos (XI XH)) :: ((Npos (XI XH)) :: ((Npos (XO XH)) :: ((Npos
    (XO (XO (XO XH)))) :: ((Npos (XO (XI XH))) :: ((Npos (XO (XI
    XH))) :: ((Npos (XO (XO XH))) :: ((Npos (XO (XI XH))) :: ((Npos (XO (XO
    XH))) :: ((Npos (XO (XO XH))) :: ((Npos (XO XH)) :: ((Npos (XO (XI
    XH))) :: ((Npos (XO (XO XH))) :: ((Npos (XO (XO XH))) :: ((Npos (XI
    XH)) :: ((Npos (XO (XO XH))) :: ((Npos (XI XH)) :: ((Npos (XI
    XH)) :: ((Npos (XO XH)) :: ((Npos (XO (XO (XO XH)))) :: ((Npos (XO (XI
    XH))) :: ((Npos (XO (XI XH))) :: ((Npos (XI (XO XH))) :: ((Npos (XO (XI
    XH))) :: ((Npos (XI (XO XH))) :: ((Npos (XI (XO XH))) :: ((Npos (XO
    XH)) :: ((Npos (XO (XI XH))) :: ((Npos (XI (XO XH))) :: ((Npos (XI (XO
    XH))) :: ((Npos (XI XH)) :: ((Npos (XI (XO XH))) :: ((Npos (XI
    XH)) :: ((Npos (XI XH)) :: ((Npos (XO XH)) :: ((Npos (XO (XI
    XH))) :: ((Npos (XI (XO XH))) :: ((Npos (XI (XO XH))) :: ((Npos (XO (XO
    XH))) :: ((Npos (XI (XO XH))) :: ((Npos (XO (XO XH))) :: ((Npos (XO (XO
    XH))) :: ((Npos (XO XH)) :: ((Npos (XI (XO XH))) :: ((Npos (XO (XO
    XH))) :: ((Npos (XO (XO XH))) :: ((Npos (XI XH)) :: ((Npos (XO (XO
    XH))) :: ((Npos (XI XH)) :: ((Npos (XI XH)) :: ((Npos (XO XH)) :: ((Npos
    (XO (XO (XO XH)))) :: ((Npos (XO (XO (XO XH)))) :: ((Npos (XO (XO (XO
    XH)))) :: ((Npos (XI (XI XH))) :: ((Npos (XO (XO (XO XH)))) :: ((Npos (XI
    (XI XH))) :: ((Npos (XI (XI XH))) :: ((Npos (XO XH)) :: ((Npos (XO (XO
    (XO XH)))) :: ((Npos (XI (XI XH))) :: ((Npos (XI (XI XH))) :: ((Npos (XI
    XH)) :: ((Npos (XI (XI XH))) :: ((Npos (XI XH)) :: ((Npos (XI
    XH)) :: ((Npos (XO XH)) :: ((Npos (XO (XO (XO XH)))) :: ((Npos (XI (XI
    XH))) :: ((Npos (XI (XI XH))) :: ((Npos (XO (XO XH))) :: ((Npos (XI (XI
    XH))) :: ((Npos (XO (XO XH))) :: ((Npos (XO (XO XH))) :: ((Npos (XO
    XH)) :: ((Npos (XI (XI XH))) :: ((Npos (XO (XO XH))) :: ((Npos (XO (XO
    XH))) :: ((Npos (XI XH)) :: ((Npos (XO (XO XH))) :: ((Npos (XI
    XH)) :: ((Npos (XI XH)) :: ((Npos (XO XH)) :: ((Npos (XO (XO (XO
    XH)))) :: ((Npos (XI (XI XH))) :: ((Npos (XI (XI XH))) :: ((Npos (XI (XO
    XH))) :: ((Npos (XI (XI XH))) :: ((Npos (XI (XO XH))) :: ((Npos (XI (XO
    XH))) :: ((Npos (XO XH)) :: ((Npos (XI (XI XH))) :: ((Npos (XI (XO
    XH))) :: ((Npos (XI (XO XH))) :: ((Npos (XI XH)) :: ((Npos (XI (XO
    XH))) :: ((Npos (XI XH)) :: ((Npos (XI XH)) :: ((Npos (XO XH)) :: ((Npos
    (XI (XI XH))) :: ((Npos (XI (XO XH))) :: ((Npos (XI (XO XH))) :: ((Npos
    (XO (XO XH))) :: ((Npos (XI (XO XH))) :: ((Npos (XO (XO XH))) :: ((Npos
    (XO (XO XH))) :: ((Npos (XO XH)) :: ((Npos (XI (XO XH))) :: ((Npos (XO
    (XO XH))) :: ((Npos (XO (XO XH))) :: ((Npos (XI XH)) :: ((Npos (XO (XO
    XH))) :: ((Npos (XI XH)) :: ((Npos (XI XH)) :: ((Npos (XO XH)) :: ((Npos
    (XO (XO (XO XH)))) :: ((Npos (XI (XI XH))) :: ((Npos (XI (XI
    XH))) :: ((Npos (XO (XI XH))) :: ((Npos (XI (XI XH))) :: ((Npos (XO (XI
    XH))) :: ((Npos (XO (XI XH))) :: ((Npos (XO XH)) :: ((Npos (XI (XI
    XH))) :: ((Npos (XO (XI XH))) :: ((Npos (XO (XI XH))) :: ((Npos (XI
    XH)) :: ((Npos (XO (XI XH))) :: ((Npos (XI XH)) :: ((Npos (XI
    XH)) :: ((Npos (XO XH)) :: ((Npos (XI (XI XH))) :: ((Npos (XO (XI
    XH))) :: ((Npos (XO (XI XH))) :: ((Npos (XO (XO XH))) :: ((Npos (XO (XI
    XH))) :: ((Npos (XO (XO XH))) :: ((Npos (XO (XO XH))) :: ((Npos (XO
    XH)) :: ((Npos (XO (XI XH))) :: ((Npos (XO (XO XH))) :: ((Npos (XO (XO
    XH))) :: ((Npos (XI XH)) :: ((Npos (XO (XO XH))) :: ((Npos (XI
    XH)) :: ((Npos (XI XH)) :: ((Npos (XO XH)) :: ((Npos (XI (XI
    XH))) :: ((Npos (XO (XI XH))) :: ((Npos (XO (XI XH))) :: ((Npos (XI (XO
    XH))) :: ((Npos (XO (XI XH))) :: ((Npos (XI (XO XH))) :: ((Npos (XI (XO
    XH))) :: ((Npos (XO XH)) :: ((Npos (XO (XI XH))) :: ((Npos (XI (XO
    XH))) :: ((Npos (XI (XO XH))) :: ((Npos (XI XH)) :: ((Npos (XI (XO
    XH))) :: ((Npos (XI XH)) :: ((Npos (XI XH)) :: ((Npos (XO XH)) :: ((Npos
    (XO (XI XH))) :: ((Npos (XI (XO XH))) :: ((Npos (XI (XO XH))) :: ((Npos
    (XO (XO XH))) :: ((Npos (XI (XO XH))) :: ((Npos (XO (XO XH))) :: ((Npos
    (XO (XO XH))) :: ((Npos (XO XH)) :: ((Npos (XI (XO XH))) :: ((Npos (XO
    (XO XH))) :: ((Npos (XO (XO XH))) :: ((Npos (XI XH)) :: ((Npos (XO (XO
    XH))) :: ((Npos (XI XH)) :: ((Npos (XI XH)) :: ((Npos (XO XH)) :: ((Npos
    (XO (XO (XO XH)))) :: ((Npos (XO (XO (XO XH)))) :: ((Npos (XO (XO (XO
    XH)))) :: ((Npos (XO (XO (XO XH)))) :: ((Npos (XO (XO (XO
    XH)))) :: ((Npos (XO (XO (XO XH)))) :: ((Npos (XO (XO (XO
    XH)))) :: ((Npos (XO (XO (XO XH)))) :: ((Npos (XO (XO (XO
    XH)))) :: ((Npos (XO (XO (XO XH)))) :: ((Npos (XO (XO (XO
    XH)))) :: ((Npos (XO (XO (XO XH)))) :: ((Npos (XO (XO (XO
    XH)))) :: ((Npos (XO (XO (XO XH)))) :: ((Npos (XO (XO (XO
    XH)))) :: ((Npos (XI XH)) :: ((Npos (XO (XO (XO XH)))) :: ((Npos (XO (XO
    (XO XH)))) :: ((Npos (XO (XO (XO XH)))) :: ((Npos (XO (XO (XO
    XH)))) :: ((Npos (XO (XO (XO XH)))) :: ((Npos (XO (XO (XO
    XH)))) :: ((Npos (XO (XO (XO XH)))) :: ((Npos (XO (XO XH))) :: ((Npos (XO
    (XO (XO XH)))) :: ((Npos (XO (XO (XO XH)))) :: ((Npos (XO (XO (XO
    XH)))) :: ((Npos (XO (XO XH))) :: ((Npos (XO (XO (XO XH)))) :: ((Npos (XO
    (XO XH))) :: ((Npos (XO (XO XH))) :: ((Npos (XI XH)) :: ((Npos (XO (XO
    (XO XH)))) :: ((Npos (XO (XO (XO XH)))) :: ((Npos (XO (XO (XO
    XH)))) :: ((Npos (XO (XO (XO XH)))) :: ((Npos (XO (XO (XO
    XH)))) :: ((Npos (XO (XO (XO XH)))) :: ((Npos (XO (XO (XO
    XH)))) :: ((Npos (XI (XO XH))) :: ((Npos (XO (XO (XO XH)))) :: ((Npos (XO
    (XO (XO XH)))) :: ((Npos (XO (XO (XO XH)))) :: ((Npos (XI (XO
    XH))) :: ((Npos (XO (XO (XO XH)))) :: ((Npos (XI (XO XH))) :: ((Npos (XI
    (XO XH))) :: ((Npos (XI XH)) :: ((Npos (XO (XO (XO XH)))) :: ((Npos (XO
    (XO (XO XH)))) :: ((Npos (XO (XO (XO XH)))) :: ((Npos (XI (XO
    XH))) :: ((Npos (XO (XO (XO XH)))) :: ((Npos (XI (XO XH))) :: ((Npos (XI
    (XO XH))) :: ((Npos (XO (XO XH))) :: ((Npos (XO (XO (XO XH)))) :: ((Npos
    (XI (XO XH))) :: ((Npos (XI (XO XH))) :: ((Npos (XO (XO XH))) :: ((Npos
    (XI (XO XH))) :: ((Npos (XO (XO XH))) :: ((Npos (XO (XO XH))) :: ((Npos
    (XI XH)) :: ((Npos (XO (XO (XO XH)))) :: ((Npos (XO (XO (XO
    XH)))) :: ((Npos (XO (XO (XO XH)))) :: ((Npos (XO (XO (XO
    XH)))) :: ((Npos (XO (XO (XO XH)))) :: ((Npos (XO (XO (XO
    XH)))) :: ((Npos (XO (XO (XO XH)))) :: ((Npos (XO (XI XH))) :: ((Npos (XO
    (XO (XO XH)))) :: ((Npos (XO (XO (XO XH)))) :: ((Npos (XO (XO (XO
    XH)))) :: ((Npos (XO (XI XH))) :: ((Npos (XO (XO (XO XH)))) :: ((Npos (XO
    (XI XH))) :: ((Npos (XO (XI XH))) :: ((Npos (XI XH)) :: ((Npos (XO (XO
    (XO XH)))) :: ((Npos (XO (XO (XO XH)))) :: ((Npos (XO (XO (XO
    XH)))) :: ((Npos (XO (XI XH))) :: ((Npos (XO (XO (XO XH)))) :: ((Npos (XO
    (XI XH))) :: ((Npos (XO (XI XH))) :: ((Npos (XO (XO XH))) :: ((Npos (XO
    (XO (XO XH)))) :: ((Npos (XO (XI XH))) :: ((Npos (XO (XI XH))) :: ((Npos
    (XO (XO XH))) :: ((Npos (XO (XI XH))) :: ((Npos (XO (XO XH))) :: ((Npos
    (XO (XO XH))) :: ((Npos (XI XH)) :: ((Npos (XO (XO (XO XH)))) :: ((Npos
    (XO (XO (XO XH)))) :: ((Npos (XO (XO (XO XH)))) :: ((Npos (XO (XI
    XH))) :: ((Npos (XO (XO (XO XH)))) :: ((Npos (XO (XI XH))) :: ((Npos (XO
    (XI XH))) :: ((Npos (XI (XO XH))) :: ((Npos (XO (XO (XO XH)))) :: ((Npos
    (XO (XI XH))) :: ((Npos (XO (XI XH))) :: ((Npos (XI (XO XH))) :: ((Npos
    (XO (XI XH))) :: ((Npos (XI (XO XH))) :: ((Npos (XI (XO XH))) :: ((Npos
    (XI XH)) :: ((Npos (XO (XO (XO XH)))) :: ((Npos (XO (XI XH))) :: ((Npos
    (XO (XI XH))) :: ((Npos (XI (XO XH))) :: ((Npos (XO (XI XH))) :: ((Npos
    (XI (XO XH))) :: ((Npos (XI (XO XH))) :: ((Npos (XO (XO XH))) :: ((Npos
    (XO (XI XH))) :: ((Npos (XI (XO XH))) :: ((Npos (XI (XO XH))) :: ((Npos
    (XO (XO XH))) :: ((Npos (XI (XO XH))) :: ((Npos (XO (XO XH))) :: ((Npos
    (XO (XO XH))) :: ((Npos (XI XH)) :: ((Npos (XO (XO (XO XH)))) :: ((Npos
    (XO (XO (XO XH)))) :: ((Npos (XO (XO (XO XH)))) :: ((Npos (XO (XO (XO
    XH)))) :: ((Npos (XO (XO (XO XH)))) :: ((Npos (XO (XO (XO
    XH)))) :: ((Npos (XO (XO (XO XH)))) :: ((Npos (XI (XI XH))) :: ((Npos (XO
    (XO (XO XH)))) :: ((Npos (XO (XO (XO XH)))) :: ((Npos (XO (XO (XO
    XH)))) :: ((Npos (XI (XI XH))) :: ((Npos (XO (XO (XO XH)))) :: ((Npos (XI
    (XI XH))) :: ((Npos (XI (XI XH))) :: ((Npos (XI XH)) :: ((Npos (XO (XO
    (XO XH)))) :: ((Npos (XO (XO (XO XH)))) :: ((Npos (XO (XO (XO
    XH)))) :: ((Npos (XI (XI XH))) :: ((Npos (XO (XO (XO XH)))) :: ((Npos (XI
    (XI XH))) :: ((Npos (XI (XI XH))) :: ((Npos (XO (XO XH))) :: ((Npos (XO
    (XO (XO XH)))) :: ((Npos (XI (XI XH))) :: ((Npos (XI (XI XH))) :: ((Npos
    (XO (XO XH))) :: ((Npos (XI (XI XH))) :: ((Npos (XO (XO XH))) :: ((Npos
    (XO (XO XH))) :: ((Npos (XI XH)) :: ((Npos (XO (XO (XO XH)))) :: ((Npos
    (XO (XO (XO XH)))) :: ((Npos (XO (XO (XO XH)))) :: ((Npos (XI (XI
    XH))) :: ((Npos (XO (XO (XO XH)))) :: ((Npos (XI (XI XH))) :: ((Npos (XI
    (XI XH))) :: ((Npos (XI (XO XH))) :: ((Npos (XO (XO (XO XH)))) :: ((Npos
    (XI (XI XH))) :: ((Npos (XI (XI XH))) :: ((Npos (XI (XO XH))) :: ((Npos
    (XI (XI XH))) :: ((Npos (XI (XO XH))) :: ((Npos (XI (XO XH))) :: ((Npos
    (XI XH)) :: ((Npos (XO (XO (XO XH)))) :: ((Npos (XI (XI XH))) :: ((Npos
    (XI (XI XH))) :: ((Npos (XI (XO XH))) :: ((Npos (XI (XI XH))) :: ((Npos
    (XI (XO XH))) :: ((Npos (XI (XO XH))) :: ((Npos (XO (XO XH))) :: ((Npos
    (XI (XI XH))) :: ((Npos (XI (XO XH))) :: ((Npos (XI (XO XH))) :: ((Npos
    (XO (XO XH))) :: ((Npos (XI (XO XH))) :: ((Npos (XO (XO XH))) :: ((Npos
    (XO (XO XH))) :: ((Npos (XI XH)) :: ((Npos (XO (XO (XO XH)))) :: ((Npos
    (XO (XO (XO XH)))) :: ((Npos (XO (XO (XO XH)))) :: ((Npos (XI (XI
    XH))) :: ((Npos (XO (XO (XO XH)))) :: ((Npos (XI (XI XH))) :: ((Npos (XI
    (XI XH))) :: ((Npos (XO (XI XH))) :: ((Npos (XO (XO (XO XH)))) :: ((Npos
    (XI (XI XH))) :: ((Npos (XI (XI XH))) :: ((Npos (XO (XI XH))) :: ((Npos
    (XI (XI XH))) :: ((Npos (XO (XI XH))) :: ((Npos (XO (XI XH))) :: ((Npos
    (XI XH)) :: ((Npos (XO (XO (XO XH)))) :: ((Npos (XI (XI XH))) :: ((Npos
    (XI (XI XH))) :: ((Npos (XO (XI XH))) :: ((Npos (XI (XI XH))) :: ((Npos
    (XO (XI XH))) :: ((Npos (XO (XI XH))) :: ((Npos (XO (XO XH))) :: ((Npos
    (XI (XI XH))) :: ((Npos (XO (XI XH))) :: ((Npos (XO (XI XH))) :: ((Npos
    (XO (XO XH))) :: ((Npos (XO (XI XH))) :: ((Npos (XO (XO XH))) :: ((Npos
    (XO (XO XH))) :: ((Npos (XI XH)) :: ((Npos (XO (XO (XO XH)))) :: ((Npos
    (XI (XI XH))) :: ((Npos (XI (XI XH))) :: ((Npos (XO (XI XH))) :: ((Npos
    (XI (XI XH))) :: ((Npos (XO (XI XH))) :: ((Npos (XO (XI XH))) :: ((Npos
    (XI (XO XH))) :: ((Npos (XI (XI XH))) :: ((Npos (XO (XI XH))) :: ((Npos
    (XO (XI XH))) :: ((Npos (XI (XO XH))) :: ((Npos (XO (XI XH))) :: ((Npos
    (XI (XO XH))) :: ((Npos (XI (XO XH))) :: ((Npos (XI XH)) :: ((Npos (XI
    (XI XH))) :: ((Npos (XO (XI XH))) :: ((Npos (XO (XI XH))) :: ((Npos (XI
    (XO XH))) :: ((Npos (XO (XI XH))) :: ((Npos (XI (XO XH))) :: ((Npos (XI
    (XO XH))) :: ((Npos (XO (XO XH))) :: ((Npos (XO (XI XH))) :: ((Npos (XI
    (XO XH))) :: ((Npos (XI (XO XH))) :: ((Npos (XO (XO XH))) :: ((Npos (XI
    (XO XH))) :: ((Npos (XO (XO XH))) :: ((Npos (XO (XO XH))) :: ((Npos (XI
    XH)) :: ((Npos (XO (XO (XO XH)))) :: ((Npos (XO (XO (XO XH)))) :: ((Npos
    (XO (XO (XO XH)))) :: ((Npos (XO (XO (XO XH)))) :: ((Npos (XO (XO (XO
    XH)))) :: ((Npos (XO (XO (XO XH)))) :: ((Npos (XO (XO (XO
    XH)))) :: ((Npos (XO (XO (XO XH)))) :: ((Npos (XO (XO (XO
    XH)))) :: ((Npos (XO (XO (XO XH)))) :: ((Npos (XO (XO (XO
    XH)))) :: ((Npos (XO (XO (XO XH)))) :: ((Npos (XO (XO (XO
    XH)))) :: ((Npos (XO (XO (XO XH)))) :: ((Npos (XO (XO (XO
    XH)))) :: ((Npos (XO (XO (XO XH)))) :: ((Npos (XO (XO (XO
    XH)))) :: ((Npos (XO (XO (XO XH)))) :: ((Npos (XO (XO (XO
    XH)))) :: ((Npos (XO (XO (XO XH)))) :: ((Npos (XO (XO (XO
    XH)))) :: ((Npos (XO (XO (XO XH)))) :: ((Npos (XO (XO (XO
    XH)))) :: ((Npos (XO (XO (XO XH)))) :: ((Npos (XO (XO (XO
    XH)))) :: ((Npos (XO (XO (XO XH)))) :: ((Npos (XO (XO (XO
    XH)))) :: ((Npos (XO (XO (XO XH)))) :: ((Npos (XO (XO (XO
    XH)))) :: ((Npos (XO (XO (XO XH)))) :: ((Npos (XO (XO (XO
    XH)))) :: ((Npos (XO (XO XH))) :: ((Npos (XO (XO (XO XH)))) :: ((Npos (XO
    (XO (XO XH)))) :: ((Npos (XO (XO (XO XH)))) :: ((Npos (XO (XO (XO
    XH)))) :: ((Npos (XO (XO (XO XH)))) :: ((Npos (XO (XO (XO
    XH)))) :: ((Npos (XO (XO (XO XH)))) :: ((Npos (XO (XO (XO
    XH)))) :: ((Npos (XO (XO (XO XH)))) :: ((Npos (XO (XO (XO
    XH)))) :: ((Npos (XO (XO (XO XH)))) :: ((Npos (XO (XO (XO
    XH)))) :: ((Npos (XO (XO (XO XH)))) :: ((Npos (XO (XO (XO
    XH)))) :: ((Npos (XO (XO (XO XH)))) :: ((Npos (XI (XO XH))) :: ((Npos (XO
    (XO (XO XH)))) :: ((Npos (XO (XO (XO XH)))) :: ((Npos (XO (XO (XO
    XH)))) :: ((Npos (XO (XO (XO XH)))) :: ((Npos (XO (XO (XO
    XH)))) :: ((Npos (XO (XO (XO XH)))) :: ((Npos (XO (XO (XO
    XH)))) :: ((Npos (XI (XO XH))) :: ((Npos (XO (XO (XO XH)))) :: ((Npos (XO
    (XO (XO XH)))) :: ((Npos (XO (XO (XO XH)))) :: ((Npos (XI (XO
    XH))) :: ((Npos (XO (XO (XO XH)))) :: ((Npos (XI (XO XH))) :: ((Npos (XI
    (XO XH))) :: ((Npos (XO (XO XH))) :: ((Npos (XO (XO (XO XH)))) :: ((Npos
    (XO (XO (XO XH)))) :: ((Npos (XO (XO (XO XH)))) :: ((Npos (XO (XO (XO
    XH)))) :: ((Npos (XO (XO (XO XH)))) :: ((Npos (XO (XO (XO
    XH)))) :: ((Npos (XO (XO (XO XH)))) :: ((Npos (XO (XO (XO
    XH)))) :: ((Npos (XO (XO (XO XH)))) :: ((Npos (XO (XO (XO
    XH)))) :: ((Npos (XO (XO (XO XH)))) :: ((Npos (XO (XO (XO
    XH)))) :: ((Npos (XO (XO (XO XH)))) :: ((Npos (XO (XO (XO
    XH)))) :: ((Npos (XO (XO (XO XH)))) :: ((Npos (XO (XI XH))) :: ((Npos (XO
    (XO (XO XH)))) :: ((Npos (XO (XO (XO XH)))) :: ((Npos (XO (XO (XO
    XH)))) :: ((Npos (XO (XO (XO XH)))) :: ((Npos (XO (XO (XO
    XH)))) :: ((Npos (XO (XO (XO XH)))) :: ((Npos (XO (XO (XO
    XH)))) :: ((Npos (XO (XI XH))) :: ((Npos (XO (XO (XO XH)))) :: ((Npos (XO
    (XO (XO XH)))) :: ((Npos (XO (XO (XO XH)))) :: ((Npos (XO (XI
    XH))) :: ((Npos (XO (XO (XO XH)))) :: ((Npos (XO (XI XH))) :: ((Npos (XO
    (XI XH))) :: ((Npos (XO (XO XH))) :: ((Npos (XO (XO (XO XH)))) :: ((Npos
    (XO (XO (XO XH)))) :: ((Npos (XO (XO (XO XH)))) :: ((Npos (XO (XO (XO
    XH)))) :: ((Npos (XO (XO (XO XH)))) :: ((Npos (XO (XO (XO
    XH)))) :: ((Npos (XO (XO (XO XH)))) :: ((Npos (XO (XI XH))) :: ((Npos (XO
    (XO (XO XH)))) :: ((Npos (XO (XO (XO XH)))) :: ((Npos (XO (XO (XO
    XH)))) :: ((Npos (XO (XI XH))) :: ((Npos (XO (XO (XO XH)))) :: ((Npos (XO
    (XI XH))) :: ((Npos (XO (XI XH))) :: ((Npos (XI (XO XH))) :: ((Npos (XO
    (XO (XO XH)))) :: ((Npos (XO (XO (XO XH)))) :: ((Npos (XO (XO (XO
    XH)))) :: ((Npos (XO (XI XH))) :: ((Npos (XO (XO (XO XH)))) :: ((Npos (XO
    (XI XH))) :: ((Npos (XO (XI XH))) :: ((Npos (XI (XO XH))) :: ((Npos (XO
    (XO (XO XH)))) :: ((Npos (XO (XI XH))) :: ((Npos (XO (XI XH))) :: ((Npos
    (XI (XO XH))) :: ((Npos (XO (XI XH))) :: ((Npos (XI (XO XH))) :: ((Npos
    (XI (XO XH))) :: ((Npos (XO (XO XH))) :: ((Npos (XO (XO (XO
    XH)))) :: ((Npos (XO (XO (XO XH)))) :: ((Npos (XO (XO (XO
    XH)))) :: ((Npos (XO (XO (XO XH)))) :: ((Npos (XO (XO (XO
    XH)))) :: ((Npos (XO (XO (XO XH)))) :: ((Npos (XO (XO (XO
    XH)))) :: ((Npos (XO (XO (XO XH)))) :: ((Npos (XO (XO (XO
    XH)))) :: ((Npos (XO (XO (XO XH)))) :: ((Npos (XO (XO (XO
    XH)))) :: ((Npos (XO (XO (XO XH)))) :: ((Npos (XO (XO (XO
    XH)))) :: ((Npos (XO (XO (XO XH)))) :: ((Npos (XO (XO (XO
    XH)))) :: ((Npos (XI (XI XH))) :: ((Npos (XO (XO (XO XH)))) :: ((Npos (XO
    (XO (XO XH)))) :: ((Npos (XO (XO (XO XH)))) :: ((Npos (XO (XO (XO
    XH)))) :: ((Npos (XO (XO (XO XH)))) :: ((Npos (XO (XO (XO
    XH)))) :: ((Npos (XO (XO (XO XH)))) :: ((Npos (XI (XI XH))) :: ((Npos (XO
    (XO (XO XH)))) :: ((Npos (XO (XO (XO XH)))) :: ((Npos (XO (XO (XO
    XH)))) :: ((Npos (XI (XI XH))) :: ((Npos (XO (XO (XO XH)))) :: ((Npos (XI
    (XI XH))) :: ((Npos (XI (XI XH))) :: ((Npos (XO (XO XH))) :: ((Npos (XO
    (XO (XO XH)))) :: ((Npos (XO (XO (XO XH)))) :: ((Npos (XO (XO (XO
    XH)))) :: ((Npos (XO (XO (XO XH)))) :: ((Npos (XO (XO (XO
    XH)))) :: ((Npos (XO (XO (XO XH)))) :: ((Npos (XO (XO (XO
    XH)))) :: ((Npos (XI (XI XH))) :: ((Npos (XO (XO (XO XH)))) :: ((Npos (XO
    (XO (XO XH)))) :: ((Npos (XO (XO (XO XH)))) :: ((Npos (XI (XI
    XH))) :: ((Npos (XO (XO (XO XH)))) :: ((Npos (XI (XI XH))) :: ((Npos (XI
    (XI XH))) :: ((Npos (XI (XO XH))) :: ((Npos (XO (XO (XO XH)))) :: ((Npos
    (XO (XO (XO XH)))) :: ((Npos (XO (XO (XO XH)))) :: ((Npos (XI (XI
    XH))) :: ((Npos (XO (XO (XO XH)))) :: ((Npos (XI (XI XH))) :: ((Npos (XI
    (XI XH))) :: ((Npos (XI (XO XH))) :: ((Npos (XO (XO (XO XH)))) :: ((Npos
    (XI (XI XH))) :: ((Npos (XI (XI XH))) :: ((Npos (XI (XO XH))) :: ((Npos
    (XI (XI XH))) :: ((Npos (XI (XO XH))) :: ((Npos (XI (XO XH))) :: ((Npos
    (XO (XO XH))) :: ((Npos (XO (XO (XO XH)))) :: ((Npos (XO (XO (XO
    XH)))) :: ((Npos (XO (XO (XO XH)))) :: ((Npos (XO (XO (XO
    XH)))) :: ((Npos (XO (XO (XO XH)))) :: ((Npos (XO (XO (XO
    XH)))) :: ((Npos (XO (XO (XO XH)))) :: ((Npos (XI (XI XH))) :: ((Npos (XO
    (XO (XO XH)))) :: ((Npos (XO (XO (XO XH)))) :: ((Npos (XO (XO (XO
    XH)))) :: ((Npos (XI (XI XH))) :: ((Npos (XO (XO (XO XH)))) :: ((Npos (XI
    (XI XH))) :: ((Npos (XI (XI XH))) :: ((Npos (XO (XI XH))) :: ((Npos (XO
    (XO (XO XH)))) :: ((Npos (XO (XO (XO XH)))) :: ((Npos (XO (XO (XO
    XH)))) :: ((Npos (XI (XI XH))) :: ((Npos (XO (XO (XO XH)))) :: ((Npos (XI
    (XI XH))) :: ((Npos (XI (XI XH))) :: ((Npos (XO (XI XH))) :: ((Npos (XO
    (XO (XO XH)))) :: ((Npos (XI (XI XH))) :: ((Npos (XI (XI XH))) :: ((Npos
    (XO (XI XH))) :: ((Npos (XI (XI XH))) :: ((Npos (XO (XI XH))) :: ((Npos
    (XO (XI XH))) :: ((Npos (XO (XO XH))) :: ((Npos (XO (XO (XO
    XH)))) :: ((Npos (XO (XO (XO XH)))) :: ((Npos (XO (XO (XO
    XH)))) :: ((Npos (XI (XI XH))) :: ((Npos (XO (XO (XO XH)))) :: ((Npos (XI
    (XI XH))) :: ((Npos (XI (XI XH))) :: ((Npos (XO (XI XH))) :: ((Npos (XO
    (XO (XO XH)))) :: ((Npos (XI (XI XH))) :: ((Npos (XI (XI XH))) :: ((Npos
    (XO (XI XH))) :: ((Npos (XI (XI XH))) :: ((Npos (XO (XI XH))) :: ((Npos
    (XO (XI XH))) :: ((Npos (XI (XO XH))) :: ((Npos (XO (XO (XO
    XH)))) :: ((Npos (XI (XI XH))) :: ((Npos (XI (XI XH))) :: ((Npos (XO (XI
    XH))) :: ((Npos (XI (XI XH))) :: ((Npos (XO (XI XH))) :: ((Npos (XO (XI
    XH))) :: ((Npos (XI (XO XH))) :: ((Npos (XI (XI XH))) :: ((Npos (XO (XI
    XH))) :: ((Npos (XO (XI XH))) :: ((Npos (XI (XO XH))) :: ((Npos (XO (XI
    XH))) :: ((Npos (XI (XO XH))) :: ((Npos (XI (XO XH))) :: ((Npos (XO (XO
    XH))) :: ((Npos (XO (XO (XO XH)))) :: ((Npos (XO (XO (XO XH)))) :: ((Npos
    (XO (XO (XO XH)))) :: ((Npos (XO (XO (XO XH)))) :: ((Npos (XO (XO (XO
    XH)))) :: ((Npos (XO (XO (XO XH)))) :: ((Npos (XO (XO (XO
    XH)))) :: ((Npos (XO (XO (XO XH)))) :: ((Npos (XO (XO (XO
    XH)))) :: ((Npos (XO (XO (XO XH)))) :: ((Npos (XO (XO (XO
    XH)))) :: ((Npos (XO (XO (XO XH)))) :: ((Npos (XO (XO (XO
    XH)))) :: ((Npos (XO (XO (XO XH)))) :: ((Npos (XO (XO (XO
    XH)))) :: ((Npos (XO (XO (XO XH)))) :: ((Npos (XO (XO (XO
    XH)))) :: ((Npos (XO (XO (XO XH)))) :: ((Npos (XO (XO (XO
    XH)))) :: ((Npos (XO (XO (XO XH)))) :: ((Npos (XO (XO (XO
    XH)))) :: ((Npos (XO (XO (XO XH)))) :: ((Npos (XO (XO (XO
    XH)))) :: ((Npos (XO (XO (XO XH)))) :: ((Npos (XO (XO (XO
    XH)))) :: ((Npos (XO (XO (XO XH)))) :: ((Npos (XO (XO (XO
    XH)))) :: ((Npos (XO (XO (XO XH)))) :: ((Npos (XO (XO (XO
    XH)))) :: ((Npos (XO (XO (XO XH)))) :: ((Npos (XO (XO (XO
    XH)))) :: ((Npos (XO (XO (XO XH)))) :: ((Npos (XO (XO (XO
    XH)))) :: ((Npos (XO (XO (XO XH)))) :: ((Npos (XO (XO (XO
    XH)))) :: ((Npos (XO (XO (XO XH)))) :: ((Npos (XO (XO (XO
    XH)))) :: ((Npos (XO (XO (XO XH)))) :: ((Npos (XO (XO (XO
    XH)))) :: ((Npos (XO (XO (XO XH)))) :: ((Npos (XO (XO (XO
    XH)))) :: ((Npos (XO (XO (XO XH)))) :: ((Npos (XO (XO (XO
    XH)))) :: ((Npos (XO (XO (XO XH)))) :: ((Npos (XO (XO (XO
    XH)))) :: ((Npos (XO (XO (XO XH)))) :: ((Npos (XO (XO (XO
    XH)))) :: ((Npos (XO (XO (XO XH)))) :: ((Npos (XO (XO (XO
    XH)))) :: ((Npos (XO (XO (XO XH)))) :: ((Npos (XO (XO (XO
    XH)))) :: ((Npos (XO (XO (XO XH)))) :: ((Npos (XO (XO (XO
    XH)))) :: ((Npos (XO (XO (XO XH)))) :: ((Npos (XO (XO (XO
    XH)))) :: ((Npos (XO (XO (XO XH)))) :: ((Npos (XO (XO (XO
    XH)))) :: ((Npos (XO (XO (XO XH)))) :: ((Npos (XO (XO (XO
    XH)))) :: ((Npos (XO (XO (XO XH)))) :: ((Npos (XO (XO (XO
    XH)))) :: ((Npos (XO (XO (XO XH)))) :: ((Npos (XO (XO (XO
    XH)))) :: ((Npos (XI (XO XH))) :: ((Npos (XO (XO (XO XH)))) :: ((Npos (XO
    (XO (XO XH)))) :: ((Npos (XO (XO (XO XH)))) :: ((Npos (XO (XO (XO
    XH)))) :: ((Npos (XO (XO (XO XH)))) :: ((Npos (XO (XO (XO
    XH)))) :: ((Npos (XO (XO (XO XH)))) :: ((Npos (XO (XO (XO
    XH)))) :: ((Npos (XO (XO (XO XH)))) :: ((Npos (XO (XO (XO
    XH)))) :: ((Npos (XO (XO (XO XH)))) :: ((Npos (XO (XO (XO
    XH)))) :: ((Npos (XO (XO (XO XH)))) :: ((Npos (XO (XO (XO
    XH)))) :: ((Npos (XO (XO (XO XH)))) :: ((Npos (XO (XO (XO
    XH)))) :: ((Npos (XO (XO (XO XH)))) :: ((Npos (XO (XO (XO
    XH)))) :: ((Npos (XO (XO (XO XH)))) :: ((Npos (XO (XO (XO
    XH)))) :: ((Npos (XO (XO (XO XH)))) :: ((Npos (XO (XO (XO
    XH)))) :: ((Npos (XO (XO (XO XH)))) :: ((Npos (XO (XO (XO
    XH)))) :: ((Npos (XO (XO (XO XH)))) :: ((Npos (XO (XO (XO
    XH)))) :: ((Npos (XO (XO (XO XH)))) :: ((Npos (XO (XO (XO
    XH)))) :: ((Npos (XO (XO (XO XH)))) :: ((Npos (XO (XO (XO
    XH)))) :: ((Npos (XO (XO (XO XH)))) :: ((Npos (XO (XI XH))) :: ((Npos (XO
    (XO (XO XH)))) :: ((Npos (XO (XO (XO XH)))) :: ((Npos (XO (XO (XO
    XH)))) :: ((Npos (XO (XO (XO XH)))) :: ((Npos (XO (XO (XO
    XH)))) :: ((Npos (XO (XO (XO XH)))) :: ((Npos (XO (XO (XO
    XH)))) :: ((Npos (XO (XO (XO XH)))) :: ((Npos (XO (XO (XO
    XH)))) :: ((Npos (XO (XO (XO XH)))) :: ((Npos (XO (XO (XO
    XH)))) :: ((Npos (XO (XO (XO XH)))) :: ((Npos (XO (XO (XO
    XH)))) :: ((Npos (XO (XO (XO XH)))) :: ((Npos (XO (XO (XO
    XH)))) :: ((Npos (XO (XI XH))) :: ((Npos (XO (XO (XO XH)))) :: ((Npos (XO
    (XO (XO XH)))) :: ((Npos (XO (XO (XO XH)))) :: ((Npos (XO (XO (XO
    XH)))) :: ((Npos (XO (XO (XO XH)))) :: ((Npos (XO (XO (XO
    XH)))) :: ((Npos (XO (XO (XO XH)))) :: ((Npos (XO (XI XH))) :: ((Npos (XO
    (XO (XO XH)))) :: ((Npos (XO (XO (XO XH)))) :: ((Npos (XO (XO (XO
    XH)))) :: ((Npos (XO (XI XH))) :: ((Npos (XO (XO (XO XH)))) :: ((Npos (XO
    (XI XH))) :: ((Npos (XO (XI XH))) :: ((Npos (XI (XO XH))) :: ((Npos (XO
    (XO (XO XH)))) :: ((Npos (XO (XO (XO XH)))) :: ((Npos (XO (XO (XO
    XH)))) :: ((Npos (XO (XO (XO XH)))) :: ((Npos (XO (XO (XO
    XH)))) :: ((Npos (XO (XO (XO XH)))) :: ((Npos (XO (XO (XO
    XH)))) :: ((Npos (XO (XO (XO XH)))) :: ((Npos (XO (XO (XO
    XH)))) :: ((Npos (XO (XO (XO XH)))) :: ((Npos (XO (XO (XO
    XH)))) :: ((Npos (XO (XO (XO XH)))) :: ((Npos (XO (XO (XO
    XH)))) :: ((Npos (XO (XO (XO XH)))) :: ((Npos (XO (XO (XO
    XH)))) :: ((Npos (XO (XO (XO XH)))) :: ((Npos (XO (XO (XO
    XH)))) :: ((Npos (XO (XO (XO XH)))) :: ((Npos (XO (XO (XO
    XH)))) :: ((Npos (XO (XO (XO XH)))) :: ((Npos (XO (XO (XO
    XH)))) :: ((Npos (XO (XO (XO XH)))) :: ((Npos (XO (XO (XO
    XH)))) :: ((Npos (XO (XO (XO XH)))) :: ((Npos (XO (XO (XO
    XH)))) :: ((Npos (XO (XO (XO XH)))) :: ((Npos (XO (XO (XO
    XH)))) :: ((Npos (XO (XO (XO XH)))) :: ((Npos (XO (XO (XO
    XH)))) :: ((Npos (XO (XO (XO XH)))) :: ((Npos (XO (XO (XO
    XH)))) :: ((Npos (XI (XI XH))) :: ((Npos (XO (XO (XO XH)))) :: ((Npos (XO
    (XO (XO XH)))) :: ((Npos (XO (XO (XO XH)))) :: ((Npos (XO (XO (XO
    XH)))) :: ((Npos (XO (XO (XO XH)))) :: ((Npos (XO (XO (XO
    XH)))) :: ((Npos (XO (XO (XO XH)))) :: ((Npos (XO (XO (XO
    XH)))) :: ((Npos (XO (XO (XO XH)))) :: ((Npos (XO (XO (XO
    XH)))) :: ((Npos (XO (XO (XO XH)))) :: ((Npos (XO (XO (XO
    XH)))) :: ((Npos (XO (XO (XO XH)))) :: ((Npos (XO (XO (XO
    XH)))) :: ((Npos (XO (XO (XO XH)))) :: ((Npos (XI (XI XH))) :: ((Npos (XO
    (XO (XO XH)))) :: ((Npos (XO (XO (XO XH)))) :: ((Npos (XO (XO (XO
    XH)))) :: ((Npos (XO (XO (XO XH)))) :: ((Npos (XO (XO (XO
    XH)))) :: ((Npos (XO (XO (XO XH)))) :: ((Npos (XO (XO (XO
    XH)))) :: ((Npos (XI (XI XH))) :: ((Npos (XO (XO (XO XH)))) :: ((Npos (XO
    (XO (XO XH)))) :: ((Npos (XO (XO (XO XH)))) :: ((Npos (XI (XI
    XH))) :: ((Npos (XO (XO (XO XH)))) :: ((Npos (XI (XI XH))) :: ((Npos (XI
    (XI XH))) :: ((Npos (XI (XO XH))) :: ((Npos (XO (XO (XO XH)))) :: ((Npos
    (XO (XO (XO XH)))) :: ((Npos (XO (XO (XO XH)))) :: ((Npos (XO (XO (XO
    XH)))) :: ((Npos (XO (XO (XO XH)))) :: ((Npos (XO (XO (XO
    XH)))) :: ((Npos (XO (XO (XO XH)))) :: ((Npos (XO (XO (XO
    XH)))) :: ((Npos (XO (XO (XO XH)))) :: ((Npos (XO (XO (XO
    XH)))) :: ((Npos (XO (XO (XO XH)))) :: ((Npos (XO (XO (XO
    XH)))) :: ((Npos (XO (XO (XO XH)))) :: ((Npos (XO (XO (XO
    XH)))) :: ((Npos (XO (XO (XO XH)))) :: ((Npos (XI (XI XH))) :: ((Npos (XO
    (XO (XO XH)))) :: ((Npos (XO (XO (XO XH)))) :: ((Npos (XO (XO (XO
    XH)))) :: ((Npos (XO (XO (XO XH)))) :: ((Npos (XO (XO (XO
    XH)))) :: ((Npos (XO (XO (XO XH)))) :: ((Npos (XO (XO (XO
    XH)))) :: ((Npos (XI (XI XH))) :: ((Npos (XO (XO (XO XH)))) :: ((Npos (XO
    (XO (XO XH)))) :: ((Npos (XO (XO (XO XH)))) :: ((Npos (XI (XI
    XH))) :: ((Npos (XO (XO (XO XH)))) :: ((Npos (XI (XI XH))) :: ((Npos (XI
    (XI XH))) :: ((Npos (XO (XI XH))) :: ((Npos (XO (XO (XO XH)))) :: ((Npos
    (XO (XO (XO XH)))) :: ((Npos (XO (XO (XO XH)))) :: ((Npos (XO (XO (XO
    XH)))) :: ((Npos (XO (XO (XO XH)))) :: ((Npos (XO (XO (XO
    XH)))) :: ((Npos (XO (XO (XO XH)))) :: ((Npos (XI (XI XH))) :: ((Npos (XO
    (XO (XO XH)))) :: ((Npos (XO (XO (XO XH)))) :: ((Npos (XO (XO (XO
    XH)))) :: ((Npos (XI (XI XH))) :: ((Npos (XO (XO (XO XH)))) :: ((Npos (XI
    (XI XH))) :: ((Npos (XI (XI XH))) :: ((Npos (XO (XI XH))) :: ((Npos (XO
    (XO (XO XH)))) :: ((Npos (XO (XO (XO XH)))) :: ((Npos (XO (XO (XO
    XH)))) :: ((Npos (XI (XI XH))) :: ((Npos (XO (XO (XO XH)))) :: ((Npos (XI
    (XI XH))) :: ((Npos (XI (XI XH))) :: ((Npos (XO (XI XH))) :: ((Npos (XO
    (XO (XO XH)))) :: ((Npos (XI (XI XH))) :: ((Npos (XI (XI XH))) :: ((Npos
    (XO (XI XH))) :: ((Npos (XI (XI XH))) :: ((Npos (XO (XI XH))) :: ((Npos
    (XO (XI XH))) :: ((Npos (XI (XO XH))) :: ((Npos (XO (XO (XO
    XH)))) :: ((Npos (XO (XO (XO XH)))) :: ((Npos (XO (XO (XO
    XH)))) :: ((Npos (XO (XO (XO XH)))) :: ((Npos (XO (XO (XO
    XH)))) :: ((Npos (XO (XO (XO XH)))) :: ((Npos (XO (XO (XO
    XH)))) :: ((Npos (XO (XO (XO XH)))) :: ((Npos (XO (XO (XO
    XH)))) :: ((Npos (XO (XO (XO XH)))) :: ((Npos (XO (XO (XO
    XH)))) :: ((Npos (XO (XO (XO XH)))) :: ((Npos (XO (XO (XO
    XH)))) :: ((Npos (XO (XO (XO XH)))) :: ((Npos (XO (XO (XO
    XH)))) :: ((Npos (XO (XO (XO XH)))) :: ((Npos (XO (XO (XO
    XH)))) :: ((Npos (XO (XO (XO XH)))) :: ((Npos (XO (XO (XO
    XH)))) :: ((Npos (XO (XO (XO XH)))) :: ((Npos (XO (XO (XO
    XH)))) :: ((Npos (XO (XO (XO XH)))) :: ((Npos (XO (XO (XO
    XH)))) :: ((Npos (XO (XO (XO XH)))) :: ((Npos (XO (XO (XO
    XH)))) :: ((Npos (XO (XO (XO XH)))) :: ((Npos (XO (XO (XO
    XH)))) :: ((Npos (XO (XO (XO XH)))) :: ((Npos (XO (XO (XO
    XH)))) :: ((Npos (XO (XO (XO XH)))) :: ((Npos (XO (XO (XO
    XH)))) :: ((Npos (XO (XO (XO XH)))) :: ((Npos (XO (XO (XO
    XH)))) :: ((Npos (XO (XO (XO XH)))) :: ((Npos (XO (XO (XO
    XH)))) :: ((Npos (XO (XO (XO XH)))) :: ((Npos (XO (XO (XO
    XH)))) :: ((Npos (XO (XO (XO XH)))) :: ((Npos (XO (XO (XO
    XH)))) :: ((Npos (XO (XO (XO XH)))) :: ((Npos (XO (XO (XO
    XH)))) :: ((Npos (XO (XO (XO XH)))) :: ((Npos (XO (XO (XO
    XH)))) :: ((Npos (XO (XO (XO XH)))) :: ((Npos (XO (XO (XO
    XH)))) :: ((Npos (XO (XO (XO XH)))) :: ((Npos (XO (XO (XO
    XH)))) :: ((Npos (XO (XO (XO XH)))) :: ((Npos (XO (XO (XO
    XH)))) :: ((Npos (XO (XO (XO XH)))) :: ((Npos (XO (XO (XO
    XH)))) :: ((Npos (XO (XO (XO XH)))) :: ((Npos (XO (XO (XO
    XH)))) :: ((Npos (XO (XO (XO XH)))) :: ((Npos (XO (XO (XO
    XH)))) :: ((Npos (XO (XO (XO XH)))) :: ((Npos (XO (XO (XO
    XH)))) :: ((Npos (XO (XO (XO XH)))) :: ((Npos (XO (XO (XO
    XH)))) :: ((Npos (XO (XO (XO XH)))) :: ((Npos (XO (XO (XO
    XH)))) :: ((Npos (XO (XO (XO XH)))) :: ((Npos (XO (XO (XO
    XH)))) :: ((Npos (XO (XO (XO XH)))) :: ((Npos (XO (XO (XO
    XH)))) :: ((Npos (XO (XO (XO XH)))) :: ((Npos (XO (XO (XO
    XH)))) :: ((Npos (XO (XO (XO XH)))) :: ((Npos (XO (XO (XO
    XH)))) :: ((Npos (XO (XO (XO XH)))) :: ((Npos (XO (XO (XO
    XH)))) :: ((Npos (XO (XO (XO XH)))) :: ((Npos (XO (XO (XO
    XH)))) :: ((Npos (XO (XO (XO XH)))) :: ((Npos (XO (XO (XO
    XH)))) :: ((Npos (XO (XO (XO XH)))) :: ((Npos (XO (XO (XO
    XH)))) :: ((Npos (XO (XO (XO XH)))) :: ((Npos (XO (XO (XO
    XH)))) :: ((Npos (XO (XO (XO XH)))) :: ((Npos (XO (XO (XO
    XH)))) :: ((Npos (XO (XO (XO XH)))) :: ((Npos (XO (XO (XO
    XH)))) :: ((Npos (XO (XO (XO XH)))) :: ((Npos (XO (XO (XO
    XH)))) :: ((Npos (XO (XO (XO XH)))) :: ((Npos (XO (XO (XO
    XH)))) :: ((Npos (XO (XO (XO XH)))) :: ((Npos (XO (XO (XO
    XH)))) :: ((Npos (XO (XO (XO XH)))) :: ((Npos (XO (XO (XO
    XH)))) :: ((Npos (XO (XO (XO XH)))) :: ((Npos (XO (XO (XO
    XH)))) :: ((Npos (XO (XO (XO XH)))) :: ((Npos (XO (XO (XO
    XH)))) :: ((Npos (XO (XO (XO XH)))) :: ((Npos (XO (XO (XO
    XH)))) :: ((Npos (XO (XO (XO XH)))) :: ((Npos (XO (XO (XO
    XH)))) :: ((Npos (XO (XO (XO XH)))) :: ((Npos (XO (XO (XO
    XH)))) :: ((Npos (XO (XO (XO XH)))) :: ((Npos (XO (XO (XO
    XH)))) :: ((Npos (XO (XO (XO XH)))) :: ((Npos (XO (XO (XO
    XH)))) :: ((Npos (XO (XO (XO XH)))) :: ((Npos (XO (XO (XO
    XH)))) :: ((Npos (XO (XO (XO XH)))) :: ((Npos (XO (XO (XO
    XH)))) :: ((Npos (XO (XO (XO XH)))) :: ((Npos (XO (XO (XO
    XH)))) :: ((Npos (XO (XO (XO XH)))) :: ((Npos (XO (XO (XO
    XH)))) :: ((Npos (XO (XO (XO XH)))) :: ((Npos (XO (XO (XO
    XH)))) :: ((Npos (XO (XO (XO XH)))) :: ((Npos (XO (XO (XO
    XH)))) :: ((Npos (XO (XO (XO XH)))) :: ((Npos (XO (XO (XO
    XH)))) :: ((Npos (XO (XO (XO XH)))) :: ((Npos (XO (XO (XO
    XH)))) :: ((Npos (XO (XO (XO XH)))) :: ((Npos (XO (XO (XO
    XH)))) :: ((Npos (XO (XO (XO XH)))) :: ((Npos (XO (XO (XO
    XH)))) :: ((Npos (XO (XO (XO XH)))) :: ((Npos (XO (XO (XO
    XH)))) :: ((Npos (XO (XI XH))) :: ((Npos (XO (XO (XO XH)))) :: ((Npos (XO
    (XO (XO XH)))) :: ((Npos (XO (XO (XO XH)))) :: ((Npos (XO (XO (XO
    XH)))) :: ((Npos (XO (XO (XO XH)))) :: ((Npos (XO (XO (XO
    XH)))) :: ((Npos (XO (XO (XO XH)))) :: ((Npos (XO (XO (XO
    XH)))) :: ((Npos (XO (XO (XO XH)))) :: ((Npos (XO (XO (XO
    XH)))) :: ((Npos (XO (XO (XO XH)))) :: ((Npos (XO (XO (XO
    XH)))) :: ((Npos (XO (XO (XO XH)))) :: ((Npos (XO (XO (XO
    XH)))) :: ((Npos (XO (XO (XO XH)))) :: ((Npos (XO (XO (XO
    XH)))) :: ((Npos (XO (XO (XO XH)))) :: ((Npos (XO (XO (XO
    XH)))) :: ((Npos (XO (XO (XO XH)))) :: ((Npos (XO (XO (XO
    XH)))) :: ((Npos (XO (XO (XO XH)))) :: ((Npos (XO (XO (XO
    XH)))) :: ((Npos (XO (XO (XO XH)))) :: ((Npos (XO (XO (XO
    XH)))) :: ((Npos (XO (XO (XO XH)))) :: ((Npos (XO (XO (XO
    XH)))) :: ((Npos (XO (XO (XO XH)))) :: ((Npos (XO (XO (XO
    XH)))) :: ((Npos (XO (XO (XO XH)))) :: ((Npos (XO (XO (XO
    XH)))) :: ((Npos (XO (XO (XO XH)))) :: ((Npos (XO (XO (XO
    XH)))) :: ((Npos (XO (XO (XO XH)))) :: ((Npos (XO (XO (XO
    XH)))) :: ((Npos (XO (XO (XO XH)))) :: ((Npos (XO (XO (XO
    XH)))) :: ((Npos (XO (XO (XO XH)))) :: ((Npos (XO (XO (XO
    XH)))) :: ((Npos (XO (XO (XO XH)))) :: ((Npos (XO (XO (XO
    XH)))) :: ((Npos (XO (XO (XO XH)))) :: ((Npos (XO (XO (XO
    XH)))) :: ((Npos (XO (XO (XO XH)))) :: ((Npos (XO (XO (XO
    XH)))) :: ((Npos (XO (XO (XO XH)))) :: ((Npos (XO (XO (XO
    XH)))) :: ((Npos (XO (XO (XO XH)))) :: ((Npos (XO (XO (XO
    XH)))) :: ((Npos (XO (XO (XO XH)))) :: ((Npos (XO (XO (XO
    XH)))) :: ((Npos (XO (XO (XO XH)))) :: ((Npos (XO (XO (XO
    XH)))) :: ((Npos (XO (XO (XO XH)))) :: ((Npos (XO (XO (XO
    XH)))) :: ((Npos (XO (XO (XO XH)))) :: ((Npos (XO (XO (XO
    XH)))) :: ((Npos (XO (XO (XO XH)))) :: ((Npos (XO (XO (XO
    XH)))) :: ((Npos (XO (XO (XO XH)))) :: ((Npos (XO (XO (XO
    XH)))) :: ((Npos (XO (XO (XO XH)))) :: ((Npos (XO (XO (XO
    XH)))) :: ((Npos (XO (XO (XO XH)))) :: ((Npos (XI (XI XH))) :: ((Npos (XO
    (XO (XO XH)))) :: ((Npos (XO (XO (XO XH)))) :: ((Npos (XO (XO (XO
    XH)))) :: ((Npos (XO (XO (XO XH)))) :: ((Npos (XO (XO (XO
    XH)))) :: ((Npos (XO (XO (XO XH)))) :: ((Npos (XO (XO (XO
    XH)))) :: ((Npos (XO (XO (XO XH)))) :: ((Npos (XO (XO (XO
    XH)))) :: ((Npos (XO (XO (XO XH)))) :: ((Npos (XO (XO (XO
    XH)))) :: ((Npos (XO (XO (XO XH)))) :: ((Npos (XO (XO (XO
    XH)))) :: ((Npos (XO (XO (XO XH)))) :: ((Npos (XO (XO (XO
    XH)))) :: ((Npos (XO (XO (XO XH)))) :: ((Npos (XO (XO (XO
    XH)))) :: ((Npos (XO (XO (XO XH)))) :: ((Npos (XO (XO (XO
    XH)))) :: ((Npos (XO (XO (XO XH)))) :: ((Npos (XO (XO (XO
    XH)))) :: ((Npos (XO (XO (XO XH)))) :: ((Npos (XO (XO (XO
    XH)))) :: ((Npos (XO (XO (XO XH)))) :: ((Npos (XO (XO (XO
    XH)))) :: ((Npos (XO (XO (XO XH)))) :: ((Npos (XO (XO (XO
    XH)))) :: ((Npos (XO (XO (XO XH)))) :: ((Npos (XO (XO (XO
    XH)))) :: ((Npos (XO (XO (XO XH)))) :: ((Npos (XO (XO (XO
    XH)))) :: ((Npos (XI (XI XH))) :: ((Npos (XO (XO (XO XH)))) :: ((Npos (XO
    (XO (XO XH)))) :: ((Npos (XO (XO (XO XH)))) :: ((Npos (XO (XO (XO
    XH)))) :: ((Npos (XO (XO (XO XH)))) :: ((Npos (XO (XO (XO
    XH)))) :: ((Npos (XO (XO (XO XH)))) :: ((Npos (XO (XO (XO
    XH)))) :: ((Npos (XO (XO (XO XH)))) :: ((Npos (XO (XO (XO
    XH)))) :: ((Npos (XO (XO (XO XH)))) :: ((Npos (XO (XO (XO
    XH)))) :: ((Npos (XO (XO (XO XH)))) :: ((Npos (XO (XO (XO
    XH)))) :: ((Npos (XO (XO (XO XH)))) :: ((Npos (XI (XI XH))) :: ((Npos (XO
    (XO (XO XH)))) :: ((Npos (XO (XO (XO XH)))) :: ((Npos (XO (XO (XO
    XH)))) :: ((Npos (XO (XO (XO XH)))) :: ((Npos (XO (XO (XO
    XH)))) :: ((Npos (XO (XO (XO XH)))) :: ((Npos (XO (XO (XO
    XH)))) :: ((Npos (XI (XI XH))) :: ((Npos (XO (XO (XO XH)))) :: ((Npos (XO
    (XO (XO XH)))) :: ((Npos (XO (XO (XO XH)))) :: ((Npos (XI (XI
    XH))) :: ((Npos (XO (XO (XO XH)))) :: ((Npos (XI (XI XH))) :: ((Npos (XI
    (XI XH))) :: ((Npos (XO (XI XH))) :: ((Npos (XO (XO (XO XH)))) :: ((Npos
    (XO (XO (XO XH)))) :: ((Npos (XO (XO (XO XH)))) :: ((Npos (XO (XO (XO
    XH)))) :: ((Npos (XO (XO (XO XH)))) :: ((Npos (XO (XO (XO
    XH)))) :: ((Npos (XO (XO (XO XH)))) :: ((Npos (XO (XO (XO
    XH)))) :: ((Npos (XO (XO (XO XH)))) :: ((Npos (XO (XO (XO
    XH)))) :: ((Npos (XO (XO (XO XH)))) :: ((Npos (XO (XO (XO
    XH)))) :: ((Npos (XO (XO (XO XH)))) :: ((Npos (XO (XO (XO
    XH)))) :: ((Npos (XO (XO (XO XH)))) :: ((Npos (XO (XO (XO
    XH)))) :: ((Npos (XO (XO (XO XH)))) :: ((Npos (XO (XO (XO
    XH)))) :: ((Npos (XO (XO (XO XH)))) :: ((Npos (XO (XO (XO
    XH)))) :: ((Npos (XO (XO (XO XH)))) :: ((Npos (XO (XO (XO
    XH)))) :: ((Npos (XO (XO (XO XH)))) :: ((Npos (XO (XO (XO
    XH)))) :: ((Npos (XO (XO (XO XH)))) :: ((Npos (XO (XO (XO
    XH)))) :: ((Npos (XO (XO (XO XH)))) :: ((Npos (XO (XO (XO
    XH)))) :: ((Npos (XO (XO (XO XH)))) :: ((Npos (XO (XO (XO
    XH)))) :: ((Npos (XO (XO (XO XH)))) :: ((Npos (XO (XO (XO
    XH)))) :: ((Npos (XO (XO (XO XH)))) :: ((Npos (XO (XO (XO
    XH)))) :: ((Npos (XO (XO (XO XH)))) :: ((Npos (XO (XO (XO
    XH)))) :: ((Npos (XO (XO (XO XH)))) :: ((Npos (XO (XO (XO
    XH)))) :: ((Npos (XO (XO (XO XH)))) :: ((Npos (XO (XO (XO
    XH)))) :: ((Npos (XO (XO (XO XH)))) :: ((Npos (XO (XO (XO
    XH)))) :: ((Npos (XO (XO (XO XH)))) :: ((Npos (XO (XO (XO
    XH)))) :: ((Npos (XO (XO (XO XH)))) :: ((Npos (XO (XO (XO
    XH)))) :: ((Npos (XO (XO (XO XH)))) :: ((Npos (XO (XO (XO
    XH)))) :: ((Npos (XO (XO (XO XH)))) :: ((Npos (XO (XO (XO
    XH)))) :: ((Npos (XO (XO (XO XH)))) :: ((Npos (XO (XO (XO
    XH)))) :: ((Npos (XO (XO (XO XH)))) :: ((Npos (XO (XO (XO
    XH)))) :: ((Npos (XO (XO (XO XH)))) :: ((Npos (XO (XO (XO
    XH)))) :: ((Npos (XO (XO (XO XH)))) :: ((Npos (XO (XO (XO
    XH)))) :: ((Npos (XO (XO (XO XH)))) :: ((Npos (XO (XO (XO
    XH)))) :: ((Npos (XO (XO (XO XH)))) :: ((Npos (XO (XO (XO
    XH)))) :: ((Npos (XO (XO (XO XH)))) :: ((Npos (XO (XO (XO
    XH)))) :: ((Npos (XO (XO (XO XH)))) :: ((Npos (XO (XO (XO
    XH)))) :: ((Npos (XO (XO (XO XH)))) :: ((Npos (XO (XO (XO
    XH)))) :: ((Npos (XO (XO (XO XH)))) :: ((Npos (XO (XO (XO
    XH)))) :: ((Npos (XO (XO (XO XH)))) :: ((Npos (XO (XO (XO
    XH)))) :: ((Npos (XO (XO (XO XH)))) :: ((Npos (XO (XO (XO
    XH)))) :: ((Npos (XO (XO (XO XH)))) :: ((Npos (XO (XO (XO
    XH)))) :: ((Npos (XO (XO (XO XH)))) :: ((Npos (XO (XO (XO
    XH)))) :: ((Npos (XO (XO (XO XH)))) :: ((Npos (XO (XO (XO
    XH)))) :: ((Npos (XO (XO (XO XH)))) :: ((Npos (XO (XO (XO
    XH)))) :: ((Npos (XO (XO (XO XH)))) :: ((Npos (XO (XO (XO
    XH)))) :: ((Npos (XO (XO (XO XH)))) :: ((Npos (XO (XO (XO
    XH)))) :: ((Npos (XO (XO (XO XH)))) :: ((Npos (XO (XO (XO
    XH)))) :: ((Npos (XO (XO (XO XH)))) :: ((Npos (XO (XO (XO
    XH)))) :: ((Npos (XO (XO (XO XH)))) :: ((Npos (XO (XO (XO
    XH)))) :: ((Npos (XO (XO (XO XH)))) :: ((Npos (XO (XO (XO
    XH)))) :: ((Npos (XO (XO (XO XH)))) :: ((Npos (XO (XO (XO
    XH)))) :: ((Npos (XO (XO (XO XH)))) :: ((Npos (XO (XO (XO
    XH)))) :: ((Npos (XO (XO (XO XH)))) :: ((Npos (XO (XO (XO
    XH)))) :: ((Npos (XO (XO (XO XH)))) :: ((Npos (XO (XO (XO
    XH)))) :: ((Npos (XO (XO (XO XH)))) :: ((Npos (XO (XO (XO
    XH)))) :: ((Npos (XO (XO (XO XH)))) :: ((Npos (XO (XO (XO
    XH)))) :: ((Npos (XO (XO (XO XH)))) :: ((Npos (XO (XO (XO
    XH)))) :: ((Npos (XO (XO (XO XH)))) :: ((Npos (XO (XO (XO
    XH)))) :: ((Npos (XO (XO (XO XH)))) :: ((Npos (XO (XO (XO
    XH)))) :: ((Npos (XO (XO (XO XH)))) :: ((Npos (XO (XO (XO
    XH)))) :: ((Npos (XO (XO (XO XH)))) :: ((Npos (XO (XO (XO
    XH)))) :: ((Npos (XO (XO (XO XH)))) :: ((Npos (XO (XO (XO
    XH)))) :: ((Npos (XO (XO (XO XH)))) :: ((Npos (XO (XO (XO
    XH)))) :: ((Npos (XO (XO (XO XH)))) :: ((Npos (XO (XO (XO
    XH)))) :: ((Npos (XO (XO (XO XH)))) :: ((Npos (XO (XO (XO
    XH)))) :: ((Npos (XO (XO (XO XH)))) :: ((Npos (XO (XO (XO
    XH)))) :: ((Npos (XO (XO (XO XH)))) :: ((Npos (XO (XO (XO
    XH)))) :: ((Npos (XO (XO (XO XH)))) :: ((Npos (XO (XO (XO
    XH)))) :: ((Npos (XO (XO (XO XH)))) :: ((Npos (XO (XO (XO
    XH)))) :: ((Npos (XO (XO (XO XH)))) :: ((Npos (XO (XO (XO
    XH)))) :: ((Npos (XO (XO (XO XH)))) :: ((Npos (XO (XO (XO
    XH)))) :: ((Npos (XO (XO (XO XH)))) :: ((Npos (XO (XO (XO
    XH)))) :: ((Npos (XO (XO (XO XH)))) :: ((Npos (XO (XO (XO
    XH)))) :: ((Npos (XO (XO (XO XH)))) :: ((Npos (XO (XO (XO
    XH)))) :: ((Npos (XO (XO (XO XH)))) :: ((Npos (XO (XO (XO
    XH)))) :: ((Npos (XO (XO (XO XH)))) :: ((Npos (XO (XO (XO
    XH)))) :: ((Npos (XO (XO (XO XH)))) :: ((Npos (XO (XO (XO
    XH)))) :: ((Npos (XO (XO (XO XH)))) :: ((Npos (XO (XO (XO
    XH)))) :: ((Npos (XO (XO (XO XH)))) :: ((Npos (XO (XO (XO
    XH)))) :: ((Npos (XO (XO (XO XH)))) :: ((Npos (XO (XO (XO
    XH)))) :: ((Npos (XO (XO (XO XH)))) :: ((Npos (XO (XO (XO
    XH)))) :: ((Npos (XO (XO (XO XH)))) :: ((Npos (XO (XO (XO
    XH)))) :: ((Npos (XO (XO (XO XH)))) :: ((Npos (XO (XO (XO
    XH)))) :: ((Npos (XO (XO (XO XH)))) :: ((Npos (XO (XO (XO
    XH)))) :: ((Npos (XO (XO (XO XH)))) :: ((Npos (XO (XO (XO
    XH)))) :: ((Npos (XO (XO (XO XH)))) :: ((Npos (XO (XO (XO
    XH)))) :: ((Npos (XO (XO (XO XH)))) :: ((Npos (XO (XO (XO
    XH)))) :: ((Npos (XO (XO (XO XH)))) :: ((Npos (XO (XO (XO
    XH)))) :: ((Npos (XO (XO (XO XH)))) :: ((Npos (XO (XO (XO
    XH)))) :: ((Npos (XO (XO (XO XH)))) :: ((Npos (XO (XO (XO
    XH)))) :: ((Npos (XO (XO (XO XH)))) :: ((Npos (XO (XO (XO
    XH)))) :: ((Npos (XO (XO (XO XH)))) :: ((Npos (XO (XO (XO
    XH)))) :: ((Npos (XO (XO (XO XH)))) :: ((Npos (XO (XO (XO
    XH)))) :: ((Npos (XO (XO (XO XH)))) :: ((Npos (XO (XO (XO
    XH)))) :: ((Npos (XO (XO (XO XH)))) :: ((Npos (XO (XO (XO
    XH)))) :: ((Npos (XO (XO (XO XH)))) :: ((Npos (XO (XO (XO
    XH)))) :: ((Npos (XO (XO (XO XH)))) :: ((Npos (XO (XO (XO
    XH)))) :: ((Npos (XO (XO (XO XH)))) :: ((Npos (XO (XO (XO
    XH)))) :: ((Npos (XO (XO (XO XH)))) :: ((Npos (XO (XO (XO
    XH)))) :: ((Npos (XO (XO (XO XH)))) :: ((Npos (XO (XO (XO
    XH)))) :: ((Npos (XO (XO (XO XH)))) :: ((Npos (XO (XO (XO
    XH)))) :: ((Npos (XO (XO (XO XH)))) :: ((Npos (XO (XO (XO
    XH)))) :: ((Npos (XO (XO (XO XH)))) :: ((Npos (XO (XO (XO
    XH)))) :: ((Npos (XO (XO (XO XH)))) :: ((Npos (XO (XO (XO
    XH)))) :: ((Npos (XO (XO (XO XH)))) :: ((Npos (XO (XO (XO
    XH)))) :: ((Npos (XO (XO (XO XH)))) :: ((Npos (XO (XO (XO
    XH)))) :: ((Npos (XO (XO (XO XH)))) :: ((Npos (XO (XO (XO
    XH)))) :: ((Npos (XO (XO (XO XH)))) :: ((Npos (XO (XO (XO
    XH)))) :: ((Npos (XO (XO (XO XH)))) :: ((Npos (XO (XO (XO
    XH)))) :: ((Npos (XO (XO (XO XH)))) :: ((Npos (XO (XO (XO
    XH)))) :: ((Npos (XO (XO (XO XH)))) :: ((Npos (XO (XO (XO
    XH)))) :: ((Npos (XO (XO (XO XH)))) :: ((Npos (XO (XO (XO
    XH)))) :: ((Npos (XO (XO (XO XH)))) :: ((Npos (XO (XO (XO
    XH)))) :: ((Npos (XO (XO (XO XH)))) :: ((Npos (XO (XO (XO
    XH)))) :: ((Npos (XO (XO (XO XH)))) :: ((Npos (XO (XO (XO
    XH)))) :: ((Npos (XO (XO (XO XH)))) :: ((Npos (XO (XO (XO
    XH)))) :: ((Npos (XO (XO (XO XH)))) :: ((Npos (XO (XO (XO
    XH)))) :: ((Npos (XO (XO (XO XH)))) :: ((Npos (XO (XO (XO
    XH)))) :: ((Npos (XO (XO (XO XH)))) :: ((Npos (XO (XO (XO
    XH)))) :: ((Npos (XO (XO (XO XH)))) :: ((Npos (XO (XO (XO
    XH)))) :: ((Npos (XO (XO (XO XH)))) :: ((Npos (XO (XO (XO
    XH)))) :: ((Npos (XO (XO (XO XH)))) :: ((Npos (XO (XO (XO
    XH)))) :: ((Npos (XO (XO (XO XH)))) :: ((Npos (XO (XO (XO
    XH)))) :: ((Npos (XO (XO (XO XH)))) :: ((Npos (XO (XO (XO
    XH)))) :: ((Npos (XO (XO (XO XH)))) :: ((Npos (XO (XO (XO
    XH)))) :: ((Npos (XO (XO (XO XH)))) :: ((Npos (XO (XO (XO
    XH)))) :: ((Npos (XO (XO (XO XH)))) :: ((Npos (XO (XO (XO
    XH)))) :: ((Npos (XO (XO (XO XH)))) :: ((Npos (XO (XO (XO
    XH)))) :: ((Npos (XO (XO (XO XH)))) :: ((Npos (XO (XO (XO
    XH)))) :: ((Npos (XO (XO (XO XH)))) :: ((Npos (XO (XO (XO
    XH)))) :: ((Npos (XO (XO (XO XH)))) :: ((Npos (XI (XI
    XH))) :: [])))))))))))))))))))))))))))))))))))))))))))))))))))))))))))))))))))))))))))))))))))))))))))))))))))))))))))))))))))))))))))))))))))))))))))))))))))))))))))))))))))))))))))))))))))))))))))))))))))))))))))))))))))))))))))))))))))))))))))))))))))))))))))))))))))))))))))))))))))))))))))))))))))))))))))))))))))))))))))))))))))))))))))))))))))))))))))))))))))))))))))))))))))))))))))))))))))))))))))))))))))))))))))))))))))))))))))))))))))))))))))))))))))))))))))))))))))))))))))))))))))))))))))))))))))))))))))))))))))))))))))))))))))))))))))))))))))))))))))))))))))))))))))))))))))))))))))))))))))))))))))))))))))))))))))))))))))))))))))))))))))))))))))))))))))))))))))))))))))))))))))))))))))))))))))))))))))))))))))))))))))))))))))))))))))))))))))))))))))))))))))))))))))))))))))))))))))))))))))))))))))))))))))))))))))))))))))))))))))))))))))))))))))))))))))))))))))))))))))))))))))))))))))))))))))))))))))))))))))))))))))))))))))))))))))))))))))))))))))))))))))))))))))))))))))))))))))))))))))))))))))))))))))))))))))))))))))))))))))))))))))))))))))))))))))))))))))))))))))))))))))))))))))))))))))))))))))))))))))))))))))))))))))))))))))))))))))))))))))))))))))))))))))))))))))))))))))))))))))))))))))))))))))))))))))))))))))))))))))))))))))))))))))))))))))))))))))))))))))))))))))))))))))))))))))))))))))))))))))))))))))))))))))))))))))))))))))))))))))))))))))))))))))))))))))))))))))))))))))))))))))))))))))))))))))))))))))))))))))))))))))))))))))))))))))))))))))))))))))))))))))))))))))))))))))))))))))))))))))))))))))))))))))))))))))))))))))))))))))))))))))))))))))))))))))))))))))))))))))))))))))))))))))))))))))))))))))))))))))))))))))))))))))))))))))))))))))))))))))))))))))))))))))))))))))))))))))))))))))))))))))))))))))))))))))))))))))))))))))))))))))))))))))))))))))))))))))))))))))))))))))))))))))))))))))))))))))))))))))))))))))))))))))))))))))))))))))))))))))))))))))))))))))))))))))))))))))))))))))))))))))))))))))))))))))))))))))))))))))))))))))))))))))))))))))))))))))))))))))))))))))))))))))))))))))))))))))))))))))))))))))))))

(** val popcount_pos : positive -> n **)

let rec popcount_pos = function
| XI q -> N.add (Npos XH) (popcount_pos q)
| XO q -> popcount_pos q
| XH -> Npos XH

(** val popcount : n -> n **)

let popcount = function
| N0 -> N0
| Npos p -> popcount_pos p

(** val bits_of : nat -> n -> n list **)

let bits_of w x =
  map (fun i -> N.b2n (N.testbit x i)) (seqN N0 w)

(** val m64 : n **)

let m64 =
  N.pow (Npos (XO XH)) (Npos (XO (XO (XO (XO (XO (XO XH)))))))

(** val select_in_word : n -> n -> n outcome **)

let select_in_word word k =
  bind
    (osub word
      (N.shiftr (N.coq_land word (N.mul sIW_M1 k_ONES_STEP4)) (Npos XH)))
    (fun s ->
    bind
      (oadd (Npos (XO (XO (XO (XO (XO (XO XH)))))))
        (N.coq_land s (N.mul sIW_M2 k_ONES_STEP4))
        (N.coq_land (N.shiftr s (Npos (XO XH)))
          (N.mul (Npos (XI XH)) k_ONES_STEP4))) (fun s0 ->
      bind
        (oadd (Npos (XO (XO (XO (XO (XO (XO XH))))))) s0
          (N.shiftr s0 (Npos (XO (XO XH))))) (fun t ->
        let s1 = N.coq_land t (N.mul sIW_M3 k_ONES_STEP8) in
        let byte_sums = N.modulo (N.mul s1 k_ONES_STEP8) m64 in
        bind (omul (Npos (XO (XO (XO (XO (XO (XO XH))))))) k k_ONES_STEP8)
          (fun k_step8 ->
          bind (osub (N.coq_lor k_step8 k_LAMBDAS_STEP8) byte_sums) (fun d ->
            let geq_k_step8 = N.coq_land d k_LAMBDAS_STEP8 in
            bind
              (omul (Npos (XO (XO (XO (XO (XO XH)))))) (popcount geq_k_step8)
                sIW_PLACE_MUL) (fun place ->
              if N.eqb place sIW_NOTFOUND
              then Val (Npos (XO (XO (XO (XO (XO (XO XH)))))))
              else bind
                     (oshl (Npos (XO (XO (XO (XO (XO (XO XH))))))) byte_sums
                       (Npos (XO (XO (XO XH))))) (fun sh ->
                     bind
                       (oshr (Npos (XO (XO (XO (XO (XO (XO XH))))))) sh place)
                       (fun sr ->
                       bind (osub k (N.coq_land sr sIW_BYTE_MASK))
                         (fun byte_rank ->
                         bind
                           (oshr (Npos (XO (XO (XO (XO (XO (XO XH))))))) word
                             place) (fun wsh ->
                           bind
                             (oshl (Npos (XO (XO (XO (XO (XO (XO XH)))))))
                               byte_rank (Npos (XO (XO (XO XH)))))
                             (fun br8 ->
                             bind
                               (idx sel_table
                                 (N.coq_lor
                                   (N.coq_land wsh (Npos (XI (XI (XI (XI (XI
                                     (XI (XI XH))))))))) br8)) (fun tv ->
                               oadd (Npos (XO (XO (XO (XO (XO XH)))))) place
                                 tv))))))))))))

(** val select_in_word_u128 : n -> n -> n outcome **)

let select_in_word_u128 word k =
  let first = N.modulo word m64 in
  let kp = popcount first in
  if N.ltb k kp
  then select_in_word first k
  else bind (osub k kp) (fun k' ->
         bind
           (select_in_word
             (N.modulo
               (N.shiftr word (Npos (XO (XO (XO (XO (XO (XO XH)))))))) m64)
             k') (fun r ->
           oadd (Npos (XO (XO (XO (XO (XO XH)))))) (Npos (XO (XO (XO (XO (XO
             (XO XH))))))) r))

(** val popcnt_wide : nat -> n list -> n **)

let popcnt_wide n0 data =
  sumN (map popcount (firstn n0 data))

(** val msb_w : n -> n -> n outcome **)

let msb_w w v =
  if N.eqb v N0
  then Val N0
  else osub (N.sub w (Npos XH)) (N.sub (N.sub w (Npos XH)) (N.log2 v))

(** val m128 : n **)

let m128 =
  N.pow (Npos (XO XH)) (Npos (XO (XO (XO (XO (XO (XO (XO XH))))))))

(** val qline_set_symbol : n list -> n -> n -> n list outcome **)

let qline_set_symbol ws symbol i =
  let word_id_high = N.shiftr i qV_WORD_SHIFT in
  let word_id_low = N.add word_id_high qV_LOW_PLANE in
  let cur_shift = N.coq_land i qV_WORD_MASK in
  let symbol0 = N.coq_land symbol qV_SYM_MASK in
  bind (idx ws word_id_high) (fun wh ->
    bind
      (oshl (Npos (XO (XO (XO (XO (XO (XO (XO XH))))))))
        (N.shiftr symbol0 (Npos XH)) cur_shift) (fun hi ->
      let ws1 = setN ws word_id_high (N.coq_lor wh hi) in
      bind (idx ws1 word_id_low) (fun wl ->
        bind
          (oshl (Npos (XO (XO (XO (XO (XO (XO (XO XH))))))))
            (N.coq_land symbol0 (Npos XH)) cur_shift) (fun lo -> Val
          (setN ws1 word_id_low (N.coq_lor wl lo))))))

(** val qline_get_unchecked : n list -> n -> n outcome **)

let qline_get_unchecked ws i =
  let word_id_high = N.shiftr i qVG_WORD_SHIFT in
  let word_id_low = N.add word_id_high qVG_LOW_PLANE in
  let cur_shift = N.coq_land i qVG_WORD_MASK in
  bind (uidx ws word_id_high) (fun word_high ->
    bind (uidx ws word_id_low) (fun word_low ->
      bind
        (oshr (Npos (XO (XO (XO (XO (XO (XO (XO XH)))))))) word_high
          cur_shift) (fun h ->
        bind
          (oshr (Npos (XO (XO (XO (XO (XO (XO (XO XH)))))))) word_low
            cur_shift) (fun l -> Val
          (N.modulo
            (N.coq_lor (N.shiftl (N.coq_land h (Npos XH)) (Npos XH))
              (N.coq_land l (Npos XH))) (Npos (XO (XO (XO (XO (XO (XO (XO (XO
            XH))))))))))))))

(** val qline_normalize : n list -> n -> (n * n) outcome **)

let qline_normalize ws symbol =
  let rep = fun b -> if N.eqb b N0 then N.sub m128 (Npos XH) else N0 in
  let mask_high = rep (N.shiftr symbol (Npos XH)) in
  let mask_low = rep (N.coq_land symbol (Npos XH)) in
  bind
    (if N.ltb (Npos XH) (N.shiftr symbol (Npos XH))
     then Fault Panic
     else Val ()) (fun _ ->
    bind (idx ws N0) (fun w0 ->
      bind (idx ws (Npos XH)) (fun w1 ->
        bind (idx ws (Npos (XO XH))) (fun w2 ->
          bind (idx ws (Npos (XI XH))) (fun w3 -> Val
            ((N.coq_land (N.coq_lxor w0 mask_high) (N.coq_lxor w2 mask_low)),
            (N.coq_land (N.coq_lxor w1 mask_high) (N.coq_lxor w3 mask_low))))))))

(** val qline_rank_unchecked : n list -> n -> n -> n outcome **)

let qline_rank_unchecked ws symbol i =
  bind (odebug_assert (N.leb symbol (Npos (XI XH)))) (fun _ ->
    bind
      (odebug_assert
        (N.leb i (Npos (XO (XO (XO (XO (XO (XO (XO (XO XH)))))))))))
      (fun _ ->
      bind (qline_normalize ws symbol) (fun pat ->
        let (word_0, word_1) = pat in
        let last_word = N.shiftr i qVR_WORD_SHIFT in
        let offset = N.coq_land i qVR_WORD_MASK in
        let mask_full = N.sub m128 (Npos XH) in
        bind
          (oshl (Npos (XO (XO (XO (XO (XO (XO (XO XH)))))))) (Npos XH) offset)
          (fun one_sh ->
          bind (osub one_sh (Npos XH)) (fun mask_offset ->
            let mask0 = if N.eqb last_word N0 then mask_offset else mask_full
            in
            let rank = popcount (N.coq_land word_0 mask0) in
            let mask1 =
              if N.eqb last_word (Npos XH)
              then mask_offset
              else N.mul mask_full
                     (if N.eqb last_word (Npos (XO XH)) then Npos XH else N0)
            in
            Val (N.add rank (popcount (N.coq_land word_1 mask1))))))))

(** val plane_bits : (n -> n) -> n list -> n **)

let rec plane_bits bit = function
| [] -> N0
| s :: r -> N.add (bit s) (N.mul (Npos (XO XH)) (plane_bits bit r))

(** val pack_qline : n list -> n list **)

let pack_qline syms =
  let hi = fun s -> N.modulo (N.shiftr s (Npos XH)) (Npos (XO XH)) in
  let lo = fun s -> N.modulo s (Npos (XO XH)) in
  (plane_bits hi
    (firstn (S (S (S (S (S (S (S (S (S (S (S (S (S (S (S (S (S (S (S (S (S (S
      (S (S (S (S (S (S (S (S (S (S (S (S (S (S (S (S (S (S (S (S (S (S (S (S
      (S (S (S (S (S (S (S (S (S (S (S (S (S (S (S (S (S (S (S (S (S (S (S (S
      (S (S (S (S (S (S (S (S (S (S (S (S (S (S (S (S (S (S (S (S (S (S (S (S
      (S (S (S (S (S (S (S (S (S (S (S (S (S (S (S (S (S (S (S (S (S (S (S (S
      (S (S (S (S (S (S (S (S (S (S
      O))))))))))))))))))))))))))))))))))))))))))))))))))))))))))))))))))))))))))))))))))))))))))))))))))))))))))))))))))))))))))))))))
      syms)) :: ((plane_bits hi
                   (skipn (S (S (S (S (S (S (S (S (S (S (S (S (S (S (S (S (S
                     (S (S (S (S (S (S (S (S (S (S (S (S (S (S (S (S (S (S (S
                     (S (S (S (S (S (S (S (S (S (S (S (S (S (S (S (S (S (S (S
                     (S (S (S (S (S (S (S (S (S (S (S (S (S (S (S (S (S (S (S
                     (S (S (S (S (S (S (S (S (S (S (S (S (S (S (S (S (S (S (S
                     (S (S (S (S (S (S (S (S (S (S (S (S (S (S (S (S (S (S (S
                     (S (S (S (S (S (S (S (S (S (S (S (S (S (S (S (S
                     O))))))))))))))))))))))))))))))))))))))))))))))))))))))))))))))))))))))))))))))))))))))))))))))))))))))))))))))))))))))))))))))))
                     syms)) :: ((plane_bits lo
                                  (firstn (S (S (S (S (S (S (S (S (S (S (S (S
                                    (S (S (S (S (S (S (S (S (S (S (S (S (S (S
                                    (S (S (S (S (S (S (S (S (S (S (S (S (S (S
                                    (S (S (S (S (S (S (S (S (S (S (S (S (S (S
                                    (S (S (S (S (S (S (S (S (S (S (S (S (S (S
                                    (S (S (S (S (S (S (S (S (S (S (S (S (S (S
                                    (S (S (S (S (S (S (S (S (S (S (S (S (S (S
                                    (S (S (S (S (S (S (S (S (S (S (S (S (S (S
                                    (S (S (S (S (S (S (S (S (S (S (S (S (S (S
                                    (S (S (S (S
                                    O))))))))))))))))))))))))))))))))))))))))))))))))))))))))))))))))))))))))))))))))))))))))))))))))))))))))))))))))))))))))))))))))
                                    syms)) :: ((plane_bits lo
                                                 (skipn (S (S (S (S (S (S (S
                                                   (S (S (S (S (S (S (S (S (S
                                                   (S (S (S (S (S (S (S (S (S
                                                   (S (S (S (S (S (S (S (S (S
                                                   (S (S (S (S (S (S (S (S (S
                                                   (S (S (S (S (S (S (S (S (S
                                                   (S (S (S (S (S (S (S (S (S
                                                   (S (S (S (S (S (S (S (S (S
                                                   (S (S (S (S (S (S (S (S (S
                                                   (S (S (S (S (S (S (S (S (S
                                                   (S (S (S (S (S (S (S (S (S
                                                   (S (S (S (S (S (S (S (S (S
                                                   (S (S (S (S (S (S (S (S (S
                                                   (S (S (S (S (S (S (S (S (S
                                                   (S (S (S (S
                                                   O))))))))))))))))))))))))))))))))))))))))))))))))))))))))))))))))))))))))))))))))))))))))))))))))))))))))))))))))))))))))))))))))
                                                   syms)) :: [])))

type bitvec = { bv_words : n list; bv_nbits : n; bv_nones : n }

(** val bv_empty : bitvec **)

let bv_empty =
  { bv_words = []; bv_nbits = N0; bv_nones = N0 }

(** val bvl_set_symbol : n list -> n -> n -> n -> n list outcome **)

let bvl_set_symbol ws line symbol i =
  bind (oassert (N.ltb i bV_LINE_BITS)) (fun _ ->
    let widx =
      N.add (N.mul line (Npos (XO (XO (XO XH)))))
        (N.shiftr i (Npos (XO (XI XH))))
    in
    bind (idx ws widx) (fun w ->
      let mask0 =
        N.shiftl (Npos XH)
          (N.modulo i (Npos (XO (XO (XO (XO (XO (XO XH))))))))
      in
      let w1 = N.coq_lxor w (N.coq_land w mask0) in
      let w2 =
        N.coq_lxor w1
          (N.shiftl (N.coq_land symbol (Npos XH))
            (N.modulo i (Npos (XO (XO (XO (XO (XO (XO XH)))))))))
      in
      Val (setN ws widx w2)))

(** val bv_get_bit_slice : n list -> n -> bool outcome **)

let bv_get_bit_slice ws index =
  let word = N.shiftr index (Npos (XO (XI XH))) in
  let pos_in_word = N.coq_land index (Npos (XI (XI (XI (XI (XI XH)))))) in
  bind (idx ws word) (fun w -> Val
    (N.eqb (N.coq_land (N.shiftr w pos_in_word) (Npos XH)) (Npos XH)))

(** val bv_get_bits_slice : n list -> n -> n -> n outcome **)

let bv_get_bits_slice ws index len0 =
  let block = N.shiftr index (Npos (XO (XI XH))) in
  let shift = N.coq_land index (Npos (XI (XI (XI (XI (XI XH)))))) in
  bind
    (if N.eqb len0 (Npos (XO (XO (XO (XO (XO (XO XH)))))))
     then Val (N.sub m64 (Npos XH))
     else bind (oshl (Npos (XO (XO (XO (XO (XO (XO XH))))))) (Npos XH) len0)
            (fun s -> osub s (Npos XH))) (fun mask0 ->
    if N.leb (N.add shift len0) (Npos (XO (XO (XO (XO (XO (XO XH)))))))
    then bind (idx ws block) (fun w -> Val
           (N.coq_land (N.shiftr w shift) mask0))
    else bind (idx ws block) (fun w ->
           bind (idx ws (N.add block (Npos XH))) (fun w' ->
             bind (osub (Npos (XO (XO (XO (XO (XO (XO XH))))))) shift)
               (fun sh ->
               bind (oshl (Npos (XO (XO (XO (XO (XO (XO XH))))))) w' sh)
                 (fun hi -> Val
                 (N.coq_lor (N.shiftr w shift) (N.coq_land hi mask0)))))))

(** val bv_len : bitvec -> n **)

let bv_len b =
  b.bv_nbits

(** val bv_is_empty : bitvec -> bool **)

let bv_is_empty b =
  N.eqb b.bv_nbits N0

(** val bv_count_ones : bitvec -> n **)

let bv_count_ones b =
  b.bv_nones

(** val bv_count_zeros : bitvec -> n outcome **)

let bv_count_zeros b =
  osub b.bv_nbits b.bv_nones

(** val bv_get_unchecked : bitvec -> n -> bool outcome **)

let bv_get_unchecked b i =
  bv_get_bit_slice b.bv_words i

(** val bv_get : bitvec -> n -> bool option outcome **)

let bv_get b i =
  if N.leb b.bv_nbits i
  then Val None
  else bind (bv_get_unchecked b i) (fun v -> Val (Some v))

(** val bv_get_bits : bool -> bitvec -> n -> n -> n option outcome **)

let bv_get_bits strict b index len0 =
  let past =
    if N.ltb (N.add index len0)
         (N.pow (Npos (XO XH)) (Npos (XO (XO (XO (XO (XO (XO XH))))))))
    then if strict
         then N.leb b.bv_nbits (N.add index len0)
         else N.ltb b.bv_nbits (N.add index len0)
    else true
  in
  if (||)
       ((||) (N.eqb len0 N0)
         (N.ltb (Npos (XO (XO (XO (XO (XO (XO XH))))))) len0)) past
  then Val None
  else bind (bv_get_bits_slice b.bv_words index len0) (fun v -> Val (Some v))

(** val bv_get_bits_unchecked : bitvec -> n -> n -> n outcome **)

let bv_get_bits_unchecked b index len0 =
  bv_get_bits_slice b.bv_words index len0

(** val bv_get_word : bitvec -> n -> n outcome **)

let bv_get_word b i =
  idx b.bv_words i

(** val bvm_push : bitvec -> bool -> bitvec outcome **)

let bvm_push b bit =
  let pos_in_line = N.modulo b.bv_nbits bV_PUSH_MOD in
  let ws =
    if N.eqb pos_in_line N0
    then app b.bv_words (repeat N0 (S (S (S (S (S (S (S (S O)))))))))
    else b.bv_words
  in
  bind
    (if bit
     then if N.eqb (len ws) N0
          then Val ws
          else bvl_set_symbol ws
                 (N.sub (N.div (len ws) (Npos (XO (XO (XO XH))))) (Npos XH))
                 (Npos XH) pos_in_line
     else Val ws) (fun ws' ->
    bind (oadd (Npos (XO (XO (XO (XO (XO (XO XH))))))) b.bv_nbits (Npos XH))
      (fun nb -> Val { bv_words = ws'; bv_nbits = nb; bv_nones =
      (if bit then N.add b.bv_nones (Npos XH) else b.bv_nones) }))

(** val bvm_append_loop : bitvec -> n -> n -> nat -> bitvec outcome **)

let rec bvm_append_loop b bits i = function
| O -> Val b
| S f ->
  bind
    (bvm_push b (N.eqb (N.coq_land (N.shiftr bits i) (Npos XH)) (Npos XH)))
    (fun b' -> bvm_append_loop b' bits (N.add i (Npos XH)) f)

(** val bvm_append_bits : bitvec -> n -> n -> bitvec outcome **)

let bvm_append_bits b bits len0 =
  bind
    (oassert
      ((||) (N.eqb len0 (Npos (XO (XO (XO (XO (XO (XO XH))))))))
        (N.eqb
          (if N.ltb len0 (Npos (XO (XO (XO (XO (XO (XO XH)))))))
           then N.shiftr bits len0
           else Npos XH) N0))) (fun _ ->
    bind (oassert (N.leb len0 (Npos (XO (XO (XO (XO (XO (XO XH)))))))))
      (fun _ ->
      if N.eqb len0 N0
      then Val b
      else bvm_append_loop b bits N0 (N.to_nat len0)))

(** val resize_words : n list -> n -> n list **)

let resize_words ws n0 =
  if N.leb n0 (len ws)
  then firstnN n0 ws
  else app ws (repeat N0 (N.to_nat (N.sub n0 (len ws))))

(** val bvm_extend_with_zeros : bitvec -> n -> bitvec outcome **)

let bvm_extend_with_zeros b n0 =
  bind (oadd (Npos (XO (XO (XO (XO (XO (XO XH))))))) b.bv_nbits n0)
    (fun nb ->
    bind (oadd (Npos (XO (XO (XO (XO (XO (XO XH))))))) nb bV_EXT_ROUND)
      (fun t ->
      let new_size = N.div t bV_EXT_DIV in
      Val { bv_words =
      (resize_words b.bv_words (N.mul new_size (Npos (XO (XO (XO XH))))));
      bv_nbits = nb; bv_nones = b.bv_nones }))

(** val bvm_set : bitvec -> n -> bool -> bitvec outcome **)

let bvm_set b index bit =
  bind (oassert (N.ltb index b.bv_nbits)) (fun _ ->
    bind (bv_get_unchecked b index) (fun cur ->
      bind
        (if (&&) bit (negb cur)
         then Val (N.add b.bv_nones (Npos XH))
         else if (&&) (negb bit) cur
              then osub b.bv_nones (Npos XH)
              else Val b.bv_nones) (fun ones ->
        let dl = N.shiftr index bV_SET_SHIFT in
        let pos_in_dl = N.coq_land index bV_SET_MASK in
        bind
          (if N.ltb (N.mul dl (Npos (XO (XO (XO XH))))) (len b.bv_words)
           then Val ()
           else Fault Panic) (fun _ ->
          bind
            (bvl_set_symbol b.bv_words dl (if bit then Npos XH else N0)
              pos_in_dl) (fun ws -> Val { bv_words = ws; bv_nbits =
            b.bv_nbits; bv_nones = ones })))))

(** val bvm_set_bits_loop : n list -> n -> n -> n -> nat -> n list outcome **)

let rec bvm_set_bits_loop ws index bits i = function
| O -> Val ws
| S f ->
  let dl = N.shiftr (N.add index i) bV_SETBITS_SHIFT in
  bind
    (if N.ltb (N.mul dl (Npos (XO (XO (XO XH))))) (len ws)
     then Val ()
     else Fault Panic) (fun _ ->
    bind
      (bvl_set_symbol ws dl (N.coq_land (N.shiftr bits i) (Npos XH))
        (N.modulo (N.add index i) bV_SETBITS_MOD)) (fun ws' ->
      bvm_set_bits_loop ws' index bits (N.add i (Npos XH)) f))

(** val bvm_set_bits : bitvec -> n -> n -> n -> bitvec outcome **)

let bvm_set_bits b index len0 bits =
  bind (oadd (Npos (XO (XO (XO (XO (XO (XO XH))))))) index len0) (fun e ->
    bind (oassert (N.leb e b.bv_nbits)) (fun _ ->
      bind
        (oassert
          ((||) (N.eqb len0 (Npos (XO (XO (XO (XO (XO (XO XH))))))))
            (N.eqb
              (if N.ltb len0 (Npos (XO (XO (XO (XO (XO (XO XH)))))))
               then N.shiftr bits len0
               else Npos XH) N0))) (fun _ ->
        bind (oassert (N.leb len0 (Npos (XO (XO (XO (XO (XO (XO XH)))))))))
          (fun _ ->
          if N.eqb len0 N0
          then Val b
          else bind (bv_get_bits_slice b.bv_words index len0) (fun old ->
                 bind (osub b.bv_nones (popcount old)) (fun o1 ->
                   let ones = N.add o1 (popcount bits) in
                   bind
                     (bvm_set_bits_loop b.bv_words index bits N0
                       (N.to_nat len0)) (fun ws -> Val { bv_words = ws;
                     bv_nbits = b.bv_nbits; bv_nones = ones })))))))

(** val bvm_extend_bools : bitvec -> bool list -> bitvec outcome **)

let rec bvm_extend_bools b = function
| [] -> Val b
| x :: r -> bind (bvm_push b x) (fun b' -> bvm_extend_bools b' r)

(** val bvm_extend_positions : bitvec -> n list -> bitvec outcome **)

let rec bvm_extend_positions b = function
| [] -> Val b
| p :: r ->
  bind
    (if N.leb b.bv_nbits p
     then bind (oadd (Npos (XO (XO (XO (XO (XO (XO XH))))))) p (Npos XH))
            (fun p1 ->
            bind (osub p1 b.bv_nbits) (fun d -> bvm_extend_with_zeros b d))
     else Val b) (fun b1 ->
    bind (bvm_set b1 p true) (fun b2 -> bvm_extend_positions b2 r))

(** val bv_from_bools : bool list -> bitvec outcome **)

let bv_from_bools bs =
  bvm_extend_bools bv_empty bs

(** val bv_from_positions : n list -> bitvec outcome **)

let bv_from_positions ps =
  bvm_extend_positions bv_empty ps

(** val bvm_with_zeros : n -> bitvec outcome **)

let bvm_with_zeros n0 =
  bvm_extend_with_zeros bv_empty n0

(** val bvit_next : bitvec -> n -> (bool option * n) outcome **)

let bvit_next b i =
  if N.ltb i b.bv_nbits
  then bind (bv_get_bit_slice b.bv_words i) (fun v -> Val ((Some v),
         (N.add i (Npos XH))))
  else Val (None, i)

(** val bvit_len : bitvec -> n -> n outcome **)

let bvit_len b i =
  osub b.bv_nbits i

(** val bvinto_next : bitvec -> n -> (bool option * n) outcome **)

let bvinto_next b i =
  bind (bv_get b i) (fun v ->
    match v with
    | Some _ -> Val (v, (N.add i (Npos XH)))
    | None -> Val (None, i))

type positer = { pi_cur_position : n; pi_cur_word_pos : n; pi_cur_word : n }

(** val pi_new : positer **)

let pi_new =
  { pi_cur_position = N0; pi_cur_word_pos = N0; pi_cur_word = N0 }

(** val word_for : bool -> n -> n **)

let word_for bit w =
  if bit then w else N.coq_lxor w (N.sub m64 (Npos XH))

(** val pi_with_pos : bool -> bitvec -> n -> positer **)

let pi_with_pos bit b pos =
  let cwp = N.shiftr pos (Npos (XO (XI XH))) in
  let cw =
    match nthN b.bv_words cwp with
    | Some w -> word_for bit w
    | None -> N0
  in
  { pi_cur_position = pos; pi_cur_word_pos = (N.add cwp (Npos XH));
  pi_cur_word =
  (N.shiftr cw (N.modulo pos (Npos (XO (XO (XO (XO (XO (XO XH))))))))) }

(** val ctz_pos : positive -> n **)

let rec ctz_pos = function
| XO q -> N.add (Npos XH) (ctz_pos q)
| _ -> N0

(** val ctz : n -> n **)

let ctz = function
| N0 -> Npos (XO (XO (XO (XO (XO (XO XH))))))
| Npos p -> ctz_pos p

(** val pi_refill : bool -> n list -> positer -> nat -> positer option **)

let rec pi_refill bit ws st fuel =
  if N.eqb st.pi_cur_word N0
  then (match fuel with
        | O -> None
        | S f ->
          (match nthN ws st.pi_cur_word_pos with
           | Some w ->
             pi_refill bit ws { pi_cur_position =
               (N.shiftl st.pi_cur_word_pos (Npos (XO (XI XH))));
               pi_cur_word_pos = (N.add st.pi_cur_word_pos (Npos XH));
               pi_cur_word = (word_for bit w) } f
           | None -> None))
  else Some st

(** val pi_next : bool -> bitvec -> positer -> n option * positer **)

let pi_next bit b st =
  if N.leb b.bv_nbits st.pi_cur_position
  then (None, st)
  else (match pi_refill bit b.bv_words st (S (length b.bv_words)) with
        | Some st1 ->
          let l = ctz st1.pi_cur_word in
          let pos = N.add st1.pi_cur_position l in
          let cw =
            if N.leb (Npos (XI (XI (XI (XI (XI XH)))))) l
            then N0
            else N.shiftr st1.pi_cur_word (N.add l (Npos XH))
          in
          let st2 = { pi_cur_position = (N.add pos (Npos XH));
            pi_cur_word_pos = st1.pi_cur_word_pos; pi_cur_word = cw }
          in
          if N.leb b.bv_nbits pos then (None, st2) else ((Some pos), st2)
        | None ->
          (None, { pi_cur_position = st.pi_cur_position; pi_cur_word_pos =
            (N.max st.pi_cur_word_pos (len b.bv_words)); pi_cur_word = N0 }))

(** val pi_collect : bool -> bitvec -> positer -> nat -> n list **)

let rec pi_collect bit b st = function
| O -> []
| S f ->
  let (o, st') = pi_next bit b st in
  (match o with
   | Some p -> p :: (pi_collect bit b st' f)
   | None -> [])

(** val bv_abs : bitvec -> bool list **)

let bv_abs b =
  map (fun x -> N.eqb x (Npos XH))
    (firstnN b.bv_nbits
      (concat
        (map
          (bits_of (S (S (S (S (S (S (S (S (S (S (S (S (S (S (S (S (S (S (S
            (S (S (S (S (S (S (S (S (S (S (S (S (S (S (S (S (S (S (S (S (S (S
            (S (S (S (S (S (S (S (S (S (S (S (S (S (S (S (S (S (S (S (S (S (S
            (S
            O)))))))))))))))))))))))))))))))))))))))))))))))))))))))))))))))))
          b.bv_words)))

(** val notw : n -> n **)

let notw w =
  N.coq_lxor w (N.sub m64 (Npos XH))

(** val line_of : n list -> n -> n list **)

let line_of ws b =
  firstn (S (S (S (S (S (S (S (S O))))))))
    (skipnN (N.mul b (Npos (XO (XO (XO XH))))) ws)

(** val line_n_ones : n list -> n **)

let line_n_ones l =
  sumN (map popcount l)

(** val bline_rank1_loop : n list -> n -> bool -> n **)

let rec bline_rank1_loop l left neg =
  match l with
  | [] -> N0
  | w :: r ->
    if neg
    then N0
    else let mask0 =
           if N.ltb (Npos (XI (XI (XI (XI (XI XH)))))) left
           then N.sub m64 (Npos XH)
           else N.sub (N.shiftl (Npos XH) left) (Npos XH)
         in
         N.add (popcount (N.coq_land w mask0))
           (if N.ltb left (Npos (XO (XO (XO (XO (XO (XO XH)))))))
            then N0
            else bline_rank1_loop r
                   (N.sub left (Npos (XO (XO (XO (XO (XO (XO XH)))))))) false)

(** val bline_rank1 : n list -> n -> n option **)

let bline_rank1 l i =
  if N.ltb (Npos (XO (XO (XO (XO (XO (XO (XO (XO (XO XH)))))))))) i
  then None
  else Some (bline_rank1_loop l i false)

(** val bline_select_loop : bool -> n list -> n -> n -> n -> n outcome **)

let rec bline_select_loop neg l i rank off =
  match l with
  | [] -> Val off
  | w :: r ->
    let w0 = if neg then notw w else w in
    let kp = popcount w0 in
    bind (osub i rank) (fun d ->
      if N.ltb d kp
      then bind (select_in_word w0 d) (fun s -> Val (N.add off s))
      else bline_select_loop neg r i (N.add rank kp)
             (N.add off (Npos (XO (XO (XO (XO (XO (XO XH)))))))))

type rsnarrow = { rsn_bv : bitvec; rsn_pairs : n list; rsn_samples0 : 
                  n list; rsn_samples1 : n list }

type rsn_state = { ns_pairs : n list; ns_next_rank : n; ns_cur_subrank : 
                   n; ns_subranks : n; ns_s0 : n list; ns_s1 : n list;
                   ns_hint0 : n; ns_hint1 : n; ns_zeros : n }

(** val rsn_word : rsn_state -> n -> n -> rsn_state **)

let rsn_word st g word =
  let b = N.div g (Npos (XO (XO (XO XH)))) in
  let shift = N.modulo g rSN_BLOCK_SIZE in
  let pop = popcount word in
  let subranks =
    if N.leb (Npos XH) shift
    then N.coq_lor (N.modulo (N.shiftl st.ns_subranks rSN_SUB_BITS) m64)
           st.ns_cur_subrank
    else st.ns_subranks
  in
  let next_rank = N.add st.ns_next_rank pop in
  let cur_subrank = N.add st.ns_cur_subrank pop in
  if N.ltb st.ns_hint1 (N.div next_rank rSN_ONES_PER_HINT)
  then let s1 = b :: st.ns_s1 in
       let h1 = N.add st.ns_hint1 (Npos XH) in
       let zeros =
         N.add st.ns_zeros (N.sub (Npos (XO (XO (XO (XO (XO (XO XH))))))) pop)
       in
       if N.ltb st.ns_hint0 (N.div zeros rSN_ZEROS_PER_HINT)
       then let s0 = b :: st.ns_s0 in
            let h0 = N.add st.ns_hint0 (Npos XH) in
            if N.eqb shift (N.sub rSN_BLOCK_SIZE (Npos XH))
            then { ns_pairs = (next_rank :: (subranks :: st.ns_pairs));
                   ns_next_rank = next_rank; ns_cur_subrank = N0;
                   ns_subranks = N0; ns_s0 = s0; ns_s1 = s1; ns_hint0 = h0;
                   ns_hint1 = h1; ns_zeros = zeros }
            else { ns_pairs = st.ns_pairs; ns_next_rank = next_rank;
                   ns_cur_subrank = cur_subrank; ns_subranks = subranks;
                   ns_s0 = s0; ns_s1 = s1; ns_hint0 = h0; ns_hint1 = h1;
                   ns_zeros = zeros }
       else let s0 = st.ns_s0 in
            let h0 = st.ns_hint0 in
            if N.eqb shift (N.sub rSN_BLOCK_SIZE (Npos XH))
            then { ns_pairs = (next_rank :: (subranks :: st.ns_pairs));
                   ns_next_rank = next_rank; ns_cur_subrank = N0;
                   ns_subranks = N0; ns_s0 = s0; ns_s1 = s1; ns_hint0 = h0;
                   ns_hint1 = h1; ns_zeros = zeros }
            else { ns_pairs = st.ns_pairs; ns_next_rank = next_rank;
                   ns_cur_subrank = cur_subrank; ns_subranks = subranks;
                   ns_s0 = s0; ns_s1 = s1; ns_hint0 = h0; ns_hint1 = h1;
                   ns_zeros = zeros }
  else let s1 = st.ns_s1 in
       let h1 = st.ns_hint1 in
       let zeros =
         N.add st.ns_zeros (N.sub (Npos (XO (XO (XO (XO (XO (XO XH))))))) pop)
       in
       if N.ltb st.ns_hint0 (N.div zeros rSN_ZEROS_PER_HINT)
       then let s0 = b :: st.ns_s0 in
            let h0 = N.add st.ns_hint0 (Npos XH) in
            if N.eqb shift (N.sub rSN_BLOCK_SIZE (Npos XH))
            then { ns_pairs = (next_rank :: (subranks :: st.ns_pairs));
                   ns_next_rank = next_rank; ns_cur_subrank = N0;
                   ns_subranks = N0; ns_s0 = s0; ns_s1 = s1; ns_hint0 = h0;
                   ns_hint1 = h1; ns_zeros = zeros }
            else { ns_pairs = st.ns_pairs; ns_next_rank = next_rank;
                   ns_cur_subrank = cur_subrank; ns_subranks = subranks;
                   ns_s0 = s0; ns_s1 = s1; ns_hint0 = h0; ns_hint1 = h1;
                   ns_zeros = zeros }
       else let s0 = st.ns_s0 in
            let h0 = st.ns_hint0 in
            if N.eqb shift (N.sub rSN_BLOCK_SIZE (Npos XH))
            then { ns_pairs = (next_rank :: (subranks :: st.ns_pairs));
                   ns_next_rank = next_rank; ns_cur_subrank = N0;
                   ns_subranks = N0; ns_s0 = s0; ns_s1 = s1; ns_hint0 = h0;
                   ns_hint1 = h1; ns_zeros = zeros }
            else { ns_pairs = st.ns_pairs; ns_next_rank = next_rank;
                   ns_cur_subrank = cur_subrank; ns_subranks = subranks;
                   ns_s0 = s0; ns_s1 = s1; ns_hint0 = h0; ns_hint1 = h1;
                   ns_zeros = zeros }

(** val rsn_loop : rsn_state -> n -> n list -> rsn_state **)

let rec rsn_loop st g = function
| [] -> st
| w :: r -> rsn_loop (rsn_word st g w) (N.add g (Npos XH)) r

(** val iterN : ('a1 -> 'a1) -> nat -> 'a1 -> 'a1 **)

let rec iterN f n0 x =
  match n0 with
  | O -> x
  | S k -> iterN f k (f x)

(** val rsn_new : bitvec -> rsnarrow outcome **)

let rsn_new bv =
  let st =
    rsn_loop { ns_pairs = (N0 :: []); ns_next_rank = N0; ns_cur_subrank = N0;
      ns_subranks = N0; ns_s0 = (N0 :: []); ns_s1 = (N0 :: []); ns_hint0 =
      N0; ns_hint1 = N0; ns_zeros = N0 } N0 bv.bv_words
  in
  let nlines = N.div (len bv.bv_words) (Npos (XO (XO (XO XH)))) in
  let left = N.sub rSN_BLOCK_SIZE (N.modulo nlines rSN_BLOCK_SIZE) in
  let subranks =
    iterN (fun s ->
      N.coq_lor (N.modulo (N.shiftl s rSN_SUB_BITS_TAIL) m64)
        st.ns_cur_subrank) (N.to_nat left) st.ns_subranks
  in
  let pairs = subranks :: st.ns_pairs in
  let pairs0 =
    if N.ltb N0 (N.modulo nlines rSN_BLOCK_SIZE)
    then N0 :: (st.ns_next_rank :: pairs)
    else pairs
  in
  bind (osub (N.div (len pairs0) (Npos (XO XH))) (Npos XH)) (fun last0 -> Val
    { rsn_bv = bv; rsn_pairs = (rev pairs0); rsn_samples0 =
    (rev (last0 :: st.ns_s0)); rsn_samples1 = (rev (last0 :: st.ns_s1)) })

(** val rsn_block_rank : rsnarrow -> n -> n outcome **)

let rsn_block_rank r block =
  bind (omul (Npos (XO (XO (XO (XO (XO (XO XH))))))) block (Npos (XO XH)))
    (fun k -> idx r.rsn_pairs k)

(** val rsn_sub_block_ranks : rsnarrow -> n -> n outcome **)

let rsn_sub_block_ranks r block =
  bind (omul (Npos (XO (XO (XO (XO (XO (XO XH))))))) block (Npos (XO XH)))
    (fun k ->
    bind (oadd (Npos (XO (XO (XO (XO (XO (XO XH))))))) k (Npos XH))
      (fun k0 -> idx r.rsn_pairs k0))

(** val rsn_sub_block_rank : rsnarrow -> n -> n outcome **)

let rsn_sub_block_rank r sub_block =
  let block = N.div sub_block rSN_BLOCK_SIZE in
  bind (rsn_block_rank r block) (fun br ->
    let left = N.modulo sub_block rSN_BLOCK_SIZE in
    bind (rsn_sub_block_ranks r block) (fun sr ->
      bind (osub (Npos (XI (XI XH))) left) (fun d ->
        bind
          (oshr (Npos (XO (XO (XO (XO (XO (XO XH))))))) sr
            (N.mul d rSN_SBR_BITS)) (fun sh ->
          oadd (Npos (XO (XO (XO (XO (XO (XO XH))))))) br
            (N.coq_land sh rSN_SBR_MASK)))))

(** val rsn_rank1_unchecked : rsnarrow -> n -> n outcome **)

let rsn_rank1_unchecked r i =
  if N.eqb i N0
  then Val N0
  else let i0 = N.sub i (Npos XH) in
       let sub_block = N.shiftr i0 (Npos (XO (XI XH))) in
       bind (rsn_sub_block_rank r sub_block) (fun result ->
         let sub_left =
           N.add (N.coq_land i0 (Npos (XI (XI (XI (XI (XI XH))))))) (Npos XH)
         in
         bind
           (if N.ltb
                 (N.mul (N.shiftr sub_block (Npos (XI XH))) (Npos (XO (XO (XO
                   XH))))) (len r.rsn_bv.bv_words)
            then Val ()
            else Fault UB) (fun _ ->
           bind (idx r.rsn_bv.bv_words sub_block) (fun w -> Val
             (N.add result
               (popcount
                 (N.modulo
                   (N.shiftl w
                     (N.sub (Npos (XO (XO (XO (XO (XO (XO XH))))))) sub_left))
                   m64))))))

(** val rsn_rank1 : rsnarrow -> n -> n option outcome **)

let rsn_rank1 r i =
  if (||) (bv_is_empty r.rsn_bv) (N.ltb (bv_len r.rsn_bv) i)
  then Val None
  else bind (rsn_rank1_unchecked r i) (fun v -> Val (Some v))

(** val rsn_rank0 : rsnarrow -> n -> n option outcome **)

let rsn_rank0 r i =
  bind (rsn_rank1 r i) (fun k ->
    match k with
    | Some k0 -> bind (osub i k0) (fun z0 -> Val (Some z0))
    | None -> Val None)

(** val rsn_n_ones : rsnarrow -> n outcome **)

let rsn_n_ones r =
  if bv_is_empty r.rsn_bv
  then Val N0
  else let n1 = N.sub (bv_len r.rsn_bv) (Npos XH) in
       bind (rsn_rank1 r n1) (fun a ->
         bind (ounwrap a) (fun a0 ->
           bind (bv_get r.rsn_bv n1) (fun g ->
             bind (ounwrap g) (fun g0 -> Val
               (N.add a0 (if g0 then Npos XH else N0))))))

(** val rsn_n_zeros : rsnarrow -> n outcome **)

let rsn_n_zeros r =
  bind (rsn_n_ones r) (fun o -> osub (bv_len r.rsn_bv) o)

(** val scan_while : (n -> n outcome) -> n -> n -> n -> nat -> n outcome **)

let rec scan_while test i hint_start hint_end = function
| O -> Fault OutOfFuel
| S f ->
  if N.ltb hint_start hint_end
  then bind (test hint_start) (fun v ->
         if N.ltb i v
         then Val hint_start
         else scan_while test i (N.add hint_start (Npos XH)) hint_end f)
  else Val hint_start

(** val scan_for : (n -> n outcome) -> n -> n -> n -> nat -> n outcome **)

let rec scan_for test i position j = function
| O -> Val position
| S f ->
  bind (test (N.add position j)) (fun v ->
    if N.ltb i v
    then bind (osub j (Npos XH)) (fun j1 -> Val (N.add position j1))
    else if N.eqb j (Npos (XI (XI XH)))
         then Val (N.add position j)
         else scan_for test i position (N.add j (Npos XH)) f)

(** val rsn_select_subblock : bool -> rsnarrow -> n -> (n * n) outcome **)

let rsn_select_subblock one r i =
  let samples = if one then r.rsn_samples1 else r.rsn_samples0 in
  let hint = N.div i (if one then rSN_ONES_PER_HINT else rSN_ZEROS_PER_HINT)
  in
  bind (idx samples hint) (fun hs ->
    bind (idx samples (N.add hint (Npos XH))) (fun he0 ->
      let blk = fun b ->
        if one
        then rsn_block_rank r b
        else bind (rsn_block_rank r b) (fun br ->
               osub
                 (N.mul
                   (N.mul rSN_BLOCK_SIZE (Npos (XO (XO (XO (XO (XO (XO
                     XH)))))))) b) br)
      in
      let sub0 = fun s ->
        if one
        then rsn_sub_block_rank r s
        else bind (rsn_sub_block_rank r s) (fun sr ->
               osub (N.mul (Npos (XO (XO (XO (XO (XO (XO XH))))))) s) sr)
      in
      bind
        (scan_while blk i hs (N.add (Npos XH) he0) (S (length r.rsn_pairs)))
        (fun hs' ->
        bind (osub hs' (Npos XH)) (fun p0 ->
          let position = N.mul p0 rSN_BLOCK_SIZE in
          bind
            (scan_for sub0 i position N0 (S (S (S (S (S (S (S (S O)))))))))
            (fun position0 ->
            bind (sub0 position0) (fun rank -> Val (position0, rank)))))))

(** val rsn_select_unchecked : bool -> rsnarrow -> n -> n outcome **)

let rsn_select_unchecked one r i =
  bind (rsn_select_subblock one r i) (fun pat ->
    let (block, rank) = pat in
    bind
      (if N.ltb
            (N.mul (N.shiftr block (Npos (XI XH))) (Npos (XO (XO (XO XH)))))
            (len r.rsn_bv.bv_words)
       then Val ()
       else Fault Panic) (fun _ ->
      bind (idx r.rsn_bv.bv_words block) (fun w ->
        bind (osub i rank) (fun d ->
          bind (select_in_word (if one then w else notw w) d) (fun s -> Val
            (N.add (N.mul block (Npos (XO (XO (XO (XO (XO (XO XH)))))))) s))))))

(** val rsn_select1 : rsnarrow -> n -> n option outcome **)

let rsn_select1 r i =
  bind (rsn_n_ones r) (fun o ->
    if N.leb o i
    then Val None
    else bind (rsn_select_unchecked true r i) (fun v -> Val (Some v)))

(** val rsn_select0 : rsnarrow -> n -> n option outcome **)

let rsn_select0 r i =
  bind (rsn_n_zeros r) (fun z0 ->
    if N.leb z0 i
    then Val None
    else bind (rsn_select_unchecked false r i) (fun v -> Val (Some v)))

(** val rsn_get : rsnarrow -> n -> bool option outcome **)

let rsn_get r i =
  bv_get r.rsn_bv i

type rswide = { rsw_bv : bitvec; rsw_meta : n list; rsw_samples0 : n list;
                rsw_samples1 : n list; rsw_n_zeros : n }

type rsw_state = { ws_meta : n list; ws_total : n; ws_cur : n; ws_pop : 
                   n; ws_zeros : n; ws_s0 : n list; ws_s1 : n list;
                   ws_hint0 : n; ws_hint1 : n }

(** val rsw_line : rsw_state -> n -> n list -> rsw_state **)

let rsw_line st b l =
  if N.eqb (N.modulo b (Npos (XO (XO (XO XH))))) N0
  then let p = ((N.add st.ws_total st.ws_pop), N0) in
       let cur = N.add st.ws_total st.ws_pop in
       let (total, pop) = p in
       let ones = line_n_ones l in
       let pop0 = N.add pop ones in
       if N.ltb st.ws_hint1 (N.div (N.add total pop0) rSW_ONES_PER_HINT)
       then let s1 = (N.div b (Npos (XO (XO (XO XH))))) :: st.ws_s1 in
            let h1 = N.add st.ws_hint1 (Npos XH) in
            let zeros =
              N.add st.ws_zeros
                (N.sub (Npos (XO (XO (XO (XO (XO (XO (XO (XO (XO XH))))))))))
                  ones)
            in
            if N.ltb st.ws_hint0 (N.div zeros rSW_ZEROS_PER_HINT)
            then let s0 = (N.div b (Npos (XO (XO (XO XH))))) :: st.ws_s0 in
                 let h0 = N.add st.ws_hint0 (Npos XH) in
                 let meta =
                   if N.eqb
                        (N.modulo (N.add b (Npos XH)) (Npos (XO (XO (XO
                          XH))))) N0
                   then cur :: st.ws_meta
                   else st.ws_meta
                 in
                 { ws_meta = meta; ws_total = total; ws_cur = cur; ws_pop =
                 pop0; ws_zeros = zeros; ws_s0 = s0; ws_s1 = s1; ws_hint0 =
                 h0; ws_hint1 = h1 }
            else let s0 = st.ws_s0 in
                 let h0 = st.ws_hint0 in
                 let meta =
                   if N.eqb
                        (N.modulo (N.add b (Npos XH)) (Npos (XO (XO (XO
                          XH))))) N0
                   then cur :: st.ws_meta
                   else st.ws_meta
                 in
                 { ws_meta = meta; ws_total = total; ws_cur = cur; ws_pop =
                 pop0; ws_zeros = zeros; ws_s0 = s0; ws_s1 = s1; ws_hint0 =
                 h0; ws_hint1 = h1 }
       else let s1 = st.ws_s1 in
            let h1 = st.ws_hint1 in
            let zeros =
              N.add st.ws_zeros
                (N.sub (Npos (XO (XO (XO (XO (XO (XO (XO (XO (XO XH))))))))))
                  ones)
            in
            if N.ltb st.ws_hint0 (N.div zeros rSW_ZEROS_PER_HINT)
            then let s0 = (N.div b (Npos (XO (XO (XO XH))))) :: st.ws_s0 in
                 let h0 = N.add st.ws_hint0 (Npos XH) in
                 let meta =
                   if N.eqb
                        (N.modulo (N.add b (Npos XH)) (Npos (XO (XO (XO
                          XH))))) N0
                   then cur :: st.ws_meta
                   else st.ws_meta
                 in
                 { ws_meta = meta; ws_total = total; ws_cur = cur; ws_pop =
                 pop0; ws_zeros = zeros; ws_s0 = s0; ws_s1 = s1; ws_hint0 =
                 h0; ws_hint1 = h1 }
            else let s0 = st.ws_s0 in
                 let h0 = st.ws_hint0 in
                 let meta =
                   if N.eqb
                        (N.modulo (N.add b (Npos XH)) (Npos (XO (XO (XO
                          XH))))) N0
                   then cur :: st.ws_meta
                   else st.ws_meta
                 in
                 { ws_meta = meta; ws_total = total; ws_cur = cur; ws_pop =
                 pop0; ws_zeros = zeros; ws_s0 = s0; ws_s1 = s1; ws_hint0 =
                 h0; ws_hint1 = h1 }
  else let p = (st.ws_total, st.ws_pop) in
       let cur =
         N.coq_lor (N.modulo (N.shiftl st.ws_cur rSW_BLK_BITS) m128) st.ws_pop
       in
       let (total, pop) = p in
       let ones = line_n_ones l in
       let pop0 = N.add pop ones in
       if N.ltb st.ws_hint1 (N.div (N.add total pop0) rSW_ONES_PER_HINT)
       then let s1 = (N.div b (Npos (XO (XO (XO XH))))) :: st.ws_s1 in
            let h1 = N.add st.ws_hint1 (Npos XH) in
            let zeros =
              N.add st.ws_zeros
                (N.sub (Npos (XO (XO (XO (XO (XO (XO (XO (XO (XO XH))))))))))
                  ones)
            in
            if N.ltb st.ws_hint0 (N.div zeros rSW_ZEROS_PER_HINT)
            then let s0 = (N.div b (Npos (XO (XO (XO XH))))) :: st.ws_s0 in
                 let h0 = N.add st.ws_hint0 (Npos XH) in
                 let meta =
                   if N.eqb
                        (N.modulo (N.add b (Npos XH)) (Npos (XO (XO (XO
                          XH))))) N0
                   then cur :: st.ws_meta
                   else st.ws_meta
                 in
                 { ws_meta = meta; ws_total = total; ws_cur = cur; ws_pop =
                 pop0; ws_zeros = zeros; ws_s0 = s0; ws_s1 = s1; ws_hint0 =
                 h0; ws_hint1 = h1 }
            else let s0 = st.ws_s0 in
                 let h0 = st.ws_hint0 in
                 let meta =
                   if N.eqb
                        (N.modulo (N.add b (Npos XH)) (Npos (XO (XO (XO
                          XH))))) N0
                   then cur :: st.ws_meta
                   else st.ws_meta
                 in
                 { ws_meta = meta; ws_total = total; ws_cur = cur; ws_pop =
                 pop0; ws_zeros = zeros; ws_s0 = s0; ws_s1 = s1; ws_hint0 =
                 h0; ws_hint1 = h1 }
       else let s1 = st.ws_s1 in
            let h1 = st.ws_hint1 in
            let zeros =
              N.add st.ws_zeros
                (N.sub (Npos (XO (XO (XO (XO (XO (XO (XO (XO (XO XH))))))))))
                  ones)
            in
            if N.ltb st.ws_hint0 (N.div zeros rSW_ZEROS_PER_HINT)
            then let s0 = (N.div b (Npos (XO (XO (XO XH))))) :: st.ws_s0 in
                 let h0 = N.add st.ws_hint0 (Npos XH) in
                 let meta =
                   if N.eqb
                        (N.modulo (N.add b (Npos XH)) (Npos (XO (XO (XO
                          XH))))) N0
                   then cur :: st.ws_meta
                   else st.ws_meta
                 in
                 { ws_meta = meta; ws_total = total; ws_cur = cur; ws_pop =
                 pop0; ws_zeros = zeros; ws_s0 = s0; ws_s1 = s1; ws_hint0 =
                 h0; ws_hint1 = h1 }
            else let s0 = st.ws_s0 in
                 let h0 = st.ws_hint0 in
                 let meta =
                   if N.eqb
                        (N.modulo (N.add b (Npos XH)) (Npos (XO (XO (XO
                          XH))))) N0
                   then cur :: st.ws_meta
                   else st.ws_meta
                 in
                 { ws_meta = meta; ws_total = total; ws_cur = cur; ws_pop =
                 pop0; ws_zeros = zeros; ws_s0 = s0; ws_s1 = s1; ws_hint0 =
                 h0; ws_hint1 = h1 }

(** val rsw_loop : rsw_state -> n -> n list -> nat -> rsw_state **)

let rec rsw_loop st b ws = function
| O -> st
| S f ->
  (match ws with
   | [] -> st
   | _ :: _ ->
     rsw_loop (rsw_line st b (firstn (S (S (S (S (S (S (S (S O)))))))) ws))
       (N.add b (Npos XH)) (skipn (S (S (S (S (S (S (S (S O)))))))) ws) f)

(** val rsw_new : bitvec -> rswide outcome **)

let rsw_new bv =
  let nlines = N.div (len bv.bv_words) (Npos (XO (XO (XO XH)))) in
  let st =
    rsw_loop { ws_meta = []; ws_total = N0; ws_cur = N0; ws_pop = N0;
      ws_zeros = N0; ws_s0 = (N0 :: []); ws_s1 = (N0 :: []); ws_hint0 = N0;
      ws_hint1 = N0 } N0 bv.bv_words (N.to_nat nlines)
  in
  let total = N.add st.ws_total st.ws_pop in
  let left = N.modulo nlines (Npos (XO (XO (XO XH)))) in
  let meta =
    if N.eqb left N0
    then st.ws_meta
    else (iterN (fun c ->
           N.coq_lor (N.modulo (N.shiftl c rSW_BLK_BITS_TAIL) m128) st.ws_pop)
           (N.to_nat (N.sub (Npos (XO (XO (XO XH)))) left)) st.ws_cur) :: st.ws_meta
  in
  let meta0 = (N.modulo (N.shiftl total rSW_SB_SHIFT) m128) :: meta in
  bind (osub (len meta0) (Npos XH)) (fun last0 ->
    bind (osub (bv_len bv) total) (fun nz -> Val { rsw_bv = bv; rsw_meta =
      (rev meta0); rsw_samples0 = (rev (last0 :: st.ws_s0)); rsw_samples1 =
      (rev (last0 :: st.ws_s1)); rsw_n_zeros = nz }))

(** val rsw_n_zeros_q : rswide -> n **)

let rsw_n_zeros_q r =
  r.rsw_n_zeros

(** val rsw_n_ones : rswide -> n outcome **)

let rsw_n_ones r =
  osub (bv_len r.rsw_bv) r.rsw_n_zeros

(** val rsw_superblock_rank : rswide -> n -> n outcome **)

let rsw_superblock_rank r block =
  bind (idx r.rsw_meta block) (fun m -> Val (N.shiftr m rSW_SB_SHIFT_RD))

(** val rsw_sub_block_rank : rswide -> n -> n outcome **)

let rsw_sub_block_rank r sub_block =
  let superblock = N.div sub_block (Npos (XO (XO (XO XH)))) in
  bind (rsw_superblock_rank r superblock) (fun sr ->
    let left = N.modulo sub_block (Npos (XO (XO (XO XH)))) in
    if N.eqb left N0
    then Val sr
    else bind (idx r.rsw_meta superblock) (fun m -> Val
           (N.add sr
             (N.coq_land
               (N.shiftr m
                 (N.mul (N.sub (Npos (XI (XI XH))) left) rSW_BLK_BITS_RD))
               rSW_BLK_MASK))))

(** val rsw_rank1_unchecked : rswide -> n -> n outcome **)

let rsw_rank1_unchecked r i =
  if N.eqb i N0
  then Val N0
  else let i0 = N.sub i (Npos XH) in
       let sub_block = N.shiftr i0 (Npos (XI (XO (XO XH)))) in
       bind (rsw_sub_block_rank r sub_block) (fun result ->
         let sub_left =
           N.add
             (N.coq_land i0 (Npos (XI (XI (XI (XI (XI (XI (XI (XI XH))))))))))
             (Npos XH)
         in
         bind
           (if N.ltb (N.mul sub_block (Npos (XO (XO (XO XH)))))
                 (len r.rsw_bv.bv_words)
            then Val ()
            else Fault Panic) (fun _ ->
           bind
             (ounwrap
               (bline_rank1 (line_of r.rsw_bv.bv_words sub_block) sub_left))
             (fun k -> Val (N.add result k))))

(** val rsw_rank1 : rswide -> n -> n option outcome **)

let rsw_rank1 r i =
  if (||) (bv_is_empty r.rsw_bv) (N.ltb (bv_len r.rsw_bv) i)
  then Val None
  else bind (rsw_rank1_unchecked r i) (fun v -> Val (Some v))

(** val rsw_rank0 : rswide -> n -> n option outcome **)

let rsw_rank0 r i =
  bind (rsw_rank1 r i) (fun k ->
    match k with
    | Some k0 -> bind (osub i k0) (fun z0 -> Val (Some z0))
    | None -> Val None)

(** val rsw_rank0_unchecked : rswide -> n -> n outcome **)

let rsw_rank0_unchecked r i =
  bind (rsw_rank1_unchecked r i) (fun k -> osub i k)

(** val rsw_select_subblock : bool -> rswide -> n -> (n * n) outcome **)

let rsw_select_subblock one r i =
  let samples = if one then r.rsw_samples1 else r.rsw_samples0 in
  let hint = N.div i (if one then rSW_ONES_PER_HINT else rSW_ZEROS_PER_HINT)
  in
  bind (idx samples hint) (fun hs ->
    bind (idx samples (N.add hint (Npos XH))) (fun he0 ->
      let blk = fun b ->
        if one
        then rsw_superblock_rank r b
        else bind (rsw_superblock_rank r b) (fun br ->
               osub
                 (N.mul
                   (N.mul rSW_SUPERBLOCK_WORDS (Npos (XO (XO (XO (XO (XO (XO
                     XH)))))))) b) br)
      in
      let sub0 = fun s ->
        if one
        then rsw_sub_block_rank r s
        else bind (rsw_sub_block_rank r s) (fun sr ->
               osub
                 (N.mul
                   (N.mul rSW_BLOCK_WORDS (Npos (XO (XO (XO (XO (XO (XO
                     XH)))))))) s) sr)
      in
      bind
        (scan_while blk i hs (N.add (Npos XH) he0) (S (length r.rsw_meta)))
        (fun hs' ->
        bind (osub hs' (Npos XH)) (fun p0 ->
          let position = N.mul p0 (N.div rSW_SUPERBLOCK_WORDS rSW_BLOCK_WORDS)
          in
          bind
            (scan_for sub0 i position N0 (S (S (S (S (S (S (S (S O)))))))))
            (fun position0 ->
            bind (sub0 position0) (fun rank -> Val (position0, rank)))))))

(** val rsw_select_unchecked : bool -> rswide -> n -> n outcome **)

let rsw_select_unchecked one r i =
  bind (rsw_select_subblock one r i) (fun pat ->
    let (block, rank) = pat in
    bind
      (if N.ltb (N.mul block (Npos (XO (XO (XO XH))))) (len r.rsw_bv.bv_words)
       then Val ()
       else Fault Panic) (fun _ ->
      bind (osub i rank) (fun d ->
        bind
          (bline_select_loop (negb one) (line_of r.rsw_bv.bv_words block) d
            N0 N0) (fun off -> Val
          (N.add
            (N.mul block (Npos (XO (XO (XO (XO (XO (XO (XO (XO (XO
              XH))))))))))) off)))))

(** val rsw_select1 : rswide -> n -> n option outcome **)

let rsw_select1 r i =
  bind (rsw_n_ones r) (fun o ->
    if N.leb o i
    then Val None
    else bind (rsw_select_unchecked true r i) (fun v -> Val (Some v)))

(** val rsw_select0 : rswide -> n -> n option outcome **)

let rsw_select0 r i =
  if N.leb r.rsw_n_zeros i
  then Val None
  else bind (rsw_select_unchecked false r i) (fun v -> Val (Some v))

(** val rsw_get : rswide -> n -> bool option outcome **)

let rsw_get r i =
  bv_get r.rsw_bv i

(** val rsw_get_unchecked : rswide -> n -> bool outcome **)

let rsw_get_unchecked r i =
  bv_get_unchecked r.rsw_bv i

type inventories = { inv_n_sets : n; inv_block : z list; inv_sub : n list;
                     inv_overflow : n list }

(** val step_by : nat -> n list -> nat -> n list **)

let rec step_by k l = function
| O -> []
| S f -> (match l with
          | [] -> []
          | x :: _ -> x :: (step_by k (skipn k l) f))

(** val flush_block :
    n list -> ((z list * n list) * n list) -> ((z list * n list) * n list)
    outcome **)

let flush_block curr st = match st with
| (p, ovf) ->
  let (blk, sub0) = p in
  (match curr with
   | [] -> Val st
   | first :: _ ->
     let last0 = last curr N0 in
     bind (osub last0 first) (fun d ->
       if N.ltb d dA_MAX_DIST
       then let subs =
              map (fun p0 ->
                N.modulo (N.sub p0 first)
                  (N.pow (Npos (XO XH)) (Npos (XO (XO (XO (XO XH)))))))
                (step_by (N.to_nat dA_SUBBLOCK) curr (length curr))
            in
            Val ((((Z.of_N first) :: blk), (app (rev subs) sub0)), ovf)
       else let v = Z.sub (Z.opp (Z.of_N (len ovf))) (Zpos XH) in
            let k =
              N.div (N.sub (N.add (len curr) dA_SUBBLOCK) (Npos XH))
                dA_SUBBLOCK
            in
            Val (((v :: blk),
            (app
              (repeat
                (N.sub (N.pow (Npos (XO XH)) (Npos (XO (XO (XO (XO XH))))))
                  (Npos XH)) (N.to_nat k)) sub0)), (app (rev curr) ovf))))

(** val inv_loop :
    n list -> n list -> n -> ((z list * n list) * n list) -> n -> ((n
    list * ((z list * n list) * n list)) * n) outcome **)

let rec inv_loop ps curr_rev ncurr st n_sets =
  match ps with
  | [] -> Val ((curr_rev, st), n_sets)
  | p :: r ->
    let curr_rev0 = p :: curr_rev in
    let ncurr0 = N.add ncurr (Npos XH) in
    if N.eqb ncurr0 dA_BLOCK
    then bind (flush_block (rev curr_rev0) st) (fun st' ->
           inv_loop r [] N0 st' (N.add n_sets (Npos XH)))
    else inv_loop r curr_rev0 ncurr0 st (N.add n_sets (Npos XH))

(** val inv_new : bool -> bitvec -> inventories outcome **)

let inv_new bit bv =
  let ps = pi_collect bit bv pi_new (S (N.to_nat bv.bv_nbits)) in
  bind (inv_loop ps [] N0 (([], []), []) N0) (fun pat ->
    let (p, n_sets) = pat in
    let (curr_rev, st) = p in
    bind (flush_block (rev curr_rev) st) (fun pat0 ->
      let (p0, ovf) = pat0 in
      let (blk, sub0) = p0 in
      Val { inv_n_sets = n_sets; inv_block = (rev blk); inv_sub = (rev sub0);
      inv_overflow = (rev ovf) }))

(** val nthZ : z list -> n -> z option **)

let rec nthZ l i =
  match l with
  | [] -> None
  | x :: l' -> if N.eqb i N0 then Some x else nthZ l' (N.pred i)

(** val da_scan :
    bool -> bitvec -> n -> n -> n -> nat -> ((n * n) * n) outcome **)

let rec da_scan bit bv word reminder word_idx = function
| O -> Fault OutOfFuel
| S f ->
  let popcnt = popcount word in
  if N.ltb reminder popcnt
  then Val ((word, reminder), word_idx)
  else bind (bv_get_word bv (N.add word_idx (Npos XH))) (fun w ->
         da_scan bit bv (if bit then w else notw w) (N.sub reminder popcnt)
           (N.add word_idx (Npos XH)) f)

(** val da_select : bool -> bitvec -> inventories -> n -> n option outcome **)

let da_select bit bv inv i =
  if N.leb inv.inv_n_sets i
  then Val None
  else let block = N.div i dA_BLOCK in
       bind
         (match nthZ inv.inv_block block with
          | Some z0 -> Val z0
          | None -> Fault Panic) (fun block_pos ->
         if Z.ltb block_pos Z0
         then let overflow_pos = Z.to_N (Z.sub (Z.opp block_pos) (Zpos XH)) in
              bind
                (idx inv.inv_overflow
                  (N.add overflow_pos
                    (N.coq_land i (N.sub dA_BLOCK (Npos XH))))) (fun p -> Val
                (Some p))
         else let subblock = N.div i dA_SUBBLOCK in
              bind (idx inv.inv_sub subblock) (fun sb ->
                let start_pos = N.add (Z.to_N block_pos) sb in
                let reminder = N.coq_land i (N.sub dA_SUBBLOCK (Npos XH)) in
                if N.eqb reminder N0
                then Val (Some start_pos)
                else let word_idx = N.shiftr start_pos (Npos (XO (XI XH))) in
                     let word_shift =
                       N.coq_land start_pos (Npos (XI (XI (XI (XI (XI XH))))))
                     in
                     bind (bv_get_word bv word_idx) (fun w ->
                       let word =
                         N.coq_land (if bit then w else notw w)
                           (N.modulo
                             (N.shiftl (N.sub m64 (Npos XH)) word_shift) m64)
                       in
                       bind
                         (da_scan bit bv word reminder word_idx (S
                           (length bv.bv_words))) (fun pat ->
                         let (p, word_idx0) = pat in
                         let (word0, reminder0) = p in
                         bind (select_in_word word0 reminder0) (fun s -> Val
                           (Some
                           (N.add (N.shiftl word_idx0 (Npos (XO (XI XH)))) s)))))))

type darray = { da_bv : bitvec; da_ones : inventories;
                da_zeros : inventories option }

(** val da_new : bool -> bitvec -> darray outcome **)

let da_new s0 bv =
  bind (inv_new true bv) (fun ones ->
    bind
      (if s0
       then bind (inv_new false bv) (fun z0 -> Val (Some z0))
       else Val None) (fun zeros -> Val { da_bv = bv; da_ones = ones;
      da_zeros = zeros }))

(** val da_select1 : darray -> n -> n option outcome **)

let da_select1 d i =
  da_select true d.da_bv d.da_ones i

(** val da_select0 : bool -> darray -> n -> n option outcome **)

let da_select0 s0 d i =
  bind (oassert s0) (fun _ ->
    bind (ounwrap d.da_zeros) (fun z0 -> da_select false d.da_bv z0 i))

(** val da_len : darray -> n **)

let da_len d =
  bv_len d.da_bv

(** val da_count_ones : darray -> n **)

let da_count_ones d =
  d.da_ones.inv_n_sets

(** val da_count_zeros : darray -> n outcome **)

let da_count_zeros d =
  osub (bv_len d.da_bv) d.da_ones.inv_n_sets

(** val da_get : darray -> n -> bool option outcome **)

let da_get d i =
  bv_get d.da_bv i

(** val strictly_increasing : n list -> bool **)

let rec strictly_increasing = function
| [] -> true
| x :: r ->
  (match r with
   | [] -> true
   | y :: _ -> (&&) (N.ltb x y) (strictly_increasing r))

(** val da_from_positions : bool -> n list -> darray outcome **)

let da_from_positions s0 ps =
  bind (oassert (strictly_increasing ps)) (fun _ ->
    bind (bv_from_positions ps) (fun bv -> da_new s0 bv))

(** val da_from_bools : bool -> bool list -> darray outcome **)

let da_from_bools s0 bs =
  bind (bv_from_bools bs) (fun bv -> da_new s0 bv)

type pcode = { pc_content : n; pc_len : n }

(** val pc_zero : pcode **)

let pc_zero =
  { pc_content = N0; pc_len = N0 }

(** val craft_expand : n -> n list -> n -> n -> n -> n list outcome **)

let craft_expand frag c j l size0 =
  bind
    (if N.leb (Npos (XO (XO (XO (XO (XO XH)))))) l
     then Fault Overflow
     else Val ()) (fun _ ->
    let pre = firstnN j c in
    let act = skipnN j c in
    let tag = fun k -> map (fun x -> N.coq_lor x (N.shiftl k l)) act in
    let c' =
      if N.eqb frag (Npos (XO XH))
      then app pre
             (app (tag (Npos (XI XH)))
               (app (tag (Npos (XO XH))) (app (tag (Npos XH)) act)))
      else app pre (app (tag (Npos XH)) act)
    in
    if N.leb (len c') size0 then Val c' else Fault Panic)

(** val craft_grow :
    n -> n list -> n -> n -> n -> n -> nat -> (n list * n) outcome **)

let rec craft_grow frag c j l target size0 = function
| O -> Fault OutOfFuel
| S f ->
  if N.ltb l target
  then bind (craft_expand frag c j l size0) (fun c' ->
         craft_grow frag c' j (N.add l frag) target size0 f)
  else Val (c, l)

(** val rev_frags : n -> n -> n -> n -> nat -> n **)

let rec rev_frags frag x l t = function
| O -> N0
| S f ->
  if N.ltb t l
  then N.coq_lor
         (N.shiftl
           (N.coq_land (N.shiftr x t)
             (N.sub (N.pow (Npos (XO XH)) frag) (Npos XH)))
           (N.sub (N.sub l t) frag)) (rev_frags frag x l (N.add t frag) f)
  else N0

(** val craft_assign :
    n -> (n * n) list -> n list -> n -> n -> n -> pcode list -> pcode list
    outcome **)

let rec craft_assign frag f c j l size0 table =
  match f with
  | [] -> Val table
  | p :: rest ->
    let (sym, target) = p in
    bind
      (craft_grow frag c j l target size0 (S (S (S (S (S (S (S (S (S (S (S (S
        (S (S (S (S (S (S (S (S (S (S (S (S (S (S (S (S (S (S (S (S (S (S (S
        (S (S (S (S (S O))))))))))))))))))))))))))))))))))))))))) (fun pat ->
      let (c', l') = pat in
      bind (idx c' j) (fun cj ->
        let code = { pc_content =
          (rev_frags frag cj l' N0 (S (S (S (S (S (S (S (S (S (S (S (S (S (S
            (S (S (S (S (S (S (S (S (S (S (S (S (S (S (S (S (S (S (S (S (S (S
            (S (S (S (S O))))))))))))))))))))))))))))))))))))))))); pc_len =
          l' }
        in
        bind (if N.ltb sym (len table) then Val () else Fault Panic)
          (fun _ ->
          craft_assign frag rest c' (N.add j (Npos XH)) l' size0
            (setN table sym code))))

(** val craft_wm_codes : n -> (n * n) list -> n -> n -> pcode list outcome **)

let craft_wm_codes frag f sigma scratch =
  craft_assign frag f (N0 :: []) N0 N0 scratch
    (repeat pc_zero (N.to_nat (N.add sigma (Npos XH))))

(** val craft4 : (n * n) list -> n -> pcode list outcome **)

let craft4 f sigma =
  craft_wm_codes (Npos (XO XH)) f sigma (N.mul (len f) (Npos (XO (XO XH))))

(** val craft2 : (n * n) list -> n -> pcode list outcome **)

let craft2 f sigma =
  craft_wm_codes (Npos XH) f sigma (N.max (len f) (Npos (XO XH)))

(** val insert_sorted : (n * n) -> (n * n) list -> (n * n) list **)

let rec insert_sorted x l = match l with
| [] -> x :: []
| y :: r -> if N.ltb (fst x) (fst y) then x :: l else y :: (insert_sorted x r)

(** val sort_by_key : (n * n) list -> (n * n) list **)

let sort_by_key l =
  fold_left (fun acc x -> insert_sorted x acc) l []

(** val decode_tables : pcode list -> n -> (n * n) list list **)

let decode_tables codes max_len =
  map (fun ln ->
    sort_by_key
      (map (fun pat -> let (i, c) = pat in (c.pc_content, i))
        (filter (fun pat ->
          let (_, c) = pat in
          (&&) (negb (N.eqb c.pc_len N0)) (N.eqb c.pc_len ln))
          (number_levels codes N0)))) (seqN N0 (S (N.to_nat max_len)))

(** val table_lookup : (n * n) list -> n -> n outcome **)

let table_lookup t key =
  match find (fun p -> N.eqb (fst p) key) t with
  | Some p -> Val (snd p)
  | None -> Fault Panic

type hqwt = { h_n : n; h_n_levels : n; h_codes : pcode list;
              h_decode : (n * n) list list; h_qvs : rsq list; h_lens : 
              n list }

(** val sym_index : n -> n **)

let sym_index x =
  N.modulo x (N.pow (Npos (XO XH)) (Npos (XO (XO (XO (XO (XO (XO XH))))))))

(** val part_with_codes : n -> n list -> n -> pcode list -> n list outcome **)

let part_with_codes nbuckets seq shift codes =
  bind
    (mapo (fun a ->
      bind (idx codes (sym_index a)) (fun code ->
        if N.leb code.pc_len shift
        then Val (nbuckets, a)
        else bind (osub code.pc_len shift) (fun d -> Val
               ((N.coq_land (N.shiftr code.pc_content d)
                  (N.sub nbuckets (Npos XH))), a)))) seq) (fun tagged ->
    let pick = fun d -> map snd (filter (fun p -> N.eqb (fst p) d) tagged) in
    Val
    (if N.eqb nbuckets (Npos (XO (XO XH)))
     then app (pick N0)
            (app (pick (Npos XH))
              (app (pick (Npos (XO XH)))
                (app (pick (Npos (XI XH))) (pick (Npos (XO (XO XH)))))))
     else app (pick N0) (app (pick (Npos XH)) (pick (Npos (XO XH))))))

(** val hq_levels :
    n -> n list -> pcode list -> n -> nat -> (rsq list * n list) outcome **)

let rec hq_levels bsize seq codes shift = function
| O -> Val ([], [])
| S k ->
  bind
    (mapo (fun s ->
      bind (idx codes (sym_index s)) (fun code ->
        if N.leb shift code.pc_len
        then Val (Some
               (N.coq_land
                 (N.shiftr code.pc_content (N.sub code.pc_len shift)) (Npos
                 (XI XH))))
        else Val None)) seq) (fun ds ->
    let digits =
      flat_map (fun o -> match o with
                         | Some d -> d :: []
                         | None -> []) ds
    in
    bind (qvb_push_all qvb_new digits) (fun qv ->
      bind (rsq_from_qv bsize qv) (fun rs ->
        bind (part_with_codes (Npos (XO (XO XH))) seq shift codes)
          (fun seq' ->
          bind (hq_levels bsize seq' codes (N.add shift (Npos (XO XH))) k)
            (fun pat ->
            let (rest, lens) = pat in
            Val ((rs :: rest), ((qv_len qv) :: lens)))))))

(** val hq_build : n -> n list -> pcode list -> hqwt outcome **)

let hq_build bsize seq codes =
  match seq with
  | [] ->
    bind (rsq_default bsize) (fun d -> Val { h_n = N0; h_n_levels = N0;
      h_codes = []; h_decode = []; h_qvs = (d :: []); h_lens = (N0 :: []) })
  | _ :: _ ->
    let max_len = maxN (map (fun p -> p.pc_len) codes) in
    let n_levels = N.div max_len (Npos (XO XH)) in
    bind (hq_levels bsize seq codes (Npos (XO XH)) (N.to_nat n_levels))
      (fun pat ->
      let (qvs, lens) = pat in
      Val { h_n = (len seq); h_n_levels = n_levels; h_codes = codes;
      h_decode = (decode_tables codes max_len); h_qvs = qvs; h_lens = lens })

(** val hq_new : n -> n list -> (n * n) list -> hqwt outcome **)

let hq_new bsize seq f =
  match seq with
  | [] -> hq_build bsize [] []
  | _ :: _ ->
    bind (craft4 f (sym_index (maxN seq))) (fun codes ->
      hq_build bsize seq codes)

(** val hq_len : hqwt -> n **)

let hq_len t =
  t.h_n

(** val hq_get_walk :
    n -> hqwt -> n -> n -> n -> n -> nat -> (n * n) outcome **)

let rec hq_get_walk bsize t cur_i result shift level = function
| O -> Val (result, shift)
| S k ->
  bind (idx t.h_lens level) (fun ln ->
    if N.leb ln cur_i
    then Val (result, shift)
    else bind (idx t.h_qvs level) (fun qv ->
           bind (rsq_get_unchecked qv cur_i) (fun symbol ->
             let result' =
               N.coq_lor
                 (N.modulo (N.shiftl result (Npos (XO XH)))
                   (N.pow (Npos (XO XH)) (Npos (XO (XO (XO (XO (XO XH))))))))
                 symbol
             in
             bind (rsq_occs_smaller_unchecked qv symbol) (fun offset ->
               bind (rsq_rank_unchecked bsize qv symbol cur_i) (fun r ->
                 hq_get_walk bsize t (N.add r offset) result'
                   (N.add shift (Npos (XO XH))) (N.add level (Npos XH)) k)))))

(** val hq_get_unchecked : n -> n -> hqwt -> n -> n outcome **)

let hq_get_unchecked w bsize t i =
  bind (hq_get_walk bsize t i N0 N0 N0 (N.to_nat t.h_n_levels)) (fun pat ->
    let (result, shift) = pat in
    bind (idx t.h_decode shift) (fun tab ->
      bind (table_lookup tab result) (fun s ->
        if N.ltb s (N.pow (Npos (XO XH)) w) then Val s else Fault Panic)))

(** val hq_get : n -> n -> hqwt -> n -> n option outcome **)

let hq_get w bsize t i =
  if N.leb t.h_n i
  then Val None
  else bind (hq_get_unchecked w bsize t i) (fun v -> Val (Some v))

(** val hq_code_of : hqwt -> n -> pcode option **)

let hq_code_of t symbol =
  if (||) (negb (N.eqb (sym_index symbol) symbol))
       (N.leb (len t.h_codes) (sym_index symbol))
  then None
  else (match nthN t.h_codes (sym_index symbol) with
        | Some c -> if N.eqb c.pc_len N0 then None else Some c
        | None -> None)

(** val hq_rank_walk :
    n -> rsq list -> n -> n -> n -> n -> n -> nat -> (n * n) outcome **)

let rec hq_rank_walk bsize qvs repr shift cur_p cur_i level = function
| O -> Val (cur_p, cur_i)
| S k ->
  let tb = N.coq_land (N.shiftr repr shift) (Npos (XI XH)) in
  bind (idx qvs level) (fun qv ->
    bind (rsq_occs_smaller_unchecked qv tb) (fun offset ->
      bind (rsq_rank_unchecked bsize qv tb cur_p) (fun rp ->
        bind (rsq_rank_unchecked bsize qv tb cur_i) (fun ri ->
          hq_rank_walk bsize qvs repr (N.sub shift (Npos (XO XH)))
            (N.add rp offset) (N.add ri offset) (N.add level (Npos XH)) k))))

(** val hq_rank_unchecked : n -> hqwt -> n -> n -> n outcome **)

let hq_rank_unchecked bsize t symbol i =
  bind (idx t.h_codes (sym_index symbol)) (fun code ->
    let iters = N.to_nat (N.div code.pc_len (Npos (XO XH))) in
    bind
      (hq_rank_walk bsize t.h_qvs code.pc_content
        (N.sub code.pc_len (Npos (XO XH))) N0 i N0 iters) (fun pat ->
      let (cur_p, cur_i) = pat in osub cur_i cur_p))

(** val hq_rank : n -> hqwt -> n -> n -> n option outcome **)

let hq_rank bsize t symbol i =
  if N.ltb t.h_n i
  then Val None
  else (match hq_code_of t symbol with
        | Some _ ->
          bind (hq_rank_unchecked bsize t symbol i) (fun v -> Val (Some v))
        | None -> Val None)

(** val hq_select_down :
    n -> rsq list -> n -> n -> n -> n -> nat -> (n * n) list option outcome **)

let rec hq_select_down bsize qvs repr shift b level = function
| O -> Val (Some [])
| S k ->
  let tb = N.coq_land (N.shiftr repr shift) (Npos (XI XH)) in
  bind (idx qvs level) (fun qv ->
    bind (rsq_rank bsize qv tb b) (fun r ->
      match r with
      | Some rank_b ->
        bind (rsq_occs_smaller_unchecked qv tb) (fun offset ->
          bind
            (hq_select_down bsize qvs repr (N.sub shift (Npos (XO XH)))
              (N.add rank_b offset) (N.add level (Npos XH)) k) (fun rest ->
            match rest with
            | Some l -> Val (Some ((b, rank_b) :: l))
            | None -> Val None))
      | None -> Val None))

(** val hq_select_up :
    n -> rsq list -> n -> n -> n -> ((n * n) * n) list -> n option outcome **)

let rec hq_select_up bsize qvs repr shift result = function
| [] -> Val (Some result)
| p :: rest ->
  let (p0, rank_b) = p in
  let (level, b) = p0 in
  let tb = N.coq_land (N.shiftr repr shift) (Npos (XI XH)) in
  bind (idx qvs level) (fun qv ->
    if N.leb (N.pow (Npos (XO XH)) (Npos (XO (XO (XO (XO (XO (XO XH))))))))
         (N.add rank_b result)
    then Val None
    else bind (rsq_select bsize qv tb (N.add rank_b result)) (fun s ->
           match s with
           | Some p1 ->
             bind (osub p1 b) (fun r' ->
               hq_select_up bsize qvs repr (N.add shift (Npos (XO XH))) r'
                 rest)
           | None -> Val None))

(** val hq_select : n -> hqwt -> n -> n -> n option outcome **)

let hq_select bsize t symbol i =
  match hq_code_of t symbol with
  | Some code ->
    let iters = N.to_nat (N.div code.pc_len (Npos (XO XH))) in
    bind
      (hq_select_down bsize t.h_qvs code.pc_content
        (N.sub code.pc_len (Npos (XO XH))) N0 N0 iters) (fun down ->
      match down with
      | Some path ->
        let numbered =
          map (fun pat ->
            let (lv, y) = pat in let (b, rb) = y in ((lv, b), rb))
            (number_levels path N0)
        in
        hq_select_up bsize t.h_qvs code.pc_content N0 i (rev numbered)
      | None -> Val None)
  | None -> Val None

(** val hq_select_unchecked : n -> hqwt -> n -> n -> n outcome **)

let hq_select_unchecked bsize t symbol i =
  bind (hq_select bsize t symbol i) ounwrap

(** val hq_estimate_walk :
    n -> rsq list -> n -> n -> n -> n -> n -> nat -> unit outcome **)

let rec hq_estimate_walk bsize qvs repr shift rs re level = function
| O -> Val ()
| S k ->
  let tb = N.coq_land (N.shiftr repr shift) (Npos (XI XH)) in
  bind (idx qvs level) (fun qv ->
    bind (rsq_occs_smaller_unchecked qv tb) (fun offset ->
      bind (rss_rank_block bsize qv.rsq_rs tb rs) (fun a ->
        bind (rss_rank_block bsize qv.rsq_rs tb re) (fun b ->
          bind (idx qvs (N.add level (Npos XH))) (fun _ ->
            hq_estimate_walk bsize qvs repr (N.sub shift (Npos (XO XH)))
              (N.add a offset) (N.add b offset) (N.add level (Npos XH)) k)))))

(** val hq_rank_prefetch_unchecked : n -> hqwt -> n -> n -> n outcome **)

let hq_rank_prefetch_unchecked bsize t symbol i =
  bind (idx t.h_codes (sym_index symbol)) (fun code ->
    bind (idx t.h_qvs N0) (fun _ ->
      bind
        (hq_estimate_walk bsize t.h_qvs code.pc_content
          (N.sub code.pc_len (Npos (XO XH))) N0 i N0
          (N.to_nat (N.sub (N.div code.pc_len (Npos (XO XH))) (Npos XH))))
        (fun _ -> hq_rank_unchecked bsize t symbol i)))

(** val hq_rank_prefetch : n -> hqwt -> n -> n -> n option outcome **)

let hq_rank_prefetch bsize t symbol i =
  if N.ltb t.h_n i
  then Val None
  else (match hq_code_of t symbol with
        | Some _ ->
          bind (hq_rank_prefetch_unchecked bsize t symbol i) (fun v -> Val
            (Some v))
        | None -> Val None)

type bwt = { w_n : n; w_n_levels : n; w_sigma : n option;
             w_codes : pcode list option;
             w_decode : (n * n) list list option; w_bvs : rswide list;
             w_lens : n list }

(** val one_bit : n -> n -> n -> n outcome **)

let one_bit w x shift =
  bind (oshr w x shift) (fun y -> Val
    (N.coq_land
      (N.modulo y
        (N.pow (Npos (XO XH)) (Npos (XO (XO (XO (XO (XO (XO XH))))))))) (Npos
      XH)))

(** val stable_partition_of_2 : n -> n list -> n -> n list outcome **)

let stable_partition_of_2 w seq shift =
  bind (mapo (fun a -> one_bit w a shift) seq) (fun ds ->
    let tagged = combine ds seq in
    let pick = fun d -> map snd (filter (fun p -> N.eqb (fst p) d) tagged) in
    Val (app (pick N0) (pick (Npos XH))))

(** val wt_levels :
    n -> bool -> n list -> pcode list -> n -> n -> nat -> (rswide list * n
    list) outcome **)

let rec wt_levels w compressed seq codes n_levels shift = function
| O -> Val ([], [])
| S k ->
  bind
    (mapo (fun s ->
      if compressed
      then bind (idx codes (sym_index s)) (fun code ->
             if N.leb shift code.pc_len
             then Val (Some
                    (N.eqb
                      (N.coq_land
                        (N.shiftr code.pc_content (N.sub code.pc_len shift))
                        (Npos XH)) (Npos XH)))
             else Val None)
      else bind (osub n_levels shift) (fun sh ->
             bind (one_bit w s sh) (fun b -> Val (Some (N.eqb b (Npos XH))))))
      seq) (fun bs ->
    let bits =
      flat_map (fun o -> match o with
                         | Some d -> d :: []
                         | None -> []) bs
    in
    bind (bv_from_bools bits) (fun bv ->
      bind (rsw_new bv) (fun rs ->
        bind
          (if compressed
           then part_with_codes (Npos (XO XH)) seq shift codes
           else bind (osub n_levels shift) (fun sh ->
                  stable_partition_of_2 w seq sh)) (fun seq' ->
          bind
            (wt_levels w compressed seq' codes n_levels
              (N.add shift (Npos XH)) k) (fun pat ->
            let (rest, lens) = pat in
            Val ((rs :: rest), ((bv_len bv) :: lens)))))))

(** val wt_build : n -> bool -> n list -> pcode list -> bwt outcome **)

let wt_build w compressed seq codes =
  match seq with
  | [] ->
    Val { w_n = N0; w_n_levels = N0; w_sigma = None; w_codes = None;
      w_decode = None; w_bvs = []; w_lens = [] }
  | _ :: _ ->
    let sigma = maxN seq in
    if compressed
    then let max_len = maxN (map (fun p -> p.pc_len) codes) in
         bind
           (wt_levels w true seq codes max_len (Npos XH) (N.to_nat max_len))
           (fun pat ->
           let (bvs, lens) = pat in
           Val { w_n = (len seq); w_n_levels = max_len; w_sigma = None;
           w_codes = (Some codes); w_decode = (Some
           (decode_tables codes max_len)); w_bvs = bvs; w_lens = lens })
    else let n_levels = N.add (msb sigma) (Npos XH) in
         bind
           (wt_levels w false seq [] n_levels (Npos XH) (N.to_nat n_levels))
           (fun pat ->
           let (bvs, lens) = pat in
           Val { w_n = (len seq); w_n_levels = n_levels; w_sigma = (Some
           sigma); w_codes = None; w_decode = None; w_bvs = bvs; w_lens =
           lens })

(** val hwt_new : n -> n list -> (n * n) list -> bwt outcome **)

let hwt_new w seq f =
  match seq with
  | [] -> wt_build w true [] []
  | _ :: _ ->
    bind (craft2 f (sym_index (maxN seq))) (fun codes ->
      wt_build w true seq codes)

(** val wt_bit_at : n -> bool -> n -> n -> n -> n -> bool outcome **)

let wt_bit_at w compressed symbol repr symbol_len level =
  bind (osub symbol_len (N.add level (Npos XH))) (fun sh ->
    if compressed
    then bind (oshr (Npos (XO (XO (XO (XO (XO XH)))))) repr sh) (fun y -> Val
           (N.eqb (N.coq_land y (Npos XH)) (Npos XH)))
    else bind (one_bit w symbol sh) (fun b -> Val (N.eqb b (Npos XH))))

(** val wt_get_walk :
    bool -> bwt -> n -> n -> n -> n -> n -> n -> nat -> ((n * n) * n) outcome **)

let rec wt_get_walk compressed t cur_i result result_t shift level w = function
| O -> Val ((result, result_t), shift)
| S k ->
  bind
    (if compressed
     then bind (idx t.w_lens level) (fun ln -> Val (N.leb ln cur_i))
     else Val false) (fun stop ->
    if stop
    then Val ((result, result_t), shift)
    else bind (idx t.w_bvs level) (fun bv ->
           bind (rsw_get_unchecked bv cur_i) (fun symbol ->
             let sb = if symbol then Npos XH else N0 in
             let result' =
               if compressed
               then N.coq_lor
                      (N.modulo (N.shiftl result (Npos XH))
                        (N.pow (Npos (XO XH)) (Npos (XO (XO (XO (XO (XO
                          XH)))))))) sb
               else result
             in
             let result_t' =
               if compressed
               then result_t
               else N.coq_lor
                      (N.modulo (N.shiftl result_t (Npos XH))
                        (N.pow (Npos (XO XH)) w)) sb
             in
             bind (rsw_rank1_unchecked bv cur_i) (fun tmp ->
               bind
                 (if symbol
                  then Val (N.add tmp (rsw_n_zeros_q bv))
                  else osub cur_i tmp) (fun cur_i' ->
                 wt_get_walk compressed t cur_i' result' result_t'
                   (N.add shift (Npos XH)) (N.add level (Npos XH)) w k)))))

(** val wt_get_unchecked : n -> bool -> bwt -> n -> n outcome **)

let wt_get_unchecked w compressed t i =
  bind (wt_get_walk compressed t i N0 N0 N0 N0 w (N.to_nat t.w_n_levels))
    (fun pat ->
    let (p, shift) = pat in
    let (result, result_t) = p in
    if compressed
    then bind (ounwrap t.w_decode) (fun dec ->
           bind (idx dec shift) (fun tab ->
             bind (table_lookup tab result) (fun s ->
               if N.ltb s (N.pow (Npos (XO XH)) w) then Val s else Fault Panic)))
    else Val result_t)

(** val wt_get : n -> bool -> bwt -> n -> n option outcome **)

let wt_get w compressed t i =
  if N.leb t.w_n i
  then Val None
  else bind (wt_get_unchecked w compressed t i) (fun v -> Val (Some v))

(** val wt_valid : bool -> bwt -> n -> (n * n) option outcome **)

let wt_valid compressed t symbol =
  if compressed
  then bind (ounwrap t.w_codes) (fun codes ->
         if (||) (negb (N.eqb (sym_index symbol) symbol))
              (N.leb (len codes) (sym_index symbol))
         then Val None
         else bind (idx codes (sym_index symbol)) (fun c ->
                if N.eqb c.pc_len N0
                then Val None
                else Val (Some (c.pc_content, c.pc_len))))
  else bind (ounwrap t.w_sigma) (fun sg ->
         if N.ltb sg symbol then Val None else Val (Some (N0, t.w_n_levels)))

(** val wt_rank_walk :
    n -> bool -> rswide list -> n -> n -> n -> n -> n -> n -> nat -> (n * n)
    outcome **)

let rec wt_rank_walk w compressed bvs symbol repr symbol_len cur_p cur_i level = function
| O -> Val (cur_p, cur_i)
| S k ->
  bind (wt_bit_at w compressed symbol repr symbol_len level) (fun bit ->
    bind (idx bvs level) (fun bv ->
      let offset = rsw_n_zeros_q bv in
      bind (rsw_rank1_unchecked bv cur_p) (fun tmp_p ->
        bind (rsw_rank1_unchecked bv cur_i) (fun tmp_i ->
          bind (if bit then Val (N.add tmp_p offset) else osub cur_p tmp_p)
            (fun cp ->
            bind (if bit then Val (N.add tmp_i offset) else osub cur_i tmp_i)
              (fun ci ->
              wt_rank_walk w compressed bvs symbol repr symbol_len cp ci
                (N.add level (Npos XH)) k))))))

(** val wt_rank_unchecked : n -> bool -> bwt -> n -> n -> n outcome **)

let wt_rank_unchecked w compressed t symbol i =
  bind
    (if compressed
     then bind (ounwrap t.w_codes) (fun codes ->
            bind (idx codes (sym_index symbol)) (fun c -> Val (c.pc_content,
              c.pc_len)))
     else Val (N0, t.w_n_levels)) (fun pat ->
    let (repr, symbol_len) = pat in
    bind
      (wt_rank_walk w compressed t.w_bvs symbol repr symbol_len N0 i N0
        (N.to_nat symbol_len)) (fun pat0 -> let (cp, ci) = pat0 in osub ci cp))

(** val wt_rank : n -> bool -> bwt -> n -> n -> n option outcome **)

let wt_rank w compressed t symbol i =
  if (||) (N.eqb t.w_n N0) (N.ltb t.w_n i)
  then Val None
  else bind (wt_valid compressed t symbol) (fun v ->
         match v with
         | Some _ ->
           bind (wt_rank_unchecked w compressed t symbol i) (fun r -> Val
             (Some r))
         | None -> Val None)

(** val wt_select_down :
    n -> bool -> rswide list -> n -> n -> n -> n -> n -> nat -> (n * n) list
    option outcome **)

let rec wt_select_down w compressed bvs symbol repr symbol_len b level = function
| O -> Val (Some [])
| S k ->
  bind (wt_bit_at w compressed symbol repr symbol_len level) (fun bit ->
    bind (idx bvs level) (fun bv ->
      bind (if bit then rsw_rank1 bv b else rsw_rank0 bv b) (fun r ->
        match r with
        | Some rank_b ->
          let b' = N.add rank_b (if bit then rsw_n_zeros_q bv else N0) in
          bind
            (wt_select_down w compressed bvs symbol repr symbol_len b'
              (N.add level (Npos XH)) k) (fun rest ->
            match rest with
            | Some l -> Val (Some ((b, rank_b) :: l))
            | None -> Val None)
        | None -> Val None)))

(** val wt_select_up :
    n -> bool -> rswide list -> n -> n -> n -> n -> ((n * n) * n) list -> n
    option outcome **)

let rec wt_select_up w compressed bvs symbol repr symbol_len result = function
| [] -> Val (Some result)
| p :: rest ->
  let (p0, rank_b) = p in
  let (level, b) = p0 in
  bind (wt_bit_at w compressed symbol repr symbol_len level) (fun bit ->
    bind (idx bvs level) (fun bv ->
      if N.leb (N.pow (Npos (XO XH)) (Npos (XO (XO (XO (XO (XO (XO XH))))))))
           (N.add rank_b result)
      then Val None
      else bind
             (if bit
              then rsw_select1 bv (N.add rank_b result)
              else rsw_select0 bv (N.add rank_b result)) (fun s ->
             match s with
             | Some p1 ->
               bind (osub p1 b) (fun r' ->
                 wt_select_up w compressed bvs symbol repr symbol_len r' rest)
             | None -> Val None)))

(** val wt_select : n -> bool -> bwt -> n -> n -> n option outcome **)

let wt_select w compressed t symbol i =
  if N.eqb t.w_n N0
  then Val None
  else bind (wt_valid compressed t symbol) (fun v ->
         match v with
         | Some p ->
           let (repr, symbol_len) = p in
           bind
             (wt_select_down w compressed t.w_bvs symbol repr symbol_len N0
               N0 (N.to_nat symbol_len)) (fun down ->
             match down with
             | Some path ->
               let numbered =
                 map (fun pat ->
                   let (lv, y) = pat in let (b, rb) = y in ((lv, b), rb))
                   (number_levels path N0)
               in
               wt_select_up w compressed t.w_bvs symbol repr symbol_len i
                 (rev numbered)
             | None -> Val None)
         | None -> Val None)

(** val wt_select_unchecked : n -> bool -> bwt -> n -> n -> n outcome **)

let wt_select_unchecked w compressed t symbol i =
  bind (wt_select w compressed t symbol i) ounwrap

type ty =
| TU of nat
| TBool
| TSeq of ty
| TArr of nat * ty
| TOpt of ty
| TTuple of ty list
| TUnit

type value =
| VU of n
| VBool of bool
| VSeq of value list
| VOpt of value option
| VTuple of value list
| VUnit

(** val le_bytes : nat -> n -> n list **)

let rec le_bytes n0 x =
  match n0 with
  | O -> []
  | S n' ->
    (N.modulo x (Npos (XO (XO (XO (XO (XO (XO (XO (XO XH)))))))))) :: 
      (le_bytes n'
        (N.div x (Npos (XO (XO (XO (XO (XO (XO (XO (XO XH)))))))))))

(** val le_value : n list -> n **)

let rec le_value = function
| [] -> N0
| b :: bs' ->
  N.add b
    (N.mul (Npos (XO (XO (XO (XO (XO (XO (XO (XO XH))))))))) (le_value bs'))

(** val take_bytes : nat -> n list -> (n list * n list) option **)

let rec take_bytes n0 bs =
  match n0 with
  | O -> Some ([], bs)
  | S n' ->
    (match bs with
     | [] -> None
     | b :: bs' ->
       if N.ltb b (Npos (XO (XO (XO (XO (XO (XO (XO (XO XH)))))))))
       then (match take_bytes n' bs' with
             | Some p -> let (a, r) = p in Some ((b :: a), r)
             | None -> None)
       else None)

(** val dec_nat :
    (n list -> ('a1 * n list) option) -> nat -> n list -> ('a1 list * n list)
    option **)

let rec dec_nat f n0 bs =
  match n0 with
  | O -> Some ([], bs)
  | S n' ->
    (match f bs with
     | Some p ->
       let (v, r) = p in
       (match dec_nat f n' r with
        | Some p0 -> let (vs, r') = p0 in Some ((v :: vs), r')
        | None -> None)
     | None -> None)

(** val dec_pos :
    (n list -> ('a1 * n list) option) -> positive -> n list -> ('a1 list * n
    list) option **)

let rec dec_pos f p bs =
  match p with
  | XI p' ->
    (match f bs with
     | Some p0 ->
       let (v, r) = p0 in
       (match dec_pos f p' r with
        | Some p1 ->
          let (vs1, r1) = p1 in
          (match dec_pos f p' r1 with
           | Some p2 -> let (vs2, r2) = p2 in Some ((v :: (app vs1 vs2)), r2)
           | None -> None)
        | None -> None)
     | None -> None)
  | XO p' ->
    (match dec_pos f p' bs with
     | Some p0 ->
       let (vs1, r1) = p0 in
       (match dec_pos f p' r1 with
        | Some p1 -> let (vs2, r2) = p1 in Some ((app vs1 vs2), r2)
        | None -> None)
     | None -> None)
  | XH ->
    (match f bs with
     | Some p0 -> let (v, r) = p0 in Some ((v :: []), r)
     | None -> None)

(** val dec_N :
    (n list -> ('a1 * n list) option) -> n -> n list -> ('a1 list * n list)
    option **)

let dec_N f c bs =
  match c with
  | N0 -> Some ([], bs)
  | Npos p -> dec_pos f p bs

(** val wt : ty -> value -> bool **)

let rec wt t v =
  match t with
  | TU n0 ->
    (match v with
     | VU x ->
       N.ltb x
         (N.pow (Npos (XO XH)) (N.mul (Npos (XO (XO (XO XH)))) (N.of_nat n0)))
     | _ -> false)
  | TBool -> (match v with
              | VBool _ -> true
              | _ -> false)
  | TSeq t' ->
    (match v with
     | VSeq vs ->
       (&&)
         (N.ltb (len vs)
           (N.pow (Npos (XO XH)) (Npos (XO (XO (XO (XO (XO (XO XH)))))))))
         (forallb (wt t') vs)
     | _ -> false)
  | TArr (n0, t') ->
    (match v with
     | VSeq vs -> (&&) (eqb (length vs) n0) (forallb (wt t') vs)
     | _ -> false)
  | TOpt t' ->
    (match v with
     | VOpt o -> (match o with
                  | Some v' -> wt t' v'
                  | None -> true)
     | _ -> false)
  | TTuple ts ->
    (match v with
     | VTuple vs ->
       let rec go ts0 vs0 =
         match ts0 with
         | [] -> (match vs0 with
                  | [] -> true
                  | _ :: _ -> false)
         | t1 :: ts' ->
           (match vs0 with
            | [] -> false
            | v1 :: vs' -> (&&) (wt t1 v1) (go ts' vs'))
       in go ts vs
     | _ -> false)
  | TUnit -> (match v with
              | VUnit -> true
              | _ -> false)

(** val encode : ty -> value -> n list **)

let rec encode t v =
  match t with
  | TU n0 -> (match v with
              | VU x -> le_bytes n0 x
              | _ -> [])
  | TBool ->
    (match v with
     | VBool b -> (if b then Npos XH else N0) :: []
     | _ -> [])
  | TSeq t' ->
    (match v with
     | VSeq vs ->
       app (le_bytes (S (S (S (S (S (S (S (S O)))))))) (len vs))
         (flat_map (encode t') vs)
     | _ -> [])
  | TArr (_, t') ->
    (match v with
     | VSeq vs -> flat_map (encode t') vs
     | _ -> [])
  | TOpt t' ->
    (match v with
     | VOpt o ->
       (match o with
        | Some v' -> (Npos XH) :: (encode t' v')
        | None -> N0 :: [])
     | _ -> [])
  | TTuple ts ->
    (match v with
     | VTuple vs ->
       let rec go ts0 vs0 =
         match ts0 with
         | [] -> []
         | t1 :: ts' ->
           (match vs0 with
            | [] -> []
            | v1 :: vs' -> app (encode t1 v1) (go ts' vs'))
       in go ts vs
     | _ -> [])
  | TUnit -> []

(** val decode : ty -> n list -> (value * n list) option **)

let rec decode t bs =
  match t with
  | TU n0 ->
    (match take_bytes n0 bs with
     | Some p -> let (a, r) = p in Some ((VU (le_value a)), r)
     | None -> None)
  | TBool ->
    (match bs with
     | [] -> None
     | b :: r ->
       if N.eqb b N0
       then Some ((VBool false), r)
       else if N.eqb b (Npos XH) then Some ((VBool true), r) else None)
  | TSeq t' ->
    (match take_bytes (S (S (S (S (S (S (S (S O)))))))) bs with
     | Some p ->
       let (a, r) = p in
       (match dec_N (decode t') (le_value a) r with
        | Some p0 -> let (vs, r') = p0 in Some ((VSeq vs), r')
        | None -> None)
     | None -> None)
  | TArr (n0, t') ->
    (match dec_nat (decode t') n0 bs with
     | Some p -> let (vs, r) = p in Some ((VSeq vs), r)
     | None -> None)
  | TOpt t' ->
    (match bs with
     | [] -> None
     | b :: r ->
       if N.eqb b N0
       then Some ((VOpt None), r)
       else if N.eqb b (Npos XH)
            then (match decode t' r with
                  | Some p -> let (v, r') = p in Some ((VOpt (Some v)), r')
                  | None -> None)
            else None)
  | TTuple ts ->
    (match let rec go ts0 bs0 =
             match ts0 with
             | [] -> Some ([], bs0)
             | t1 :: ts' ->
               (match decode t1 bs0 with
                | Some p ->
                  let (v, r) = p in
                  (match go ts' r with
                   | Some p0 -> let (vs, r') = p0 in Some ((v :: vs), r')
                   | None -> None)
                | None -> None)
           in go ts bs with
     | Some p -> let (vs, r) = p in Some ((VTuple vs), r)
     | None -> None)
  | TUnit -> Some (VUnit, bs)

type wtit = { it_i : n; it_end : n }

(** val wtit_new : n -> wtit **)

let wtit_new n0 =
  { it_i = N0; it_end = n0 }

(** val wtit_next : (n -> n outcome) -> wtit -> (n option * wtit) outcome **)

let wtit_next get_u st =
  if N.ltb st.it_i st.it_end
  then bind (oadd (Npos (XO (XO (XO (XO (XO (XO XH))))))) st.it_i (Npos XH))
         (fun i' ->
         bind (get_u (N.sub i' (Npos XH))) (fun v -> Val ((Some v), { it_i =
           i'; it_end = st.it_end })))
  else Val (None, st)

(** val wtit_next_back :
    (n -> n outcome) -> wtit -> (n option * wtit) outcome **)

let wtit_next_back get_u st =
  if N.ltb st.it_i st.it_end
  then bind (osub st.it_end (Npos XH)) (fun e' ->
         bind (get_u e') (fun v -> Val ((Some v), { it_i = st.it_i; it_end =
           e' })))
  else Val (None, st)

(** val wtit_len : wtit -> n outcome **)

let wtit_len st =
  osub st.it_end st.it_i

type pfsupport = { pf_samples : rsnarrow list; pf_shift : n }

type pfs_state = { ps_counters : n list; ps_bits : bool list;
                   ps_bvs : bool list list }

(** val pfs_step : n -> n -> pfs_state -> n -> n -> pfs_state outcome **)

let pfs_step sample_rate n0 st i symbol =
  bind (idx st.ps_counters symbol) (fun c ->
    let counters = setN st.ps_counters symbol (N.add c (Npos XH)) in
    let bits =
      if N.eqb (N.modulo (N.add c (Npos XH)) sample_rate) N0
      then setN st.ps_bits symbol true
      else st.ps_bits
    in
    if (||) (N.eqb (N.modulo i sample_rate) N0) (N.eqb i (N.sub n0 (Npos XH)))
    then Val { ps_counters = counters; ps_bits =
           (false :: (false :: (false :: (false :: [])))); ps_bvs =
           (map (fun pat -> let (bv, b) = pat in b :: bv)
             (combine st.ps_bvs bits)) }
    else Val { ps_counters = counters; ps_bits = bits; ps_bvs = st.ps_bvs })

(** val pfs_loop : n -> n -> pfs_state -> n -> n list -> pfs_state outcome **)

let rec pfs_loop sample_rate n0 st i = function
| [] -> Val st
| s :: r ->
  bind (pfs_step sample_rate n0 st i s) (fun st' ->
    pfs_loop sample_rate n0 st' (N.add i (Npos XH)) r)

(** val pfs_new : n list -> n -> pfsupport outcome **)

let pfs_new syms shift =
  bind (oshl (Npos (XO (XO (XO (XO (XO (XO XH))))))) (Npos XH) shift)
    (fun sample_rate ->
    bind
      (pfs_loop sample_rate (len syms) { ps_counters =
        (N0 :: (N0 :: (N0 :: (N0 :: [])))); ps_bits =
        (false :: (false :: (false :: (false :: [])))); ps_bvs =
        ([] :: ([] :: ([] :: ([] :: [])))) } N0 syms) (fun st ->
      bind (mapo (fun bv -> bind (bv_from_bools (rev bv)) rsn_new) st.ps_bvs)
        (fun samples -> Val { pf_samples = samples; pf_shift = shift })))

(** val pfs_approx_rank : pfsupport -> n -> n -> n outcome **)

let pfs_approx_rank p symbol i =
  bind (oshr (Npos (XO (XO (XO (XO (XO (XO XH))))))) i p.pf_shift) (fun sh ->
    bind (oshl (Npos (XO (XO (XO (XO (XO (XO XH))))))) (Npos XH) p.pf_shift)
      (fun sample_rate ->
      bind (uidx p.pf_samples symbol) (fun s ->
        bind (rsn_rank1 s (N.add sh (Npos XH))) (fun r ->
          bind (ounwrap r) (fun r0 ->
            omul (Npos (XO (XO (XO (XO (XO (XO XH))))))) r0 sample_rate)))))

(** val qwt_pfs_walk :
    n -> rsq list -> pfsupport list -> n -> n -> n -> n -> n -> nat ->
    (n * n) outcome **)

let rec qwt_pfs_walk w qvs pfs symbol shift rs re level = function
| O -> Val (rs, re)
| S k ->
  bind (two_bits w symbol shift) (fun tb ->
    bind (idx qvs level) (fun qv ->
      bind (rsq_occs_smaller_unchecked qv tb) (fun offset ->
        bind (idx pfs level) (fun p ->
          bind (pfs_approx_rank p tb rs) (fun a ->
            bind (pfs_approx_rank p tb re) (fun b ->
              bind (idx qvs (N.add level (Npos XH))) (fun _ ->
                bind (osub shift (Npos (XO XH))) (fun shift' ->
                  qwt_pfs_walk w qvs pfs symbol shift' (N.add a offset)
                    (N.add b offset) (N.add level (Npos XH)) k))))))))

(** val qwt_pfs_estimate :
    n -> qwt -> pfsupport list -> n -> n -> n outcome **)

let qwt_pfs_estimate w t pfs symbol i =
  bind (osub t.q_n_levels (Npos XH)) (fun l1 ->
    bind (idx t.q_qvs N0) (fun _ ->
      bind
        (qwt_pfs_walk w t.q_qvs pfs symbol (N.mul (Npos (XO XH)) l1) N0 i N0
          (N.to_nat l1)) (fun pat -> let (rs, re) = pat in osub re rs)))

(** val qwt_pfs_levels : n -> n list -> n -> nat -> pfsupport list outcome **)

let rec qwt_pfs_levels w seq shift = function
| O -> Val []
| S k ->
  bind (mapo (fun s -> two_bits w s shift) seq) (fun digits ->
    bind
      (pfs_new (map (fun d -> N.modulo d (Npos (XO (XO XH)))) digits)
        pFS_SHIFT) (fun p ->
      bind (stable_partition_of_4 w seq shift) (fun seq' ->
        bind
          (qwt_pfs_levels w seq'
            (if N.leb (Npos (XO XH)) shift
             then N.sub shift (Npos (XO XH))
             else shift) k) (fun rest -> Val (p :: rest)))))

(** val qwt_pfs_new : n -> n list -> pfsupport list outcome **)

let qwt_pfs_new w seq = match seq with
| [] -> Val []
| _ :: _ ->
  let n_levels =
    N.div (N.add (N.add (msb (maxN seq)) (Npos XH)) (Npos XH)) (Npos (XO XH))
  in
  bind (osub n_levels (Npos XH)) (fun s0 ->
    qwt_pfs_levels w seq (N.mul (Npos (XO XH)) s0) (N.to_nat n_levels))

(** val qwt_rank_prefetch_pfs :
    n -> n -> qwt -> pfsupport list -> n -> n -> n option outcome **)

let qwt_rank_prefetch_pfs w bsize t pfs symbol i =
  if (||) ((||) (N.ltb t.q_n i) (N.ltb t.q_sigma symbol)) (N.eqb t.q_n N0)
  then Val None
  else bind (qwt_pfs_estimate w t pfs symbol i) (fun _ ->
         bind (qwt_rank_prefetch_unchecked w bsize t symbol i) (fun v -> Val
           (Some v)))

(** val hq_pfs_walk :
    rsq list -> pfsupport list -> n -> n -> n -> n -> n -> nat -> (n * n)
    outcome **)

let rec hq_pfs_walk qvs pfs repr shift rs re level = function
| O -> Val (rs, re)
| S k ->
  let tb = N.coq_land (N.shiftr repr shift) (Npos (XI XH)) in
  bind (idx qvs level) (fun qv ->
    bind (rsq_occs_smaller_unchecked qv tb) (fun offset ->
      bind (idx pfs level) (fun p ->
        bind (pfs_approx_rank p tb rs) (fun a ->
          bind (pfs_approx_rank p tb re) (fun b ->
            bind (idx qvs (N.add level (Npos XH))) (fun _ ->
              hq_pfs_walk qvs pfs repr (N.sub shift (Npos (XO XH)))
                (N.add a offset) (N.add b offset) (N.add level (Npos XH)) k))))))

(** val hq_pfs_estimate : hqwt -> pfsupport list -> n -> n -> n outcome **)

let hq_pfs_estimate t pfs symbol i =
  bind (idx t.h_codes (sym_index symbol)) (fun code ->
    bind (idx t.h_qvs N0) (fun _ ->
      bind
        (hq_pfs_walk t.h_qvs pfs code.pc_content
          (N.sub code.pc_len (Npos (XO XH))) N0 i N0
          (N.to_nat (N.sub (N.div code.pc_len (Npos (XO XH))) (Npos XH))))
        (fun pat -> let (rs, re) = pat in osub re rs)))

(** val hq_pfs_levels :
    n list -> pcode list -> n -> nat -> pfsupport list outcome **)

let rec hq_pfs_levels seq codes shift = function
| O -> Val []
| S k ->
  bind
    (mapo (fun s ->
      bind (idx codes (sym_index s)) (fun code ->
        if N.leb shift code.pc_len
        then Val (Some
               (N.coq_land
                 (N.shiftr code.pc_content (N.sub code.pc_len shift)) (Npos
                 (XI XH))))
        else Val None)) seq) (fun ds ->
    let digits =
      flat_map (fun o -> match o with
                         | Some d -> d :: []
                         | None -> []) ds
    in
    bind (pfs_new digits pFS_SHIFT_HQ) (fun p ->
      bind (part_with_codes (Npos (XO (XO XH))) seq shift codes) (fun seq' ->
        bind (hq_pfs_levels seq' codes (N.add shift (Npos (XO XH))) k)
          (fun rest -> Val (p :: rest)))))

(** val hq_pfs_new : n list -> pcode list -> pfsupport list outcome **)

let hq_pfs_new seq codes =
  match seq with
  | [] -> Val []
  | _ :: _ ->
    hq_pfs_levels seq codes (Npos (XO XH))
      (N.to_nat (N.div (maxN (map (fun p -> p.pc_len) codes)) (Npos (XO XH))))

(** val hq_rank_prefetch_pfs :
    n -> hqwt -> pfsupport list -> n -> n -> n option outcome **)

let hq_rank_prefetch_pfs bsize t pfs symbol i =
  if N.ltb t.h_n i
  then Val None
  else (match hq_code_of t symbol with
        | Some _ ->
          bind (hq_pfs_estimate t pfs symbol i) (fun _ ->
            bind (hq_rank_prefetch_unchecked bsize t symbol i) (fun v -> Val
              (Some v)))
        | None -> Val None)

type abi = { sz_rsq : n; sz_rsw : n; sz_rsn : n; sz_pfs : n; sz_code : 
             n; sz_vec : n }

(** val abi64 : abi **)

let abi64 =
  { sz_rsq = (Npos (XO (XO (XO (XO (XI (XO (XO XH)))))))); sz_rsw = (Npos (XO
    (XO (XO (XI (XI (XO XH))))))); sz_rsn = (Npos (XO (XO (XO (XO (XI (XO
    XH))))))); sz_pfs = (Npos (XO (XO (XO (XO (XO XH)))))); sz_code = (Npos
    (XO (XO (XO XH)))); sz_vec = (Npos (XO (XO (XO (XI XH))))) }

(** val sum_lens : 'a1 list list -> n **)

let sum_lens ls =
  sumN (map len ls)

(** val qv_heap : qvec -> n **)

let qv_heap q =
  N.mul (Npos (XO (XO (XO (XO (XO (XO XH))))))) (len q.qv_data)

(** val rss_heap : rssupport -> n **)

let rss_heap r =
  N.add
    (N.mul (Npos (XO (XO (XO (XO (XO (XO XH))))))) (len r.rs_superblocks))
    (N.mul (Npos (XO (XO XH))) (sum_lens r.rs_samples))

(** val rsq_heap : rsq -> n **)

let rsq_heap r =
  N.add (qv_heap r.rsq_qv) (rss_heap r.rsq_rs)

(** val bv_heap : bitvec -> n **)

let bv_heap b =
  N.mul (Npos (XO (XO (XO XH)))) (len b.bv_words)

(** val rsn_heap : rsnarrow -> n **)

let rsn_heap r =
  N.add
    (N.add (bv_heap r.rsn_bv)
      (N.mul (Npos (XO (XO (XO XH)))) (len r.rsn_pairs)))
    (N.mul (Npos (XO (XO (XO XH))))
      (N.add (len r.rsn_samples0) (len r.rsn_samples1)))

(** val rsw_heap : rswide -> n **)

let rsw_heap r =
  N.add
    (N.add (bv_heap r.rsw_bv)
      (N.mul (Npos (XO (XO (XO (XO XH))))) (len r.rsw_meta)))
    (N.mul (Npos (XO (XO (XO XH))))
      (N.add (len r.rsw_samples0) (len r.rsw_samples1)))

(** val inv_heap : inventories -> n **)

let inv_heap i =
  N.add
    (N.add (N.mul (Npos (XO (XO (XO XH)))) (len i.inv_block))
      (N.mul (Npos (XO XH)) (len i.inv_sub)))
    (N.mul (Npos (XO (XO (XO XH)))) (len i.inv_overflow))

(** val da_heap : darray -> n **)

let da_heap d =
  N.add (N.add (bv_heap d.da_bv) (inv_heap d.da_ones))
    (match d.da_zeros with
     | Some z0 -> inv_heap z0
     | None -> N0)

(** val pfs_heap : abi -> pfsupport -> n **)

let pfs_heap a p =
  N.add (N.mul a.sz_rsn (len p.pf_samples)) (sumN (map rsn_heap p.pf_samples))

(** val qwt_heap : abi -> qwt -> pfsupport list option -> n **)

let qwt_heap a t pfs =
  N.add (N.add (N.mul a.sz_rsq (len t.q_qvs)) (sumN (map rsq_heap t.q_qvs)))
    (match pfs with
     | Some ps -> N.add (N.mul a.sz_pfs (len ps)) (sumN (map (pfs_heap a) ps))
     | None -> N0)

(** val wt_heap_plain : abi -> bwt -> n **)

let wt_heap_plain a t =
  N.add (N.add (N.mul a.sz_rsw (len t.w_bvs)) (sumN (map rsw_heap t.w_bvs)))
    (N.mul (Npos (XO (XO (XO XH)))) (len t.w_lens))

(** val qv_space : qvec -> n **)

let qv_space q =
  N.add
    (N.add (Npos (XO (XO (XO (XO XH)))))
      (N.mul (Npos (XO (XO (XO (XO (XO (XO XH))))))) (len q.qv_data))) (Npos
    (XO (XO (XO XH))))

(** val rss_space : rssupport -> n **)

let rss_space r =
  N.add
    (sumN
      (map (fun s ->
        N.add (Npos (XO (XO (XO (XO XH)))))
          (N.mul (Npos (XO (XO XH))) (len s))) r.rs_samples))
    (N.add (Npos (XO (XO (XO (XO XH)))))
      (N.mul (Npos (XO (XO (XO (XO (XO (XO XH))))))) (len r.rs_superblocks)))

(** val rsq_space : rsq -> n **)

let rsq_space r =
  N.add (N.add (qv_space r.rsq_qv) (rss_space r.rsq_rs))
    (N.mul (Npos (XI (XO XH))) (Npos (XO (XO (XO XH)))))

(** val bv_space : bitvec -> n **)

let bv_space b =
  N.add
    (N.add
      (N.add (Npos (XO (XO (XO (XO XH)))))
        (N.mul (Npos (XO (XO (XO XH)))) (len b.bv_words))) (Npos (XO (XO (XO
      XH))))) (Npos (XO (XO (XO XH))))

(** val rsn_space : rsnarrow -> n **)

let rsn_space r =
  N.add
    (N.add
      (N.add (bv_space r.rsn_bv)
        (N.add (Npos (XO (XO (XO (XO XH)))))
          (N.mul (Npos (XO (XO (XO XH)))) (len r.rsn_pairs))))
      (N.add (Npos (XO (XO (XO (XO XH)))))
        (N.mul (Npos (XO (XO (XO XH)))) (len r.rsn_samples0))))
    (N.add (Npos (XO (XO (XO (XO XH)))))
      (N.mul (Npos (XO (XO (XO XH)))) (len r.rsn_samples1)))

(** val rsw_space : rswide -> n **)

let rsw_space r =
  N.add
    (N.add
      (N.add (bv_space r.rsw_bv)
        (N.add (Npos (XO (XO (XO (XO XH)))))
          (N.mul (Npos (XO (XO (XO (XO XH))))) (len r.rsw_meta))))
      (N.add (Npos (XO (XO (XO (XO XH)))))
        (N.mul (Npos (XO (XO (XO XH)))) (len r.rsw_samples0))))
    (N.add (Npos (XO (XO (XO (XO XH)))))
      (N.mul (Npos (XO (XO (XO XH)))) (len r.rsw_samples1)))

(** val inv_space : inventories -> n **)

let inv_space i =
  N.add
    (N.add
      (N.add (Npos (XO (XO (XO XH))))
        (N.add (Npos (XO (XO (XO (XO XH)))))
          (N.mul (Npos (XO (XO (XO XH)))) (len i.inv_block))))
      (N.add (Npos (XO (XO (XO (XO XH)))))
        (N.mul (Npos (XO XH)) (len i.inv_sub))))
    (N.add (Npos (XO (XO (XO (XO XH)))))
      (N.mul (Npos (XO (XO (XO XH)))) (len i.inv_overflow)))

(** val da_space : darray -> n **)

let da_space d =
  N.add (N.add (bv_space d.da_bv) (inv_space d.da_ones))
    (match d.da_zeros with
     | Some z0 -> inv_space z0
     | None -> N0)

(** val pfs_space : pfsupport -> n **)

let pfs_space p =
  sumN (map rsn_space p.pf_samples)

(** val qwt_space : qwt -> pfsupport list option -> n **)

let qwt_space t pfs =
  N.add
    (N.add (N.add (Npos (XO (XO (XO XH)))) (Npos (XO (XO (XO XH)))))
      (sumN (map rsq_space t.q_qvs)))
    (match pfs with
     | Some ps -> sumN (map pfs_space ps)
     | None -> N0)

(** val hq_space : hqwt -> pfsupport list option -> n **)

let hq_space t pfs =
  N.add
    (N.add
      (N.add
        (N.add
          (N.add (N.add (Npos (XO (XO (XO XH)))) (Npos (XO (XO (XO XH)))))
            (N.mul (Npos (XO (XO (XO (XO (XO (XO (XO (XO XH))))))))) (Npos
              (XO (XO (XO XH))))))
          (sumN (map (fun v -> N.mul (len v) (Npos (XI (XO XH)))) t.h_decode)))
        (N.mul (len t.h_lens) (Npos (XO (XO (XO XH))))))
      (sumN (map rsq_space t.h_qvs)))
    (match pfs with
     | Some ps -> sumN (map pfs_space ps)
     | None -> N0)

(** val wt_space : bool -> bwt -> n **)

let wt_space compressed t =
  N.add
    (N.add
      (N.add (N.add (Npos (XO (XO (XO XH)))) (Npos (XO (XO (XO XH)))))
        (if compressed
         then N.add
                (N.mul (Npos (XO (XO (XO (XO (XO (XO (XO (XO XH)))))))))
                  (Npos (XO (XO (XO XH)))))
                (match t.w_decode with
                 | Some d -> N.mul (len d) (Npos (XI (XO XH)))
                 | None -> N0)
         else N0)) (N.mul (len t.w_lens) (Npos (XO (XO (XO XH))))))
    (sumN (map rsw_space t.w_bvs))

(** val schema_0 : ty **)

let schema_0 =
  TTuple ((TU (S (S (S (S (S (S (S (S O))))))))) :: ((TU (S (S (S (S (S (S (S
    (S O))))))))) :: ((TU (S O)) :: ((TSeq (TTuple ((TTuple ((TSeq (TTuple
    ((TArr ((S (S (S (S O)))), (TU (S (S (S (S (S (S (S (S (S (S (S (S (S (S
    (S (S O))))))))))))))))))) :: []))) :: ((TU (S (S (S (S (S (S (S (S
    O))))))))) :: []))) :: ((TTuple ((TSeq (TTuple ((TArr ((S (S (S (S O)))),
    (TU (S (S (S (S (S (S (S (S (S (S (S (S (S (S (S (S
    O))))))))))))))))))) :: []))) :: ((TArr ((S (S (S (S O)))), (TSeq (TU (S
    (S (S (S O)))))))) :: []))) :: ((TArr ((S (S (S (S (S O))))), (TU (S (S
    (S (S (S (S (S (S O))))))))))) :: []))))) :: ((TOpt (TSeq (TTuple ((TSeq
    (TTuple ((TTuple ((TSeq (TTuple ((TArr ((S (S (S (S (S (S (S (S
    O)))))))), (TU (S (S (S (S (S (S (S (S O))))))))))) :: []))) :: ((TU (S
    (S (S (S (S (S (S (S O))))))))) :: ((TU (S (S (S (S (S (S (S (S
    O))))))))) :: [])))) :: ((TSeq (TU (S (S (S (S (S (S (S (S
    O)))))))))) :: ((TArr ((S (S O)), (TSeq (TU (S (S (S (S (S (S (S (S
    O)))))))))))) :: []))))) :: ((TU (S (S (S (S (S (S (S (S
    O))))))))) :: []))))) :: [])))))

(** val schema_1 : ty **)

let schema_1 =
  TTuple ((TU (S (S (S (S (S (S (S (S O))))))))) :: ((TU (S (S (S (S (S (S (S
    (S O))))))))) :: ((TU (S (S O))) :: ((TSeq (TTuple ((TTuple ((TSeq
    (TTuple ((TArr ((S (S (S (S O)))), (TU (S (S (S (S (S (S (S (S (S (S (S
    (S (S (S (S (S O))))))))))))))))))) :: []))) :: ((TU (S (S (S (S (S (S (S
    (S O))))))))) :: []))) :: ((TTuple ((TSeq (TTuple ((TArr ((S (S (S (S
    O)))), (TU (S (S (S (S (S (S (S (S (S (S (S (S (S (S (S (S
    O))))))))))))))))))) :: []))) :: ((TArr ((S (S (S (S O)))), (TSeq (TU (S
    (S (S (S O)))))))) :: []))) :: ((TArr ((S (S (S (S (S O))))), (TU (S (S
    (S (S (S (S (S (S O))))))))))) :: []))))) :: ((TOpt (TSeq (TTuple ((TSeq
    (TTuple ((TTuple ((TSeq (TTuple ((TArr ((S (S (S (S (S (S (S (S
    O)))))))), (TU (S (S (S (S (S (S (S (S O))))))))))) :: []))) :: ((TU (S
    (S (S (S (S (S (S (S O))))))))) :: ((TU (S (S (S (S (S (S (S (S
    O))))))))) :: [])))) :: ((TSeq (TU (S (S (S (S (S (S (S (S
    O)))))))))) :: ((TArr ((S (S O)), (TSeq (TU (S (S (S (S (S (S (S (S
    O)))))))))))) :: []))))) :: ((TU (S (S (S (S (S (S (S (S
    O))))))))) :: []))))) :: [])))))

(** val schema_2 : ty **)

let schema_2 =
  TTuple ((TU (S (S (S (S (S (S (S (S O))))))))) :: ((TU (S (S (S (S (S (S (S
    (S O))))))))) :: ((TU (S (S (S (S O))))) :: ((TSeq (TTuple ((TTuple
    ((TSeq (TTuple ((TArr ((S (S (S (S O)))), (TU (S (S (S (S (S (S (S (S (S
    (S (S (S (S (S (S (S O))))))))))))))))))) :: []))) :: ((TU (S (S (S (S (S
    (S (S (S O))))))))) :: []))) :: ((TTuple ((TSeq (TTuple ((TArr ((S (S (S
    (S O)))), (TU (S (S (S (S (S (S (S (S (S (S (S (S (S (S (S (S
    O))))))))))))))))))) :: []))) :: ((TArr ((S (S (S (S O)))), (TSeq (TU (S
    (S (S (S O)))))))) :: []))) :: ((TArr ((S (S (S (S (S O))))), (TU (S (S
    (S (S (S (S (S (S O))))))))))) :: []))))) :: ((TOpt (TSeq (TTuple ((TSeq
    (TTuple ((TTuple ((TSeq (TTuple ((TArr ((S (S (S (S (S (S (S (S
    O)))))))), (TU (S (S (S (S (S (S (S (S O))))))))))) :: []))) :: ((TU (S
    (S (S (S (S (S (S (S O))))))))) :: ((TU (S (S (S (S (S (S (S (S
    O))))))))) :: [])))) :: ((TSeq (TU (S (S (S (S (S (S (S (S
    O)))))))))) :: ((TArr ((S (S O)), (TSeq (TU (S (S (S (S (S (S (S (S
    O)))))))))))) :: []))))) :: ((TU (S (S (S (S (S (S (S (S
    O))))))))) :: []))))) :: [])))))

(** val schema_3 : ty **)

let schema_3 =
  TTuple ((TU (S (S (S (S (S (S (S (S O))))))))) :: ((TU (S (S (S (S (S (S (S
    (S O))))))))) :: ((TU (S (S (S (S (S (S (S (S O))))))))) :: ((TSeq
    (TTuple ((TTuple ((TSeq (TTuple ((TArr ((S (S (S (S O)))), (TU (S (S (S
    (S (S (S (S (S (S (S (S (S (S (S (S (S
    O))))))))))))))))))) :: []))) :: ((TU (S (S (S (S (S (S (S (S
    O))))))))) :: []))) :: ((TTuple ((TSeq (TTuple ((TArr ((S (S (S (S O)))),
    (TU (S (S (S (S (S (S (S (S (S (S (S (S (S (S (S (S
    O))))))))))))))))))) :: []))) :: ((TArr ((S (S (S (S O)))), (TSeq (TU (S
    (S (S (S O)))))))) :: []))) :: ((TArr ((S (S (S (S (S O))))), (TU (S (S
    (S (S (S (S (S (S O))))))))))) :: []))))) :: ((TOpt (TSeq (TTuple ((TSeq
    (TTuple ((TTuple ((TSeq (TTuple ((TArr ((S (S (S (S (S (S (S (S
    O)))))))), (TU (S (S (S (S (S (S (S (S O))))))))))) :: []))) :: ((TU (S
    (S (S (S (S (S (S (S O))))))))) :: ((TU (S (S (S (S (S (S (S (S
    O))))))))) :: [])))) :: ((TSeq (TU (S (S (S (S (S (S (S (S
    O)))))))))) :: ((TArr ((S (S O)), (TSeq (TU (S (S (S (S (S (S (S (S
    O)))))))))))) :: []))))) :: ((TU (S (S (S (S (S (S (S (S
    O))))))))) :: []))))) :: [])))))

(** val schema_4 : ty **)

let schema_4 =
  TTuple ((TU (S (S (S (S (S (S (S (S O))))))))) :: ((TU (S (S (S (S (S (S (S
    (S O))))))))) :: ((TU (S (S (S (S (S (S (S (S O))))))))) :: ((TSeq
    (TTuple ((TTuple ((TSeq (TTuple ((TArr ((S (S (S (S O)))), (TU (S (S (S
    (S (S (S (S (S (S (S (S (S (S (S (S (S
    O))))))))))))))))))) :: []))) :: ((TU (S (S (S (S (S (S (S (S
    O))))))))) :: []))) :: ((TTuple ((TSeq (TTuple ((TArr ((S (S (S (S O)))),
    (TU (S (S (S (S (S (S (S (S (S (S (S (S (S (S (S (S
    O))))))))))))))))))) :: []))) :: ((TArr ((S (S (S (S O)))), (TSeq (TU (S
    (S (S (S O)))))))) :: []))) :: ((TArr ((S (S (S (S (S O))))), (TU (S (S
    (S (S (S (S (S (S O))))))))))) :: []))))) :: ((TOpt (TSeq (TTuple ((TSeq
    (TTuple ((TTuple ((TSeq (TTuple ((TArr ((S (S (S (S (S (S (S (S
    O)))))))), (TU (S (S (S (S (S (S (S (S O))))))))))) :: []))) :: ((TU (S
    (S (S (S (S (S (S (S O))))))))) :: ((TU (S (S (S (S (S (S (S (S
    O))))))))) :: [])))) :: ((TSeq (TU (S (S (S (S (S (S (S (S
    O)))))))))) :: ((TArr ((S (S O)), (TSeq (TU (S (S (S (S (S (S (S (S
    O)))))))))))) :: []))))) :: ((TU (S (S (S (S (S (S (S (S
    O))))))))) :: []))))) :: [])))))

(** val schema_5 : ty **)

let schema_5 =
  TTuple ((TU (S (S (S (S (S (S (S (S O))))))))) :: ((TU (S (S (S (S (S (S (S
    (S O))))))))) :: ((TU (S (S (S (S (S (S (S (S (S (S (S (S (S (S (S (S
    O))))))))))))))))) :: ((TSeq (TTuple ((TTuple ((TSeq (TTuple ((TArr ((S
    (S (S (S O)))), (TU (S (S (S (S (S (S (S (S (S (S (S (S (S (S (S (S
    O))))))))))))))))))) :: []))) :: ((TU (S (S (S (S (S (S (S (S
    O))))))))) :: []))) :: ((TTuple ((TSeq (TTuple ((TArr ((S (S (S (S O)))),
    (TU (S (S (S (S (S (S (S (S (S (S (S (S (S (S (S (S
    O))))))))))))))))))) :: []))) :: ((TArr ((S (S (S (S O)))), (TSeq (TU (S
    (S (S (S O)))))))) :: []))) :: ((TArr ((S (S (S (S (S O))))), (TU (S (S
    (S (S (S (S (S (S O))))))))))) :: []))))) :: ((TOpt (TSeq (TTuple ((TSeq
    (TTuple ((TTuple ((TSeq (TTuple ((TArr ((S (S (S (S (S (S (S (S
    O)))))))), (TU (S (S (S (S (S (S (S (S O))))))))))) :: []))) :: ((TU (S
    (S (S (S (S (S (S (S O))))))))) :: ((TU (S (S (S (S (S (S (S (S
    O))))))))) :: [])))) :: ((TSeq (TU (S (S (S (S (S (S (S (S
    O)))))))))) :: ((TArr ((S (S O)), (TSeq (TU (S (S (S (S (S (S (S (S
    O)))))))))))) :: []))))) :: ((TU (S (S (S (S (S (S (S (S
    O))))))))) :: []))))) :: [])))))

(** val schema_6 : ty **)

let schema_6 =
  TTuple ((TU (S (S (S (S (S (S (S (S O))))))))) :: ((TU (S (S (S (S (S (S (S
    (S O))))))))) :: ((TU (S O)) :: ((TSeq (TTuple ((TTuple ((TSeq (TTuple
    ((TArr ((S (S (S (S O)))), (TU (S (S (S (S (S (S (S (S (S (S (S (S (S (S
    (S (S O))))))))))))))))))) :: []))) :: ((TU (S (S (S (S (S (S (S (S
    O))))))))) :: []))) :: ((TTuple ((TSeq (TTuple ((TArr ((S (S (S (S O)))),
    (TU (S (S (S (S (S (S (S (S (S (S (S (S (S (S (S (S
    O))))))))))))))))))) :: []))) :: ((TArr ((S (S (S (S O)))), (TSeq (TU (S
    (S (S (S O)))))))) :: []))) :: ((TArr ((S (S (S (S (S O))))), (TU (S (S
    (S (S (S (S (S (S O))))))))))) :: []))))) :: ((TOpt (TSeq (TTuple ((TSeq
    (TTuple ((TTuple ((TSeq (TTuple ((TArr ((S (S (S (S (S (S (S (S
    O)))))))), (TU (S (S (S (S (S (S (S (S O))))))))))) :: []))) :: ((TU (S
    (S (S (S (S (S (S (S O))))))))) :: ((TU (S (S (S (S (S (S (S (S
    O))))))))) :: [])))) :: ((TSeq (TU (S (S (S (S (S (S (S (S
    O)))))))))) :: ((TArr ((S (S O)), (TSeq (TU (S (S (S (S (S (S (S (S
    O)))))))))))) :: []))))) :: ((TU (S (S (S (S (S (S (S (S
    O))))))))) :: []))))) :: [])))))

(** val schema_7 : ty **)

let schema_7 =
  TTuple ((TU (S (S (S (S (S (S (S (S O))))))))) :: ((TU (S (S (S (S (S (S (S
    (S O))))))))) :: ((TU (S (S O))) :: ((TSeq (TTuple ((TTuple ((TSeq
    (TTuple ((TArr ((S (S (S (S O)))), (TU (S (S (S (S (S (S (S (S (S (S (S
    (S (S (S (S (S O))))))))))))))))))) :: []))) :: ((TU (S (S (S (S (S (S (S
    (S O))))))))) :: []))) :: ((TTuple ((TSeq (TTuple ((TArr ((S (S (S (S
    O)))), (TU (S (S (S (S (S (S (S (S (S (S (S (S (S (S (S (S
    O))))))))))))))))))) :: []))) :: ((TArr ((S (S (S (S O)))), (TSeq (TU (S
    (S (S (S O)))))))) :: []))) :: ((TArr ((S (S (S (S (S O))))), (TU (S (S
    (S (S (S (S (S (S O))))))))))) :: []))))) :: ((TOpt (TSeq (TTuple ((TSeq
    (TTuple ((TTuple ((TSeq (TTuple ((TArr ((S (S (S (S (S (S (S (S
    O)))))))), (TU (S (S (S (S (S (S (S (S O))))))))))) :: []))) :: ((TU (S
    (S (S (S (S (S (S (S O))))))))) :: ((TU (S (S (S (S (S (S (S (S
    O))))))))) :: [])))) :: ((TSeq (TU (S (S (S (S (S (S (S (S
    O)))))))))) :: ((TArr ((S (S O)), (TSeq (TU (S (S (S (S (S (S (S (S
    O)))))))))))) :: []))))) :: ((TU (S (S (S (S (S (S (S (S
    O))))))))) :: []))))) :: [])))))

(** val schema_8 : ty **)

let schema_8 =
  TTuple ((TU (S (S (S (S (S (S (S (S O))))))))) :: ((TU (S (S (S (S (S (S (S
    (S O))))))))) :: ((TU (S (S (S (S O))))) :: ((TSeq (TTuple ((TTuple
    ((TSeq (TTuple ((TArr ((S (S (S (S O)))), (TU (S (S (S (S (S (S (S (S (S
    (S (S (S (S (S (S (S O))))))))))))))))))) :: []))) :: ((TU (S (S (S (S (S
    (S (S (S O))))))))) :: []))) :: ((TTuple ((TSeq (TTuple ((TArr ((S (S (S
    (S O)))), (TU (S (S (S (S (S (S (S (S (S (S (S (S (S (S (S (S
    O))))))))))))))))))) :: []))) :: ((TArr ((S (S (S (S O)))), (TSeq (TU (S
    (S (S (S O)))))))) :: []))) :: ((TArr ((S (S (S (S (S O))))), (TU (S (S
    (S (S (S (S (S (S O))))))))))) :: []))))) :: ((TOpt (TSeq (TTuple ((TSeq
    (TTuple ((TTuple ((TSeq (TTuple ((TArr ((S (S (S (S (S (S (S (S
    O)))))))), (TU (S (S (S (S (S (S (S (S O))))))))))) :: []))) :: ((TU (S
    (S (S (S (S (S (S (S O))))))))) :: ((TU (S (S (S (S (S (S (S (S
    O))))))))) :: [])))) :: ((TSeq (TU (S (S (S (S (S (S (S (S
    O)))))))))) :: ((TArr ((S (S O)), (TSeq (TU (S (S (S (S (S (S (S (S
    O)))))))))))) :: []))))) :: ((TU (S (S (S (S (S (S (S (S
    O))))))))) :: []))))) :: [])))))

(** val schema_9 : ty **)

let schema_9 =
  TTuple ((TU (S (S (S (S (S (S (S (S O))))))))) :: ((TU (S (S (S (S (S (S (S
    (S O))))))))) :: ((TU (S (S (S (S (S (S (S (S O))))))))) :: ((TSeq
    (TTuple ((TTuple ((TSeq (TTuple ((TArr ((S (S (S (S O)))), (TU (S (S (S
    (S (S (S (S (S (S (S (S (S (S (S (S (S
    O))))))))))))))))))) :: []))) :: ((TU (S (S (S (S (S (S (S (S
    O))))))))) :: []))) :: ((TTuple ((TSeq (TTuple ((TArr ((S (S (S (S O)))),
    (TU (S (S (S (S (S (S (S (S (S (S (S (S (S (S (S (S
    O))))))))))))))))))) :: []))) :: ((TArr ((S (S (S (S O)))), (TSeq (TU (S
    (S (S (S O)))))))) :: []))) :: ((TArr ((S (S (S (S (S O))))), (TU (S (S
    (S (S (S (S (S (S O))))))))))) :: []))))) :: ((TOpt (TSeq (TTuple ((TSeq
    (TTuple ((TTuple ((TSeq (TTuple ((TArr ((S (S (S (S (S (S (S (S
    O)))))))), (TU (S (S (S (S (S (S (S (S O))))))))))) :: []))) :: ((TU (S
    (S (S (S (S (S (S (S O))))))))) :: ((TU (S (S (S (S (S (S (S (S
    O))))))))) :: [])))) :: ((TSeq (TU (S (S (S (S (S (S (S (S
    O)))))))))) :: ((TArr ((S (S O)), (TSeq (TU (S (S (S (S (S (S (S (S
    O)))))))))))) :: []))))) :: ((TU (S (S (S (S (S (S (S (S
    O))))))))) :: []))))) :: [])))))

(** val schema_10 : ty **)

let schema_10 =
  TTuple ((TU (S (S (S (S (S (S (S (S O))))))))) :: ((TU (S (S (S (S (S (S (S
    (S O))))))))) :: ((TU (S (S (S (S (S (S (S (S O))))))))) :: ((TSeq
    (TTuple ((TTuple ((TSeq (TTuple ((TArr ((S (S (S (S O)))), (TU (S (S (S
    (S (S (S (S (S (S (S (S (S (S (S (S (S
    O))))))))))))))))))) :: []))) :: ((TU (S (S (S (S (S (S (S (S
    O))))))))) :: []))) :: ((TTuple ((TSeq (TTuple ((TArr ((S (S (S (S O)))),
    (TU (S (S (S (S (S (S (S (S (S (S (S (S (S (S (S (S
    O))))))))))))))))))) :: []))) :: ((TArr ((S (S (S (S O)))), (TSeq (TU (S
    (S (S (S O)))))))) :: []))) :: ((TArr ((S (S (S (S (S O))))), (TU (S (S
    (S (S (S (S (S (S O))))))))))) :: []))))) :: ((TOpt (TSeq (TTuple ((TSeq
    (TTuple ((TTuple ((TSeq (TTuple ((TArr ((S (S (S (S (S (S (S (S
    O)))))))), (TU (S (S (S (S (S (S (S (S O))))))))))) :: []))) :: ((TU (S
    (S (S (S (S (S (S (S O))))))))) :: ((TU (S (S (S (S (S (S (S (S
    O))))))))) :: [])))) :: ((TSeq (TU (S (S (S (S (S (S (S (S
    O)))))))))) :: ((TArr ((S (S O)), (TSeq (TU (S (S (S (S (S (S (S (S
    O)))))))))))) :: []))))) :: ((TU (S (S (S (S (S (S (S (S
    O))))))))) :: []))))) :: [])))))

(** val schema_11 : ty **)

let schema_11 =
  TTuple ((TU (S (S (S (S (S (S (S (S O))))))))) :: ((TU (S (S (S (S (S (S (S
    (S O))))))))) :: ((TU (S (S (S (S (S (S (S (S (S (S (S (S (S (S (S (S
    O))))))))))))))))) :: ((TSeq (TTuple ((TTuple ((TSeq (TTuple ((TArr ((S
    (S (S (S O)))), (TU (S (S (S (S (S (S (S (S (S (S (S (S (S (S (S (S
    O))))))))))))))))))) :: []))) :: ((TU (S (S (S (S (S (S (S (S
    O))))))))) :: []))) :: ((TTuple ((TSeq (TTuple ((TArr ((S (S (S (S O)))),
    (TU (S (S (S (S (S (S (S (S (S (S (S (S (S (S (S (S
    O))))))))))))))))))) :: []))) :: ((TArr ((S (S (S (S O)))), (TSeq (TU (S
    (S (S (S O)))))))) :: []))) :: ((TArr ((S (S (S (S (S O))))), (TU (S (S
    (S (S (S (S (S (S O))))))))))) :: []))))) :: ((TOpt (TSeq (TTuple ((TSeq
    (TTuple ((TTuple ((TSeq (TTuple ((TArr ((S (S (S (S (S (S (S (S
    O)))))))), (TU (S (S (S (S (S (S (S (S O))))))))))) :: []))) :: ((TU (S
    (S (S (S (S (S (S (S O))))))))) :: ((TU (S (S (S (S (S (S (S (S
    O))))))))) :: [])))) :: ((TSeq (TU (S (S (S (S (S (S (S (S
    O)))))))))) :: ((TArr ((S (S O)), (TSeq (TU (S (S (S (S (S (S (S (S
    O)))))))))))) :: []))))) :: ((TU (S (S (S (S (S (S (S (S
    O))))))))) :: []))))) :: [])))))

(** val schema_12 : ty **)

let schema_12 =
  TTuple ((TU (S (S (S (S (S (S (S (S O))))))))) :: ((TU (S (S (S (S (S (S (S
    (S O))))))))) :: ((TU (S O)) :: ((TSeq (TTuple ((TTuple ((TSeq (TTuple
    ((TArr ((S (S (S (S O)))), (TU (S (S (S (S (S (S (S (S (S (S (S (S (S (S
    (S (S O))))))))))))))))))) :: []))) :: ((TU (S (S (S (S (S (S (S (S
    O))))))))) :: []))) :: ((TTuple ((TSeq (TTuple ((TArr ((S (S (S (S O)))),
    (TU (S (S (S (S (S (S (S (S (S (S (S (S (S (S (S (S
    O))))))))))))))))))) :: []))) :: ((TArr ((S (S (S (S O)))), (TSeq (TU (S
    (S (S (S O)))))))) :: []))) :: ((TArr ((S (S (S (S (S O))))), (TU (S (S
    (S (S (S (S (S (S O))))))))))) :: []))))) :: ((TOpt (TSeq (TTuple ((TSeq
    (TTuple ((TTuple ((TSeq (TTuple ((TArr ((S (S (S (S (S (S (S (S
    O)))))))), (TU (S (S (S (S (S (S (S (S O))))))))))) :: []))) :: ((TU (S
    (S (S (S (S (S (S (S O))))))))) :: ((TU (S (S (S (S (S (S (S (S
    O))))))))) :: [])))) :: ((TSeq (TU (S (S (S (S (S (S (S (S
    O)))))))))) :: ((TArr ((S (S O)), (TSeq (TU (S (S (S (S (S (S (S (S
    O)))))))))))) :: []))))) :: ((TU (S (S (S (S (S (S (S (S
    O))))))))) :: []))))) :: [])))))

(** val schema_13 : ty **)

let schema_13 =
  TTuple ((TU (S (S (S (S (S (S (S (S O))))))))) :: ((TU (S (S (S (S (S (S (S
    (S O))))))))) :: ((TU (S (S O))) :: ((TSeq (TTuple ((TTuple ((TSeq
    (TTuple ((TArr ((S (S (S (S O)))), (TU (S (S (S (S (S (S (S (S (S (S (S
    (S (S (S (S (S O))))))))))))))))))) :: []))) :: ((TU (S (S (S (S (S (S (S
    (S O))))))))) :: []))) :: ((TTuple ((TSeq (TTuple ((TArr ((S (S (S (S
    O)))), (TU (S (S (S (S (S (S (S (S (S (S (S (S (S (S (S (S
    O))))))))))))))))))) :: []))) :: ((TArr ((S (S (S (S O)))), (TSeq (TU (S
    (S (S (S O)))))))) :: []))) :: ((TArr ((S (S (S (S (S O))))), (TU (S (S
    (S (S (S (S (S (S O))))))))))) :: []))))) :: ((TOpt (TSeq (TTuple ((TSeq
    (TTuple ((TTuple ((TSeq (TTuple ((TArr ((S (S (S (S (S (S (S (S
    O)))))))), (TU (S (S (S (S (S (S (S (S O))))))))))) :: []))) :: ((TU (S
    (S (S (S (S (S (S (S O))))))))) :: ((TU (S (S (S (S (S (S (S (S
    O))))))))) :: [])))) :: ((TSeq (TU (S (S (S (S (S (S (S (S
    O)))))))))) :: ((TArr ((S (S O)), (TSeq (TU (S (S (S (S (S (S (S (S
    O)))))))))))) :: []))))) :: ((TU (S (S (S (S (S (S (S (S
    O))))))))) :: []))))) :: [])))))

(** val schema_14 : ty **)

let schema_14 =
  TTuple ((TU (S (S (S (S (S (S (S (S O))))))))) :: ((TU (S (S (S (S (S (S (S
    (S O))))))))) :: ((TU (S (S (S (S O))))) :: ((TSeq (TTuple ((TTuple
    ((TSeq (TTuple ((TArr ((S (S (S (S O)))), (TU (S (S (S (S (S (S (S (S (S
    (S (S (S (S (S (S (S O))))))))))))))))))) :: []))) :: ((TU (S (S (S (S (S
    (S (S (S O))))))))) :: []))) :: ((TTuple ((TSeq (TTuple ((TArr ((S (S (S
    (S O)))), (TU (S (S (S (S (S (S (S (S (S (S (S (S (S (S (S (S
    O))))))))))))))))))) :: []))) :: ((TArr ((S (S (S (S O)))), (TSeq (TU (S
    (S (S (S O)))))))) :: []))) :: ((TArr ((S (S (S (S (S O))))), (TU (S (S
    (S (S (S (S (S (S O))))))))))) :: []))))) :: ((TOpt (TSeq (TTuple ((TSeq
    (TTuple ((TTuple ((TSeq (TTuple ((TArr ((S (S (S (S (S (S (S (S
    O)))))))), (TU (S (S (S (S (S (S (S (S O))))))))))) :: []))) :: ((TU (S
    (S (S (S (S (S (S (S O))))))))) :: ((TU (S (S (S (S (S (S (S (S
    O))))))))) :: [])))) :: ((TSeq (TU (S (S (S (S (S (S (S (S
    O)))))))))) :: ((TArr ((S (S O)), (TSeq (TU (S (S (S (S (S (S (S (S
    O)))))))))))) :: []))))) :: ((TU (S (S (S (S (S (S (S (S
    O))))))))) :: []))))) :: [])))))

(** val schema_15 : ty **)

let schema_15 =
  TTuple ((TU (S (S (S (S (S (S (S (S O))))))))) :: ((TU (S (S (S (S (S (S (S
    (S O))))))))) :: ((TU (S (S (S (S (S (S (S (S O))))))))) :: ((TSeq
    (TTuple ((TTuple ((TSeq (TTuple ((TArr ((S (S (S (S O)))), (TU (S (S (S
    (S (S (S (S (S (S (S (S (S (S (S (S (S
    O))))))))))))))))))) :: []))) :: ((TU (S (S (S (S (S (S (S (S
    O))))))))) :: []))) :: ((TTuple ((TSeq (TTuple ((TArr ((S (S (S (S O)))),
    (TU (S (S (S (S (S (S (S (S (S (S (S (S (S (S (S (S
    O))))))))))))))))))) :: []))) :: ((TArr ((S (S (S (S O)))), (TSeq (TU (S
    (S (S (S O)))))))) :: []))) :: ((TArr ((S (S (S (S (S O))))), (TU (S (S
    (S (S (S (S (S (S O))))))))))) :: []))))) :: ((TOpt (TSeq (TTuple ((TSeq
    (TTuple ((TTuple ((TSeq (TTuple ((TArr ((S (S (S (S (S (S (S (S
    O)))))))), (TU (S (S (S (S (S (S (S (S O))))))))))) :: []))) :: ((TU (S
    (S (S (S (S (S (S (S O))))))))) :: ((TU (S (S (S (S (S (S (S (S
    O))))))))) :: [])))) :: ((TSeq (TU (S (S (S (S (S (S (S (S
    O)))))))))) :: ((TArr ((S (S O)), (TSeq (TU (S (S (S (S (S (S (S (S
    O)))))))))))) :: []))))) :: ((TU (S (S (S (S (S (S (S (S
    O))))))))) :: []))))) :: [])))))

(** val schema_16 : ty **)

let schema_16 =
  TTuple ((TU (S (S (S (S (S (S (S (S O))))))))) :: ((TU (S (S (S (S (S (S (S
    (S O))))))))) :: ((TU (S (S (S (S (S (S (S (S O))))))))) :: ((TSeq
    (TTuple ((TTuple ((TSeq (TTuple ((TArr ((S (S (S (S O)))), (TU (S (S (S
    (S (S (S (S (S (S (S (S (S (S (S (S (S
    O))))))))))))))))))) :: []))) :: ((TU (S (S (S (S (S (S (S (S
    O))))))))) :: []))) :: ((TTuple ((TSeq (TTuple ((TArr ((S (S (S (S O)))),
    (TU (S (S (S (S (S (S (S (S (S (S (S (S (S (S (S (S
    O))))))))))))))))))) :: []))) :: ((TArr ((S (S (S (S O)))), (TSeq (TU (S
    (S (S (S O)))))))) :: []))) :: ((TArr ((S (S (S (S (S O))))), (TU (S (S
    (S (S (S (S (S (S O))))))))))) :: []))))) :: ((TOpt (TSeq (TTuple ((TSeq
    (TTuple ((TTuple ((TSeq (TTuple ((TArr ((S (S (S (S (S (S (S (S
    O)))))))), (TU (S (S (S (S (S (S (S (S O))))))))))) :: []))) :: ((TU (S
    (S (S (S (S (S (S (S O))))))))) :: ((TU (S (S (S (S (S (S (S (S
    O))))))))) :: [])))) :: ((TSeq (TU (S (S (S (S (S (S (S (S
    O)))))))))) :: ((TArr ((S (S O)), (TSeq (TU (S (S (S (S (S (S (S (S
    O)))))))))))) :: []))))) :: ((TU (S (S (S (S (S (S (S (S
    O))))))))) :: []))))) :: [])))))

(** val schema_17 : ty **)

let schema_17 =
  TTuple ((TU (S (S (S (S (S (S (S (S O))))))))) :: ((TU (S (S (S (S (S (S (S
    (S O))))))))) :: ((TU (S (S (S (S (S (S (S (S (S (S (S (S (S (S (S (S
    O))))))))))))))))) :: ((TSeq (TTuple ((TTuple ((TSeq (TTuple ((TArr ((S
    (S (S (S O)))), (TU (S (S (S (S (S (S (S (S (S (S (S (S (S (S (S (S
    O))))))))))))))))))) :: []))) :: ((TU (S (S (S (S (S (S (S (S
    O))))))))) :: []))) :: ((TTuple ((TSeq (TTuple ((TArr ((S (S (S (S O)))),
    (TU (S (S (S (S (S (S (S (S (S (S (S (S (S (S (S (S
    O))))))))))))))))))) :: []))) :: ((TArr ((S (S (S (S O)))), (TSeq (TU (S
    (S (S (S O)))))))) :: []))) :: ((TArr ((S (S (S (S (S O))))), (TU (S (S
    (S (S (S (S (S (S O))))))))))) :: []))))) :: ((TOpt (TSeq (TTuple ((TSeq
    (TTuple ((TTuple ((TSeq (TTuple ((TArr ((S (S (S (S (S (S (S (S
    O)))))))), (TU (S (S (S (S (S (S (S (S O))))))))))) :: []))) :: ((TU (S
    (S (S (S (S (S (S (S O))))))))) :: ((TU (S (S (S (S (S (S (S (S
    O))))))))) :: [])))) :: ((TSeq (TU (S (S (S (S (S (S (S (S
    O)))))))))) :: ((TArr ((S (S O)), (TSeq (TU (S (S (S (S (S (S (S (S
    O)))))))))))) :: []))))) :: ((TU (S (S (S (S (S (S (S (S
    O))))))))) :: []))))) :: [])))))

(** val schema_18 : ty **)

let schema_18 =
  TTuple ((TU (S (S (S (S (S (S (S (S O))))))))) :: ((TU (S (S (S (S (S (S (S
    (S O))))))))) :: ((TU (S O)) :: ((TSeq (TTuple ((TTuple ((TSeq (TTuple
    ((TArr ((S (S (S (S O)))), (TU (S (S (S (S (S (S (S (S (S (S (S (S (S (S
    (S (S O))))))))))))))))))) :: []))) :: ((TU (S (S (S (S (S (S (S (S
    O))))))))) :: []))) :: ((TTuple ((TSeq (TTuple ((TArr ((S (S (S (S O)))),
    (TU (S (S (S (S (S (S (S (S (S (S (S (S (S (S (S (S
    O))))))))))))))))))) :: []))) :: ((TArr ((S (S (S (S O)))), (TSeq (TU (S
    (S (S (S O)))))))) :: []))) :: ((TArr ((S (S (S (S (S O))))), (TU (S (S
    (S (S (S (S (S (S O))))))))))) :: []))))) :: ((TOpt (TSeq (TTuple ((TSeq
    (TTuple ((TTuple ((TSeq (TTuple ((TArr ((S (S (S (S (S (S (S (S
    O)))))))), (TU (S (S (S (S (S (S (S (S O))))))))))) :: []))) :: ((TU (S
    (S (S (S (S (S (S (S O))))))))) :: ((TU (S (S (S (S (S (S (S (S
    O))))))))) :: [])))) :: ((TSeq (TU (S (S (S (S (S (S (S (S
    O)))))))))) :: ((TArr ((S (S O)), (TSeq (TU (S (S (S (S (S (S (S (S
    O)))))))))))) :: []))))) :: ((TU (S (S (S (S (S (S (S (S
    O))))))))) :: []))))) :: [])))))

(** val schema_19 : ty **)

let schema_19 =
  TTuple ((TU (S (S (S (S (S (S (S (S O))))))))) :: ((TU (S (S (S (S (S (S (S
    (S O))))))))) :: ((TU (S (S O))) :: ((TSeq (TTuple ((TTuple ((TSeq
    (TTuple ((TArr ((S (S (S (S O)))), (TU (S (S (S (S (S (S (S (S (S (S (S
    (S (S (S (S (S O))))))))))))))))))) :: []))) :: ((TU (S (S (S (S (S (S (S
    (S O))))))))) :: []))) :: ((TTuple ((TSeq (TTuple ((TArr ((S (S (S (S
    O)))), (TU (S (S (S (S (S (S (S (S (S (S (S (S (S (S (S (S
    O))))))))))))))))))) :: []))) :: ((TArr ((S (S (S (S O)))), (TSeq (TU (S
    (S (S (S O)))))))) :: []))) :: ((TArr ((S (S (S (S (S O))))), (TU (S (S
    (S (S (S (S (S (S O))))))))))) :: []))))) :: ((TOpt (TSeq (TTuple ((TSeq
    (TTuple ((TTuple ((TSeq (TTuple ((TArr ((S (S (S (S (S (S (S (S
    O)))))))), (TU (S (S (S (S (S (S (S (S O))))))))))) :: []))) :: ((TU (S
    (S (S (S (S (S (S (S O))))))))) :: ((TU (S (S (S (S (S (S (S (S
    O))))))))) :: [])))) :: ((TSeq (TU (S (S (S (S (S (S (S (S
    O)))))))))) :: ((TArr ((S (S O)), (TSeq (TU (S (S (S (S (S (S (S (S
    O)))))))))))) :: []))))) :: ((TU (S (S (S (S (S (S (S (S
    O))))))))) :: []))))) :: [])))))

(** val schema_20 : ty **)

let schema_20 =
  TTuple ((TU (S (S (S (S (S (S (S (S O))))))))) :: ((TU (S (S (S (S (S (S (S
    (S O))))))))) :: ((TU (S (S (S (S O))))) :: ((TSeq (TTuple ((TTuple
    ((TSeq (TTuple ((TArr ((S (S (S (S O)))), (TU (S (S (S (S (S (S (S (S (S
    (S (S (S (S (S (S (S O))))))))))))))))))) :: []))) :: ((TU (S (S (S (S (S
    (S (S (S O))))))))) :: []))) :: ((TTuple ((TSeq (TTuple ((TArr ((S (S (S
    (S O)))), (TU (S (S (S (S (S (S (S (S (S (S (S (S (S (S (S (S
    O))))))))))))))))))) :: []))) :: ((TArr ((S (S (S (S O)))), (TSeq (TU (S
    (S (S (S O)))))))) :: []))) :: ((TArr ((S (S (S (S (S O))))), (TU (S (S
    (S (S (S (S (S (S O))))))))))) :: []))))) :: ((TOpt (TSeq (TTuple ((TSeq
    (TTuple ((TTuple ((TSeq (TTuple ((TArr ((S (S (S (S (S (S (S (S
    O)))))))), (TU (S (S (S (S (S (S (S (S O))))))))))) :: []))) :: ((TU (S
    (S (S (S (S (S (S (S O))))))))) :: ((TU (S (S (S (S (S (S (S (S
    O))))))))) :: [])))) :: ((TSeq (TU (S (S (S (S (S (S (S (S
    O)))))))))) :: ((TArr ((S (S O)), (TSeq (TU (S (S (S (S (S (S (S (S
    O)))))))))))) :: []))))) :: ((TU (S (S (S (S (S (S (S (S
    O))))))))) :: []))))) :: [])))))

(** val schema_21 : ty **)

let schema_21 =
  TTuple ((TU (S (S (S (S (S (S (S (S O))))))))) :: ((TU (S (S (S (S (S (S (S
    (S O))))))))) :: ((TU (S (S (S (S (S (S (S (S O))))))))) :: ((TSeq
    (TTuple ((TTuple ((TSeq (TTuple ((TArr ((S (S (S (S O)))), (TU (S (S (S
    (S (S (S (S (S (S (S (S (S (S (S (S (S
    O))))))))))))))))))) :: []))) :: ((TU (S (S (S (S (S (S (S (S
    O))))))))) :: []))) :: ((TTuple ((TSeq (TTuple ((TArr ((S (S (S (S O)))),
    (TU (S (S (S (S (S (S (S (S (S (S (S (S (S (S (S (S
    O))))))))))))))))))) :: []))) :: ((TArr ((S (S (S (S O)))), (TSeq (TU (S
    (S (S (S O)))))))) :: []))) :: ((TArr ((S (S (S (S (S O))))), (TU (S (S
    (S (S (S (S (S (S O))))))))))) :: []))))) :: ((TOpt (TSeq (TTuple ((TSeq
    (TTuple ((TTuple ((TSeq (TTuple ((TArr ((S (S (S (S (S (S (S (S
    O)))))))), (TU (S (S (S (S (S (S (S (S O))))))))))) :: []))) :: ((TU (S
    (S (S (S (S (S (S (S O))))))))) :: ((TU (S (S (S (S (S (S (S (S
    O))))))))) :: [])))) :: ((TSeq (TU (S (S (S (S (S (S (S (S
    O)))))))))) :: ((TArr ((S (S O)), (TSeq (TU (S (S (S (S (S (S (S (S
    O)))))))))))) :: []))))) :: ((TU (S (S (S (S (S (S (S (S
    O))))))))) :: []))))) :: [])))))

(** val schema_22 : ty **)

let schema_22 =
  TTuple ((TU (S (S (S (S (S (S (S (S O))))))))) :: ((TU (S (S (S (S (S (S (S
    (S O))))))))) :: ((TU (S (S (S (S (S (S (S (S O))))))))) :: ((TSeq
    (TTuple ((TTuple ((TSeq (TTuple ((TArr ((S (S (S (S O)))), (TU (S (S (S
    (S (S (S (S (S (S (S (S (S (S (S (S (S
    O))))))))))))))))))) :: []))) :: ((TU (S (S (S (S (S (S (S (S
    O))))))))) :: []))) :: ((TTuple ((TSeq (TTuple ((TArr ((S (S (S (S O)))),
    (TU (S (S (S (S (S (S (S (S (S (S (S (S (S (S (S (S
    O))))))))))))))))))) :: []))) :: ((TArr ((S (S (S (S O)))), (TSeq (TU (S
    (S (S (S O)))))))) :: []))) :: ((TArr ((S (S (S (S (S O))))), (TU (S (S
    (S (S (S (S (S (S O))))))))))) :: []))))) :: ((TOpt (TSeq (TTuple ((TSeq
    (TTuple ((TTuple ((TSeq (TTuple ((TArr ((S (S (S (S (S (S (S (S
    O)))))))), (TU (S (S (S (S (S (S (S (S O))))))))))) :: []))) :: ((TU (S
    (S (S (S (S (S (S (S O))))))))) :: ((TU (S (S (S (S (S (S (S (S
    O))))))))) :: [])))) :: ((TSeq (TU (S (S (S (S (S (S (S (S
    O)))))))))) :: ((TArr ((S (S O)), (TSeq (TU (S (S (S (S (S (S (S (S
    O)))))))))))) :: []))))) :: ((TU (S (S (S (S (S (S (S (S
    O))))))))) :: []))))) :: [])))))

(** val schema_23 : ty **)

let schema_23 =
  TTuple ((TU (S (S (S (S (S (S (S (S O))))))))) :: ((TU (S (S (S (S (S (S (S
    (S O))))))))) :: ((TU (S (S (S (S (S (S (S (S (S (S (S (S (S (S (S (S
    O))))))))))))))))) :: ((TSeq (TTuple ((TTuple ((TSeq (TTuple ((TArr ((S
    (S (S (S O)))), (TU (S (S (S (S (S (S (S (S (S (S (S (S (S (S (S (S
    O))))))))))))))))))) :: []))) :: ((TU (S (S (S (S (S (S (S (S
    O))))))))) :: []))) :: ((TTuple ((TSeq (TTuple ((TArr ((S (S (S (S O)))),
    (TU (S (S (S (S (S (S (S (S (S (S (S (S (S (S (S (S
    O))))))))))))))))))) :: []))) :: ((TArr ((S (S (S (S O)))), (TSeq (TU (S
    (S (S (S O)))))))) :: []))) :: ((TArr ((S (S (S (S (S O))))), (TU (S (S
    (S (S (S (S (S (S O))))))))))) :: []))))) :: ((TOpt (TSeq (TTuple ((TSeq
    (TTuple ((TTuple ((TSeq (TTuple ((TArr ((S (S (S (S (S (S (S (S
    O)))))))), (TU (S (S (S (S (S (S (S (S O))))))))))) :: []))) :: ((TU (S
    (S (S (S (S (S (S (S O))))))))) :: ((TU (S (S (S (S (S (S (S (S
    O))))))))) :: [])))) :: ((TSeq (TU (S (S (S (S (S (S (S (S
    O)))))))))) :: ((TArr ((S (S O)), (TSeq (TU (S (S (S (S (S (S (S (S
    O)))))))))))) :: []))))) :: ((TU (S (S (S (S (S (S (S (S
    O))))))))) :: []))))) :: [])))))

(** val schema_24 : ty **)

let schema_24 =
  TTuple ((TU (S (S (S (S (S (S (S (S O))))))))) :: ((TU (S (S (S (S (S (S (S
    (S O))))))))) :: ((TSeq (TTuple ((TU (S (S (S (S O))))) :: ((TU (S (S (S
    (S O))))) :: [])))) :: ((TSeq (TSeq (TTuple ((TU (S (S (S (S
    O))))) :: ((TU (S O)) :: []))))) :: ((TSeq (TTuple ((TTuple ((TSeq
    (TTuple ((TArr ((S (S (S (S O)))), (TU (S (S (S (S (S (S (S (S (S (S (S
    (S (S (S (S (S O))))))))))))))))))) :: []))) :: ((TU (S (S (S (S (S (S (S
    (S O))))))))) :: []))) :: ((TTuple ((TSeq (TTuple ((TArr ((S (S (S (S
    O)))), (TU (S (S (S (S (S (S (S (S (S (S (S (S (S (S (S (S
    O))))))))))))))))))) :: []))) :: ((TArr ((S (S (S (S O)))), (TSeq (TU (S
    (S (S (S O)))))))) :: []))) :: ((TArr ((S (S (S (S (S O))))), (TU (S (S
    (S (S (S (S (S (S O))))))))))) :: []))))) :: ((TSeq (TU (S (S (S (S (S (S
    (S (S O)))))))))) :: (TUnit :: ((TOpt (TSeq (TTuple ((TSeq (TTuple
    ((TTuple ((TSeq (TTuple ((TArr ((S (S (S (S (S (S (S (S O)))))))), (TU (S
    (S (S (S (S (S (S (S O))))))))))) :: []))) :: ((TU (S (S (S (S (S (S (S
    (S O))))))))) :: ((TU (S (S (S (S (S (S (S (S
    O))))))))) :: [])))) :: ((TSeq (TU (S (S (S (S (S (S (S (S
    O)))))))))) :: ((TArr ((S (S O)), (TSeq (TU (S (S (S (S (S (S (S (S
    O)))))))))))) :: []))))) :: ((TU (S (S (S (S (S (S (S (S
    O))))))))) :: []))))) :: []))))))))

(** val schema_25 : ty **)

let schema_25 =
  TTuple ((TU (S (S (S (S (S (S (S (S O))))))))) :: ((TU (S (S (S (S (S (S (S
    (S O))))))))) :: ((TSeq (TTuple ((TU (S (S (S (S O))))) :: ((TU (S (S (S
    (S O))))) :: [])))) :: ((TSeq (TSeq (TTuple ((TU (S (S (S (S
    O))))) :: ((TU (S (S O))) :: []))))) :: ((TSeq (TTuple ((TTuple ((TSeq
    (TTuple ((TArr ((S (S (S (S O)))), (TU (S (S (S (S (S (S (S (S (S (S (S
    (S (S (S (S (S O))))))))))))))))))) :: []))) :: ((TU (S (S (S (S (S (S (S
    (S O))))))))) :: []))) :: ((TTuple ((TSeq (TTuple ((TArr ((S (S (S (S
    O)))), (TU (S (S (S (S (S (S (S (S (S (S (S (S (S (S (S (S
    O))))))))))))))))))) :: []))) :: ((TArr ((S (S (S (S O)))), (TSeq (TU (S
    (S (S (S O)))))))) :: []))) :: ((TArr ((S (S (S (S (S O))))), (TU (S (S
    (S (S (S (S (S (S O))))))))))) :: []))))) :: ((TSeq (TU (S (S (S (S (S (S
    (S (S O)))))))))) :: (TUnit :: ((TOpt (TSeq (TTuple ((TSeq (TTuple
    ((TTuple ((TSeq (TTuple ((TArr ((S (S (S (S (S (S (S (S O)))))))), (TU (S
    (S (S (S (S (S (S (S O))))))))))) :: []))) :: ((TU (S (S (S (S (S (S (S
    (S O))))))))) :: ((TU (S (S (S (S (S (S (S (S
    O))))))))) :: [])))) :: ((TSeq (TU (S (S (S (S (S (S (S (S
    O)))))))))) :: ((TArr ((S (S O)), (TSeq (TU (S (S (S (S (S (S (S (S
    O)))))))))))) :: []))))) :: ((TU (S (S (S (S (S (S (S (S
    O))))))))) :: []))))) :: []))))))))

(** val schema_26 : ty **)

let schema_26 =
  TTuple ((TU (S (S (S (S (S (S (S (S O))))))))) :: ((TU (S (S (S (S (S (S (S
    (S O))))))))) :: ((TSeq (TTuple ((TU (S (S (S (S O))))) :: ((TU (S (S (S
    (S O))))) :: [])))) :: ((TSeq (TSeq (TTuple ((TU (S (S (S (S
    O))))) :: ((TU (S (S (S (S O))))) :: []))))) :: ((TSeq (TTuple ((TTuple
    ((TSeq (TTuple ((TArr ((S (S (S (S O)))), (TU (S (S (S (S (S (S (S (S (S
    (S (S (S (S (S (S (S O))))))))))))))))))) :: []))) :: ((TU (S (S (S (S (S
    (S (S (S O))))))))) :: []))) :: ((TTuple ((TSeq (TTuple ((TArr ((S (S (S
    (S O)))), (TU (S (S (S (S (S (S (S (S (S (S (S (S (S (S (S (S
    O))))))))))))))))))) :: []))) :: ((TArr ((S (S (S (S O)))), (TSeq (TU (S
    (S (S (S O)))))))) :: []))) :: ((TArr ((S (S (S (S (S O))))), (TU (S (S
    (S (S (S (S (S (S O))))))))))) :: []))))) :: ((TSeq (TU (S (S (S (S (S (S
    (S (S O)))))))))) :: (TUnit :: ((TOpt (TSeq (TTuple ((TSeq (TTuple
    ((TTuple ((TSeq (TTuple ((TArr ((S (S (S (S (S (S (S (S O)))))))), (TU (S
    (S (S (S (S (S (S (S O))))))))))) :: []))) :: ((TU (S (S (S (S (S (S (S
    (S O))))))))) :: ((TU (S (S (S (S (S (S (S (S
    O))))))))) :: [])))) :: ((TSeq (TU (S (S (S (S (S (S (S (S
    O)))))))))) :: ((TArr ((S (S O)), (TSeq (TU (S (S (S (S (S (S (S (S
    O)))))))))))) :: []))))) :: ((TU (S (S (S (S (S (S (S (S
    O))))))))) :: []))))) :: []))))))))

(** val schema_27 : ty **)

let schema_27 =
  TTuple ((TU (S (S (S (S (S (S (S (S O))))))))) :: ((TU (S (S (S (S (S (S (S
    (S O))))))))) :: ((TSeq (TTuple ((TU (S (S (S (S O))))) :: ((TU (S (S (S
    (S O))))) :: [])))) :: ((TSeq (TSeq (TTuple ((TU (S (S (S (S
    O))))) :: ((TU (S (S (S (S (S (S (S (S O))))))))) :: []))))) :: ((TSeq
    (TTuple ((TTuple ((TSeq (TTuple ((TArr ((S (S (S (S O)))), (TU (S (S (S
    (S (S (S (S (S (S (S (S (S (S (S (S (S
    O))))))))))))))))))) :: []))) :: ((TU (S (S (S (S (S (S (S (S
    O))))))))) :: []))) :: ((TTuple ((TSeq (TTuple ((TArr ((S (S (S (S O)))),
    (TU (S (S (S (S (S (S (S (S (S (S (S (S (S (S (S (S
    O))))))))))))))))))) :: []))) :: ((TArr ((S (S (S (S O)))), (TSeq (TU (S
    (S (S (S O)))))))) :: []))) :: ((TArr ((S (S (S (S (S O))))), (TU (S (S
    (S (S (S (S (S (S O))))))))))) :: []))))) :: ((TSeq (TU (S (S (S (S (S (S
    (S (S O)))))))))) :: (TUnit :: ((TOpt (TSeq (TTuple ((TSeq (TTuple
    ((TTuple ((TSeq (TTuple ((TArr ((S (S (S (S (S (S (S (S O)))))))), (TU (S
    (S (S (S (S (S (S (S O))))))))))) :: []))) :: ((TU (S (S (S (S (S (S (S
    (S O))))))))) :: ((TU (S (S (S (S (S (S (S (S
    O))))))))) :: [])))) :: ((TSeq (TU (S (S (S (S (S (S (S (S
    O)))))))))) :: ((TArr ((S (S O)), (TSeq (TU (S (S (S (S (S (S (S (S
    O)))))))))))) :: []))))) :: ((TU (S (S (S (S (S (S (S (S
    O))))))))) :: []))))) :: []))))))))

(** val schema_28 : ty **)

let schema_28 =
  TTuple ((TU (S (S (S (S (S (S (S (S O))))))))) :: ((TU (S (S (S (S (S (S (S
    (S O))))))))) :: ((TSeq (TTuple ((TU (S (S (S (S O))))) :: ((TU (S (S (S
    (S O))))) :: [])))) :: ((TSeq (TSeq (TTuple ((TU (S (S (S (S
    O))))) :: ((TU (S (S (S (S (S (S (S (S O))))))))) :: []))))) :: ((TSeq
    (TTuple ((TTuple ((TSeq (TTuple ((TArr ((S (S (S (S O)))), (TU (S (S (S
    (S (S (S (S (S (S (S (S (S (S (S (S (S
    O))))))))))))))))))) :: []))) :: ((TU (S (S (S (S (S (S (S (S
    O))))))))) :: []))) :: ((TTuple ((TSeq (TTuple ((TArr ((S (S (S (S O)))),
    (TU (S (S (S (S (S (S (S (S (S (S (S (S (S (S (S (S
    O))))))))))))))))))) :: []))) :: ((TArr ((S (S (S (S O)))), (TSeq (TU (S
    (S (S (S O)))))))) :: []))) :: ((TArr ((S (S (S (S (S O))))), (TU (S (S
    (S (S (S (S (S (S O))))))))))) :: []))))) :: ((TSeq (TU (S (S (S (S (S (S
    (S (S O)))))))))) :: (TUnit :: ((TOpt (TSeq (TTuple ((TSeq (TTuple
    ((TTuple ((TSeq (TTuple ((TArr ((S (S (S (S (S (S (S (S O)))))))), (TU (S
    (S (S (S (S (S (S (S O))))))))))) :: []))) :: ((TU (S (S (S (S (S (S (S
    (S O))))))))) :: ((TU (S (S (S (S (S (S (S (S
    O))))))))) :: [])))) :: ((TSeq (TU (S (S (S (S (S (S (S (S
    O)))))))))) :: ((TArr ((S (S O)), (TSeq (TU (S (S (S (S (S (S (S (S
    O)))))))))))) :: []))))) :: ((TU (S (S (S (S (S (S (S (S
    O))))))))) :: []))))) :: []))))))))

(** val schema_29 : ty **)

let schema_29 =
  TTuple ((TU (S (S (S (S (S (S (S (S O))))))))) :: ((TU (S (S (S (S (S (S (S
    (S O))))))))) :: ((TSeq (TTuple ((TU (S (S (S (S O))))) :: ((TU (S (S (S
    (S O))))) :: [])))) :: ((TSeq (TSeq (TTuple ((TU (S (S (S (S
    O))))) :: ((TU (S (S (S (S (S (S (S (S (S (S (S (S (S (S (S (S
    O))))))))))))))))) :: []))))) :: ((TSeq (TTuple ((TTuple ((TSeq (TTuple
    ((TArr ((S (S (S (S O)))), (TU (S (S (S (S (S (S (S (S (S (S (S (S (S (S
    (S (S O))))))))))))))))))) :: []))) :: ((TU (S (S (S (S (S (S (S (S
    O))))))))) :: []))) :: ((TTuple ((TSeq (TTuple ((TArr ((S (S (S (S O)))),
    (TU (S (S (S (S (S (S (S (S (S (S (S (S (S (S (S (S
    O))))))))))))))))))) :: []))) :: ((TArr ((S (S (S (S O)))), (TSeq (TU (S
    (S (S (S O)))))))) :: []))) :: ((TArr ((S (S (S (S (S O))))), (TU (S (S
    (S (S (S (S (S (S O))))))))))) :: []))))) :: ((TSeq (TU (S (S (S (S (S (S
    (S (S O)))))))))) :: (TUnit :: ((TOpt (TSeq (TTuple ((TSeq (TTuple
    ((TTuple ((TSeq (TTuple ((TArr ((S (S (S (S (S (S (S (S O)))))))), (TU (S
    (S (S (S (S (S (S (S O))))))))))) :: []))) :: ((TU (S (S (S (S (S (S (S
    (S O))))))))) :: ((TU (S (S (S (S (S (S (S (S
    O))))))))) :: [])))) :: ((TSeq (TU (S (S (S (S (S (S (S (S
    O)))))))))) :: ((TArr ((S (S O)), (TSeq (TU (S (S (S (S (S (S (S (S
    O)))))))))))) :: []))))) :: ((TU (S (S (S (S (S (S (S (S
    O))))))))) :: []))))) :: []))))))))

(** val schema_30 : ty **)

let schema_30 =
  TTuple ((TU (S (S (S (S (S (S (S (S O))))))))) :: ((TU (S (S (S (S (S (S (S
    (S O))))))))) :: ((TSeq (TTuple ((TU (S (S (S (S O))))) :: ((TU (S (S (S
    (S O))))) :: [])))) :: ((TSeq (TSeq (TTuple ((TU (S (S (S (S
    O))))) :: ((TU (S O)) :: []))))) :: ((TSeq (TTuple ((TTuple ((TSeq
    (TTuple ((TArr ((S (S (S (S O)))), (TU (S (S (S (S (S (S (S (S (S (S (S
    (S (S (S (S (S O))))))))))))))))))) :: []))) :: ((TU (S (S (S (S (S (S (S
    (S O))))))))) :: []))) :: ((TTuple ((TSeq (TTuple ((TArr ((S (S (S (S
    O)))), (TU (S (S (S (S (S (S (S (S (S (S (S (S (S (S (S (S
    O))))))))))))))))))) :: []))) :: ((TArr ((S (S (S (S O)))), (TSeq (TU (S
    (S (S (S O)))))))) :: []))) :: ((TArr ((S (S (S (S (S O))))), (TU (S (S
    (S (S (S (S (S (S O))))))))))) :: []))))) :: ((TSeq (TU (S (S (S (S (S (S
    (S (S O)))))))))) :: (TUnit :: ((TOpt (TSeq (TTuple ((TSeq (TTuple
    ((TTuple ((TSeq (TTuple ((TArr ((S (S (S (S (S (S (S (S O)))))))), (TU (S
    (S (S (S (S (S (S (S O))))))))))) :: []))) :: ((TU (S (S (S (S (S (S (S
    (S O))))))))) :: ((TU (S (S (S (S (S (S (S (S
    O))))))))) :: [])))) :: ((TSeq (TU (S (S (S (S (S (S (S (S
    O)))))))))) :: ((TArr ((S (S O)), (TSeq (TU (S (S (S (S (S (S (S (S
    O)))))))))))) :: []))))) :: ((TU (S (S (S (S (S (S (S (S
    O))))))))) :: []))))) :: []))))))))

(** val schema_31 : ty **)

let schema_31 =
  TTuple ((TU (S (S (S (S (S (S (S (S O))))))))) :: ((TU (S (S (S (S (S (S (S
    (S O))))))))) :: ((TSeq (TTuple ((TU (S (S (S (S O))))) :: ((TU (S (S (S
    (S O))))) :: [])))) :: ((TSeq (TSeq (TTuple ((TU (S (S (S (S
    O))))) :: ((TU (S (S O))) :: []))))) :: ((TSeq (TTuple ((TTuple ((TSeq
    (TTuple ((TArr ((S (S (S (S O)))), (TU (S (S (S (S (S (S (S (S (S (S (S
    (S (S (S (S (S O))))))))))))))))))) :: []))) :: ((TU (S (S (S (S (S (S (S
    (S O))))))))) :: []))) :: ((TTuple ((TSeq (TTuple ((TArr ((S (S (S (S
    O)))), (TU (S (S (S (S (S (S (S (S (S (S (S (S (S (S (S (S
    O))))))))))))))))))) :: []))) :: ((TArr ((S (S (S (S O)))), (TSeq (TU (S
    (S (S (S O)))))))) :: []))) :: ((TArr ((S (S (S (S (S O))))), (TU (S (S
    (S (S (S (S (S (S O))))))))))) :: []))))) :: ((TSeq (TU (S (S (S (S (S (S
    (S (S O)))))))))) :: (TUnit :: ((TOpt (TSeq (TTuple ((TSeq (TTuple
    ((TTuple ((TSeq (TTuple ((TArr ((S (S (S (S (S (S (S (S O)))))))), (TU (S
    (S (S (S (S (S (S (S O))))))))))) :: []))) :: ((TU (S (S (S (S (S (S (S
    (S O))))))))) :: ((TU (S (S (S (S (S (S (S (S
    O))))))))) :: [])))) :: ((TSeq (TU (S (S (S (S (S (S (S (S
    O)))))))))) :: ((TArr ((S (S O)), (TSeq (TU (S (S (S (S (S (S (S (S
    O)))))))))))) :: []))))) :: ((TU (S (S (S (S (S (S (S (S
    O))))))))) :: []))))) :: []))))))))

(** val schema_32 : ty **)

let schema_32 =
  TTuple ((TU (S (S (S (S (S (S (S (S O))))))))) :: ((TU (S (S (S (S (S (S (S
    (S O))))))))) :: ((TSeq (TTuple ((TU (S (S (S (S O))))) :: ((TU (S (S (S
    (S O))))) :: [])))) :: ((TSeq (TSeq (TTuple ((TU (S (S (S (S
    O))))) :: ((TU (S (S (S (S O))))) :: []))))) :: ((TSeq (TTuple ((TTuple
    ((TSeq (TTuple ((TArr ((S (S (S (S O)))), (TU (S (S (S (S (S (S (S (S (S
    (S (S (S (S (S (S (S O))))))))))))))))))) :: []))) :: ((TU (S (S (S (S (S
    (S (S (S O))))))))) :: []))) :: ((TTuple ((TSeq (TTuple ((TArr ((S (S (S
    (S O)))), (TU (S (S (S (S (S (S (S (S (S (S (S (S (S (S (S (S
    O))))))))))))))))))) :: []))) :: ((TArr ((S (S (S (S O)))), (TSeq (TU (S
    (S (S (S O)))))))) :: []))) :: ((TArr ((S (S (S (S (S O))))), (TU (S (S
    (S (S (S (S (S (S O))))))))))) :: []))))) :: ((TSeq (TU (S (S (S (S (S (S
    (S (S O)))))))))) :: (TUnit :: ((TOpt (TSeq (TTuple ((TSeq (TTuple
    ((TTuple ((TSeq (TTuple ((TArr ((S (S (S (S (S (S (S (S O)))))))), (TU (S
    (S (S (S (S (S (S (S O))))))))))) :: []))) :: ((TU (S (S (S (S (S (S (S
    (S O))))))))) :: ((TU (S (S (S (S (S (S (S (S
    O))))))))) :: [])))) :: ((TSeq (TU (S (S (S (S (S (S (S (S
    O)))))))))) :: ((TArr ((S (S O)), (TSeq (TU (S (S (S (S (S (S (S (S
    O)))))))))))) :: []))))) :: ((TU (S (S (S (S (S (S (S (S
    O))))))))) :: []))))) :: []))))))))

(** val schema_33 : ty **)

let schema_33 =
  TTuple ((TU (S (S (S (S (S (S (S (S O))))))))) :: ((TU (S (S (S (S (S (S (S
    (S O))))))))) :: ((TSeq (TTuple ((TU (S (S (S (S O))))) :: ((TU (S (S (S
    (S O))))) :: [])))) :: ((TSeq (TSeq (TTuple ((TU (S (S (S (S
    O))))) :: ((TU (S (S (S (S (S (S (S (S O))))))))) :: []))))) :: ((TSeq
    (TTuple ((TTuple ((TSeq (TTuple ((TArr ((S (S (S (S O)))), (TU (S (S (S
    (S (S (S (S (S (S (S (S (S (S (S (S (S
    O))))))))))))))))))) :: []))) :: ((TU (S (S (S (S (S (S (S (S
    O))))))))) :: []))) :: ((TTuple ((TSeq (TTuple ((TArr ((S (S (S (S O)))),
    (TU (S (S (S (S (S (S (S (S (S (S (S (S (S (S (S (S
    O))))))))))))))))))) :: []))) :: ((TArr ((S (S (S (S O)))), (TSeq (TU (S
    (S (S (S O)))))))) :: []))) :: ((TArr ((S (S (S (S (S O))))), (TU (S (S
    (S (S (S (S (S (S O))))))))))) :: []))))) :: ((TSeq (TU (S (S (S (S (S (S
    (S (S O)))))))))) :: (TUnit :: ((TOpt (TSeq (TTuple ((TSeq (TTuple
    ((TTuple ((TSeq (TTuple ((TArr ((S (S (S (S (S (S (S (S O)))))))), (TU (S
    (S (S (S (S (S (S (S O))))))))))) :: []))) :: ((TU (S (S (S (S (S (S (S
    (S O))))))))) :: ((TU (S (S (S (S (S (S (S (S
    O))))))))) :: [])))) :: ((TSeq (TU (S (S (S (S (S (S (S (S
    O)))))))))) :: ((TArr ((S (S O)), (TSeq (TU (S (S (S (S (S (S (S (S
    O)))))))))))) :: []))))) :: ((TU (S (S (S (S (S (S (S (S
    O))))))))) :: []))))) :: []))))))))

(** val schema_34 : ty **)

let schema_34 =
  TTuple ((TU (S (S (S (S (S (S (S (S O))))))))) :: ((TU (S (S (S (S (S (S (S
    (S O))))))))) :: ((TSeq (TTuple ((TU (S (S (S (S O))))) :: ((TU (S (S (S
    (S O))))) :: [])))) :: ((TSeq (TSeq (TTuple ((TU (S (S (S (S
    O))))) :: ((TU (S (S (S (S (S (S (S (S O))))))))) :: []))))) :: ((TSeq
    (TTuple ((TTuple ((TSeq (TTuple ((TArr ((S (S (S (S O)))), (TU (S (S (S
    (S (S (S (S (S (S (S (S (S (S (S (S (S
    O))))))))))))))))))) :: []))) :: ((TU (S (S (S (S (S (S (S (S
    O))))))))) :: []))) :: ((TTuple ((TSeq (TTuple ((TArr ((S (S (S (S O)))),
    (TU (S (S (S (S (S (S (S (S (S (S (S (S (S (S (S (S
    O))))))))))))))))))) :: []))) :: ((TArr ((S (S (S (S O)))), (TSeq (TU (S
    (S (S (S O)))))))) :: []))) :: ((TArr ((S (S (S (S (S O))))), (TU (S (S
    (S (S (S (S (S (S O))))))))))) :: []))))) :: ((TSeq (TU (S (S (S (S (S (S
    (S (S O)))))))))) :: (TUnit :: ((TOpt (TSeq (TTuple ((TSeq (TTuple
    ((TTuple ((TSeq (TTuple ((TArr ((S (S (S (S (S (S (S (S O)))))))), (TU (S
    (S (S (S (S (S (S (S O))))))))))) :: []))) :: ((TU (S (S (S (S (S (S (S
    (S O))))))))) :: ((TU (S (S (S (S (S (S (S (S
    O))))))))) :: [])))) :: ((TSeq (TU (S (S (S (S (S (S (S (S
    O)))))))))) :: ((TArr ((S (S O)), (TSeq (TU (S (S (S (S (S (S (S (S
    O)))))))))))) :: []))))) :: ((TU (S (S (S (S (S (S (S (S
    O))))))))) :: []))))) :: []))))))))

(** val schema_35 : ty **)

let schema_35 =
  TTuple ((TU (S (S (S (S (S (S (S (S O))))))))) :: ((TU (S (S (S (S (S (S (S
    (S O))))))))) :: ((TSeq (TTuple ((TU (S (S (S (S O))))) :: ((TU (S (S (S
    (S O))))) :: [])))) :: ((TSeq (TSeq (TTuple ((TU (S (S (S (S
    O))))) :: ((TU (S (S (S (S (S (S (S (S (S (S (S (S (S (S (S (S
    O))))))))))))))))) :: []))))) :: ((TSeq (TTuple ((TTuple ((TSeq (TTuple
    ((TArr ((S (S (S (S O)))), (TU (S (S (S (S (S (S (S (S (S (S (S (S (S (S
    (S (S O))))))))))))))))))) :: []))) :: ((TU (S (S (S (S (S (S (S (S
    O))))))))) :: []))) :: ((TTuple ((TSeq (TTuple ((TArr ((S (S (S (S O)))),
    (TU (S (S (S (S (S (S (S (S (S (S (S (S (S (S (S (S
    O))))))))))))))))))) :: []))) :: ((TArr ((S (S (S (S O)))), (TSeq (TU (S
    (S (S (S O)))))))) :: []))) :: ((TArr ((S (S (S (S (S O))))), (TU (S (S
    (S (S (S (S (S (S O))))))))))) :: []))))) :: ((TSeq (TU (S (S (S (S (S (S
    (S (S O)))))))))) :: (TUnit :: ((TOpt (TSeq (TTuple ((TSeq (TTuple
    ((TTuple ((TSeq (TTuple ((TArr ((S (S (S (S (S (S (S (S O)))))))), (TU (S
    (S (S (S (S (S (S (S O))))))))))) :: []))) :: ((TU (S (S (S (S (S (S (S
    (S O))))))))) :: ((TU (S (S (S (S (S (S (S (S
    O))))))))) :: [])))) :: ((TSeq (TU (S (S (S (S (S (S (S (S
    O)))))))))) :: ((TArr ((S (S O)), (TSeq (TU (S (S (S (S (S (S (S (S
    O)))))))))))) :: []))))) :: ((TU (S (S (S (S (S (S (S (S
    O))))))))) :: []))))) :: []))))))))

(** val schema_36 : ty **)

let schema_36 =
  TTuple ((TU (S (S (S (S (S (S (S (S O))))))))) :: ((TU (S (S (S (S (S (S (S
    (S O))))))))) :: ((TSeq (TTuple ((TU (S (S (S (S O))))) :: ((TU (S (S (S
    (S O))))) :: [])))) :: ((TSeq (TSeq (TTuple ((TU (S (S (S (S
    O))))) :: ((TU (S O)) :: []))))) :: ((TSeq (TTuple ((TTuple ((TSeq
    (TTuple ((TArr ((S (S (S (S O)))), (TU (S (S (S (S (S (S (S (S (S (S (S
    (S (S (S (S (S O))))))))))))))))))) :: []))) :: ((TU (S (S (S (S (S (S (S
    (S O))))))))) :: []))) :: ((TTuple ((TSeq (TTuple ((TArr ((S (S (S (S
    O)))), (TU (S (S (S (S (S (S (S (S (S (S (S (S (S (S (S (S
    O))))))))))))))))))) :: []))) :: ((TArr ((S (S (S (S O)))), (TSeq (TU (S
    (S (S (S O)))))))) :: []))) :: ((TArr ((S (S (S (S (S O))))), (TU (S (S
    (S (S (S (S (S (S O))))))))))) :: []))))) :: ((TSeq (TU (S (S (S (S (S (S
    (S (S O)))))))))) :: (TUnit :: ((TOpt (TSeq (TTuple ((TSeq (TTuple
    ((TTuple ((TSeq (TTuple ((TArr ((S (S (S (S (S (S (S (S O)))))))), (TU (S
    (S (S (S (S (S (S (S O))))))))))) :: []))) :: ((TU (S (S (S (S (S (S (S
    (S O))))))))) :: ((TU (S (S (S (S (S (S (S (S
    O))))))))) :: [])))) :: ((TSeq (TU (S (S (S (S (S (S (S (S
    O)))))))))) :: ((TArr ((S (S O)), (TSeq (TU (S (S (S (S (S (S (S (S
    O)))))))))))) :: []))))) :: ((TU (S (S (S (S (S (S (S (S
    O))))))))) :: []))))) :: []))))))))

(** val schema_37 : ty **)

let schema_37 =
  TTuple ((TU (S (S (S (S (S (S (S (S O))))))))) :: ((TU (S (S (S (S (S (S (S
    (S O))))))))) :: ((TSeq (TTuple ((TU (S (S (S (S O))))) :: ((TU (S (S (S
    (S O))))) :: [])))) :: ((TSeq (TSeq (TTuple ((TU (S (S (S (S
    O))))) :: ((TU (S (S O))) :: []))))) :: ((TSeq (TTuple ((TTuple ((TSeq
    (TTuple ((TArr ((S (S (S (S O)))), (TU (S (S (S (S (S (S (S (S (S (S (S
    (S (S (S (S (S O))))))))))))))))))) :: []))) :: ((TU (S (S (S (S (S (S (S
    (S O))))))))) :: []))) :: ((TTuple ((TSeq (TTuple ((TArr ((S (S (S (S
    O)))), (TU (S (S (S (S (S (S (S (S (S (S (S (S (S (S (S (S
    O))))))))))))))))))) :: []))) :: ((TArr ((S (S (S (S O)))), (TSeq (TU (S
    (S (S (S O)))))))) :: []))) :: ((TArr ((S (S (S (S (S O))))), (TU (S (S
    (S (S (S (S (S (S O))))))))))) :: []))))) :: ((TSeq (TU (S (S (S (S (S (S
    (S (S O)))))))))) :: (TUnit :: ((TOpt (TSeq (TTuple ((TSeq (TTuple
    ((TTuple ((TSeq (TTuple ((TArr ((S (S (S (S (S (S (S (S O)))))))), (TU (S
    (S (S (S (S (S (S (S O))))))))))) :: []))) :: ((TU (S (S (S (S (S (S (S
    (S O))))))))) :: ((TU (S (S (S (S (S (S (S (S
    O))))))))) :: [])))) :: ((TSeq (TU (S (S (S (S (S (S (S (S
    O)))))))))) :: ((TArr ((S (S O)), (TSeq (TU (S (S (S (S (S (S (S (S
    O)))))))))))) :: []))))) :: ((TU (S (S (S (S (S (S (S (S
    O))))))))) :: []))))) :: []))))))))

(** val schema_38 : ty **)

let schema_38 =
  TTuple ((TU (S (S (S (S (S (S (S (S O))))))))) :: ((TU (S (S (S (S (S (S (S
    (S O))))))))) :: ((TSeq (TTuple ((TU (S (S (S (S O))))) :: ((TU (S (S (S
    (S O))))) :: [])))) :: ((TSeq (TSeq (TTuple ((TU (S (S (S (S
    O))))) :: ((TU (S (S (S (S O))))) :: []))))) :: ((TSeq (TTuple ((TTuple
    ((TSeq (TTuple ((TArr ((S (S (S (S O)))), (TU (S (S (S (S (S (S (S (S (S
    (S (S (S (S (S (S (S O))))))))))))))))))) :: []))) :: ((TU (S (S (S (S (S
    (S (S (S O))))))))) :: []))) :: ((TTuple ((TSeq (TTuple ((TArr ((S (S (S
    (S O)))), (TU (S (S (S (S (S (S (S (S (S (S (S (S (S (S (S (S
    O))))))))))))))))))) :: []))) :: ((TArr ((S (S (S (S O)))), (TSeq (TU (S
    (S (S (S O)))))))) :: []))) :: ((TArr ((S (S (S (S (S O))))), (TU (S (S
    (S (S (S (S (S (S O))))))))))) :: []))))) :: ((TSeq (TU (S (S (S (S (S (S
    (S (S O)))))))))) :: (TUnit :: ((TOpt (TSeq (TTuple ((TSeq (TTuple
    ((TTuple ((TSeq (TTuple ((TArr ((S (S (S (S (S (S (S (S O)))))))), (TU (S
    (S (S (S (S (S (S (S O))))))))))) :: []))) :: ((TU (S (S (S (S (S (S (S
    (S O))))))))) :: ((TU (S (S (S (S (S (S (S (S
    O))))))))) :: [])))) :: ((TSeq (TU (S (S (S (S (S (S (S (S
    O)))))))))) :: ((TArr ((S (S O)), (TSeq (TU (S (S (S (S (S (S (S (S
    O)))))))))))) :: []))))) :: ((TU (S (S (S (S (S (S (S (S
    O))))))))) :: []))))) :: []))))))))

(** val schema_39 : ty **)

let schema_39 =
  TTuple ((TU (S (S (S (S (S (S (S (S O))))))))) :: ((TU (S (S (S (S (S (S (S
    (S O))))))))) :: ((TSeq (TTuple ((TU (S (S (S (S O))))) :: ((TU (S (S (S
    (S O))))) :: [])))) :: ((TSeq (TSeq (TTuple ((TU (S (S (S (S
    O))))) :: ((TU (S (S (S (S (S (S (S (S O))))))))) :: []))))) :: ((TSeq
    (TTuple ((TTuple ((TSeq (TTuple ((TArr ((S (S (S (S O)))), (TU (S (S (S
    (S (S (S (S (S (S (S (S (S (S (S (S (S
    O))))))))))))))))))) :: []))) :: ((TU (S (S (S (S (S (S (S (S
    O))))))))) :: []))) :: ((TTuple ((TSeq (TTuple ((TArr ((S (S (S (S O)))),
    (TU (S (S (S (S (S (S (S (S (S (S (S (S (S (S (S (S
    O))))))))))))))))))) :: []))) :: ((TArr ((S (S (S (S O)))), (TSeq (TU (S
    (S (S (S O)))))))) :: []))) :: ((TArr ((S (S (S (S (S O))))), (TU (S (S
    (S (S (S (S (S (S O))))))))))) :: []))))) :: ((TSeq (TU (S (S (S (S (S (S
    (S (S O)))))))))) :: (TUnit :: ((TOpt (TSeq (TTuple ((TSeq (TTuple
    ((TTuple ((TSeq (TTuple ((TArr ((S (S (S (S (S (S (S (S O)))))))), (TU (S
    (S (S (S (S (S (S (S O))))))))))) :: []))) :: ((TU (S (S (S (S (S (S (S
    (S O))))))))) :: ((TU (S (S (S (S (S (S (S (S
    O))))))))) :: [])))) :: ((TSeq (TU (S (S (S (S (S (S (S (S
    O)))))))))) :: ((TArr ((S (S O)), (TSeq (TU (S (S (S (S (S (S (S (S
    O)))))))))))) :: []))))) :: ((TU (S (S (S (S (S (S (S (S
    O))))))))) :: []))))) :: []))))))))

(** val schema_40 : ty **)

let schema_40 =
  TTuple ((TU (S (S (S (S (S (S (S (S O))))))))) :: ((TU (S (S (S (S (S (S (S
    (S O))))))))) :: ((TSeq (TTuple ((TU (S (S (S (S O))))) :: ((TU (S (S (S
    (S O))))) :: [])))) :: ((TSeq (TSeq (TTuple ((TU (S (S (S (S
    O))))) :: ((TU (S (S (S (S (S (S (S (S O))))))))) :: []))))) :: ((TSeq
    (TTuple ((TTuple ((TSeq (TTuple ((TArr ((S (S (S (S O)))), (TU (S (S (S
    (S (S (S (S (S (S (S (S (S (S (S (S (S
    O))))))))))))))))))) :: []))) :: ((TU (S (S (S (S (S (S (S (S
    O))))))))) :: []))) :: ((TTuple ((TSeq (TTuple ((TArr ((S (S (S (S O)))),
    (TU (S (S (S (S (S (S (S (S (S (S (S (S (S (S (S (S
    O))))))))))))))))))) :: []))) :: ((TArr ((S (S (S (S O)))), (TSeq (TU (S
    (S (S (S O)))))))) :: []))) :: ((TArr ((S (S (S (S (S O))))), (TU (S (S
    (S (S (S (S (S (S O))))))))))) :: []))))) :: ((TSeq (TU (S (S (S (S (S (S
    (S (S O)))))))))) :: (TUnit :: ((TOpt (TSeq (TTuple ((TSeq (TTuple
    ((TTuple ((TSeq (TTuple ((TArr ((S (S (S (S (S (S (S (S O)))))))), (TU (S
    (S (S (S (S (S (S (S O))))))))))) :: []))) :: ((TU (S (S (S (S (S (S (S
    (S O))))))))) :: ((TU (S (S (S (S (S (S (S (S
    O))))))))) :: [])))) :: ((TSeq (TU (S (S (S (S (S (S (S (S
    O)))))))))) :: ((TArr ((S (S O)), (TSeq (TU (S (S (S (S (S (S (S (S
    O)))))))))))) :: []))))) :: ((TU (S (S (S (S (S (S (S (S
    O))))))))) :: []))))) :: []))))))))

(** val schema_41 : ty **)

let schema_41 =
  TTuple ((TU (S (S (S (S (S (S (S (S O))))))))) :: ((TU (S (S (S (S (S (S (S
    (S O))))))))) :: ((TSeq (TTuple ((TU (S (S (S (S O))))) :: ((TU (S (S (S
    (S O))))) :: [])))) :: ((TSeq (TSeq (TTuple ((TU (S (S (S (S
    O))))) :: ((TU (S (S (S (S (S (S (S (S (S (S (S (S (S (S (S (S
    O))))))))))))))))) :: []))))) :: ((TSeq (TTuple ((TTuple ((TSeq (TTuple
    ((TArr ((S (S (S (S O)))), (TU (S (S (S (S (S (S (S (S (S (S (S (S (S (S
    (S (S O))))))))))))))))))) :: []))) :: ((TU (S (S (S (S (S (S (S (S
    O))))))))) :: []))) :: ((TTuple ((TSeq (TTuple ((TArr ((S (S (S (S O)))),
    (TU (S (S (S (S (S (S (S (S (S (S (S (S (S (S (S (S
    O))))))))))))))))))) :: []))) :: ((TArr ((S (S (S (S O)))), (TSeq (TU (S
    (S (S (S O)))))))) :: []))) :: ((TArr ((S (S (S (S (S O))))), (TU (S (S
    (S (S (S (S (S (S O))))))))))) :: []))))) :: ((TSeq (TU (S (S (S (S (S (S
    (S (S O)))))))))) :: (TUnit :: ((TOpt (TSeq (TTuple ((TSeq (TTuple
    ((TTuple ((TSeq (TTuple ((TArr ((S (S (S (S (S (S (S (S O)))))))), (TU (S
    (S (S (S (S (S (S (S O))))))))))) :: []))) :: ((TU (S (S (S (S (S (S (S
    (S O))))))))) :: ((TU (S (S (S (S (S (S (S (S
    O))))))))) :: [])))) :: ((TSeq (TU (S (S (S (S (S (S (S (S
    O)))))))))) :: ((TArr ((S (S O)), (TSeq (TU (S (S (S (S (S (S (S (S
    O)))))))))))) :: []))))) :: ((TU (S (S (S (S (S (S (S (S
    O))))))))) :: []))))) :: []))))))))

(** val schema_42 : ty **)

let schema_42 =
  TTuple ((TU (S (S (S (S (S (S (S (S O))))))))) :: ((TU (S (S (S (S (S (S (S
    (S O))))))))) :: ((TSeq (TTuple ((TU (S (S (S (S O))))) :: ((TU (S (S (S
    (S O))))) :: [])))) :: ((TSeq (TSeq (TTuple ((TU (S (S (S (S
    O))))) :: ((TU (S O)) :: []))))) :: ((TSeq (TTuple ((TTuple ((TSeq
    (TTuple ((TArr ((S (S (S (S O)))), (TU (S (S (S (S (S (S (S (S (S (S (S
    (S (S (S (S (S O))))))))))))))))))) :: []))) :: ((TU (S (S (S (S (S (S (S
    (S O))))))))) :: []))) :: ((TTuple ((TSeq (TTuple ((TArr ((S (S (S (S
    O)))), (TU (S (S (S (S (S (S (S (S (S (S (S (S (S (S (S (S
    O))))))))))))))))))) :: []))) :: ((TArr ((S (S (S (S O)))), (TSeq (TU (S
    (S (S (S O)))))))) :: []))) :: ((TArr ((S (S (S (S (S O))))), (TU (S (S
    (S (S (S (S (S (S O))))))))))) :: []))))) :: ((TSeq (TU (S (S (S (S (S (S
    (S (S O)))))))))) :: (TUnit :: ((TOpt (TSeq (TTuple ((TSeq (TTuple
    ((TTuple ((TSeq (TTuple ((TArr ((S (S (S (S (S (S (S (S O)))))))), (TU (S
    (S (S (S (S (S (S (S O))))))))))) :: []))) :: ((TU (S (S (S (S (S (S (S
    (S O))))))))) :: ((TU (S (S (S (S (S (S (S (S
    O))))))))) :: [])))) :: ((TSeq (TU (S (S (S (S (S (S (S (S
    O)))))))))) :: ((TArr ((S (S O)), (TSeq (TU (S (S (S (S (S (S (S (S
    O)))))))))))) :: []))))) :: ((TU (S (S (S (S (S (S (S (S
    O))))))))) :: []))))) :: []))))))))

(** val schema_43 : ty **)

let schema_43 =
  TTuple ((TU (S (S (S (S (S (S (S (S O))))))))) :: ((TU (S (S (S (S (S (S (S
    (S O))))))))) :: ((TSeq (TTuple ((TU (S (S (S (S O))))) :: ((TU (S (S (S
    (S O))))) :: [])))) :: ((TSeq (TSeq (TTuple ((TU (S (S (S (S
    O))))) :: ((TU (S (S O))) :: []))))) :: ((TSeq (TTuple ((TTuple ((TSeq
    (TTuple ((TArr ((S (S (S (S O)))), (TU (S (S (S (S (S (S (S (S (S (S (S
    (S (S (S (S (S O))))))))))))))))))) :: []))) :: ((TU (S (S (S (S (S (S (S
    (S O))))))))) :: []))) :: ((TTuple ((TSeq (TTuple ((TArr ((S (S (S (S
    O)))), (TU (S (S (S (S (S (S (S (S (S (S (S (S (S (S (S (S
    O))))))))))))))))))) :: []))) :: ((TArr ((S (S (S (S O)))), (TSeq (TU (S
    (S (S (S O)))))))) :: []))) :: ((TArr ((S (S (S (S (S O))))), (TU (S (S
    (S (S (S (S (S (S O))))))))))) :: []))))) :: ((TSeq (TU (S (S (S (S (S (S
    (S (S O)))))))))) :: (TUnit :: ((TOpt (TSeq (TTuple ((TSeq (TTuple
    ((TTuple ((TSeq (TTuple ((TArr ((S (S (S (S (S (S (S (S O)))))))), (TU (S
    (S (S (S (S (S (S (S O))))))))))) :: []))) :: ((TU (S (S (S (S (S (S (S
    (S O))))))))) :: ((TU (S (S (S (S (S (S (S (S
    O))))))))) :: [])))) :: ((TSeq (TU (S (S (S (S (S (S (S (S
    O)))))))))) :: ((TArr ((S (S O)), (TSeq (TU (S (S (S (S (S (S (S (S
    O)))))))))))) :: []))))) :: ((TU (S (S (S (S (S (S (S (S
    O))))))))) :: []))))) :: []))))))))

(** val schema_44 : ty **)

let schema_44 =
  TTuple ((TU (S (S (S (S (S (S (S (S O))))))))) :: ((TU (S (S (S (S (S (S (S
    (S O))))))))) :: ((TSeq (TTuple ((TU (S (S (S (S O))))) :: ((TU (S (S (S
    (S O))))) :: [])))) :: ((TSeq (TSeq (TTuple ((TU (S (S (S (S
    O))))) :: ((TU (S (S (S (S O))))) :: []))))) :: ((TSeq (TTuple ((TTuple
    ((TSeq (TTuple ((TArr ((S (S (S (S O)))), (TU (S (S (S (S (S (S (S (S (S
    (S (S (S (S (S (S (S O))))))))))))))))))) :: []))) :: ((TU (S (S (S (S (S
    (S (S (S O))))))))) :: []))) :: ((TTuple ((TSeq (TTuple ((TArr ((S (S (S
    (S O)))), (TU (S (S (S (S (S (S (S (S (S (S (S (S (S (S (S (S
    O))))))))))))))))))) :: []))) :: ((TArr ((S (S (S (S O)))), (TSeq (TU (S
    (S (S (S O)))))))) :: []))) :: ((TArr ((S (S (S (S (S O))))), (TU (S (S
    (S (S (S (S (S (S O))))))))))) :: []))))) :: ((TSeq (TU (S (S (S (S (S (S
    (S (S O)))))))))) :: (TUnit :: ((TOpt (TSeq (TTuple ((TSeq (TTuple
    ((TTuple ((TSeq (TTuple ((TArr ((S (S (S (S (S (S (S (S O)))))))), (TU (S
    (S (S (S (S (S (S (S O))))))))))) :: []))) :: ((TU (S (S (S (S (S (S (S
    (S O))))))))) :: ((TU (S (S (S (S (S (S (S (S
    O))))))))) :: [])))) :: ((TSeq (TU (S (S (S (S (S (S (S (S
    O)))))))))) :: ((TArr ((S (S O)), (TSeq (TU (S (S (S (S (S (S (S (S
    O)))))))))))) :: []))))) :: ((TU (S (S (S (S (S (S (S (S
    O))))))))) :: []))))) :: []))))))))

(** val schema_45 : ty **)

let schema_45 =
  TTuple ((TU (S (S (S (S (S (S (S (S O))))))))) :: ((TU (S (S (S (S (S (S (S
    (S O))))))))) :: ((TSeq (TTuple ((TU (S (S (S (S O))))) :: ((TU (S (S (S
    (S O))))) :: [])))) :: ((TSeq (TSeq (TTuple ((TU (S (S (S (S
    O))))) :: ((TU (S (S (S (S (S (S (S (S O))))))))) :: []))))) :: ((TSeq
    (TTuple ((TTuple ((TSeq (TTuple ((TArr ((S (S (S (S O)))), (TU (S (S (S
    (S (S (S (S (S (S (S (S (S (S (S (S (S
    O))))))))))))))))))) :: []))) :: ((TU (S (S (S (S (S (S (S (S
    O))))))))) :: []))) :: ((TTuple ((TSeq (TTuple ((TArr ((S (S (S (S O)))),
    (TU (S (S (S (S (S (S (S (S (S (S (S (S (S (S (S (S
    O))))))))))))))))))) :: []))) :: ((TArr ((S (S (S (S O)))), (TSeq (TU (S
    (S (S (S O)))))))) :: []))) :: ((TArr ((S (S (S (S (S O))))), (TU (S (S
    (S (S (S (S (S (S O))))))))))) :: []))))) :: ((TSeq (TU (S (S (S (S (S (S
    (S (S O)))))))))) :: (TUnit :: ((TOpt (TSeq (TTuple ((TSeq (TTuple
    ((TTuple ((TSeq (TTuple ((TArr ((S (S (S (S (S (S (S (S O)))))))), (TU (S
    (S (S (S (S (S (S (S O))))))))))) :: []))) :: ((TU (S (S (S (S (S (S (S
    (S O))))))))) :: ((TU (S (S (S (S (S (S (S (S
    O))))))))) :: [])))) :: ((TSeq (TU (S (S (S (S (S (S (S (S
    O)))))))))) :: ((TArr ((S (S O)), (TSeq (TU (S (S (S (S (S (S (S (S
    O)))))))))))) :: []))))) :: ((TU (S (S (S (S (S (S (S (S
    O))))))))) :: []))))) :: []))))))))

(** val schema_46 : ty **)

let schema_46 =
  TTuple ((TU (S (S (S (S (S (S (S (S O))))))))) :: ((TU (S (S (S (S (S (S (S
    (S O))))))))) :: ((TSeq (TTuple ((TU (S (S (S (S O))))) :: ((TU (S (S (S
    (S O))))) :: [])))) :: ((TSeq (TSeq (TTuple ((TU (S (S (S (S
    O))))) :: ((TU (S (S (S (S (S (S (S (S O))))))))) :: []))))) :: ((TSeq
    (TTuple ((TTuple ((TSeq (TTuple ((TArr ((S (S (S (S O)))), (TU (S (S (S
    (S (S (S (S (S (S (S (S (S (S (S (S (S
    O))))))))))))))))))) :: []))) :: ((TU (S (S (S (S (S (S (S (S
    O))))))))) :: []))) :: ((TTuple ((TSeq (TTuple ((TArr ((S (S (S (S O)))),
    (TU (S (S (S (S (S (S (S (S (S (S (S (S (S (S (S (S
    O))))))))))))))))))) :: []))) :: ((TArr ((S (S (S (S O)))), (TSeq (TU (S
    (S (S (S O)))))))) :: []))) :: ((TArr ((S (S (S (S (S O))))), (TU (S (S
    (S (S (S (S (S (S O))))))))))) :: []))))) :: ((TSeq (TU (S (S (S (S (S (S
    (S (S O)))))))))) :: (TUnit :: ((TOpt (TSeq (TTuple ((TSeq (TTuple
    ((TTuple ((TSeq (TTuple ((TArr ((S (S (S (S (S (S (S (S O)))))))), (TU (S
    (S (S (S (S (S (S (S O))))))))))) :: []))) :: ((TU (S (S (S (S (S (S (S
    (S O))))))))) :: ((TU (S (S (S (S (S (S (S (S
    O))))))))) :: [])))) :: ((TSeq (TU (S (S (S (S (S (S (S (S
    O)))))))))) :: ((TArr ((S (S O)), (TSeq (TU (S (S (S (S (S (S (S (S
    O)))))))))))) :: []))))) :: ((TU (S (S (S (S (S (S (S (S
    O))))))))) :: []))))) :: []))))))))

(** val schema_47 : ty **)

let schema_47 =
  TTuple ((TU (S (S (S (S (S (S (S (S O))))))))) :: ((TU (S (S (S (S (S (S (S
    (S O))))))))) :: ((TSeq (TTuple ((TU (S (S (S (S O))))) :: ((TU (S (S (S
    (S O))))) :: [])))) :: ((TSeq (TSeq (TTuple ((TU (S (S (S (S
    O))))) :: ((TU (S (S (S (S (S (S (S (S (S (S (S (S (S (S (S (S
    O))))))))))))))))) :: []))))) :: ((TSeq (TTuple ((TTuple ((TSeq (TTuple
    ((TArr ((S (S (S (S O)))), (TU (S (S (S (S (S (S (S (S (S (S (S (S (S (S
    (S (S O))))))))))))))))))) :: []))) :: ((TU (S (S (S (S (S (S (S (S
    O))))))))) :: []))) :: ((TTuple ((TSeq (TTuple ((TArr ((S (S (S (S O)))),
    (TU (S (S (S (S (S (S (S (S (S (S (S (S (S (S (S (S
    O))))))))))))))))))) :: []))) :: ((TArr ((S (S (S (S O)))), (TSeq (TU (S
    (S (S (S O)))))))) :: []))) :: ((TArr ((S (S (S (S (S O))))), (TU (S (S
    (S (S (S (S (S (S O))))))))))) :: []))))) :: ((TSeq (TU (S (S (S (S (S (S
    (S (S O)))))))))) :: (TUnit :: ((TOpt (TSeq (TTuple ((TSeq (TTuple
    ((TTuple ((TSeq (TTuple ((TArr ((S (S (S (S (S (S (S (S O)))))))), (TU (S
    (S (S (S (S (S (S (S O))))))))))) :: []))) :: ((TU (S (S (S (S (S (S (S
    (S O))))))))) :: ((TU (S (S (S (S (S (S (S (S
    O))))))))) :: [])))) :: ((TSeq (TU (S (S (S (S (S (S (S (S
    O)))))))))) :: ((TArr ((S (S O)), (TSeq (TU (S (S (S (S (S (S (S (S
    O)))))))))))) :: []))))) :: ((TU (S (S (S (S (S (S (S (S
    O))))))))) :: []))))) :: []))))))))

(** val schema_48 : ty **)

let schema_48 =
  TTuple ((TU (S (S (S (S (S (S (S (S O))))))))) :: ((TU (S (S (S (S (S (S (S
    (S O))))))))) :: ((TOpt (TU (S O))) :: ((TOpt (TSeq (TTuple ((TU (S (S (S
    (S O))))) :: ((TU (S (S (S (S O))))) :: []))))) :: ((TOpt (TSeq (TSeq
    (TTuple ((TU (S (S (S (S O))))) :: ((TU (S O)) :: [])))))) :: ((TSeq
    (TTuple ((TTuple ((TSeq (TTuple ((TArr ((S (S (S (S (S (S (S (S
    O)))))))), (TU (S (S (S (S (S (S (S (S O))))))))))) :: []))) :: ((TU (S
    (S (S (S (S (S (S (S O))))))))) :: ((TU (S (S (S (S (S (S (S (S
    O))))))))) :: [])))) :: ((TSeq (TU (S (S (S (S (S (S (S (S (S (S (S (S (S
    (S (S (S O)))))))))))))))))) :: ((TArr ((S (S O)), (TSeq (TU (S (S (S (S
    (S (S (S (S O)))))))))))) :: ((TU (S (S (S (S (S (S (S (S
    O))))))))) :: [])))))) :: ((TSeq (TU (S (S (S (S (S (S (S (S
    O)))))))))) :: (TUnit :: []))))))))

(** val schema_49 : ty **)

let schema_49 =
  TTuple ((TU (S (S (S (S (S (S (S (S O))))))))) :: ((TU (S (S (S (S (S (S (S
    (S O))))))))) :: ((TOpt (TU (S (S O)))) :: ((TOpt (TSeq (TTuple ((TU (S
    (S (S (S O))))) :: ((TU (S (S (S (S O))))) :: []))))) :: ((TOpt (TSeq
    (TSeq (TTuple ((TU (S (S (S (S O))))) :: ((TU (S (S
    O))) :: [])))))) :: ((TSeq (TTuple ((TTuple ((TSeq (TTuple ((TArr ((S (S
    (S (S (S (S (S (S O)))))))), (TU (S (S (S (S (S (S (S (S
    O))))))))))) :: []))) :: ((TU (S (S (S (S (S (S (S (S O))))))))) :: ((TU
    (S (S (S (S (S (S (S (S O))))))))) :: [])))) :: ((TSeq (TU (S (S (S (S (S
    (S (S (S (S (S (S (S (S (S (S (S O)))))))))))))))))) :: ((TArr ((S (S
    O)), (TSeq (TU (S (S (S (S (S (S (S (S O)))))))))))) :: ((TU (S (S (S (S
    (S (S (S (S O))))))))) :: [])))))) :: ((TSeq (TU (S (S (S (S (S (S (S (S
    O)))))))))) :: (TUnit :: []))))))))

(** val schema_50 : ty **)

let schema_50 =
  TTuple ((TU (S (S (S (S (S (S (S (S O))))))))) :: ((TU (S (S (S (S (S (S (S
    (S O))))))))) :: ((TOpt (TU (S (S (S (S O)))))) :: ((TOpt (TSeq (TTuple
    ((TU (S (S (S (S O))))) :: ((TU (S (S (S (S O))))) :: []))))) :: ((TOpt
    (TSeq (TSeq (TTuple ((TU (S (S (S (S O))))) :: ((TU (S (S (S (S
    O))))) :: [])))))) :: ((TSeq (TTuple ((TTuple ((TSeq (TTuple ((TArr ((S
    (S (S (S (S (S (S (S O)))))))), (TU (S (S (S (S (S (S (S (S
    O))))))))))) :: []))) :: ((TU (S (S (S (S (S (S (S (S O))))))))) :: ((TU
    (S (S (S (S (S (S (S (S O))))))))) :: [])))) :: ((TSeq (TU (S (S (S (S (S
    (S (S (S (S (S (S (S (S (S (S (S O)))))))))))))))))) :: ((TArr ((S (S
    O)), (TSeq (TU (S (S (S (S (S (S (S (S O)))))))))))) :: ((TU (S (S (S (S
    (S (S (S (S O))))))))) :: [])))))) :: ((TSeq (TU (S (S (S (S (S (S (S (S
    O)))))))))) :: (TUnit :: []))))))))

(** val schema_51 : ty **)

let schema_51 =
  TTuple ((TU (S (S (S (S (S (S (S (S O))))))))) :: ((TU (S (S (S (S (S (S (S
    (S O))))))))) :: ((TOpt (TU (S (S (S (S (S (S (S (S O)))))))))) :: ((TOpt
    (TSeq (TTuple ((TU (S (S (S (S O))))) :: ((TU (S (S (S (S
    O))))) :: []))))) :: ((TOpt (TSeq (TSeq (TTuple ((TU (S (S (S (S
    O))))) :: ((TU (S (S (S (S (S (S (S (S O))))))))) :: [])))))) :: ((TSeq
    (TTuple ((TTuple ((TSeq (TTuple ((TArr ((S (S (S (S (S (S (S (S
    O)))))))), (TU (S (S (S (S (S (S (S (S O))))))))))) :: []))) :: ((TU (S
    (S (S (S (S (S (S (S O))))))))) :: ((TU (S (S (S (S (S (S (S (S
    O))))))))) :: [])))) :: ((TSeq (TU (S (S (S (S (S (S (S (S (S (S (S (S (S
    (S (S (S O)))))))))))))))))) :: ((TArr ((S (S O)), (TSeq (TU (S (S (S (S
    (S (S (S (S O)))))))))))) :: ((TU (S (S (S (S (S (S (S (S
    O))))))))) :: [])))))) :: ((TSeq (TU (S (S (S (S (S (S (S (S
    O)))))))))) :: (TUnit :: []))))))))

(** val schema_52 : ty **)

let schema_52 =
  TTuple ((TU (S (S (S (S (S (S (S (S O))))))))) :: ((TU (S (S (S (S (S (S (S
    (S O))))))))) :: ((TOpt (TU (S (S (S (S (S (S (S (S O)))))))))) :: ((TOpt
    (TSeq (TTuple ((TU (S (S (S (S O))))) :: ((TU (S (S (S (S
    O))))) :: []))))) :: ((TOpt (TSeq (TSeq (TTuple ((TU (S (S (S (S
    O))))) :: ((TU (S (S (S (S (S (S (S (S O))))))))) :: [])))))) :: ((TSeq
    (TTuple ((TTuple ((TSeq (TTuple ((TArr ((S (S (S (S (S (S (S (S
    O)))))))), (TU (S (S (S (S (S (S (S (S O))))))))))) :: []))) :: ((TU (S
    (S (S (S (S (S (S (S O))))))))) :: ((TU (S (S (S (S (S (S (S (S
    O))))))))) :: [])))) :: ((TSeq (TU (S (S (S (S (S (S (S (S (S (S (S (S (S
    (S (S (S O)))))))))))))))))) :: ((TArr ((S (S O)), (TSeq (TU (S (S (S (S
    (S (S (S (S O)))))))))))) :: ((TU (S (S (S (S (S (S (S (S
    O))))))))) :: [])))))) :: ((TSeq (TU (S (S (S (S (S (S (S (S
    O)))))))))) :: (TUnit :: []))))))))

(** val schema_53 : ty **)

let schema_53 =
  TTuple ((TU (S (S (S (S (S (S (S (S O))))))))) :: ((TU (S (S (S (S (S (S (S
    (S O))))))))) :: ((TOpt (TU (S (S (S (S (S (S (S (S (S (S (S (S (S (S (S
    (S O)))))))))))))))))) :: ((TOpt (TSeq (TTuple ((TU (S (S (S (S
    O))))) :: ((TU (S (S (S (S O))))) :: []))))) :: ((TOpt (TSeq (TSeq
    (TTuple ((TU (S (S (S (S O))))) :: ((TU (S (S (S (S (S (S (S (S (S (S (S
    (S (S (S (S (S O))))))))))))))))) :: [])))))) :: ((TSeq (TTuple ((TTuple
    ((TSeq (TTuple ((TArr ((S (S (S (S (S (S (S (S O)))))))), (TU (S (S (S (S
    (S (S (S (S O))))))))))) :: []))) :: ((TU (S (S (S (S (S (S (S (S
    O))))))))) :: ((TU (S (S (S (S (S (S (S (S O))))))))) :: [])))) :: ((TSeq
    (TU (S (S (S (S (S (S (S (S (S (S (S (S (S (S (S (S
    O)))))))))))))))))) :: ((TArr ((S (S O)), (TSeq (TU (S (S (S (S (S (S (S
    (S O)))))))))))) :: ((TU (S (S (S (S (S (S (S (S
    O))))))))) :: [])))))) :: ((TSeq (TU (S (S (S (S (S (S (S (S
    O)))))))))) :: (TUnit :: []))))))))

(** val schema_54 : ty **)

let schema_54 =
  TTuple ((TU (S (S (S (S (S (S (S (S O))))))))) :: ((TU (S (S (S (S (S (S (S
    (S O))))))))) :: ((TOpt (TU (S O))) :: ((TOpt (TSeq (TTuple ((TU (S (S (S
    (S O))))) :: ((TU (S (S (S (S O))))) :: []))))) :: ((TOpt (TSeq (TSeq
    (TTuple ((TU (S (S (S (S O))))) :: ((TU (S O)) :: [])))))) :: ((TSeq
    (TTuple ((TTuple ((TSeq (TTuple ((TArr ((S (S (S (S (S (S (S (S
    O)))))))), (TU (S (S (S (S (S (S (S (S O))))))))))) :: []))) :: ((TU (S
    (S (S (S (S (S (S (S O))))))))) :: ((TU (S (S (S (S (S (S (S (S
    O))))))))) :: [])))) :: ((TSeq (TU (S (S (S (S (S (S (S (S (S (S (S (S (S
    (S (S (S O)))))))))))))))))) :: ((TArr ((S (S O)), (TSeq (TU (S (S (S (S
    (S (S (S (S O)))))))))))) :: ((TU (S (S (S (S (S (S (S (S
    O))))))))) :: [])))))) :: ((TSeq (TU (S (S (S (S (S (S (S (S
    O)))))))))) :: (TUnit :: []))))))))

(** val schema_55 : ty **)

let schema_55 =
  TTuple ((TU (S (S (S (S (S (S (S (S O))))))))) :: ((TU (S (S (S (S (S (S (S
    (S O))))))))) :: ((TOpt (TU (S (S O)))) :: ((TOpt (TSeq (TTuple ((TU (S
    (S (S (S O))))) :: ((TU (S (S (S (S O))))) :: []))))) :: ((TOpt (TSeq
    (TSeq (TTuple ((TU (S (S (S (S O))))) :: ((TU (S (S
    O))) :: [])))))) :: ((TSeq (TTuple ((TTuple ((TSeq (TTuple ((TArr ((S (S
    (S (S (S (S (S (S O)))))))), (TU (S (S (S (S (S (S (S (S
    O))))))))))) :: []))) :: ((TU (S (S (S (S (S (S (S (S O))))))))) :: ((TU
    (S (S (S (S (S (S (S (S O))))))))) :: [])))) :: ((TSeq (TU (S (S (S (S (S
    (S (S (S (S (S (S (S (S (S (S (S O)))))))))))))))))) :: ((TArr ((S (S
    O)), (TSeq (TU (S (S (S (S (S (S (S (S O)))))))))))) :: ((TU (S (S (S (S
    (S (S (S (S O))))))))) :: [])))))) :: ((TSeq (TU (S (S (S (S (S (S (S (S
    O)))))))))) :: (TUnit :: []))))))))

(** val schema_56 : ty **)

let schema_56 =
  TTuple ((TU (S (S (S (S (S (S (S (S O))))))))) :: ((TU (S (S (S (S (S (S (S
    (S O))))))))) :: ((TOpt (TU (S (S (S (S O)))))) :: ((TOpt (TSeq (TTuple
    ((TU (S (S (S (S O))))) :: ((TU (S (S (S (S O))))) :: []))))) :: ((TOpt
    (TSeq (TSeq (TTuple ((TU (S (S (S (S O))))) :: ((TU (S (S (S (S
    O))))) :: [])))))) :: ((TSeq (TTuple ((TTuple ((TSeq (TTuple ((TArr ((S
    (S (S (S (S (S (S (S O)))))))), (TU (S (S (S (S (S (S (S (S
    O))))))))))) :: []))) :: ((TU (S (S (S (S (S (S (S (S O))))))))) :: ((TU
    (S (S (S (S (S (S (S (S O))))))))) :: [])))) :: ((TSeq (TU (S (S (S (S (S
    (S (S (S (S (S (S (S (S (S (S (S O)))))))))))))))))) :: ((TArr ((S (S
    O)), (TSeq (TU (S (S (S (S (S (S (S (S O)))))))))))) :: ((TU (S (S (S (S
    (S (S (S (S O))))))))) :: [])))))) :: ((TSeq (TU (S (S (S (S (S (S (S (S
    O)))))))))) :: (TUnit :: []))))))))

(** val schema_57 : ty **)

let schema_57 =
  TTuple ((TU (S (S (S (S (S (S (S (S O))))))))) :: ((TU (S (S (S (S (S (S (S
    (S O))))))))) :: ((TOpt (TU (S (S (S (S (S (S (S (S O)))))))))) :: ((TOpt
    (TSeq (TTuple ((TU (S (S (S (S O))))) :: ((TU (S (S (S (S
    O))))) :: []))))) :: ((TOpt (TSeq (TSeq (TTuple ((TU (S (S (S (S
    O))))) :: ((TU (S (S (S (S (S (S (S (S O))))))))) :: [])))))) :: ((TSeq
    (TTuple ((TTuple ((TSeq (TTuple ((TArr ((S (S (S (S (S (S (S (S
    O)))))))), (TU (S (S (S (S (S (S (S (S O))))))))))) :: []))) :: ((TU (S
    (S (S (S (S (S (S (S O))))))))) :: ((TU (S (S (S (S (S (S (S (S
    O))))))))) :: [])))) :: ((TSeq (TU (S (S (S (S (S (S (S (S (S (S (S (S (S
    (S (S (S O)))))))))))))))))) :: ((TArr ((S (S O)), (TSeq (TU (S (S (S (S
    (S (S (S (S O)))))))))))) :: ((TU (S (S (S (S (S (S (S (S
    O))))))))) :: [])))))) :: ((TSeq (TU (S (S (S (S (S (S (S (S
    O)))))))))) :: (TUnit :: []))))))))

(** val schema_58 : ty **)

let schema_58 =
  TTuple ((TU (S (S (S (S (S (S (S (S O))))))))) :: ((TU (S (S (S (S (S (S (S
    (S O))))))))) :: ((TOpt (TU (S (S (S (S (S (S (S (S O)))))))))) :: ((TOpt
    (TSeq (TTuple ((TU (S (S (S (S O))))) :: ((TU (S (S (S (S
    O))))) :: []))))) :: ((TOpt (TSeq (TSeq (TTuple ((TU (S (S (S (S
    O))))) :: ((TU (S (S (S (S (S (S (S (S O))))))))) :: [])))))) :: ((TSeq
    (TTuple ((TTuple ((TSeq (TTuple ((TArr ((S (S (S (S (S (S (S (S
    O)))))))), (TU (S (S (S (S (S (S (S (S O))))))))))) :: []))) :: ((TU (S
    (S (S (S (S (S (S (S O))))))))) :: ((TU (S (S (S (S (S (S (S (S
    O))))))))) :: [])))) :: ((TSeq (TU (S (S (S (S (S (S (S (S (S (S (S (S (S
    (S (S (S O)))))))))))))))))) :: ((TArr ((S (S O)), (TSeq (TU (S (S (S (S
    (S (S (S (S O)))))))))))) :: ((TU (S (S (S (S (S (S (S (S
    O))))))))) :: [])))))) :: ((TSeq (TU (S (S (S (S (S (S (S (S
    O)))))))))) :: (TUnit :: []))))))))

(** val schema_59 : ty **)

let schema_59 =
  TTuple ((TU (S (S (S (S (S (S (S (S O))))))))) :: ((TU (S (S (S (S (S (S (S
    (S O))))))))) :: ((TOpt (TU (S (S (S (S (S (S (S (S (S (S (S (S (S (S (S
    (S O)))))))))))))))))) :: ((TOpt (TSeq (TTuple ((TU (S (S (S (S
    O))))) :: ((TU (S (S (S (S O))))) :: []))))) :: ((TOpt (TSeq (TSeq
    (TTuple ((TU (S (S (S (S O))))) :: ((TU (S (S (S (S (S (S (S (S (S (S (S
    (S (S (S (S (S O))))))))))))))))) :: [])))))) :: ((TSeq (TTuple ((TTuple
    ((TSeq (TTuple ((TArr ((S (S (S (S (S (S (S (S O)))))))), (TU (S (S (S (S
    (S (S (S (S O))))))))))) :: []))) :: ((TU (S (S (S (S (S (S (S (S
    O))))))))) :: ((TU (S (S (S (S (S (S (S (S O))))))))) :: [])))) :: ((TSeq
    (TU (S (S (S (S (S (S (S (S (S (S (S (S (S (S (S (S
    O)))))))))))))))))) :: ((TArr ((S (S O)), (TSeq (TU (S (S (S (S (S (S (S
    (S O)))))))))))) :: ((TU (S (S (S (S (S (S (S (S
    O))))))))) :: [])))))) :: ((TSeq (TU (S (S (S (S (S (S (S (S
    O)))))))))) :: (TUnit :: []))))))))

(** val schema_60 : ty **)

let schema_60 =
  TTuple ((TTuple ((TSeq (TTuple ((TArr ((S (S (S (S O)))), (TU (S (S (S (S
    (S (S (S (S (S (S (S (S (S (S (S (S O))))))))))))))))))) :: []))) :: ((TU
    (S (S (S (S (S (S (S (S O))))))))) :: []))) :: ((TTuple ((TSeq (TTuple
    ((TArr ((S (S (S (S O)))), (TU (S (S (S (S (S (S (S (S (S (S (S (S (S (S
    (S (S O))))))))))))))))))) :: []))) :: ((TArr ((S (S (S (S O)))), (TSeq
    (TU (S (S (S (S O)))))))) :: []))) :: ((TArr ((S (S (S (S (S O))))), (TU
    (S (S (S (S (S (S (S (S O))))))))))) :: [])))

(** val schema_61 : ty **)

let schema_61 =
  TTuple ((TTuple ((TSeq (TTuple ((TArr ((S (S (S (S O)))), (TU (S (S (S (S
    (S (S (S (S (S (S (S (S (S (S (S (S O))))))))))))))))))) :: []))) :: ((TU
    (S (S (S (S (S (S (S (S O))))))))) :: []))) :: ((TTuple ((TSeq (TTuple
    ((TArr ((S (S (S (S O)))), (TU (S (S (S (S (S (S (S (S (S (S (S (S (S (S
    (S (S O))))))))))))))))))) :: []))) :: ((TArr ((S (S (S (S O)))), (TSeq
    (TU (S (S (S (S O)))))))) :: []))) :: ((TArr ((S (S (S (S (S O))))), (TU
    (S (S (S (S (S (S (S (S O))))))))))) :: [])))

(** val schema_62 : ty **)

let schema_62 =
  TTuple ((TSeq (TTuple ((TArr ((S (S (S (S O)))), (TU (S (S (S (S (S (S (S
    (S (S (S (S (S (S (S (S (S O))))))))))))))))))) :: []))) :: ((TU (S (S (S
    (S (S (S (S (S O))))))))) :: []))

(** val schema_63 : ty **)

let schema_63 =
  TTuple ((TSeq (TTuple ((TArr ((S (S (S (S (S (S (S (S O)))))))), (TU (S (S
    (S (S (S (S (S (S O))))))))))) :: []))) :: ((TU (S (S (S (S (S (S (S (S
    O))))))))) :: ((TU (S (S (S (S (S (S (S (S O))))))))) :: [])))

(** val schema_64 : ty **)

let schema_64 =
  TTuple ((TSeq (TTuple ((TArr ((S (S (S (S (S (S (S (S O)))))))), (TU (S (S
    (S (S (S (S (S (S O))))))))))) :: []))) :: ((TU (S (S (S (S (S (S (S (S
    O))))))))) :: ((TU (S (S (S (S (S (S (S (S O))))))))) :: [])))

(** val schema_65 : ty **)

let schema_65 =
  TTuple ((TTuple ((TSeq (TTuple ((TArr ((S (S (S (S (S (S (S (S O)))))))),
    (TU (S (S (S (S (S (S (S (S O))))))))))) :: []))) :: ((TU (S (S (S (S (S
    (S (S (S O))))))))) :: ((TU (S (S (S (S (S (S (S (S
    O))))))))) :: [])))) :: ((TSeq (TU (S (S (S (S (S (S (S (S
    O)))))))))) :: ((TArr ((S (S O)), (TSeq (TU (S (S (S (S (S (S (S (S
    O)))))))))))) :: [])))

(** val schema_66 : ty **)

let schema_66 =
  TTuple ((TTuple ((TSeq (TTuple ((TArr ((S (S (S (S (S (S (S (S O)))))))),
    (TU (S (S (S (S (S (S (S (S O))))))))))) :: []))) :: ((TU (S (S (S (S (S
    (S (S (S O))))))))) :: ((TU (S (S (S (S (S (S (S (S
    O))))))))) :: [])))) :: ((TSeq (TU (S (S (S (S (S (S (S (S (S (S (S (S (S
    (S (S (S O)))))))))))))))))) :: ((TArr ((S (S O)), (TSeq (TU (S (S (S (S
    (S (S (S (S O)))))))))))) :: ((TU (S (S (S (S (S (S (S (S
    O))))))))) :: []))))

(** val schema_67 : ty **)

let schema_67 =
  TTuple ((TTuple ((TSeq (TTuple ((TArr ((S (S (S (S (S (S (S (S O)))))))),
    (TU (S (S (S (S (S (S (S (S O))))))))))) :: []))) :: ((TU (S (S (S (S (S
    (S (S (S O))))))))) :: ((TU (S (S (S (S (S (S (S (S
    O))))))))) :: [])))) :: ((TTuple ((TU (S (S (S (S (S (S (S (S
    O))))))))) :: ((TSeq (TU (S (S (S (S (S (S (S (S O)))))))))) :: ((TSeq
    (TU (S (S O)))) :: ((TSeq (TU (S (S (S (S (S (S (S (S
    O)))))))))) :: []))))) :: ((TOpt (TTuple ((TU (S (S (S (S (S (S (S (S
    O))))))))) :: ((TSeq (TU (S (S (S (S (S (S (S (S O)))))))))) :: ((TSeq
    (TU (S (S O)))) :: ((TSeq (TU (S (S (S (S (S (S (S (S
    O)))))))))) :: [])))))) :: [])))

(** val schema_68 : ty **)

let schema_68 =
  TTuple ((TTuple ((TSeq (TTuple ((TArr ((S (S (S (S (S (S (S (S O)))))))),
    (TU (S (S (S (S (S (S (S (S O))))))))))) :: []))) :: ((TU (S (S (S (S (S
    (S (S (S O))))))))) :: ((TU (S (S (S (S (S (S (S (S
    O))))))))) :: [])))) :: ((TTuple ((TU (S (S (S (S (S (S (S (S
    O))))))))) :: ((TSeq (TU (S (S (S (S (S (S (S (S O)))))))))) :: ((TSeq
    (TU (S (S O)))) :: ((TSeq (TU (S (S (S (S (S (S (S (S
    O)))))))))) :: []))))) :: ((TOpt (TTuple ((TU (S (S (S (S (S (S (S (S
    O))))))))) :: ((TSeq (TU (S (S (S (S (S (S (S (S O)))))))))) :: ((TSeq
    (TU (S (S O)))) :: ((TSeq (TU (S (S (S (S (S (S (S (S
    O)))))))))) :: [])))))) :: [])))

(** val all_schemas : (n * ty) list **)

let all_schemas =
  (N0, schema_0) :: (((Npos XH), schema_1) :: (((Npos (XO XH)),
    schema_2) :: (((Npos (XI XH)), schema_3) :: (((Npos (XO (XO XH))),
    schema_4) :: (((Npos (XI (XO XH))), schema_5) :: (((Npos (XO (XI XH))),
    schema_6) :: (((Npos (XI (XI XH))), schema_7) :: (((Npos (XO (XO (XO
    XH)))), schema_8) :: (((Npos (XI (XO (XO XH)))), schema_9) :: (((Npos (XO
    (XI (XO XH)))), schema_10) :: (((Npos (XI (XI (XO XH)))),
    schema_11) :: (((Npos (XO (XO (XI XH)))), schema_12) :: (((Npos (XI (XO
    (XI XH)))), schema_13) :: (((Npos (XO (XI (XI XH)))),
    schema_14) :: (((Npos (XI (XI (XI XH)))), schema_15) :: (((Npos (XO (XO
    (XO (XO XH))))), schema_16) :: (((Npos (XI (XO (XO (XO XH))))),
    schema_17) :: (((Npos (XO (XI (XO (XO XH))))), schema_18) :: (((Npos (XI
    (XI (XO (XO XH))))), schema_19) :: (((Npos (XO (XO (XI (XO XH))))),
    schema_20) :: (((Npos (XI (XO (XI (XO XH))))), schema_21) :: (((Npos (XO
    (XI (XI (XO XH))))), schema_22) :: (((Npos (XI (XI (XI (XO XH))))),
    schema_23) :: (((Npos (XO (XO (XO (XI XH))))), schema_24) :: (((Npos (XI
    (XO (XO (XI XH))))), schema_25) :: (((Npos (XO (XI (XO (XI XH))))),
    schema_26) :: (((Npos (XI (XI (XO (XI XH))))), schema_27) :: (((Npos (XO
    (XO (XI (XI XH))))), schema_28) :: (((Npos (XI (XO (XI (XI XH))))),
    schema_29) :: (((Npos (XO (XI (XI (XI XH))))), schema_30) :: (((Npos (XI
    (XI (XI (XI XH))))), schema_31) :: (((Npos (XO (XO (XO (XO (XO XH)))))),
    schema_32) :: (((Npos (XI (XO (XO (XO (XO XH)))))), schema_33) :: (((Npos
    (XO (XI (XO (XO (XO XH)))))), schema_34) :: (((Npos (XI (XI (XO (XO (XO
    XH)))))), schema_35) :: (((Npos (XO (XO (XI (XO (XO XH)))))),
    schema_36) :: (((Npos (XI (XO (XI (XO (XO XH)))))), schema_37) :: (((Npos
    (XO (XI (XI (XO (XO XH)))))), schema_38) :: (((Npos (XI (XI (XI (XO (XO
    XH)))))), schema_39) :: (((Npos (XO (XO (XO (XI (XO XH)))))),
    schema_40) :: (((Npos (XI (XO (XO (XI (XO XH)))))), schema_41) :: (((Npos
    (XO (XI (XO (XI (XO XH)))))), schema_42) :: (((Npos (XI (XI (XO (XI (XO
    XH)))))), schema_43) :: (((Npos (XO (XO (XI (XI (XO XH)))))),
    schema_44) :: (((Npos (XI (XO (XI (XI (XO XH)))))), schema_45) :: (((Npos
    (XO (XI (XI (XI (XO XH)))))), schema_46) :: (((Npos (XI (XI (XI (XI (XO
    XH)))))), schema_47) :: (((Npos (XO (XO (XO (XO (XI XH)))))),
    schema_48) :: (((Npos (XI (XO (XO (XO (XI XH)))))), schema_49) :: (((Npos
    (XO (XI (XO (XO (XI XH)))))), schema_50) :: (((Npos (XI (XI (XO (XO (XI
    XH)))))), schema_51) :: (((Npos (XO (XO (XI (XO (XI XH)))))),
    schema_52) :: (((Npos (XI (XO (XI (XO (XI XH)))))), schema_53) :: (((Npos
    (XO (XI (XI (XO (XI XH)))))), schema_54) :: (((Npos (XI (XI (XI (XO (XI
    XH)))))), schema_55) :: (((Npos (XO (XO (XO (XI (XI XH)))))),
    schema_56) :: (((Npos (XI (XO (XO (XI (XI XH)))))), schema_57) :: (((Npos
    (XO (XI (XO (XI (XI XH)))))), schema_58) :: (((Npos (XI (XI (XO (XI (XI
    XH)))))), schema_59) :: (((Npos (XO (XO (XI (XI (XI XH)))))),
    schema_60) :: (((Npos (XI (XO (XI (XI (XI XH)))))), schema_61) :: (((Npos
    (XO (XI (XI (XI (XI XH)))))), schema_62) :: (((Npos (XI (XI (XI (XI (XI
    XH)))))), schema_63) :: (((Npos (XO (XO (XO (XO (XO (XO XH))))))),
    schema_64) :: (((Npos (XI (XO (XO (XO (XO (XO XH))))))),
    schema_65) :: (((Npos (XO (XI (XO (XO (XO (XO XH))))))),
    schema_66) :: (((Npos (XI (XI (XO (XO (XO (XO XH))))))),
    schema_67) :: (((Npos (XO (XO (XI (XO (XO (XO XH))))))),
    schema_68) :: []))))))))))))))))))))))))))))))))))))))))))))))))))))))))))))))))))))

(** val insert_asc : n -> n list -> n list **)

let rec insert_asc x l = match l with
| [] -> x :: []
| y :: r -> if N.leb x y then x :: l else y :: (insert_asc x r)

(** val sort_asc : n list -> n list **)

let sort_asc l =
  fold_left (fun acc x -> insert_asc x acc) l []

(** val index_of : n -> n list -> n -> n option **)

let rec index_of x l i =
  match l with
  | [] -> None
  | y :: r -> if N.eqb y x then Some i else index_of x r (N.add i (Npos XH))

(** val text_remap : n list -> n list -> (n list * n) outcome **)

let text_remap uniq input =
  let unique = sort_asc uniq in
  let rec go = function
  | [] -> Val ([], (len unique))
  | c :: r ->
    (match index_of c unique N0 with
     | Some i ->
       bind (go r) (fun pat ->
         let (rest, d) = pat in
         Val
         (((N.modulo i (Npos (XO (XO (XO (XO (XO (XO (XO (XO XH)))))))))) :: rest),
         d))
     | None -> Fault Panic)
  in go input

(** val vseq_u : n list -> value **)

let vseq_u l =
  VSeq (map (fun x -> VU x) l)

(** val qline_value : n list -> value **)

let qline_value l =
  VTuple ((VSeq (map (fun x -> VU x) (pack_qline l))) :: [])

(** val qv_value : qvec -> value **)

let qv_value q =
  VTuple ((VSeq (map qline_value q.qv_data)) :: ((VU q.qv_position) :: []))

(** val rss_value : rssupport -> value **)

let rss_value r =
  VTuple ((VSeq
    (map (fun sb -> VTuple ((vseq_u sb) :: [])) r.rs_superblocks)) :: ((VSeq
    (map vseq_u r.rs_samples)) :: []))

(** val rsq_value : rsq -> value **)

let rsq_value r =
  VTuple
    ((qv_value r.rsq_qv) :: ((rss_value r.rsq_rs) :: ((vseq_u
                                                        r.rsq_occs_smaller) :: [])))

(** val bv_value : bitvec -> value **)

let bv_value b =
  VTuple ((VSeq
    (map (fun l -> VTuple ((vseq_u l) :: []))
      (chunks (S (S (S (S (S (S (S (S O)))))))) b.bv_words))) :: ((VU
    b.bv_nbits) :: ((VU b.bv_nones) :: [])))

(** val rsn_value : rsnarrow -> value **)

let rsn_value r =
  VTuple ((bv_value r.rsn_bv) :: ((vseq_u r.rsn_pairs) :: ((VSeq
    ((vseq_u r.rsn_samples0) :: ((vseq_u r.rsn_samples1) :: []))) :: [])))

(** val rsw_value : rswide -> value **)

let rsw_value r =
  VTuple ((bv_value r.rsw_bv) :: ((vseq_u r.rsw_meta) :: ((VSeq
    ((vseq_u r.rsw_samples0) :: ((vseq_u r.rsw_samples1) :: []))) :: ((VU
    r.rsw_n_zeros) :: []))))

(** val i64_bits : z -> n **)

let i64_bits z0 =
  Z.to_N
    (Z.modulo z0
      (Z.pow (Zpos (XO XH)) (Zpos (XO (XO (XO (XO (XO (XO XH)))))))))

(** val inv_value : inventories -> value **)

let inv_value i =
  VTuple ((VU
    i.inv_n_sets) :: ((vseq_u (map i64_bits i.inv_block)) :: ((vseq_u
                                                                i.inv_sub) :: (
    (vseq_u i.inv_overflow) :: []))))

(** val da_value : darray -> value **)

let da_value d =
  VTuple ((bv_value d.da_bv) :: ((inv_value d.da_ones) :: ((VOpt
    (option_map inv_value d.da_zeros)) :: [])))

(** val pfs_value : pfsupport -> value **)

let pfs_value p =
  VTuple ((VSeq (map rsn_value p.pf_samples)) :: ((VU p.pf_shift) :: []))

(** val qwt_value : qwt -> pfsupport list option -> value **)

let qwt_value t pfs =
  VTuple ((VU t.q_n) :: ((VU t.q_n_levels) :: ((VU t.q_sigma) :: ((VSeq
    (map rsq_value t.q_qvs)) :: ((VOpt
    (option_map (fun ps -> VSeq (map pfs_value ps)) pfs)) :: [])))))

(** val code_value : pcode -> value **)

let code_value c =
  VTuple ((VU c.pc_content) :: ((VU c.pc_len) :: []))

(** val decode_value : (n * n) list list -> value **)

let decode_value d =
  VSeq
    (map (fun tab -> VSeq
      (map (fun p -> VTuple ((VU (fst p)) :: ((VU (snd p)) :: []))) tab)) d)

(** val hq_value : hqwt -> pfsupport list option -> value **)

let hq_value t pfs =
  VTuple ((VU t.h_n) :: ((VU t.h_n_levels) :: ((VSeq
    (map code_value t.h_codes)) :: ((decode_value t.h_decode) :: ((VSeq
    (map rsq_value t.h_qvs)) :: ((vseq_u t.h_lens) :: (VUnit :: ((VOpt
    (option_map (fun ps -> VSeq (map pfs_value ps)) pfs)) :: []))))))))

(** val wt_value : bwt -> value **)

let wt_value t =
  VTuple ((VU t.w_n) :: ((VU t.w_n_levels) :: ((VOpt
    (option_map (fun x -> VU x) t.w_sigma)) :: ((VOpt
    (option_map (fun cs -> VSeq (map code_value cs)) t.w_codes)) :: ((VOpt
    (option_map decode_value t.w_decode)) :: ((VSeq
    (map rsw_value t.w_bvs)) :: ((vseq_u t.w_lens) :: (VUnit :: []))))))))

(** val hq_default : hqwt **)

let hq_default =
  { h_n = N0; h_n_levels = N0; h_codes = []; h_decode = []; h_qvs = [];
    h_lens = [] }

(** val rsn_default : rsnarrow **)

let rsn_default =
  { rsn_bv = bv_empty; rsn_pairs = []; rsn_samples0 = []; rsn_samples1 = [] }

(** val rsw_default : rswide **)

let rsw_default =
  { rsw_bv = bv_empty; rsw_meta = []; rsw_samples0 = []; rsw_samples1 = [];
    rsw_n_zeros = N0 }
